import OpyVerif.Model.Clip
import OpyVerif.Model.Tree
import OpyVerif.Model.TreeOps
import OpyVerif.Model.Num
import OpyVerif.Model.TreeEval
import OpyVerif.Model.Machine
import OpyVerif.Proofs.C06
