/-
Model of `opytimizer.utils.history.History`: `_parse`, `dump` (HISTORY_KEYS and
`store_best_only`), `get` (index path + `np.hstack`), `save`/`load` as attribute-dictionary
update.  Records are *values* (nested lists of keys), which is what `.tolist()` produces.
-/
namespace Opy

/-- a recorded value: a number (key), a nested list, or an opaque object (tree, …) -/
inductive Rec where
  | num (k : Int)
  | list (xs : List Rec)
  | obj (tag : Nat)
deriving Repr, BEq

structure Hist where
  storeBestOnly : Bool
  /-- attribute name ↦ list of records, oldest first; attribute order = creation order -/
  attrs : List (String × List Rec)
deriving Repr, BEq

def Hist.lookup (h : Hist) (k : String) : Option (List Rec) := (h.attrs.find? (fun kv => decide (kv.1 = k))).map (·.2)

def appendAttr : List (String × List Rec) → String → Rec → List (String × List Rec)
  | [], k, v => [(k, [v])]
  | (k', l) :: rest, k, v => if k' = k then (k', l ++ [v]) :: rest else (k', l) :: appendAttr rest k v

/-- one `(k, v)` of `dump(**kwargs)`; `v` is the already parsed value (`_parse` turns live
    agents into nested lists; the harness snapshots the live objects at call time) -/
def dump1 (historyKeys : List String) (h : Hist) (kv : String × Rec) : Hist :=
  if historyKeys.contains kv.1 && kv.1 != "best_agent" && h.storeBestOnly then h
  else { h with attrs := appendAttr h.attrs kv.1 kv.2 }

def dump (historyKeys : List String) (h : Hist) (kvs : List (String × Rec)) : Hist :=
  kvs.foldl (dump1 historyKeys) h

/-! ### `get` -/

/-- longest common prefix of two shapes -/
def commonPrefix : List Nat → List Nat → List Nat
  | a :: as, b :: bs => if a = b then a :: commonPrefix as bs else []
  | _, _ => []

mutual
/-- the shape NumPy discovers for a (possibly ragged) nested sequence: the maximal regular
    prefix; below it the entries stay Python objects -/
def shapeOf : Rec → List Nat
  | .num _ => []
  | .obj _ => []
  | .list xs => xs.length :: shapesCommon xs
def shapesCommon : List Rec → List Nat
  | [] => []
  | [x] => shapeOf x
  | x :: y :: rest => commonPrefix (shapeOf x) (shapesCommon (y :: rest))
end

/-- follow an index path -/
def atPath : Rec → List Nat → Option Rec
  | r, [] => some r
  | .list xs, i :: is => match xs[i]? with
    | some x => atPath x is
    | none => none
  | _, _ :: _ => none

inductive GetErr | typeError | sizeError | indexError
deriving Repr, DecidableEq

def Rec.isList : Rec → Bool | .list _ => true | _ => false
def Rec.items : Rec → List Rec | .list xs => xs | r => [r]

/-- `np.hstack` of the per-iteration components: scalars and 1-D arrays are concatenated;
    arrays with ≥ 2 dimensions are concatenated along axis 1 (row-wise) -/
def hstack (parts : List Rec) : Rec :=
  match parts with
  | [] => .list []
  | p :: _ =>
    match p with
    | .list (.list _ :: _) =>
      -- ≥ 2-D: row i of the result is the concatenation of row i of every part
      let nRows := p.items.length
      .list ((List.range nRows).map fun i =>
        .list (parts.flatMap fun q => match q.items[i]? with | some r => r.items | none => []))
    | _ => .list (parts.flatMap Rec.items)

/-- `History.get(key, index)` on the records of one attribute; `isTuple` = the index is a tuple -/
def get (records : List Rec) (isTuple : Bool) (index : List Nat) : Except GetErr Rec :=
  if !isTuple then .error .typeError
  else
    let ndim := (shapeOf (.list records)).length
    if ndim - 1 != index.length then .error .sizeError
    else
      match records.mapM (fun r => atPath r index) with
      | some parts => .ok (hstack parts)
      | none => .error .indexError

/-! ### save / load -/

/-- `self.__dict__.update(h.__dict__)`: saved attributes win, others stay -/
def loadInto (target saved : List (String × List Rec)) : List (String × List Rec) :=
  saved ++ target.filter (fun kv => !(saved.any (fun s => decide (s.1 = kv.1))))

end Opy
