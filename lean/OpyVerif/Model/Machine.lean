import OpyVerif.Model.Clip
/-
The abstract optimiser machine: what every `run()` of the library looks like from outside.

State = population (position, fitness, the position that fitness belongs to, storage
identity), best agent, the log of every objective call so far, the sweep cursor and the
schedule counters.  Events are what the harness observes on the real run (objective calls,
hook calls, clips, dumps) together with the population snapshot that followed; the update
arithmetic of the individual optimisers, the random stream and the accept/reject coins are
*oracle values* carried by the events.  `apply` performs the deterministic part (the sweep
rule, clipping) and checks the guards under which the unobserved part is harmless; it returns
`none` when an event is not explainable by the rules.  Theorems in `Proofs/` quantify over
every event list that `run` accepts.
-/
namespace Opy

structure Ag where
  /-- current position: what the next sweep evaluates -/
  pos : Pos
  /-- the position the stored fitness belongs to (the personal best for the swarm family,
      `pos` for everybody else) -/
  tpos : Pos
  fit : Int
  /-- identity of the position storage -/
  ref : Nat
deriving Repr, DecidableEq

structure Cfg where
  /-- key of `FLOAT_MAX`, the initial fitness sentinel -/
  fmax : Int
  /-- swarm family: the sweep keeps personal bests (`PSO._evaluate`) -/
  swarm : Bool
  lbs : List Int
  ubs : List Int
deriving Repr

structure St where
  pop : List Ag
  best : Ag
  /-- every objective call so far, oldest first: (argument, value) -/
  evals : List (Pos × Int)
  /-- agents already evaluated by the sweep in progress (`pop.length` = no sweep in progress) -/
  cursor : Nat
  /-- a sweep has completed and nothing has been evaluated since -/
  swept : Bool
  /-- every agent evaluated by the sweep in progress holds a truthful record -/
  tp : Bool
  /-- every agent holds a truthful record -/
  truthful : Bool
  hooks : Nat
  dumps : Nat
  /-- objective calls since the last hook -/
  sinceHook : Nat
  /-- best fitness recorded by each dump, oldest first -/
  bestLog : List Int
  /-- `truthful` as it stood at each dump -/
  truthLog : List Bool
  /-- population fitness vector at each dump -/
  fitLog : List (List Int)
deriving Repr

inductive Ev where
  /-- the pre-evaluation hook returned; the population as it left it -/
  | hook (pop' : List Ag)
  /-- unobserved update arithmetic changed the population (no objective call) -/
  | update (pop' : List Ag)
  /-- one objective call outside the sweep and the population afterwards -/
  | trial (p : Pos) (v : Int) (pop' : List Ag)
  /-- black-hole step: agent `i` evaluated in place at `p`, strictly better than the best,
      exchanged with it (storage identities travel with the positions) -/
  | trialSwap (p : Pos) (v : Int) (i : Nat)
  /-- the sweep evaluates the agent under the cursor; `tie` = on an exact tie with the best
      the implementation took the new pair; `ref'` = identity of the best's new storage -/
  | sweep (v : Int) (tie : Bool) (ref' : Nat)
  /-- space-wide limit enforcement -/
  | clipAll
  | dump
deriving Repr

def truthB (evals : List (Pos × Int)) (a : Ag) : Bool := evals.contains (a.tpos, a.fit)

/-- same argument → same value as every earlier call -/
def consistentB (evals : List (Pos × Int)) (p : Pos) (v : Int) : Bool :=
  evals.all (fun e => !(e.1 == p) || e.2 == v)

/-- guards of a population change from `pop` to `pop'` (log after the change: `evals'`):
    every new agent is anchored, and whatever a replaced agent vouched for is still vouched
    for by the best or by some truthful agent that is at least as good -/
def changeOkB (best : Ag) (evals evals' : List (Pos × Int)) (pop pop' : List Ag) : Bool :=
  pop'.all (fun b => truthB evals' b || decide (best.fit ≤ b.fit)) &&
  pop.all (fun a => !truthB evals a || decide (best.fit ≤ a.fit) ||
    pop'.any (fun b => truthB evals' b && decide (b.fit ≤ a.fit)))

def coveredB (best : Ag) (evals' : List (Pos × Int)) (pop' : List Ag) (v : Int) : Bool :=
  decide (best.fit ≤ v) || pop'.any (fun b => truthB evals' b && decide (b.fit ≤ v))

/-- limit enforcement on one agent; outside the swarm family the stored fitness is tied to the
    current position, so `tpos` follows it -/
def clipAg (cfg : Cfg) (a : Ag) : Ag :=
  let p := clipPos cfg.lbs cfg.ubs a.pos
  { a with pos := p, tpos := if cfg.swarm then a.tpos else p }

/-- the loop body of `Optimizer._evaluate` / `PSO._evaluate` for the agent under the cursor -/
def sweepAgent (cfg : Cfg) (a : Ag) (v : Int) : Ag :=
  if cfg.swarm then
    (if v < a.fit then { a with fit := v, tpos := a.pos } else a)
  else { a with fit := v, tpos := a.pos }

/-- does the sweep replace the best by the pair of `a'`?  (`tie`: taken on an exact tie) -/
def takes (best a' : Ag) (tie : Bool) : Bool := decide (a'.fit < best.fit) || (tie && a'.fit == best.fit)

def bestOf (a' : Ag) (ref' : Nat) : Ag := { pos := a'.tpos, tpos := a'.tpos, fit := a'.fit, ref := ref' }

def apply (cfg : Cfg) (s : St) : Ev → Option St
  | .hook pop' =>
    if changeOkB s.best s.evals s.evals s.pop pop' && pop'.length == s.pop.length
        && s.cursor == s.pop.length then
      some { s with pop := pop', cursor := 0, tp := true, hooks := s.hooks + 1, sinceHook := 0,
                    truthful := s.truthful && pop'.all (truthB s.evals) }
    else none
  | .update pop' =>
    if changeOkB s.best s.evals s.evals s.pop pop' && pop'.length == s.pop.length
        && s.cursor == s.pop.length then
      some { s with pop := pop', truthful := s.truthful && pop'.all (truthB s.evals) }
    else none
  | .trial p v pop' =>
    let evals' := s.evals ++ [(p, v)]
    if consistentB s.evals p v && decide (v < cfg.fmax) && truthB s.evals s.best
        && changeOkB s.best s.evals evals' s.pop pop' && coveredB s.best evals' pop' v
        && pop'.length == s.pop.length && s.cursor == s.pop.length then
      some { s with pop := pop', evals := evals', swept := false, sinceHook := s.sinceHook + 1,
                    truthful := s.truthful && pop'.all (truthB evals') }
    else none
  | .trialSwap p v i =>
    match s.pop[i]? with
    | none => none
    | some a =>
      if consistentB s.evals p v && decide (v < s.best.fit) && truthB s.evals s.best
          && a.pos == p && s.cursor == s.pop.length
          && (!truthB s.evals a || decide (s.best.fit ≤ a.fit)) then
        some { s with pop := s.pop.set i { pos := s.best.pos, tpos := s.best.tpos, fit := s.best.fit, ref := s.best.ref },
                      best := { pos := p, tpos := p, fit := v, ref := a.ref },
                      evals := s.evals ++ [(p, v)], swept := false, sinceHook := s.sinceHook + 1 }
      else none
  | .sweep v tie ref' =>
    match s.pop[s.cursor]? with
    | none => none
    | some a =>
      let evals' := s.evals ++ [(a.pos, v)]
      let a' := sweepAgent cfg a v
      if consistentB s.evals a.pos v && decide (v < cfg.fmax) && (cfg.swarm || a.tpos == a.pos)
          && (!(tie && a'.fit == s.best.fit) || truthB evals' a') then
        some { s with pop := s.pop.set s.cursor a',
                      best := if takes s.best a' tie then bestOf a' ref' else s.best,
                      evals := evals',
                      cursor := s.cursor + 1,
                      swept := (s.cursor + 1 == s.pop.length),
                      tp := s.tp && truthB evals' a',
                      truthful := (s.cursor + 1 == s.pop.length) && s.tp && truthB evals' a',
                      sinceHook := s.sinceHook + 1 }
      else none
  | .clipAll =>
    if s.cursor == s.pop.length then
      let pop' := s.pop.map (clipAg cfg)
      if changeOkB s.best s.evals s.evals s.pop pop' then
        some { s with pop := pop', truthful := s.truthful && pop'.all (truthB s.evals) }
      else none
    else none
  | .dump =>
    if s.swept && s.cursor == s.pop.length then
      some { s with dumps := s.dumps + 1, bestLog := s.bestLog ++ [s.best.fit],
                    truthLog := s.truthLog ++ [s.truthful],
                    fitLog := s.fitLog ++ [s.pop.map (·.fit)] }
    else none

def run (cfg : Cfg) : St → List Ev → Option St
  | s, [] => some s
  | s, e :: es =>
    match apply cfg s e with
    | some s' => run cfg s' es
    | none => none

/-- a freshly built space: nothing evaluated, every fitness is the sentinel -/
def initSt (pop : List Ag) (best : Ag) : St :=
  { pop := pop, best := best, evals := [], cursor := pop.length, swept := false, tp := false,
    truthful := false, hooks := 0, dumps := 0, sinceHook := 0, bestLog := [], truthLog := [],
    fitLog := [] }

end Opy
