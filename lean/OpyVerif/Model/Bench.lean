import OpyVerif.Model.Num
/-!
The 17 active functions of `opytimizer/math/benchmark.py`, each written once over `Elem α`.
Every definition transcribes the closed form of the docstring in the operation order of the code
(left-associated products such as `2 * np.pi * x` = `(2 * pi) * x`, `-1 / n * term` =
`((-1) / n) * term`, `1 / 2 * term` = `(1 / 2) * term`).  Integer powers `x ** k` are written as
repeated multiplication (`pw2 … pw6`); `np.sum` is `sumL`, `np.prod` is `prodL`, `x.shape[0]` is
`ofNat' x.length`, `np.e` is `exp 1`.
-/
namespace Opy

section
variable {α : Type} [Elem α]
open Elem

/-- `z = 1; for v in xs: z = z * v` (`np.prod`) -/
def prodL (xs : List α) : α := xs.foldl (· * ·) (ofNat' 1)

/-- `v ** 2` … `v ** 6` as left-associated repeated multiplication -/
def pw2 (v : α) : α := v * v
def pw3 (v : α) : α := v * v * v
def pw4 (v : α) : α := v * v * v * v
def pw5 (v : α) : α := v * v * v * v * v
def pw6 (v : α) : α := v * v * v * v * v * v

/-- `y = sum(x^2)` -/
def sphere (x : List α) : α := sumL (x.map fun v => pw2 v)

/-- `y = 20 - 20 * exp(-0.2 * sqrt(1 / n * sum(x^2))) + e - exp(1 / n * sum(cos(2 * pi * x)))` -/
def ackley1 (x : List α) : α :=
  ofNat' 20
    - ofNat' 20 * exp (-(ofSci 2 true 1)
        * sqrt (ofNat' 1 / ofNat' x.length * sumL (x.map fun v => pw2 v)))
    + exp (ofNat' 1)
    - exp (ofNat' 1 / ofNat' x.length * sumL (x.map fun v => cos (ofNat' 2 * pi * v)))

/-- `y = sum(fabs(x * sin(x) + 0.1 * x))` -/
def alpine1 (x : List α) : α := sumL (x.map fun v => abs (v * sin v + ofSci 1 true 1 * v))

/-- `y = -prod(sqrt(x) * sin(x))` -/
def alpine2 (x : List α) : α := -(prodL (x.map fun v => sqrt v * sin v))

/-- `y = sum((x_i^2)^(x_{i+1}^2+1) + (x_{i+1}^2)^(x_i^2+1))`, `i = 1 … n-1`
    (`x[:-1]` paired with `x[1:]`) -/
def brown (x : List α) : α :=
  sumL ((x.zip x.tail).map fun p =>
    pow (pw2 p.1) (pw2 p.2 + ofNat' 1) + pow (pw2 p.2) (pw2 p.1 + ofNat' 1))

/-- `y = (sum(x^2))^2` -/
def chung_reynolds (x : List α) : α := pw2 (sphere x)

/-- `y = 0.1 * sum(cos(5 * PI * x)) - sum(x^2)` -/
def cosine_mixture (x : List α) : α :=
  ofSci 1 true 1 * sumL (x.map fun v => cos (ofNat' 5 * pi * v)) - sumL (x.map fun v => pw2 v)

/-- `y = sum(x^6 * (2 + sin(1 / x)))` -/
def csendes (x : List α) : α := sumL (x.map fun v => pw6 v * (ofNat' 2 + sin (ofNat' 1 / v)))

/-- `y = (-1 / n) * sum(sin(5 * pi * x)^6)` -/
def deb1 (x : List α) : α :=
  -(ofNat' 1) / ofNat' x.length * sumL (x.map fun v => pw6 (sin (ofNat' 5 * pi * v)))

/-- `y = (-1 / n) * sum(sin(5 * pi * (x^(3/4) - 0.05))^6)` -/
def deb2 (x : List α) : α :=
  -(ofNat' 1) / ofNat' x.length
    * sumL (x.map fun v => pw6 (sin (ofNat' 5 * pi * (pow v (ofNat' 3 / ofNat' 4) - ofSci 5 true 2))))

/-- `y = -exp(-0.5 * sum(x^2))` -/
def exponential (x : List α) : α := -(exp (-(ofSci 5 true 1) * sphere x))

/-- `y = sum(abs(x^5 - 3x^4 + 4x^3 + 2x^2 - 10x - 4))` -/
def quintic (x : List α) : α :=
  sumL (x.map fun v =>
    abs (pw5 v - ofNat' 3 * pw4 v + ofNat' 4 * pw3 v + ofNat' 2 * pw2 v - ofNat' 10 * v - ofNat' 4))

/-- `y = A * n + sum(x^2 - A * cos(2 * pi * x))`, `A = 10` -/
def rastringin (x : List α) : α :=
  ofNat' 10 * ofNat' x.length
    + sumL (x.map fun v => pw2 v - ofNat' 10 * cos (ofNat' 2 * pi * v))

/-- `y = 1 - cos(2 * pi * sqrt(sum(x^2))) + 0.1 * sqrt(sum(x^2))` -/
def salomon (x : List α) : α :=
  ofNat' 1 - cos (ofNat' 2 * pi * sqrt (sphere x)) + ofSci 1 true 1 * sqrt (sphere x)

/-- `y = sum(x^4)` -/
def schumer_steiglitz (x : List α) : α := sumL (x.map fun v => pw4 v)

/-- `y = 418.9829 * n - sum(x * sin(sqrt(fabs(x))))` -/
def schwefel (x : List α) : α :=
  ofSci 4189829 true 4 * ofNat' x.length - sumL (x.map fun v => v * sin (sqrt (abs v)))

/-- `y = 1/2 * sum(x^4 - 16x^2 + 5x)` -/
def styblinski_tang (x : List α) : α :=
  ofNat' 1 / ofNat' 2 * sumL (x.map fun v => pw4 v - ofNat' 16 * pw2 v + ofNat' 5 * v)

end

/-- the active functions of `benchmark.py`, by their Python names -/
def benchNames : List String :=
  ["ackley1", "alpine1", "alpine2", "brown", "chung_reynolds", "cosine_mixture", "csendes",
   "deb1", "deb2", "exponential", "quintic", "rastringin", "salomon", "schumer_steiglitz",
   "schwefel", "sphere", "styblinski_tang"]

/-- Python name ↦ the `Float` instance of the model -/
def benchByName : String → Option (List Float → Float)
  | "ackley1" => some ackley1
  | "alpine1" => some alpine1
  | "alpine2" => some alpine2
  | "brown" => some brown
  | "chung_reynolds" => some chung_reynolds
  | "cosine_mixture" => some cosine_mixture
  | "csendes" => some csendes
  | "deb1" => some deb1
  | "deb2" => some deb2
  | "exponential" => some exponential
  | "quintic" => some quintic
  | "rastringin" => some rastringin
  | "salomon" => some salomon
  | "schumer_steiglitz" => some schumer_steiglitz
  | "schwefel" => some schwefel
  | "sphere" => some sphere
  | "styblinski_tang" => some styblinski_tang
  | _ => none

end Opy
