import OpyVerif.Model.Tree
/-
Model of the tree-producing operations: `TreeSpace.grow`, `copy.deepcopy` of a tree,
`GP._mutate`, `GP._cross` (pointer write by pointer write) and `GP._reproduction`.
Random draws, selected individuals and crossover / mutation points are oracle values.
-/
namespace Opy
namespace PNode

/-- the code's re-linking of a branch it hangs under node `pid`:
    `branch.flag = side; branch.parent = node` -/
def relink (pid : Nat) (side : Bool) : PNode → PNode
  | nil => nil
  | mk i lb _ _ l r => mk i lb (some pid) side l r

/-- `node.left = b` / `node.right = b` on the node with identity `pid`, followed by the
    re-linking of `b`; every other node is untouched -/
def setChild (pid : Nat) (side : Bool) (b : PNode) : PNode → PNode
  | nil => nil
  | mk i lb par flag l r =>
      if i = pid then
        (if side then mk i lb par flag (relink pid side b) r else mk i lb par flag l (relink pid side b))
      else mk i lb par flag (setChild pid side b l) (setChild pid side b r)

/-- the child hanging in slot `(pid, side)` -/
def childOf (pid : Nat) (side : Bool) (t : PNode) : PNode :=
  match lookup pid t with
  | some n => if side then n.leftOf else n.rightOf
  | none => nil

/-- `copy.deepcopy(tree)`: a structurally equal tree on fresh identities (`id + k`);
    stored links are remapped with the nodes they point to -/
def shift (k : Nat) : PNode → PNode
  | nil => nil
  | mk i lb par flag l r => mk (i + k) lb (par.map (· + k)) flag (shift k l) (shift k r)

/-- `GP._mutate` after the copy: `find_node(point)`; a slot → graft the grown branch there,
    no slot → the grown tree replaces the whole individual.  `none` = the code raises. -/
def mutate (t : PNode) (point : Nat) (branch : PNode) : Option PNode :=
  match findNode t point with
  | .error => none
  | .slot pid side => some (setChild pid side branch t)
  | .noSlot => some branch

/-- `GP._cross` after the two copies.  With both slots present the code performs
    `branch = sub_father.<sf>`; `sub_father.<sf> = sub_mother.<sm>` with `flag`, `parent`
    rewritten; `sub_mother.<sm> = branch` with `flag`, `parent` rewritten — i.e. two
    `setChild`s exchanging the two subtrees.  Otherwise the copies are returned unchanged. -/
def cross (f m : PNode) (pf pm : Nat) : Option (PNode × PNode) :=
  match findNode f pf, findNode m pm with
  | .error, _ => none
  | _, .error => none
  | .slot sf ff, .slot sm fm =>
    let branch := childOf sf ff f
    let moved := childOf sm fm m
    some (setChild sf ff moved f, setChild sm fm branch m)
  | _, _ => some (f, m)

/-! ### GROW -/

structure GrowCfg where
  /-- operator codes of the space's function set, in order -/
  funcs : List Nat
  /-- `N_ARGS_FUNCTION` by operator code -/
  ar : Nat → Nat
  nTerminals : Nat

/-- `TreeSpace.grow(min_depth, max_depth)` with `k = max_depth - min_depth`.
    State: remaining integer draws, next fresh identity.  Terminal `j` holds array `j + 1`
    (the space's `terminals[j].position`, by reference).  `none`: draws exhausted or a draw
    outside its range (cannot happen for `⌊low + (high-low)·u⌋`, `u ∈ [0,1)`). -/
def grow (cfg : GrowCfg) : Nat → List Nat → Nat → Option (PNode × List Nat × Nat)
  | 0, d :: ds, nid =>
      if d < cfg.nTerminals then some (mk nid ⟨true, d, d + 1⟩ none true nil nil, ds, nid + 1) else none
  | k+1, d :: ds, nid =>
      if d < cfg.funcs.length then
        let op := cfg.funcs[d]!
        if cfg.ar op = 1 then
          match grow cfg k ds (nid + 1) with
          | some (c, ds1, n1) => some (mk nid ⟨false, op, 0⟩ none true (relink nid true c) nil, ds1, n1)
          | none => none
        else if cfg.ar op = 2 then
          match grow cfg k ds (nid + 1) with
          | some (c1, ds1, n1) =>
            match grow cfg k ds1 n1 with
            | some (c2, ds2, n2) =>
              some (mk nid ⟨false, op, 0⟩ none true (relink nid true c1) (relink nid false c2), ds2, n2)
            | none => none
          | none => none
        else none
      else if d < cfg.funcs.length + cfg.nTerminals then
        let j := d - cfg.funcs.length
        some (mk nid ⟨true, j, j + 1⟩ none true nil nil, ds, nid + 1)
      else none
  | _, [], _ => none

/-! ### reproduction -/

/-- first index of the maximum (`np.argmax`) -/
def argmaxFirst : List Int → Nat
  | [] => 0
  | x :: xs =>
    let j := argmaxFirst xs
    match xs[j]? with
    | some y => if x < y then j + 1 else 0
    | none => 0

/-- one round of `GP._reproduction`: the first arg-max of the working fitness list is
    overwritten in both lists by (copies of) entry `s`, and its working fitness set to 0.
    `α`/`β` are whatever trees and agents are; copying is `cpT`/`cpA`. -/
def reproStep {α β : Type} (cpT : α → α) (cpA : β → β)
    (st : List α × List β × List Int) (s : Nat) : List α × List β × List Int :=
  let (trees, agents, fit) := st
  let w := argmaxFirst fit
  match trees[s]?, agents[s]? with
  | some t, some a => (trees.set w (cpT t), agents.set w (cpA a), fit.set w 0)
  | _, _ => st

def reproduction {α β : Type} (cpT : α → α) (cpA : β → β)
    (trees : List α) (agents : List β) (fit : List Int) (selected : List Nat) :
    List α × List β × List Int :=
  selected.foldl (reproStep cpT cpA) (trees, agents, fit)

end PNode
end Opy
