import OpyVerif.Model.Clip
import OpyVerif.Model.Machine
import OpyVerif.Model.Tree
import OpyVerif.Model.History
/-
Line-protocol encodings shared by the driver (not part of any theorem).
  Int list : `1,2,3`      (`-` = empty)
  Pos      : `1,2;3,4`    (`-` = empty)
  Pop      : `pos|pos|…`
  Ag       : `pos~tpos~fit~ref`, agents joined by `|`
  Tree     : pre-order with explicit nil markers, joined by `/`:
             `N:id:isTerm:name:arr:par:flag` (par = -1 for none), `_` for nil
  Rec      : tokens `[` `]` `n<int>` `o<nat>` separated by `.`
-/
namespace Opy.Proto

def parseInts (s : String) : Option (List Int) :=
  if s == "-" then some [] else (s.splitOn ",").mapM String.toInt?

def parseNats (s : String) : Option (List Nat) :=
  if s == "-" then some [] else (s.splitOn ",").mapM String.toNat?

def parsePos (s : String) : Option Pos :=
  if s == "-" then some [] else (s.splitOn ";").mapM parseInts

def parsePop (s : String) : Option (List Pos) :=
  if s == "-" then some [] else (s.splitOn "|").mapM parsePos

def showInts (l : List Int) : String := if l.isEmpty then "-" else ",".intercalate (l.map toString)
def showNats (l : List Nat) : String := if l.isEmpty then "-" else ",".intercalate (l.map toString)
def showPos (p : Pos) : String := if p.isEmpty then "-" else ";".intercalate (p.map showInts)
def showPop (p : List Pos) : String := if p.isEmpty then "-" else "|".intercalate (p.map showPos)

def parseAg (s : String) : Option Ag :=
  match s.splitOn "~" with
  | [p, t, f, r] => do
    let p ← parsePos p; let t ← parsePos t; let f ← f.toInt?; let r ← r.toNat?
    pure { pos := p, tpos := t, fit := f, ref := r }
  | _ => none

def parseAgs (s : String) : Option (List Ag) :=
  if s == "-" then some [] else (s.splitOn "|").mapM parseAg

def showAg (a : Ag) : String := s!"{showPos a.pos}~{showPos a.tpos}~{a.fit}~{a.ref}"
def showAgs (l : List Ag) : String := if l.isEmpty then "-" else "|".intercalate (l.map showAg)

/-! trees -/
def parseTreeToks : Nat → List String → Option (PNode × List String)
  | 0, _ => none
  | _, [] => none
  | fuel+1, tok :: rest =>
    if tok == "_" then some (.nil, rest)
    else match tok.splitOn ":" with
      | ["N", i, isT, name, arr, par, flag] => do
        let i ← i.toNat?; let name ← name.toNat?; let arr ← arr.toNat?
        let par ← par.toInt?
        let (l, rest1) ← parseTreeToks fuel rest
        let (r, rest2) ← parseTreeToks fuel rest1
        pure (.mk i ⟨isT == "1", name, arr⟩ (if par < 0 then none else some par.toNat) (flag == "1") l r, rest2)
      | _ => none

def parseTree (s : String) : Option PNode :=
  let toks := s.splitOn "/"
  match parseTreeToks (toks.length + 1) toks with
  | some (t, []) => some t
  | _ => none

def showTree : PNode → String
  | .nil => "_"
  | .mk i lb par flag l r =>
    let p : Int := match par with | none => -1 | some q => q
    s!"N:{i}:{if lb.isTerm then 1 else 0}:{lb.name}:{lb.arr}:{p}:{if flag then 1 else 0}/{showTree l}/{showTree r}"

/-- canonical form up to renaming of identities: identities become pre-order indices, stored
    parents become the pre-order index of the node they point to (`-2` = points outside the
    tree, `-1` = none) -/
def canonTree (t : PNode) : String :=
  let ids := t.ids
  let idx (i : Nat) : Int := match ids.idxOf? i with | some k => k | none => -2
  let rec go : PNode → String
    | .nil => "_"
    | .mk i lb par flag l r =>
      let p : Int := match par with | none => -1 | some q => idx q
      s!"N:{idx i}:{if lb.isTerm then 1 else 0}:{lb.name}:{lb.arr}:{p}:{if flag then 1 else 0}/{go l}/{go r}"
  go t

/-! records -/
partial def parseRecToks : List String → Option (Rec × List String)
  | [] => none
  | tok :: rest =>
    if tok == "[" then
      let rec loop (acc : List Rec) (ts : List String) : Option (Rec × List String) :=
        match ts with
        | [] => none
        | "]" :: ts' => some (.list acc.reverse, ts')
        | _ => match parseRecToks ts with
          | some (r, ts') => loop (r :: acc) ts'
          | none => none
      loop [] rest
    else if tok.startsWith "n" then (tok.drop 1).toInt?.map (fun k => (.num k, rest))
    else if tok.startsWith "o" then (tok.drop 1).toNat?.map (fun k => (.obj k, rest))
    else none

def parseRec (s : String) : Option Rec :=
  match parseRecToks (s.splitOn ".") with
  | some (r, []) => some r
  | _ => none

partial def showRec : Rec → String
  | .num k => s!"n{k}"
  | .obj k => s!"o{k}"
  | .list xs => ".".intercalate (["["] ++ xs.map showRec ++ ["]"])

end Opy.Proto
