import OpyVerif.Model.Clip
/-!
The three `check_limits` methods as the translator reads them from the source: a loop over
`enumerate(zip(<left>, <right>))` whose body is the single assignment
`X.position[j] = np.clip(X.position[j], <lo>, <hi>)`, optionally inside `for agent in self.agents`.
`ClipLoop.run` gives such a loop its meaning over keys; `Proofs/ClipProg.lean` proves that the three
expected loops are `clipPos` / `clipAll` / `clipAllHyper` of `Model/Clip` (for every bound vector
and every population), and `Generated/ClipLoops.lean` re-decides on every build that the current
source still reads as the expected loops.
-/
namespace Opy

/-- where a clip bound comes from: the first / second component of the zipped pair, or a literal
    (given as the key of the double it denotes) -/
inductive BRef where
  | zipFst | zipSnd | lit (key : Int) | unknown
deriving DecidableEq, Repr

/-- one of the attributes a loop may zip over -/
inductive BSrc where
  | lb | ub | other
deriving DecidableEq, Repr

structure ClipLoop where
  /-- wrapped in `for agent in self.agents` (space-level) or not (agent-level) -/
  perAgent : Bool
  zipL : BSrc
  zipR : BSrc
  /-- the assignment target and the clipped value are both `X.position[j]`, `X` the loop's agent,
      `j` the enumerate index -/
  targetIsRowJ : Bool
  sourceIsRowJ : Bool
  lo : BRef
  hi : BRef
  /-- statements in the loop nest other than the clip assignment (comments/docstrings excluded) -/
  extraStmts : Nat
deriving DecidableEq, Repr

def BSrc.pick (lbs ubs : List Int) : BSrc → List Int
  | .lb => lbs | .ub => ubs | .other => []

def BRef.pick (p : Int × Int) : BRef → Int
  | .zipFst => p.1 | .zipSnd => p.2 | .lit k => k | .unknown => 0

/-- rows `j < len(zip(..))` are clipped with the bounds the loop names; later rows are untouched -/
def clipRows (lo hi : BRef) : List (Int × Int) → Pos → Pos
  | p :: ps, r :: rows => clipRow (lo.pick p) (hi.pick p) r :: clipRows lo hi ps rows
  | _, rows => rows

/-- a loop is readable when nothing but the recognised clip assignment happens in it -/
def ClipLoop.wellFormed (c : ClipLoop) : Bool :=
  c.targetIsRowJ && c.sourceIsRowJ && c.extraStmts == 0 && c.lo != .unknown && c.hi != .unknown
    && c.zipL != .other && c.zipR != .other

/-- the position one agent is left with -/
def ClipLoop.runPos (c : ClipLoop) (lbs ubs : List Int) (p : Pos) : Pos :=
  clipRows c.lo c.hi (List.zip (c.zipL.pick lbs ubs) (c.zipR.pick lbs ubs)) p

/-- the population a space-level loop leaves behind -/
def ClipLoop.runAll (c : ClipLoop) (lbs ubs : List Int) (pop : List Pos) : List Pos :=
  pop.map (c.runPos lbs ubs)

namespace Expected
/-- `Agent.check_limits` -/
def agentClip : ClipLoop :=
  { perAgent := false, zipL := .lb, zipR := .ub, targetIsRowJ := true, sourceIsRowJ := true,
    lo := .zipFst, hi := .zipSnd, extraStmts := 0 }
/-- `SearchSpace.check_limits` -/
def searchClip : ClipLoop := { agentClip with perAgent := true }
/-- `HyperSpace.check_limits`: literal bounds `0` and `1` -/
def hyperClip : ClipLoop := { searchClip with lo := .lit keyZero, hi := .lit keyOne }
/-- every write to an agent's / space's / terminal's `lb`, `ub`, `position` outside property setters and
    `check_limits`: (class, method, target, enclosing loops :: value).  Unit bounds and a zero position from
    `Agent.__init__`; the declared bounds copied row by row by Search/TreeSpace together with a draw between
    them; HyperSpace draws from the default unit interval and leaves the agents' unit bounds alone
    (`Model/Clip.initSearch` / `initHyper`). -/
def boundWrites : List (String × String × String × String) := [
  ("Agent", "__init__", "self.position", "np.zeros((n_variables, n_dimensions))"),
  ("Agent", "__init__", "self.lb", "np.zeros(n_variables)"),
  ("Agent", "__init__", "self.ub", "np.ones(n_variables)"),
  ("Space", "__init__", "self.lb", "np.zeros(n_variables)"),
  ("Space", "__init__", "self.ub", "np.ones(n_variables)"),
  ("Space", "_build", "self.lb", "np.asarray(lower_bound)"),
  ("Space", "_build", "self.ub", "np.asarray(upper_bound)"),
  ("SearchSpace", "_initialize_agents", "v1.position[v2]", "for v1 in self.agents / for (v2, (v3, v4)) in enumerate(zip(self.lb, self.ub)) :: r.generate_uniform_random_number(v3, v4, size=v1.n_dimensions)"),
  ("SearchSpace", "_initialize_agents", "v1.lb[v2]", "for v1 in self.agents / for (v2, (v3, v4)) in enumerate(zip(self.lb, self.ub)) :: v3"),
  ("SearchSpace", "_initialize_agents", "v1.ub[v2]", "for v1 in self.agents / for (v2, (v3, v4)) in enumerate(zip(self.lb, self.ub)) :: v4"),
  ("HyperSpace", "_initialize_agents", "v1.position[v2]", "for v1 in self.agents / for (v2, _) in enumerate(v1.position) :: r.generate_uniform_random_number(size=v1.n_dimensions)"),
  ("TreeSpace", "_initialize_agents", "v1.position[v2]", "for v1 in self.agents / for (v2, (v3, v4)) in enumerate(zip(self.lb, self.ub)) :: r.generate_uniform_random_number(v3, v4, size=v1.n_dimensions)"),
  ("TreeSpace", "_initialize_agents", "v1.lb[v2]", "for v1 in self.agents / for (v2, (v3, v4)) in enumerate(zip(self.lb, self.ub)) :: v3"),
  ("TreeSpace", "_initialize_agents", "v1.ub[v2]", "for v1 in self.agents / for (v2, (v3, v4)) in enumerate(zip(self.lb, self.ub)) :: v4"),
  ("TreeSpace", "_initialize_terminals", "v1.position[v2]", "for v1 in self.terminals / for (v2, (v3, v4)) in enumerate(zip(self.lb, self.ub)) :: r.generate_uniform_random_number(v3, v4, size=v1.n_dimensions)"),
  ("TreeSpace", "_initialize_terminals", "v1.lb[v2]", "for v1 in self.terminals / for (v2, (v3, v4)) in enumerate(zip(self.lb, self.ub)) :: v3"),
  ("TreeSpace", "_initialize_terminals", "v1.ub[v2]", "for v1 in self.terminals / for (v2, (v3, v4)) in enumerate(zip(self.lb, self.ub)) :: v4")]
end Expected

end Opy
