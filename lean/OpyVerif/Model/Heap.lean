import OpyVerif.Model.TreeOps
/-!
Node objects as a heap of cells with mutable fields, and a small language of field writes — the level at which
`GP._cross` and `GP._mutate` are written (`sub_father.left = sub_mother.right`, `branch.flag = True`,
`branch.parent = sub_tree`, …).  `Proofs/Heap.lean` proves that the expected programs, run on the heap of the two
parents, leave exactly the trees the functional model (`PNode.cross`, `PNode.mutate`: two `setChild`s) describes.
Core Lean only; computable (the driver runs the translated programs).
-/
namespace Opy
open PNode

structure Cell where
  lbl : Lbl
  par : Option Nat
  flag : Bool
  left : Option Nat
  right : Option Nat
deriving Repr, DecidableEq

abbrev Heap := Nat → Option Cell

def Heap.set (h : Heap) (i : Nat) (c : Cell) : Heap := fun j => if j = i then some c else h j

/-- the objects of a tree -/
def heapOf : PNode → Heap
  | nil => fun _ => none
  | mk i lb p f l r => fun j => if j = i then some ⟨lb, p, f, l.id?, r.id?⟩ else (heapOf l j).or (heapOf r j)

def Heap.union (a b : Heap) : Heap := fun j => (a j).or (b j)

/-- the tree hanging from object `i`, read through the child pointers -/
def toTree (h : Heap) : Nat → Option Nat → PNode
  | 0, _ => nil
  | _ + 1, none => nil
  | fuel + 1, some i =>
    match h i with
    | none => nil
    | some c => mk i c.lbl c.par c.flag (toTree h fuel c.left) (toTree h fuel c.right)

/-! ### field-write programs -/

inductive HRef where
  | var (name : String)
  | left (r : HRef)
  | right (r : HRef)
  | parent (r : HRef)
deriving Repr, DecidableEq

inductive HCond where
  /-- a boolean local (`flag_father`, `flag`) -/
  | flag (name : String)
  /-- `if x:` on a node-or-None local -/
  | isNode (name : String)
  | and (a b : HCond)
deriving Repr, DecidableEq

inductive HStmt where
  | skip
  | seq (a b : HStmt)
  /-- `name = <ref>` -/
  | assign (name : String) (r : HRef)
  | setLeft (tgt v : HRef)
  | setRight (tgt v : HRef)
  | setParent (tgt v : HRef)
  | setFlag (tgt : HRef) (b : Bool)
  | ite (c : HCond) (t e : HStmt)
  | unknown (what : String)
deriving Repr, DecidableEq

structure HState where
  heap : Heap
  /-- node-valued locals (`none` = Python `None`) -/
  env : String → Option Nat
  /-- boolean locals -/
  flags : String → Bool

/-- value of a reference: `none` = the code raises (attribute of `None`), `some none` = `None` -/
def HRef.eval (s : HState) : HRef → Option (Option Nat)
  | .var n => some (s.env n)
  | .left r => match r.eval s with
    | some (some i) => (s.heap i).map (·.left)
    | _ => none
  | .right r => match r.eval s with
    | some (some i) => (s.heap i).map (·.right)
    | _ => none
  | .parent r => match r.eval s with
    | some (some i) => (s.heap i).map (·.par)
    | _ => none

def HCond.eval (s : HState) : HCond → Bool
  | .flag n => s.flags n
  | .isNode n => (s.env n).isSome
  | .and a b => a.eval s && b.eval s

/-- the object a write goes to: it must be a node -/
def HState.target (s : HState) (r : HRef) : Option (Nat × Cell) :=
  match r.eval s with
  | some (some i) => (s.heap i).map (fun c => (i, c))
  | _ => none

def HStmt.run : HStmt → HState → Option HState
  | .skip, s => some s
  | .seq a b, s => match a.run s with
    | some s1 => b.run s1
    | none => none
  | .assign n r, s => match r.eval s with
    | some v => some { s with env := fun m => if m = n then v else s.env m }
    | none => none
  | .setLeft t v, s => match s.target t, v.eval s with
    | some (i, c), some x => some { s with heap := s.heap.set i { c with left := x } }
    | _, _ => none
  | .setRight t v, s => match s.target t, v.eval s with
    | some (i, c), some x => some { s with heap := s.heap.set i { c with right := x } }
    | _, _ => none
  | .setParent t v, s => match s.target t, v.eval s with
    | some (i, c), some x => some { s with heap := s.heap.set i { c with par := x } }
    | _, _ => none
  | .setFlag t b, s => match s.target t with
    | some (i, c) => some { s with heap := s.heap.set i { c with flag := b } }
    | none => none
  | .ite c t e, s => if c.eval s then t.run s else e.run s
  | .unknown _, _ => none

namespace Expected

/-- the body of `if sub_tree:` in `GP._mutate` (after `branch = space.grow(…)`) -/
def mutateBody : HStmt :=
  .seq (.ite (.flag "flag")
        (.seq (.setLeft (.var "sub_tree") (.var "branch")) (.setFlag (.var "branch") true))
        (.seq (.setRight (.var "sub_tree") (.var "branch")) (.setFlag (.var "branch") false)))
       (.setParent (.var "branch") (.var "sub_tree"))

/-- the body of `if sub_father and sub_mother:` in `GP._cross` -/
def crossBody : HStmt :=
  .seq (.ite (.flag "flag_father")
        (.seq (.assign "branch" (.left (.var "sub_father")))
          (.ite (.flag "flag_mother")
            (.seq (.setLeft (.var "sub_father") (.left (.var "sub_mother"))) (.setFlag (.left (.var "sub_mother")) true))
            (.seq (.setLeft (.var "sub_father") (.right (.var "sub_mother"))) (.setFlag (.right (.var "sub_mother")) true))))
        (.seq (.assign "branch" (.right (.var "sub_father")))
          (.ite (.flag "flag_mother")
            (.seq (.setRight (.var "sub_father") (.left (.var "sub_mother"))) (.setFlag (.left (.var "sub_mother")) false))
            (.seq (.setRight (.var "sub_father") (.right (.var "sub_mother"))) (.setFlag (.right (.var "sub_mother")) false)))))
  (.seq (.ite (.flag "flag_father")
          (.setParent (.left (.var "sub_father")) (.var "sub_father"))
          (.setParent (.right (.var "sub_father")) (.var "sub_father")))
  (.seq (.ite (.flag "flag_mother")
          (.seq (.setLeft (.var "sub_mother") (.var "branch")) (.setFlag (.var "branch") true))
          (.seq (.setRight (.var "sub_mother") (.var "branch")) (.setFlag (.var "branch") false)))
        (.setParent (.var "branch") (.var "sub_mother"))))

end Expected

end Opy

namespace Opy

/-- what surrounds the field writes in `GP._mutate`: the copy, the draw of the point, `find_node` on the copy, the
    test, the grown branch, the other branch of the test and the value returned -/
structure MutFrame where
  copiesDeep : Bool
  pointUniform2Max : Bool
  findsOnCopy : Bool
  cond : HCond
  growsBranch : Bool
  elseGrowsWhole : Bool
  returnsCopy : Bool
  extraStmts : Nat
deriving Repr, DecidableEq

/-- … and in `GP._cross` -/
structure CrossFrame where
  copiesFatherDeep : Bool
  copiesMotherDeep : Bool
  fatherPointUniform2Max : Bool
  motherPointUniform2Max : Bool
  findsOnCopies : Bool
  cond : HCond
  elseNothing : Bool
  returnsCopies : Bool
  extraStmts : Nat
deriving Repr, DecidableEq

namespace Expected
def mutFrame : MutFrame :=
  { copiesDeep := true, pointUniform2Max := true, findsOnCopy := true, cond := .isNode "sub_tree", growsBranch := true,
    elseGrowsWhole := true, returnsCopy := true, extraStmts := 0 }
def crossFrame : CrossFrame :=
  { copiesFatherDeep := true, copiesMotherDeep := true, fatherPointUniform2Max := true, motherPointUniform2Max := true,
    findsOnCopies := true, cond := .and (.isNode "sub_father") (.isNode "sub_mother"), elseNothing := true,
    returnsCopies := true, extraStmts := 0 }
end Expected

end Opy

namespace Opy
open PNode

/-- `GP._cross` after the two copies, with the test and the field writes as given: `find_node` on both copies, the
    locals bound to its answers, the test, the writes on the heap of the two copies, and the two roots read back -/
def runCross (cond : HCond) (body : HStmt) (f m : PNode) (pf pm : Nat) : Option (PNode × PNode) :=
  let slot (r : Found) : Option (Option Nat × Bool) :=
    match r with
    | .error => none
    | .noSlot => some (none, false)
    | .slot pid side => some (some pid, side)
  match slot (findNode f pf), slot (findNode m pm) with
  | some (sf, ff), some (sm, fm) =>
    let s : HState :=
      { heap := (heapOf f).union (heapOf m),
        env := fun n => if n = "sub_father" then sf else if n = "sub_mother" then sm else none,
        flags := fun n => if n = "flag_father" then ff else if n = "flag_mother" then fm else false }
    if cond.eval s then
      (body.run s).map (fun s1 => (toTree s1.heap (f.size + m.size + 1) f.id?, toTree s1.heap (f.size + m.size + 1) m.id?))
    else some (f, m)
  | _, _ => none

/-- `GP._mutate` after the copy; `branch` is the freshly grown tree (`space.grow(…)`), used as the graft or, when there
    is no slot, as the whole result -/
def runMutate (cond : HCond) (body : HStmt) (t : PNode) (point : Nat) (branch : PNode) : Option PNode :=
  match findNode t point with
  | .error => none
  | r =>
    let (sub, flag) : Option Nat × Bool := match r with
      | .slot pid side => (some pid, side)
      | _ => (none, false)
    let s : HState :=
      { heap := (heapOf t).union (heapOf branch),
        env := fun n => if n = "sub_tree" then sub else if n = "branch" then branch.id? else none,
        flags := fun n => if n = "flag" then flag else false }
    if cond.eval s then (body.run s).map (fun s1 => toTree s1.heap (t.size + branch.size + 1) t.id?)
    else some branch

end Opy
