import OpyVerif.Model.Tree
/-!
`_properties(node)` (core/node.py) as a translated program: a small statement language over the four
counters and the list of next-level nodes, with a Lean semantics.  The translator
(harness/translate_loops.py) emits the `BfsProg` it reads from the source; `Generated/Props.lean`
re-decides `Gen.bfsProg = Expected.bfsProg`; `Proofs/BfsProg.lean` proves the expected program
computes `PNode.properties` for every tree.
-/
namespace Opy
open PNode

inductive BCond where
  | hasLeft | hasRight | minIsZero
  | not (c : BCond) | and (a b : BCond)
deriving Repr, DecidableEq

inductive BStmt where
  | skip
  | seq (a b : BStmt)
  | incNodes | incLeaves | incMaxDepth
  | setMinToMax
  | pushLeft | pushRight
  | ite (c : BCond) (t e : BStmt)
  | unknown (what : String)
deriving Repr, DecidableEq

structure BState where
  minD : Nat
  maxD : Int
  leaves : Nat
  nodes : Nat
  next : List PNode

def BCond.eval (n : PNode) (s : BState) : BCond → Bool
  | .hasLeft => !n.leftOf.isNil
  | .hasRight => !n.rightOf.isNil
  | .minIsZero => s.minD == 0
  | .not c => !(c.eval n s)
  | .and a b => a.eval n s && b.eval n s

def BStmt.run (n : PNode) : BStmt → BState → BState
  | .skip, s => s
  | .seq a b, s => b.run n (a.run n s)
  | .incNodes, s => { s with nodes := s.nodes + 1 }
  | .incLeaves, s => { s with leaves := s.leaves + 1 }
  | .incMaxDepth, s => { s with maxD := s.maxD + 1 }
  | .setMinToMax, s => { s with minD := s.maxD.toNat }
  | .pushLeft, s => { s with next := s.next ++ [n.leftOf] }
  | .pushRight, s => { s with next := s.next ++ [n.rightOf] }
  | .ite c t e, s => if c.eval n s then t.run n s else e.run n s
  | .unknown _, s => s

structure BfsProg where
  minInit : Nat
  maxInit : Int
  leavesInit : Nat
  nodesInit : Nat
  /-- statements of the `while` body before the `for` (run once per level) -/
  perLevel : BStmt
  /-- body of `for node in nodes` -/
  perNode : BStmt
  /-- the level list is replaced by the freshly built one at the end of the `while` body -/
  swaps : Bool
deriving Repr, DecidableEq

def BfsProg.loop (pg : BfsProg) : Nat → List PNode → BState → BState
  | 0, _, s => s
  | _, [], s => s
  | fuel+1, nodes@(_ :: _), s =>
    let s1 := pg.perLevel.run nil { s with next := [] }
    let s2 := nodes.foldl (fun acc n => pg.perNode.run n acc) s1
    pg.loop fuel (if pg.swaps then s2.next else nodes) s2

/-- running the program on a tree; the fuel `t.maxD + 2` is what `PNode.properties` uses (one level per round) -/
def BfsProg.run (pg : BfsProg) (t : PNode) : Props :=
  let s := pg.loop (t.maxD + 2) [t] ⟨pg.minInit, pg.maxInit, pg.leavesInit, pg.nodesInit, []⟩
  ⟨s.minD, s.maxD, s.leaves, s.nodes⟩

namespace Expected
def bfsProg : BfsProg :=
  { minInit := 0, maxInit := -1, leavesInit := 0, nodesInit := 0,
    perLevel := .incMaxDepth,
    perNode := .seq .incNodes (.seq
      (.ite (.and (.not .hasLeft) (.not .hasRight)) (.seq (.ite .minIsZero .setMinToMax .skip) .incLeaves) .skip) (.seq
      (.ite .hasLeft .pushLeft .skip)
      (.ite .hasRight .pushRight .skip))),
    swaps := true }
end Expected

end Opy
