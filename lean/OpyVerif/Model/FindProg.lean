import OpyVerif.Model.Tree
/-!
`Node.find_node` as a small decision program over the stored links (`parent`, `flag`, `type`) of the node at a
pre-order position, and `_properties` as a record of the level-order sweep's rules.  `FProg.run` interprets the
decision program on a `PNode` (dereferencing `None.parent` is the `AttributeError` the code raises);
`Proofs/FindProg.lean` proves the expected program equal to `PNode.findNode` — the function the C11 slot theorems
are about — for every tree and position.
-/
namespace Opy

/-- `node`, `node.parent`, `node.parent.parent`, … -/
inductive NRef where
  | node
  | parent (r : NRef)
deriving DecidableEq, Repr

inductive FRes where
  /-- `return <p>, <f>.flag` -/
  | pair (p f : NRef)
  /-- `return None, False` -/
  | none
deriving DecidableEq, Repr

inductive FProg where
  | ret (r : FRes)
  /-- `if len(pre_order) > position: node = pre_order[position]; <t>` else `<e>` -/
  | ifInRange (t e : FProg)
  /-- `if node.type == '<ty>'` -/
  | ifType (terminal : Bool) (t e : FProg)
  /-- `if <r>:` (a node reference is truthy unless it is `None`) -/
  | ifRef (r : NRef) (t e : FProg)
  | unknown (src : String)
deriving DecidableEq, Repr

/-- the object a reference denotes, found through the stored links (`none`: the reference is `None`, or an attribute
    of `None` was needed, or the link dangles) -/
def NRef.obj (t : PNode) (node : PNode) : NRef → Option PNode
  | .node => some node
  | .parent r =>
    match r.obj t node with
    | some n => (match n.storedPar with | some pid => PNode.lookup pid t | none => none)
    | none => none

/-- the identity a reference evaluates to: `some (some i)` a node, `some none` Python's `None`, `none` the
    `AttributeError` raised when an attribute of `None` (or of a missing object) is read -/
def NRef.idOf (t : PNode) (node : PNode) : NRef → Option (Option Nat)
  | .node => some node.id?
  | .parent r =>
    match r.obj t node with
    | some n => some n.storedPar
    | none => none

def FProg.run (t : PNode) (p : Nat) (cur : Option PNode) : FProg → PNode.Found
  | .ret .none => .noSlot
  | .ret (.pair pr fr) =>
    match cur with
    | none => .error
    | some node =>
      match pr.idOf t node, fr.obj t node with
      | some (some i), some f => .slot i f.storedFlag
      | some none, some _ => .noSlot            -- `(None, flag)`: callers test the first component
      | _, _ => .error
  | .ifInRange th el =>
    match t.preOrder[p]? with
    | some node => th.run t p (some node)
    | none => el.run t p none
  | .ifType term th el =>
    match cur with
    | none => .error
    | some node => if node.isTermNode == term then th.run t p cur else el.run t p cur
  | .ifRef r th el =>
    match cur with
    | none => .error
    | some node =>
      match r.idOf t node with
      | some (some _) => th.run t p cur
      | some none => el.run t p cur
      | none => .error
  | .unknown _ => .error

namespace Expected
def findProg : FProg :=
  .ifInRange
    (.ifType true (.ret (.pair (.parent .node) .node))
      (.ifType false
        (.ifRef (.parent (.parent .node)) (.ret (.pair (.parent (.parent .node)) (.parent .node))) (.ret .none))
        (.ret .none)))
    (.ret .none)
end Expected

end Opy
