import OpyVerif.Model.Machine
import OpyVerif.Model.Accept
/-!
The bodies of the three evaluation sweeps (`Optimizer._evaluate`, `PSO._evaluate`, `GP._evaluate`) as the
translator reads them: an iteration over the population in order and a short list of steps.
`SweepLoop.body` gives the steps their meaning on the machine's agents (`Model/Machine.Ag`);
`Proofs/SweepProg.lean` proves that the three expected loops are the machine's sweep rule
(`sweepAgent`, `takes`, `bestOf`) — so the rule the C02 / C03 / C20 invariants are proved about is what the
source says — and `Generated/Sweeps.lean` re-decides on every build that the current source reads as the
expected loops.
-/
namespace Opy

/-- what the loop iterates over -/
inductive SweepIter where
  /-- `for agent in space.agents` -/
  | agents
  /-- `for i, agent in enumerate(space.agents)` -/
  | enumAgents
  /-- `for i, (tree, agent) in enumerate(zip(space.trees, space.agents))` -/
  | enumTreesAgents
  | other
deriving DecidableEq, Repr

inductive PosSrc where
  /-- `agent.position` -/
  | agentPos
  /-- `local_position[i]` (the personal best) -/
  | localPos
  | other
deriving DecidableEq, Repr

inductive SweepStep where
  /-- `agent.position = copy.deepcopy(tree.position)` (`copied`: through a copy) -/
  | posFromTree (copied : Bool)
  /-- `agent.check_limits()` -/
  | clipAgent
  /-- `agent.fit = function.pointer(agent.position)` -/
  | evalToFit
  /-- `fit = function.pointer(agent.position)` -/
  | evalToLocal
  /-- `if fit <op> agent.fit: agent.fit = fit; local_position[i] = copy(agent.position)` -/
  | pbest (op : Cmp) (fitFromLocal : Bool) (posCopied : Bool)
  /-- `if agent.fit <op> best.fit: [best_tree = copy(tree);] best.position = copy(<src>); best.fit = copy(agent.fit)` -/
  | best (op : Cmp) (src : PosSrc) (posCopied : Bool) (fitFromAgent : Bool) (treeCopied : Option Bool)
  | unknown (src : String)
deriving DecidableEq, Repr

structure SweepLoop where
  iter : SweepIter
  steps : List SweepStep
  /-- statements of the method outside the loop -/
  outside : Nat
deriving DecidableEq, Repr

/-- state of one loop round: the agent, the best agent, the local `fit` (PSO) -/
structure SweepSt where
  a : Ag
  best : Ag
  loc : Option Int

/-- one step; `v` is the value the objective returns for `a.pos`, `treePos` the value of the agent's tree,
    `fresh` the identity of newly allocated storage -/
def SweepStep.run (lbs ubs : List Int) (treePos : Pos) (v : Int) (fresh : Nat) (s : SweepSt) : SweepStep → SweepSt
  | .posFromTree _ => { s with a := { s.a with pos := treePos } }
  | .clipAgent => { s with a := { s.a with pos := clipPos lbs ubs s.a.pos } }
  | .evalToFit => { s with a := { s.a with fit := v, tpos := s.a.pos } }
  | .evalToLocal => { s with loc := some v }
  | .pbest op fromLocal _ =>
    match s.loc with
    | some l => if op.eval l s.a.fit && fromLocal then { s with a := { s.a with fit := l, tpos := s.a.pos } } else s
    | none => s
  | .best op src copied fromAgent _ =>
    if op.eval s.a.fit s.best.fit && fromAgent then
      let p := match src with | .agentPos => s.a.pos | .localPos => s.a.tpos | .other => s.best.pos
      { s with best := { pos := p, tpos := p, fit := s.a.fit, ref := if copied then fresh else s.a.ref } }
    else s
  | .unknown _ => s

def SweepLoop.body (l : SweepLoop) (lbs ubs : List Int) (treePos : Pos) (v : Int) (fresh : Nat) (a best : Ag) : Ag × Ag :=
  let s := l.steps.foldl (fun s st => st.run lbs ubs treePos v fresh s) { a := a, best := best, loc := none }
  (s.a, s.best)

/-- the objective is called exactly once per round, on the agent's current position, after every change of it -/
def SweepLoop.evalsOnce (l : SweepLoop) : Bool :=
  (l.steps.filter (fun s => s == .evalToFit || s == .evalToLocal)).length == 1

namespace Expected
/-- `Optimizer._evaluate` -/
def genericSweep : SweepLoop :=
  { iter := .agents, outside := 0,
    steps := [.evalToFit, .best .lt .agentPos true true none] }
/-- `PSO._evaluate` (AIWPSO and RPSO inherit it) -/
def psoSweep : SweepLoop :=
  { iter := .enumAgents, outside := 0,
    steps := [.evalToLocal, .pbest .lt true true, .best .lt .localPos true true none] }
/-- `GP._evaluate` -/
def gpSweep : SweepLoop :=
  { iter := .enumTreesAgents, outside := 0,
    steps := [.posFromTree true, .clipAgent, .evalToFit, .best .lt .agentPos true true (some true)] }
/-- the same loops with the best agent also replaced on an exact tie (`<=`): equally good for every property
    (the machine's sweep rule carries a tie flag for this reason) -/
def genericSweepLe : SweepLoop := { genericSweep with steps := [.evalToFit, .best .le .agentPos true true none] }
def psoSweepLe : SweepLoop :=
  { psoSweep with steps := [.evalToLocal, .pbest .lt true true, .best .le .localPos true true none] }
def gpSweepLe : SweepLoop :=
  { gpSweep with steps := [.posFromTree true, .clipAgent, .evalToFit, .best .le .agentPos true true (some true)] }
end Expected

end Opy
