/-
Model of limit enforcement (`Agent.check_limits`, `SearchSpace.check_limits`,
`HyperSpace.check_limits`) over *keys*.

A non-NaN IEEE double is represented by its key: the 64-bit pattern read as a
sign-magnitude integer (−0.0 ↦ 0).  The key map is strictly monotone, so `<`, `≤`,
`=`, `min`, `max` and therefore `np.clip` on doubles agree with the same operations on
keys; ±∞ are ordinary keys.  Everything here is core Lean, total and computable.
-/
namespace Opy

/-- `np.clip(x, lb, ub)` for one entry: `minimum(maximum(x, lb), ub)`. -/
def clip (lb ub x : Int) : Int := min (max x lb) ub

/-- `np.clip(row, lb, ub)` for one decision variable (all its dimensions). -/
def clipRow (lb ub : Int) (row : List Int) : List Int := row.map (clip lb ub)

/-- A position: `n_variables` rows of `n_dimensions` keys. -/
abbrev Pos := List (List Int)

/-- `Agent.check_limits`:
    `for j, (lb, ub) in enumerate(zip(self.lb, self.ub)): position[j] = np.clip(position[j], lb, ub)`.
    Rows beyond `zip(lb, ub)` are left alone, exactly as the loop does. -/
def clipPos : List Int → List Int → Pos → Pos
  | l :: lbs, u :: ubs, r :: rows => clipRow l u r :: clipPos lbs ubs rows
  | _, _, rows => rows

/-- `SearchSpace.check_limits`: the same loop for every agent, with the space's bounds. -/
def clipAll (lbs ubs : List Int) (pop : List Pos) : List Pos := pop.map (clipPos lbs ubs)

/-- key of `0.0` and of `1.0` (bit pattern `0x3FF0000000000000`). -/
def keyZero : Int := 0
def keyOne : Int := 4607182418800017408

/-- `HyperSpace.check_limits`: `np.clip(position[j], 0, 1)` for `j < len(zip(lb, ub))`,
    whatever the declared bounds are. -/
def clipHyper (nBounds : Nat) (p : Pos) : Pos :=
  clipPos (List.replicate nBounds keyZero) (List.replicate nBounds keyOne) p

def clipAllHyper (nBounds : Nat) (pop : List Pos) : List Pos := pop.map (clipHyper nBounds)

/-- every entry of row `j` lies in `[lb_j, ub_j]`; one bound pair per row. -/
def InBox : List Int → List Int → Pos → Prop
  | l :: lbs, u :: ubs, r :: rows => (∀ x ∈ r, l ≤ x ∧ x ≤ u) ∧ InBox lbs ubs rows
  | [], [], [] => True
  | _, _, _ => False

/-- executable twin of `InBox` -/
def inBoxB : List Int → List Int → Pos → Bool
  | l :: lbs, u :: ubs, r :: rows => r.all (fun x => decide (l ≤ x) && decide (x ≤ u)) && inBoxB lbs ubs rows
  | [], [], [] => true
  | _, _, _ => false

/-- declared shape: `v` rows of `d` entries -/
def Shape (v d : Nat) (p : Pos) : Prop := p.length = v ∧ ∀ r ∈ p, r.length = d

def shapeB (v d : Nat) (p : Pos) : Bool := p.length == v && p.all (fun r => r.length == d)

/-- point-wise `lb ≤ ub` -/
def BoundsOk : List Int → List Int → Prop
  | l :: lbs, u :: ubs => l ≤ u ∧ BoundsOk lbs ubs
  | [], [] => True
  | _, _ => False

/-! ### Space construction from an oracle list of draws

`SearchSpace._initialize_agents` / `TreeSpace._initialize_agents`: for every agent and every
variable `j` the row is a draw `uniform(lb_j, ub_j, n_dimensions)` and the agent's own bounds
become `lb_j, ub_j`.  The draws are oracle values (one `Pos` per agent). -/

structure AgentInit where
  pos : Pos
  lb : List Int
  ub : List Int
deriving Repr, DecidableEq

/-- search / tree spaces: the agent carries a copy of the declared bounds -/
def initSearch (lbs ubs : List Int) (draws : List Pos) : List AgentInit :=
  draws.map (fun p => { pos := p, lb := lbs, ub := ubs })

/-- hypercomplex spaces: unit draws, agents keep the default unit bounds -/
def initHyper (v : Nat) (draws : List Pos) : List AgentInit :=
  draws.map (fun p => { pos := p, lb := List.replicate v keyZero, ub := List.replicate v keyOne })

end Opy
