import OpyVerif.Model.TreeOps
/-!
The GP population as a list of trees over node identities, and the steps a GP iteration performs on it (each working
on deep copies, as the code does).  Identities model object identity; a deep copy is `shift k` onto identities nobody
uses yet (`next` is the allocator's high-water mark).  `Proofs/Forest.lean` proves that every step keeps the forest a
family of proper, pairwise disjoint expression trees; `Model/PopLoops.lean` gives `GP._mutation` / `GP._crossover`
(as the translator reads them) their meaning as sequences of these steps.
-/
namespace Opy
open PNode

structure Pop where
  trees : List PNode
  /-- `space.best_tree` (`nil` before the first evaluation) -/
  best : PNode
  /-- every identity in use is below `next` -/
  next : Nat

inductive GPOp where
  /-- `space.best_tree = copy.deepcopy(space.trees[i])` (the sweep found a new best) -/
  | recordBest (i : Nat)
  /-- `space.trees[w] = copy.deepcopy(space.trees[s])` -/
  | reproduce (w s : Nat)
  /-- `space.trees[i] = self._mutate(space, space.trees[i], …)` with the point drawn and the branch grown -/
  | mutate (i point : Nat) (branch : PNode)
  /-- `space.trees[a], space.trees[b] = self._cross(space.trees[a], space.trees[b], …)` with the two points drawn
      (`a = b` is possible: a tournament may return the same index twice; the tuple assignment then leaves the second
      offspring in the slot) -/
  | cross (a b pf pm : Nat)
  /-- `space.trees[i] = space.grow(…)`: the slot is re-created with a freshly grown tree -/
  | regrow (i : Nat) (tree : PNode)

/-- one step on the population (`none`: the code raises) -/
def GPOp.apply (P : Pop) : GPOp → Option Pop
  | .recordBest i =>
    match P.trees[i]? with
    | some t => some ⟨P.trees, shift P.next t, 3 * P.next⟩
    | none => none
  | .reproduce w s =>
    match P.trees[s]? with
    | some t => if w < P.trees.length then some ⟨P.trees.set w (shift P.next t), P.best, 3 * P.next⟩ else none
    | none => none
  | .mutate i point branch =>
    match P.trees[i]? with
    | some t =>
      match PNode.mutate (shift P.next t) point branch with
      | some t' => some ⟨P.trees.set i t', P.best, 3 * P.next⟩
      | none => none
    | none => none
  | .cross a b pf pm =>
    match P.trees[a]?, P.trees[b]? with
    | some f, some m =>
      match PNode.cross (shift P.next f) (shift (2 * P.next) m) pf pm with
      | some (f', m') => some ⟨(P.trees.set a f').set b m', P.best, 3 * P.next⟩
      | none => none
    | _, _ => none
  | .regrow i tree =>
    if i < P.trees.length then some ⟨P.trees.set i tree, P.best, 3 * P.next⟩ else none

/-- a sequence of steps -/
def runGPOps (ar : Nat → Nat) : Pop → List GPOp → Option Pop
  | P, [] => some P
  | P, op :: ops => match op.apply P with
    | some P' => runGPOps ar P' ops
    | none => none

/-- `_create_trees`: the trees are grown one after the other, each consuming draws and identities where the previous one stopped -/
def growMany (cfg : GrowCfg) (k : Nat) : Nat → List Nat → Nat → Option (List PNode × List Nat × Nat)
  | 0, ds, nid => some ([], ds, nid)
  | n + 1, ds, nid =>
    match PNode.grow cfg k ds nid with
    | some (t, ds', nid') =>
      match growMany cfg k n ds' nid' with
      | some (ts, d, m) => some (t :: ts, d, m)
      | none => none
    | none => none


end Opy
