import OpyVerif.Model.TreeOps
/-!
`TreeSpace.grow` as the translator reads it: the two draws with their ranges, the tests, the index arithmetic
(small integer expressions over the draw, `n_terminals`, `len(functions)`), and how children are attached.
`GrowProg.run` gives a record its meaning; `Proofs/GrowProg.lean` proves the expected record is `PNode.grow`
(the function the C08 theorems `grow_wf`, `grow_depth_le`, `grow_disjoint`, … are about).
-/
namespace Opy
open PNode

inductive IExp where
  | lit (n : Nat)
  | nTerminals
  | nFunctions
  /-- the integer just drawn (`terminal_id` / `node_id`) -/
  | draw
  | add (a b : IExp)
  | sub (a b : IExp)
deriving Repr, DecidableEq

def IExp.eval (cfg : GrowCfg) (d : Nat) : IExp → Nat
  | .lit n => n
  | .nTerminals => cfg.nTerminals
  | .nFunctions => cfg.funcs.length
  | .draw => d
  | .add a b => a.eval cfg d + b.eval cfg d
  | .sub a b => a.eval cfg d - b.eval cfg d

structure GrowProg where
  /-- `if min_depth == max_depth:` selects the leaf case -/
  leafWhenDepthsEqual : Bool
  /-- `int(uniform(leafLow, leafHigh)[0])` -/
  leafLow : IExp
  leafHigh : IExp
  /-- the terminal the leaf refers to -/
  leafId : IExp
  innerLow : IExp
  innerHigh : IExp
  /-- `if node_id >= termThreshold:` -> a terminal -/
  termThreshold : IExp
  termId : IExp
  /-- index into `self.functions` -/
  funcIndex : IExp
  /-- `Node(name=…, type='TERMINAL', value=self.terminals[…].position)` (the array by reference) -/
  terminalNode : Bool
  /-- `Node(name=self.functions[…], type='FUNCTION')` -/
  functionNode : Bool
  /-- `for i in range(c.N_ARGS_FUNCTION[self.functions[node_id]])` -/
  arityFromTable : Bool
  /-- `self.grow(min_depth + 1, max_depth)` -/
  recursesDeeper : Bool
  /-- `if not i: function_node.left = node` -/
  firstChildLeft : Bool
  /-- `else: function_node.right = node; node.flag = False` -/
  restRightFlagFalse : Bool
  /-- `node.parent = function_node` -/
  setsParent : Bool
  extraStmts : Nat
deriving Repr, DecidableEq

def GrowProg.ok (p : GrowProg) : Bool :=
  p.leafWhenDepthsEqual && p.terminalNode && p.functionNode && p.arityFromTable && p.recursesDeeper && p.firstChildLeft
    && p.restRightFlagFalse && p.setsParent && p.extraStmts == 0

/-- `grow` with `k = max_depth - min_depth` levels left, the remaining integer draws and the next fresh identity -/
def GrowProg.go (p : GrowProg) (cfg : GrowCfg) : Nat → List Nat → Nat → Option (PNode × List Nat × Nat)
  | 0, d :: ds, nid =>
      if p.leafLow.eval cfg d ≤ d ∧ d < p.leafHigh.eval cfg d then
        let j := p.leafId.eval cfg d
        if j < cfg.nTerminals then some (PNode.mk nid ⟨true, j, j + 1⟩ none true nil nil, ds, nid + 1) else none
      else none
  | k+1, d :: ds, nid =>
      if p.innerLow.eval cfg d ≤ d ∧ d < p.innerHigh.eval cfg d then
        if p.termThreshold.eval cfg d ≤ d then
          let j := p.termId.eval cfg d
          if j < cfg.nTerminals then some (PNode.mk nid ⟨true, j, j + 1⟩ none true nil nil, ds, nid + 1) else none
        else
          let fi := p.funcIndex.eval cfg d
          if fi < cfg.funcs.length then
            let op := cfg.funcs[fi]!
            if cfg.ar op = 1 then
              match GrowProg.go p cfg k ds (nid + 1) with
              | some (c, ds1, n1) => some (PNode.mk nid ⟨false, op, 0⟩ none true (relink nid true c) nil, ds1, n1)
              | none => none
            else if cfg.ar op = 2 then
              match GrowProg.go p cfg k ds (nid + 1) with
              | some (c1, ds1, n1) =>
                match GrowProg.go p cfg k ds1 n1 with
                | some (c2, ds2, n2) =>
                  some (PNode.mk nid ⟨false, op, 0⟩ none true (relink nid true c1) (relink nid false c2), ds2, n2)
                | none => none
              | none => none
            else none
          else none
      else none
  | _, [], _ => none

def GrowProg.run (p : GrowProg) (cfg : GrowCfg) (k : Nat) (ds : List Nat) (nid : Nat) : Option (PNode × List Nat × Nat) :=
  if p.ok then p.go cfg k ds nid else none

namespace Expected
def growProg : GrowProg :=
  { leafWhenDepthsEqual := true, leafLow := .lit 0, leafHigh := .nTerminals, leafId := .draw,
    innerLow := .lit 0, innerHigh := .add .nFunctions .nTerminals, termThreshold := .nFunctions,
    termId := .sub .draw .nFunctions, funcIndex := .draw,
    terminalNode := true, functionNode := true, arityFromTable := true, recursesDeeper := true,
    firstChildLeft := true, restRightFlagFalse := true, setsParent := true, extraStmts := 0 }
end Expected

end Opy
