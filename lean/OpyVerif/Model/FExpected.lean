import OpyVerif.Model.FExpr
/-!
The expressions the library's closed formulas are expected to be, written in `FExpr`.  This file is
hand-maintained (it was first produced by the translator from the pinned source and then reviewed
against the docstrings); `Generated/Formulas.lean` proves on every build that the *current* source
still reads as these terms, and `Proofs/Formulas.lean` proves for all inputs that they denote the
models of `Model/Bench` and `Model/Num` about which the property theorems are stated.
-/
namespace Opy.Expected
open Opy

def bench : List (String × FExpr) := [
  ("ackley1", (.sub (.add (.sub (.nat 20) (.mul (.nat 20) (.fn .exp (.mul (.neg (.sci 2 true 1)) (.fn .sqrt (.mul (.div (.nat 1) .len) (.sum (.ipow .x 2)))))))) .e) (.fn .exp (.mul (.div (.nat 1) .len) (.sum (.fn .cos (.mul (.mul (.nat 2) .pi) .x))))))),
  ("alpine1", (.sum (.fn .abs (.add (.mul .x (.fn .sin .x)) (.mul (.sci 1 true 1) .x))))),
  ("alpine2", (.neg (.prod (.mul (.fn .sqrt .x) (.fn .sin .x))))),
  ("brown", (.sum (.add (.pow (.ipow (.init .x) 2) (.add (.ipow (.tail .x) 2) (.nat 1))) (.pow (.ipow (.tail .x) 2) (.add (.ipow (.init .x) 2) (.nat 1)))))),
  ("chung_reynolds", (.ipow (.sum (.ipow .x 2)) 2)),
  ("cosine_mixture", (.sub (.mul (.sci 1 true 1) (.sum (.fn .cos (.mul (.mul (.nat 5) .pi) .x)))) (.sum (.ipow .x 2)))),
  ("csendes", (.sum (.mul (.ipow .x 6) (.add (.nat 2) (.fn .sin (.div (.nat 1) .x)))))),
  ("deb1", (.mul (.div (.neg (.nat 1)) .len) (.sum (.ipow (.fn .sin (.mul (.mul (.nat 5) .pi) .x)) 6)))),
  ("deb2", (.mul (.div (.neg (.nat 1)) .len) (.sum (.ipow (.fn .sin (.mul (.mul (.nat 5) .pi) (.sub (.pow .x (.div (.nat 3) (.nat 4))) (.sci 5 true 2)))) 6)))),
  ("exponential", (.neg (.fn .exp (.mul (.neg (.sci 5 true 1)) (.sum (.ipow .x 2)))))),
  ("quintic", (.sum (.fn .abs (.sub (.sub (.add (.add (.sub (.ipow .x 5) (.mul (.nat 3) (.ipow .x 4))) (.mul (.nat 4) (.ipow .x 3))) (.mul (.nat 2) (.ipow .x 2))) (.mul (.nat 10) .x)) (.nat 4))))),
  ("rastringin", (.add (.mul (.nat 10) .len) (.sum (.sub (.ipow .x 2) (.mul (.nat 10) (.fn .cos (.mul (.mul (.nat 2) .pi) .x))))))),
  ("salomon", (.add (.sub (.nat 1) (.fn .cos (.mul (.mul (.nat 2) .pi) (.fn .sqrt (.sum (.ipow .x 2)))))) (.mul (.sci 1 true 1) (.fn .sqrt (.sum (.ipow .x 2)))))),
  ("schumer_steiglitz", (.sum (.ipow .x 4))),
  ("schwefel", (.sub (.mul (.sci 4189829 true 4) .len) (.sum (.mul .x (.fn .sin (.fn .sqrt (.fn .abs .x))))))),
  ("sphere", (.sum (.ipow .x 2))),
  ("styblinski_tang", (.mul (.div (.nat 1) (.nat 2)) (.sum (.add (.sub (.ipow .x 4) (.mul (.nat 16) (.ipow .x 2))) (.mul (.nat 5) .x)))))
]
def span : FExpr := (.add (.mul (.sub (.var "ub") (.var "lb")) (.div (.norm .x) (.fn .sqrt .len))) (.var "lb"))
def norm : FExpr := (.norm .x)
def schedules : List (String × FExpr) := [
  ("aiwpso_w", (.add (.mul (.sub (.var "self.w_max") (.var "self.w_min")) (.div (.var "p") (.var "len(agents)"))) (.var "self.w_min"))),
  ("ihs_PAR", (.add (.var "self.PAR_min") (.mul (.div (.sub (.var "self.PAR_max") (.var "self.PAR_min")) (.var "space.n_iterations")) (.var "t")))),
  ("ihs_bw", (.mul (.var "self.bw_max") (.fn .exp (.mul (.div (.fn .log (.div (.var "self.bw_min") (.var "self.bw_max"))) (.var "space.n_iterations")) (.var "t"))))),
  ("sa_T", (.mul (.var "self.T") (.var "self.beta"))),
  ("fa_alpha", (.mul (.var "self.alpha") (.sub (.nat 1) (.sub (.nat 1) (.pow (.div (.sci 10 true 4) (.sci 9 true 1)) (.div (.nat 1) (.var "n_iterations"))))))),
  ("wca_dmax", (.sub (.var "self.d_max") (.div (.var "self.d_max") (.var "space.n_iterations"))))
]
def scheduleCtx : List (String × List String) := [("aiwpso_w", []), ("ihs_PAR", ["for t in range(space.n_iterations)"]), ("ihs_bw", ["for t in range(space.n_iterations)"]), ("sa_T", []), ("fa_alpha", []), ("wca_dmax", ["for t in range(space.n_iterations)"])]
def levy : FExpr := (.div (.mul (.var "g1") (.pow (.div (.mul (.fn .gamma (.add (.nat 1) (.var "beta"))) (.fn .sin (.div (.mul .pi (.var "beta")) (.nat 2)))) (.mul (.mul (.fn .gamma (.div (.add (.nat 1) (.var "beta")) (.nat 2))) (.var "beta")) (.pow (.nat 2) (.div (.sub (.var "beta") (.nat 1)) (.nat 2))))) (.div (.nat 1) (.var "beta")))) (.pow (.fn .abs (.var "g2")) (.div (.nat 1) (.var "beta"))))
def attrWrites : List (String × String × String) := [("AIWPSO", "_compute_success", "w"), ("FA", "_update", "alpha"), ("IHS", "run", "PAR"), ("IHS", "run", "bw"), ("SA", "_update", "T"), ("WCA", "run", "d_max")]
def uniformWrapper : List String × List String × List String := (["low", "high", "size"], ["0.0", "1.0", "1"], ["low", "high", "size"])
def gaussianWrapper : List String × List String × List String := (["mean", "variance", "size"], ["0.0", "1.0", "1"], ["mean", "variance", "size"])
def bernoulliRule : List String := ["lt", "1", "0", "0", "1", "range(size)"]
def tournamentRule : List String := ["range(n)", "range(c.TOURNAMENT_SIZE)", "np.random.choice(fitness)", "np.where(min(step) == fitness)[0][0]"]
def weightedRule : List String := ["z = 0", "zip(self.functions, self.weights)", "(f, w)", "z"]
def weightedBody : FExpr := (.add (.var "z") (.mul (.var "w") (.var "fx")))

end Opy.Expected
