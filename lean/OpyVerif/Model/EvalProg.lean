import OpyVerif.Model.OpExpr
/-!
`_evaluate(node)` (core/node.py) as the translator reads it: the `if node:` guard, where `x` and `y` come from, the
terminal test, and the operator chain (`OpExpr` right-hand sides, already translated).  `EvalProg.run` gives the record
its meaning; `Proofs/EvalProg.lean` proves the expected record is `evalTree` (the function the C10 theorems are about).
-/
namespace Opy
open Elem

inductive ChildSel where | left | right | other
deriving Repr, DecidableEq

def OpExpr.usesY : OpExpr → Bool
  | .x => false | .y => true | .eps => false
  | .add a b => a.usesY || b.usesY | .sub a b => a.usesY || b.usesY
  | .mul a b => a.usesY || b.usesY | .div a b => a.usesY || b.usesY
  | .exp a => a.usesY | .log a => a.usesY | .sin a => a.usesY | .cos a => a.usesY
  | .sqrt a => a.usesY | .abs a => a.usesY | .neg a => a.usesY
  | .unknown => false

structure EvalProg where
  /-- `if node: … else: return None` -/
  guardsNone : Bool
  /-- `x = _evaluate(node.<xFrom>)` -/
  xFrom : ChildSel
  yFrom : ChildSel
  /-- `if node.type == 'TERMINAL': return node.value`, before any operator is looked at -/
  terminalReturnsValue : Bool
  /-- the operator chain, in the order of the operator codes -/
  ops : List (String × OpExpr)
deriving Repr, DecidableEq

section
variable {α : Type} [Elem α]

def EvalProg.pick (sel : ChildSel) (vl vr : Option (List α)) : Option (List α) :=
  match sel with
  | .left => vl
  | .right => vr
  | .other => none

/-- value of a tree under the program; `none` = the code raises or returns `None` -/
def EvalProg.run (p : EvalProg) (eps : α) (env : Nat → Option (List α)) : PNode → Option (List α)
  | .nil => none
  | .mk _ lb _ _ l r =>
    let vl := EvalProg.run p eps env l
    let vr := EvalProg.run p eps env r
    let x := EvalProg.pick p.xFrom vl vr
    let y := EvalProg.pick p.yFrom vl vr
    if !p.guardsNone then none
    else if lb.isTerm then (if p.terminalReturnsValue then env lb.arr else none)
    else
      match p.ops[lb.name]? with
      | some (_, e) =>
        if e.usesY then
          (match x, y with
           | some vx, some vy => some (zipW (fun a b => e.eval eps a b) vx vy)
           | _, _ => none)
        else
          (match x with
           | some vx => some (vx.map (fun a => e.eval eps a a))
           | none => none)
      | none => none
end

namespace Expected
def evalProg : EvalProg :=
  { guardsNone := true, xFrom := .left, yFrom := .right, terminalReturnsValue := true, ops := expectedOps }
end Expected

end Opy
