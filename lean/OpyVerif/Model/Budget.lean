/-!
Per-iteration evaluation budget.  The translator lists, for every optimizer, the objective call sites
reachable from `_update` (through calls on `self`) and from `_evaluate`, each with the loop nest around
it (`Generated/BudgetDefs.lean`).  `EvalTerm.bound` turns a site into an upper bound on the number of
objective calls it makes in one iteration with `n` agents: a site outside any loop runs once, a site
inside a loop over the agents runs `n` times, and the one `while` loop of the library (ABC's onlooker
phase, a loop over the agents inside `while k < len(agents)`) makes at most `2n - 1` calls
(`Proofs/C03onlooker.onlooker_bounds`).  Any other loop shape has no bound here (`none`).
-/
namespace Opy

inductive Factor where
  | agents
  | whileLoop (cond : String)
  | other (src : String)
deriving DecidableEq, Repr

structure EvalTerm where
  site : String
  factors : List Factor
deriving DecidableEq, Repr

/-- upper bound on the calls one site makes in one `_update` / `_evaluate`, `n` agents -/
def EvalTerm.bound (n : Nat) (t : EvalTerm) : Option Nat :=
  match t.factors with
  | [] => some 1
  | [.agents] => some n
  | [.whileLoop "k < len(agents)", .agents] => some (2 * n - 1)
  | _ => none

/-- lower bound: an unconditional site inside the loop over agents runs exactly `n` times; everything
    else may not run at all -/
def sumBounds (n : Nat) (ts : List EvalTerm) : Option Nat :=
  (ts.mapM (EvalTerm.bound n)).map List.sum

/-- calls between two consecutive hooks: the update's trials plus the sweep that follows -/
def iterationBudget (n : Nat) (row : List EvalTerm × List EvalTerm) : Option Nat :=
  match sumBounds n row.1, sumBounds n row.2 with
  | some u, some s => some (u + s)
  | _, _ => none

namespace Expected
def evalTerms : List (String × List EvalTerm × List EvalTerm) := [
  ("ABC", [{ site := "ABC._evaluate_location", factors := [.agents] }, { site := "ABC._evaluate_location", factors := [(.whileLoop "k < len(agents)"), .agents] }, { site := "ABC._send_scout", factors := [] }], [{ site := "Optimizer._evaluate", factors := [.agents] }]),
  ("AIWPSO", [], [{ site := "PSO._evaluate", factors := [.agents] }]),
  ("BA", [{ site := "BA._update", factors := [.agents] }], [{ site := "Optimizer._evaluate", factors := [.agents] }]),
  ("BHA", [{ site := "BHA._update_position", factors := [.agents] }], [{ site := "Optimizer._evaluate", factors := [.agents] }]),
  ("CS", [{ site := "CS._evaluate_nests", factors := [.agents] }, { site := "CS._evaluate_nests", factors := [.agents] }], [{ site := "Optimizer._evaluate", factors := [.agents] }]),
  ("FA", [], [{ site := "Optimizer._evaluate", factors := [.agents] }]),
  ("FPA", [{ site := "FPA._update", factors := [.agents] }], [{ site := "Optimizer._evaluate", factors := [.agents] }]),
  ("GP", [], [{ site := "GP._evaluate", factors := [.agents] }]),
  ("GSA", [], [{ site := "Optimizer._evaluate", factors := [.agents] }]),
  ("HC", [], [{ site := "Optimizer._evaluate", factors := [.agents] }]),
  ("HS", [{ site := "HS._update", factors := [] }], [{ site := "Optimizer._evaluate", factors := [.agents] }]),
  ("IHS", [{ site := "HS._update", factors := [] }], [{ site := "Optimizer._evaluate", factors := [.agents] }]),
  ("PSO", [], [{ site := "PSO._evaluate", factors := [.agents] }]),
  ("RPSO", [], [{ site := "PSO._evaluate", factors := [.agents] }]),
  ("SA", [{ site := "SA._update", factors := [.agents] }], [{ site := "Optimizer._evaluate", factors := [.agents] }]),
  ("SCA", [], [{ site := "Optimizer._evaluate", factors := [.agents] }]),
  ("WCA", [], [{ site := "Optimizer._evaluate", factors := [.agents] }])
]

/-- the trial budget per iteration the run-level oracle uses (`harness/runlevel.budget`): update trials + sweep -/
def budgetFormula (kind : String) (n : Nat) : Nat :=
  if kind = "ABC" then n + (2 * n - 1) + 1 + n
  else if kind = "CS" then 3 * n
  else if kind = "BA" || kind = "BHA" || kind = "FPA" || kind = "SA" then 2 * n
  else if kind = "HS" || kind = "IHS" then n + 1
  else n
end Expected

end Opy
