/-
Model of the library's validated attributes: a small universe of Python values, the guard
conditions that occur in `@x.setter` bodies, the domains the error messages document, a
syntactic matcher `agree` between the two (proved sound in `Proofs/C14.lean`), and the
setter semantics "first failing guard raises, otherwise store".
The guard table itself is regenerated from the source (`Generated/Guards.lean`).
-/
namespace Opy.G

inductive Ty
  | int | float | bool | str | list | dict | tuple | ndarray | node | agent | none | callable | other
deriving DecidableEq, Repr

/-- numeric payload of a Python number: a rational, ±∞ or NaN (IEEE comparisons) -/
inductive Num | fin (q : Rat) | pinf | ninf | nan
deriving DecidableEq, Repr

def Num.lt : Num → Num → Bool
  | .nan, _ => false | _, .nan => false
  | .fin a, .fin b => decide (a < b)
  | .ninf, .ninf => false | .ninf, _ => true
  | _, .ninf => false
  | .pinf, _ => false
  | .fin _, .pinf => true

def Num.le : Num → Num → Bool
  | .nan, _ => false | _, .nan => false
  | .fin a, .fin b => decide (a ≤ b)
  | .ninf, _ => true
  | .fin _, .ninf => false | .pinf, .ninf => false
  | _, .pinf => true
  | .pinf, .fin _ => false

structure PyVal where
  ty : Ty
  num : Num := .fin 0
  /-- `shape[0]` of an array / number of parameters of a callable -/
  len : Nat := 0
  str : String := ""
  /-- Python truthiness -/
  truthy : Bool := true
  /-- `.built` of a component -/
  built : Bool := false
deriving Repr

/-- companion attributes of the object (`self.w_min`, `self.min_depth`, `self.n_variables`) -/
structure Ctx where
  attr : String → Num
  attrNat : String → Nat

/-- `isinstance(v, T)` with Python's lattice (`bool ⊂ int`; `np.float64 ⊂ float` is folded into
    the `float` tag by the harness) -/
def isInst (v : PyVal) : Ty → Bool
  | .int => v.ty = .int || v.ty = .bool
  | .callable => v.ty = .callable
  | t => v.ty = t

inductive Cond
  | notInst (tys : List Ty)
  | lt (c : Int) | le (c : Int) | gt (c : Int)
  | ltAttr (a : String)
  | or (a b : Cond)
  | notIn (strs : List String)
  | shapeNe (a : String)
  | arityGt (c : Nat)
  | notCallable
  | notBuilt
  /-- `if x: <guard>` — the guard only applies to truthy values -/
  | truthyAnd (c : Cond)
  | unknown
deriving Repr

def Cond.holds (ctx : Ctx) (v : PyVal) : Cond → Bool
  | .notInst tys => !(tys.any (isInst v))
  | .lt c => v.num.lt (.fin c)
  | .le c => v.num.le (.fin c)
  | .gt c => Num.lt (.fin c) v.num
  | .ltAttr a => v.num.lt (ctx.attr a)
  | .or a b => a.holds ctx v || b.holds ctx v
  | .notIn strs => !(strs.contains v.str)
  | .shapeNe a => v.len != ctx.attrNat a
  | .arityGt c => decide (v.len > c)
  | .notCallable => !(isInst v .callable)
  | .notBuilt => !v.built
  | .truthyAnd c => v.truthy && c.holds ctx v
  | .unknown => false

inductive Dom
  | inst (tys : List Ty)
  | ge (c : Int) | gt (c : Int)
  | between (a b : Int)
  | geAttr (a : String)
  | oneOf (strs : List String)
  | sameSize (a : String)
  /-- "should only have 1 argument" -/
  | oneArg
  | callable
  | built
  /-- an optional link: `None` or an instance -/
  | noneOr (tys : List Ty)
  | unknown
deriving Repr

def Dom.mem (ctx : Ctx) (v : PyVal) : Dom → Prop
  | .inst tys => tys.any (isInst v) = true
  | .ge c => Num.le (.fin c) v.num = true
  | .gt c => Num.lt (.fin c) v.num = true
  | .between a b => Num.le (.fin a) v.num = true ∧ v.num.le (.fin b) = true
  | .geAttr a => (ctx.attr a).le v.num = true
  | .oneOf strs => strs.contains v.str = true
  | .sameSize a => v.len = ctx.attrNat a
  | .oneArg => v.len = 1
  | .callable => isInst v .callable = true
  | .built => v.built = true
  | .noneOr tys => v.ty = .none ∨ tys.any (isInst v) = true
  | .unknown => False

/-- `intTyped`: an earlier guard of the same setter has already rejected non-integers -/
def agree (intTyped : Bool) : Cond → Dom → Bool
  | .notInst t, .inst t' => t == t'
  | .lt c, .ge c' => c == c'
  | .le c, .gt c' => c == c'
  | .lt c, .gt c' => intTyped && c == c' + 1
  | .or (.lt a) (.gt b), .between a' b' => a == a' && b == b'
  | .ltAttr a, .geAttr a' => a == a'
  | .notIn s, .oneOf s' => s == s'
  | .shapeNe a, .sameSize a' => a == a'
  | .notCallable, .callable => true
  | .notBuilt, .built => true
  | _, _ => false

inductive ErrClass | typeError | valueError | sizeError | argumentError | buildError | other
deriving DecidableEq, Repr

structure Guard where
  cond : Cond
  err : ErrClass
  dom : Dom
  msg : String
deriving Repr

structure Setter where
  cls : String
  attr : String
  guards : List Guard
deriving Repr

/-- the setter: the first guard that holds raises its error; otherwise the value is stored -/
def firstError (ctx : Ctx) (v : PyVal) : List Guard → Option ErrClass
  | [] => none
  | g :: gs => if g.cond.holds ctx v then some g.err else firstError ctx v gs

/-- object state as attribute ↦ value; `set` is atomic by construction -/
def setAttr {σ : Type} (store : σ → PyVal → σ) (ctx : Ctx) (guards : List Guard) (o : σ) (v : PyVal) :
    Except ErrClass σ :=
  match firstError ctx v guards with
  | some e => .error e
  | none => .ok (store o v)

/-- is an `int`-type guard among these conditions? -/
def hasIntGuard : List Guard → Bool
  | [] => false
  | g :: gs => (match g.cond with | .notInst [.int] => true | _ => false) || hasIntGuard gs

/-- names (`Class.attr#i`) of the guards whose condition does not match the documented domain -/
def mismatchesOf (s : Setter) : List String :=
  let rec go (i : Nat) (seen : List Guard) : List Guard → List String
    | [] => []
    | g :: gs =>
      (if agree (hasIntGuard seen) g.cond g.dom then [] else [s!"{s.cls}.{s.attr}#{i}"])
        ++ go (i + 1) (seen ++ [g]) gs
  go 0 [] s.guards

def mismatches (tbl : List Setter) : List String := tbl.flatMap mismatchesOf

end Opy.G
