/-!
`History.save` and `History.load` as the translator reads them, and the file system they talk to as a finite map from
the *name handed in* to what was written.  `Proofs/PersistProg.lean` proves the round trip for any number of histories
saved side by side: `load(name)` returns what the last `save(name, …)` wrote, whatever was saved under other names.
-/
namespace Opy

inductive PathExpr where
  /-- the `file_name` parameter itself -/
  | param
  /-- anything computed from it (extension added / replaced, directory prefixed, …) -/
  | other (src : String)
deriving DecidableEq, Repr

inductive Dumped where
  /-- `pickle.dump(self, f)` -/
  | self
  /-- `pickle.dump(self.__dict__, f)` -/
  | dict
  | other (src : String)
deriving DecidableEq, Repr

structure SaveProg where
  path : PathExpr
  /-- mode of `open` -/
  mode : String
  dumped : Dumped
  extraStmts : Nat
deriving DecidableEq, Repr

structure LoadProg where
  path : PathExpr
  mode : String
  /-- `h = pickle.load(f)` -/
  unpickles : Bool
  /-- `self.__dict__.update(h.__dict__)` -/
  updatesDictFromLoaded : Bool
  extraStmts : Nat
deriving DecidableEq, Repr

def SaveProg.wellFormed (s : SaveProg) : Bool := s.path == .param && s.mode == "wb" && s.dumped == .self && s.extraStmts == 0
def LoadProg.wellFormed (l : LoadProg) : Bool :=
  l.path == .param && l.mode == "rb" && l.unpickles && l.updatesDictFromLoaded && l.extraStmts == 0

/-- files by the name they were opened under (most recent first) -/
abbrev FS (α : Type) := List (String × α)

def FS.write {α : Type} (fs : FS α) (name : String) (x : α) : FS α := (name, x) :: fs
def FS.read {α : Type} (fs : FS α) (name : String) : Option α := (fs.find? (fun kv => kv.1 == name)).map (·.2)

/-- `save`: the attribute dictionary of the object goes to the file named by the argument -/
def SaveProg.run {α : Type} (s : SaveProg) (fs : FS α) (name : String) (attrs : α) : Option (FS α) :=
  if s.wellFormed then some (fs.write name attrs) else none

/-- `load`: the attribute dictionary read from the file named by the argument (`none`: no such file / not understood);
    merging it into the target is `loadInto` of `Model/History.lean` -/
def LoadProg.run {α : Type} (l : LoadProg) (fs : FS α) (name : String) : Option α :=
  if l.wellFormed then fs.read name else none

namespace Expected
def saveProg : SaveProg := { path := .param, mode := "wb", dumped := .self, extraStmts := 0 }
def loadProg : LoadProg := { path := .param, mode := "rb", unpickles := true, updatesDictFromLoaded := true, extraStmts := 0 }
end Expected

end Opy
