import OpyVerif.Model.Clip
/-
Model of `GP._evaluate` (the evaluation sweep of genetic programming).

For individual `i` (tree `i` paired with agent `i` by `zip(space.trees, space.agents)`):

    agent.position = copy.deepcopy(tree.position)      -- the tree's value (see `evalTree`)
    agent.check_limits()                               -- `clipPos lbs ubs`
    agent.fit = function.pointer(agent.position)
    if agent.fit < space.best_agent.fit:
        space.best_tree = copy.deepcopy(tree)          -- recorded as the index `i`
        space.best_agent.position = copy.deepcopy(agent.position)
        space.best_agent.fit = copy.deepcopy(agent.fit)

The tree values are inputs (oracle list `tvs`, one `Pos` per individual: what evaluating the
tree reports); positions and fitnesses are keys, as in `Clip.lean`.  The best tree is modelled
by the index of the individual it was copied from (`none` = not replaced during this sweep);
the deep copy itself is `PNode.shift` with a fresh identity offset and is treated in C08.
Core Lean only; total; computable.
-/
namespace Opy

/-- the incumbent: `(best_agent.fit, best_agent.position, index best_tree was copied from)` -/
abbrev GPBest := Int × Pos × Option Nat

/-- state of the `for i, (tree, agent) in enumerate(zip(...))` loop:
    next index, agents written so far (position, fit), incumbent -/
abbrev GPState := Nat × List (Pos × Int) × GPBest

/-- one turn of the loop body for the individual whose tree evaluates to `tv` -/
def gpStep (lbs ubs : List Int) (f : Pos → Int) (st : GPState) (tv : Pos) : GPState :=
  let i := st.1
  let agents := st.2.1
  let best := st.2.2
  let p := clipPos lbs ubs tv            -- position := copy(tree value); check_limits()
  let fit := f p                         -- fit := f(position)
  let best' : GPBest := if fit < best.1 then (fit, p, some i) else best
  (i + 1, agents ++ [(p, fit)], best')

/-- `GP._evaluate`: the agents after the sweep and the incumbent after the sweep -/
def gpSweep (lbs ubs : List Int) (f : Pos → Int) (tvs : List Pos) (best : GPBest) :
    List (Pos × Int) × GPBest :=
  (tvs.foldl (gpStep lbs ubs f) (0, [], best)).2

end Opy
