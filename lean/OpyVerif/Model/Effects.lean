/-
Effect DSL for what an optimisation run may do, and its interpreter.

A run is a *program* over seven primitives (free-monad style: every node carries the
continuation that receives the primitive's answer):

* `uniform` / `normal`  — one draw from the global NumPy generator (`opytimizer.math.random`);
* `choice n`            — one integer draw in `range n` (`np.random.choice`, `randint`);
* `clock`               — `time.time()` (used for the `time` entry of the history only);
* `objective x`         — one call of the user's objective function on position `x`;
* `hook`                — the optional `pre_evaluation_hook` (nothing observable to the run);
* `pure a`              — return.

The `World` is everything such a program could conceivably depend on: the generator (a stream
`rng` with a read position `pos` — the stream *is* the seed), the clock (a stream with its own
position) and `ambient`, which stands for everything else in the process (hash seed, earlier
workload, module globals, …).  The interpreter reads `rng`, `clock` and the objective — and
never `ambient`.  Values are keys (`Int`), as in `Clip.lean`.
Core Lean only; total; computable.
-/
namespace Opy

inductive Prog (α : Type) where
  | pure (a : α)
  | uniform (k : Int → Prog α)
  | normal (k : Int → Prog α)
  | choice (n : Nat) (k : Nat → Prog α)
  | clock (k : Int → Prog α)
  | objective (x : List Int) (k : Int → Prog α)
  | hook (k : Unit → Prog α)

structure World where
  /-- the generator's output stream (determined by the seed) -/
  rng : Nat → Int
  /-- how many elements of `rng` have been consumed -/
  pos : Nat
  /-- successive readings of `time.time()` -/
  clock : Nat → Int
  /-- how many clock readings have been taken -/
  cpos : Nat
  /-- everything else in the process -/
  ambient : Nat

/-- the integer a `choice n` node gets from the raw draw `r` -/
def choiceOf (n : Nat) (r : Int) : Nat := r.toNat % n

/-- the interpreter: result and final world -/
def interp {α : Type} (f : List Int → Int) : Prog α → World → α × World
  | .pure a, w => (a, w)
  | .uniform k, w => interp f (k (w.rng w.pos)) { w with pos := w.pos + 1 }
  | .normal k, w => interp f (k (w.rng w.pos)) { w with pos := w.pos + 1 }
  | .choice n k, w => interp f (k (choiceOf n (w.rng w.pos))) { w with pos := w.pos + 1 }
  | .clock k, w => interp f (k (w.clock w.cpos)) { w with cpos := w.cpos + 1 }
  | .objective x k, w => interp f (k (f x)) w
  | .hook k, w => interp f (k ()) w

/-- number of draw nodes (`uniform`, `normal`, `choice`) on the executed path -/
def draws {α : Type} (f : List Int → Int) : Prog α → World → Nat
  | .pure _, _ => 0
  | .uniform k, w => draws f (k (w.rng w.pos)) { w with pos := w.pos + 1 } + 1
  | .normal k, w => draws f (k (w.rng w.pos)) { w with pos := w.pos + 1 } + 1
  | .choice n k, w => draws f (k (choiceOf n (w.rng w.pos))) { w with pos := w.pos + 1 } + 1
  | .clock k, w => draws f (k (w.clock w.cpos)) { w with cpos := w.cpos + 1 }
  | .objective x k, w => draws f (k (f x)) w
  | .hook k, w => draws f (k ()) w

/-- number of `clock` nodes on the executed path -/
def ticks {α : Type} (f : List Int → Int) : Prog α → World → Nat
  | .pure _, _ => 0
  | .uniform k, w => ticks f (k (w.rng w.pos)) { w with pos := w.pos + 1 }
  | .normal k, w => ticks f (k (w.rng w.pos)) { w with pos := w.pos + 1 }
  | .choice n k, w => ticks f (k (choiceOf n (w.rng w.pos))) { w with pos := w.pos + 1 }
  | .clock k, w => ticks f (k (w.clock w.cpos)) { w with cpos := w.cpos + 1 } + 1
  | .objective x k, w => ticks f (k (f x)) w
  | .hook k, w => ticks f (k ()) w

/-- the program has no `clock` node anywhere (on any path) -/
def Prog.NoClock {α : Type} : Prog α → Prop
  | .pure _ => True
  | .uniform k => ∀ x, (k x).NoClock
  | .normal k => ∀ x, (k x).NoClock
  | .choice _ k => ∀ x, (k x).NoClock
  | .clock _ => False
  | .objective _ k => ∀ x, (k x).NoClock
  | .hook k => ∀ x, (k x).NoClock

/-- a world whose generator was seeded: `gen seed` is the stream, nothing consumed yet -/
def World.seeded (gen : Nat → Nat → Int) (seed : Nat) (clock : Nat → Int) (ambient : Nat) : World :=
  { rng := gen seed, pos := 0, clock := clock, cpos := 0, ambient := ambient }

end Opy
