import OpyVerif.Model.Pop
import OpyVerif.Model.CreateProg
/-!
`TreeSpace._create_trees` and `TreeSpace._create_terminals` as the translator reads them.  The trees are grown one after
the other (`growMany`), the best tree is a deep copy of the first (`shift` onto fresh identities).
`Proofs/TreesProg.lean` proves that the expected record builds a forest of `n_trees` proper, pairwise disjoint trees and a
best tree disjoint from all of them: the starting point of the population invariant of `Proofs/Forest.lean`.
-/
namespace Opy
open PNode

structure TreesProg where
  /-- the list is built under `if algorithm == 'GROW':` and `'GROW'` is the parameter's default -/
  guardIsGrowDefault : Bool
  listKind : ListKind
  /-- the element is `self.grow(self.min_depth, self.max_depth)` -/
  elemIsGrowCall : Bool
  /-- the count is `self.n_trees` -/
  countIsNTrees : Bool
  /-- `best_tree = copy.deepcopy(trees[0])` -/
  bestIsDeepCopyOfFirst : Bool
  /-- `return trees, best_tree` -/
  returnsPair : Bool
  extraStmts : Nat
deriving DecidableEq, Repr

def TreesProg.wellFormed (t : TreesProg) : Bool :=
  t.guardIsGrowDefault && t.elemIsGrowCall && t.countIsNTrees && t.bestIsDeepCopyOfFirst && t.returnsPair && t.extraStmts == 0
    && t.listKind != .other

/-- the forest and the best tree (`none`: a draw list that is too short, `trees[0]` on an empty list, or a record that is
    not understood).  `k` is `max_depth - min_depth`, `draws` the integer draws of `grow`, `nid` the first free identity. -/
def TreesProg.run (t : TreesProg) (cfg : GrowCfg) (k n : Nat) (draws : List Nat) (nid : Nat) : Option Pop :=
  if !t.wellFormed then none else
  match t.listKind with
  | .comprehension =>
    match growMany cfg k n draws nid with
    | some (t0 :: ts, _, m) => some ⟨t0 :: ts, shift m t0, 2 * m⟩
    | _ => none
  | .repeated =>
    match PNode.grow cfg k draws nid with
    | some (t0, _, m) => if n = 0 then none else some ⟨List.replicate n t0, shift m t0, 2 * m⟩
    | none => none
  | .other => none

namespace Expected
def treesProg : TreesProg :=
  { guardIsGrowDefault := true, listKind := .comprehension, elemIsGrowCall := true, countIsNTrees := true,
    bestIsDeepCopyOfFirst := true, returnsPair := true, extraStmts := 0 }
/-- `_create_terminals` has the shape of `_create_agents` without a best agent: it is read into a `CreateProg` whose
    `bestIsDeepCopyOfFirst` / `returnsPair` fields say "returns the list" -/
def terminalsProg : CreateProg :=
  { listKind := .comprehension, elemIsAgentCtor := true, countIsNAgents := true, bestIsDeepCopyOfFirst := false,
    returnsPair := false, extraStmts := 0 }
end Expected

end Opy
