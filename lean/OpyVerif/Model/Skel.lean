/-
Skeleton of an optimiser's `run()`: the ordered list of hook / sweep / update / clip / post /
dump steps before and inside the iteration loop, as the translator extracts it from the
source on every run (`Generated/Skeletons.lean`), and its event-pattern semantics.
-/
namespace Opy

inductive Step where
  | update (name : String)
  | clipAll
  /-- `argsOk`: called as `pre_evaluation_hook(self, space, function)` under `if pre_evaluation_hook:` -/
  | hook (argsOk : Bool)
  | sweep
  | post (name : String)
  /-- keyword arguments of `history.dump`: (key, source expression) -/
  | dump (kws : List (String × String))
  | assign (name : String)
  /-- a statement the extractor does not recognise -/
  | unknown (src : String)
deriving DecidableEq, Repr

structure Skeleton where
  pre : List Step
  body : List Step
  /-- the iteration loop is `for _ in range(<loopBound>)` -/
  loopBound : String
  /-- statements after the loop: only `return history` -/
  returnsHistory : Bool
deriving Repr

inductive SEv | hook | sweep | clipAll | update | post | dump
deriving DecidableEq, Repr

def Step.ev : Step → List SEv
  | .update _ => [.update] | .clipAll => [.clipAll] | .hook _ => [.hook] | .sweep => [.sweep]
  | .post _ => [.post] | .dump _ => [.dump] | .assign _ => [] | .unknown _ => []

def evs (l : List Step) : List SEv := l.flatMap Step.ev

/-- event pattern of a run with `N` iterations -/
def runSkel (sk : Skeleton) : Nat → List SEv
  | 0 => evs sk.pre
  | n+1 => runSkel sk n ++ evs sk.body

def Step.isUnknown : Step → Bool | .unknown _ => true | _ => false
def Step.hookOk : Step → Bool | .hook ok => ok | _ => true

/-- shape every bundled optimiser's loop body must have:
    `update+ [clipAll] hook sweep post* dump` (post steps only after the sweep) -/
def goodBody (needClip : Bool) (l : List Step) : Bool :=
  let e := evs l
  let upd := e.takeWhile (· == .update)
  let rest := e.dropWhile (· == .update)
  let afterSweep := rest.dropWhile (fun x => x == .clipAll || x == .hook || x == .sweep)
  !upd.isEmpty
  && rest.takeWhile (fun x => x == .clipAll || x == .hook || x == .sweep)
      == (if needClip then [.clipAll, .hook, .sweep] else [.hook, .sweep])
  && afterSweep.dropWhile (· == .post) == [.dump]

/-- the dump records the live population and best agent under the library's keys -/
def goodDump : Step → Bool
  | .dump kws => kws.contains ("agents", "space.agents") && kws.contains ("best_agent", "space.best_agent")
  | _ => true

def Good (needClip : Bool) (sk : Skeleton) : Bool :=
  evs sk.pre == [.hook, .sweep] && goodBody needClip sk.body
  && sk.loopBound == "space.n_iterations" && sk.returnsHistory
  && (sk.pre ++ sk.body).all (fun s => !s.isUnknown && s.hookOk && goodDump s)

def count (e : SEv) (l : List SEv) : Nat := (l.filter (· == e)).length

end Opy

namespace Opy

/-! ### evaluation sites

For every function of the library that calls the objective, the translator lists, in source
order, what happens to the evaluated object's position before the call. -/

inductive SiteOp where
  /-- the position is (re)assigned or modified in place: an oracle value -/
  | assign
  /-- `X.check_limits()` -/
  | clip
  /-- `function.pointer(X.position)` -/
  | eval
deriving DecidableEq, Repr

structure Site where
  func : String
  obj : String
  ops : List SiteOp
  /-- the function is an evaluation sweep over `space.agents` (relies on the space-wide clip) -/
  isSweep : Bool
deriving Repr

/-- every evaluation is reached with the position freshly clipped: scanning left to right,
    `ok` = "the position is known to be clipped" -/
def opsOk : Bool → List SiteOp → Bool
  | _, [] => true
  | _, .assign :: rest => opsOk false rest
  | _, .clip :: rest => opsOk true rest
  | ok, .eval :: rest => ok && opsOk ok rest

def Site.ok (s : Site) : Bool := opsOk s.isSweep s.ops

end Opy
