/-!
Control flow of `ABC._send_onlooker`:

```
k = 0
while k < len(agents):
    for i, agent in enumerate(agents):      # one full pass over the n agents
        r1 = uniform(0, 1)
        probs = agent.fit / (total + EPSILON) + 0.1
        if r1 < probs:                      # the selection bit of this agent in this pass
            k += 1
            ... one objective call (`_evaluate_location`) ...
```

A pass is the list of its selection bits (`r1 < probs`), one per agent; the random stream is the list
of passes. The loop condition `k < n` is tested only between passes, so a pass once started is
always completed. `k` is at the same time the number of objective calls made by the phase.
-/
namespace Opy

/-- the inner `for`: `k += 1` for every selected agent of the pass, starting from `k` -/
def runPass (k : Nat) (pass : List Bool) : Nat :=
  pass.foldl (fun k b => if b then k + 1 else k) k

/-- the `while` loop from counter `k` on the remaining `passes`: `some k'` with the final counter
    when the loop exits (before the first pass or after some pass), `none` when the supplied passes
    run out while `k < n` still holds -/
def onlooker (n : Nat) : Nat → List (List Bool) → Option Nat
  | k, [] => if k < n then none else some k
  | k, p :: ps => if k < n then onlooker n (runPass k p) ps else some k

/-- the same loop also reporting how many passes it consumed: `some (k', j)` -/
def onlookerTrace (n : Nat) : Nat → List (List Bool) → Option (Nat × Nat)
  | k, [] => if k < n then none else some (k, 0)
  | k, p :: ps =>
    if k < n then (onlookerTrace n (runPass k p) ps).map fun r => (r.1, r.2 + 1) else some (k, 0)

/-- number of selections (`true` bits) in a list of passes -/
def hits (passes : List (List Bool)) : Nat := passes.flatten.count true

end Opy
