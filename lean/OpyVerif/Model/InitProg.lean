import OpyVerif.Model.ClipProg
/-!
The `_initialize_agents` methods of the three space kinds as the translator reads them: the loop nest, the range each
row is drawn from, the size of the draw and the per-agent bound writes.  `InitLoop.run` gives such a loop its meaning
(the agents it leaves behind, given the draws as oracle values) and `InitLoop.ranges` the interval every row was asked
from; `Proofs/InitProg.lean` proves the expected loops are `initSearch` / `initHyper` of `Model/Clip`.
-/
namespace Opy

/-- what the rows of the loop range over -/
inductive RowSrc where
  /-- `enumerate(zip(self.lb, self.ub))` -/
  | zipBounds
  /-- `enumerate(agent.position)` -/
  | agentRows
  | other
deriving DecidableEq, Repr

/-- where a bound of the draw (or a value written to the agent's bounds) comes from -/
inductive DrawRef where
  | zipFst | zipSnd
  /-- the wrapper's default (`low = 0.0` / `high = 1.0`), given as a key -/
  | dflt (key : Int)
  | unknown
deriving DecidableEq, Repr

structure InitLoop where
  /-- `for agent in self.agents` -/
  perAgent : Bool
  rows : RowSrc
  /-- `agent.position[j] = r.generate_uniform_random_number(<low>, <high>, size=agent.n_dimensions)` -/
  targetIsRowJ : Bool
  low : DrawRef
  high : DrawRef
  sizeIsDims : Bool
  /-- `agent.lb[j] = <ref>` / `agent.ub[j] = <ref>` (absent: the agent keeps its default bounds) -/
  writesLb : Option DrawRef
  writesUb : Option DrawRef
  extraStmts : Nat
deriving DecidableEq, Repr

def DrawRef.pick (p : Int × Int) : DrawRef → Int
  | .zipFst => p.1 | .zipSnd => p.2 | .dflt k => k | .unknown => 0

def InitLoop.wellFormed (c : InitLoop) : Bool :=
  c.perAgent && c.rows != .other && c.targetIsRowJ && c.low != .unknown && c.high != .unknown && c.sizeIsDims
    && c.writesLb != some .unknown && c.writesUb != some .unknown && c.extraStmts == 0

/-- the pairs the row loop ranges over: the declared bounds, or (for `enumerate(agent.position)`) one entry per variable
    with nothing to read from it -/
def InitLoop.pairs (c : InitLoop) (lbs ubs : List Int) (v : Nat) : List (Int × Int) :=
  match c.rows with
  | .zipBounds => List.zip lbs ubs
  | .agentRows => List.replicate v (0, 0)
  | .other => []

/-- the interval row `j` of every agent is drawn from -/
def InitLoop.ranges (c : InitLoop) (lbs ubs : List Int) (v : Nat) : List (Int × Int) :=
  (c.pairs lbs ubs v).map (fun p => (c.low.pick p, c.high.pick p))

/-- the bounds an agent carries afterwards: written row by row, or the constructor's defaults (`dlb`, `dub`) -/
def InitLoop.agentBounds (w : Option DrawRef) (pairs : List (Int × Int)) (dflt : List Int) : List Int :=
  match w with
  | some r => pairs.map (fun p => r.pick p)
  | none => dflt

/-- the agents the loop leaves behind, one per draw (`draws` = the positions drawn, oracle values) -/
def InitLoop.run (c : InitLoop) (lbs ubs : List Int) (v : Nat) (draws : List Pos) : Option (List AgentInit) :=
  if c.wellFormed then
    some (draws.map (fun p =>
      { pos := p,
        lb := InitLoop.agentBounds c.writesLb (c.pairs lbs ubs v) (List.replicate v keyZero),
        ub := InitLoop.agentBounds c.writesUb (c.pairs lbs ubs v) (List.replicate v keyOne) }))
  else none

namespace Expected
/-- `SearchSpace._initialize_agents` and `TreeSpace._initialize_agents` -/
def searchInit : InitLoop :=
  { perAgent := true, rows := .zipBounds, targetIsRowJ := true, low := .zipFst, high := .zipSnd, sizeIsDims := true,
    writesLb := some .zipFst, writesUb := some .zipSnd, extraStmts := 0 }
/-- `HyperSpace._initialize_agents` -/
def hyperInit : InitLoop :=
  { perAgent := true, rows := .agentRows, targetIsRowJ := true, low := .dflt keyZero, high := .dflt keyOne, sizeIsDims := true,
    writesLb := none, writesUb := none, extraStmts := 0 }
end Expected

end Opy
