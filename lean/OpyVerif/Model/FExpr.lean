import OpyVerif.Model.Bench
/-!
Syntax of the closed formulas the translator reads from the source (`harness/translate.py`,
section "formulas"): NumPy expressions over one vector argument `x`, named scalar parameters,
literals, `+ - * / **`, the element-wise functions, `np.sum / np.prod / np.linalg.norm`, the slices
`x[:-1]`, `x[1:]`.  Local assignments and calls of other module-level functions are inlined by the
translator, so a whole function body becomes one `FExpr`.

`FExpr.denote` gives the expression its NumPy meaning over any `Elem α` (scalars broadcast over
vectors, two vectors combine element-wise).  `Proofs/Formulas.lean` proves, for all inputs, that the
expected expressions denote the hand-written models of `Model/Bench` and `Model/Num` (the objects of
the ℝ theorems); `Generated/Formulas.lean` proves on every build that what the current source says
*is* the expected expression.  The driver evaluates the generated expressions in `Float`, which
validates the translator's reading against the running code.
-/
namespace Opy

inductive Fn1 where
  | sqrt | exp | log | sin | cos | abs | gamma
deriving DecidableEq, Repr

inductive FExpr where
  | x
  | var (n : String)
  | nat (n : Nat)
  | sci (m : Nat) (neg : Bool) (e : Nat)
  | pi | e | len
  | neg (a : FExpr)
  | add (a b : FExpr) | sub (a b : FExpr) | mul (a b : FExpr) | div (a b : FExpr)
  | pow (a b : FExpr)
  /-- `a ** k` with an integer literal `k` -/
  | ipow (a : FExpr) (k : Nat)
  | fn (f : Fn1) (a : FExpr)
  | sum (a : FExpr) | prod (a : FExpr) | norm (a : FExpr)
  /-- `a[:-1]`, `a[1:]` -/
  | init (a : FExpr) | tail (a : FExpr)
  | unknown (src : String)
deriving DecidableEq, Repr

inductive FVal (α : Type) where
  | s (v : α)
  | v (l : List α)
  | bad
deriving Repr

section
variable {α : Type} [Elem α]
open Elem

/-- `v ** k` for an integer literal `k`, as left-associated repeated multiplication
    (`pw2 … pw6` of `Model/Bench` are `ipowL · 2 … 6`) -/
def ipowL (v : α) : Nat → α
  | 0 => ofNat' 1
  | 1 => v
  | k + 2 => ipowL v (k + 1) * v

def Fn1.app : Fn1 → α → α
  | .sqrt => Elem.sqrt | .exp => Elem.exp | .log => Elem.log | .sin => Elem.sin | .cos => Elem.cos
  | .abs => Elem.abs | .gamma => Elem.gamma

def FVal.map1 (f : α → α) : FVal α → FVal α
  | .s a => .s (f a)
  | .v l => .v (l.map f)
  | .bad => .bad

/-- NumPy broadcasting of a binary operator: scalar∘scalar, scalar∘vector, vector∘scalar,
    vector∘vector (element-wise) -/
def FVal.lift2 (f : α → α → α) : FVal α → FVal α → FVal α
  | .s a, .s b => .s (f a b)
  | .s a, .v l => .v (l.map fun y => f a y)
  | .v l, .s b => .v (l.map fun x => f x b)
  | .v l, .v m => .v (List.zipWith f l m)
  | _, _ => .bad

def FVal.red (f : List α → α) : FVal α → FVal α
  | .s a => .s a
  | .v l => .s (f l)
  | .bad => .bad

def FVal.sl (f : List α → List α) : FVal α → FVal α
  | .v l => .v (f l)
  | _ => .bad

def FExpr.denote (env : String → α) (xs : List α) : FExpr → FVal α
  | .x => .v xs
  | .var n => .s (env n)
  | .nat n => .s (ofNat' n)
  | .sci m b ex => .s (ofSci m b ex)
  | .pi => .s Elem.pi
  | .e => .s (Elem.exp (ofNat' 1))
  | .len => .s (ofNat' xs.length)
  | .neg a => (a.denote env xs).map1 (fun v => -v)
  | .add a b => FVal.lift2 (· + ·) (a.denote env xs) (b.denote env xs)
  | .sub a b => FVal.lift2 (· - ·) (a.denote env xs) (b.denote env xs)
  | .mul a b => FVal.lift2 (· * ·) (a.denote env xs) (b.denote env xs)
  | .div a b => FVal.lift2 (· / ·) (a.denote env xs) (b.denote env xs)
  | .pow a b => FVal.lift2 Elem.pow (a.denote env xs) (b.denote env xs)
  | .ipow a k => (a.denote env xs).map1 (fun v => ipowL v k)
  | .fn f a => (a.denote env xs).map1 f.app
  | .sum a => (a.denote env xs).red Opy.sumL
  | .prod a => (a.denote env xs).red Opy.prodL
  | .norm a => (a.denote env xs).red Opy.norm
  | .init a => (a.denote env xs).sl List.dropLast
  | .tail a => (a.denote env xs).sl List.tail
  | .unknown _ => .bad

/-- no `unknown` node: the translator recognised every sub-expression -/
def FExpr.known : FExpr → Bool
  | .unknown _ => false
  | .neg a | .ipow a _ | .fn _ a | .sum a | .prod a | .norm a | .init a | .tail a => a.known
  | .add a b | .sub a b | .mul a b | .div a b | .pow a b => a.known && b.known
  | _ => true

end

/-- scalar result or a NaN marker, for the driver -/
def FVal.scalar? {α : Type} : FVal α → Option α
  | .s a => some a
  | _ => none

end Opy
