import OpyVerif.Model.TreeOps
/-!
`GP._reproduction` as the translator reads it: the working fitness list, the number of individuals, the
selection call, and the four statements of the loop body.  `ReproLoop.run` gives a well-formed record its meaning;
`Proofs/ReproProg.lean` proves that the expected record is `PNode.reproduction` of `Model/TreeOps` (the function
the C09 reproduction theorems are about), for every population, fitness list and tournament outcome.
-/
namespace Opy

inductive CopyKind where
  /-- `copy.deepcopy(x)` -/
  | deep
  /-- `copy.copy(x)`, `x`, or anything else -/
  | other
deriving DecidableEq, Repr

structure ReproLoop where
  /-- `fitness = [agent.fit for agent in space.agents]` -/
  fitnessFromAgents : Bool
  /-- `n_individuals = int(space.n_trees * self.p_reproduction)` -/
  countIsTreesTimesP : Bool
  /-- `selected = g.tournament_selection(fitness, n_individuals)`, iterated in order -/
  selectionIsTournament : Bool
  /-- `worst = np.argmax(fitness)` (first maximum), recomputed in every round -/
  worstIsArgmax : Bool
  /-- `space.trees[worst] = <copy>(space.trees[s])` -/
  treeCopy : CopyKind
  treeFromSelected : Bool
  /-- `space.agents[worst] = <copy>(space.agents[s])` -/
  agentCopy : CopyKind
  agentFromSelected : Bool
  /-- `fitness[worst] = <marker>` (key of the literal) -/
  marker : Option Int
  /-- statements of the method the reader does not recognise -/
  extraStmts : Nat
deriving DecidableEq, Repr

def ReproLoop.wellFormed (r : ReproLoop) : Bool :=
  r.fitnessFromAgents && r.countIsTreesTimesP && r.selectionIsTournament && r.worstIsArgmax
    && r.treeCopy == .deep && r.treeFromSelected && r.agentCopy == .deep && r.agentFromSelected
    && r.marker == some 0 && r.extraStmts == 0

/-- one round with marker value `m`: the first arg-max of the working fitness is overwritten by copies of
    individual `s`, and marked -/
def reproStepM {α β : Type} (cpT : α → α) (cpA : β → β) (m : Int)
    (st : List α × List β × List Int) (s : Nat) : List α × List β × List Int :=
  let w := PNode.argmaxFirst st.2.2
  match st.1[s]?, st.2.1[s]? with
  | some t, some a => (st.1.set w (cpT t), st.2.1.set w (cpA a), st.2.2.set w m)
  | _, _ => st

/-- the loop on (trees, agents, working fitness) for the tournament outcome `selected`; `cpT`, `cpA` are what a
    deep copy of a tree / an agent is -/
def ReproLoop.run {α β : Type} (r : ReproLoop) (cpT : α → α) (cpA : β → β)
    (trees : List α) (agents : List β) (fit : List Int) (selected : List Nat) : Option (List α × List β × List Int) :=
  if r.wellFormed then some (selected.foldl (reproStepM cpT cpA ((r.marker).getD 0)) (trees, agents, fit))
  else none

namespace Expected
def reproLoop : ReproLoop :=
  { fitnessFromAgents := true, countIsTreesTimesP := true, selectionIsTournament := true, worstIsArgmax := true,
    treeCopy := .deep, treeFromSelected := true, agentCopy := .deep, agentFromSelected := true,
    marker := some 0, extraStmts := 0 }
end Expected

end Opy
