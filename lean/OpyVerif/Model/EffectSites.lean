import OpyVerif.Model.Effects
/-!
The call sites of the library that can read anything besides their arguments, as the translator lists them
from every module (`Generated/EffectsDefs.lean`), and the primitive of the effect signature of
`Model/Effects.lean` each of them is.  `Proofs/C05.lean` proves that programs over that signature depend on
the world only through the consumed generator stream (and the clock, for the `time` entry);
`sites_in_signature` says every site the source contains is one of those primitives, or file access by
`History.save/load`, which no optimisation task performs.
-/
namespace Opy

/-- the primitive a call site is (`none`: not part of the signature) -/
inductive EffKind where
  | uniform | normal | choice | clock | fileIO
deriving DecidableEq, Repr

def effKindOf (call : String) : Option EffKind :=
  if call = "np.random.uniform" then some .uniform
  else if call = "np.random.normal" then some .normal
  else if call = "np.random.choice" then some .choice
  else if call = "time.time" then some .clock
  else if call = "open" then some .fileIO
  else none

namespace Expected
def effectSites : List (String × String × String) := [
  ("opytimizer.math.general", "tournament_selection", "np.random.choice"),
  ("opytimizer.math.random", "generate_gaussian_random_number", "np.random.normal"),
  ("opytimizer.math.random", "generate_uniform_random_number", "np.random.uniform"),
  ("opytimizer.opytimizer", "Opytimizer.start", "time.time"),
  ("opytimizer.utils.history", "History.load", "open"),
  ("opytimizer.utils.history", "History.save", "open")
]
end Expected

/-- every site is a primitive of the signature; the clock is read only by `Opytimizer.start`; files are touched
    only by `History.save/load` -/
theorem sites_in_signature :
    Expected.effectSites.all (fun s => (effKindOf s.2.2).isSome) = true ∧
    (Expected.effectSites.filter (fun s => effKindOf s.2.2 == some .clock)).map (·.2.1) = ["Opytimizer.start"] ∧
    (Expected.effectSites.filter (fun s => effKindOf s.2.2 == some .fileIO)).map (·.2.1) = ["History.load", "History.save"] := by
  decide

end Opy
