import OpyVerif.Model.Select
/-!
`tournament_selection` and `generate_bernoulli_distribution` (math/general.py, math/distribution.py) as
translated programs with a Lean semantics (they used to be pinned as string tables only).  The translator
emits the records it reads; `Generated/FormulasC18.lean` re-decides `Gen.tournProg = Expected.tournProg`,
`Gen.bernProg = Expected.bernProg`; `Proofs/SelectProg.lean` proves the expected programs are the models
`tournament` / `bernoulli` the C18 theorems speak about.
-/
namespace Opy

inductive Agg where | min | max | other
deriving Repr, DecidableEq

inductive PickRule where
  /-- `np.where(m == fitness)[0][0]` -/
  | firstEq
  /-- `np.where(m == fitness)[0][-1]` -/
  | lastEq
  | other
deriving Repr, DecidableEq

structure TournProg where
  /-- `for _ in range(n)`: one round per requested individual -/
  roundsRangeN : Bool
  /-- each round draws `c.TOURNAMENT_SIZE` values -/
  drawsConstSize : Bool
  /-- every value is `np.random.choice(fitness)` -/
  drawsFromFitness : Bool
  agg : Agg
  pick : PickRule
  /-- the winners are appended in round order and that list is returned -/
  appendsInOrder : Bool
deriving Repr, DecidableEq

def maxList : List Int → Option Int
  | [] => none
  | x :: xs => match maxList xs with
    | none => some x
    | some m => some (if m ≤ x then x else m)

def lastIdx (v : Int) (l : List Int) : Option Nat :=
  (firstIdx v l.reverse).map (fun i => l.length - 1 - i)

def TournProg.aggOf (pg : TournProg) (step : List Int) : Option Int :=
  match pg.agg with
  | .min => minList step
  | .max => maxList step
  | .other => none

def TournProg.pickOf (pg : TournProg) (m : Int) (fitness : List Int) : Option Nat :=
  match pg.pick with
  | .firstEq => firstIdx m fitness
  | .lastEq => lastIdx m fitness
  | .other => none

def TournProg.wellFormed (pg : TournProg) : Bool :=
  pg.roundsRangeN && pg.drawsConstSize && pg.drawsFromFitness && pg.appendsInOrder

/-- the selected indices, given the values drawn in each round (`none`: the code raises, or the program has a part
    the semantics does not cover) -/
def TournProg.rounds (pg : TournProg) (fitness : List Int) : List (List Int) → Option (List Nat)
  | [] => some []
  | step :: rest =>
    match pg.aggOf step with
    | none => none
    | some m =>
      match pg.pickOf m fitness, TournProg.rounds pg fitness rest with
      | some i, some is => some (i :: is)
      | _, _ => none

def TournProg.run (pg : TournProg) (fitness : List Int) (rounds : List (List Int)) : Option (List Nat) :=
  if pg.wellFormed then pg.rounds fitness rounds else none

inductive BCmp where | lt | le | gt | ge | other
deriving Repr, DecidableEq

structure BernProg where
  /-- the uniform draws come from `generate_uniform_random_number(0, 1, size)` -/
  drawsUnit : Bool
  /-- one entry per index of `range(size)` -/
  loopRangeSize : Bool
  /-- `if r1[i] <cmp> prob` -/
  cmp : BCmp
  thenVal : Nat
  elseVal : Nat
deriving Repr, DecidableEq

def BCmp.holds : BCmp → Int → Int → Bool
  | .lt, a, b => a < b
  | .le, a, b => a ≤ b
  | .gt, a, b => a > b
  | .ge, a, b => a ≥ b
  | .other, _, _ => false

def BernProg.run (pg : BernProg) (prob : Int) (us : List Int) : Option (List Nat) :=
  if pg.drawsUnit && pg.loopRangeSize && pg.cmp != .other then
    some (us.map (fun u => if pg.cmp.holds u prob then pg.thenVal else pg.elseVal))
  else none

namespace Expected
def tournProg : TournProg :=
  { roundsRangeN := true, drawsConstSize := true, drawsFromFitness := true, agg := .min, pick := .firstEq, appendsInOrder := true }
def bernProg : BernProg := { drawsUnit := true, loopRangeSize := true, cmp := .lt, thenVal := 1, elseVal := 0 }
end Expected

end Opy
