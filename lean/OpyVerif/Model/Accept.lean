/-
Acceptance sites: every `if <fitness comparison>:` of the library that replaces an incumbent
(the best agent, a population member, a personal best) by a candidate.  The translator lists
them from the source (`Generated/AcceptsDefs.lean`); this file gives the records a semantics and
a checkable well-formedness predicate; `Proofs/Accept.lean` proves what well-formed records
guarantee (never worse, truthful pair, private storage, agreement with the machine's sweep rule).
-/
namespace Opy

inductive Cmp | lt | le | gt | ge | other
deriving DecidableEq, Repr

/-- where a value comes from -/
inductive Src | cand | incumbent | other
deriving DecidableEq, Repr

/-- what the site is for -/
inductive Role
  /-- sweep: the best agent is replaced by the evaluated agent -/
  | best
  /-- greedy trial: a population member is replaced by a better trial -/
  | greedy
  /-- swarm personal best -/
  | pbest
  /-- simulated annealing: better, or a Metropolis coin -/
  | metropolis
  /-- black hole: evaluated agent and best exchange places -/
  | swap
  /-- a comparison that replaces nobody (counting successes, attraction, …) -/
  | other
deriving DecidableEq, Repr

structure AcceptRec where
  func : String
  role : Role
  op : Cmp
  /-- left and right operand of the comparison -/
  lhs : Src
  rhs : Src
  /-- the incumbent's new position comes from … -/
  posFrom : Src
  /-- … through a copy (`copy.deepcopy`, `.copy()`, `np.array`, slot assignment into an array)
      rather than by reference -/
  posCopy : Bool
  /-- the incumbent's new fitness comes from … -/
  fitFrom : Src
  /-- both position and fitness are assigned (or the whole object is replaced by a copy) -/
  both : Bool
  /-- statements in the branch the extractor does not recognise -/
  unknown : Nat
deriving Repr

structure Holder where
  pos : List (List Int)
  fit : Int
  /-- identity of the position storage -/
  ref : Nat
deriving DecidableEq, Repr

def Cmp.eval : Cmp → Int → Int → Bool
  | .lt, a, b => decide (a < b)
  | .le, a, b => decide (a ≤ b)
  | .gt, a, b => decide (a > b)
  | .ge, a, b => decide (a ≥ b)
  | .other, _, _ => false

def pick (s : Src) (cand inc : Holder) (other : Holder) : Holder :=
  match s with | .cand => cand | .incumbent => inc | .other => other

/-- what executing the site does to the incumbent (`fresh` = identity of newly allocated
    storage, `other` = anything else the code might read: an oracle value) -/
def acceptStep (r : AcceptRec) (cand inc other : Holder) (fresh : Nat) : Holder :=
  if r.op.eval (pick r.lhs cand inc other).fit (pick r.rhs cand inc other).fit then
    let p := pick r.posFrom cand inc other
    { pos := p.pos, fit := (pick r.fitFrom cand inc other).fit, ref := if r.posCopy then fresh else p.ref }
  else inc

/-- well-formed replacement: "candidate strictly better (or not worse) than incumbent → the
    incumbent takes a *copy* of the candidate's position and the candidate's fitness" -/
def AcceptRec.okReplace (r : AcceptRec) : Bool :=
  (r.op == .lt || r.op == .le) && r.lhs == .cand && r.rhs == .incumbent
  && r.posFrom == .cand && r.posCopy && r.fitFrom == .cand && r.both && r.unknown == 0

def AcceptRec.ok (r : AcceptRec) : Bool :=
  match r.role with
  | .best | .greedy | .pbest | .metropolis => r.okReplace
  | .swap => (r.op == .lt) && r.lhs == .cand && r.rhs == .incumbent && r.both && r.unknown == 0
  | .other => true

end Opy
