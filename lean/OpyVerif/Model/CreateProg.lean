/-!
`Space._create_agents` and `Space._build` as the translator reads them.  Objects are modelled by an identity and a shape;
`next` is the allocator's high-water mark (every constructor call and every deep copy takes a fresh identity).
`Proofs/CreateProg.lean` proves that the expected records build `n_agents` pairwise distinct agents of the declared shape
and a best agent that is none of them.
-/
namespace Opy

inductive ListKind where
  /-- `[<expr> for _ in range(<count>)]`: the element expression is evaluated once per element -/
  | comprehension
  /-- `[<expr>] * <count>`: one object, repeated -/
  | repeated
  | other
deriving DecidableEq, Repr

structure CreateProg where
  listKind : ListKind
  /-- the element is `Agent(n_variables=self.n_variables, n_dimensions=self.n_dimensions)` -/
  elemIsAgentCtor : Bool
  /-- the count is `self.n_agents` -/
  countIsNAgents : Bool
  /-- `best_agent = copy.deepcopy(agents[0])` -/
  bestIsDeepCopyOfFirst : Bool
  /-- `return agents, best_agent` -/
  returnsPair : Bool
  extraStmts : Nat
deriving DecidableEq, Repr

structure AgentObj where
  id : Nat
  nVars : Nat
  nDims : Nat
deriving DecidableEq, Repr

def CreateProg.wellFormed (c : CreateProg) : Bool :=
  c.elemIsAgentCtor && c.countIsNAgents && c.bestIsDeepCopyOfFirst && c.returnsPair && c.extraStmts == 0
    && c.listKind != .other

/-- the list of agents and the best agent (`none`: `agents[0]` raises on an empty list, or the record is not understood) -/
def CreateProg.run (c : CreateProg) (n v d next : Nat) : Option (List AgentObj × AgentObj) :=
  if !c.wellFormed then none else
  let agents : List AgentObj := match c.listKind with
    | .comprehension => (List.range n).map fun i => ⟨next + i, v, d⟩
    | .repeated => List.replicate n ⟨next, v, d⟩
    | .other => []
  match agents with
  | [] => none
  | a :: _ => some (agents, ⟨next + n, a.nVars, a.nDims⟩)

structure BuildProg where
  /-- `self.lb = np.asarray(lower_bound)` -/
  lbFromArg : Bool
  /-- `self.ub = np.asarray(upper_bound)` -/
  ubFromArg : Bool
  /-- `self.agents, self.best_agent = self._create_agents()` -/
  agentsFromCreate : Bool
  /-- `self.built = True`, after everything else -/
  builtLast : Bool
  extraStmts : Nat
deriving DecidableEq, Repr

def BuildProg.wellFormed (b : BuildProg) : Bool :=
  b.lbFromArg && b.ubFromArg && b.agentsFromCreate && b.builtLast && b.extraStmts == 0

namespace Expected
def createProg : CreateProg :=
  { listKind := .comprehension, elemIsAgentCtor := true, countIsNAgents := true, bestIsDeepCopyOfFirst := true,
    returnsPair := true, extraStmts := 0 }
def buildProg : BuildProg :=
  { lbFromArg := true, ubFromArg := true, agentsFromCreate := true, builtLast := true, extraStmts := 0 }
end Expected

end Opy
