import OpyVerif.Model.Skel
import OpyVerif.Model.ClipProg
import OpyVerif.Model.SweepProg
/-!
A whole optimisation task of the sixteen population optimisers (everything but GP, whose task is `Model/GPRun`),
composed from what the translator reads on every run:

* the `run()` skeleton of the optimiser (`Skeleton`: which of hook / sweep / update / space-wide clip / post step / dump
  happen, in which order, before and inside the iteration loop),
* the space's `check_limits` (`ClipLoop`),
* the evaluation sweep (`SweepLoop`).

Everything the source does *not* fix is an oracle: the objective, and every update / hook / post step as an arbitrary
function of the population and the best agent (all update arithmetic, every random draw, every trial evaluation inside an
update, whatever a user hook does).  `runTask` folds the event pattern `runSkel sk N` over a state that logs what the
run-level properties talk about: the objective calls made by sweeps, the positions each hook call left behind, the
arguments of each sweep, and the records handed to `History.dump`.

`Proofs/TaskRun.lean` proves the sweep-level clauses of C01, C02, C03 and C04 about `runTask` for every iteration count and
every oracle; `Proofs/TaskRunCode.lean` instantiates them with the skeletons, clip loops and sweeps regenerated from the
working tree (`Gen.skel_*`, `Gen.searchClip`, `Gen.hyperClip`, `Gen.genericSweep`, `Gen.psoSweep`).
-/
namespace Opy

/-- what the source does not determine -/
structure TaskOracle where
  /-- the objective, on keys -/
  f : Pos → Int
  /-- the `k`-th oracle step of the task when it is an update: population and best agent before ↦ after -/
  upd : Nat → List Ag × Ag → List Ag × Ag
  /-- the objective calls that update makes itself (trial evaluations), in order -/
  updEv : Nat → List Ag × Ag → List (Pos × Int) := fun _ _ => []
  /-- … when it is a call of the pre-evaluation hook -/
  hook : Nat → List Ag × Ag → List Ag × Ag
  /-- … when it is a post step (`AIWPSO._compute_success`, `WCA._raining_process` …) -/
  post : Nat → List Ag × Ag → List Ag × Ag

structure TaskProg where
  skel : Skeleton
  clip : ClipLoop
  sweep : SweepLoop

structure TaskSt where
  pop : List Ag
  best : Ag
  /-- objective calls made by sweeps, oldest first -/
  evals : List (Pos × Int)
  /-- objective calls made inside updates (trials), oldest first -/
  trialEvals : List (Pos × Int) := []
  /-- the positions every hook call left behind, oldest first -/
  hookOut : List (List Pos)
  /-- the arguments of every sweep, in call order, oldest first -/
  sweepArgs : List (List Pos)
  /-- what every `history.dump(agents=space.agents, best_agent=space.best_agent …)` was handed:
      the (position, fitness) of every agent in population order, and of the best agent -/
  dumps : List (List (Pos × Int) × (Pos × Int))
  /-- oracle steps taken so far (the index the oracles are asked with) -/
  k : Nat
  /-- next unused storage identity -/
  fresh : Nat

/-- a sweep loop that evaluates every agent where it stands: nothing but objective call, personal-best and best-agent steps
    (no position written from a tree, no per-agent clip — those are GP's, `Model/GPRun`), one objective call per round -/
def SweepLoop.plain (l : SweepLoop) : Bool :=
  l.evalsOnce && l.steps.all fun st => match st with
    | .evalToFit | .evalToLocal | .pbest _ _ _ | .best _ _ _ _ _ => true
    | _ => false

/-- one evaluation sweep of a `plain` loop: the loop body, as translated, applied to the agents in population order; each
    agent is evaluated at the position it has when its turn comes -/
def sweepPop (l : SweepLoop) (lbs ubs : List Int) (f : Pos → Int) : List Ag → Ag → Nat → List Ag × Ag
  | [], best, _ => ([], best)
  | a :: as, best, fresh =>
    let r := l.body lbs ubs a.pos (f a.pos) fresh a best
    let rest := sweepPop l lbs ubs f as r.2 (fresh + 1)
    (r.1 :: rest.1, rest.2)

def record (a : Ag) : Pos × Int := (a.pos, a.fit)

def TaskProg.execEv (p : TaskProg) (lbs ubs : List Int) (o : TaskOracle) (s : TaskSt) : SEv → TaskSt
  | .update =>
    let r := o.upd s.k (s.pop, s.best)
    { s with pop := r.1, best := r.2, k := s.k + 1, trialEvals := s.trialEvals ++ o.updEv s.k (s.pop, s.best) }
  | .clipAll => { s with pop := s.pop.map fun a => { a with pos := p.clip.runPos lbs ubs a.pos } }
  | .hook =>
    let r := o.hook s.k (s.pop, s.best)
    { s with pop := r.1, best := r.2, k := s.k + 1, hookOut := s.hookOut ++ [r.1.map (·.pos)] }
  | .sweep =>
    let r := sweepPop p.sweep lbs ubs o.f s.pop s.best s.fresh
    { s with pop := r.1, best := r.2, evals := s.evals ++ s.pop.map (fun a => (a.pos, o.f a.pos)),
             sweepArgs := s.sweepArgs ++ [s.pop.map (·.pos)], fresh := s.fresh + s.pop.length }
  | .post =>
    let r := o.post s.k (s.pop, s.best)
    { s with pop := r.1, best := r.2, k := s.k + 1 }
  | .dump => { s with dumps := s.dumps ++ [(s.pop.map record, record s.best)] }

def TaskProg.exec (p : TaskProg) (lbs ubs : List Int) (o : TaskOracle) (s : TaskSt) (es : List SEv) : TaskSt :=
  es.foldl (p.execEv lbs ubs o) s

/-- the task with `N` iterations -/
def TaskProg.runTask (p : TaskProg) (lbs ubs : List Int) (o : TaskOracle) (s0 : TaskSt) (N : Nat) : TaskSt :=
  p.exec lbs ubs o s0 (runSkel p.skel N)

/-- a task that starts with empty logs -/
def TaskSt.start (pop : List Ag) (best : Ag) : TaskSt :=
  { pop := pop, best := best, evals := [], hookOut := [], sweepArgs := [], dumps := [], k := 0, fresh := 0 }

end Opy
