import OpyVerif.Model.PopLoops
import OpyVerif.Model.TreesProg
/-!
One GP iteration and a whole GP task at the level of the forest: `GP._update` as the translator reads it (the three
operator loops, in source order), followed by the evaluation sweep's best-tree records.  The meaning is composed from
`runGPOps` (reproduction as `reproduce` steps on the slots `GP._reproduction` picks), `CrossLoop.run`, `MutLoop.run`
and `recordBest` steps.  `Proofs/GPRun.lean` proves that the forest stays a family of proper, pairwise disjoint trees
of unchanged size through every task, starting from the forest `TreesProg.run` builds.
-/
namespace Opy
open PNode

/-- the callee names of the statements of `GP._update`, in order (anything else: `"?"`) -/
structure UpdateProg where
  calls : List String
deriving DecidableEq, Repr

namespace Expected
def updateProg : UpdateProg := { calls := ["_reproduction", "_crossover", "_mutation"] }
end Expected

/-- the (overwritten slot, copied individual) pairs of one `_reproduction` call: the slot is the first arg-max of the
    working fitness, which is then marked with 0 (see `Model/ReproProg.lean`) -/
def reproPairs : List Int → List Nat → List (Nat × Nat)
  | _, [] => []
  | fit, s :: ss => (argmaxFirst fit, s) :: reproPairs (fit.set (argmaxFirst fit) 0) ss

def reproOps (fit : List Int) (selected : List Nat) : List GPOp :=
  (reproPairs fit selected).map fun p => GPOp.reproduce p.1 p.2

/-- what one iteration consumes: fitness list and tournament outcomes of the three operators, the points drawn, the trees
    grown, and the individuals whose tree becomes the best tree during the sweep that follows (in order) -/
structure IterInput where
  fit : List Int
  selR : List Nat
  selC : List Nat
  drawsC : List (Nat × Nat)
  selM : List Nat
  pointsM : List Nat
  grownM : List PNode
  bests : List Nat

def bind3 (a : Option Pop) (f : Pop → Option Pop) : Option Pop := match a with | some p => f p | none => none

/-- `_update` (as read: reproduction, crossover, mutation) followed by the sweep's best-tree records -/
def gpIteration (ar : Nat → Nat) (up : UpdateProg) (ml : MutLoop) (cl : CrossLoop) (P : Pop) (i : IterInput) : Option Pop :=
  if up.calls = ["_reproduction", "_crossover", "_mutation"] then
    bind3 (runGPOps ar P (reproOps i.fit i.selR)) fun P1 =>
    bind3 (cl.run P1 i.selC i.drawsC) fun P2 =>
    bind3 (ml.run P2 i.selM i.pointsM i.grownM) fun P3 =>
    runGPOps ar P3 (i.bests.map GPOp.recordBest)
  else none

/-- the task: the initial sweep's best-tree records, then the iterations -/
def gpIterations (ar : Nat → Nat) (up : UpdateProg) (ml : MutLoop) (cl : CrossLoop) : Pop → List IterInput → Option Pop
  | P, [] => some P
  | P, i :: is => match gpIteration ar up ml cl P i with
    | some P' => gpIterations ar up ml cl P' is
    | none => none

def gpTask (ar : Nat → Nat) (up : UpdateProg) (ml : MutLoop) (cl : CrossLoop) (P0 : Pop) (bests0 : List Nat) (is : List IterInput) : Option Pop :=
  bind3 (runGPOps ar P0 (bests0.map GPOp.recordBest)) fun P => gpIterations ar up ml cl P is

end Opy
