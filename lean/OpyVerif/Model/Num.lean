/-
Scalar class shared by the executable (`Float`) and the proof (`ℝ`) instances, and the small
closed formulas of the library written once over it: hypercomplex `norm`/`span`, the
self-adapting hyperparameter schedules, the weighted sum, the affine maps behind
`np.random.uniform/normal`, Mantegna's Lévy step.
The `Float` instance lives here; the `ℝ` instance lives in `Proofs/RealElem.lean`.
-/
namespace Opy

class Elem (α : Type) extends Add α, Sub α, Mul α, Div α, Neg α where
  ofNat' : Nat → α
  /-- decimal literal `m · 10^(∓e)` as written in the source -/
  ofSci : Nat → Bool → Nat → α
  exp : α → α
  log : α → α
  sin : α → α
  cos : α → α
  sqrt : α → α
  abs : α → α
  /-- real power `x ** y` -/
  pow : α → α → α
  pi : α
  /-- Euler's Γ -/
  gamma : α → α

namespace FloatImpl
/-- Lanczos approximation (g = 7, n = 9), reflection below 0.5; ~1e-15 relative on the range
    used by `generate_levy_distribution` (arguments in (0.5, 3]). Executable twin only. -/
def lanczosCoef : List Float :=
  [0.99999999999980993, 676.5203681218851, -1259.1392167224028, 771.32342877765313,
   -176.61502916214059, 12.507343278686905, -0.13857109526572012, 9.9843695780195716e-6,
   1.5056327351493116e-7]

def gammaPos (x : Float) : Float :=
  let x := x - 1.0
  let t := x + 7.5
  let rec go (cs : List Float) (i : Nat) (a : Float) : Float :=
    match cs with
    | [] => a
    | c :: cs => go cs (i + 1) (a + c / (x + Float.ofNat i))
  let a := match lanczosCoef with
    | [] => 0.0
    | c0 :: cs => go cs 1 c0
  Float.sqrt (2.0 * 3.141592653589793) * Float.pow t (x + 0.5) * Float.exp (-t) * a

def gamma (x : Float) : Float :=
  if x < 0.5 then 3.141592653589793 / (Float.sin (3.141592653589793 * x) * gammaPos (1.0 - x))
  else gammaPos x
end FloatImpl

instance : Elem Float where
  ofNat' := Float.ofNat
  ofSci := Float.ofScientific
  exp := Float.exp
  log := Float.log
  sin := Float.sin
  cos := Float.cos
  sqrt := Float.sqrt
  abs := Float.abs
  pow := Float.pow
  pi := 3.141592653589793
  gamma := FloatImpl.gamma

section
variable {α : Type} [Elem α]
open Elem

/-- `z = 0; for v in xs: z = z + v` (left fold; NumPy's reduction for fewer than 8 items) -/
def sumL (xs : List α) : α := xs.foldl (· + ·) (ofNat' 0)

/-- `np.linalg.norm(row)` : `sqrt(Σ x·x)` -/
def norm (row : List α) : α := sqrt (sumL (row.map fun v => v * v))

/-- one variable of `hypercomplex.span`: `(ub - lb) * (norm(row) / sqrt(n_dimensions)) + lb` -/
def spanRow (lb ub : α) (row : List α) : α :=
  (ub - lb) * (norm row / sqrt (ofNat' row.length)) + lb

/-- `hypercomplex.span(array, lb, ub)` -/
def span : List α → List α → List (List α) → List α
  | l :: lbs, u :: ubs, r :: rows => spanRow l u r :: span lbs ubs rows
  | _, _, _ => []

/-! ### schedules -/

/-- AIWPSO `_compute_success`: `w = (w_max - w_min) * (p / n) + w_min` -/
def aiwpsoW (wmin wmax : α) (p n : Nat) : α := (wmax - wmin) * (ofNat' p / ofNat' n) + wmin

/-- IHS: `PAR = PAR_min + (PAR_max - PAR_min) / N * t` -/
def ihsPAR (pmin pmax : α) (N t : Nat) : α := pmin + (pmax - pmin) / ofNat' N * ofNat' t

/-- IHS: `bw = bw_max * exp(log(bw_min / bw_max) / N * t)` -/
def ihsBw (bmin bmax : α) (N t : Nat) : α := bmax * exp (log (bmin / bmax) / ofNat' N * ofNat' t)

/-- SA: `T *= beta` -/
def saT (T beta : α) : α := T * beta

/-- FA: `delta = 1 - (10e-4 / 0.9) ** (1 / N)`; `alpha *= (1 - delta)` -/
def faDelta (N : Nat) : α := ofNat' 1 - pow (ofSci 10 true 4 / ofSci 9 true 1) (ofNat' 1 / ofNat' N)
def faAlpha (alpha : α) (N : Nat) : α := alpha * (ofNat' 1 - faDelta N)

/-- WCA: `d_max -= d_max / N` -/
def wcaDmax (d : α) (N : Nat) : α := d - d / ofNat' N

/-! ### weighted sum -/

/-- `z = 0; for (f, w) in zip(fs, ws): z += w * f(x)`, given the component values -/
def weighted (ws vals : List α) : α :=
  (List.zip ws vals).foldl (fun z p => z + p.1 * p.2) (ofNat' 0)

/-! ### random primitives as functions of the unit / standard draw -/

/-- `np.random.uniform(low, high)` = `low + (high - low) * u`, `u` the unit draw -/
def uniformAffine (low high u : α) : α := low + (high - low) * u

/-- `np.random.normal(mean, sd)` = `mean + sd * z`, `z` the standard draw -/
def normalAffine (mu sd z : α) : α := mu + sd * z

/-- `sigma` of Mantegna's algorithm as `generate_levy_distribution` computes it -/
def levySigma (beta : α) : α :=
  let num := gamma (ofNat' 1 + beta) * sin (pi * beta / ofNat' 2)
  let den := gamma ((ofNat' 1 + beta) / ofNat' 2) * beta * pow (ofNat' 2) ((beta - ofNat' 1) / ofNat' 2)
  pow (num / den) (ofNat' 1 / beta)

/-- one Lévy step from the two Gaussian draws it consumes: `u = g1 * sigma; u / |g2| ** (1/beta)` -/
def levyStep (beta g1 g2 : α) : α := (g1 * levySigma beta) / pow (abs g2) (ofNat' 1 / beta)

end
end Opy
