import OpyVerif.Model.History
/-!
`History.get` and `Opytimizer.start` as the translator reads them (the remaining methods of the history path that were
modelled by hand only): which checks run, in which order, on what, and what is returned.  A well-formed record *is* the
model (`get`, `startTask`); anything else has no meaning here and the regenerated obligation fails.
-/
namespace Opy

structure GetProg where
  /-- `if not isinstance(index, tuple): raise e.TypeError(…)`, before anything else -/
  typeGuardFirst : Bool
  /-- `attr = np.asarray(getattr(self, key))` with the `ValueError` → `dtype=object` fallback for ragged records -/
  arrayWithObjectFallback : Bool
  /-- `if attr.ndim - 1 != len(index): raise e.SizeError(…)` -/
  sizeGuard : Bool
  /-- `attr = attr[(slice(None),) + index]`: every record, then the index path -/
  sliceAllThenIndex : Bool
  /-- `attr = np.hstack(attr)` and that is what is returned -/
  stacksAndReturns : Bool
  extraStmts : Nat
deriving Repr, DecidableEq

def GetProg.ok (p : GetProg) : Bool :=
  p.typeGuardFirst && p.arrayWithObjectFallback && p.sizeGuard && p.sliceAllThenIndex && p.stacksAndReturns && p.extraStmts == 0

def GetProg.run (p : GetProg) (records : List Rec) (isTuple : Bool) (index : List Nat) : Option (Except GetErr Rec) :=
  if p.ok then some (get records isTuple index) else none

structure StartProg where
  /-- `start = time.time()` before the run -/
  clockBefore : Bool
  /-- `self.optimizer.run(self.space, self.function, store_best_only, pre_evaluation_hook)`: the task's own components
      and the caller's two arguments, in this order -/
  runsWithOwnComponents : Bool
  passesFlagAndHook : Bool
  /-- `end = time.time()` after the run -/
  clockAfter : Bool
  /-- `history.dump(time=end - start)` on the history the run returned -/
  dumpsElapsed : Bool
  returnsThatHistory : Bool
  extraStmts : Nat
deriving Repr, DecidableEq

def StartProg.ok (p : StartProg) : Bool :=
  p.clockBefore && p.runsWithOwnComponents && p.passesFlagAndHook && p.clockAfter && p.dumpsElapsed && p.returnsThatHistory
    && p.extraStmts == 0

/-- what `start()` returns: the history of the run with one more `time` record, the difference of the two clock readings -/
def startTask (historyKeys : List String) (h : Hist) (t0 t1 : Int) : Hist :=
  dump historyKeys h [("time", .num (t1 - t0))]

def StartProg.run (p : StartProg) (historyKeys : List String) (h : Hist) (t0 t1 : Int) : Option Hist :=
  if p.ok then some (startTask historyKeys h t0 t1) else none

namespace Expected
def getProg : GetProg :=
  { typeGuardFirst := true, arrayWithObjectFallback := true, sizeGuard := true, sliceAllThenIndex := true,
    stacksAndReturns := true, extraStmts := 0 }
def startProg : StartProg :=
  { clockBefore := true, runsWithOwnComponents := true, passesFlagAndHook := true, clockAfter := true, dumpsElapsed := true,
    returnsThatHistory := true, extraStmts := 0 }
end Expected

theorem getProg_is_get (records : List Rec) (isTuple : Bool) (index : List Nat) :
    Expected.getProg.run records isTuple index = some (get records isTuple index) := rfl

theorem startProg_is_startTask (keys : List String) (h : Hist) (t0 t1 : Int) :
    Expected.startProg.run keys h t0 t1 = some (startTask keys h t0 t1) := rfl

/-- the elapsed-time entry: exactly one more `time` record, whatever `store_best_only` is (time is not a HISTORY_KEYS
    entry) -/
theorem startTask_time (keys : List String) (h : Hist) (t0 t1 : Int) (hk : keys.contains "time" = false) :
    (startTask keys h t0 t1).attrs = appendAttr h.attrs "time" (.num (t1 - t0)) := by
  have hm : ¬ "time" ∈ keys := by simpa [List.contains_iff_mem] using hk
  simp [startTask, dump, dump1, hm]

end Opy
