/-
Selection and distribution primitives that only use the *order* of doubles, over keys:
tournament selection, `pairwise`, Bernoulli thresholding.
-/
namespace Opy

/-- `min(step)` of a non-empty list -/
def minList : List Int → Option Int
  | [] => none
  | x :: xs => match minList xs with
    | none => some x
    | some m => some (if x ≤ m then x else m)

/-- `np.where(v == fitness)[0][0]`: the first holder of `v` (`none`: `IndexError`) -/
def firstIdx (v : Int) : List Int → Option Nat
  | [] => none
  | x :: xs => if x = v then some 0 else (firstIdx v xs).map (· + 1)

/-- `tournament_selection(fitness, n)`: `rounds` are the `n` lists of `TOURNAMENT_SIZE`
    values drawn by `np.random.choice(fitness)`; each round selects the first holder of the
    round's minimum.  `none` = the code raises. -/
def tournament (fitness : List Int) : List (List Int) → Option (List Nat)
  | [] => some []
  | step :: rest =>
    match minList step with
    | none => none
    | some m =>
      match firstIdx m fitness, tournament fitness rest with
      | some i, some is => some (i :: is)
      | _, _ => none

/-- `pairwise(values)`: `iter(lambda: tuple(islice(it, 2)), ())` — consecutive disjoint
    pairs; an odd tail yields a final singleton -/
def pairwise {α : Type} : List α → List (List α)
  | [] => []
  | [x] => [[x]]
  | x :: y :: rest => [x, y] :: pairwise rest

/-- `generate_bernoulli_distribution(prob, size)` given the uniform draws:
    `1 if r1[i] < prob else 0` -/
def bernoulli (prob : Int) (us : List Int) : List Nat := us.map (fun u => if u < prob then 1 else 0)

end Opy
