/-
Model of `opytimizer.core.node.Node` graphs as trees with *stored* links.

A Python `Node` has `left`, `right` (what the tree *is*) and `parent`, `flag` (what the node
*believes*).  `PNode` keeps both, so a wrong back-link is representable: `par` is the stored
parent's identity, `flag` the stored side.  `id` is the node's object identity.

Specifications are the usual structural recursions; the algorithms are transcriptions of
the code's own loops (`pre_order`, `post_order`, `_properties`, `find_node`).
Core Lean only; total; computable.
-/
namespace Opy

structure Lbl where
  isTerm : Bool
  /-- operator code (index into `N_ARGS_FUNCTION`) or terminal identifier -/
  name : Nat
  /-- identity of the array a terminal holds (0 for function nodes) -/
  arr : Nat
deriving Repr, DecidableEq

inductive PNode where
  | nil : PNode
  | mk (id : Nat) (lbl : Lbl) (par : Option Nat) (flag : Bool) (l r : PNode) : PNode
deriving Repr, DecidableEq

namespace PNode

def isNil : PNode → Bool | nil => true | _ => false
def id? : PNode → Option Nat | nil => none | mk i _ _ _ _ _ => some i
def lbl? : PNode → Option Lbl | nil => none | mk _ lb _ _ _ _ => some lb
def storedPar : PNode → Option Nat | nil => none | mk _ _ p _ _ _ => p
def storedFlag : PNode → Bool | nil => false | mk _ _ _ f _ _ => f
def isTermNode : PNode → Bool | nil => false | mk _ lb _ _ _ _ => lb.isTerm
def leftOf : PNode → PNode | nil => nil | mk _ _ _ _ l _ => l
def rightOf : PNode → PNode | nil => nil | mk _ _ _ _ _ r => r

/-! ### specifications -/

def ids : PNode → List Nat
  | nil => []
  | mk i _ _ _ l r => i :: (l.ids ++ r.ids)

def size : PNode → Nat
  | nil => 0
  | mk _ _ _ _ l r => 1 + l.size + r.size

/-- number of childless nodes -/
def leaves : PNode → Nat
  | nil => 0
  | mk _ _ _ _ nil nil => 1
  | mk _ _ _ _ l r => l.leaves + r.leaves

/-- largest leaf depth (height); 0 for a single node and for `nil` -/
def maxD : PNode → Nat
  | nil => 0
  | mk _ _ _ _ nil nil => 0
  | mk _ _ _ _ l r => 1 + max l.maxD r.maxD

/-- smallest leaf depth -/
def minD : PNode → Nat
  | nil => 0
  | mk _ _ _ _ nil nil => 0
  | mk _ _ _ _ l nil => 1 + l.minD
  | mk _ _ _ _ nil r => 1 + r.minD
  | mk _ _ _ _ l r => 1 + min l.minD r.minD

/-- root, left, right -/
def pre : PNode → List PNode
  | nil => []
  | t@(mk _ _ _ _ l r) => t :: (l.pre ++ r.pre)

/-- left, right, root -/
def post : PNode → List PNode
  | nil => []
  | t@(mk _ _ _ _ l r) => l.post ++ r.post ++ [t]

/-! ### the code's algorithms -/

/-- `Node.pre_order`: explicit stack (head = top of the Python list); pop, emit, push right
    then left when they are not `None`.  Fuel bounds the number of pops. -/
def preLoop : Nat → List PNode → List PNode → List PNode
  | 0, _, acc => acc
  | _, [], acc => acc
  | fuel+1, n :: stack, acc =>
    let s1 := if n.rightOf.isNil then stack else n.rightOf :: stack
    let s2 := if n.leftOf.isNil then s1 else n.leftOf :: s1
    preLoop fuel s2 (acc ++ [n])

def preOrder (t : PNode) : List PNode := preLoop t.size [t] []

/-- `Node.post_order`: one stack and the identity test `stacked[-1] is self.right`.
    `cur = nil` plays `self is None`.  One unit of fuel per inner-`while` turn or pop. -/
def postLoop : Nat → PNode → List PNode → List PNode → List PNode
  | 0, _, _, out => out
  | fuel+1, c@(mk _ _ _ _ l r), st, out =>
      let st1 := if r.isNil then c :: st else c :: r :: st   -- push right, then the node
      postLoop fuel l st1 out
  | _+1, nil, [], out => out
  | fuel+1, nil, n :: st, out =>
      match st with
      | top :: rest =>
          if !n.rightOf.isNil && top.id? == n.rightOf.id? then
            postLoop fuel n.rightOf (n :: rest) out
          else postLoop fuel nil (top :: rest) (out ++ [n])
      | [] => postLoop fuel nil [] (out ++ [n])

/-- fuel that always suffices for `postLoop` -/
def cost : PNode → Nat
  | nil => 0
  | mk _ _ _ _ l r => 2 + l.cost + (if r.isNil then 0 else r.cost + 1)

def postOrder (t : PNode) : List PNode := postLoop (t.cost + 1) t [] []

structure Props where
  minD : Nat
  maxD : Int
  leaves : Nat
  nodes : Nat
deriving Repr, DecidableEq

def kids : PNode → List PNode
  | nil => []
  | mk _ _ _ _ l r => (if l.isNil then [] else [l]) ++ (if r.isNil then [] else [r])

def childless : PNode → Bool
  | nil => false
  | mk _ _ _ _ l r => l.isNil && r.isNil

/-- inner `for node in nodes:` of `_properties` at level `d` (the current `max_depth`),
    including the `if min_depth == 0` sentinel test -/
def level (d : Nat) : List PNode → Nat × Nat × Nat × List PNode → Nat × Nat × Nat × List PNode
  | [], acc => acc
  | n :: ns, (minD, lv, cnt, next) =>
    let isLeaf := n.childless
    let minD' := if isLeaf && minD == 0 then d else minD
    let lv' := if isLeaf then lv + 1 else lv
    level d ns (minD', lv', cnt + 1, next ++ n.kids)

/-- outer `while len(nodes) > 0` -/
def bfs : Nat → List PNode → Int → Nat → Nat → Nat → Props
  | 0, _, maxD, minD, lv, cnt => ⟨minD, maxD, lv, cnt⟩
  | _, [], maxD, minD, lv, cnt => ⟨minD, maxD, lv, cnt⟩
  | fuel+1, nodes@(_ :: _), maxD, minD, lv, cnt =>
    let d := (maxD + 1).toNat
    let (minD', lv', cnt', next) := level d nodes (minD, lv, cnt, [])
    bfs fuel next (maxD + 1) minD' lv' cnt'

/-- `_properties(node)` -/
def properties (t : PNode) : Props := bfs (t.maxD + 2) [t] (-1) 0 0 0

/-- the subtree whose root has identity `i` (first in pre-order) -/
def lookup (i : Nat) (t : PNode) : Option PNode := t.pre.find? (fun n => n.id? == some i)

/-- outcome of `find_node`: a slot `(parent id, side)`, the "no slot" answer `(None, False)`,
    or the `AttributeError` the code raises when it dereferences `None.parent`. -/
inductive Found where
  | slot (pid : Nat) (side : Bool)
  | noSlot
  | error
deriving Repr, DecidableEq

/-- `Node.find_node(position)` through the *stored* links, as the code walks them. -/
def findNode (t : PNode) (p : Nat) : Found :=
  match t.preOrder[p]? with
  | none => .noSlot                                   -- `len(pre_order) > position` fails
  | some node =>
    if node.isTermNode then
      match node.storedPar with
      | some pid => .slot pid node.storedFlag
      | none => .noSlot      -- `return node.parent, node.flag`: callers test the first component
    else match node.storedPar with
      | none => .error                                -- `None.parent`
      | some pid =>
        match lookup pid t with
        | none => .error                              -- dangling link (not a tree of this root)
        | some parent =>
          match parent.storedPar with
          | some g => .slot g parent.storedFlag
          | none => .noSlot

/-! ### well-formedness -/

/-- every node's stored parent / flag agree with where it hangs -/
def Linked : Option Nat → Bool → PNode → Prop
  | _, _, nil => True
  | p, f, mk i _ par flag l r => par = p ∧ flag = f ∧ Linked (some i) true l ∧ Linked (some i) false r

/-- children of a root-shaped node are linked to it (nothing is said about its own links) -/
def KidsLinked : PNode → Prop
  | nil => True
  | mk i _ _ _ l r => Linked (some i) true l ∧ Linked (some i) false r

/-- arity discipline: terminals are leaves, unary functions have a left child only, binary
    functions have both (`ar` is the generated `N_ARGS_FUNCTION` table by operator code) -/
def Arity (ar : Nat → Nat) : PNode → Prop
  | nil => True
  | mk _ lb _ _ l r =>
      (if lb.isTerm then l = nil ∧ r = nil
       else if ar lb.name = 1 then l ≠ nil ∧ r = nil
       else if ar lb.name = 2 then l ≠ nil ∧ r ≠ nil
       else False) ∧ Arity ar l ∧ Arity ar r

/-- a proper expression tree: root without parent, links right, arities right, no node twice -/
def WF (ar : Nat → Nat) (t : PNode) : Prop :=
  t ≠ nil ∧ t.storedPar = none ∧ KidsLinked t ∧ Arity ar t ∧ t.ids.Nodup

/-! executable twins, used by the driver and for `decide` on witnesses -/

def linkedB : Option Nat → Bool → PNode → Bool
  | _, _, nil => true
  | p, f, mk i _ par flag l r => par == p && flag == f && linkedB (some i) true l && linkedB (some i) false r

def kidsLinkedB : PNode → Bool
  | nil => true
  | mk i _ _ _ l r => linkedB (some i) true l && linkedB (some i) false r

def arityB (ar : Nat → Nat) : PNode → Bool
  | nil => true
  | mk _ lb _ _ l r =>
      (if lb.isTerm then l.isNil && r.isNil
       else if ar lb.name = 1 then !l.isNil && r.isNil
       else if ar lb.name = 2 then !l.isNil && !r.isNil
       else false) && arityB ar l && arityB ar r

def nodupB : List Nat → Bool
  | [] => true
  | x :: xs => !xs.contains x && nodupB xs

def wfB (ar : Nat → Nat) (t : PNode) : Bool :=
  !t.isNil && t.storedPar == none && kidsLinkedB t && arityB ar t && nodupB t.ids

end PNode
end Opy
