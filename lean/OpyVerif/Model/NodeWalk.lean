import OpyVerif.Model.Tree
/-!
A small imperative language for the stack-based tree walks of `core/node.py` (`pre_order`, `post_order`): a
cursor node, a stack of nodes (`stacked`, top = end of the Python list) and an output list.  The translator reads
the method bodies into `WStmt`s (`Generated/WalksDefs.lean`); `exec` is the interpreter (one unit of fuel per
loop turn); `Proofs/NodeWalk.lean` proves that the expected programs *are* `PNode.preLoop` and `PNode.postLoop` —
the loops `Proofs/C11` proves equal to the recursive traversals for every tree — so those theorems speak about
what the source says.
-/
namespace Opy

/-- node-valued expressions (`none_` is Python's `None`, represented by `PNode.nil`) -/
inductive WExpr where
  | cur | curLeft | curRight | self_ | none_
deriving DecidableEq, Repr

inductive WCond where
  | curLeftNotNone | curRightNotNone | curNotNone | stackNonEmpty | stackEmpty
  /-- `stacked[-1] is self.right` (object identity) -/
  | stackTopIsCurRight
  | and (a b : WCond)
  | unknown
deriving DecidableEq, Repr

inductive WStmt where
  | skip
  | seq (a b : WStmt)
  /-- `stacked.append(e)` -/
  | push (e : WExpr)
  /-- `node = stacked.pop()` -/
  | popToCur
  /-- `stacked.pop()` (value discarded) -/
  | popDiscard
  /-- `out.append(node)` -/
  | emitCur
  /-- `node = e` -/
  | setCur (e : WExpr)
  | ifThenElse (c : WCond) (t e : WStmt)
  | whileDo (c : WCond) (body : WStmt)
  /-- `while True: (while c1: b1); rest; if brk: break` — one unit of fuel per inner turn or per remainder -/
  | loopNest (c1 : WCond) (b1 rest : WStmt) (brk : WCond)
  | unknown (src : String)
deriving DecidableEq, Repr

structure WState where
  self_ : PNode
  cur : PNode
  stack : List PNode
  out : List PNode

def WExpr.eval (s : WState) : WExpr → PNode
  | .cur => s.cur | .curLeft => s.cur.leftOf | .curRight => s.cur.rightOf | .self_ => s.self_ | .none_ => .nil

def WCond.eval (s : WState) : WCond → Bool
  | .curLeftNotNone => !s.cur.leftOf.isNil
  | .curRightNotNone => !s.cur.rightOf.isNil
  | .curNotNone => !s.cur.isNil
  | .stackNonEmpty => !s.stack.isEmpty
  | .stackEmpty => s.stack.isEmpty
  | .stackTopIsCurRight => match s.stack with
      | top :: _ => top.id? == s.cur.rightOf.id?
      | [] => false
  | .and a b => a.eval s && b.eval s
  | .unknown => false

/-- the interpreter: loops take their turns from `fuel` -/
def exec : Nat → WStmt → WState → WState
  | _, .skip, s => s
  | fuel, .seq a b, s => exec fuel b (exec fuel a s)
  | _, .push e, s => { s with stack := e.eval s :: s.stack }
  | _, .popToCur, s => match s.stack with
      | [] => s
      | n :: st => { s with cur := n, stack := st }
  | _, .popDiscard, s => { s with stack := s.stack.tail }
  | _, .emitCur, s => { s with out := s.out ++ [s.cur] }
  | _, .setCur e, s => { s with cur := e.eval s }
  | fuel, .ifThenElse c t e, s => if c.eval s then exec fuel t s else exec fuel e s
  | 0, .whileDo _ _, s => s
  | fuel + 1, .whileDo c body, s =>
      if c.eval s then exec fuel (.whileDo c body) (exec fuel body s) else s
  | 0, .loopNest _ _ _ _, s => s
  | fuel + 1, .loopNest c1 b1 rest brk, s =>
      if c1.eval s then exec fuel (.loopNest c1 b1 rest brk) (exec fuel b1 s)
      else
        let s' := exec fuel rest s
        if brk.eval s' then s' else exec fuel (.loopNest c1 b1 rest brk) s'
  | _, .unknown _, s => s
termination_by fuel st => (fuel, sizeOf st)

/-- `a; b; c; …` -/
def WStmt.block : List WStmt → WStmt
  | [] => .skip
  | [a] => a
  | a :: rest => .seq a (WStmt.block rest)

namespace Expected
/-- `Node.pre_order`:
    `pre_order = []; stacked = [self]; while len(stacked) > 0: node = stacked.pop(); pre_order.append(node);
     if node.right is not None: stacked.append(node.right); if node.left is not None: stacked.append(node.left);
     return pre_order` -/
def preOrderInit : WStmt := .push .self_
def preOrderLoop : WStmt :=
  .whileDo .stackNonEmpty (WStmt.block [.popToCur, .emitCur, .ifThenElse .curRightNotNone (.push .curRight) .skip,
                                         .ifThenElse .curLeftNotNone (.push .curLeft) .skip])
/-- `Node.post_order` (the method walks with `self` as its cursor):
    `while True: (while self is not None: if self.right is not None: stacked.append(self.right); stacked.append(self); self = self.left);
     self = stacked.pop();
     if self.right is not None and len(stacked) > 0 and stacked[-1] is self.right: stacked.pop(); stacked.append(self); self = self.right
     else: post_order.append(self); self = None
     if len(stacked) == 0: break` -/
def postOrderLoop : WStmt :=
  .loopNest .curNotNone
    (WStmt.block [.ifThenElse .curRightNotNone (.push .curRight) .skip, .push .cur, .setCur .curLeft])
    (WStmt.block [.popToCur,
       .ifThenElse (.and .curRightNotNone (.and .stackNonEmpty .stackTopIsCurRight))
         (WStmt.block [.popDiscard, .push .cur, .setCur .curRight])
         (WStmt.block [.emitCur, .setCur .none_])])
    .stackEmpty
end Expected

/-- `pre_order`: empty lists, the cursor unset; `init` then `loop` -/
def runWalk (init loop : WStmt) (fuel : Nat) (t : PNode) : List PNode :=
  (exec fuel loop (exec fuel init { self_ := t, cur := .nil, stack := [], out := [] })).out

/-- `post_order` starts with the cursor on the root and empty lists -/
def runPost (loop : WStmt) (fuel : Nat) (t : PNode) : List PNode :=
  (exec fuel loop { self_ := t, cur := t, stack := [], out := [] }).out

end Opy
