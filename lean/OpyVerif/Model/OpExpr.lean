import OpyVerif.Model.TreeEval
/-
Syntax of the right-hand sides of `node._evaluate`'s operator chain, as the translator reads them
from the source (`Generated/OpsDefs.lean`), with a semantics over `Elem α`; `expectedOps` is the
table that `Model/TreeEval.binOp` / `unOp` implement (proved in `Proofs/OpTable.lean`).
-/
namespace Opy

inductive OpExpr where
  | x | y | eps
  | add (a b : OpExpr) | sub (a b : OpExpr) | mul (a b : OpExpr) | div (a b : OpExpr)
  | exp (a : OpExpr) | log (a : OpExpr) | sin (a : OpExpr) | cos (a : OpExpr)
  | sqrt (a : OpExpr) | abs (a : OpExpr) | neg (a : OpExpr)
  | unknown
deriving DecidableEq, Repr

def OpExpr.eval {α : Type} [Elem α] (e0 : α) : OpExpr → α → α → α
  | .x, vx, _ => vx
  | .y, _, vy => vy
  | .eps, _, _ => e0
  | .add a b, vx, vy => a.eval e0 vx vy + b.eval e0 vx vy
  | .sub a b, vx, vy => a.eval e0 vx vy - b.eval e0 vx vy
  | .mul a b, vx, vy => a.eval e0 vx vy * b.eval e0 vx vy
  | .div a b, vx, vy => a.eval e0 vx vy / b.eval e0 vx vy
  | .exp a, vx, vy => Elem.exp (a.eval e0 vx vy)
  | .log a, vx, vy => Elem.log (a.eval e0 vx vy)
  | .sin a, vx, vy => Elem.sin (a.eval e0 vx vy)
  | .cos a, vx, vy => Elem.cos (a.eval e0 vx vy)
  | .sqrt a, vx, vy => Elem.sqrt (a.eval e0 vx vy)
  | .abs a, vx, vy => Elem.abs (a.eval e0 vx vy)
  | .neg a, vx, vy => - (a.eval e0 vx vy)
  | .unknown, vx, _ => vx

/-- operator name ↦ expression, in the order of `N_ARGS_FUNCTION` (= operator codes 0..9) -/
def expectedOps : List (String × OpExpr) :=
  [("SUM", .add .x .y), ("SUB", .sub .x .y), ("MUL", .mul .x .y), ("DIV", .div .x (.add .y .eps)),
   ("EXP", .exp .x), ("SQRT", .sqrt (.abs .x)), ("LOG", .log (.add (.abs .x) .eps)), ("ABS", .abs .x),
   ("SIN", .sin .x), ("COS", .cos .x)]

end Opy
