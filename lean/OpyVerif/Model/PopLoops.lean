import OpyVerif.Model.Pop
/-!
`GP._mutation` and `GP._crossover` as the translator reads them: the working fitness list, the number of individuals
(rounded up to an even number for crossover), the selection call, the loop over the selected individuals (pairs of
them), the size guard, the pruning calls and the assignment of the callee's result to the slot(s).  `MutLoop.run` /
`CrossLoop.run` give a well-formed record its meaning as a sequence of `GPOp` steps on the population, driven by the
tournament outcome and by what the callees draw (points) and grow (branches).  `Proofs/PopLoops.lean` proves that every
such run keeps the forest proper and its size unchanged, for every population, selection and draws.
-/
namespace Opy
open PNode

structure MutLoop where
  /-- `fitness = [agent.fit for agent in space.agents]` -/
  fitnessFromAgents : Bool
  /-- `n_individuals = int(space.n_trees * self.p_mutation)` -/
  countIsTreesTimesP : Bool
  /-- `selected = g.tournament_selection(fitness, n_individuals)`, iterated in order -/
  selectionIsTournament : Bool
  /-- `n_nodes = space.trees[s].n_nodes` -/
  sizeOfSelected : Bool
  /-- `if n_nodes > 1:` -/
  guardMoreThanOne : Bool
  /-- `max_nodes = self._prune_nodes(n_nodes)` -/
  pruned : Bool
  /-- `space.trees[s] = self._mutate(space, space.trees[s], max_nodes)` -/
  mutateIntoSlot : Bool
  /-- `else: space.trees[s] = space.grow(space.min_depth, space.max_depth)` -/
  growIntoSlot : Bool
  /-- statements of the method the reader does not recognise -/
  extraStmts : Nat
deriving DecidableEq, Repr

def MutLoop.wellFormed (r : MutLoop) : Bool :=
  r.fitnessFromAgents && r.countIsTreesTimesP && r.selectionIsTournament && r.sizeOfSelected && r.guardMoreThanOne
    && r.pruned && r.mutateIntoSlot && r.growIntoSlot && r.extraStmts == 0

/-- the loop over the tournament outcome: for the selected index `s`, a tree of more than one node is handed to `_mutate`
    (which draws one point and grows one tree: the branch, or the whole tree when the point selects no slot), any other is
    replaced by a grown tree.  `points` are the points drawn, `grown` the trees `space.grow` returns, in call order. -/
def runMut : Pop → List Nat → List Nat → List PNode → Option Pop
  | P, [], _, _ => some P
  | P, s :: ss, points, grown =>
    match P.trees[s]? with
    | none => none
    | some t =>
      if 1 < t.size then
        match points, grown with
        | p :: ps, g :: gs =>
          match (GPOp.mutate s p g).apply P with
          | some P' => runMut P' ss ps gs
          | none => none
        | _, _ => none
      else
        match grown with
        | g :: gs =>
          match (GPOp.regrow s g).apply P with
          | some P' => runMut P' ss points gs
          | none => none
        | [] => none

def MutLoop.run (r : MutLoop) (P : Pop) (selected : List Nat) (points : List Nat) (grown : List PNode) : Option Pop :=
  if r.wellFormed then runMut P selected points grown else none

structure CrossLoop where
  /-- `fitness = [agent.fit for agent in space.agents]` -/
  fitnessFromAgents : Bool
  /-- `n_individuals = int(space.n_trees * self.p_crossover)` -/
  countIsTreesTimesP : Bool
  /-- `if n_individuals % 2 != 0: n_individuals += 1` -/
  roundedUpToEven : Bool
  /-- `selected = g.tournament_selection(fitness, n_individuals)` -/
  selectionIsTournament : Bool
  /-- `for s in g.pairwise(selected):` -/
  loopOverPairs : Bool
  /-- `father_nodes = space.trees[s[0]].n_nodes`, `mother_nodes = space.trees[s[1]].n_nodes` -/
  sizesOfPair : Bool
  /-- `if father_nodes > 1 and mother_nodes > 1:` -/
  guardBothMoreThanOne : Bool
  /-- `max_f_nodes = self._prune_nodes(father_nodes)`, `max_m_nodes = self._prune_nodes(mother_nodes)` -/
  prunedBoth : Bool
  /-- `space.trees[s[0]], space.trees[s[1]] = self._cross(space.trees[s[0]], space.trees[s[1]], max_f_nodes, max_m_nodes)` -/
  crossIntoSlots : Bool
  extraStmts : Nat
deriving DecidableEq, Repr

def CrossLoop.wellFormed (r : CrossLoop) : Bool :=
  r.fitnessFromAgents && r.countIsTreesTimesP && r.roundedUpToEven && r.selectionIsTournament && r.loopOverPairs
    && r.sizesOfPair && r.guardBothMoreThanOne && r.prunedBoth && r.crossIntoSlots && r.extraStmts == 0

/-- the number of individuals asked of the tournament -/
def CrossLoop.count (r : CrossLoop) (n : Nat) : Nat := if r.roundedUpToEven && n % 2 != 0 then n + 1 else n

/-- `g.pairwise` on a list of even length -/
def pairsOf : List Nat → List (Nat × Nat)
  | a :: b :: rest => (a, b) :: pairsOf rest
  | _ => []

/-- the loop over the pairs: a pair of trees of more than one node each is handed to `_cross`, which draws two points
    (`draws`, in call order); any other pair is left alone -/
def runCrossPairs : Pop → List (Nat × Nat) → List (Nat × Nat) → Option Pop
  | P, [], _ => some P
  | P, (a, b) :: ps, draws =>
    match P.trees[a]?, P.trees[b]? with
    | some f, some m =>
      if 1 < f.size ∧ 1 < m.size then
        match draws with
        | d :: ds =>
          match (GPOp.cross a b d.1 d.2).apply P with
          | some P' => runCrossPairs P' ps ds
          | none => none
        | [] => none
      else runCrossPairs P ps draws
    | _, _ => none

def CrossLoop.run (r : CrossLoop) (P : Pop) (selected : List Nat) (draws : List (Nat × Nat)) : Option Pop :=
  if r.wellFormed then runCrossPairs P (pairsOf selected) draws else none

namespace Expected
def mutLoop : MutLoop :=
  { fitnessFromAgents := true, countIsTreesTimesP := true, selectionIsTournament := true, sizeOfSelected := true,
    guardMoreThanOne := true, pruned := true, mutateIntoSlot := true, growIntoSlot := true, extraStmts := 0 }
def crossLoop : CrossLoop :=
  { fitnessFromAgents := true, countIsTreesTimesP := true, roundedUpToEven := true, selectionIsTournament := true,
    loopOverPairs := true, sizesOfPair := true, guardBothMoreThanOne := true, prunedBoth := true, crossIntoSlots := true,
    extraStmts := 0 }
end Expected

end Opy
