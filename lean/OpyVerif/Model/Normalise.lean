import OpyVerif.Model.Num
/-!
Fitness normalisations whose divisions can be undefined, written once over the scalar class
`Elem α` (executed at `Float`, proved about at `ℝ` in `Proofs/C03norm.lean`):

* `GSA._calculate_mass` (after its repair: `- EPSILON` in the first denominator, `+ EPSILON` in the
  second),
* `BHA._event_horizon`'s radius `best_agent.fit / cost`,
* `WCA._flow_intensity`'s real number before `round`.
-/
namespace Opy
section
variable {α : Type} [Elem α]
open Elem

/-! ### GSA -/

/-- `agents[0].fit` (agents are sorted ascending by fitness); `0` on the empty population -/
def gsaBest (fits : List α) : α := fits.head?.getD (ofNat' 0)

/-- `agents[-1].fit`; `0` on the empty population -/
def gsaWorst (fits : List α) : α := fits.getLast?.getD (ofNat' 0)

/-- first denominator: `best - worst - c.EPSILON` -/
def gsaDen1 (eps : α) (fits : List α) : α := gsaBest fits - gsaWorst fits - eps

/-- `mass = [(agent.fit - worst) / (best - worst - c.EPSILON) for agent in agents]` -/
def gsaRawMass (eps : α) (fits : List α) : List α :=
  fits.map fun f => (f - gsaWorst fits) / gsaDen1 eps fits

/-- second denominator: `np.sum(mass) + c.EPSILON` -/
def gsaDen2 (eps : α) (fits : List α) : α := sumL (gsaRawMass eps fits) + eps

/-- `norm_mass = mass / (np.sum(mass) + c.EPSILON)`; `[]` on the empty population -/
def gsaMass (eps : α) (fits : List α) : List α :=
  (gsaRawMass eps fits).map fun m => m / gsaDen2 eps fits

/-! ### BHA -/

/-- `radius = best_agent.fit / cost`, `cost` the sum of all agents' fitnesses after the update -/
def bhaRadius (bestFit cost : α) : α := bestFit / cost

/-! ### WCA -/

/-- `cost = 0; for i in range(nsr): cost += agents[i].fit` -/
def wcaCost (nsr : Nat) (fits : List α) : α := sumL (fits.take nsr)

/-- `agents[i].fit / cost` (`0` stands for an index outside the population) -/
def wcaShare (nsr : Nat) (fits : List α) (i : Nat) : α :=
  fits.getD i (ofNat' 0) / wcaCost nsr fits

/-- the real number that `_flow_intensity` rounds:
    `np.fabs(agents[i].fit / cost) * (len(agents) - nsr)`, `n = len(agents)` -/
def wcaFlowReal (nsr n : Nat) (fits : List α) (i : Nat) : α :=
  abs (wcaShare nsr fits i) * ofNat' (n - nsr)

end
end Opy
