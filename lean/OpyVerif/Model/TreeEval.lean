import OpyVerif.Model.Tree
import OpyVerif.Model.Num
/-
Model of `node._evaluate`: bottom-up, element-wise value of an expression tree.
Arrays are flattened lists; terminals yield the array their `arr` identity denotes.
Operator codes follow the order of `N_ARGS_FUNCTION`:
0 SUM, 1 SUB, 2 MUL, 3 DIV, 4 EXP, 5 SQRT, 6 LOG, 7 ABS, 8 SIN, 9 COS.
-/
namespace Opy
open Elem

section
variable {α : Type} [Elem α]

def zipW (f : α → α → α) : List α → List α → List α
  | x :: xs, y :: ys => f x y :: zipW f xs ys
  | _, _ => []

/-- binary operators, operand order as in the code (`x` = left value, `y` = right value) -/
def binOp (eps : α) : Nat → Option (α → α → α)
  | 0 => some (fun x y => x + y)
  | 1 => some (fun x y => x - y)
  | 2 => some (fun x y => x * y)
  | 3 => some (fun x y => x / (y + eps))
  | _ => none

/-- unary operators (applied to the left value) -/
def unOp (eps : α) : Nat → Option (α → α)
  | 4 => some (fun x => exp x)
  | 5 => some (fun x => sqrt (abs x))
  | 6 => some (fun x => log (abs x + eps))
  | 7 => some (fun x => abs x)
  | 8 => some (fun x => sin x)
  | 9 => some (fun x => cos x)
  | _ => none

/-- `_evaluate(node)`; `env` gives the array behind an identity; `none` = the code raises
    (missing operand, unknown operator) or returns `None` -/
def evalTree (eps : α) (env : Nat → Option (List α)) : PNode → Option (List α)
  | .nil => none
  | .mk _ lb _ _ l r =>
    if lb.isTerm then env lb.arr
    else
      match binOp eps lb.name with
      | some f =>
        match evalTree eps env l, evalTree eps env r with
        | some x, some y => some (zipW f x y)
        | _, _ => none
      | none =>
        match unOp eps lb.name with
        | some g =>
          match evalTree eps env l with
          | some x => some (x.map g)
          | none => none
        | none => none
end
end Opy
