import OpyVerif.Proofs.TaskRun
import OpyVerif.Generated.Skeletons.skel_ABC_good
import OpyVerif.Generated.Skeletons.skel_AIWPSO_good
import OpyVerif.Generated.Skeletons.skel_BA_good
import OpyVerif.Generated.Skeletons.skel_BHA_good
import OpyVerif.Generated.Skeletons.skel_CS_good
import OpyVerif.Generated.Skeletons.skel_FA_good
import OpyVerif.Generated.Skeletons.skel_FPA_good
import OpyVerif.Generated.Skeletons.skel_GSA_good
import OpyVerif.Generated.Skeletons.skel_HC_good
import OpyVerif.Generated.Skeletons.skel_HS_good
import OpyVerif.Generated.Skeletons.skel_IHS_good
import OpyVerif.Generated.Skeletons.skel_PSO_good
import OpyVerif.Generated.Skeletons.skel_RPSO_good
import OpyVerif.Generated.Skeletons.skel_SA_good
import OpyVerif.Generated.Skeletons.skel_SCA_good
import OpyVerif.Generated.Skeletons.skel_WCA_good
/-!
The task theorems that need nothing but the regenerated `run()` skeletons (C03, C04): they hold whatever clip loop and sweep the
task is composed with, so a rewrite of `check_limits` or `_evaluate` does not touch them.
-/
namespace Opy
open Task

/-- the `run()` skeletons of the sixteen population optimisers, as translated -/
def Gen.taskSkeletons : List Skeleton := [Gen.skel_ABC, Gen.skel_AIWPSO, Gen.skel_BA, Gen.skel_BHA, Gen.skel_CS, Gen.skel_FA, Gen.skel_FPA, Gen.skel_GSA, Gen.skel_HC, Gen.skel_HS, Gen.skel_IHS, Gen.skel_PSO, Gen.skel_RPSO, Gen.skel_SA, Gen.skel_SCA, Gen.skel_WCA]

theorem code_taskSkeletons_good : ∀ sk ∈ Gen.taskSkeletons, Good true sk = true := by
  intro sk h
  simp only [Gen.taskSkeletons, List.mem_cons, List.not_mem_nil, or_false] at h
  rcases h with rfl | rfl | rfl | rfl | rfl | rfl | rfl | rfl | rfl | rfl | rfl | rfl | rfl | rfl | rfl | rfl
  · exact Gen.skel_ABC_good
  · exact Gen.skel_AIWPSO_good
  · exact Gen.skel_BA_good
  · exact Gen.skel_BHA_good
  · exact Gen.skel_CS_good
  · exact Gen.skel_FA_good
  · exact Gen.skel_FPA_good
  · exact Gen.skel_GSA_good
  · exact Gen.skel_HC_good
  · exact Gen.skel_HS_good
  · exact Gen.skel_IHS_good
  · exact Gen.skel_PSO_good
  · exact Gen.skel_RPSO_good
  · exact Gen.skel_SA_good
  · exact Gen.skel_SCA_good
  · exact Gen.skel_WCA_good


/-! ### the task theorems about the translated skeletons -/

section
variable (sk : Skeleton) (hsk : sk ∈ Gen.taskSkeletons) (sw : SweepLoop)
include hsk

/-- **C03.**  `N + 1` hook calls, each followed by a sweep over exactly the positions it left behind, in order; `N` records;
    the sweeps' objective calls are exactly those arguments. -/
theorem code_task_logs (c : ClipLoop) (lbs ubs : List Int) (o : TaskOracle) (pop : List Ag) (best : Ag) (N : Nat) :
    let s := TaskProg.runTask ⟨sk, c, sw⟩ lbs ubs o (TaskSt.start pop best) N
    LogInv o s ∧ s.hookOut.length = N + 1 ∧ s.sweepArgs.length = N + 1 ∧ s.dumps.length = N :=
  task_logs ⟨sk, c, sw⟩ lbs ubs o (code_taskSkeletons_good sk hsk) pop best N

theorem code_task_sweep_calls (c : ClipLoop) (lbs ubs : List Int) (o : TaskOracle) (pop : List Ag) (best : Ag) (N n : Nat)
    (hn : ∀ k st, (o.hook k st).1.length = n) :
    (TaskProg.runTask ⟨sk, c, sw⟩ lbs ubs o (TaskSt.start pop best) N).evals.length = (N + 1) * n :=
  task_sweep_calls ⟨sk, c, sw⟩ lbs ubs o (code_taskSkeletons_good sk hsk) pop best N n hn

/-- **C04.**  The last record is the population and the best agent as the task leaves them. -/
theorem code_task_last_dump (c : ClipLoop) (lbs ubs : List Int) (o : TaskOracle) (s0 : TaskSt) (N : Nat) :
    let s := TaskProg.runTask ⟨sk, c, sw⟩ lbs ubs o s0 (N + 1)
    s.dumps.getLast? = some (s.pop.map record, record s.best) :=
  task_last_dump ⟨sk, c, sw⟩ lbs ubs o (code_taskSkeletons_good sk hsk) s0 N

/-- **C04, append-only.**  Later iterations never alter earlier records; each adds exactly one. -/
theorem code_task_dumps_prefix (c : ClipLoop) (lbs ubs : List Int) (o : TaskOracle) (s0 : TaskSt) (N M : Nat) (h : N ≤ M) :
    ∃ rest, (TaskProg.runTask ⟨sk, c, sw⟩ lbs ubs o s0 M).dumps = (TaskProg.runTask ⟨sk, c, sw⟩ lbs ubs o s0 N).dumps ++ rest ∧
      rest.length = M - N :=
  task_dumps_prefix ⟨sk, c, sw⟩ lbs ubs o (code_taskSkeletons_good sk hsk) s0 N M h

end

end Opy
