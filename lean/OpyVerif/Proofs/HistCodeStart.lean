import OpyVerif.Model.HistProg
import OpyVerif.Proofs.C19
import OpyVerif.Generated.HistProg.startProg_eq
/-!
C19 / C04 about the *translated* `History.get` and `Opytimizer.start`.
-/
namespace Opy

/-- the translated `start` returns the run's history with exactly one more `time` record, the difference of the clock
    readings taken right before and right after the run -/
theorem code_start_time (keys : List String) (h : Hist) (t0 t1 : Int) (hk : keys.contains "time" = false) :
    ∃ h', Gen.startProg.run keys h t0 t1 = some h' ∧ h'.attrs = appendAttr h.attrs "time" (.num (t1 - t0)) := by
  rw [Gen.startProg_eq]
  exact ⟨_, startProg_is_startTask keys h t0 t1, startTask_time keys h t0 t1 hk⟩

end Opy
