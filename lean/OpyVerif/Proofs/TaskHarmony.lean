import OpyVerif.Proofs.C20
/-!
Harmony search (HS / IHS) over any number of updates: the harmony memory, read as the sorted vector of its fitness values, after
any sequence of "replace the worst member if the new harmony is strictly better" steps (`replaceWorst`, the update as
`HS._update` performs it on the sorted memory) is still sorted, has the same size, and is rank-wise no worse than before — for every
sequence of new-harmony values, i.e. for every iteration count, objective and random stream.  (One step is
`replaceWorst_antitone` in `Proofs/C20.lean`.)
-/
namespace Opy

theorem hsMemory_iter (vs : List Int) (l : List Int) (hs : l.Pairwise (· ≤ ·)) :
    (vs.foldl (fun m v => replaceWorst v m) l).Pairwise (· ≤ ·) ∧
    (vs.foldl (fun m v => replaceWorst v m) l).length = l.length ∧
    ∀ i (h1 : i < (vs.foldl (fun m v => replaceWorst v m) l).length) (h2 : i < l.length),
      (vs.foldl (fun m v => replaceWorst v m) l)[i] ≤ l[i] := by
  induction vs generalizing l with
  | nil => exact ⟨hs, rfl, fun i _ _ => Int.le_refl _⟩
  | cons v vs ih =>
    obtain ⟨s1, n1, r1⟩ := replaceWorst_antitone v l hs
    obtain ⟨s2, n2, r2⟩ := ih (replaceWorst v l) s1
    simp only [List.foldl_cons]
    refine ⟨s2, by rw [n2, n1], ?_⟩
    intro i h1 h2
    have h3 : i < (replaceWorst v l).length := by rw [n1]; exact h2
    exact Int.le_trans (r2 i h1 h3) (r1 i h3 h2)

/-- memory `[1, 4, 6, 9]`; new harmonies 5, 12, 0, 3: ranks only improve -/
example : [5, 12, 0, 3].foldl (fun m v => replaceWorst v m) [1, 4, 6, 9] = [0, 1, 3, 4] := by decide

end Opy
