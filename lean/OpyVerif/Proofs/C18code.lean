import OpyVerif.Proofs.C18real
import OpyVerif.Proofs.Formulas
import OpyVerif.Generated.FormulasC18
import OpyVerif.Generated.Select
import OpyVerif.Proofs.SelectProg
import OpyVerif.Proofs.C18
/-!
C18 stated about the *translated source*: the expressions of `Generated/FormulasDefs.lean` are what
`harness/translate_formulas.py` read from the current working tree.  Each theorem composes the
regenerated equality "source = expected expression" (`Generated/FormulasC18.lean`, re-decided on
every build), the denotation theorem of `Proofs/Formulas.lean` (expected expression = model, all
inputs) and the real-number theorem about the model.  `env` gives the values of the named
quantities the expression mentions (`self.w_min`, `space.n_iterations`, the loop counter `t`, …).
-/
set_option linter.unusedVariables false
namespace Opy

/-! ## C18 — Mantegna's Lévy step -/

theorem code_levy (env : String → ℝ) :
    Gen.levyExpr.denote env [] =
      .s (env "g1" * levySigma (env "beta") / |env "g2"| ^ (1 / env "beta")) := by
  rw [Gen.levy_eq, d_levy, levyStep_eq]

/-! ## C18 — tournament selection and the Bernoulli thresholding, as translated -/

/-- the translated `tournament_selection` is the model `tournament`, for every fitness list and all draws -/
theorem code_tournament (fitness : List Int) (rounds : List (List Int)) :
    Gen.tournProg.run fitness rounds = tournament fitness rounds := by
  rw [Gen.tournProg_eq]; exact tournProg_is_tournament fitness rounds

/-- C18 (selection clause) about the code as translated on this run: every selected index is valid, holds the minimum of
    the values drawn in its round, and is the first holder of that value -/
theorem code_tournament_spec (fit : List Int) (rounds : List (List Int)) (sel : List Nat)
    (h : Gen.tournProg.run fit rounds = some sel) :
    ∀ k (hk : k < sel.length) (hk' : k < rounds.length),
      ∃ h : sel[k] < fit.length,
        (fit[sel[k]] ∈ rounds[k] ∧ ∀ x ∈ rounds[k], fit[sel[k]] ≤ x) ∧
        ∀ j (hj : j < fit.length), j < sel[k] → fit[j] ≠ fit[sel[k]] :=
  tournament_spec fit rounds sel (by rw [← code_tournament]; exact h)

theorem code_tournament_length (fit : List Int) (rounds : List (List Int)) (sel : List Nat)
    (h : Gen.tournProg.run fit rounds = some sel) : sel.length = rounds.length :=
  tournament_length fit rounds sel (by rw [← code_tournament]; exact h)

/-- the translated `generate_bernoulli_distribution` is the model `bernoulli` -/
theorem code_bernoulli (prob : Int) (us : List Int) : Gen.bernProg.run prob us = some (bernoulli prob us) := by
  rw [Gen.bernProg_eq]; exact bernProg_is_bernoulli prob us

end Opy
