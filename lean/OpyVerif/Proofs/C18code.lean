import OpyVerif.Proofs.C18real
import OpyVerif.Proofs.Formulas
import OpyVerif.Generated.FormulasC18
/-!
C18 stated about the *translated source*: the expressions of `Generated/FormulasDefs.lean` are what
`harness/translate_formulas.py` read from the current working tree.  Each theorem composes the
regenerated equality "source = expected expression" (`Generated/FormulasC18.lean`, re-decided on
every build), the denotation theorem of `Proofs/Formulas.lean` (expected expression = model, all
inputs) and the real-number theorem about the model.  `env` gives the values of the named
quantities the expression mentions (`self.w_min`, `space.n_iterations`, the loop counter `t`, …).
-/
set_option linter.unusedVariables false
namespace Opy

/-! ## C18 — Mantegna's Lévy step -/

theorem code_levy (env : String → ℝ) :
    Gen.levyExpr.denote env [] =
      .s (env "g1" * levySigma (env "beta") / |env "g2"| ^ (1 / env "beta")) := by
  rw [Gen.levy_eq, d_levy, levyStep_eq]

end Opy
