import OpyVerif.Proofs.PopLoops
import OpyVerif.Proofs.TreesProg
import OpyVerif.Model.GPRun
/-!
C08, population clause, for a whole GP task: from the forest the constructor builds, through every iteration
(reproduction, crossover, mutation as the loops are read from the source, then the sweep's best-tree records), the forest
stays a family of `n_trees` proper expression trees no two of which share a node, and the best tree shares no node
with any of them.
-/
namespace Opy
open PNode

/-- steps that need no side condition -/
def GPOp.free : GPOp → Bool
  | .recordBest _ => true | .reproduce _ _ => true | .cross _ _ _ _ => true | _ => false

theorem allAdmissible_of_free (ar : Nat → Nat) : ∀ (ops : List GPOp) (P : Pop), (∀ op ∈ ops, op.free = true) → AllAdmissible ar P ops := by
  intro ops
  induction ops with
  | nil => intro P _; trivial
  | cons op ops ih =>
    intro P h
    refine ⟨?_, fun P' _ => ih P' (fun o ho => h o (List.mem_cons_of_mem _ ho))⟩
    have := h op List.mem_cons_self
    cases op <;> simp_all [GPOp.free, GPOp.admissible]

theorem runGPOps_facts {ar : Nat → Nat} : ∀ (ops : List GPOp) (P P' : Pop), runGPOps ar P ops = some P' →
    P'.trees.length = P.trees.length ∧ P.next ≤ P'.next := by
  intro ops
  induction ops with
  | nil => intro P P' h; simp only [runGPOps, Option.some.injEq] at h; subst h; exact ⟨rfl, Nat.le_refl _⟩
  | cons op ops ih =>
    intro P P' h
    simp only [runGPOps] at h
    cases hs : op.apply P with
    | none => simp [hs] at h
    | some P1 =>
      simp only [hs] at h
      obtain ⟨a, b⟩ := ih P1 P' h
      have := apply_length op hs
      have := apply_next op hs
      exact ⟨by omega, by omega⟩

/-- free steps keep the forest proper, its size and a positive allocator mark -/
theorem runFree_popOK {ar : Nat → Nat} (ops : List GPOp) (P P' : Pop) (hf : ∀ op ∈ ops, op.free = true) (hP : PopOK ar P)
    (hn : 0 < P.next) (h : runGPOps ar P ops = some P') :
    PopOK ar P' ∧ P'.trees.length = P.trees.length ∧ 0 < P'.next := by
  obtain ⟨a, b⟩ := runGPOps_facts ops P P' h
  exact ⟨runGPOps_popOK ops P P' hP hn (allAdmissible_of_free ar ops P hf) h, a, by omega⟩

theorem runMut_next : ∀ (selected : List Nat) (P P' : Pop) (points : List Nat) (grown : List PNode),
    runMut P selected points grown = some P' → P.next ≤ P'.next := by
  intro selected
  induction selected with
  | nil => intro P P' _ _ h; simp only [runMut, Option.some.injEq] at h; subst h; exact Nat.le_refl _
  | cons s ss ih =>
    intro P P' points grown h
    simp only [runMut] at h
    cases ht : P.trees[s]? with
    | none => simp [ht] at h
    | some t =>
      simp only [ht] at h
      split at h
      · cases points with
        | nil => simp at h
        | cons p ps =>
          cases grown with
          | nil => simp at h
          | cons g gs =>
            simp only at h
            cases ha : (GPOp.mutate s p g).apply P with
            | none => simp [ha] at h
            | some P1 =>
              simp only [ha] at h
              have := apply_next _ ha
              have := ih P1 P' ps gs h
              omega
      · cases grown with
        | nil => simp at h
        | cons g gs =>
          simp only at h
          cases ha : (GPOp.regrow s g).apply P with
          | none => simp [ha] at h
          | some P1 =>
            simp only [ha] at h
            have := apply_next _ ha
            have := ih P1 P' points gs h
            omega

theorem runCrossPairs_next : ∀ (pairs : List (Nat × Nat)) (P P' : Pop) (draws : List (Nat × Nat)),
    runCrossPairs P pairs draws = some P' → P.next ≤ P'.next := by
  intro pairs
  induction pairs with
  | nil => intro P P' _ h; simp only [runCrossPairs, Option.some.injEq] at h; subst h; exact Nat.le_refl _
  | cons q qs ih =>
    intro P P' draws h
    obtain ⟨a, b⟩ := q
    simp only [runCrossPairs] at h
    split at h
    · split at h
      · cases draws with
        | nil => simp at h
        | cons d ds =>
          simp only at h
          cases ha : (GPOp.cross a b d.1 d.2).apply P with
          | none => simp [ha] at h
          | some P1 =>
            simp only [ha] at h
            have := apply_next _ ha
            have := ih P1 P' ds h
            omega
      · exact ih P P' draws h
    · cases h

/-- what `space.grow` returns during the mutation loop of an iteration is fresh for the forest as it is then -/
def IterOK (ar : Nat → Nat) (P : Pop) (i : IterInput) : Prop :=
  ∀ P1 P2, runGPOps ar P (reproOps i.fit i.selR) = some P1 → Expected.crossLoop.run P1 i.selC i.drawsC = some P2 →
    GrownFresh ar P2.next i.grownM

theorem reproOps_free (fit : List Int) (sel : List Nat) : ∀ op ∈ reproOps fit sel, op.free = true := by
  intro op h
  simp only [reproOps, List.mem_map] at h
  obtain ⟨p, _, rfl⟩ := h
  rfl

theorem bests_free (l : List Nat) : ∀ op ∈ l.map GPOp.recordBest, op.free = true := by
  intro op h
  simp only [List.mem_map] at h
  obtain ⟨p, _, rfl⟩ := h
  rfl

/-- **one iteration keeps the forest proper** -/
theorem gpIteration_popOK {ar : Nat → Nat} (P P' : Pop) (i : IterInput) (hP : PopOK ar P) (hn : 0 < P.next)
    (hok : IterOK ar P i)
    (h : gpIteration ar Expected.updateProg Expected.mutLoop Expected.crossLoop P i = some P') :
    PopOK ar P' ∧ P'.trees.length = P.trees.length ∧ 0 < P'.next := by
  simp only [gpIteration, Expected.updateProg, if_true] at h
  cases h1 : runGPOps ar P (reproOps i.fit i.selR) with
  | none => simp [h1, bind3] at h
  | some P1 =>
    simp only [h1, bind3] at h
    obtain ⟨ok1, len1, n1⟩ := runFree_popOK _ P P1 (reproOps_free _ _) hP hn h1
    cases h2 : Expected.crossLoop.run P1 i.selC i.drawsC with
    | none => simp [h2] at h
    | some P2 =>
      simp only [h2] at h
      obtain ⟨ok2, len2, _⟩ := crossLoop_popOK P1 P2 i.selC i.drawsC ok1 n1 h2
      have n2 : 0 < P2.next := by
        rw [crossLoop_run] at h2
        have := runCrossPairs_next _ P1 P2 _ h2
        omega
      cases h3 : Expected.mutLoop.run P2 i.selM i.pointsM i.grownM with
      | none => simp [h3] at h
      | some P3 =>
        simp only [h3] at h
        obtain ⟨ok3, len3, _⟩ := mutLoop_popOK P2 P3 i.selM i.pointsM i.grownM ok2 n2 (hok P1 P2 h1 h2) h3
        have n3 : 0 < P3.next := by
          rw [mutLoop_run] at h3
          have := runMut_next _ P2 P3 _ _ h3
          omega
        obtain ⟨ok4, len4, n4⟩ := runFree_popOK _ P3 P' (bests_free _) ok3 n3 h
        exact ⟨ok4, by omega, n4⟩

/-- the slots `reproPairs` names are the slots the model of `GP._reproduction` overwrites, with copies of the individuals it
    names (for a tournament outcome that names existing individuals — `tournament_spec`): the tree list `reproduction`
    returns is the fold of "slot := copy of source" over those pairs -/
theorem reproduction_trees_pairs {α β : Type} (cpT : α → α) (cpA : β → β) : ∀ (selected : List Nat) (trees : List α) (agents : List β)
    (fit : List Int), trees.length = agents.length → (∀ s ∈ selected, s < trees.length) →
    (reproduction cpT cpA trees agents fit selected).1 =
      (reproPairs fit selected).foldl (fun ts p => match ts[p.2]? with | some t => ts.set p.1 (cpT t) | none => ts) trees := by
  intro selected
  induction selected with
  | nil => intro trees agents fit _ _; rfl
  | cons s ss ih =>
    intro trees agents fit hl hsel
    have hs : s < trees.length := hsel s List.mem_cons_self
    have hs' : s < agents.length := by omega
    simp only [reproduction, List.foldl_cons, reproPairs]
    have step : reproStep cpT cpA (trees, agents, fit) s =
        (trees.set (argmaxFirst fit) (cpT trees[s]), agents.set (argmaxFirst fit) (cpA agents[s]), fit.set (argmaxFirst fit) 0) := by
      simp [reproStep, List.getElem?_eq_getElem hs, List.getElem?_eq_getElem hs']
    rw [step]
    simp only [List.getElem?_eq_getElem hs]
    have := ih (trees.set (argmaxFirst fit) (cpT trees[s])) (agents.set (argmaxFirst fit) (cpA agents[s])) (fit.set (argmaxFirst fit) 0)
      (by simp [hl]) (by intro x hx; simp; exact hsel x (List.mem_cons_of_mem _ hx))
    simpa [reproduction] using this

/-- freshness along a whole task -/
def RunOK (ar : Nat → Nat) : Pop → List IterInput → Prop
  | _, [] => True
  | P, i :: is => IterOK ar P i ∧
      ∀ P', gpIteration ar Expected.updateProg Expected.mutLoop Expected.crossLoop P i = some P' → RunOK ar P' is

theorem gpIterations_popOK {ar : Nat → Nat} : ∀ (is : List IterInput) (P P' : Pop), PopOK ar P → 0 < P.next → RunOK ar P is →
    gpIterations ar Expected.updateProg Expected.mutLoop Expected.crossLoop P is = some P' →
    PopOK ar P' ∧ P'.trees.length = P.trees.length := by
  intro is
  induction is with
  | nil => intro P P' hP _ _ h; simp only [gpIterations, Option.some.injEq] at h; subst h; exact ⟨hP, rfl⟩
  | cons i is ih =>
    intro P P' hP hn hok h
    simp only [gpIterations] at h
    cases hi : gpIteration ar Expected.updateProg Expected.mutLoop Expected.crossLoop P i with
    | none => simp [hi] at h
    | some P1 =>
      simp only [hi] at h
      obtain ⟨ok1, len1, n1⟩ := gpIteration_popOK P P1 i hP hn hok.1 hi
      obtain ⟨a, b⟩ := ih P1 P' ok1 n1 (hok.2 P1 hi) h
      exact ⟨a, by omega⟩

/-- **the whole task, from the constructor on**: the forest `_create_trees` builds, the initial sweep's best-tree records and
    any number of iterations leave `n_trees` proper trees no two of which share a node, and a best tree disjoint from all -/
theorem gpTask_popOK (cfg : GrowCfg) (k n : Nat) (draws : List Nat) (nid : Nat) (P0 P1 P' : Pop) (bests0 : List Nat)
    (is : List IterInput)
    (h0 : Expected.treesProg.run cfg k n draws nid = some P0)
    (hb : runGPOps cfg.ar P0 (bests0.map GPOp.recordBest) = some P1) (hok : RunOK cfg.ar P1 is)
    (h : gpTask cfg.ar Expected.updateProg Expected.mutLoop Expected.crossLoop P0 bests0 is = some P') :
    PopOK cfg.ar P' ∧ P'.trees.length = n := by
  obtain ⟨ok0, len0, _, hnpos⟩ := treesProg_popOK cfg k n draws nid P0 h0
  have n0 : 0 < P0.next := by
    -- the forest is not empty, its trees are not empty, every identity is below the mark
    have hlt := ok0.2.1
    cases ht : P0.trees with
    | nil => rw [ht] at len0; simp at len0; omega
    | cons t ts =>
      have hm : t ∈ P0.trees := by rw [ht]; exact List.mem_cons_self
      have hwf := ok0.1 t hm
      cases t with
      | nil => exact absurd rfl hwf.1
      | mk i lb p f l r =>
        have := hlt _ hm i (by simp [PNode.ids])
        omega
  simp only [gpTask, hb, bind3] at h
  obtain ⟨ok1, len1, n1⟩ := runFree_popOK _ P0 P1 (bests_free _) ok0 n0 hb
  obtain ⟨a, b⟩ := gpIterations_popOK is P1 P' ok1 n1 hok h
  exact ⟨a, by omega⟩

end Opy

namespace Opy
open PNode
/-- non-vacuity: a whole task on the concrete forest of `Proofs/Forest.lean` — initial best, then one iteration with a
    reproduction (slot 2, the first maximum of the fitness, receives a copy of tree 0), a crossover of trees 0 and 1, a
    mutation of tree 1 with a grown branch that is fresh at that moment, and a new best tree — runs through -/
def iterE (P : Pop) : IterInput :=
  { fit := [3, 1, 7], selR := [0], selC := [0, 1], drawsC := [(2, 2)], selM := [1], pointsM := [1],
    grownM := [shift (2 * (9 * P.next) - 25) branchE], bests := [1] }

example : ((gpTask cfgE.ar Expected.updateProg Expected.mutLoop Expected.crossLoop
      ((Expected.treesProg.run cfgE 2 3 drawsE 1).getD ⟨[], .nil, 1⟩) [2]
      [iterE ⟨[], .nil, 3 * 22⟩]).map fun P' => (P'.trees.length, P'.best.isNil)) = some (3, false) := by decide
end Opy
