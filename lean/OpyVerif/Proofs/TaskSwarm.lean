import OpyVerif.Proofs.TaskTrial
/-!
The swarm family (PSO, AIWPSO, RPSO) at the level of a whole task.  Their sweep (`PSO._evaluate`, the machine rule with
`swarm = true`) keeps, per particle, the best value seen and the position it was seen at (`agent.fit`, `local_position[i]` —
`Ag.fit`, `Ag.tpos`); their updates move particles and velocities and leave that memory alone.  That last fact is the one
assumption about the oracles (`KeepsMemory`).  Theorems, for every iteration count, objective and oracle: from the first sweep
on every particle's stored fitness is the objective at its stored personal-best position (**C20**, truthful records of the
swarm family), and from record to record no particle's fitness increases.
-/
namespace Opy
namespace Task

/-- the personal-best memory of a population: (position it was seen at, value), in population order -/
def memory (pop : List Ag) : List (Pos × Int) := pop.map fun a => (a.tpos, a.fit)

/-- updates, hooks and post steps leave every particle's personal-best memory alone -/
structure KeepsMemory (o : TaskOracle) : Prop where
  upd : ∀ k st, memory (o.upd k st).1 = memory st.1
  hook : ∀ k st, memory (o.hook k st).1 = memory st.1
  post : ∀ k st, memory (o.post k st).1 = memory st.1

theorem memory_fits (pop pop' : List Ag) (h : memory pop' = memory pop) : pop'.map (·.fit) = pop.map (·.fit) := by
  have := congrArg (List.map Prod.snd) h
  simpa [memory, List.map_map, Function.comp_def] using this

theorem memory_mem (pop pop' : List Ag) (h : memory pop' = memory pop) :
    ∀ a' ∈ pop', ∃ a ∈ pop, a.tpos = a'.tpos ∧ a.fit = a'.fit := by
  intro a' ha'
  have : (a'.tpos, a'.fit) ∈ memory pop' := List.mem_map.mpr ⟨a', ha', rfl⟩
  rw [h] at this
  obtain ⟨a, ha, he⟩ := List.mem_map.mp this
  simp only [Prod.mk.injEq] at he
  exact ⟨a, ha, he.1, he.2⟩

theorem leAll_map (g : Ag → Ag) (pop : List Ag) (h : ∀ a ∈ pop, (g a).fit ≤ a.fit) :
    LeAll ((pop.map g).map (·.fit)) (pop.map (·.fit)) := by
  induction pop with
  | nil => trivial
  | cons a as ih =>
    exact ⟨h a List.mem_cons_self, ih (fun x hx => h x (List.mem_cons_of_mem _ hx))⟩

theorem leAll_of_eq {xs ys : List Int} (h : xs = ys) : LeAll xs ys := by rw [h]; exact leAll_refl _

section
variable (p : TaskProg) (lbs ubs : List Int) (o : TaskOracle)

/-- what holds of a swarm task from its first sweep on -/
structure SwInv (o : TaskOracle) (s : TaskSt) : Prop where
  /-- the stored fitness is the objective at the stored personal-best position -/
  truthful : ∀ a ∈ s.pop, a.fit = o.f a.tpos
  below : ∀ d ∈ s.dumps, LeAll (s.pop.map (·.fit)) (d.1.map (·.2))
  chain : s.dumps.Pairwise (fun d d' => LeAll (d'.1.map (·.2)) (d.1.map (·.2)))

theorem swarm_sweep_fit (cfg : Cfg) (hs : cfg.swarm = true) (a : Ag) (v : Int) :
    (sweepAgent cfg a v).fit ≤ a.fit ∧
    ((sweepAgent cfg a v) = a ∨ ((sweepAgent cfg a v).fit = v ∧ (sweepAgent cfg a v).tpos = a.pos)) := by
  unfold sweepAgent
  by_cases h : v < a.fit <;> simp [hs, h]; omega

theorem swInv_execEv (hr : IsRule p.sweep true) (hm : KeepsMemory o) (s : TaskSt) (ev : SEv) (h : SwInv o s) :
    SwInv o (p.execEv lbs ubs o s ev) := by
  obtain ⟨h1, h2, h3⟩ := h
  have keep : ∀ pop' : List Ag, memory pop' = memory s.pop →
      (∀ a ∈ pop', a.fit = o.f a.tpos) ∧ ∀ d ∈ s.dumps, LeAll (pop'.map (·.fit)) (d.1.map (·.2)) := by
    intro pop' hmem
    refine ⟨?_, ?_⟩
    · intro a' ha'
      obtain ⟨a, ha, e1, e2⟩ := memory_mem s.pop pop' hmem a' ha'
      rw [← e1, ← e2]; exact h1 a ha
    · intro d hd
      rw [memory_fits s.pop pop' hmem]; exact h2 d hd
  cases ev with
  | update => exact ⟨(keep _ (hm.upd s.k (s.pop, s.best))).1, (keep _ (hm.upd s.k (s.pop, s.best))).2, h3⟩
  | hook => exact ⟨(keep _ (hm.hook s.k (s.pop, s.best))).1, (keep _ (hm.hook s.k (s.pop, s.best))).2, h3⟩
  | post => exact ⟨(keep _ (hm.post s.k (s.pop, s.best))).1, (keep _ (hm.post s.k (s.pop, s.best))).2, h3⟩
  | clipAll =>
    have e : memory (s.pop.map fun a => { a with pos := p.clip.runPos lbs ubs a.pos }) = memory s.pop := by
      simp [memory, List.map_map, Function.comp_def]
    exact ⟨(keep _ e).1, (keep _ e).2, h3⟩
  | sweep =>
    have e : (sweepPop p.sweep lbs ubs o.f s.pop s.best s.fresh).1
        = s.pop.map (fun a => sweepAgent ⟨0, true, lbs, ubs⟩ a (o.f a.pos)) := sweepPop_pop p.sweep true hr lbs ubs o.f _ _ _
    refine ⟨?_, ?_, h3⟩
    · intro a ha
      simp only [TaskProg.execEv] at ha
      rw [e] at ha
      obtain ⟨x, hx, rfl⟩ := List.mem_map.mp ha
      rcases (swarm_sweep_fit ⟨0, true, lbs, ubs⟩ rfl x (o.f x.pos)).2 with h' | ⟨h', h''⟩
      · rw [h']; exact h1 x hx
      · rw [h', h'']
    · intro d hd
      simp only [TaskProg.execEv] at hd ⊢
      rw [e]
      exact leAll_trans (leAll_map _ s.pop (fun a _ => (swarm_sweep_fit ⟨0, true, lbs, ubs⟩ rfl a (o.f a.pos)).1)) (h2 d hd)
  | dump =>
    have er : (s.pop.map record).map (·.2) = s.pop.map (·.fit) := by simp [List.map_map, record, Function.comp_def]
    refine ⟨h1, ?_, ?_⟩
    · intro d hd
      simp only [TaskProg.execEv, List.mem_append, List.mem_singleton] at hd
      rcases hd with hd | rfl
      · exact h2 d hd
      · show LeAll _ ((s.pop.map record).map (·.2)); rw [er]; exact leAll_refl _
    · simp only [TaskProg.execEv]
      rw [List.pairwise_append]
      refine ⟨h3, by simp, ?_⟩
      intro d hd d' hd'
      simp only [List.mem_singleton] at hd'
      subst hd'
      show LeAll ((s.pop.map record).map (·.2)) _; rw [er]; exact h2 d hd

theorem swInv_exec (hr : IsRule p.sweep true) (hm : KeepsMemory o) (es : List SEv) (s : TaskSt) (h : SwInv o s) :
    SwInv o (p.exec lbs ubs o s es) := by
  induction es generalizing s with
  | nil => exact h
  | cons e es ih => exact ih _ (swInv_execEv p lbs ubs o hr hm s e h)

/-- **C20 for the swarm family, task level.**  Particles start with the sentinel fitness, above every value of the objective
    (K6 is the excluded point).  For every number of iterations, every objective and every oracle that leaves the personal-best
    memory alone: from the first sweep on every particle's stored fitness is the objective at its stored personal-best
    position, every later recorded fitness vector is point-wise at most every earlier one. -/
theorem task_swarm (hg : Good true p.skel = true) (hr : IsRule p.sweep true) (hm : KeepsMemory o)
    (pop : List Ag) (best : Ag) (h0 : ∀ a ∈ pop, ∀ x, o.f x < a.fit) (N : Nat) :
    SwInv o (p.runTask lbs ubs o (TaskSt.start pop best) N) := by
  obtain ⟨hpre, _⟩ := good_pattern true p.skel hg
  obtain ⟨rest, hrest⟩ := runSkel_pre p.skel N
  unfold TaskProg.runTask
  rw [hrest, exec_append, hpre]
  apply swInv_exec p lbs ubs o hr hm
  have e : ∀ X best' fresh, (sweepPop p.sweep lbs ubs o.f X best' fresh).1
      = X.map (fun a => sweepAgent ⟨0, true, lbs, ubs⟩ a (o.f a.pos)) := fun X b fr => sweepPop_pop p.sweep true hr lbs ubs o.f X b fr
  refine ⟨?_, by simp [exec_cons, exec_nil, TaskProg.execEv, TaskSt.start],
    by simp [exec_cons, exec_nil, TaskProg.execEv, TaskSt.start]⟩
  intro a ha
  simp only [exec_cons, exec_nil, TaskProg.execEv, TaskSt.start] at ha
  rw [e] at ha
  obtain ⟨x, hx, rfl⟩ := List.mem_map.mp ha
  -- every particle improves on the sentinel at its first evaluation
  obtain ⟨y, hy, _, e2⟩ := memory_mem pop _ (hm.hook 0 (pop, best)) x hx
  have hlt : o.f x.pos < x.fit := by rw [← e2]; exact h0 y hy x.pos
  simp [sweepAgent, hlt]

end

end Task
end Opy
