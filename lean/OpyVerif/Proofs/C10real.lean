import OpyVerif.Proofs.C10
import OpyVerif.Proofs.RealElem
/-!
C10 (real part) — the protections of the GP operators, read at `ℝ`.

* SQRT is `sqrt |x|`: the argument is never negative and the result squares back to `|x|`;
* LOG is `log (|x| + eps)`: for `eps > 0` the argument is strictly positive;
* DIV is `x / (y + eps)`: the denominator vanishes exactly at `y = -eps` (the protection moves
  the pole from `0` to `-eps`, it does not remove it).

The last three lemmas restate the operator tables of `evalTree` at `ℝ` in Mathlib's vocabulary.
-/
set_option linter.unusedVariables false
namespace Opy

/-- the argument of the protected square root is never negative … -/
theorem sqrt_abs_defined (x : ℝ) : 0 ≤ |x| := abs_nonneg x

/-- … so the protected square root is a genuine square root of `|x|` -/
theorem sqrt_abs_sq (x : ℝ) : Real.sqrt (|x|) ^ 2 = |x| := Real.sq_sqrt (abs_nonneg x)

/-- the argument of the protected logarithm is strictly positive for a positive `eps` -/
theorem log_abs_eps_pos (x eps : ℝ) (h : 0 < eps) : 0 < |x| + eps :=
  add_pos_of_nonneg_of_pos (abs_nonneg x) h

/-- hence `exp ∘ log` is the identity on it: the protected logarithm is the real logarithm of
    a positive number (no `log 0 = 0` junk value is ever used) -/
theorem exp_log_abs_eps (x eps : ℝ) (h : 0 < eps) : Real.exp (Real.log (|x| + eps)) = |x| + eps :=
  Real.exp_log (log_abs_eps_pos x eps h)

/-- the protected division has a non-zero denominator iff `y ≠ -eps` -/
theorem div_defined_iff (y eps : ℝ) : y + eps ≠ 0 ↔ y ≠ -eps := by
  rw [ne_eq, ne_eq, add_eq_zero_iff_eq_neg]

/-- where it is defined, the protected quotient is a genuine quotient -/
theorem div_mul_cancel_protected (x y eps : ℝ) (h : y ≠ -eps) : x / (y + eps) * (y + eps) = x :=
  div_mul_cancel₀ x ((div_defined_iff y eps).mpr h)

/-- in particular non-negative operands are always safe for a positive `eps` -/
theorem div_defined_of_nonneg (y eps : ℝ) (hy : 0 ≤ y) (h : 0 < eps) : y + eps ≠ 0 :=
  ne_of_gt (add_pos_of_nonneg_of_pos hy h)

/-! the operator tables of `evalTree` at `ℝ` -/

theorem binOp_div_real (eps : ℝ) : binOp eps 3 = some (fun x y : ℝ => x / (y + eps)) := by
  simp only [binOp, elem_div, elem_add]

theorem binOp_sub_real (eps : ℝ) : binOp eps 1 = some (fun x y : ℝ => x - y) := by
  simp only [binOp, elem_sub]

theorem unOp_sqrt_real (eps : ℝ) : unOp eps 5 = some (fun x : ℝ => Real.sqrt |x|) := by
  simp only [unOp, elem_sqrt, elem_abs]

theorem unOp_log_real (eps : ℝ) : unOp eps 6 = some (fun x : ℝ => Real.log (|x| + eps)) := by
  simp only [unOp, elem_log, elem_abs, elem_add]

/-- non-vacuity: the pole of the protected division is real -/
example : (1 : ℝ) / ((-1) + 1) = 0 := by norm_num

#print axioms sqrt_abs_defined
#print axioms sqrt_abs_sq
#print axioms log_abs_eps_pos
#print axioms exp_log_abs_eps
#print axioms div_defined_iff
#print axioms div_mul_cancel_protected
#print axioms div_defined_of_nonneg
#print axioms binOp_div_real
#print axioms binOp_sub_real
#print axioms unOp_sqrt_real
#print axioms unOp_log_real

end Opy
