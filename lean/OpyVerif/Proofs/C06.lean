import OpyVerif.Model.Clip
/-!
C06 — spaces start feasible; limit enforcement is an exact projection onto the box.
All statements are over keys (hence over every non-NaN double, ±∞ included).
-/
set_option linter.unusedVariables false
namespace Opy

theorem clip_mem (lb ub x : Int) (h : lb ≤ ub) : lb ≤ clip lb ub x ∧ clip lb ub x ≤ ub := by
  unfold clip; omega

/-- in-range coordinates are left bit-identical -/
theorem clip_fixed (lb ub x : Int) (h1 : lb ≤ x) (h2 : x ≤ ub) : clip lb ub x = x := by
  unfold clip; omega

/-- below the range → exactly the lower bound (the nearest point of the box) -/
theorem clip_low (lb ub x : Int) (h : lb ≤ ub) (hx : x < lb) : clip lb ub x = lb := by
  unfold clip; omega

/-- above the range → exactly the upper bound -/
theorem clip_high (lb ub x : Int) (h : lb ≤ ub) (hx : ub < x) : clip lb ub x = ub := by
  unfold clip; omega

theorem clip_idem (lb ub x : Int) (h : lb ≤ ub) : clip lb ub (clip lb ub x) = clip lb ub x := by
  unfold clip; omega

/-- `clip` is the metric projection: no point of `[lb, ub]` is closer to `x`. -/
theorem clip_nearest (lb ub x y : Int) (h : lb ≤ ub) (hy1 : lb ≤ y) (hy2 : y ≤ ub) :
    (x - clip lb ub x).natAbs ≤ (x - y).natAbs := by
  unfold clip; omega

theorem clipRow_length (lb ub : Int) (r : List Int) : (clipRow lb ub r).length = r.length := by
  simp [clipRow]

theorem clipRow_mem (lb ub : Int) (r : List Int) (h : lb ≤ ub) :
    ∀ y ∈ clipRow lb ub r, lb ≤ y ∧ y ≤ ub := by
  intro y hy
  simp only [clipRow, List.mem_map] at hy
  obtain ⟨x, _, rfl⟩ := hy
  exact clip_mem lb ub x h

theorem clipRow_fixed (lb ub : Int) (r : List Int) (h : ∀ x ∈ r, lb ≤ x ∧ x ≤ ub) :
    clipRow lb ub r = r := by
  induction r with
  | nil => rfl
  | cons x xs ih =>
    simp only [clipRow, List.map_cons, List.cons.injEq]
    refine ⟨clip_fixed lb ub x (h x (by simp)).1 (h x (by simp)).2, ?_⟩
    exact ih (fun y hy => h y (by simp [hy]))

/-- entry-wise description of the clipped row -/
theorem clipRow_get (lb ub : Int) (r : List Int) (i : Nat) (hi : i < r.length) :
    (clipRow lb ub r)[i]'(by simpa [clipRow] using hi) = clip lb ub r[i] := by
  simp [clipRow]

theorem clipPos_length (lbs ubs : List Int) (p : Pos) : (clipPos lbs ubs p).length = p.length := by
  induction p generalizing lbs ubs with
  | nil => cases lbs <;> cases ubs <;> simp [clipPos]
  | cons r rows ih =>
    cases lbs <;> cases ubs <;> simp [clipPos, ih]

theorem clipPos_shape (lbs ubs : List Int) (p : Pos) (v d : Nat) (h : Shape v d p) :
    Shape v d (clipPos lbs ubs p) := by
  obtain ⟨h1, h2⟩ := h
  refine ⟨by rw [clipPos_length]; exact h1, ?_⟩
  clear h1
  induction p generalizing lbs ubs with
  | nil => cases lbs <;> cases ubs <;> simp [clipPos]
  | cons r rows ih =>
    cases lbs with
    | nil => simpa [clipPos] using h2
    | cons l lbs =>
      cases ubs with
      | nil => simpa [clipPos] using h2
      | cons u ubs =>
        intro r' hr'
        simp only [clipPos, List.mem_cons] at hr'
        rcases hr' with rfl | hr'
        · rw [clipRow_length]; exact h2 r (by simp)
        · exact ih lbs ubs (fun x hx => h2 x (by simp [hx])) r' hr'

/-- after enforcing limits every entry lies inside its variable's box — for *any* input
    position (out of range, ±∞ keys, …), one bound pair per row, `lb ≤ ub` point-wise. -/
theorem clipPos_inBox (lbs ubs : List Int) (p : Pos) (hb : BoundsOk lbs ubs)
    (hl : lbs.length = p.length) : InBox lbs ubs (clipPos lbs ubs p) := by
  induction p generalizing lbs ubs with
  | nil =>
    cases lbs with
    | nil => cases ubs <;> simp_all [BoundsOk, clipPos, InBox]
    | cons => simp at hl
  | cons r rows ih =>
    cases lbs with
    | nil => simp at hl
    | cons l lbs =>
      cases ubs with
      | nil => simp [BoundsOk] at hb
      | cons u ubs =>
        simp only [BoundsOk] at hb
        simp only [clipPos, InBox]
        exact ⟨clipRow_mem l u r hb.1, ih lbs ubs hb.2 (by simpa using hl)⟩

/-- feasible positions are left bit-identical -/
theorem clipPos_fixed (lbs ubs : List Int) (p : Pos) (h : InBox lbs ubs p) :
    clipPos lbs ubs p = p := by
  induction p generalizing lbs ubs with
  | nil => cases lbs <;> cases ubs <;> simp [clipPos]
  | cons r rows ih =>
    cases lbs with
    | nil => simp [clipPos]
    | cons l lbs =>
      cases ubs with
      | nil => simp [clipPos]
      | cons u ubs =>
        simp only [InBox] at h
        simp only [clipPos]
        rw [clipRow_fixed l u r h.1, ih lbs ubs h.2]

theorem clipPos_idem (lbs ubs : List Int) (p : Pos) (hb : BoundsOk lbs ubs)
    (hl : lbs.length = p.length) : clipPos lbs ubs (clipPos lbs ubs p) = clipPos lbs ubs p :=
  clipPos_fixed lbs ubs _ (clipPos_inBox lbs ubs p hb hl)

/-- row `j`, entry `i` of the result is `clip lb_j ub_j` of the same entry of the input:
    out-of-range coordinates go to the nearest bound, the others stay (see `clip_*`). -/
theorem clipPos_entry (lbs ubs : List Int) (p : Pos) (j : Nat)
    (hj : j < p.length) (hjl : j < lbs.length) (hju : j < ubs.length) :
    (clipPos lbs ubs p)[j]'(by rw [clipPos_length]; exact hj) = clipRow lbs[j] ubs[j] p[j] := by
  induction p generalizing lbs ubs j with
  | nil => simp at hj
  | cons r rows ih =>
    cases lbs with
    | nil => simp at hjl
    | cons l lbs =>
      cases ubs with
      | nil => simp at hju
      | cons u ubs =>
        cases j with
        | zero => simp [clipPos]
        | succ j =>
          simp only [clipPos, List.getElem_cons_succ]
          exact ih lbs ubs j (by simpa using hj) (by simpa using hjl) (by simpa using hju)

theorem clipAll_length (lbs ubs : List Int) (pop : List Pos) :
    (clipAll lbs ubs pop).length = pop.length := by simp [clipAll]

theorem clipAll_inBox (lbs ubs : List Int) (pop : List Pos) (hb : BoundsOk lbs ubs)
    (hl : ∀ p ∈ pop, lbs.length = p.length) : ∀ q ∈ clipAll lbs ubs pop, InBox lbs ubs q := by
  intro q hq
  simp only [clipAll, List.mem_map] at hq
  obtain ⟨p, hp, rfl⟩ := hq
  exact clipPos_inBox lbs ubs p hb (hl p hp)

theorem clipAll_idem (lbs ubs : List Int) (pop : List Pos) (hb : BoundsOk lbs ubs)
    (hl : ∀ p ∈ pop, lbs.length = p.length) :
    clipAll lbs ubs (clipAll lbs ubs pop) = clipAll lbs ubs pop := by
  simp only [clipAll, List.map_map]
  apply List.map_congr_left
  intro p hp
  exact clipPos_idem lbs ubs p hb (hl p hp)

theorem boundsOk_unit (n : Nat) : BoundsOk (List.replicate n keyZero) (List.replicate n keyOne) := by
  induction n with
  | zero => simp [BoundsOk]
  | succ n ih => simp only [List.replicate_succ, BoundsOk]; exact ⟨by decide, ih⟩

/-- hypercomplex spaces clip to the unit box whatever the declared bounds -/
theorem clipHyper_inUnitBox (p : Pos) :
    InBox (List.replicate p.length keyZero) (List.replicate p.length keyOne) (clipHyper p.length p) :=
  clipPos_inBox _ _ p (boundsOk_unit _) (by simp)

theorem clipHyper_idem (p : Pos) : clipHyper p.length (clipHyper p.length p) = clipHyper p.length p :=
  clipPos_idem _ _ p (boundsOk_unit _) (by simp)

theorem clipHyper_fixed (p : Pos)
    (h : InBox (List.replicate p.length keyZero) (List.replicate p.length keyOne) p) :
    clipHyper p.length p = p := clipPos_fixed _ _ p h

/-! ### construction -/

theorem initSearch_length (lbs ubs : List Int) (draws : List Pos) :
    (initSearch lbs ubs draws).length = draws.length := by simp [initSearch]

/-- draws inside `[lb_j, ub_j]` (what `uniform(lb_j, ub_j)` returns, `high` included after
    rounding) give feasible agents that carry the declared bounds -/
theorem initSearch_feasible (lbs ubs : List Int) (draws : List Pos)
    (h : ∀ p ∈ draws, InBox lbs ubs p) :
    ∀ a ∈ initSearch lbs ubs draws, InBox lbs ubs a.pos ∧ a.lb = lbs ∧ a.ub = ubs := by
  intro a ha
  simp only [initSearch, List.mem_map] at ha
  obtain ⟨p, hp, rfl⟩ := ha
  exact ⟨h p hp, rfl, rfl⟩

theorem initHyper_feasible (v : Nat) (draws : List Pos)
    (h : ∀ p ∈ draws, InBox (List.replicate v keyZero) (List.replicate v keyOne) p) :
    ∀ a ∈ initHyper v draws,
      InBox (List.replicate v keyZero) (List.replicate v keyOne) a.pos ∧
      a.lb = List.replicate v keyZero ∧ a.ub = List.replicate v keyOne := by
  intro a ha
  simp only [initHyper, List.mem_map] at ha
  obtain ⟨p, hp, rfl⟩ := ha
  exact ⟨h p hp, rfl, rfl⟩

/-- the agent's own `check_limits` is the identity on a freshly built agent -/
theorem initSearch_clip_noop (lbs ubs : List Int) (draws : List Pos)
    (h : ∀ p ∈ draws, InBox lbs ubs p) :
    ∀ a ∈ initSearch lbs ubs draws, clipPos a.lb a.ub a.pos = a.pos := by
  intro a ha
  obtain ⟨h1, h2, h3⟩ := initSearch_feasible lbs ubs draws h a ha
  rw [h2, h3]; exact clipPos_fixed lbs ubs a.pos h1

theorem inBoxB_iff (lbs ubs : List Int) (p : Pos) : inBoxB lbs ubs p = true ↔ InBox lbs ubs p := by
  induction p generalizing lbs ubs with
  | nil => cases lbs <;> cases ubs <;> simp [inBoxB, InBox]
  | cons r rows ih =>
    cases lbs with
    | nil => simp [inBoxB, InBox]
    | cons l lbs =>
      cases ubs with
      | nil => simp [inBoxB, InBox]
      | cons u ubs =>
        simp only [inBoxB, InBox, Bool.and_eq_true, List.all_eq_true, decide_eq_true_eq, ih]

/-- non-vacuity: a concrete box and an out-of-range position (incl. a "huge" key) -/
example : clipPos [-5, 0] [5, 0] [[-9, 3, 99999999999], [7, -7, 0]] = [[-5, 3, 5], [0, 0, 0]] := by decide
example : BoundsOk [-5, 0] [5, 0] := by simp [BoundsOk]

end Opy
