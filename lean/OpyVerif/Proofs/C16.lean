import OpyVerif.Proofs.Lemmas.RealLemmas
/-!
C16 — the weighted-sum multi-objective wrapper computes `Σ wᵢ · fᵢ(x)` over all components.
`weighted` is the formula of `Model/Num.lean` (a left fold with accumulator `0`), instantiated at `ℝ`;
`weightedG` is the same loop over an arbitrary semiring.
-/
set_option linter.unusedVariables false
namespace Opy

/-- the accumulation loop is the mathematical weighted sum -/
theorem weighted_eq_sum (ws vals : List ℝ) :
    weighted ws vals = ((List.zip ws vals).map fun p => p.1 * p.2).sum := by
  rw [weighted_eq_weightedG, weightedG_eq_sum]

/-- the same identity for the same loop over any semiring (commutativity is not needed) -/
theorem weighted_eq_sum_generic {R : Type} [Semiring R] (ws vals : List R) :
    weightedG ws vals = ((List.zip ws vals).map fun p => p.1 * p.2).sum :=
  weightedG_eq_sum ws vals

/-- over `ℝ` the Model formula is the generic loop -/
theorem weighted_eq_generic (ws vals : List ℝ) : weighted ws vals = weightedG ws vals :=
  weighted_eq_weightedG ws vals

/-- with as many weights as components the sum ranges over all `ws.length` of them -/
theorem weighted_all_components (ws vals : List ℝ) (h : ws.length = vals.length) :
    (List.zip ws vals).length = ws.length ∧
      weighted ws vals = ((List.zip ws vals).map fun p => p.1 * p.2).sum := by
  refine ⟨?_, weighted_eq_sum ws vals⟩
  rw [List.length_zip, h]; simp

/-- … and each summand is `ws[i] * vals[i]` -/
theorem weighted_component (ws vals : List ℝ) (h : ws.length = vals.length) (i : Nat)
    (hi : i < ((List.zip ws vals).map fun p => p.1 * p.2).length) (h1 : i < ws.length)
    (h2 : i < vals.length) :
    ((List.zip ws vals).map fun p => p.1 * p.2)[i] = ws[i] * vals[i] := by
  simp

theorem weighted_nil : weighted ([] : List ℝ) [] = 0 := by
  rw [weighted_eq_sum]; simp

theorem weighted_nil_left (vals : List ℝ) : weighted [] vals = 0 := by
  rw [weighted_eq_sum]; simp

theorem weighted_nil_right (ws : List ℝ) : weighted ws [] = 0 := by
  rw [weighted_eq_sum]; simp

theorem weighted_cons (w v : ℝ) (ws vals : List ℝ) :
    weighted (w :: ws) (v :: vals) = w * v + weighted ws vals := by
  rw [weighted_eq_sum, weighted_eq_sum]; simp

/-! concrete instances -/

example : weighted [(1 : ℝ), 2, 3] [4, 5, 6] = 32 := by
  rw [weighted_eq_sum]; norm_num

example : weightedG [(1 : ℕ), 2, 3] [4, 5, 6] = 32 := by decide

example : ([(1 : ℝ), 2, 3]).length = ([(4 : ℝ), 5, 6]).length := rfl

#print axioms weighted_eq_sum
#print axioms weighted_eq_sum_generic
#print axioms weighted_eq_generic
#print axioms weighted_all_components
#print axioms weighted_component
#print axioms weighted_nil
#print axioms weighted_nil_left
#print axioms weighted_nil_right
#print axioms weighted_cons

end Opy
