import OpyVerif.Proofs.Lemmas.RealLemmas
/-!
C16 — the weighted-sum multi-objective wrapper computes `Σ wᵢ · fᵢ(x)` over all components.
`weighted` is the formula of `Model/Num.lean` (a left fold with accumulator `0`), instantiated at `ℝ`;
`weightedG` is the same loop over an arbitrary semiring.
-/
set_option linter.unusedVariables false
namespace Opy

/-- the accumulation loop is the mathematical weighted sum -/
theorem weighted_eq_sum (ws vals : List ℝ) :
    weighted ws vals = ((List.zip ws vals).map fun p => p.1 * p.2).sum := by
  rw [weighted_eq_weightedG, weightedG_eq_sum]

/-- the same identity for the same loop over any semiring (commutativity is not needed) -/
theorem weighted_eq_sum_generic {R : Type} [Semiring R] (ws vals : List R) :
    weightedG ws vals = ((List.zip ws vals).map fun p => p.1 * p.2).sum :=
  weightedG_eq_sum ws vals

/-- over `ℝ` the Model formula is the generic loop -/
theorem weighted_eq_generic (ws vals : List ℝ) : weighted ws vals = weightedG ws vals :=
  weighted_eq_weightedG ws vals

/-- with as many weights as components the sum ranges over all `ws.length` of them -/
theorem weighted_all_components (ws vals : List ℝ) (h : ws.length = vals.length) :
    (List.zip ws vals).length = ws.length ∧
      weighted ws vals = ((List.zip ws vals).map fun p => p.1 * p.2).sum := by
  refine ⟨?_, weighted_eq_sum ws vals⟩
  rw [List.length_zip, h]; simp

/-- … and each summand is `ws[i] * vals[i]` -/
theorem weighted_component (ws vals : List ℝ) (h : ws.length = vals.length) (i : Nat)
    (hi : i < ((List.zip ws vals).map fun p => p.1 * p.2).length) (h1 : i < ws.length)
    (h2 : i < vals.length) :
    ((List.zip ws vals).map fun p => p.1 * p.2)[i] = ws[i] * vals[i] := by
  simp

theorem weighted_nil : weighted ([] : List ℝ) [] = 0 := by
  rw [weighted_eq_sum]; simp

theorem weighted_nil_left (vals : List ℝ) : weighted [] vals = 0 := by
  rw [weighted_eq_sum]; simp

theorem weighted_nil_right (ws : List ℝ) : weighted ws [] = 0 := by
  rw [weighted_eq_sum]; simp

theorem weighted_cons (w v : ℝ) (ws vals : List ℝ) :
    weighted (w :: ws) (v :: vals) = w * v + weighted ws vals := by
  rw [weighted_eq_sum, weighted_eq_sum]; simp

/-! concrete instances -/

/-! ### algebra of the weighted function (what "can be optimised wherever a plain Function can" rests on) -/

/-- one component with weight one is that component -/
theorem weighted_single_one (v : ℝ) : weighted [(1 : ℝ)] [v] = v := by
  rw [weighted_eq_sum]; simp

/-- one component with weight `w` -/
theorem weighted_single (w v : ℝ) : weighted [w] [v] = w * v := by
  rw [weighted_eq_sum]; simp

/-- scaling every weight scales the value -/
theorem weighted_smul (c : ℝ) (ws vals : List ℝ) :
    weighted (ws.map (c * ·)) vals = c * weighted ws vals := by
  rw [weighted_eq_sum, weighted_eq_sum]
  induction ws generalizing vals with
  | nil => simp
  | cons w ws ih =>
    cases vals with
    | nil => simp
    | cons v vals =>
      simp only [List.map_cons, List.zip_cons_cons, List.sum_cons]
      rw [ih vals]; ring

/-- all weights zero: the value is zero whatever the components return -/
theorem weighted_zero_weights (n : ℕ) (vals : List ℝ) : weighted (List.replicate n (0 : ℝ)) vals = 0 := by
  rw [weighted_eq_sum]
  induction n generalizing vals with
  | zero => simp
  | succ n ih =>
    cases vals with
    | nil => simp
    | cons v vals =>
      simp only [List.replicate_succ, List.zip_cons_cons, List.map_cons, List.sum_cons]
      rw [ih vals]; ring

/-- non-negative weights and component values bounded below by `m`: the value is at least `m · Σ w`
    (so a weighted function of benchmarks with minimum 0 never goes below 0) -/
theorem weighted_lower_bound (m : ℝ) (ws vals : List ℝ) (h : ws.length = vals.length)
    (hw : ∀ w ∈ ws, 0 ≤ w) (hv : ∀ v ∈ vals, m ≤ v) : m * ws.sum ≤ weighted ws vals := by
  rw [weighted_eq_sum]
  induction ws generalizing vals with
  | nil => simp
  | cons w ws ih =>
    cases vals with
    | nil => simp at h
    | cons v vals =>
      simp only [List.zip_cons_cons, List.map_cons, List.sum_cons]
      have h1 := ih vals (by simpa using h) (fun x hx => hw x (List.mem_cons_of_mem _ hx))
        (fun x hx => hv x (List.mem_cons_of_mem _ hx))
      have h2 : w * m ≤ w * v := mul_le_mul_of_nonneg_left (hv v (by simp)) (hw w (by simp))
      nlinarith

/-- non-negative weights: the value is monotone in every component value -/
theorem weighted_mono (ws vals vals' : List ℝ) (h : vals.length = vals'.length)
    (hw : ∀ w ∈ ws, 0 ≤ w) (hv : ∀ i (h1 : i < vals.length) (h2 : i < vals'.length), vals[i] ≤ vals'[i]) :
    weighted ws vals ≤ weighted ws vals' := by
  rw [weighted_eq_sum, weighted_eq_sum]
  induction ws generalizing vals vals' with
  | nil => simp
  | cons w ws ih =>
    cases vals with
    | nil => cases vals' with
      | nil => simp
      | cons _ _ => simp at h
    | cons v vals =>
      cases vals' with
      | nil => simp at h
      | cons v' vals' =>
        simp only [List.zip_cons_cons, List.map_cons, List.sum_cons]
        have h0 : v ≤ v' := hv 0 (by simp) (by simp)
        have h1 := ih vals vals' (by simpa using h) (fun x hx => hw x (List.mem_cons_of_mem _ hx))
          (fun i a b => by
            have := hv (i + 1) (by simpa using a) (by simpa using b)
            simpa only [List.getElem_cons_succ] using this)
        have h2 : w * v ≤ w * v' := mul_le_mul_of_nonneg_left h0 (hw w (by simp))
        linarith

example : (∀ w ∈ [(0.5 : ℝ), 2], 0 ≤ w) ∧ (∀ v ∈ [(3 : ℝ), 1], 1 ≤ v) := by
  constructor <;> intro x hx <;> simp at hx <;> rcases hx with rfl | rfl <;> norm_num
example : weighted [(1 : ℝ), 2, 3] [4, 5, 6] = 32 := by
  rw [weighted_eq_sum]; norm_num

example : weightedG [(1 : ℕ), 2, 3] [4, 5, 6] = 32 := by decide

example : ([(1 : ℝ), 2, 3]).length = ([(4 : ℝ), 5, 6]).length := rfl

#print axioms weighted_eq_sum
#print axioms weighted_eq_sum_generic
#print axioms weighted_eq_generic
#print axioms weighted_all_components
#print axioms weighted_component
#print axioms weighted_nil
#print axioms weighted_nil_left
#print axioms weighted_nil_right
#print axioms weighted_cons
#print axioms weighted_single_one
#print axioms weighted_single
#print axioms weighted_smul
#print axioms weighted_zero_weights
#print axioms weighted_lower_bound
#print axioms weighted_mono

end Opy
