import OpyVerif.Model.OpExpr
/-!
`Model/TreeEval`'s operator tables are the semantics of `expectedOps`, entry by entry; the
generated file proves that the table read from the current source *is* `expectedOps`.
-/
namespace Opy

theorem binOp_is_expected {α : Type} [Elem α] (e0 : α) :
    ∀ code, code < 4 → ∃ e, (expectedOps[code]?).map (·.2) = some e ∧
      binOp e0 code = some (fun x y => e.eval e0 x y) := by
  intro code h
  match code, h with
  | 0, _ => exact ⟨_, rfl, rfl⟩
  | 1, _ => exact ⟨_, rfl, rfl⟩
  | 2, _ => exact ⟨_, rfl, rfl⟩
  | 3, _ => exact ⟨_, rfl, rfl⟩

theorem unOp_is_expected {α : Type} [Elem α] (e0 : α) :
    ∀ code, 4 ≤ code → code < 10 → ∃ e, (expectedOps[code]?).map (·.2) = some e ∧
      unOp e0 code = some (fun x => e.eval e0 x x) := by
  intro code h1 h2
  match code, h1, h2 with
  | 4, _, _ => exact ⟨_, rfl, rfl⟩
  | 5, _, _ => exact ⟨_, rfl, rfl⟩
  | 6, _, _ => exact ⟨_, rfl, rfl⟩
  | 7, _, _ => exact ⟨_, rfl, rfl⟩
  | 8, _, _ => exact ⟨_, rfl, rfl⟩
  | 9, _, _ => exact ⟨_, rfl, rfl⟩

end Opy
