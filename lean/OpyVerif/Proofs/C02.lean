import OpyVerif.Proofs.Lemmas.MachineInv
/-!
C02 — the reported best is the best point actually evaluated, with its true fitness.

Quantification: every configuration `cfg`, every initial population whose fitnesses are the
sentinel, every event list the abstract machine accepts (i.e. every objective, every random
stream, every update arithmetic, every population size and iteration count whose observable
behaviour follows the rules of `apply`).  The hypothesis `f < FLOAT_MAX` of the property is the
guard `v < cfg.fmax` inside `apply` (an objective that returns `FLOAT_MAX` is rejected there;
that excluded point is known finding K6).
-/
set_option linter.unusedVariables false
namespace Opy

theorem run_append (cfg : Cfg) (a b : List Ev) : ∀ s, run cfg s (a ++ b) =
    (run cfg s a).bind (fun s1 => run cfg s1 b) := by
  induction a with
  | nil => intro s; simp [run]
  | cons e es ih =>
    intro s
    simp only [List.cons_append, run]
    cases apply cfg s e with
    | none => simp
    | some s1 => simpa using ih s1

/-- state in which a `dump` is accepted, and what the dump then records -/
theorem dump_state (cfg : Cfg) (s s' : St) (h : apply cfg s .dump = some s') :
    s.swept = true ∧ s'.best = s.best ∧ s'.evals = s.evals ∧ s'.pop = s.pop ∧
    s'.bestLog = s.bestLog ++ [s.best.fit] := by
  simp only [apply] at h
  split at h
  · rename_i hg
    simp only [Bool.and_eq_true] at hg
    cases h; exact ⟨hg.1, rfl, rfl, rfl, rfl⟩
  · cases h

section
variable (cfg : Cfg) (pop : List Ag) (best : Ag)
variable (hp : ∀ a ∈ pop, a.fit = cfg.fmax) (hb : best.fit = cfg.fmax)
include hp hb

/-- **C02 (minimum).** Whenever an iteration record is written — after any accepted history —
    the best fitness is a lower bound of every value the objective has returned so far. -/
theorem C02_best_is_min (evs : List Ev) (s' : St)
    (h : run cfg (initSt pop best) (evs ++ [.dump]) = some s') :
    ∀ e ∈ s'.evals, s'.best.fit ≤ e.2 := by
  rw [run_append] at h
  cases h1 : run cfg (initSt pop best) evs with
  | none => simp [h1] at h
  | some s1 =>
    simp only [h1, Option.bind_some, run] at h
    cases h2 : apply cfg s1 .dump with
    | none => simp [h2] at h
    | some s2 =>
      simp only [h2] at h; cases h
      have hi := inv_run cfg evs _ s1 (inv_init cfg pop best hp hb) h1
      obtain ⟨hsw, hbest, hev, _, _⟩ := dump_state cfg s1 _ h2
      rw [hbest, hev]
      exact (hi.lower hsw).2

/-- **C02 (attained).** …and the best agent's (position, fitness) is literally one of the
    (argument, value) pairs of the objective-call log: the minimum is attained there. -/
theorem C02_best_evaluated (evs : List Ev) (s' : St)
    (h : run cfg (initSt pop best) (evs ++ [.dump]) = some s') :
    (s'.best.tpos, s'.best.fit) ∈ s'.evals := by
  rw [run_append] at h
  cases h1 : run cfg (initSt pop best) evs with
  | none => simp [h1] at h
  | some s1 =>
    simp only [h1, Option.bind_some, run] at h
    cases h2 : apply cfg s1 .dump with
    | none => simp [h2] at h
    | some s2 =>
      simp only [h2] at h; cases h
      have hi := inv_run cfg evs _ s1 (inv_init cfg pop best hp hb) h1
      obtain ⟨hsw, hbest, hev, _, _⟩ := dump_state cfg s1 _ h2
      rw [hbest, hev]
      rcases hi.best with h3 | ⟨h3, _⟩
      · exact h3
      · exact absurd h3 (hi.lower hsw).1

/-- **C02 (never increases).** The best fitnesses recorded by the successive iteration
    records of any accepted history are non-increasing. -/
theorem C02_best_antitone (evs : List Ev) (s' : St)
    (h : run cfg (initSt pop best) evs = some s') :
    s'.bestLog.Pairwise (fun earlier later => later ≤ earlier) :=
  (inv_run cfg evs _ s' (inv_init cfg pop best hp hb) h).logSorted

/-- the state at return is the state at the last record: same best, same log -/
theorem C02_at_return (evs : List Ev) (s' : St)
    (h : run cfg (initSt pop best) evs = some s') (hsw : s'.swept = true) :
    (∀ e ∈ s'.evals, s'.best.fit ≤ e.2) ∧ (s'.best.tpos, s'.best.fit) ∈ s'.evals := by
  have hi := inv_run cfg evs _ s' (inv_init cfg pop best hp hb) h
  refine ⟨(hi.lower hsw).2, ?_⟩
  rcases hi.best with h3 | ⟨h3, _⟩
  · exact h3
  · exact absurd h3 (hi.lower hsw).1
end

/-- The best's `tpos` is its `pos` throughout (so "truthful" speaks about the reported
    position). -/
theorem best_tpos_apply (cfg : Cfg) (s s' : St) (e : Ev) (h : apply cfg s e = some s')
    (hb : s.best.tpos = s.best.pos) : s'.best.tpos = s'.best.pos := by
  cases e <;> simp only [apply] at h
  all_goals (try (split at h <;> try cases h) <;> try exact hb)
  all_goals (try (split at h <;> try cases h) <;> try exact hb)
  all_goals (try rfl)
  · dsimp only; split
    · rfl
    · exact hb

theorem best_tpos_run (cfg : Cfg) (evs : List Ev) : ∀ s s', run cfg s evs = some s' →
    s.best.tpos = s.best.pos → s'.best.tpos = s'.best.pos := by
  induction evs with
  | nil => intro s s' h hb; simp only [run] at h; cases h; exact hb
  | cons e es ih =>
    intro s s' h hb
    simp only [run] at h
    split at h
    · rename_i s1 h1; exact ih s1 s' h (best_tpos_apply cfg s s1 e h1 hb)
    · cases h

/-! ### the hypothesis `f < FLOAT_MAX` is needed (known finding K6)

With an objective that returns the sentinel itself the strict test of the sweep never fires:
the machine rejects the very first sweep event, and on the real code the best agent stays
the never-evaluated initial one.  Concrete witness (one agent, value = fmax): -/
theorem C02_sentinel_rejected :
    apply { fmax := 7, swarm := false, lbs := [0], ubs := [9] }
      { (initSt [{ pos := [[1]], tpos := [[1]], fit := 7, ref := 1 }]
          { pos := [[0]], tpos := [[0]], fit := 7, ref := 0 }) with cursor := 0 }
      (.sweep 7 false 2) = none := by decide

/-! ### non-vacuity: a concrete accepted history (2 agents, one iteration with a trial) -/
def demoCfg : Cfg := { fmax := 100, swarm := false, lbs := [0], ubs := [9] }
def demoPop : List Ag :=
  [{ pos := [[1]], tpos := [[1]], fit := 100, ref := 1 }, { pos := [[5]], tpos := [[5]], fit := 100, ref := 2 }]
def demoBest : Ag := { pos := [[0]], tpos := [[0]], fit := 100, ref := 0 }
def demoEvs : List Ev :=
  [.hook demoPop, .sweep 10 false 3, .sweep 4 false 4,
   .trial [[2]] 3 [{ pos := [[2]], tpos := [[2]], fit := 3, ref := 1 }, { pos := [[5]], tpos := [[5]], fit := 4, ref := 2 }],
   .clipAll,
   .hook [{ pos := [[2]], tpos := [[2]], fit := 3, ref := 1 }, { pos := [[5]], tpos := [[5]], fit := 4, ref := 2 }],
   .sweep 3 false 5, .sweep 4 false 6, .dump]
example : ((run demoCfg (initSt demoPop demoBest) demoEvs).map (fun s => (s.best.fit, s.bestLog, s.evals.length)))
    = some (3, [3], 5) := by decide

end Opy
