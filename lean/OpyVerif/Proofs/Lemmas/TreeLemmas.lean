import OpyVerif.Model.Tree
/-!
Helper lemmas for C11 (tree traversals, `_properties`, `find_node`).  Core Lean only.
-/
set_option linter.unusedVariables false
namespace Opy
namespace PNode

/-! ### basics -/

theorem isNil_iff (t : PNode) : t.isNil = true ↔ t = nil := by cases t <;> simp [isNil]

theorem isNil_eq_false_iff (t : PNode) : t.isNil = false ↔ t ≠ nil := by cases t <;> simp [isNil]

theorem size_pos {t : PNode} (h : t ≠ nil) : 0 < t.size := by
  cases t with
  | nil => exact absurd rfl h
  | mk => simp [size]; omega

theorem mem_pre_ne_nil : ∀ (t n : PNode), n ∈ t.pre → n ≠ nil := by
  intro t
  induction t with
  | nil => intro n h; simp [pre] at h
  | mk i lb p f l r ihl ihr =>
    intro n h
    simp only [pre, List.mem_cons, List.mem_append] at h
    rcases h with h | h | h
    · subst h; simp
    · exact ihl n h
    · exact ihr n h

theorem pre_length (t : PNode) : t.pre.length = t.size := by
  induction t with
  | nil => rfl
  | mk i lb p f l r ihl ihr => simp [pre, size, ihl, ihr]; omega

theorem self_mem_pre {t : PNode} (h : t ≠ nil) : t ∈ t.pre := by
  cases t with
  | nil => exact absurd rfl h
  | mk => simp [pre]

theorem pre_head (t : PNode) (h : t ≠ nil) : t.pre[0]? = some t := by
  cases t with
  | nil => exact absurd rfl h
  | mk => simp [pre]

/-! ### pre-order -/

def sizeL (ts : List PNode) : Nat := (ts.map size).sum

theorem preLoop_spec : ∀ (fuel : Nat) (stack acc : List PNode),
    (∀ n ∈ stack, n ≠ nil) → sizeL stack ≤ fuel →
    preLoop fuel stack acc = acc ++ stack.flatMap pre := by
  intro fuel
  induction fuel with
  | zero =>
    intro stack acc hnn h
    cases stack with
    | nil => simp [preLoop]
    | cons n s =>
      exfalso
      have := size_pos (hnn n (by simp))
      simp [sizeL] at h; omega
  | succ k ih =>
    intro stack acc hnn h
    cases stack with
    | nil => simp [preLoop]
    | cons n s =>
      cases n with
      | nil => exact absurd rfl (hnn nil (by simp))
      | mk i lb p f l r =>
        have hs : ∀ n ∈ s, n ≠ nil := fun n hn => hnn n (by simp [hn])
        simp only [preLoop, leftOf, rightOf]
        rw [ih]
        · cases l <;> cases r <;> simp [isNil, pre, List.append_assoc]
        · cases l <;> cases r <;> simpa [isNil] using hs
        · cases l <;> cases r <;> simp [isNil, sizeL, size] at h ⊢ <;> omega

theorem preOrder_eq_pre' (t : PNode) (h : t ≠ nil) : t.preOrder = t.pre := by
  unfold preOrder
  rw [preLoop_spec] <;> simp [sizeL, h]

/-! ### post-order -/

theorem id?_mem_ids {t : PNode} {i : Nat} (h : t.id? = some i) : i ∈ t.ids := by
  cases t with
  | nil => simp [id?] at h
  | mk j lb p f l r => simp [id?] at h; simp [ids, h]

/-- Processing subtree `c` with `st` below appends `c.post` and returns to popping `st`,
    provided the node on top of `st` cannot be mistaken for a right child inside `c`. -/
theorem postLoop_sub : ∀ (c : PNode) (fuel : Nat) (st out : List PNode),
    c.ids.Nodup → (∀ x j, st.head? = some x → x.id? = some j → j ∉ c.ids) →
    postLoop (fuel + c.cost) c st out = postLoop fuel nil st (out ++ c.post) := by
  intro c
  induction c with
  | nil => intro fuel st out _ _; simp [cost, post]
  | mk i lb p f l r ihl ihr =>
    intro fuel st out hnd hst
    simp only [ids, List.nodup_cons, List.nodup_append, List.mem_append, not_or] at hnd
    obtain ⟨⟨hil, hir⟩, hl, hr, hlr⟩ := hnd
    by_cases hrn : r = nil
    · subst hrn
      have e : fuel + (mk i lb p f l nil).cost = (fuel + 1 + l.cost) + 1 := by
        simp [cost, isNil]; omega
      rw [e]
      simp only [postLoop, isNil, if_true]
      rw [ihl (fuel + 1) _ _ hl (by
        intro x j hx hj; simp at hx; subst hx; simp [id?] at hj; subst hj; exact hil)]
      cases st with
      | nil => simp [postLoop, post, List.append_assoc]
      | cons top rest => simp [postLoop, rightOf, isNil, post, List.append_assoc]
    · obtain ⟨ri, rlb, rp, rf, rl, rr, hre⟩ : ∃ ri rlb rp rf rl rr, r = mk ri rlb rp rf rl rr := by
        cases r with
        | nil => exact absurd rfl hrn
        | mk ri rlb rp rf rl rr => exact ⟨_, _, _, _, _, _, rfl⟩
      have hrin : r.isNil = false := by rw [hre]; rfl
      have e : fuel + (mk i lb p f l r).cost = (fuel + 1 + r.cost + 1 + l.cost) + 1 := by
        simp [cost, hrin]; omega
      rw [e]
      simp only [postLoop, hrin, Bool.false_eq_true, ↓reduceIte]
      rw [ihl _ _ _ hl (by
        intro x j hx hj; simp at hx; subst hx; simp [id?] at hj; subst hj; exact hil)]
      simp only [postLoop, rightOf, hrin, Bool.not_false, Bool.true_and, beq_self_eq_true,
        ↓reduceIte]
      rw [ihr _ _ _ hr (by
        intro x j hx hj; simp at hx; subst hx; simp [id?] at hj; subst hj; exact hir)]
      cases st with
      | nil => simp [postLoop, post, List.append_assoc]
      | cons top rest =>
        have hne : (top.id? == r.id?) = false := by
          rw [beq_eq_false_iff_ne]
          intro heq
          have hri : r.id? = some ri := by rw [hre]; rfl
          have := hst top ri (by simp) (by rw [heq, hri])
          apply this
          simp only [ids, List.mem_cons, List.mem_append]
          right; right; exact id?_mem_ids hri
        simp [postLoop, rightOf, hrin, hne, post, List.append_assoc]

theorem postOrder_eq_post' (t : PNode) (h : t.ids.Nodup) : t.postOrder = t.post := by
  unfold postOrder
  have := postLoop_sub t 1 [] [] h (by simp)
  rw [Nat.add_comm] at this
  rw [this]; simp [postLoop]

/-! ### each node exactly once -/

theorem pre_ids' (t : PNode) : t.pre.map (fun n => n.id?) = t.ids.map some := by
  induction t with
  | nil => rfl
  | mk i lb p f l r ihl ihr =>
    simp only [pre, ids, List.map_cons, List.map_append, ihl, ihr]; rfl

theorem post_perm_pre' (t : PNode) : List.Perm t.post t.pre := by
  induction t with
  | nil => exact List.Perm.refl _
  | mk i lb p f l r ihl ihr =>
    simp only [post, pre]
    refine List.Perm.trans (List.perm_append_singleton _ _) ?_
    exact List.Perm.cons _ (List.Perm.append ihl ihr)

theorem pre_nodup' (t : PNode) (h : t.ids.Nodup) : t.pre.Nodup := by
  have : (t.pre.map (fun n => n.id?)).Nodup := by
    rw [pre_ids']
    exact List.Pairwise.map some (fun a b hab h => hab (Option.some.inj h)) h
  exact List.Pairwise.of_map (fun n => n.id?) (fun a b hab h => hab (by rw [h])) this

/-! ### `_properties` (BFS) -/

def fleaves (ts : List PNode) : Nat := (ts.map leaves).sum
def fmaxD : List PNode → Nat
  | [] => 0
  | t :: ts => max t.maxD (fmaxD ts)
/-- minimum of `minD` over a non-empty forest (0 on the empty one) -/
def fminD : List PNode → Nat
  | [] => 0
  | [t] => t.minD
  | t :: ts => min t.minD (fminD ts)
def fkids (ts : List PNode) : List PNode := ts.flatMap kids
def nLeafRoots (ts : List PNode) : Nat := (ts.filter childless).length

theorem level_spec (d : Nat) : ∀ (ns : List PNode) (minD lv cnt : Nat) (next : List PNode),
    level d ns (minD, lv, cnt, next) =
      (if minD = 0 ∧ 0 < nLeafRoots ns then d else minD,
       lv + nLeafRoots ns, cnt + ns.length, next ++ fkids ns) := by
  intro ns
  induction ns with
  | nil => intro minD lv cnt next; simp [level, nLeafRoots, fkids]
  | cons n ns ih =>
    intro minD lv cnt next
    simp only [level]
    rw [ih]
    by_cases hl : n.childless = true
    · by_cases hm : minD = 0
      · by_cases hd : d = 0
        · simp [hl, hm, hd, nLeafRoots, fkids]; omega
        · simp [hl, hm, hd, nLeafRoots, fkids]; omega
      · simp [hl, hm, nLeafRoots, fkids]; omega
    · simp [hl, nLeafRoots, fkids]; omega

theorem sizeL_append (a b : List PNode) : sizeL (a ++ b) = sizeL a + sizeL b := by
  simp [sizeL]

theorem fleaves_append (a b : List PNode) : fleaves (a ++ b) = fleaves a + fleaves b := by
  simp [fleaves]

theorem fmaxD_append (a b : List PNode) : fmaxD (a ++ b) = max (fmaxD a) (fmaxD b) := by
  induction a with
  | nil => simp [fmaxD]
  | cons x a ih => simp only [List.cons_append, fmaxD, ih]; omega

theorem fminD_cons (t : PNode) (ts : List PNode) (h : ts ≠ []) :
    fminD (t :: ts) = min t.minD (fminD ts) := by
  cases ts with
  | nil => exact absurd rfl h
  | cons => rfl

theorem fminD_append (a b : List PNode) (ha : a ≠ []) (hb : b ≠ []) :
    fminD (a ++ b) = min (fminD a) (fminD b) := by
  induction a with
  | nil => exact absurd rfl ha
  | cons x a ih =>
    cases a with
    | nil => simp [fminD_cons _ _ hb, fminD]
    | cons y a =>
      have h1 : (y :: a) ++ b ≠ [] := by simp
      have e1 : fminD (x :: (y :: a ++ b)) = min x.minD (fminD (y :: a ++ b)) :=
        fminD_cons _ _ h1
      have e2 : fminD (x :: y :: a) = min x.minD (fminD (y :: a)) := fminD_cons _ _ (by simp)
      have e3 := ih (by simp)
      simp only [List.cons_append] at *
      omega

/-- one BFS level below a single non-`nil` node -/
theorem tree_step (t : PNode) (h : t ≠ nil) :
    (∀ k ∈ t.kids, k ≠ nil) ∧
    (t.kids = [] ↔ t.childless = true) ∧
    t.size = 1 + sizeL t.kids ∧
    t.leaves = (if t.childless then 1 else 0) + fleaves t.kids ∧
    t.maxD = (if t.childless then 0 else 1 + fmaxD t.kids) ∧
    t.minD = (if t.childless then 0 else 1 + fminD t.kids) := by
  cases t with
  | nil => exact absurd rfl h
  | mk i lb p f l r =>
    cases l <;> cases r <;>
      simp [kids, childless, isNil, size, leaves, maxD, minD, sizeL, fleaves, fmaxD, fminD] <;>
      omega

/-- one BFS level below a forest of non-`nil` nodes -/
theorem forest_step : ∀ (ts : List PNode), (∀ t ∈ ts, t ≠ nil) →
    (∀ k ∈ fkids ts, k ≠ nil) ∧
    (fkids ts = [] ↔ nLeafRoots ts = ts.length) ∧
    nLeafRoots ts ≤ ts.length ∧
    sizeL ts = ts.length + sizeL (fkids ts) ∧
    fleaves ts = nLeafRoots ts + fleaves (fkids ts) ∧
    fmaxD ts = (if fkids ts = [] then 0 else 1 + fmaxD (fkids ts)) ∧
    (ts ≠ [] → fminD ts = (if 0 < nLeafRoots ts then 0 else 1 + fminD (fkids ts))) := by
  intro ts
  induction ts with
  | nil => intro _; simp [fkids, nLeafRoots, sizeL, fleaves, fmaxD]
  | cons t ts ih =>
    intro hnn
    obtain ⟨i1, i2, i3, i4, i5, i6, i7⟩ := ih (fun t ht => hnn t (by simp [ht]))
    obtain ⟨s1, s2, s3, s4, s5, s6⟩ := tree_step t (hnn t (by simp))
    have ek : fkids (t :: ts) = t.kids ++ fkids ts := by simp [fkids]
    have es : sizeL (t :: ts) = t.size + sizeL ts := by simp [sizeL]
    have el : fleaves (t :: ts) = t.leaves + fleaves ts := by simp [fleaves]
    have em : fmaxD (t :: ts) = max t.maxD (fmaxD ts) := rfl
    rw [ek, es, el, em, sizeL_append, fleaves_append, fmaxD_append]
    by_cases hc : t.childless = true
    · have hk : t.kids = [] := s2.2 hc
      have en : nLeafRoots (t :: ts) = nLeafRoots ts + 1 := by simp [nLeafRoots, hc]
      simp only [hc, if_true] at s4 s5 s6
      have z1 : sizeL ([] : List PNode) = 0 := rfl
      have z2 : fleaves ([] : List PNode) = 0 := rfl
      have z3 : fmaxD ([] : List PNode) = 0 := rfl
      rw [hk] at s3 s4
      rw [hk, en, List.nil_append, z1, z2, z3]
      refine ⟨i1, ?_, ?_, ?_, ?_, ?_, ?_⟩
      · simp only [List.length_cons]; rw [i2]; omega
      · simp only [List.length_cons]; omega
      · simp only [List.length_cons]; omega
      · omega
      · rw [s5, i6]
        by_cases hf : fkids ts = []
        · simp [hf]
        · simp only [hf, if_false]; omega
      · intro _
        by_cases hts : ts = []
        · subst hts; simp [fminD, s6]
        · rw [fminD_cons _ _ hts, s6]; simp
    · have hcf : t.childless = false := by simpa using hc
      have hk : t.kids ≠ [] := fun h => hc (s2.1 h)
      have en : nLeafRoots (t :: ts) = nLeafRoots ts := by simp [nLeafRoots, hcf]
      simp only [hcf, Bool.false_eq_true, if_false] at s4 s5 s6
      rw [en]
      refine ⟨?_, ?_, ?_, ?_, ?_, ?_, ?_⟩
      · intro k hk'
        rcases List.mem_append.1 hk' with h | h
        · exact s1 k h
        · exact i1 k h
      · simp only [List.append_eq_nil_iff, List.length_cons, hk, false_and, false_iff]; omega
      · simp only [List.length_cons]; omega
      · simp only [List.length_cons]; omega
      · omega
      · have : ¬ (t.kids ++ fkids ts = []) := by simp [hk]
        rw [if_neg this]
        by_cases hf : fkids ts = []
        · rw [if_pos hf] at i6; rw [hf]; simp only [fmaxD] at *; omega
        · rw [if_neg hf] at i6; omega
      · intro _
        by_cases hts : ts = []
        · subst hts; simp [fminD, s6, nLeafRoots, fkids]
        · rw [fminD_cons _ _ hts, i7 hts, s6]
          by_cases hp : 0 < nLeafRoots ts
          · simp [hp]
          · have hf : fkids ts ≠ [] := by
              intro h
              have := i2.1 h
              have : 0 < ts.length := List.length_pos_iff.2 hts
              omega
            simp only [hp, if_false]
            rw [fminD_append _ _ hk hf]; omega

/-- the outer loop from level `d ≥ 1` on -/
theorem bfs_forest : ∀ (fuel : Nat) (ts : List PNode) (mx : Int) (d m lv cnt : Nat),
    ts ≠ [] → (∀ t ∈ ts, t ≠ nil) → 1 ≤ d → mx + 1 = (d : Int) → fmaxD ts + 1 ≤ fuel →
    bfs fuel ts mx m lv cnt =
      ⟨if m = 0 then d + fminD ts else m, ((d + fmaxD ts : Nat) : Int),
       lv + fleaves ts, cnt + sizeL ts⟩ := by
  intro fuel
  induction fuel with
  | zero => intro ts mx d m lv cnt _ _ _ _ h; omega
  | succ k ih =>
    intro ts mx d m lv cnt hne hnn hd hmx hfuel
    obtain ⟨f1, f2, f3, f4, f5, f6, f7⟩ := forest_step ts hnn
    have f7 := f7 hne
    cases ts with
    | nil => exact absurd rfl hne
    | cons t0 ts0 =>
      simp only [bfs]
      rw [hmx, Int.toNat_natCast, level_spec]
      simp only [List.nil_append]
      by_cases hk : fkids (t0 :: ts0) = []
      · have hall := f2.1 hk
        rw [if_pos hk] at f6
        have hpos : 0 < (t0 :: ts0).length := by simp
        rw [hk]
        have : ∀ a b c e, bfs k [] a b c e = ⟨b, a, c, e⟩ := by
          intro a b c e; cases k <;> simp [bfs]
        rw [this]
        have hlr : 0 < nLeafRoots (t0 :: ts0) := by omega
        rw [if_pos hlr] at f7
        have z1 : sizeL ([] : List PNode) = 0 := rfl
        have z2 : fleaves ([] : List PNode) = 0 := rfl
        rw [hk, z1] at f4
        rw [hk, z2] at f5
        simp only [Props.mk.injEq]
        refine ⟨?_, ?_, ?_, ?_⟩
        · by_cases hm : m = 0
          · simp [hm, hlr, f7]
          · simp [hm]
        · rw [f6]; simp
        · omega
        · omega
      · rw [if_neg hk] at f6
        rw [ih (fkids (t0 :: ts0)) ((d : Int)) (d + 1) _ _ _ hk f1 (by omega) (by omega) (by omega)]
        simp only [Props.mk.injEq]
        refine ⟨?_, ?_, ?_, ?_⟩
        · by_cases hm : m = 0
          · by_cases hp : 0 < nLeafRoots (t0 :: ts0)
            · have : d ≠ 0 := by omega
              simp [hm, hp, this, f7]
            · simp [hm, hp, f7]; omega
          · simp [hm]
        · rw [f6]; omega
        · omega
        · omega

theorem properties_eq' (t : PNode) (h : t ≠ nil) :
    t.properties = ⟨t.minD, (t.maxD : Int), t.leaves, t.size⟩ := by
  obtain ⟨s1, s2, s3, s4, s5, s6⟩ := tree_step t h
  unfold properties
  simp only [bfs]
  have e0 : ((-1 : Int) + 1).toNat = 0 := by decide
  rw [e0, level_spec]
  by_cases hc : t.childless = true
  · have hk : t.kids = [] := s2.2 hc
    simp only [hc, if_true, hk] at s3 s4 s5 s6
    have e1 : fkids [t] = [] := by simp [fkids, hk]
    have e2 : nLeafRoots [t] = 1 := by simp [nLeafRoots, hc]
    simp only [e1, e2, List.nil_append, List.length_cons, List.length_nil]
    simp only [bfs, s3, s4, s5, s6, sizeL, fleaves, List.map_nil, List.sum_nil]
    simp
  · have hcf : t.childless = false := by simpa using hc
    have hk : t.kids ≠ [] := fun h => hc (s2.1 h)
    simp only [hcf, Bool.false_eq_true, if_false] at s4 s5 s6
    have e1 : fkids [t] = t.kids := by simp [fkids]
    have e2 : nLeafRoots [t] = 0 := by simp [nLeafRoots, hcf]
    simp only [e1, e2, List.nil_append, List.length_cons, List.length_nil]
    simp only [Nat.lt_irrefl, and_false, if_false]
    rw [bfs_forest (t.maxD + 1) t.kids ((-1 : Int) + 1) 1 0 _ _ hk s1 (by omega) (by decide)
      (by omega)]
    simp only [Props.mk.injEq]
    refine ⟨?_, ?_, ?_, ?_⟩
    · simp [s6]
    · rw [s5]
    · omega
    · omega

/-! ### `find_node` -/

/-- identity of a node (0 for `nil`) -/
def idOf : PNode → Nat
  | nil => 0
  | mk i _ _ _ _ _ => i

/-- Structural parent: search the tree for the node with identity `j`; answer the identity of
    the node it hangs under and whether it is that node's *left* child.  Stored links
    (`par`, `flag`) are not consulted. -/
def parentOf : PNode → Nat → Option (Nat × Bool)
  | nil, _ => none
  | mk i _ _ _ l r, j =>
    if l.id? = some j then some (i, true)
    else if r.id? = some j then some (i, false)
    else match parentOf l j with
      | some x => some x
      | none => parentOf r j

theorem id?_eq_idOf {t : PNode} (h : t ≠ nil) : t.id? = some (idOf t) := by
  cases t with
  | nil => exact absurd rfl h
  | mk => rfl

theorem mem_pre_idOf_mem_ids : ∀ (t n : PNode), n ∈ t.pre → idOf n ∈ t.ids := by
  intro t
  induction t with
  | nil => intro n h; simp [pre] at h
  | mk i lb p f l r ihl ihr =>
    intro n h
    simp only [pre, List.mem_cons, List.mem_append] at h
    simp only [ids, List.mem_cons, List.mem_append]
    rcases h with h | h | h
    · subst h; exact Or.inl rfl
    · exact Or.inr (Or.inl (ihl n h))
    · exact Or.inr (Or.inr (ihr n h))

theorem parentOf_mem : ∀ (t : PNode) (j : Nat) (x : Nat × Bool),
    parentOf t j = some x → j ∈ t.ids.tail ∧ x.1 ∈ t.ids := by
  intro t
  induction t with
  | nil => intro j x h; simp [parentOf] at h
  | mk i lb p f l r ihl ihr =>
    intro j x h
    simp only [ids, List.tail_cons, List.mem_append, List.mem_cons]
    unfold parentOf at h
    split at h
    · rename_i hl
      simp at h; subst h
      exact ⟨Or.inl (id?_mem_ids hl), Or.inl rfl⟩
    · split at h
      · rename_i hr
        simp at h; subst h
        exact ⟨Or.inr (id?_mem_ids hr), Or.inl rfl⟩
      · split at h
        · rename_i y hy
          simp at h; subst h
          have := ihl j _ hy
          exact ⟨Or.inl (List.mem_of_mem_tail this.1), Or.inr (Or.inl this.2)⟩
        · have := ihr j _ h
          exact ⟨Or.inr (List.mem_of_mem_tail this.1), Or.inr (Or.inr this.2)⟩

/-- with distinct identities, the root is nobody's child -/
theorem root_id_not_in_tail {t : PNode} (h : t.ids.Nodup) {j : Nat} (hj : j ∈ t.ids.tail) :
    t.id? ≠ some j := by
  cases t with
  | nil => simp [id?]
  | mk i lb p f l r =>
    simp only [ids, List.tail_cons] at hj
    simp only [ids, List.nodup_cons] at h
    simp only [id?, ne_eq, Option.some.injEq]
    intro e; subst e; exact h.1 hj

theorem parentOf_root_none (t : PNode) (h : t.ids.Nodup) (j : Nat) (hj : t.id? = some j) :
    parentOf t j = none := by
  cases hp : parentOf t j with
  | none => rfl
  | some x => exact absurd hj (root_id_not_in_tail h (parentOf_mem t j x hp).1)

theorem parentOf_left_root {i lb p f l r j} (h : l.id? = some j) :
    parentOf (mk i lb p f l r) j = some (i, true) := by
  simp [parentOf, h]

theorem parentOf_right_root {i lb p f l r j} (h1 : l.id? ≠ some j) (h : r.id? = some j) :
    parentOf (mk i lb p f l r) j = some (i, false) := by
  simp [parentOf, h, h1]

theorem parentOf_left_deep {i lb p f l r j x} (h1 : l.id? ≠ some j) (h2 : r.id? ≠ some j)
    (h : parentOf l j = some x) : parentOf (mk i lb p f l r) j = some x := by
  simp [parentOf, h, h1, h2]

theorem parentOf_right_deep {i lb p f l r j} (h1 : l.id? ≠ some j) (h2 : r.id? ≠ some j)
    (h : parentOf l j = none) : parentOf (mk i lb p f l r) j = parentOf r j := by
  simp [parentOf, h, h1, h2]

/-- the child of `m` on side `s` (`true` = left) -/
def kidOn (m : PNode) (s : Bool) : PNode := if s then m.leftOf else m.rightOf

/-- `parentOf` only answers real edges of the tree … -/
theorem parentOf_sound : ∀ (t : PNode) (j q : Nat) (s : Bool), parentOf t j = some (q, s) →
    ∃ m ∈ t.pre, m.id? = some q ∧ (kidOn m s).id? = some j := by
  intro t
  induction t with
  | nil => intro j q s h; simp [parentOf] at h
  | mk i lb p f l r ihl ihr =>
    intro j q s h
    unfold parentOf at h
    split at h
    · rename_i hl
      simp at h; obtain ⟨rfl, rfl⟩ := h
      exact ⟨mk i lb p f l r, by simp [pre], rfl, by simpa [kidOn, leftOf] using hl⟩
    · split at h
      · rename_i hr
        simp at h; obtain ⟨rfl, rfl⟩ := h
        exact ⟨mk i lb p f l r, by simp [pre], rfl, by simpa [kidOn, rightOf] using hr⟩
      · split at h
        · rename_i y hy
          simp at h; subst h
          obtain ⟨m, hm, h1, h2⟩ := ihl j q s hy
          exact ⟨m, by simp [pre, hm], h1, h2⟩
        · obtain ⟨m, hm, h1, h2⟩ := ihr j q s h
          exact ⟨m, by simp [pre, hm], h1, h2⟩

/-- … and, when identities are distinct, answers every edge. -/
theorem parentOf_complete : ∀ (t : PNode), t.ids.Nodup → ∀ (m : PNode) (j q : Nat) (s : Bool),
    m ∈ t.pre → m.id? = some q → (kidOn m s).id? = some j → parentOf t j = some (q, s) := by
  intro t
  induction t with
  | nil => intro _ m j q s h; simp [pre] at h
  | mk i lb p f l r ihl ihr =>
    intro hnd m j q s hm hq hj
    simp only [ids, List.nodup_cons, List.nodup_append, List.mem_append, not_or] at hnd
    obtain ⟨⟨hil, hir⟩, hl, hr, hlr⟩ := hnd
    simp only [pre, List.mem_cons, List.mem_append] at hm
    rcases hm with hm | hm | hm
    · subst hm
      simp only [id?, Option.some.injEq] at hq
      subst hq
      cases s with
      | true => exact parentOf_left_root (by simpa [kidOn, leftOf] using hj)
      | false =>
        have hrj : r.id? = some j := by simpa [kidOn, rightOf] using hj
        have hlid : l.id? ≠ some j := fun e => hlr _ (id?_mem_ids e) _ (id?_mem_ids hrj) rfl
        exact parentOf_right_root hlid hrj
    · have hp := ihl hl m j q s hm hq hj
      have hjt := (parentOf_mem l _ _ hp).1
      have hlid : l.id? ≠ some j := root_id_not_in_tail hl hjt
      have hrid : r.id? ≠ some j :=
        fun e => hlr _ (List.mem_of_mem_tail hjt) _ (id?_mem_ids e) rfl
      exact parentOf_left_deep hlid hrid hp
    · have hp := ihr hr m j q s hm hq hj
      have hjt := (parentOf_mem r _ _ hp).1
      have hrid : r.id? ≠ some j := root_id_not_in_tail hr hjt
      have hlid : l.id? ≠ some j :=
        fun e => hlr _ (id?_mem_ids e) _ (List.mem_of_mem_tail hjt) rfl
      have hlnone : parentOf l j = none := by
        cases hp' : parentOf l j with
        | none => rfl
        | some x =>
          exact absurd rfl (hlr _ (List.mem_of_mem_tail (parentOf_mem l _ x hp').1) _
            (List.mem_of_mem_tail hjt))
      rw [parentOf_right_deep hlid hrid hlnone]; exact hp

theorem linked_root {p : Option Nat} {f : Bool} {t : PNode} (h : Linked p f t) (hn : t ≠ nil) :
    t.storedPar = p ∧ t.storedFlag = f ∧ KidsLinked t := by
  cases t with
  | nil => exact absurd rfl hn
  | mk i lb par flag l r =>
    simp only [Linked] at h
    exact ⟨h.1, h.2.1, h.2.2.1, h.2.2.2⟩

/-- In a tree whose links are right, every listed node other than the root stores exactly its
    structural parent and side. -/
theorem kidsLinked_parentOf : ∀ (t : PNode), KidsLinked t → t.ids.Nodup → ∀ n ∈ t.pre,
    n = t ∨ ∃ pid, n.storedPar = some pid ∧ parentOf t (idOf n) = some (pid, n.storedFlag) := by
  intro t
  induction t with
  | nil => intro _ _ n h; simp [pre] at h
  | mk i lb p f l r ihl ihr =>
    intro hk hnd n hn
    obtain ⟨hL, hR⟩ := hk
    simp only [ids, List.nodup_cons, List.nodup_append, List.mem_append, not_or] at hnd
    obtain ⟨⟨hil, hir⟩, hl, hr, hlr⟩ := hnd
    simp only [pre, List.mem_cons, List.mem_append] at hn
    rcases hn with hn | hn | hn
    · exact Or.inl hn
    · right
      have hlne : l ≠ nil := by intro e; subst e; simp [pre] at hn
      obtain ⟨lp, lf, lk⟩ := linked_root hL hlne
      have hnl : idOf n ∈ l.ids := mem_pre_idOf_mem_ids l n hn
      have hrid : r.id? ≠ some (idOf n) := fun e => hlr _ hnl _ (id?_mem_ids e) rfl
      rcases ihl lk hl n hn with h | ⟨pid, hp1, hp2⟩
      · subst h
        exact ⟨i, lp, by rw [lf]; exact parentOf_left_root (id?_eq_idOf hlne)⟩
      · have hlid : l.id? ≠ some (idOf n) := root_id_not_in_tail hl (parentOf_mem l _ _ hp2).1
        exact ⟨pid, hp1, parentOf_left_deep hlid hrid hp2⟩
    · right
      have hrne : r ≠ nil := by intro e; subst e; simp [pre] at hn
      obtain ⟨rp, rf, rk⟩ := linked_root hR hrne
      have hnr : idOf n ∈ r.ids := mem_pre_idOf_mem_ids r n hn
      have hlid : l.id? ≠ some (idOf n) := fun e => hlr _ (id?_mem_ids e) _ hnr rfl
      have hlnone : parentOf l (idOf n) = none := by
        cases hp : parentOf l (idOf n) with
        | none => rfl
        | some x =>
          exact absurd rfl (hlr _ (List.mem_of_mem_tail (parentOf_mem l _ x hp).1) _ hnr)
      rcases ihr rk hr n hn with h | ⟨pid, hp1, hp2⟩
      · subst h
        exact ⟨i, rp, by rw [rf]; exact parentOf_right_root hlid (id?_eq_idOf hrne)⟩
      · have hrid : r.id? ≠ some (idOf n) := root_id_not_in_tail hr (parentOf_mem r _ _ hp2).1
        exact ⟨pid, hp1, by rw [parentOf_right_deep hlid hrid hlnone]; exact hp2⟩

theorem find?_of_nodup_map {α β : Type} [BEq β] [LawfulBEq β] (f : α → β) :
    ∀ (l : List α) (a : α), (l.map f).Nodup → a ∈ l →
      l.find? (fun x => f x == f a) = some a := by
  intro l
  induction l with
  | nil => intro a _ h; simp at h
  | cons x xs ih =>
    intro a hnd ha
    simp only [List.map_cons, List.nodup_cons] at hnd
    rcases List.mem_cons.1 ha with h | h
    · subst h; simp
    · have hne : f x ≠ f a := by
        intro e
        exact hnd.1 (by rw [e]; exact List.mem_map_of_mem h)
      have : (f x == f a) = false := by simpa using hne
      rw [List.find?_cons, this]
      exact ih a hnd.2 h

/-- with distinct identities `lookup` finds *the* node with that identity -/
theorem lookup_eq (t : PNode) (h : t.ids.Nodup) (n : PNode) (hn : n ∈ t.pre) (i : Nat)
    (hi : n.id? = some i) : lookup i t = some n := by
  unfold lookup
  rw [← hi]
  apply find?_of_nodup_map (fun n => n.id?) t.pre n _ hn
  rw [pre_ids']
  exact List.Pairwise.map some (fun a b hab h => hab (Option.some.inj h)) h

theorem exists_mem_pre_of_mem_ids (t : PNode) (q : Nat) (h : q ∈ t.ids) :
    ∃ m ∈ t.pre, m.id? = some q := by
  have : some q ∈ t.pre.map (fun n => n.id?) := by
    rw [pre_ids']; exact List.mem_map_of_mem h
  obtain ⟨m, hm, e⟩ := List.mem_map.1 this
  exact ⟨m, hm, e⟩

theorem idOf_of_id? {m : PNode} {q : Nat} (h : m.id? = some q) : idOf m = q := by
  cases m with
  | nil => simp [id?] at h
  | mk => simpa [id?, idOf] using h

theorem findNode_terminal' (ar : Nat → Nat) (t : PNode) (hwf : WF ar t) (p : Nat) (h1 : 1 ≤ p)
    (n : PNode) (hn : t.pre[p]? = some n) (hterm : n.isTermNode = true) :
    ∃ pid side, parentOf t (idOf n) = some (pid, side) ∧ findNode t p = .slot pid side := by
  obtain ⟨hne, hsp, hkl, har, hnd⟩ := hwf
  have hmem : n ∈ t.pre := List.mem_of_getElem? hn
  have hnt : n ≠ t := by
    intro e
    have h0 := pre_head t hne
    have hlt : p < t.pre.length := by
      rcases List.getElem?_eq_some_iff.1 hn with ⟨hlt, _⟩; exact hlt
    have := (List.getElem?_inj hlt (pre_nodup' t hnd) (j := 0)).1 (by rw [hn, h0, e])
    omega
  rcases kidsLinked_parentOf t hkl hnd n hmem with h | ⟨pid, hp1, hp2⟩
  · exact absurd h hnt
  · refine ⟨pid, n.storedFlag, hp2, ?_⟩
    unfold findNode
    rw [preOrder_eq_pre' t hne, hn]
    simp [hterm, hp1]

theorem findNode_function' (ar : Nat → Nat) (t : PNode) (hwf : WF ar t) (p : Nat)
    (n : PNode) (hn : t.pre[p]? = some n) (hfun : n.isTermNode = false)
    (q g : Nat) (s1 s2 : Bool) (hq : parentOf t (idOf n) = some (q, s1))
    (hg : parentOf t q = some (g, s2)) : findNode t p = .slot g s2 := by
  obtain ⟨hne, hsp, hkl, har, hnd⟩ := hwf
  have hmem : n ∈ t.pre := List.mem_of_getElem? hn
  rcases kidsLinked_parentOf t hkl hnd n hmem with h | ⟨pid, hp1, hp2⟩
  · subst h
    rw [parentOf_root_none n hnd _ (id?_eq_idOf hne)] at hq
    exact absurd hq (by simp)
  · rw [hq] at hp2
    have hpq : pid = q := by simp at hp2; exact hp2.1.symm
    subst hpq
    obtain ⟨m, hm, hmid⟩ := exists_mem_pre_of_mem_ids t pid (parentOf_mem t _ _ hq).2
    have hlk := lookup_eq t hnd m hm pid hmid
    have hidm := idOf_of_id? hmid
    rcases kidsLinked_parentOf t hkl hnd m hm with h | ⟨g', hg1, hg2⟩
    · subst h
      rw [parentOf_root_none m hnd _ hmid] at hg
      exact absurd hg (by simp)
    · rw [hidm, hg] at hg2
      simp at hg2
      unfold findNode
      rw [preOrder_eq_pre' t hne, hn]
      simp [hfun, hp1, hlk, hg1, hg2.1, hg2.2]

theorem findNode_function_under_root' (ar : Nat → Nat) (t : PNode) (hwf : WF ar t) (p : Nat)
    (n : PNode) (hn : t.pre[p]? = some n) (hfun : n.isTermNode = false)
    (q : Nat) (s : Bool) (hq : parentOf t (idOf n) = some (q, s)) (hroot : t.id? = some q) :
    findNode t p = .noSlot := by
  obtain ⟨hne, hsp, hkl, har, hnd⟩ := hwf
  have hmem : n ∈ t.pre := List.mem_of_getElem? hn
  rcases kidsLinked_parentOf t hkl hnd n hmem with h | ⟨pid, hp1, hp2⟩
  · subst h
    rw [parentOf_root_none n hnd _ (id?_eq_idOf hne)] at hq
    exact absurd hq (by simp)
  · rw [hq] at hp2
    have hpq : pid = q := by simp at hp2; exact hp2.1.symm
    subst hpq
    have hlk := lookup_eq t hnd t (self_mem_pre hne) pid hroot
    unfold findNode
    rw [preOrder_eq_pre' t hne, hn]
    simp [hfun, hp1, hlk, hsp]

theorem findNode_out_of_range' (t : PNode) (p : Nat) (h : t.size ≤ p) (ht : t ≠ nil) :
    findNode t p = .noSlot := by
  unfold findNode
  rw [preOrder_eq_pre' t ht]
  have : t.pre[p]? = none := by
    apply List.getElem?_eq_none; rw [pre_length]; exact h
  rw [this]

theorem findNode_zero_function_root' (t : PNode) (ht : t ≠ nil) (hsp : t.storedPar = none)
    (hfun : t.isTermNode = false) : findNode t 0 = .error := by
  unfold findNode
  rw [preOrder_eq_pre' t ht, pre_head t ht]
  simp [hfun, hsp]

theorem pre_getElem?_exists (t : PNode) (p : Nat) (h : p < t.size) : ∃ n, t.pre[p]? = some n := by
  rw [← pre_length] at h
  exact ⟨t.pre[p], List.getElem?_eq_getElem h⟩

/-! ### the executable well-formedness check is sound -/

theorem linkedB_sound : ∀ (t : PNode) (p : Option Nat) (f : Bool),
    linkedB p f t = true → Linked p f t := by
  intro t
  induction t with
  | nil => intro p f _; trivial
  | mk i lb par flag l r ihl ihr =>
    intro p f h
    simp only [linkedB, Bool.and_eq_true, beq_iff_eq] at h
    exact ⟨h.1.1.1, h.1.1.2, ihl _ _ h.1.2, ihr _ _ h.2⟩

theorem kidsLinkedB_sound (t : PNode) (h : kidsLinkedB t = true) : KidsLinked t := by
  cases t with
  | nil => trivial
  | mk i lb par flag l r =>
    simp only [kidsLinkedB, Bool.and_eq_true] at h
    exact ⟨linkedB_sound _ _ _ h.1, linkedB_sound _ _ _ h.2⟩

theorem arityB_sound (ar : Nat → Nat) : ∀ (t : PNode), arityB ar t = true → Arity ar t := by
  intro t
  induction t with
  | nil => intro _; trivial
  | mk i lb par flag l r ihl ihr =>
    intro h
    simp only [arityB, Bool.and_eq_true] at h
    refine ⟨?_, ihl h.1.2, ihr h.2⟩
    have h0 := h.1.1
    by_cases h1 : lb.isTerm = true
    · simpa [h1, isNil_iff] using h0
    · by_cases h2 : ar lb.name = 1
      · simpa [h1, h2, isNil_iff, isNil_eq_false_iff] using h0
      · by_cases h3 : ar lb.name = 2
        · simpa [h1, h2, h3, isNil_iff, isNil_eq_false_iff] using h0
        · simp [h1, h2, h3] at h0

theorem nodupB_sound : ∀ (xs : List Nat), nodupB xs = true → xs.Nodup := by
  intro xs
  induction xs with
  | nil => intro _; exact List.nodup_nil
  | cons x xs ih =>
    intro h
    simp only [nodupB, Bool.and_eq_true, Bool.not_eq_true', List.contains_eq_mem,
      decide_eq_false_iff_not] at h
    exact List.nodup_cons.2 ⟨h.1, ih h.2⟩

theorem wfB_sound (ar : Nat → Nat) (t : PNode) (h : wfB ar t = true) : WF ar t := by
  simp only [wfB, Bool.and_eq_true, Bool.not_eq_true', beq_iff_eq] at h
  obtain ⟨⟨⟨⟨h1, h2⟩, h3⟩, h4⟩, h5⟩ := h
  exact ⟨(isNil_eq_false_iff t).1 h1, h2, kidsLinkedB_sound t h3, arityB_sound ar t h4,
    nodupB_sound _ h5⟩

end PNode
end Opy
