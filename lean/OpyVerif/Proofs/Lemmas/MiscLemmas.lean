import OpyVerif.Model.Tree
import OpyVerif.Model.TreeEval
import OpyVerif.Model.TreeOps
import OpyVerif.Model.GPSweep
import OpyVerif.Proofs.C06
import OpyVerif.Proofs.C04
import OpyVerif.Model.Effects
/-!
Helper lemmas for C10 (tree evaluation), C19 (History.get), C12 (GP sweep), C05 (effects).
Core Lean only.
-/
set_option linter.unusedVariables false
namespace Opy

/-! ### C10: arity table of the ten operators, operator tables -/

/-- the arity table of the ten operators by operator code (the generated constants file proves
    the library's `N_ARGS_FUNCTION` equal to it) -/
def ar10 : Nat → Nat := fun c => if c < 4 then 2 else if c < 10 then 1 else 0

theorem ar10_eq_two {c : Nat} : ar10 c = 2 ↔ c < 4 := by
  unfold ar10; split <;> (try split) <;> omega

theorem ar10_eq_one {c : Nat} : ar10 c = 1 ↔ 4 ≤ c ∧ c < 10 := by
  unfold ar10; split <;> (try split) <;> omega

section
variable {α : Type} [Elem α]

omit [Elem α] in
theorem zipW_length (f : α → α → α) : ∀ (x y : List α), x.length = y.length →
    (zipW f x y).length = x.length
  | [], [], _ => rfl
  | [], _ :: _, h => by simp at h
  | _ :: _, [], h => by simp at h
  | a :: x, b :: y, h => by
    simp only [zipW, List.length_cons]
    rw [zipW_length f x y (by simpa using h)]

theorem binOp_some_of_lt (eps : α) : ∀ {c : Nat}, c < 4 → ∃ f, binOp eps c = some f
  | 0, _ => ⟨_, rfl⟩
  | 1, _ => ⟨_, rfl⟩
  | 2, _ => ⟨_, rfl⟩
  | 3, _ => ⟨_, rfl⟩
  | _ + 4, h => absurd h (by omega)

theorem binOp_none_of_ge (eps : α) : ∀ {c : Nat}, 4 ≤ c → binOp eps c = none
  | 0, h => absurd h (by omega)
  | 1, h => absurd h (by omega)
  | 2, h => absurd h (by omega)
  | 3, h => absurd h (by omega)
  | _ + 4, _ => rfl

theorem unOp_some_of_range (eps : α) : ∀ {c : Nat}, 4 ≤ c → c < 10 → ∃ g, unOp eps c = some g
  | 0, h, _ => absurd h (by omega)
  | 1, h, _ => absurd h (by omega)
  | 2, h, _ => absurd h (by omega)
  | 3, h, _ => absurd h (by omega)
  | 4, _, _ => ⟨_, rfl⟩
  | 5, _, _ => ⟨_, rfl⟩
  | 6, _, _ => ⟨_, rfl⟩
  | 7, _, _ => ⟨_, rfl⟩
  | 8, _, _ => ⟨_, rfl⟩
  | 9, _, _ => ⟨_, rfl⟩
  | _ + 10, _, h => absurd h (by omega)

/-- terminal hypothesis restricted to the two children -/
theorem termHyp_left {P : Lbl → Prop} {i lb p f} {l r : PNode}
    (h : ∀ b, some b ∈ (PNode.mk i lb p f l r).pre.map PNode.lbl? → b.isTerm = true → P b) :
    ∀ b, some b ∈ l.pre.map PNode.lbl? → b.isTerm = true → P b := by
  intro b hb
  apply h
  simp only [PNode.pre, List.map_cons, List.map_append, List.mem_cons, List.mem_append]
  exact Or.inr (Or.inl hb)

theorem termHyp_right {P : Lbl → Prop} {i lb p f} {l r : PNode}
    (h : ∀ b, some b ∈ (PNode.mk i lb p f l r).pre.map PNode.lbl? → b.isTerm = true → P b) :
    ∀ b, some b ∈ r.pre.map PNode.lbl? → b.isTerm = true → P b := by
  intro b hb
  apply h
  simp only [PNode.pre, List.map_cons, List.map_append, List.mem_cons, List.mem_append]
  exact Or.inr (Or.inr hb)

/-- evaluation preserves any predicate on arrays that holds of every terminal array and is
    closed under `zipW` and `map`; in particular evaluation succeeds -/
theorem evalTree_pred (eps : α) (env : Nat → Option (List α)) (P : List α → Prop)
    (hz : ∀ f x y, P x → P y → P (zipW f x y)) (hm : ∀ (g : α → α) x, P x → P (x.map g)) :
    ∀ (t : PNode), PNode.Arity ar10 t → t ≠ .nil →
      (∀ b, some b ∈ t.pre.map PNode.lbl? → b.isTerm = true → ∃ a, env b.arr = some a ∧ P a) →
      ∃ r, evalTree eps env t = some r ∧ P r := by
  intro t
  induction t with
  | nil => intro _ h; exact absurd rfl h
  | mk i lb p f l r ihl ihr =>
    intro ha _ hterm
    obtain ⟨h0, hal, har⟩ := ha
    by_cases hT : lb.isTerm = true
    · have := hterm lb (by simp [PNode.pre, PNode.lbl?]) hT
      simpa [evalTree, hT] using this
    · simp only [hT, if_false, Bool.false_eq_true] at h0
      by_cases h1 : ar10 lb.name = 1
      · simp only [h1, if_true] at h0
        obtain ⟨c4, c10⟩ := ar10_eq_one.mp h1
        obtain ⟨x, hx, hPx⟩ := ihl hal h0.1 (termHyp_left hterm)
        obtain ⟨g, hg⟩ := unOp_some_of_range eps c4 c10
        refine ⟨x.map g, ?_, hm g x hPx⟩
        simp [evalTree, hT, binOp_none_of_ge eps c4, hg, hx]
      · simp only [h1, if_false] at h0
        by_cases h2 : ar10 lb.name = 2
        · simp only [h2, if_true] at h0
          obtain ⟨x, hx, hPx⟩ := ihl hal h0.1 (termHyp_left hterm)
          obtain ⟨y, hy, hPy⟩ := ihr har h0.2 (termHyp_right hterm)
          obtain ⟨g, hg⟩ := binOp_some_of_lt eps (ar10_eq_two.mp h2)
          refine ⟨zipW g x y, ?_, hz g x y hPx hPy⟩
          simp [evalTree, hT, hg, hx, hy]
        · simp [h2] at h0

/-- witness tree `SUB(x0, ABS(x1))`: terminal 0 holds array 1, terminal 1 holds array 2 -/
def c10Tree : PNode :=
  .mk 0 ⟨false, 1, 0⟩ none true
    (.mk 1 ⟨true, 0, 1⟩ (some 0) true .nil .nil)
    (.mk 2 ⟨false, 7, 0⟩ (some 0) false (.mk 3 ⟨true, 1, 2⟩ (some 2) true .nil .nil) .nil)

/-- witness environment: array 1 = `[x]`, array 2 = `[y]` -/
def c10Env (x y : α) : Nat → Option (List α) :=
  fun a => if a = 1 then some [x] else if a = 2 then some [y] else none

end
/-! ### C12: the GP evaluation sweep -/

section gp
variable (lbs ubs : List Int) (f : Pos → Int)

/-- the fitness the sweep computes for a tree value: `f` of the clipped copy -/
def gpFit (tv : Pos) : Int := f (clipPos lbs ubs tv)

theorem gpStep_eq (k : Nat) (ags : List (Pos × Int)) (best : GPBest) (tv : Pos) :
    gpStep lbs ubs f (k, ags, best) tv =
      (k + 1, ags ++ [(clipPos lbs ubs tv, gpFit lbs ubs f tv)],
        if gpFit lbs ubs f tv < best.1 then (gpFit lbs ubs f tv, clipPos lbs ubs tv, some k) else best) := rfl

theorem gpFold_agents : ∀ (tvs : List Pos) (k : Nat) (ags : List (Pos × Int)) (best : GPBest),
    (tvs.foldl (gpStep lbs ubs f) (k, ags, best)).2.1 =
      ags ++ tvs.map (fun tv => (clipPos lbs ubs tv, gpFit lbs ubs f tv))
  | [], k, ags, best => by simp
  | tv :: rest, k, ags, best => by
    rw [List.foldl_cons, gpStep_eq, gpFold_agents rest]
    simp

/-- the incumbent after folding over `tvs` from index `k`: either nobody was strictly better
    and it is untouched, or it is individual `k + j`, `j` the first index attaining the
    minimum, which lies strictly below the old incumbent -/
theorem gpFold_best : ∀ (tvs : List Pos) (k : Nat) (ags : List (Pos × Int)) (best : GPBest),
    ((∀ tv ∈ tvs, best.1 ≤ gpFit lbs ubs f tv) ∧
        (tvs.foldl (gpStep lbs ubs f) (k, ags, best)).2.2 = best) ∨
    (∃ j, ∃ h : j < tvs.length,
        (tvs.foldl (gpStep lbs ubs f) (k, ags, best)).2.2 =
          (gpFit lbs ubs f tvs[j], clipPos lbs ubs tvs[j], some (k + j)) ∧
        gpFit lbs ubs f tvs[j] < best.1 ∧
        (∀ m (hm : m < tvs.length), gpFit lbs ubs f tvs[j] ≤ gpFit lbs ubs f tvs[m]) ∧
        (∀ m (hm : m < j), gpFit lbs ubs f tvs[j] < gpFit lbs ubs f (tvs[m]'(by omega))))
  | [], k, ags, best => Or.inl ⟨by simp, rfl⟩
  | tv :: rest, k, ags, best => by
    rw [List.foldl_cons, gpStep_eq]
    by_cases hlt : gpFit lbs ubs f tv < best.1
    · rw [if_pos hlt]
      rcases gpFold_best rest (k + 1) (ags ++ [(clipPos lbs ubs tv, gpFit lbs ubs f tv)])
          (gpFit lbs ubs f tv, clipPos lbs ubs tv, some k) with
        ⟨hall, hres⟩ | ⟨j, hj, hres, hlt', hmin, hfirst⟩
      · right
        refine ⟨0, by simp, ?_, by simpa using hlt, ?_, ?_⟩
        · simpa using hres
        · intro m hm
          cases m with
          | zero => simp
          | succ m =>
            simp only [List.getElem_cons_zero, List.getElem_cons_succ]
            exact hall _ (List.getElem_mem _)
        · intro m hm; omega
      · right
        refine ⟨j + 1, by simp only [List.length_cons]; omega, ?_, ?_, ?_, ?_⟩
        · simp only [List.getElem_cons_succ]
          rw [hres]; simp only [Nat.add_assoc, Nat.add_comm 1 j]
        · simp only [List.getElem_cons_succ]
          exact Int.lt_trans hlt' hlt
        · intro m hm
          simp only [List.getElem_cons_succ]
          cases m with
          | zero => simp only [List.getElem_cons_zero]; exact Int.le_of_lt hlt'
          | succ m => simp only [List.getElem_cons_succ]; exact hmin m (by simpa using hm)
        · intro m hm
          simp only [List.getElem_cons_succ]
          cases m with
          | zero => simp only [List.getElem_cons_zero]; exact hlt'
          | succ m => simp only [List.getElem_cons_succ]; exact hfirst m (by omega)
    · rw [if_neg hlt]
      have hge : best.1 ≤ gpFit lbs ubs f tv := Int.not_lt.mp hlt
      rcases gpFold_best rest (k + 1) (ags ++ [(clipPos lbs ubs tv, gpFit lbs ubs f tv)]) best with
        ⟨hall, hres⟩ | ⟨j, hj, hres, hlt', hmin, hfirst⟩
      · left
        refine ⟨?_, hres⟩
        intro tv' htv'
        rcases List.mem_cons.mp htv' with rfl | h
        · exact hge
        · exact hall _ h
      · right
        refine ⟨j + 1, by simp only [List.length_cons]; omega, ?_, ?_, ?_, ?_⟩
        · simp only [List.getElem_cons_succ]
          rw [hres]; simp only [Nat.add_assoc, Nat.add_comm 1 j]
        · simp only [List.getElem_cons_succ]; exact hlt'
        · intro m hm
          simp only [List.getElem_cons_succ]
          cases m with
          | zero => simp only [List.getElem_cons_zero]; omega
          | succ m => simp only [List.getElem_cons_succ]; exact hmin m (by simpa using hm)
        · intro m hm
          simp only [List.getElem_cons_succ]
          cases m with
          | zero => simp only [List.getElem_cons_zero]; omega
          | succ m => simp only [List.getElem_cons_succ]; exact hfirst m (by omega)

end gp

/-! ### C19: `History.get`, shapes, `hstack`, run-level `dump` -/

theorem commonPrefix_nil_right (a : List Nat) : commonPrefix a [] = [] := by cases a <;> rfl

theorem commonPrefix_self : ∀ a : List Nat, commonPrefix a a = a
  | [] => rfl
  | x :: xs => by simp [commonPrefix, commonPrefix_self xs]

/-- a non-empty list of records of one shape `s` has common shape `s` -/
theorem shapesCommon_const (s : List Nat) : ∀ (xs : List Rec), xs ≠ [] →
    (∀ x ∈ xs, shapeOf x = s) → shapesCommon xs = s
  | [], h, _ => absurd rfl h
  | [x], _, h => by simp [shapesCommon, h x]
  | x :: y :: rest, _, h => by
    rw [shapesCommon, h x (by simp),
      shapesCommon_const s (y :: rest) (by simp) (fun z hz => h z (by simp [hz])), commonPrefix_self]

/-- `(position, fitness)`: ragged below the pair level whatever the position is -/
theorem shapeOf_pair (pos : Rec) (fit : Int) : shapeOf (.list [pos, .num fit]) = [2] := by
  simp [shapeOf, shapesCommon, commonPrefix_nil_right]

/-- a position as `.tolist()` produces it: `v` rows of `d` numbers -/
def mkPosRec (p : List (List Int)) : Rec := .list (p.map fun row => .list (row.map .num))

/-- one `agents` record as `_parse` produces it: `[(position, fit) for v in agents]` -/
def mkAgentsRec (ags : List (List (List Int) × Int)) : Rec :=
  .list (ags.map fun a => .list [mkPosRec a.1, .num a.2])

/-- one `best_agent` record: `(position, fit)` -/
def mkBestRec (a : List (List Int) × Int) : Rec := .list [mkPosRec a.1, .num a.2]

theorem mapM_eq_some_of_map (g : Rec → Option Rec) : ∀ (rs parts : List Rec),
    rs.map g = parts.map some → rs.mapM g = some parts
  | [], [], _ => by simp
  | [], _ :: _, h => by simp at h
  | _ :: _, [], h => by simp at h
  | r :: rs, p :: ps, h => by
    simp only [List.map_cons, List.cons.injEq] at h
    simp [List.mapM_cons, h.1, mapM_eq_some_of_map g rs ps h.2]

theorem mapM_eq_none_of_mem (g : Rec → Option Rec) : ∀ (rs : List Rec),
    (∃ r ∈ rs, g r = none) → rs.mapM g = none
  | [], h => by simp at h
  | r :: rs, h => by
    simp only [List.mapM_cons]
    cases hr : g r with
    | none => simp
    | some a =>
      have : ∃ r ∈ rs, g r = none := by
        obtain ⟨r', hr', hn⟩ := h
        rcases List.mem_cons.mp hr' with rfl | h'
        · rw [hr] at hn; cases hn
        · exact ⟨r', h', hn⟩
      simp [mapM_eq_none_of_mem g rs this]

theorem map_eq_filterMap_of_isSome (g : Rec → Option Rec) : ∀ (rs : List Rec),
    (∀ r ∈ rs, (g r).isSome = true) → rs.map g = (rs.filterMap g).map some ∧ (rs.filterMap g).length = rs.length
  | [], _ => by simp
  | r :: rs, h => by
    obtain ⟨a, ha⟩ := Option.isSome_iff_exists.mp (h r (by simp))
    obtain ⟨h1, h2⟩ := map_eq_filterMap_of_isSome g rs (fun x hx => h x (by simp [hx]))
    simp [ha, ← h1, h2]

theorem flatMap_items_nums : ∀ ns : List Int, (ns.map Rec.num).flatMap Rec.items = ns.map Rec.num
  | [] => rfl
  | n :: ns => by simp [List.flatMap_cons, Rec.items, flatMap_items_nums ns]

theorem length_flatMap_const {β γ : Type} (g : β → List γ) (d : Nat) : ∀ (l : List β),
    (∀ b ∈ l, (g b).length = d) → (l.flatMap g).length = l.length * d
  | [], _ => by simp
  | b :: l, h => by
    simp only [List.flatMap_cons, List.length_append, List.length_cons]
    rw [h b (by simp), length_flatMap_const g d l (fun x hx => h x (by simp [hx])), Nat.succ_mul, Nat.add_comm]

theorem flatMap_congr' {β γ : Type} {g g' : β → List γ} : ∀ {l : List β},
    (∀ b ∈ l, g b = g' b) → l.flatMap g = l.flatMap g'
  | [], _ => rfl
  | b :: l, h => by
    simp only [List.flatMap_cons]
    rw [h b (by simp), flatMap_congr' (l := l) (fun x hx => h x (by simp [hx]))]

/-- witness: two iterations × two agents × `((1 × 2) position, fit)` -/
def c19Recs : List Rec :=
  [mkAgentsRec [([[1, 2]], 10), ([[3, 4]], 20)], mkAgentsRec [([[5, 6]], 30), ([[7, 8]], 40)]]

/-! run-level `dump` -/

/-- the value a `dump(**kwargs)` call passes for key `k` -/
def kvLookup (kvs : List (String × Rec)) (k : String) : Option Rec :=
  (kvs.find? (fun kv => decide (kv.1 = k))).map (·.2)

theorem kvLookup_isSome_of_mem (kvs : List (String × Rec)) (k : String) (h : k ∈ kvs.map (·.1)) :
    ∃ v, kvLookup kvs k = some v := by
  obtain ⟨kv, hkv, rfl⟩ := List.mem_map.mp h
  have : (kvs.find? (fun x => decide (x.1 = kv.1))).isSome = true := by
    rw [List.find?_isSome]; exact ⟨kv, hkv, by simp⟩
  obtain ⟨x, hx⟩ := Option.isSome_iff_exists.mp this
  exact ⟨x.2, by simp [kvLookup, hx]⟩

theorem dump_cons (hk : List String) (h : Hist) (kv : String × Rec) (kvs : List (String × Rec)) :
    dump hk h (kv :: kvs) = dump hk (dump1 hk h kv) kvs := rfl

theorem dump_sbo (hk : List String) : ∀ (kvs : List (String × Rec)) (h : Hist),
    (dump hk h kvs).storeBestOnly = h.storeBestOnly
  | [], _ => rfl
  | kv :: kvs, h => by rw [dump_cons, dump_sbo hk kvs, dump1_sbo]

theorem dump_lookup_notin (hk : List String) : ∀ (kvs : List (String × Rec)) (h : Hist) (k : String),
    k ∉ kvs.map (·.1) → lookupA (dump hk h kvs).attrs k = lookupA h.attrs k
  | [], _, _, _ => rfl
  | (k', v') :: kvs, h, k, hn => by
    simp only [List.map_cons, List.mem_cons, not_or] at hn
    rw [dump_cons, dump_lookup_notin hk kvs _ k hn.2, dump1_frame hk h k' k v' (Ne.symm hn.1)]

/-- a skipped key (HISTORY_KEY other than `best_agent` under `store_best_only`) is never touched -/
theorem dump_lookup_skipped (hk : List String) : ∀ (kvs : List (String × Rec)) (h : Hist) (k : String),
    (hk.contains k && k != "best_agent" && h.storeBestOnly) = true →
    lookupA (dump hk h kvs).attrs k = lookupA h.attrs k
  | [], _, _, _ => rfl
  | (k', v') :: kvs, h, k, hs => by
    rw [dump_cons, dump_lookup_skipped hk kvs _ k (by rw [dump1_sbo]; exact hs)]
    by_cases hkk : k' = k
    · subst hkk; simp only [dump1, hs, if_true]
    · exact dump1_frame hk h k' k v' hkk

/-- a kept key receives exactly the value passed for it (if any), at the end -/
theorem dump_lookup_kept (hk : List String) : ∀ (kvs : List (String × Rec)) (h : Hist) (k : String),
    (kvs.map (·.1)).Nodup →
    (hk.contains k && k != "best_agent" && h.storeBestOnly) = false →
    (lookupA (dump hk h kvs).attrs k).getD [] = (lookupA h.attrs k).getD [] ++ (kvLookup kvs k).toList
  | [], _, _, _, _ => by simp [dump, kvLookup]
  | (k', v') :: kvs, h, k, hnd, hkeep => by
    simp only [List.map_cons, List.nodup_cons] at hnd
    rw [dump_cons]
    by_cases hkk : k' = k
    · subst hkk
      rw [dump_lookup_notin hk kvs _ k' hnd.1, dump1_appends hk h k' v' hkeep]
      simp [kvLookup]
    · rw [dump_lookup_kept hk kvs _ k hnd.2 (by rw [dump1_sbo]; exact hkeep),
        dump1_frame hk h k' k v' hkk]
      simp [kvLookup, hkk]

theorem foldl_dump_sbo (hk : List String) : ∀ (calls : List (List (String × Rec))) (h : Hist),
    (calls.foldl (dump hk) h).storeBestOnly = h.storeBestOnly
  | [], _ => rfl
  | c :: calls, h => by rw [List.foldl_cons, foldl_dump_sbo hk calls, dump_sbo]

theorem foldl_dump_skipped (hk : List String) : ∀ (calls : List (List (String × Rec))) (h : Hist) (k : String),
    (hk.contains k && k != "best_agent" && h.storeBestOnly) = true →
    lookupA (calls.foldl (dump hk) h).attrs k = lookupA h.attrs k
  | [], _, _, _ => rfl
  | c :: calls, h, k, hs => by
    rw [List.foldl_cons, foldl_dump_skipped hk calls _ k (by rw [dump_sbo]; exact hs),
      dump_lookup_skipped hk c h k hs]

theorem foldl_dump_kept (hk : List String) : ∀ (calls : List (List (String × Rec))) (h : Hist) (k : String),
    (∀ c ∈ calls, (c.map (·.1)).Nodup) →
    (hk.contains k && k != "best_agent" && h.storeBestOnly) = false →
    (lookupA (calls.foldl (dump hk) h).attrs k).getD [] =
      (lookupA h.attrs k).getD [] ++ calls.flatMap (fun c => (kvLookup c k).toList)
  | [], _, _, _, _ => by simp
  | c :: calls, h, k, hnd, hkeep => by
    rw [List.foldl_cons,
      foldl_dump_kept hk calls _ k (fun c' hc' => hnd c' (by simp [hc'])) (by rw [dump_sbo]; exact hkeep),
      dump_lookup_kept hk c h k (hnd c (by simp)) hkeep]
    simp [List.flatMap_cons]

/-! ### C05: effect programs -/

section effects
variable {α : Type} (f : List Int → Int)

/-- the final world: only the two read positions move, by the number of reads -/
theorem interp_final : ∀ (p : Prog α) (w : World),
    (interp f p w).2 = { w with pos := w.pos + draws f p w, cpos := w.cpos + ticks f p w } := by
  intro p
  induction p with
  | pure a => intro w; rfl
  | uniform k ih => intro w; simp only [interp, draws, ticks, ih]; simp only [Nat.add_assoc, Nat.add_comm 1]
  | normal k ih => intro w; simp only [interp, draws, ticks, ih]; simp only [Nat.add_assoc, Nat.add_comm 1]
  | choice n k ih => intro w; simp only [interp, draws, ticks, ih]; simp only [Nat.add_assoc, Nat.add_comm 1]
  | clock k ih => intro w; simp only [interp, draws, ticks, ih]; simp only [Nat.add_assoc, Nat.add_comm 1]
  | objective x k ih => intro w; simp only [interp, draws, ticks, ih]
  | hook k ih => intro w; simp only [interp, draws, ticks, ih]

/-- master lemma: the run is determined by the consumed segment of the generator stream and
    the consumed segment of the clock stream (read relative to the current positions) -/
theorem interp_congr : ∀ (p : Prog α) (w1 w2 : World),
    (∀ i, i < draws f p w1 → w1.rng (w1.pos + i) = w2.rng (w2.pos + i)) →
    (∀ i, i < ticks f p w1 → w1.clock (w1.cpos + i) = w2.clock (w2.cpos + i)) →
    (interp f p w1).1 = (interp f p w2).1 ∧ draws f p w2 = draws f p w1 ∧ ticks f p w2 = ticks f p w1 := by
  intro p
  induction p with
  | pure a => intro w1 w2 _ _; exact ⟨rfl, rfl, rfl⟩
  | uniform k ih =>
    intro w1 w2 hr hc
    simp only [draws, ticks] at hr hc
    have h0 : w1.rng w1.pos = w2.rng w2.pos := by simpa using hr 0 (Nat.succ_pos _)
    simp only [interp, draws, ticks, ← h0]
    have := ih (w1.rng w1.pos) { w1 with pos := w1.pos + 1 } { w2 with pos := w2.pos + 1 }
      (fun i hi => by
        have := hr (i + 1) (Nat.succ_lt_succ hi)
        simpa only [Nat.add_assoc, Nat.add_comm 1] using this)
      hc
    exact ⟨this.1, by rw [this.2.1], this.2.2⟩
  | normal k ih =>
    intro w1 w2 hr hc
    simp only [draws, ticks] at hr hc
    have h0 : w1.rng w1.pos = w2.rng w2.pos := by simpa using hr 0 (Nat.succ_pos _)
    simp only [interp, draws, ticks, ← h0]
    have := ih (w1.rng w1.pos) { w1 with pos := w1.pos + 1 } { w2 with pos := w2.pos + 1 }
      (fun i hi => by
        have := hr (i + 1) (Nat.succ_lt_succ hi)
        simpa only [Nat.add_assoc, Nat.add_comm 1] using this)
      hc
    exact ⟨this.1, by rw [this.2.1], this.2.2⟩
  | choice n k ih =>
    intro w1 w2 hr hc
    simp only [draws, ticks] at hr hc
    have h0 : w1.rng w1.pos = w2.rng w2.pos := by simpa using hr 0 (Nat.succ_pos _)
    simp only [interp, draws, ticks, ← h0]
    have := ih (choiceOf n (w1.rng w1.pos)) { w1 with pos := w1.pos + 1 } { w2 with pos := w2.pos + 1 }
      (fun i hi => by
        have := hr (i + 1) (Nat.succ_lt_succ hi)
        simpa only [Nat.add_assoc, Nat.add_comm 1] using this)
      hc
    exact ⟨this.1, by rw [this.2.1], this.2.2⟩
  | clock k ih =>
    intro w1 w2 hr hc
    simp only [draws, ticks] at hr hc
    have h0 : w1.clock w1.cpos = w2.clock w2.cpos := by simpa using hc 0 (Nat.succ_pos _)
    simp only [interp, draws, ticks, ← h0]
    have := ih (w1.clock w1.cpos) { w1 with cpos := w1.cpos + 1 } { w2 with cpos := w2.cpos + 1 }
      hr
      (fun i hi => by
        have := hc (i + 1) (Nat.succ_lt_succ hi)
        simpa only [Nat.add_assoc, Nat.add_comm 1] using this)
    exact ⟨this.1, this.2.1, by rw [this.2.2]⟩
  | objective x k ih =>
    intro w1 w2 hr hc
    simp only [draws, ticks] at hr hc
    simp only [interp, draws, ticks]
    exact ih (f x) w1 w2 hr hc
  | hook k ih =>
    intro w1 w2 hr hc
    simp only [draws, ticks] at hr hc
    simp only [interp, draws, ticks]
    exact ih () w1 w2 hr hc

theorem ticks_noClock : ∀ (p : Prog α) (w : World), p.NoClock → ticks f p w = 0 := by
  intro p
  induction p with
  | pure a => intro w _; rfl
  | uniform k ih => intro w h; simp only [ticks]; exact ih _ _ (h _)
  | normal k ih => intro w h; simp only [ticks]; exact ih _ _ (h _)
  | choice n k ih => intro w h; simp only [ticks]; exact ih _ _ (h _)
  | clock k ih => intro w h; exact absurd h (by simp [Prog.NoClock])
  | objective x k ih => intro w h; simp only [ticks]; exact ih _ _ (h _)
  | hook k ih => intro w h; simp only [ticks]; exact ih _ _ (h _)

end effects

/-- witness: a two-draw program returning both draws -/
def twoDraws : Prog (Int × Int) := .uniform fun a => .normal fun b => .pure (a, b)

/-- witness: a program that reads the clock once between a draw and an objective call -/
def timedEval : Prog (Int × Int) :=
  .uniform fun a => .clock fun t => .objective [a] fun y => .hook fun _ => .pure (y, t)

end Opy
