import OpyVerif.Model.TreeOps
/-!
Helper lemmas for C08 (GROW, deep copy) and C09 (reproduction).

* `relink` / `shift` algebra (identities, size, depth, labels, links, arities);
* `Grown`: the derivation relation of `grow` (one constructor per successful branch of the
  code) and `grow_grown : grow … = some … → Grown …`; every property of a grown tree is an
  induction over `Grown`;
* `drawsOk`: the *range-respecting oracle* predicate used by `grow_total`;
* `argmaxFirst`, `reproStep`, `reproTrace`, `fitTrace` facts.
-/
set_option linter.unusedVariables false
namespace Opy
namespace PNode

/-! ### small structural facts -/

theorem ne_nil_of_mk {i lb p f l r} : mk i lb p f l r ≠ nil := by intro h; cases h

theorem maxD_mk_le (i lb p f) (l r : PNode) : (mk i lb p f l r).maxD ≤ 1 + max l.maxD r.maxD := by
  cases l <;> cases r <;> simp [maxD]

theorem maxD_mk_of_left {i lb p f} {l r : PNode} (h : l ≠ nil) :
    (mk i lb p f l r).maxD = 1 + max l.maxD r.maxD := by
  cases l with
  | nil => exact absurd rfl h
  | mk => cases r <;> simp [maxD]

theorem maxD_mk_of_right {i lb p f} {l r : PNode} (h : r ≠ nil) :
    (mk i lb p f l r).maxD = 1 + max l.maxD r.maxD := by
  cases r with
  | nil => exact absurd rfl h
  | mk => cases l <;> simp [maxD]

/-- every label of the tree satisfies `P` -/
def AllLbl (P : Lbl → Prop) : PNode → Prop
  | nil => True
  | mk _ lb _ _ l r => P lb ∧ AllLbl P l ∧ AllLbl P r

theorem allLbl_pre {P : Lbl → Prop} {t : PNode} (h : AllLbl P t) :
    ∀ n ∈ t.pre, ∃ lb, n.lbl? = some lb ∧ P lb := by
  induction t with
  | nil => intro n hn; simp [pre] at hn
  | mk i lb p f l r ihl ihr =>
    obtain ⟨h0, hl, hr⟩ := h
    intro n hn
    simp only [pre, List.mem_cons, List.mem_append] at hn
    rcases hn with rfl | hn | hn
    · exact ⟨lb, rfl, h0⟩
    · exact ihl hl n hn
    · exact ihr hr n hn

/-! ### relink -/

@[simp] theorem relink_ids (p : Nat) (s : Bool) (t : PNode) : (relink p s t).ids = t.ids := by
  cases t <;> rfl

@[simp] theorem relink_size (p : Nat) (s : Bool) (t : PNode) : (relink p s t).size = t.size := by
  cases t <;> rfl

@[simp] theorem relink_maxD (p : Nat) (s : Bool) (t : PNode) : (relink p s t).maxD = t.maxD := by
  cases t with
  | nil => rfl
  | mk i lb par fl l r => cases l <;> cases r <;> simp [relink, maxD]

theorem relink_eq_nil_g {p : Nat} {s : Bool} {t : PNode} : relink p s t = nil ↔ t = nil := by
  cases t <;> simp [relink]

theorem relink_linked {p : Nat} {s : Bool} {t : PNode} (h : KidsLinked t) :
    Linked (some p) s (relink p s t) := by
  cases t with
  | nil => trivial
  | mk i lb par fl l r => exact ⟨rfl, rfl, h.1, h.2⟩

theorem relink_arity {ar : Nat → Nat} {p : Nat} {s : Bool} {t : PNode} (h : Arity ar t) :
    Arity ar (relink p s t) := by
  cases t with
  | nil => trivial
  | mk i lb par fl l r => exact h

theorem relink_allLbl {P : Lbl → Prop} {p : Nat} {s : Bool} {t : PNode} (h : AllLbl P t) :
    AllLbl P (relink p s t) := by
  cases t with
  | nil => trivial
  | mk i lb par fl l r => exact h

/-! ### the derivation relation of `grow` -/

/-- `Grown cfg k ds nid t ds' nid'`: `grow cfg k ds nid` succeeds with `(t, ds', nid')`;
    one constructor per successful path through the code. -/
inductive Grown (cfg : GrowCfg) : Nat → List Nat → Nat → PNode → List Nat → Nat → Prop
  | leaf0 (d : Nat) (ds : List Nat) (nid : Nat) (h : d < cfg.nTerminals) :
      Grown cfg 0 (d :: ds) nid (mk nid ⟨true, d, d + 1⟩ none true nil nil) ds (nid + 1)
  | leafS (k d : Nat) (ds : List Nat) (nid : Nat) (h1 : ¬ d < cfg.funcs.length)
      (h2 : d < cfg.funcs.length + cfg.nTerminals) :
      Grown cfg (k + 1) (d :: ds) nid
        (mk nid ⟨true, d - cfg.funcs.length, d - cfg.funcs.length + 1⟩ none true nil nil) ds (nid + 1)
  | un (k d : Nat) (ds : List Nat) (nid : Nat) (c : PNode) (ds1 : List Nat) (n1 : Nat)
      (h1 : d < cfg.funcs.length) (h2 : cfg.ar cfg.funcs[d]! = 1)
      (hc : Grown cfg k ds (nid + 1) c ds1 n1) :
      Grown cfg (k + 1) (d :: ds) nid
        (mk nid ⟨false, cfg.funcs[d]!, 0⟩ none true (relink nid true c) nil) ds1 n1
  | bin (k d : Nat) (ds : List Nat) (nid : Nat) (c1 : PNode) (ds1 : List Nat) (n1 : Nat)
      (c2 : PNode) (ds2 : List Nat) (n2 : Nat)
      (h1 : d < cfg.funcs.length) (h2 : cfg.ar cfg.funcs[d]! = 2)
      (hc1 : Grown cfg k ds (nid + 1) c1 ds1 n1) (hc2 : Grown cfg k ds1 n1 c2 ds2 n2) :
      Grown cfg (k + 1) (d :: ds) nid
        (mk nid ⟨false, cfg.funcs[d]!, 0⟩ none true (relink nid true c1) (relink nid false c2)) ds2 n2

theorem grow_grown {cfg : GrowCfg} {k : Nat} {ds : List Nat} {nid : Nat} {t : PNode}
    {ds' : List Nat} {nid' : Nat} (h : grow cfg k ds nid = some (t, ds', nid')) :
    Grown cfg k ds nid t ds' nid' := by
  induction k generalizing ds nid t ds' nid' with
  | zero =>
    cases ds with
    | nil => simp [grow] at h
    | cons d ds =>
      simp only [grow] at h
      split at h
      · next hd =>
        simp only [Option.some.injEq, Prod.mk.injEq] at h
        obtain ⟨rfl, rfl, rfl⟩ := h
        exact .leaf0 d ds nid hd
      · cases h
  | succ k ih =>
    cases ds with
    | nil => simp [grow] at h
    | cons d ds =>
      simp only [grow] at h
      split at h
      · next hd =>
        split at h
        · next har =>
          split at h
          · next c ds1 n1 hc =>
            simp only [Option.some.injEq, Prod.mk.injEq] at h
            obtain ⟨rfl, rfl, rfl⟩ := h
            exact .un k d ds nid c _ _ hd har (ih hc)
          · cases h
        · next har =>
          split at h
          · next har2 =>
            split at h
            · next c1 ds1 n1 hc1 =>
              split at h
              · next c2 ds2 n2 hc2 =>
                simp only [Option.some.injEq, Prod.mk.injEq] at h
                obtain ⟨rfl, rfl, rfl⟩ := h
                exact .bin k d ds nid c1 ds1 n1 c2 _ _ hd har2 (ih hc1) (ih hc2)
              · cases h
            · cases h
          · cases h
      · next hd =>
        split at h
        · next hd2 =>
          simp only [Option.some.injEq, Prod.mk.injEq] at h
          obtain ⟨rfl, rfl, rfl⟩ := h
          exact .leafS k d ds nid hd hd2
        · cases h

theorem grown_grow {cfg : GrowCfg} {k : Nat} {ds : List Nat} {nid : Nat} {t : PNode}
    {ds' : List Nat} {nid' : Nat} (h : Grown cfg k ds nid t ds' nid') :
    grow cfg k ds nid = some (t, ds', nid') := by
  induction h with
  | leaf0 d ds nid h => simp [grow, h]
  | leafS k d ds nid h1 h2 => simp [grow, h1, h2]
  | un k d ds nid c ds1 n1 h1 h2 hc ih =>
    rw [getElem!_pos cfg.funcs d h1] at h2
    simp [grow, h1, h2, ih]
  | bin k d ds nid c1 ds1 n1 c2 ds2 n2 h1 h2 hc1 hc2 ih1 ih2 =>
    rw [getElem!_pos cfg.funcs d h1] at h2
    simp [grow, h1, h2, ih1, ih2]

/-! ### properties of a grown tree (inductions over `Grown`) -/

section grown
variable {cfg : GrowCfg} {k : Nat} {ds : List Nat} {nid : Nat} {t : PNode} {ds' : List Nat} {nid' : Nat}

theorem Grown.ne_nil (h : Grown cfg k ds nid t ds' nid') : t ≠ nil := by
  cases h <;> exact ne_nil_of_mk

theorem Grown.storedPar (h : Grown cfg k ds nid t ds' nid') : t.storedPar = none := by
  cases h <;> rfl

theorem Grown.kidsLinked (h : Grown cfg k ds nid t ds' nid') : KidsLinked t := by
  induction h with
  | leaf0 => exact ⟨trivial, trivial⟩
  | leafS => exact ⟨trivial, trivial⟩
  | un k d ds nid c ds1 n1 h1 h2 hc ih => exact ⟨relink_linked ih, trivial⟩
  | bin k d ds nid c1 ds1 n1 c2 ds2 n2 h1 h2 hc1 hc2 ih1 ih2 =>
    exact ⟨relink_linked ih1, relink_linked ih2⟩

theorem Grown.arity (h : Grown cfg k ds nid t ds' nid') : Arity cfg.ar t := by
  induction h with
  | leaf0 => simp [Arity]
  | leafS => simp [Arity]
  | un k d ds nid c ds1 n1 h1 h2 hc ih =>
    refine ⟨?_, relink_arity ih, trivial⟩
    simp only [h2]; simp [relink_eq_nil_g, hc.ne_nil]
  | bin k d ds nid c1 ds1 n1 c2 ds2 n2 h1 h2 hc1 hc2 ih1 ih2 =>
    refine ⟨?_, relink_arity ih1, relink_arity ih2⟩
    simp only [h2]; simp [relink_eq_nil_g, hc1.ne_nil, hc2.ne_nil]

/-- identities: all in `[nid, nid')`, the counter strictly advances, no identity twice -/
theorem Grown.ids (h : Grown cfg k ds nid t ds' nid') :
    (∀ x ∈ t.ids, nid ≤ x ∧ x < nid') ∧ nid < nid' ∧ t.ids.Nodup := by
  induction h with
  | leaf0 d ds nid h => simp [PNode.ids]
  | leafS k d ds nid h1 h2 => simp [PNode.ids]
  | un k d ds nid c ds1 n1 h1 h2 hc ih =>
    obtain ⟨hr, hlt, hnd⟩ := ih
    refine ⟨?_, by omega, ?_⟩
    · intro x hx
      simp only [PNode.ids, relink_ids, List.append_nil, List.mem_cons] at hx
      rcases hx with rfl | hx
      · omega
      · have := hr x hx; omega
    · simp only [PNode.ids, relink_ids, List.append_nil, List.nodup_cons]
      refine ⟨fun hx => ?_, hnd⟩
      have := hr _ hx; omega
  | bin k d ds nid c1 ds1 n1 c2 ds2 n2 h1 h2 hc1 hc2 ih1 ih2 =>
    obtain ⟨hr1, hlt1, hnd1⟩ := ih1
    obtain ⟨hr2, hlt2, hnd2⟩ := ih2
    refine ⟨?_, by omega, ?_⟩
    · intro x hx
      simp only [PNode.ids, relink_ids, List.mem_cons, List.mem_append] at hx
      rcases hx with rfl | hx | hx
      · omega
      · have := hr1 x hx; omega
      · have := hr2 x hx; omega
    · simp only [PNode.ids, relink_ids, List.nodup_cons, List.mem_append, List.nodup_append]
      refine ⟨fun hx => ?_, hnd1, hnd2, fun a ha b hb hab => ?_⟩
      · rcases hx with hx | hx
        · have := hr1 _ hx; omega
        · have := hr2 _ hx; omega
      · have := hr1 a ha; have := hr2 b hb; omega

theorem Grown.maxD_le (h : Grown cfg k ds nid t ds' nid') : t.maxD ≤ k := by
  induction h with
  | leaf0 => simp [maxD]
  | leafS => simp [maxD]
  | un k d ds nid c ds1 n1 h1 h2 hc ih =>
    have := maxD_mk_le nid ⟨false, cfg.funcs[d]!, 0⟩ none true (relink nid true c) nil
    simp only [relink_maxD, maxD] at this
    omega
  | bin k d ds nid c1 ds1 n1 c2 ds2 n2 h1 h2 hc1 hc2 ih1 ih2 =>
    have := maxD_mk_le nid ⟨false, cfg.funcs[d]!, 0⟩ none true (relink nid true c1) (relink nid false c2)
    simp only [relink_maxD] at this
    omega

/-- the label discipline of GROW -/
def LblOk (cfg : GrowCfg) (lb : Lbl) : Prop :=
  (lb.isTerm = true → lb.name < cfg.nTerminals ∧ lb.arr = lb.name + 1) ∧
  (lb.isTerm = false → lb.name ∈ cfg.funcs ∧ lb.arr = 0)

theorem getElem!_mem_of_lt {l : List Nat} {d : Nat} (h : d < l.length) : l[d]! ∈ l := by
  rw [getElem!_pos l d h]; exact List.getElem_mem h

theorem Grown.lbls (h : Grown cfg k ds nid t ds' nid') : AllLbl (LblOk cfg) t := by
  induction h with
  | leaf0 d ds nid h => exact ⟨⟨fun _ => ⟨h, rfl⟩, fun h => (by cases h)⟩, trivial, trivial⟩
  | leafS k d ds nid h1 h2 =>
    exact ⟨⟨fun _ => ⟨by show d - cfg.funcs.length < _; omega, rfl⟩, fun h => (by cases h)⟩, trivial, trivial⟩
  | un k d ds nid c ds1 n1 h1 h2 hc ih =>
    exact ⟨⟨fun h => (by cases h), fun _ => ⟨getElem!_mem_of_lt h1, rfl⟩⟩, relink_allLbl ih, trivial⟩
  | bin k d ds nid c1 ds1 n1 c2 ds2 n2 h1 h2 hc1 hc2 ih1 ih2 =>
    exact ⟨⟨fun h => (by cases h), fun _ => ⟨getElem!_mem_of_lt h1, rfl⟩⟩, relink_allLbl ih1, relink_allLbl ih2⟩

/-- exactly one draw per node, taken from the front -/
theorem Grown.consumes (h : Grown cfg k ds nid t ds' nid') :
    ∃ used : List Nat, ds = used ++ ds' ∧ used.length = t.size := by
  induction h with
  | leaf0 d ds nid h => exact ⟨[d], rfl, rfl⟩
  | leafS k d ds nid h1 h2 => exact ⟨[d], rfl, rfl⟩
  | un k d ds nid c ds1 n1 h1 h2 hc ih =>
    obtain ⟨u, rfl, hu⟩ := ih
    exact ⟨d :: u, rfl, by simp [size, hu]; omega⟩
  | bin k d ds nid c1 ds1 n1 c2 ds2 n2 h1 h2 hc1 hc2 ih1 ih2 =>
    obtain ⟨u1, rfl, hu1⟩ := ih1
    obtain ⟨u2, rfl, hu2⟩ := ih2
    exact ⟨d :: (u1 ++ u2), by simp, by simp [size, hu1, hu2]; omega⟩

/-- one identity per node: the counter advances by the size -/
theorem Grown.counter (h : Grown cfg k ds nid t ds' nid') : nid' = nid + t.size := by
  induction h with
  | leaf0 => simp [size]
  | leafS => simp [size]
  | un k d ds nid c ds1 n1 h1 h2 hc ih => simp [size, ih]; omega
  | bin k d ds nid c1 ds1 n1 c2 ds2 n2 h1 h2 hc1 hc2 ih1 ih2 => simp [size, ih1, ih2]; omega

/-- a tree grown with budget `k` has fewer than `2^(k+1)` nodes -/
theorem Grown.size_lt (h : Grown cfg k ds nid t ds' nid') : t.size < 2 ^ (k + 1) := by
  induction h with
  | leaf0 => simp [size]
  | leafS k =>
    have := Nat.two_pow_pos k
    simp only [size]; rw [Nat.pow_succ]; omega
  | un k d ds nid c ds1 n1 h1 h2 hc ih =>
    simp only [size, relink_size]; rw [Nat.pow_succ]; omega
  | bin k d ds nid c1 ds1 n1 c2 ds2 n2 h1 h2 hc1 hc2 ih1 ih2 =>
    simp only [size, relink_size]; rw [Nat.pow_succ]; omega

end grown

/-! ### totality of `grow` under a range-respecting oracle -/

/-- `drawsOk cfg pending ds`: the draw list `ds` answers, in order, every request GROW makes
    while growing the subtrees whose level budgets are stacked in `pending` (head first),
    each draw lying in the range the code requests *at that point*: `[0, nTerminals)` at
    budget 0, `[0, |funcs| + nTerminals)` otherwise; and the list does not run out.
    (What follows the last request is unconstrained.) -/
def drawsOk (cfg : GrowCfg) : List Nat → List Nat → Bool
  | [], _ => true
  | _ :: _, [] => false
  | 0 :: st, d :: ds => decide (d < cfg.nTerminals) && drawsOk cfg st ds
  | (k+1) :: st, d :: ds =>
      decide (d < cfg.funcs.length + cfg.nTerminals) &&
      drawsOk cfg
        (if d < cfg.funcs.length then (if cfg.ar cfg.funcs[d]! = 1 then k :: st else k :: k :: st)
         else st) ds

theorem grow_total_aux {cfg : GrowCfg} (hfun : ∀ op ∈ cfg.funcs, cfg.ar op = 1 ∨ cfg.ar op = 2) :
    ∀ (k : Nat) (st ds : List Nat) (nid : Nat), drawsOk cfg (k :: st) ds = true →
      ∃ t ds' nid', grow cfg k ds nid = some (t, ds', nid') ∧ drawsOk cfg st ds' = true := by
  intro k
  induction k with
  | zero =>
    intro st ds nid h
    cases ds with
    | nil => simp [drawsOk] at h
    | cons d ds =>
      simp only [drawsOk, Bool.and_eq_true, decide_eq_true_eq] at h
      exact ⟨_, _, _, grown_grow (.leaf0 d ds nid h.1), h.2⟩
  | succ k ih =>
    intro st ds nid h
    cases ds with
    | nil => simp [drawsOk] at h
    | cons d ds =>
      simp only [drawsOk, Bool.and_eq_true, decide_eq_true_eq] at h
      obtain ⟨hr, h⟩ := h
      by_cases hd : d < cfg.funcs.length
      · rw [if_pos hd] at h
        have hmem := getElem!_mem_of_lt hd
        by_cases har : cfg.ar cfg.funcs[d]! = 1
        · rw [if_pos har] at h
          obtain ⟨c, ds1, n1, hc, hok⟩ := ih st ds (nid + 1) h
          exact ⟨_, _, _, grown_grow (.un k d ds nid c ds1 n1 hd har (grow_grown hc)), hok⟩
        · rw [if_neg har] at h
          have har2 : cfg.ar cfg.funcs[d]! = 2 := by
            rcases hfun _ hmem with h1 | h2
            · exact absurd h1 har
            · exact h2
          obtain ⟨c1, ds1, n1, hc1, hok1⟩ := ih (k :: st) ds (nid + 1) h
          obtain ⟨c2, ds2, n2, hc2, hok2⟩ := ih st ds1 n1 hok1
          exact ⟨_, _, _, grown_grow (.bin k d ds nid c1 ds1 n1 c2 ds2 n2 hd har2
            (grow_grown hc1) (grow_grown hc2)), hok2⟩
      · rw [if_neg hd] at h
        exact ⟨_, _, _, grown_grow (.leafS k d ds nid hd hr), h⟩

/-- conversely, a successful run only ever saw range-respecting draws -/
theorem Grown.drawsOk {cfg : GrowCfg} {k : Nat} {ds : List Nat} {nid : Nat} {t : PNode}
    {ds' : List Nat} {nid' : Nat} (h : Grown cfg k ds nid t ds' nid') :
    ∀ st, PNode.drawsOk cfg st ds' = true → PNode.drawsOk cfg (k :: st) ds = true := by
  induction h with
  | leaf0 d ds nid h => intro st hst; simp [PNode.drawsOk, h, hst]
  | leafS k d ds nid h1 h2 => intro st hst; simp [PNode.drawsOk, h1, h2, hst]
  | un k d ds nid c ds1 n1 h1 h2 hc ih =>
    intro st hst
    simp only [PNode.drawsOk, Bool.and_eq_true, decide_eq_true_eq]
    refine ⟨by omega, ?_⟩
    rw [if_pos h1, if_pos h2]; exact ih st hst
  | bin k d ds nid c1 ds1 n1 c2 ds2 n2 h1 h2 hc1 hc2 ih1 ih2 =>
    intro st hst
    simp only [PNode.drawsOk, Bool.and_eq_true, decide_eq_true_eq]
    refine ⟨by omega, ?_⟩
    rw [if_pos h1, if_neg (by omega)]; exact ih1 _ (ih2 st hst)

/-! ### shift (deep copy) -/

theorem shift_ids' (k : Nat) (t : PNode) : (shift k t).ids = t.ids.map (· + k) := by
  induction t with
  | nil => rfl
  | mk i lb p f l r ihl ihr => simp [shift, PNode.ids, ihl, ihr]

theorem shift_eq_nil {k : Nat} {t : PNode} : shift k t = nil ↔ t = nil := by
  cases t <;> simp [shift]

theorem shift_size' (k : Nat) (t : PNode) : (shift k t).size = t.size := by
  induction t with
  | nil => rfl
  | mk i lb p f l r ihl ihr => simp [shift, size, ihl, ihr]

theorem shift_maxD' (k : Nat) (t : PNode) : (shift k t).maxD = t.maxD := by
  induction t with
  | nil => rfl
  | mk i lb p f l r ihl ihr =>
    cases l with
    | nil =>
      cases r with
      | nil => rfl
      | mk =>
        rw [shift, maxD_mk_of_right (by simp [shift]), maxD_mk_of_right (by simp), ihl, ihr]
    | mk =>
      rw [shift, maxD_mk_of_left (by simp [shift]), maxD_mk_of_left (by simp), ihl, ihr]

theorem shift_lbl? (k : Nat) (t : PNode) : (shift k t).lbl? = t.lbl? := by
  cases t <;> rfl

theorem shift_pre' (k : Nat) (t : PNode) : (shift k t).pre = t.pre.map (shift k) := by
  induction t with
  | nil => rfl
  | mk i lb p f l r ihl ihr => simp [shift, pre, ihl, ihr]

theorem shift_linked {k : Nat} {p : Option Nat} {f : Bool} {t : PNode} (h : Linked p f t) :
    Linked (p.map (· + k)) f (shift k t) := by
  induction t generalizing p f with
  | nil => trivial
  | mk i lb par fl l r ihl ihr =>
    obtain ⟨h1, h2, h3, h4⟩ := h
    exact ⟨by rw [h1], h2, ihl h3, ihr h4⟩

theorem shift_kidsLinked {k : Nat} {t : PNode} (h : KidsLinked t) : KidsLinked (shift k t) := by
  cases t with
  | nil => trivial
  | mk i lb par fl l r => exact ⟨shift_linked h.1, shift_linked h.2⟩

theorem shift_arity {ar : Nat → Nat} {k : Nat} {t : PNode} (h : Arity ar t) :
    Arity ar (shift k t) := by
  induction t with
  | nil => trivial
  | mk i lb par fl l r ihl ihr =>
    obtain ⟨h0, hl, hr⟩ := h
    refine ⟨?_, ihl hl, ihr hr⟩
    simpa only [ne_eq, shift_eq_nil] using h0

theorem shift_nodup {k : Nat} {t : PNode} (h : t.ids.Nodup) : (shift k t).ids.Nodup := by
  rw [shift_ids']
  exact List.Pairwise.map _ (fun a b hab => by omega) h

/-! ### argmax, reproduction -/

/-- `w` is the first position holding the maximum of `fit` over the positions outside `done` -/
def FirstMaxOutside (fit : List Int) (done : List Nat) (w : Nat) : Prop :=
  w ∉ done ∧ ∃ hw : w < fit.length,
    (∀ i (hi : i < fit.length), i ∉ done → fit[i] ≤ fit[w]) ∧
    (∀ i (hi : i < w), i ∉ done → fit[i] < fit[w])

theorem argmaxFirst_spec' : ∀ (l : List Int), l ≠ [] →
    ∃ hw : argmaxFirst l < l.length,
      (∀ x ∈ l, x ≤ l[argmaxFirst l]) ∧ (∀ j (hj : j < argmaxFirst l), l[j] < l[argmaxFirst l])
  | [], h => absurd rfl h
  | [x], _ => by simp [argmaxFirst]
  | x :: y :: ys, _ => by
    obtain ⟨hw, hmax, hfirst⟩ := argmaxFirst_spec' (y :: ys) (by simp)
    by_cases hx : x < (y :: ys)[argmaxFirst (y :: ys)]
    · have e : argmaxFirst (x :: y :: ys) = argmaxFirst (y :: ys) + 1 := by
        rw [argmaxFirst]; simp only [List.getElem?_eq_getElem hw, if_pos hx]
      simp only [e]
      refine ⟨by simp only [List.length_cons] at hw ⊢; omega, ?_, ?_⟩
      · intro z hz
        rw [List.getElem_cons_succ]
        rcases List.mem_cons.1 hz with rfl | hz
        · omega
        · exact hmax z hz
      · intro j hj
        rw [List.getElem_cons_succ]
        cases j with
        | zero => simpa using hx
        | succ j => rw [List.getElem_cons_succ]; exact hfirst j (by omega)
    · have e : argmaxFirst (x :: y :: ys) = 0 := by
        rw [argmaxFirst]; simp only [List.getElem?_eq_getElem hw, if_neg hx]
      simp only [e]
      refine ⟨by simp, ?_, by intro j hj; omega⟩
      intro z hz
      rw [List.getElem_cons_zero]
      rcases List.mem_cons.1 hz with rfl | hz
      · omega
      · have := hmax z hz; omega

theorem argmaxFirst_lt {l : List Int} (h : l ≠ []) : argmaxFirst l < l.length :=
  (argmaxFirst_spec' l h).1

section repro
variable {α β : Type} (cpT : α → α) (cpA : β → β)

theorem reproStep_eq_of_lt {trees : List α} {agents : List β} {fit : List Int} {s : Nat}
    (hs : s < trees.length) (hs' : s < agents.length) :
    reproStep cpT cpA (trees, agents, fit) s =
      (trees.set (argmaxFirst fit) (cpT trees[s]), agents.set (argmaxFirst fit) (cpA agents[s]),
        fit.set (argmaxFirst fit) 0) := by
  simp [reproStep, hs, hs']

theorem reproStep_eq_of_not {trees : List α} {agents : List β} {fit : List Int} {s : Nat}
    (hs : ¬ (s < trees.length ∧ s < agents.length)) :
    reproStep cpT cpA (trees, agents, fit) s = (trees, agents, fit) := by
  unfold reproStep
  simp only
  split
  · next t a ht ha =>
    have h1 := (List.getElem?_eq_some_iff.1 ht).1
    have h2 := (List.getElem?_eq_some_iff.1 ha).1
    exact absurd ⟨h1, h2⟩ hs
  · rfl

/-- the positions overwritten by `reproduction`, in order (a round whose selected index is
    out of range overwrites nothing, as in `reproStep`) -/
def reproTrace (st : List α × List β × List Int) : List Nat → List Nat
  | [] => []
  | s :: ss =>
    match st.1[s]?, st.2.1[s]? with
    | some _, some _ => argmaxFirst st.2.2 :: reproTrace (reproStep cpT cpA st s) ss
    | _, _ => reproTrace st ss

/-- the trace as a function of the working fitness list alone -/
def fitTrace : List Int → Nat → List Nat
  | _, 0 => []
  | f, n+1 => argmaxFirst f :: fitTrace (f.set (argmaxFirst f) 0) n

theorem reproTrace_eq_fitTrace : ∀ (sel : List Nat) (trees : List α) (agents : List β)
    (fit : List Int), trees.length = agents.length → (∀ s ∈ sel, s < trees.length) →
    reproTrace cpT cpA (trees, agents, fit) sel = fitTrace fit sel.length
  | [], _, _, _, _, _ => rfl
  | s :: ss, trees, agents, fit, hta, hsel => by
    have hs : s < trees.length := hsel s (by simp)
    have hs' : s < agents.length := hta ▸ hs
    rw [reproTrace]
    simp only [List.getElem?_eq_getElem hs, List.getElem?_eq_getElem hs', List.length_cons, fitTrace]
    rw [reproStep_eq_of_lt cpT cpA hs hs']
    rw [reproTrace_eq_fitTrace ss _ _ _ (by simp [hta]) (by
      intro s' hs'; simp only [List.length_set]; exact hsel s' (by simp [hs']))]

end repro

theorem fitTrace_length (f : List Int) (n : Nat) : (fitTrace f n).length = n := by
  induction n generalizing f with
  | zero => rfl
  | succ n ih => simp [fitTrace, ih]

theorem exists_pos_of_countP {f : List Int} (h : 0 < f.countP (fun x => decide (0 < x))) :
    ∃ x ∈ f, 0 < x := by
  obtain ⟨x, hx, hp⟩ := List.countP_pos_iff.1 h
  exact ⟨x, hx, by simpa using hp⟩

theorem countP_pos_of_all_pos {f : List Int} (h : ∀ x ∈ f, 0 < x) :
    f.countP (fun x => decide (0 < x)) = f.length := by
  rw [List.countP_eq_length]; intro x hx; simpa using h x hx

theorem firstMaxOutside_set {f : List Int} {w v : Nat} {done : List Nat}
    (h : FirstMaxOutside (f.set w 0) done v) (hvw : v ≠ w) : FirstMaxOutside f (w :: done) v := by
  obtain ⟨hvnot, hv, hvmax, hvfirst⟩ := h
  have hv' : v < f.length := by simpa using hv
  refine ⟨?_, hv', ?_, ?_⟩
  · simp only [List.mem_cons, not_or]; exact ⟨hvw, hvnot⟩
  · intro i hi hnot
    simp only [List.mem_cons, not_or] at hnot
    have := hvmax i (by simpa using hi) hnot.2
    rw [List.getElem_set_ne (Ne.symm hnot.1), List.getElem_set_ne (Ne.symm hvw)] at this
    exact this
  · intro i hi hnot
    simp only [List.mem_cons, not_or] at hnot
    have := hvfirst i hi hnot.2
    rw [List.getElem_set_ne (Ne.symm hnot.1), List.getElem_set_ne (Ne.symm hvw)] at this
    exact this

/-- the heart of C09: as long as at least `n` entries are positive (and none negative), `n`
    rounds of "zero the first arg-max" hit `n` distinct positions, each the first maximum of
    the original list over the positions not yet hit, and each originally positive. -/
theorem fitTrace_spec : ∀ (n : Nat) (f : List Int), (∀ x ∈ f, 0 ≤ x) →
    n ≤ f.countP (fun x => decide (0 < x)) →
    (fitTrace f n).Nodup ∧ ∀ j (hj : j < (fitTrace f n).length),
      FirstMaxOutside f ((fitTrace f n).take j) (fitTrace f n)[j] ∧
      ∃ hw : (fitTrace f n)[j] < f.length, 0 < f[(fitTrace f n)[j]]
  | 0, f, _, _ => ⟨List.nodup_nil, fun j hj => absurd hj (by simp [fitTrace])⟩
  | n+1, f, h0, hn => by
    obtain ⟨x, hxf, hxpos⟩ := exists_pos_of_countP (f := f) (by omega)
    have hne : f ≠ [] := by intro h; subst h; cases hxf
    obtain ⟨hw, hmax, hfirst⟩ := argmaxFirst_spec' f hne
    have hpos : 0 < f[argmaxFirst f] := by have := hmax x hxf; omega
    have h0' : ∀ y ∈ f.set (argmaxFirst f) 0, 0 ≤ y := by
      intro y hy
      rcases List.mem_or_eq_of_mem_set hy with hy | rfl
      · exact h0 y hy
      · omega
    have hn' : n ≤ (f.set (argmaxFirst f) 0).countP (fun x => decide (0 < x)) := by
      rw [List.countP_set hw]; simp [hpos]; omega
    obtain ⟨hnd, hP⟩ := fitTrace_spec n (f.set (argmaxFirst f) 0) h0' hn'
    have hneq : ∀ j (hj : j < (fitTrace (f.set (argmaxFirst f) 0) n).length),
        (fitTrace (f.set (argmaxFirst f) 0) n)[j] ≠ argmaxFirst f := by
      intro j hj heq
      obtain ⟨_, hv, hvpos⟩ := hP j hj
      simp only [heq, List.getElem_set_self] at hvpos
      omega
    refine ⟨?_, ?_⟩
    · show (argmaxFirst f :: fitTrace (f.set (argmaxFirst f) 0) n).Nodup
      refine List.nodup_cons.2 ⟨fun hmem => ?_, hnd⟩
      obtain ⟨j, hj, hjw⟩ := List.getElem_of_mem hmem
      exact hneq j hj hjw
    · intro j hj
      cases j with
      | zero =>
        show FirstMaxOutside f [] (argmaxFirst f) ∧ ∃ hw : argmaxFirst f < f.length, 0 < f[argmaxFirst f]
        exact ⟨⟨by simp, hw, fun i hi _ => hmax _ (List.getElem_mem hi), fun i hi _ => hfirst i hi⟩,
          hw, hpos⟩
      | succ j =>
        have hj' : j < (fitTrace (f.set (argmaxFirst f) 0) n).length := by
          simp only [fitTrace, List.length_cons] at hj; omega
        obtain ⟨hF, hv, hvpos⟩ := hP j hj'
        have hvw := hneq j hj'
        rw [List.getElem_set_ne (Ne.symm hvw)] at hvpos
        show FirstMaxOutside f (argmaxFirst f :: (fitTrace (f.set (argmaxFirst f) 0) n).take j)
            (fitTrace (f.set (argmaxFirst f) 0) n)[j] ∧
          ∃ hw : (fitTrace (f.set (argmaxFirst f) 0) n)[j] < f.length,
            0 < f[(fitTrace (f.set (argmaxFirst f) 0) n)[j]]
        exact ⟨firstMaxOutside_set hF hvw, by simpa using hv, hvpos⟩

/-- zeroing a list of positions, read pointwise -/
theorem foldl_set_zero_getElem? : ∀ (tr : List Nat) (f : List Int) (i : Nat),
    (tr.foldl (fun g w => g.set w 0) f)[i]? = if i ∈ tr then (f[i]?).map (fun _ => 0) else f[i]?
  | [], f, i => by simp
  | w :: tr, f, i => by
    rw [List.foldl_cons, foldl_set_zero_getElem? tr (f.set w 0) i, List.getElem?_set]
    by_cases hwi : w = i
    · subst hwi
      by_cases hl : w < f.length
      · by_cases hm : w ∈ tr <;> simp [hm, hl]
      · by_cases hm : w ∈ tr <;> simp [hm, hl]
    · have hiw : ¬ i = w := fun h => hwi h.symm
      by_cases hm : i ∈ tr <;> simp [hm, hwi, hiw]

/-- the working fitness after the loop is the original one with the traced positions zeroed -/
theorem reproduction_fit_foldl {α β : Type} (cpT : α → α) (cpA : β → β) :
    ∀ (sel : List Nat) (st : List α × List β × List Int),
      (sel.foldl (reproStep cpT cpA) st).2.2 =
        (reproTrace cpT cpA st sel).foldl (fun g w => g.set w 0) st.2.2
  | [], st => rfl
  | s :: ss, (trees, agents, fit) => by
    rw [List.foldl_cons, reproduction_fit_foldl cpT cpA ss]
    by_cases hs : s < trees.length ∧ s < agents.length
    · rw [reproTrace]
      simp only [List.getElem?_eq_getElem hs.1, List.getElem?_eq_getElem hs.2, List.foldl_cons]
      rw [reproStep_eq_of_lt cpT cpA hs.1 hs.2]
    · rw [reproStep_eq_of_not cpT cpA hs, reproTrace]
      split
      · next t a ht ha =>
        exact absurd ⟨(List.getElem?_eq_some_iff.1 ht).1, (List.getElem?_eq_some_iff.1 ha).1⟩ hs
      · rfl

theorem length_eq_of_paired {α β τ : Type} {tag : α → τ} {tag' : β → τ} {trees : List α}
    {agents : List β} (h : ∀ i : Nat, (trees[i]?).map tag = (agents[i]?).map tag') :
    trees.length = agents.length := by
  apply Nat.le_antisymm
  · have h1 := h agents.length
    rw [List.getElem?_eq_none_iff.2 (Nat.le_refl _), Option.map_none, Option.map_eq_none_iff,
      List.getElem?_eq_none_iff] at h1
    exact h1
  · have h1 := (h trees.length).symm
    rw [List.getElem?_eq_none_iff.2 (Nat.le_refl _), Option.map_none, Option.map_eq_none_iff,
      List.getElem?_eq_none_iff] at h1
    exact h1

/-! ### concrete inputs for the `example`s of the property files -/

/-- operator 5 is unary, operator 7 binary; three terminals -/
def exCfg : GrowCfg := ⟨[5, 7], fun op => if op = 5 then 1 else 2, 3⟩

/-- a function set containing a ternary operator (code 9) -/
def exCfgBad : GrowCfg := ⟨[9], fun _ => 3, 1⟩

/-- `7(5(T2), T1)` on identities 0‥3, as GROW builds it -/
def exTree : PNode :=
  mk 0 ⟨false, 7, 0⟩ none true
    (mk 1 ⟨false, 5, 0⟩ (some 0) true (mk 2 ⟨true, 2, 3⟩ (some 1) true nil nil) nil)
    (mk 3 ⟨true, 1, 2⟩ (some 0) false nil nil)

end PNode
end Opy
