import OpyVerif.Model.Tree
import OpyVerif.Model.TreeOps
/-
Helper lemmas about `PNode` trees and the pointer-write operations `relink`, `setChild`,
`childOf`, `lookup`, `findNode`.  Core Lean only.
-/
namespace Opy
namespace PNode

/-! ### `pre`, `ids`, `lookup` -/

theorem pre_mk (i lb p f l r) :
    (mk i lb p f l r).pre = mk i lb p f l r :: (l.pre ++ r.pre) := rfl

theorem mem_pre_mk {n : PNode} {i lb p f l r} :
    n ∈ (mk i lb p f l r).pre ↔ n = mk i lb p f l r ∨ n ∈ l.pre ∨ n ∈ r.pre := by
  simp [pre_mk]

theorem ne_nil_of_mem_pre {n t : PNode} (h : n ∈ t.pre) : n ≠ nil := by
  induction t with
  | nil => simp [pre] at h
  | mk i lb p f l r ihl ihr =>
    rcases mem_pre_mk.1 h with h | h | h
    · subst h; intro e; cases e
    · exact ihl h
    · exact ihr h

theorem self_mem_pre_ops {t : PNode} (h : t ≠ nil) : t ∈ t.pre := by
  cases t with
  | nil => exact absurd rfl h
  | mk i lb p f l r => simp [pre_mk]

/-- the identities are the identities of the pre-order nodes -/
theorem pre_map_id (t : PNode) : t.pre.map id? = t.ids.map some := by
  induction t with
  | nil => rfl
  | mk i lb p f l r ihl ihr => simp [pre_mk, ids, id?, ihl, ihr]

theorem mem_ids_iff {i : Nat} {t : PNode} : i ∈ t.ids ↔ ∃ n ∈ t.pre, n.id? = some i := by
  have h := pre_map_id t
  constructor
  · intro hi
    have : some i ∈ t.pre.map id? := by rw [h]; exact List.mem_map.2 ⟨i, hi, rfl⟩
    obtain ⟨n, hn, e⟩ := List.mem_map.1 this
    exact ⟨n, hn, e⟩
  · rintro ⟨n, hn, e⟩
    have : some i ∈ t.ids.map some := by rw [← h]; exact List.mem_map.2 ⟨n, hn, e⟩
    obtain ⟨j, hj, e'⟩ := List.mem_map.1 this
    cases e'; exact hj

theorem id_mem_ids_of_mem_pre {n t : PNode} {i : Nat} (hn : n ∈ t.pre) (h : n.id? = some i) :
    i ∈ t.ids := mem_ids_iff.2 ⟨n, hn, h⟩

theorem lookup_nil (i : Nat) : lookup i nil = none := rfl

theorem lookup_mk (k i lb p f l r) :
    lookup k (mk i lb p f l r) =
      if i = k then some (mk i lb p f l r) else (lookup k l).or (lookup k r) := by
  unfold lookup
  rw [pre_mk, List.find?_cons, List.find?_append]
  by_cases h : i = k
  · have : ((mk i lb p f l r).id? == some k) = true := by simp [id?, h]
    rw [this]; simp [h]
  · have : ((mk i lb p f l r).id? == some k) = false := by simp [id?, h]
    rw [this]; simp [h]

theorem lookup_eq_none_iff {k : Nat} {t : PNode} : lookup k t = none ↔ k ∉ t.ids := by
  unfold lookup
  rw [List.find?_eq_none, mem_ids_iff]
  constructor
  · rintro h ⟨n, hn, e⟩; exact h n hn (by simp [e])
  · intro h n hn e; exact h ⟨n, hn, by simpa using e⟩

theorem lookup_some {k : Nat} {t n : PNode} (h : lookup k t = some n) :
    n ∈ t.pre ∧ n.id? = some k := by
  unfold lookup at h
  exact ⟨List.mem_of_find?_eq_some h, by simpa using List.find?_some h⟩

theorem lookup_isSome_of_mem {k : Nat} {t : PNode} (h : k ∈ t.ids) :
    ∃ n, lookup k t = some n ∧ n ∈ t.pre ∧ n.id? = some k := by
  cases e : lookup k t with
  | none => exact absurd h (lookup_eq_none_iff.1 e)
  | some n => exact ⟨n, rfl, lookup_some e⟩

/-! ### `Nodup` of a node's identities -/

theorem nodup_mk {i lb p f} {l r : PNode} (h : (mk i lb p f l r).ids.Nodup) :
    i ∉ l.ids ∧ i ∉ r.ids ∧ l.ids.Nodup ∧ r.ids.Nodup ∧ ∀ x ∈ l.ids, x ∉ r.ids := by
  simp only [ids, List.nodup_cons, List.nodup_append, List.mem_append, not_or] at h
  obtain ⟨⟨h1, h2⟩, hl, hr, hd⟩ := h
  exact ⟨h1, h2, hl, hr, fun x hx hx' => hd x hx x hx' rfl⟩

/-! ### structural characterisation of `childOf` -/

theorem childOf_nil (pid side) : childOf pid side nil = nil := rfl

theorem childOf_mk (pid : Nat) (side : Bool) (i lb p f l r) :
    childOf pid side (mk i lb p f l r) =
      if i = pid then (if side then l else r)
      else if pid ∈ l.ids then childOf pid side l else childOf pid side r := by
  unfold childOf
  rw [lookup_mk]
  by_cases h : i = pid
  · simp [h, leftOf, rightOf]
  · simp only [h, if_false]
    by_cases hl : pid ∈ l.ids
    · obtain ⟨n, hn, _⟩ := lookup_isSome_of_mem hl
      simp [hl, hn]
    · simp [hl, lookup_eq_none_iff.2 hl]

theorem childOf_of_not_mem {pid : Nat} {side : Bool} {t : PNode} (h : pid ∉ t.ids) :
    childOf pid side t = nil := by
  unfold childOf; rw [lookup_eq_none_iff.2 h]

/-! ### sub-trees -/

theorem ids_sublist_of_mem_pre {n t : PNode} (h : n ∈ t.pre) : n.ids.Sublist t.ids := by
  induction t with
  | nil => simp [pre] at h
  | mk i lb p f l r ihl ihr =>
    rcases mem_pre_mk.1 h with h | h | h
    · subst h; exact List.Sublist.refl _
    · exact ((ihl h).trans (List.sublist_append_left _ _)).cons _
    · exact ((ihr h).trans (List.sublist_append_right _ _)).cons _

theorem mem_pre_trans {x n t : PNode} (hn : n ∈ t.pre) (hx : x ∈ n.pre) : x ∈ t.pre := by
  induction t with
  | nil => simp [pre] at hn
  | mk i lb p f l r ihl ihr =>
    rcases mem_pre_mk.1 hn with h | h | h
    · subst h; exact hx
    · exact mem_pre_mk.2 (Or.inr (Or.inl (ihl h)))
    · exact mem_pre_mk.2 (Or.inr (Or.inr (ihr h)))

theorem linked_kids {p : Option Nat} {f : Bool} {t : PNode} (h : Linked p f t) : KidsLinked t := by
  cases t with
  | nil => trivial
  | mk i lb par flag l r => exact ⟨h.2.2.1, h.2.2.2⟩

theorem kidsLinked_of_mem_pre {n t : PNode} (hn : n ∈ t.pre) (h : KidsLinked t) : KidsLinked n := by
  induction t with
  | nil => simp [pre] at hn
  | mk i lb p f l r ihl ihr =>
    rcases mem_pre_mk.1 hn with e | e | e
    · subst e; exact h
    · exact ihl e (linked_kids h.1)
    · exact ihr e (linked_kids h.2)

theorem arity_of_mem_pre {ar : Nat → Nat} {n t : PNode} (hn : n ∈ t.pre) (h : Arity ar t) :
    Arity ar n := by
  induction t with
  | nil => simp [pre] at hn
  | mk i lb p f l r ihl ihr =>
    rcases mem_pre_mk.1 hn with e | e | e
    · subst e; exact h
    · exact ihl e h.2.1
    · exact ihr e h.2.2

/-- the child in a slot is `nil` or one of the tree's sub-trees -/
theorem childOf_nil_or_mem (pid : Nat) (side : Bool) (t : PNode) :
    childOf pid side t = nil ∨ childOf pid side t ∈ t.pre := by
  unfold childOf
  cases e : lookup pid t with
  | none => exact Or.inl rfl
  | some n =>
    have hn := (lookup_some e).1
    cases n with
    | nil => cases side <;> exact Or.inl rfl
    | mk i lb p f l r =>
      cases side
      · by_cases hr : r = nil
        · exact Or.inl (by simpa [rightOf] using hr)
        · exact Or.inr (mem_pre_trans hn (mem_pre_mk.2 (Or.inr (Or.inr (self_mem_pre_ops hr)))))
      · by_cases hl : l = nil
        · exact Or.inl (by simpa [leftOf] using hl)
        · exact Or.inr (mem_pre_trans hn (mem_pre_mk.2 (Or.inr (Or.inl (self_mem_pre_ops hl)))))

theorem childOf_ids_sublist (pid : Nat) (side : Bool) (t : PNode) :
    (childOf pid side t).ids.Sublist t.ids := by
  rcases childOf_nil_or_mem pid side t with h | h
  · rw [h]; exact List.nil_sublist _
  · exact ids_sublist_of_mem_pre h

theorem childOf_ids_subset {pid : Nat} {side : Bool} {t : PNode} {x : Nat}
    (h : x ∈ (childOf pid side t).ids) : x ∈ t.ids :=
  (childOf_ids_sublist pid side t).subset h

theorem childOf_nodup {pid : Nat} {side : Bool} {t : PNode} (h : t.ids.Nodup) :
    (childOf pid side t).ids.Nodup :=
  (childOf_ids_sublist pid side t).nodup h

theorem childOf_kidsLinked {pid : Nat} {side : Bool} {t : PNode} (h : KidsLinked t) :
    KidsLinked (childOf pid side t) := by
  rcases childOf_nil_or_mem pid side t with e | e
  · rw [e]; trivial
  · exact kidsLinked_of_mem_pre e h

theorem childOf_arity {ar : Nat → Nat} {pid : Nat} {side : Bool} {t : PNode} (h : Arity ar t) :
    Arity ar (childOf pid side t) := by
  rcases childOf_nil_or_mem pid side t with e | e
  · rw [e]; trivial
  · exact arity_of_mem_pre e h

/-- under `Nodup`, the parent of a slot is not inside the slot's child -/
theorem pid_not_mem_childOf {pid : Nat} {side : Bool} {t : PNode} (h : t.ids.Nodup) :
    pid ∉ (childOf pid side t).ids := by
  induction t with
  | nil => simp [childOf_nil, ids]
  | mk i lb p f l r ihl ihr =>
    obtain ⟨h1, h2, hl, hr, hd⟩ := nodup_mk h
    rw [childOf_mk]
    by_cases hi : i = pid
    · subst hi; cases side <;> simpa using by assumption
    · simp only [hi, if_false]
      by_cases hm : pid ∈ l.ids
      · simp only [hm, if_true]; exact ihl hl
      · simp only [hm, if_false]; exact ihr hr

/-! ### `(identity, label)` pairs: the multiset of nodes a tree is made of -/

/-- `(identity, label)` of every node, in pre-order -/
def nodes : PNode → List (Nat × Lbl)
  | nil => []
  | mk i lb _ _ l r => (i, lb) :: (l.nodes ++ r.nodes)

theorem ids_eq_nodes (t : PNode) : t.ids = t.nodes.map Prod.fst := by
  induction t with
  | nil => rfl
  | mk i lb p f l r ihl ihr => simp [ids, nodes, ihl, ihr]

theorem lbls_eq_nodes (t : PNode) : t.pre.map lbl? = t.nodes.map (fun x => some x.2) := by
  induction t with
  | nil => rfl
  | mk i lb p f l r ihl ihr => simp [pre_mk, nodes, lbl?, ihl, ihr]

/-! ### `relink` -/

theorem ids_relink (pid side) (b : PNode) : (relink pid side b).ids = b.ids := by
  cases b <;> simp [relink, ids]

theorem nodes_relink (pid side) (b : PNode) : (relink pid side b).nodes = b.nodes := by
  cases b <;> simp [relink, nodes]

theorem relink_eq_nil {pid side} {b : PNode} : relink pid side b = nil ↔ b = nil := by
  cases b <;> simp [relink]

theorem arity_relink {ar : Nat → Nat} {pid side} {b : PNode} (h : Arity ar b) :
    Arity ar (relink pid side b) := by
  cases b with
  | nil => trivial
  | mk i lb p f l r => exact h

/-- a root-shaped branch (children linked to it) becomes a linked child after `relink` -/
theorem linked_relink (pid : Nat) (side : Bool) (b : PNode) (h : KidsLinked b) :
    Linked (some pid) side (relink pid side b) := by
  cases b with
  | nil => trivial
  | mk i lb par flag l r => exact ⟨rfl, rfl, h.1, h.2⟩

/-- `relink` touches nothing but the root's stored parent and flag -/
theorem pre_relink (pid side) (b : PNode) :
    (relink pid side b).pre = match b with
      | nil => []
      | mk i lb _ _ l r => mk i lb (some pid) side l r :: (l.pre ++ r.pre) := by
  cases b <;> rfl

/-! ### `setChild` -/

theorem setChild_of_not_mem (pid side b) :
    ∀ t : PNode, pid ∉ t.ids → setChild pid side b t = t := by
  intro t
  induction t with
  | nil => intro _; rfl
  | mk i lb par flag l r ihl ihr =>
    intro h
    simp only [ids, List.mem_cons, List.mem_append, not_or] at h
    have hne : ¬ i = pid := fun e => h.1 e.symm
    simp only [setChild, hne, if_false]
    rw [ihl h.2.1, ihr h.2.2]

theorem setChild_eq_nil {pid side b} {t : PNode} : setChild pid side b t = nil ↔ t = nil := by
  cases t with
  | nil => simp [setChild]
  | mk i lb par flag l r =>
    by_cases hi : i = pid <;> cases side <;> simp [setChild, hi]

theorem storedPar_setChild (pid side b) (t : PNode) :
    (setChild pid side b t).storedPar = t.storedPar := by
  cases t with
  | nil => rfl
  | mk i lb par flag l r =>
    by_cases hi : i = pid <;> cases side <;> simp [setChild, hi, storedPar]

theorem ids_setChild_subset (pid side) (b : PNode) :
    ∀ t : PNode, ∀ x ∈ (setChild pid side b t).ids, x ∈ t.ids ∨ x ∈ b.ids := by
  intro t
  induction t with
  | nil => intro x hx; simp [setChild, ids] at hx
  | mk i lb par flag l r ihl ihr =>
    intro x hx
    by_cases hi : i = pid
    · subst hi
      cases side with
      | false =>
        simp only [setChild, if_true, Bool.false_eq_true, if_false, ids, ids_relink,
          List.mem_cons, List.mem_append] at hx ⊢
        rcases hx with h | h | h
        · exact Or.inl (Or.inl h)
        · exact Or.inl (Or.inr (Or.inl h))
        · exact Or.inr h
      | true =>
        simp only [setChild, if_true, ids, ids_relink, List.mem_cons, List.mem_append] at hx ⊢
        rcases hx with h | h | h
        · exact Or.inl (Or.inl h)
        · exact Or.inr h
        · exact Or.inl (Or.inr (Or.inr h))
    · simp only [setChild, hi, if_false, ids, List.mem_cons, List.mem_append] at hx ⊢
      rcases hx with h | h | h
      · exact Or.inl (Or.inl h)
      · rcases ihl x h with h' | h'
        · exact Or.inl (Or.inr (Or.inl h'))
        · exact Or.inr h'
      · rcases ihr x h with h' | h'
        · exact Or.inl (Or.inr (Or.inr h'))
        · exact Or.inr h'

theorem mem_ids_setChild_self {pid side b} {t : PNode} (h : pid ∈ t.ids) :
    pid ∈ (setChild pid side b t).ids := by
  induction t with
  | nil => simp [ids] at h
  | mk i lb par flag l r ihl ihr =>
    by_cases hi : i = pid
    · subst hi; cases side <;> simp [setChild, ids]
    · simp only [ids, List.mem_cons, List.mem_append] at h
      simp only [setChild, hi, if_false, ids, List.mem_cons, List.mem_append]
      rcases h with h | h | h
      · exact absurd h.symm hi
      · exact Or.inr (Or.inl (ihl h))
      · exact Or.inr (Or.inr (ihr h))

/-- Conservation of nodes by one pointer write, as a counting identity: what is in the new
    tree plus what hung in the slot before = what was in the tree plus the branch. -/
theorem nodes_setChild_count (pid : Nat) (side : Bool) (b : PNode) (a : Nat × Lbl) :
    ∀ t : PNode, t.ids.Nodup → pid ∈ t.ids →
      (setChild pid side b t).nodes.count a + (childOf pid side t).nodes.count a =
        t.nodes.count a + b.nodes.count a := by
  intro t
  induction t with
  | nil => intro _ h; simp [ids] at h
  | mk i lb par flag l r ihl ihr =>
    intro hnd hmem
    obtain ⟨h1, h2, hl, hr, hd⟩ := nodup_mk hnd
    rw [childOf_mk]
    by_cases hi : i = pid
    · subst hi
      cases side
      · simp only [setChild, if_true, Bool.false_eq_true, if_false, nodes, nodes_relink,
          List.count_cons, List.count_append]
        omega
      · simp only [setChild, if_true, nodes, nodes_relink, List.count_cons, List.count_append]
        omega
    · simp only [ids, List.mem_cons, List.mem_append] at hmem
      simp only [hi, if_false, setChild, nodes, List.count_cons, List.count_append]
      rcases hmem with h | h | h
      · exact absurd h.symm hi
      · have hr' : pid ∉ r.ids := hd pid h
        rw [setChild_of_not_mem pid side b r hr']
        simp only [h, if_true]
        have := ihl hl h
        omega
      · have hl' : pid ∉ l.ids := fun hx => hd pid hx h
        rw [setChild_of_not_mem pid side b l hl']
        simp only [hl', if_false]
        have := ihr hr h
        omega

/-- the multiset of `(identity, label)` pairs: the old child's nodes leave, the branch's
    nodes arrive, nothing else changes -/
theorem nodes_setChild_perm {pid : Nat} {side : Bool} {b t : PNode}
    (hnd : t.ids.Nodup) (hmem : pid ∈ t.ids) :
    List.Perm ((setChild pid side b t).nodes ++ (childOf pid side t).nodes) (t.nodes ++ b.nodes) := by
  rw [List.perm_iff_count]
  intro a
  simp only [List.count_append]
  exact nodes_setChild_count pid side b a t hnd hmem

theorem ids_setChild_perm {pid : Nat} {side : Bool} {b t : PNode}
    (hnd : t.ids.Nodup) (hmem : pid ∈ t.ids) :
    List.Perm ((setChild pid side b t).ids ++ (childOf pid side t).ids) (t.ids ++ b.ids) := by
  have h := (nodes_setChild_perm (side := side) (b := b) hnd hmem).map Prod.fst
  simpa only [List.map_append, ← ids_eq_nodes] using h

theorem lbls_setChild_perm {pid : Nat} {side : Bool} {b t : PNode}
    (hnd : t.ids.Nodup) (hmem : pid ∈ t.ids) :
    List.Perm ((setChild pid side b t).pre.map lbl? ++ (childOf pid side t).pre.map lbl?)
      (t.pre.map lbl? ++ b.pre.map lbl?) := by
  have h := (nodes_setChild_perm (side := side) (b := b) hnd hmem).map (fun x => some x.2)
  simpa only [List.map_append, ← lbls_eq_nodes] using h

theorem ids_setChild_count (pid : Nat) (side : Bool) (b : PNode) (a : Nat) {t : PNode}
    (hnd : t.ids.Nodup) (hmem : pid ∈ t.ids) :
    (setChild pid side b t).ids.count a + (childOf pid side t).ids.count a =
      t.ids.count a + b.ids.count a := by
  have h := (ids_setChild_perm (side := side) (b := b) hnd hmem).count_eq a
  simpa only [List.count_append] using h

/-- identities that are neither in the branch nor in the replaced child are unaffected -/
theorem mem_setChild_iff {pid : Nat} {side : Bool} {b t : PNode} {x : Nat}
    (hnd : t.ids.Nodup) (hmem : pid ∈ t.ids) (hb : x ∉ b.ids)
    (hc : x ∉ (childOf pid side t).ids) : x ∈ (setChild pid side b t).ids ↔ x ∈ t.ids := by
  have h := ids_setChild_count pid side b x hnd hmem
  rw [List.count_eq_zero.2 hb, List.count_eq_zero.2 hc] at h
  rw [← List.count_pos_iff, ← List.count_pos_iff]
  omega

/-- replacing one child by a root-shaped branch keeps every link right: the links and flags of
    everything else stay, the branch is linked to its new parent -/
theorem linked_setChild (pid : Nat) (side : Bool) (b : PNode) (hb : KidsLinked b) :
    ∀ (t : PNode) (p : Option Nat) (f : Bool), Linked p f t →
      Linked p f (setChild pid side b t) := by
  intro t
  induction t with
  | nil => intro p f h; simpa [setChild] using h
  | mk i lb par flag l r ihl ihr =>
    intro p f h
    obtain ⟨h1, h2, h3, h4⟩ := h
    by_cases hi : i = pid
    · subst hi
      cases side with
      | true =>
        simp only [setChild, if_true]
        exact ⟨h1, h2, linked_relink _ _ b hb, h4⟩
      | false =>
        simp only [setChild, if_true, Bool.false_eq_true, if_false]
        exact ⟨h1, h2, h3, linked_relink _ _ b hb⟩
    · simp only [setChild, hi, if_false]
      exact ⟨h1, h2, ihl _ _ h3, ihr _ _ h4⟩

theorem kidsLinked_setChild (pid : Nat) (side : Bool) (b : PNode) (hb : KidsLinked b)
    (t : PNode) (h : KidsLinked t) : KidsLinked (setChild pid side b t) := by
  cases t with
  | nil => trivial
  | mk i lb par flag l r =>
    have := linked_setChild pid side b hb (mk i lb par flag l r) par flag ⟨rfl, rfl, h.1, h.2⟩
    exact linked_kids this

/-- replacing an existing child by a non-nil well-aritied branch keeps every arity right -/
theorem arity_setChild {ar : Nat → Nat} {pid : Nat} {side : Bool} {b : PNode}
    (hb : Arity ar b) (hbn : b ≠ nil) :
    ∀ t : PNode, t.ids.Nodup → Arity ar t → childOf pid side t ≠ nil →
      Arity ar (setChild pid side b t) := by
  intro t
  induction t with
  | nil => intro _ h _; exact h
  | mk i lb par flag l r ihl ihr =>
    intro hnd h hc
    obtain ⟨h1, h2, hl, hr, hd⟩ := nodup_mk hnd
    obtain ⟨ha, hal, har⟩ := h
    have hrn : relink pid side b ≠ nil := fun e => hbn (relink_eq_nil.1 e)
    rw [childOf_mk] at hc
    by_cases hi : i = pid
    · subst hi
      cases side
      · simp only [if_true, Bool.false_eq_true, if_false] at hc
        simp only [setChild, if_true, Bool.false_eq_true, if_false]
        refine ⟨?_, hal, arity_relink hb⟩
        simpa [hc, hrn] using ha
      · simp only [if_true] at hc
        simp only [setChild, if_true]
        refine ⟨?_, arity_relink hb, har⟩
        simpa [hc, hrn] using ha
    · simp only [hi, if_false] at hc
      simp only [setChild, hi, if_false]
      by_cases hm : pid ∈ l.ids
      · simp only [hm, if_true] at hc
        rw [setChild_of_not_mem pid side b r (hd pid hm)]
        refine ⟨?_, ihl hl hal hc, har⟩
        simpa [setChild_eq_nil] using ha
      · simp only [hm, if_false] at hc
        rw [setChild_of_not_mem pid side b l hm]
        refine ⟨?_, hal, ihr hr har hc⟩
        simpa [setChild_eq_nil] using ha

/-- Frame property of one pointer write: every node of the result either comes from the
    branch or is a node of the old tree with the same identity, label, stored parent and flag. -/
theorem setChild_frame (pid : Nat) (side : Bool) (b : PNode) :
    ∀ t : PNode, ∀ n ∈ (setChild pid side b t).pre,
      n.id? ∈ b.ids.map some ∨
      ∃ n0 ∈ t.pre, n0.id? = n.id? ∧ n0.lbl? = n.lbl? ∧ n0.storedPar = n.storedPar ∧
        n0.storedFlag = n.storedFlag := by
  have hbr : ∀ n ∈ (relink pid side b).pre, n.id? ∈ b.ids.map some := by
    intro n hn
    have : n.id? ∈ (relink pid side b).pre.map id? := List.mem_map.2 ⟨n, hn, rfl⟩
    rwa [pre_map_id, ids_relink] at this
  intro t
  induction t with
  | nil => intro n hn; simp [setChild, pre] at hn
  | mk i lb par flag l r ihl ihr =>
    intro n hn
    by_cases hi : i = pid
    · subst hi
      cases side
      · simp only [setChild, if_true, Bool.false_eq_true, if_false] at hn
        rcases mem_pre_mk.1 hn with e | e | e
        · subst e
          exact Or.inr ⟨_, mem_pre_mk.2 (Or.inl rfl), rfl, rfl, rfl, rfl⟩
        · exact Or.inr ⟨n, mem_pre_mk.2 (Or.inr (Or.inl e)), rfl, rfl, rfl, rfl⟩
        · exact Or.inl (hbr n e)
      · simp only [setChild, if_true] at hn
        rcases mem_pre_mk.1 hn with e | e | e
        · subst e
          exact Or.inr ⟨_, mem_pre_mk.2 (Or.inl rfl), rfl, rfl, rfl, rfl⟩
        · exact Or.inl (hbr n e)
        · exact Or.inr ⟨n, mem_pre_mk.2 (Or.inr (Or.inr e)), rfl, rfl, rfl, rfl⟩
    · simp only [setChild, hi, if_false] at hn
      rcases mem_pre_mk.1 hn with e | e | e
      · subst e
        exact Or.inr ⟨_, mem_pre_mk.2 (Or.inl rfl), rfl, rfl, rfl, rfl⟩
      · rcases ihl n e with h | ⟨n0, h0, h⟩
        · exact Or.inl h
        · exact Or.inr ⟨n0, mem_pre_mk.2 (Or.inr (Or.inl h0)), h⟩
      · rcases ihr n e with h | ⟨n0, h0, h⟩
        · exact Or.inl h
        · exact Or.inr ⟨n0, mem_pre_mk.2 (Or.inr (Or.inr h0)), h⟩

/-- after the write the slot holds the branch, re-linked -/
theorem childOf_setChild_self {pid : Nat} {side : Bool} {b : PNode} :
    ∀ t : PNode, t.ids.Nodup → pid ∈ t.ids →
      childOf pid side (setChild pid side b t) = relink pid side b := by
  intro t
  induction t with
  | nil => intro _ h; simp [ids] at h
  | mk i lb par flag l r ihl ihr =>
    intro hnd hmem
    obtain ⟨h1, h2, hl, hr, hd⟩ := nodup_mk hnd
    by_cases hi : i = pid
    · subst hi
      cases side
      · simp only [setChild, if_true, Bool.false_eq_true, if_false]
        rw [childOf_mk]; simp
      · simp only [setChild, if_true]
        rw [childOf_mk]; simp
    · simp only [ids, List.mem_cons, List.mem_append] at hmem
      simp only [setChild, hi, if_false]
      rw [childOf_mk]
      simp only [hi, if_false]
      rcases hmem with h | h | h
      · exact absurd h.symm hi
      · simp only [mem_ids_setChild_self h, if_true]
        exact ihl hl h
      · have hl' : pid ∉ l.ids := fun hx => hd pid hx h
        rw [setChild_of_not_mem pid side b l hl']
        simp only [hl', if_false]
        exact ihr hr h

/-! ### the code's `pre_order` loop computes `pre` -/

/-- `if x is not None: stack.append(x)` -/
private def push (x : PNode) (s : List PNode) : List PNode := if x.isNil then s else x :: s

private theorem push_flatMap (x : PNode) (s : List PNode) :
    (push x s).flatMap pre = x.pre ++ s.flatMap pre := by
  cases x <;> simp [push, isNil, pre]

private theorem push_size (x : PNode) (s : List PNode) :
    ((push x s).map size).sum = x.size + (s.map size).sum := by
  cases x <;> simp [push, isNil, size]

private theorem push_ne_nil (x : PNode) (s : List PNode) (h : ∀ n ∈ s, n ≠ nil) :
    ∀ n ∈ push x s, n ≠ nil := by
  cases x with
  | nil => simpa [push, isNil] using h
  | mk i lb p f l r =>
    intro n hn
    simp only [push, isNil, Bool.false_eq_true, if_false, List.mem_cons] at hn
    rcases hn with e | e
    · subst e; intro e; cases e
    · exact h n e

theorem preLoop_spec_ops : ∀ (fuel : Nat) (stack acc : List PNode),
    (∀ n ∈ stack, n ≠ nil) → (stack.map size).sum ≤ fuel →
    preLoop fuel stack acc = acc ++ stack.flatMap pre := by
  intro fuel
  induction fuel with
  | zero =>
    intro stack acc hne h
    cases stack with
    | nil => simp [preLoop]
    | cons n s =>
      exfalso
      cases n with
      | nil => exact hne nil (List.mem_cons_self) rfl
      | mk i lb p f l r => simp only [List.map_cons, List.sum_cons, size] at h; omega
  | succ k ih =>
    intro stack acc hne h
    cases stack with
    | nil => simp [preLoop]
    | cons n s =>
      cases n with
      | nil => exact absurd rfl (hne nil (List.mem_cons_self))
      | mk i lb p f l r =>
        have hs : ∀ n ∈ s, n ≠ nil := fun n hn => hne n (List.mem_cons_of_mem _ hn)
        show preLoop k (push l (push r s)) (acc ++ [mk i lb p f l r]) = _
        rw [ih _ _ (push_ne_nil _ _ (push_ne_nil _ _ hs))]
        · simp [push_flatMap, pre_mk]
        · simp only [push_size]
          simp only [List.map_cons, List.sum_cons, size] at h
          omega

/-- `Node.pre_order` (explicit stack) returns the nodes root, left, right -/
theorem preOrder_eq_pre_ops (t : PNode) : t.preOrder = t.pre := by
  cases t with
  | nil => rfl
  | mk i lb p f l r =>
    unfold preOrder
    rw [preLoop_spec_ops]
    · simp
    · intro n hn
      simp only [List.mem_cons, List.not_mem_nil, or_false] at hn
      subst hn; intro e; cases e
    · simp

/-! ### which slot a node hangs in -/

/-- In a well-linked tree without repeated identities every node other than the root hangs in
    the slot its stored parent / flag name. -/
theorem slot_of_mem_pre : ∀ t : PNode, KidsLinked t → t.ids.Nodup → ∀ n ∈ t.pre,
    n = t ∨ ∃ q, n.storedPar = some q ∧ q ∈ t.ids ∧ childOf q n.storedFlag t = n := by
  intro t
  induction t with
  | nil => intro _ _ n hn; simp [pre] at hn
  | mk i lb par flag l r ihl ihr =>
    intro hk hnd n hn
    obtain ⟨h1, h2, hl, hr, hd⟩ := nodup_mk hnd
    rcases mem_pre_mk.1 hn with e | e | e
    · exact Or.inl e
    · right
      rcases ihl (linked_kids hk.1) hl n e with e' | ⟨q, hq, hqm, hc⟩
      · subst e'
        cases n with
        | nil => exact absurd rfl (ne_nil_of_mem_pre e)
        | mk j lb' p' f' l' r' =>
          obtain ⟨hp, hf, _, _⟩ := hk.1
          refine ⟨i, by simpa [storedPar] using hp, by simp [ids], ?_⟩
          rw [childOf_mk]; simp [storedFlag, hf]
      · refine ⟨q, hq, by simp [ids, hqm], ?_⟩
        have hqi : ¬ i = q := fun e => h1 (e ▸ hqm)
        rw [childOf_mk]; simp only [hqi, if_false, hqm, if_true]; exact hc
    · right
      rcases ihr (linked_kids hk.2) hr n e with e' | ⟨q, hq, hqm, hc⟩
      · subst e'
        cases n with
        | nil => exact absurd rfl (ne_nil_of_mem_pre e)
        | mk j lb' p' f' l' r' =>
          obtain ⟨hp, hf, _, _⟩ := hk.2
          refine ⟨i, by simpa [storedPar] using hp, by simp [ids], ?_⟩
          rw [childOf_mk]; simp [storedFlag, hf]
      · refine ⟨q, hq, by simp [ids, hqm], ?_⟩
        have hqi : ¬ i = q := fun e => h2 (e ▸ hqm)
        have hql : q ∉ l.ids := fun hx => hd q hx hqm
        rw [childOf_mk]; simp only [hqi, if_false, hql]; exact hc

/-- reading off `find_node`'s code: how a slot answer arises (no hypothesis on the tree) -/
theorem findNode_slot_cases {t : PNode} {p pid : Nat} {side : Bool}
    (h : findNode t p = .slot pid side) :
    ∃ node, t.pre[p]? = some node ∧
      ((node.isTermNode = true ∧ node.storedPar = some pid ∧ node.storedFlag = side) ∨
       (node.isTermNode = false ∧ ∃ q parent, node.storedPar = some q ∧
          lookup q t = some parent ∧ parent.storedPar = some pid ∧ parent.storedFlag = side)) := by
  unfold findNode at h
  rw [preOrder_eq_pre_ops] at h
  cases hp : t.pre[p]? with
  | none => simp [hp] at h
  | some node =>
    refine ⟨node, rfl, ?_⟩
    simp only [hp] at h
    by_cases ht : node.isTermNode = true
    · simp only [ht, if_true] at h
      cases hs : node.storedPar with
      | none => simp [hs] at h
      | some q =>
        simp only [hs, Found.slot.injEq] at h
        exact Or.inl ⟨ht, by rw [h.1], h.2⟩
    · simp only [ht, Bool.false_eq_true, if_false] at h
      cases hs : node.storedPar with
      | none => simp [hs] at h
      | some q =>
        simp only [hs] at h
        cases hl : lookup q t with
        | none => simp [hl] at h
        | some parent =>
          simp only [hl] at h
          cases hg : parent.storedPar with
          | none => simp [hg] at h
          | some g =>
            simp only [hg, Found.slot.injEq] at h
            exact Or.inr ⟨by simpa using ht, q, parent, rfl, hl, by rw [hg, h.1], h.2⟩

/-- What `find_node` answers on a proper tree: the slot it returns exists, its parent is a node
    of the tree, and the child hanging there is the selected terminal itself or the *parent* of
    the selected function node. -/
theorem findNode_slot_spec {ar : Nat → Nat} {t : PNode} {p pid : Nat} {side : Bool}
    (hwf : WF ar t) (h : findNode t p = .slot pid side) :
    pid ∈ t.ids ∧ ∃ node, t.pre[p]? = some node ∧
      ((node.isTermNode = true ∧ childOf pid side t = node) ∨
       (node.isTermNode = false ∧ ∃ q, node.storedPar = some q ∧
          lookup q t = some (childOf pid side t))) := by
  obtain ⟨_, hroot, hk, _, hnd⟩ := hwf
  obtain ⟨node, hp, hc⟩ := findNode_slot_cases h
  have hnode : node ∈ t.pre := List.mem_of_getElem? hp
  rcases hc with ⟨ht, hs, hf⟩ | ⟨ht, q, parent, hs, hl, hg, hf⟩
  · rcases slot_of_mem_pre t hk hnd node hnode with e | ⟨q', hq', hm, hc⟩
    · subst e; rw [hroot] at hs; cases hs
    · rw [hs] at hq'; cases hq'; subst hf
      exact ⟨hm, node, hp, Or.inl ⟨ht, hc⟩⟩
  · rcases slot_of_mem_pre t hk hnd parent (lookup_some hl).1 with e | ⟨q', hq', hm, hc⟩
    · subst e; rw [hroot] at hg; cases hg
    · rw [hg] at hq'; cases hq'; subst hf
      exact ⟨hm, node, hp, Or.inr ⟨ht, q, hs, by rw [hc]; exact hl⟩⟩

theorem findNode_slot_mem {ar : Nat → Nat} {t : PNode} {p pid : Nat} {side : Bool}
    (hwf : WF ar t) (h : findNode t p = .slot pid side) : pid ∈ t.ids :=
  (findNode_slot_spec hwf h).1

/-! ### `cross`: case analysis and conservation -/

/-- reading off `GP._cross`: either both `find_node` calls returned a slot and the two
    `setChild` writes were performed, or the pair is returned unchanged -/
theorem cross_cases {f m f' m' : PNode} {pf pm : Nat} (h : cross f m pf pm = some (f', m')) :
    (∃ sf ff sm fm, findNode f pf = .slot sf ff ∧ findNode m pm = .slot sm fm ∧
        f' = setChild sf ff (childOf sm fm m) f ∧ m' = setChild sm fm (childOf sf ff f) m) ∨
    (f' = f ∧ m' = m) := by
  unfold cross at h
  cases hf : findNode f pf <;> cases hm : findNode m pm <;> simp only [hf, hm] at h
  all_goals cases h
  all_goals first
    | exact Or.inl ⟨_, _, _, _, rfl, rfl, rfl, rfl⟩
    | exact Or.inr ⟨rfl, rfl⟩

/-- `GP._cross` conserves the combined multiset of `(identity, label)` pairs -/
theorem cross_nodes_perm {ar : Nat → Nat} {f m f' m' : PNode} {pf pm : Nat}
    (hf : WF ar f) (hm : WF ar m) (h : cross f m pf pm = some (f', m')) :
    List.Perm (f'.nodes ++ m'.nodes) (f.nodes ++ m.nodes) := by
  rcases cross_cases h with ⟨sf, ff, sm, fm, hsf, hsm, rfl, rfl⟩ | ⟨rfl, rfl⟩
  · rw [List.perm_iff_count]
    intro a
    have h1 := nodes_setChild_count sf ff (childOf sm fm m) a f hf.2.2.2.2 (findNode_slot_mem hf hsf)
    have h2 := nodes_setChild_count sm fm (childOf sf ff f) a m hm.2.2.2.2 (findNode_slot_mem hm hsm)
    simp only [List.count_append]
    omega
  · exact List.Perm.refl _

/-! ### the executable twins decide the propositions -/

theorem linked_of_linkedB : ∀ (t : PNode) (p : Option Nat) (f : Bool),
    linkedB p f t = true → Linked p f t := by
  intro t
  induction t with
  | nil => intro _ _ _; trivial
  | mk i lb par flag l r ihl ihr =>
    intro p f h
    simp only [linkedB, Bool.and_eq_true, beq_iff_eq] at h
    exact ⟨h.1.1.1, h.1.1.2, ihl _ _ h.1.2, ihr _ _ h.2⟩

theorem kidsLinked_of_kidsLinkedB {t : PNode} (h : kidsLinkedB t = true) : KidsLinked t := by
  cases t with
  | nil => trivial
  | mk i lb par flag l r =>
    simp only [kidsLinkedB, Bool.and_eq_true] at h
    exact ⟨linked_of_linkedB _ _ _ h.1, linked_of_linkedB _ _ _ h.2⟩

theorem isNil_iff_ops {t : PNode} : t.isNil = true ↔ t = nil := by cases t <;> simp [isNil]

theorem isNil_false_iff {t : PNode} : t.isNil = false ↔ t ≠ nil := by cases t <;> simp [isNil]

theorem arity_of_arityB {ar : Nat → Nat} : ∀ t : PNode, arityB ar t = true → Arity ar t := by
  intro t
  induction t with
  | nil => intro _; trivial
  | mk i lb par flag l r ihl ihr =>
    intro h
    simp only [arityB, Bool.and_eq_true] at h
    refine ⟨?_, ihl h.1.2, ihr h.2⟩
    have h1 := h.1.1
    by_cases c1 : lb.isTerm = true
    · simpa [c1, isNil_iff_ops] using h1
    · by_cases c2 : ar lb.name = 1
      · simpa [c1, c2, isNil_iff_ops, isNil_false_iff] using h1
      · by_cases c3 : ar lb.name = 2
        · simpa [c1, c2, c3, isNil_false_iff] using h1
        · simp [c1, c2, c3] at h1

theorem nodup_of_nodupB : ∀ l : List Nat, nodupB l = true → l.Nodup := by
  intro l
  induction l with
  | nil => intro _; exact List.nodup_nil
  | cons x xs ih =>
    intro h
    simp only [nodupB, Bool.and_eq_true, Bool.not_eq_true', List.contains_eq_mem,
      decide_eq_false_iff_not] at h
    exact List.nodup_cons.2 ⟨h.1, ih h.2⟩

theorem wf_of_wfB {ar : Nat → Nat} {t : PNode} (h : wfB ar t = true) : WF ar t := by
  simp only [wfB, Bool.and_eq_true, Bool.not_eq_true', beq_iff_eq] at h
  obtain ⟨⟨⟨⟨h1, h2⟩, h3⟩, h4⟩, h5⟩ := h
  refine ⟨?_, h2, kidsLinked_of_kidsLinkedB h3, arity_of_arityB _ h4, nodup_of_nodupB _ h5⟩
  intro e; subst e; simp [isNil] at h1

end PNode
end Opy
