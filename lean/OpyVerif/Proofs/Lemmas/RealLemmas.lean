import OpyVerif.Proofs.RealElem
import Mathlib.Order.Monotone.Basic
import Mathlib.Logic.Function.Iterate
import Mathlib.Algebra.BigOperators.Group.List.Basic
import Mathlib.Algebra.Order.BigOperators.Group.List
import Mathlib.Tactic.Linarith
import Mathlib.Tactic.Positivity
import Mathlib.Tactic.Ring
import Mathlib.Tactic.NormNum
import Mathlib.Tactic.NormNum.OfScientific
import Mathlib.Tactic.FieldSimp
/-!
Helper lemmas for the real-number properties (C13, C15, C16, C18real): the Model formulas of
`Model/Num.lean` instantiated at `ℝ` rewritten as ordinary real expressions, and the small
order/real-analysis facts the property theorems are assembled from.
-/
set_option linter.unusedVariables false
namespace Opy

/-! ### Model formulas at `ℝ` as ordinary real expressions -/

theorem norm_real (row : List ℝ) : norm row = Real.sqrt ((row.map fun v => v * v).sum) := by
  unfold norm
  rw [sumL_eq_sum]
  simp only [elem_sqrt, elem_mul]

theorem spanRow_real (lb ub : ℝ) (row : List ℝ) :
    spanRow lb ub row = (ub - lb) * (norm row / Real.sqrt (row.length : ℝ)) + lb := by
  unfold spanRow
  simp only [elem_add, elem_sub, elem_mul, elem_div, elem_sqrt, elem_ofNat']

theorem aiwpsoW_real (wmin wmax : ℝ) (p n : ℕ) :
    aiwpsoW wmin wmax p n = (wmax - wmin) * ((p : ℝ) / (n : ℝ)) + wmin := by
  unfold aiwpsoW
  simp only [elem_add, elem_sub, elem_mul, elem_div, elem_ofNat']

theorem ihsPAR_real (pmin pmax : ℝ) (N t : ℕ) :
    ihsPAR pmin pmax N t = pmin + (pmax - pmin) / (N : ℝ) * (t : ℝ) := by
  unfold ihsPAR
  simp only [elem_add, elem_sub, elem_mul, elem_div, elem_ofNat']

theorem ihsBw_real (bmin bmax : ℝ) (N t : ℕ) :
    ihsBw bmin bmax N t = bmax * Real.exp (Real.log (bmin / bmax) / (N : ℝ) * (t : ℝ)) := by
  unfold ihsBw
  simp only [elem_mul, elem_div, elem_exp, elem_log, elem_ofNat']

theorem saT_real (T beta : ℝ) : saT T beta = T * beta := by
  unfold saT
  simp only [elem_mul]

/-- the constant `10e-4 / 0.9` of the source is `1/900` -/
theorem faConst_eq :
    ((OfScientific.ofScientific 10 true 4 : ℝ) / (OfScientific.ofScientific 9 true 1 : ℝ)) = 1 / 900 := by
  norm_num

theorem faDelta_real (N : ℕ) : (faDelta N : ℝ) = 1 - ((1 : ℝ) / 900) ^ ((1 : ℝ) / (N : ℝ)) := by
  unfold faDelta
  simp only [elem_sub, elem_div, elem_pow, elem_ofNat', elem_ofSci, Nat.cast_one]
  rw [faConst_eq]

theorem faAlpha_real (alpha : ℝ) (N : ℕ) :
    faAlpha alpha N = alpha * ((1 : ℝ) / 900) ^ ((1 : ℝ) / (N : ℝ)) := by
  unfold faAlpha
  simp only [elem_sub, elem_mul, elem_ofNat', Nat.cast_one]
  rw [faDelta_real]
  ring

theorem wcaDmax_real (d : ℝ) (N : ℕ) : wcaDmax d N = d - d / (N : ℝ) := by
  unfold wcaDmax
  simp only [elem_sub, elem_div, elem_ofNat']

theorem uniformAffine_real (low high u : ℝ) : uniformAffine low high u = low + (high - low) * u := by
  unfold uniformAffine
  simp only [elem_add, elem_sub, elem_mul]

theorem normalAffine_real (mu sd z : ℝ) : normalAffine mu sd z = mu + sd * z := by
  unfold normalAffine
  simp only [elem_add, elem_mul]

theorem levySigma_real (beta : ℝ) :
    levySigma beta =
      ((Real.Gamma (1 + beta) * Real.sin (Real.pi * beta / 2)) /
        (Real.Gamma ((1 + beta) / 2) * beta * (2 : ℝ) ^ ((beta - 1) / 2))) ^ (1 / beta) := by
  unfold levySigma
  simp only [elem_add, elem_sub, elem_mul, elem_div, elem_pow, elem_sin, elem_pi, elem_gamma,
    elem_ofNat', Nat.cast_one, Nat.cast_ofNat]

theorem levyStep_real (beta g1 g2 : ℝ) :
    levyStep beta g1 g2 = g1 * levySigma beta / |g2| ^ (1 / beta) := by
  unfold levyStep
  simp only [elem_mul, elem_div, elem_pow, elem_abs, elem_ofNat', Nat.cast_one]

/-! ### sums of squares of unit-interval rows -/

theorem sumsq_nonneg (row : List ℝ) : 0 ≤ (row.map fun v => v * v).sum := by
  apply List.sum_nonneg
  intro y hy
  simp only [List.mem_map] at hy
  obtain ⟨v, _, rfl⟩ := hy
  exact mul_self_nonneg v

theorem sumsq_le_length (row : List ℝ) (h : ∀ v ∈ row, 0 ≤ v ∧ v ≤ 1) :
    (row.map fun v => v * v).sum ≤ (row.length : ℝ) := by
  induction row with
  | nil => simp
  | cons x xs ih =>
    have hx := h x (by simp)
    have := ih (fun v hv => h v (by simp [hv]))
    simp only [List.map_cons, List.sum_cons, List.length_cons]
    have : x * x ≤ 1 := by nlinarith [hx.1, hx.2]
    push_cast
    linarith

theorem sumsq_zeros (row : List ℝ) (h : ∀ v ∈ row, v = 0) : (row.map fun v => v * v).sum = 0 := by
  induction row with
  | nil => simp
  | cons x xs ih =>
    have hx := h x (by simp)
    have := ih (fun v hv => h v (by simp [hv]))
    simp only [List.map_cons, List.sum_cons, this, hx]
    ring

theorem sumsq_ones (row : List ℝ) (h : ∀ v ∈ row, v = 1) :
    (row.map fun v => v * v).sum = (row.length : ℝ) := by
  induction row with
  | nil => simp
  | cons x xs ih =>
    have hx := h x (by simp)
    have := ih (fun v hv => h v (by simp [hv]))
    simp only [List.map_cons, List.sum_cons, List.length_cons, this, hx]
    push_cast
    ring

theorem length_cast_pos (row : List ℝ) (hne : row ≠ []) : (0 : ℝ) < (row.length : ℝ) := by
  have : 0 < row.length := List.length_pos_of_ne_nil hne
  exact_mod_cast this

theorem sqrt_length_pos (row : List ℝ) (hne : row ≠ []) : 0 < Real.sqrt (row.length : ℝ) :=
  Real.sqrt_pos.mpr (length_cast_pos row hne)

theorem norm_nonneg_real (row : List ℝ) : 0 ≤ norm row := by
  rw [norm_real]; exact Real.sqrt_nonneg _

theorem norm_le_sqrt_length (row : List ℝ) (h : ∀ v ∈ row, 0 ≤ v ∧ v ≤ 1) :
    norm row ≤ Real.sqrt (row.length : ℝ) := by
  rw [norm_real]; exact Real.sqrt_le_sqrt (sumsq_le_length row h)

/-- the interpolation parameter `norm row / sqrt d` of `span` lies in `[0, 1]` -/
theorem spanParam_mem (row : List ℝ) (hne : row ≠ []) (h : ∀ v ∈ row, 0 ≤ v ∧ v ≤ 1) :
    0 ≤ norm row / Real.sqrt (row.length : ℝ) ∧ norm row / Real.sqrt (row.length : ℝ) ≤ 1 := by
  have hs := sqrt_length_pos row hne
  constructor
  · exact div_nonneg (norm_nonneg_real row) hs.le
  · rw [div_le_one hs]; exact norm_le_sqrt_length row h

/-- affine interpolation `(ub - lb) * t + lb` with `t ∈ [0,1]` stays in `[lb, ub]` -/
theorem lerp_mem (lb ub t : ℝ) (hb : lb ≤ ub) (h0 : 0 ≤ t) (h1 : t ≤ 1) :
    lb ≤ (ub - lb) * t + lb ∧ (ub - lb) * t + lb ≤ ub := by
  have hd : 0 ≤ ub - lb := sub_nonneg.mpr hb
  constructor
  · have := mul_nonneg hd h0; linarith
  · have := mul_le_mul_of_nonneg_left h1 hd; linarith

/-- the same in the shape `lb + (ub - lb) / N * t` -/
theorem frac_mem (t N : ℕ) (hN : 0 < N) (ht : t ≤ N) : 0 ≤ (t : ℝ) / (N : ℝ) ∧ (t : ℝ) / (N : ℝ) ≤ 1 := by
  have hN' : (0 : ℝ) < N := by exact_mod_cast hN
  constructor
  · exact div_nonneg (Nat.cast_nonneg t) hN'.le
  · rw [div_le_one hN']; exact_mod_cast ht

/-! ### `span` over any scalar type: entry `j` is `spanRow` of the `j`-th bound pair and row -/

section generic
variable {α : Type} [Elem α]

theorem span_length_min (lbs ubs : List α) (rows : List (List α)) :
    (span lbs ubs rows).length = min lbs.length (min ubs.length rows.length) := by
  induction rows generalizing lbs ubs with
  | nil => cases lbs <;> cases ubs <;> simp [span]
  | cons r rows ih =>
    cases lbs with
    | nil => simp [span]
    | cons l lbs =>
      cases ubs with
      | nil => simp [span]
      | cons u ubs =>
        simp only [span, List.length_cons, ih]
        omega

theorem span_getElem (lbs ubs : List α) (rows : List (List α)) (j : Nat)
    (hj : j < (span lbs ubs rows).length) (h1 : j < lbs.length) (h2 : j < ubs.length)
    (h3 : j < rows.length) :
    (span lbs ubs rows)[j] = spanRow lbs[j] ubs[j] rows[j] := by
  induction rows generalizing lbs ubs j with
  | nil => simp at h3
  | cons r rows ih =>
    cases lbs with
    | nil => simp at h1
    | cons l lbs =>
      cases ubs with
      | nil => simp at h2
      | cons u ubs =>
        cases j with
        | zero => simp [span]
        | succ j =>
          simp only [span, List.getElem_cons_succ]
          apply ih

end generic

/-! ### iterating a contraction of `[0, ∞)` towards `0` -/

/-- if one step maps every `x ≥ 0` into `[0, x]`, every iterate of `x0 ≥ 0` stays in `[0, x0]` and
    the sequence of iterates is antitone -/
theorem iterate_shrink (f : ℝ → ℝ) (hf : ∀ x, 0 ≤ x → 0 ≤ f x ∧ f x ≤ x) (x0 : ℝ) (h0 : 0 ≤ x0)
    (k : ℕ) : 0 ≤ f^[k] x0 ∧ f^[k] x0 ≤ x0 ∧ f^[k + 1] x0 ≤ f^[k] x0 := by
  induction k with
  | zero =>
    simp only [Function.iterate_zero, id_eq, Function.iterate_succ, Function.comp_apply]
    exact ⟨h0, le_refl _, (hf x0 h0).2⟩
  | succ k ih =>
    obtain ⟨a, b, _⟩ := ih
    have hk := hf (f^[k] x0) a
    have e1 : f^[k + 1] x0 = f (f^[k] x0) := Function.iterate_succ_apply' f k x0
    have e2 : f^[k + 1 + 1] x0 = f (f^[k + 1] x0) := Function.iterate_succ_apply' f (k + 1) x0
    rw [e2, e1]
    exact ⟨hk.1, hk.2.trans b, (hf _ hk.1).2⟩

theorem iterate_shrink_antitone (f : ℝ → ℝ) (hf : ∀ x, 0 ≤ x → 0 ≤ f x ∧ f x ≤ x) (x0 : ℝ)
    (h0 : 0 ≤ x0) : Antitone fun k => f^[k] x0 :=
  antitone_nat_of_succ_le fun k => (iterate_shrink f hf x0 h0 k).2.2

/-! ### the firefly factor `(1/900)^(1/N)` -/

theorem faFactor_mem (N : ℕ) (hN : 0 < N) :
    0 < ((1 : ℝ) / 900) ^ ((1 : ℝ) / (N : ℝ)) ∧ ((1 : ℝ) / 900) ^ ((1 : ℝ) / (N : ℝ)) < 1 := by
  have hN' : (0 : ℝ) < N := by exact_mod_cast hN
  have he : (0 : ℝ) < 1 / (N : ℝ) := by positivity
  constructor
  · exact Real.rpow_pos_of_pos (by norm_num) _
  · exact Real.rpow_lt_one (by norm_num) (by norm_num) he

/-! ### AIWPSO's success count -/

/-- `p = #{i | new_i < old_i}` as a filter over the zipped lists -/
def successCount {β : Type} [LT β] [DecidableRel (α := β) (· < ·)] (new old : List β) : Nat :=
  ((List.zip new old).filter fun q => decide (q.1 < q.2)).length

/-- the same count as the source writes it: `p = 0; for (n, o) in zip(new, old): if n < o: p += 1` -/
def successLoop {β : Type} [LT β] [DecidableRel (α := β) (· < ·)] (new old : List β) : Nat :=
  (List.zip new old).foldl (fun p q => if q.1 < q.2 then p + 1 else p) 0

theorem successLoop_eq_count {β : Type} [LT β] [DecidableRel (α := β) (· < ·)] (new old : List β) :
    successLoop new old = successCount new old := by
  unfold successLoop successCount
  have key : ∀ (l : List (β × β)) (a : Nat),
      l.foldl (fun p q => if q.1 < q.2 then p + 1 else p) a
        = a + (l.filter fun q => decide (q.1 < q.2)).length := by
    intro l
    induction l with
    | nil => intro a; simp
    | cons q l ih =>
      intro a
      by_cases hq : q.1 < q.2
      · simp [List.foldl_cons, hq, ih]; omega
      · simp [List.foldl_cons, hq, ih]
  simpa using key (List.zip new old) 0

theorem successCount_le_length {β : Type} [LT β] [DecidableRel (α := β) (· < ·)] (new old : List β) :
    successCount new old ≤ min new.length old.length := by
  unfold successCount
  calc ((List.zip new old).filter fun q => decide (q.1 < q.2)).length
      ≤ (List.zip new old).length := List.length_filter_le _ _
    _ = min new.length old.length := List.length_zip

/-! ### weighted sum over an arbitrary semiring -/

/-- `z = 0; for (w, v) in zip(ws, vals): z += w * v` over any semiring -/
def weightedG {R : Type} [Semiring R] (ws vals : List R) : R :=
  (List.zip ws vals).foldl (fun z p => z + p.1 * p.2) 0

theorem foldl_weighted_eq {R : Type} [Semiring R] (l : List (R × R)) (a : R) :
    l.foldl (fun z p => z + p.1 * p.2) a = a + (l.map fun p => p.1 * p.2).sum := by
  induction l generalizing a with
  | nil => simp
  | cons p l ih => simp [List.foldl_cons, ih, add_assoc]

theorem weightedG_eq_sum {R : Type} [Semiring R] (ws vals : List R) :
    weightedG ws vals = ((List.zip ws vals).map fun p => p.1 * p.2).sum := by
  unfold weightedG
  rw [foldl_weighted_eq, zero_add]

theorem weighted_eq_weightedG (ws vals : List ℝ) : weighted ws vals = weightedG ws vals := by
  unfold weighted weightedG
  simp only [elem_add, elem_mul, elem_ofNat', Nat.cast_zero]

end Opy
