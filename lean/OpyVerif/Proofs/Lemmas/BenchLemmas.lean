import Mathlib.Tactic.Linarith
import Mathlib.Tactic.Positivity
import Mathlib.Tactic.Ring
import Mathlib.Tactic.NormNum
import Mathlib.Tactic.FieldSimp
import Mathlib.Algebra.Order.BigOperators.Group.List
import Mathlib.Algebra.BigOperators.Group.List.Basic
import Mathlib.Analysis.Real.Pi.Bounds
import Mathlib.Analysis.SpecialFunctions.Trigonometric.Bounds
import OpyVerif.Proofs.RealElemB
import OpyVerif.Model.Bench
/-!
Helpers for C17: the folds and integer powers of `Model/Bench.lean` at `ℝ`, bounds on sums of
mapped lists, and the elementary real-number facts (one per benchmark function) on which the
bounds of `Proofs/C17.lean` rest.
-/
namespace Opy
open RealElem

/-! ### folds and integer powers at `ℝ` -/

theorem foldl_mul_eq (xs : List ℝ) (a : ℝ) : xs.foldl (fun u v : ℝ => u * v) a = a * xs.prod := by
  induction xs generalizing a with
  | nil => simp
  | cons x xs ih => simp [List.foldl_cons, ih, mul_assoc]

/-- the left product fold from `1` is the list product -/
theorem prodL_eq_prod (xs : List ℝ) : prodL xs = xs.prod := by
  have h := foldl_mul_eq xs 1
  rw [one_mul] at h
  rw [← h]
  simp [prodL]

@[simp] theorem pw2_real (v : ℝ) : pw2 v = v ^ 2 := by simp only [pw2, mul_def]; ring
@[simp] theorem pw3_real (v : ℝ) : pw3 v = v ^ 3 := by simp only [pw3, mul_def]; ring
@[simp] theorem pw4_real (v : ℝ) : pw4 v = v ^ 4 := by simp only [pw4, mul_def]; ring
@[simp] theorem pw5_real (v : ℝ) : pw5 v = v ^ 5 := by simp only [pw5, mul_def]; ring
@[simp] theorem pw6_real (v : ℝ) : pw6 v = v ^ 6 := by simp only [pw6, mul_def]; ring

/-! ### sums of mapped lists -/

theorem sum_map_nonneg {β : Type} (f : β → ℝ) (l : List β) (h : ∀ v ∈ l, 0 ≤ f v) :
    0 ≤ (l.map f).sum := by
  induction l with
  | nil => simp
  | cons a l ih =>
    have h1 := h a (by simp)
    have h2 := ih (fun v hv => h v (by simp [hv]))
    simp only [List.map_cons, List.sum_cons]
    linarith

theorem sum_map_pos {β : Type} (f : β → ℝ) (l : List β) (hl : 1 ≤ l.length)
    (h : ∀ v ∈ l, 0 < f v) : 0 < (l.map f).sum := by
  cases l with
  | nil => simp at hl
  | cons a l =>
    have h1 := h a (by simp)
    have h2 := sum_map_nonneg f l (fun v hv => le_of_lt (h v (by simp [hv])))
    simp only [List.map_cons, List.sum_cons]
    linarith

theorem sum_map_eq_zero {β : Type} (f : β → ℝ) (l : List β) (h : ∀ v ∈ l, f v = 0) :
    (l.map f).sum = 0 := by
  induction l with
  | nil => simp
  | cons a l ih =>
    have h1 := h a (by simp)
    have h2 := ih (fun v hv => h v (by simp [hv]))
    simp only [List.map_cons, List.sum_cons]
    linarith

/-- every term at most `c` ⟹ the sum is at most `n · c` -/
theorem sum_map_le_card_mul {β : Type} (f : β → ℝ) (c : ℝ) (l : List β) (h : ∀ v ∈ l, f v ≤ c) :
    (l.map f).sum ≤ l.length * c := by
  induction l with
  | nil => simp
  | cons a l ih =>
    have h1 := h a (by simp)
    have h2 := ih (fun v hv => h v (by simp [hv]))
    have h3 : (((a :: l).length : ℕ) : ℝ) * c = l.length * c + c := by
      simp only [List.length_cons]; push_cast; ring
    simp only [List.map_cons, List.sum_cons]
    linarith

/-- every term at least `c` ⟹ the sum is at least `n · c` -/
theorem card_mul_le_sum_map {β : Type} (f : β → ℝ) (c : ℝ) (l : List β) (h : ∀ v ∈ l, c ≤ f v) :
    l.length * c ≤ (l.map f).sum := by
  induction l with
  | nil => simp
  | cons a l ih =>
    have h1 := h a (by simp)
    have h2 := ih (fun v hv => h v (by simp [hv]))
    have h3 : (((a :: l).length : ℕ) : ℝ) * c = l.length * c + c := by
      simp only [List.length_cons]; push_cast; ring
    simp only [List.map_cons, List.sum_cons]
    linarith

/-- a constant list: the sum is `n · f a` -/
theorem sum_map_replicate (f : ℝ → ℝ) (n : ℕ) (a : ℝ) :
    ((List.replicate n a).map f).sum = n * f a := by
  simp

/-! ### elementary real facts -/

theorem sin_pow_six_le_one (t : ℝ) : Real.sin t ^ 6 ≤ 1 := by
  have h : Real.sin t ^ 6 = (Real.sin t ^ 2) ^ 3 := by ring
  rw [h]
  exact pow_le_one₀ (sq_nonneg _) (Real.sin_sq_le_one t)

theorem sin_pow_six_nonneg (t : ℝ) : 0 ≤ Real.sin t ^ 6 := by positivity

theorem cos_five_pi : Real.cos (5 * Real.pi) = -1 := by
  have h : 5 * Real.pi = ((2 : ℕ) : ℝ) * (2 * Real.pi) + Real.pi := by push_cast; ring
  rw [h]
  exact Real.cos_nat_mul_two_pi_add_pi 2

/-- Styblinski–Tang, one coordinate: `v⁴ − 16v² + 5v ≥ −78.4` (true minimum ≈ −78.33233) -/
theorem styblinski_term_ge (v : ℝ) : -78.4 ≤ v ^ 4 - 16 * v ^ 2 + 5 * v := by
  nlinarith [sq_nonneg (v ^ 2 - 8.43), sq_nonneg (v + 2.907)]

/-- quintic's polynomial vanishes at `-1` and at `2` -/
theorem quintic_poly_neg_one :
    ((-1 : ℝ)) ^ 5 - 3 * (-1) ^ 4 + 4 * (-1) ^ 3 + 2 * (-1) ^ 2 - 10 * (-1) - 4 = 0 := by norm_num

theorem quintic_poly_two :
    ((2 : ℝ)) ^ 5 - 3 * 2 ^ 4 + 4 * 2 ^ 3 + 2 * 2 ^ 2 - 10 * 2 - 4 = 0 := by norm_num

/-! ### alpine2: `√x · sin x` at `x = 7.917` exceeds the documented `2.808` -/

theorem sin_7917_gt : 0.99801 < Real.sin 7.917 := by
  have hpi1 := Real.pi_gt_d6
  have hpi2 := Real.pi_lt_d6
  have h1 : Real.sin 7.917 = Real.cos (5 * Real.pi / 2 - 7.917) := by
    rw [← Real.sin_sub_two_pi, ← Real.cos_pi_div_two_sub]; congr 1; ring
  rw [h1]
  have h2 := Real.one_sub_sq_div_two_le_cos (x := 5 * Real.pi / 2 - 7.917)
  have ht1 : -0.06303 < 5 * Real.pi / 2 - 7.917 := by linarith
  have ht2 : 5 * Real.pi / 2 - 7.917 < 0 := by linarith
  nlinarith

theorem sqrt_7917_ge : 2.8137 ≤ √(7.917 : ℝ) := by
  apply Real.le_sqrt_of_sq_le
  norm_num

theorem alpine2_term_gt : 2.808 < √(7.917 : ℝ) * Real.sin 7.917 := by
  have h1 := sin_7917_gt
  have h2 := sqrt_7917_ge
  nlinarith

end Opy
