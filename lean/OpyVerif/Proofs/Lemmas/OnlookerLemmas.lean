import OpyVerif.Model.Onlooker
/-!
Helper lemmas for `Proofs/C03onlooker.lean` (core Lean only): the pass as a count of `true` bits,
and the loop of `Model/Onlooker.lean` generalised to an arbitrary starting counter.
-/
namespace Opy

theorem runPass_eq (k : Nat) (p : List Bool) : runPass k p = k + p.count true := by
  unfold runPass
  induction p generalizing k with
  | nil => simp
  | cons b bs ih =>
    cases b
    · simp [ih]
    · simp [ih]; omega

theorem hits_nil : hits [] = 0 := by simp [hits]

theorem hits_cons (p : List Bool) (ps : List (List Bool)) :
    hits (p :: ps) = p.count true + hits ps := by
  simp [hits, List.count_append]

theorem count_le_of_length (p : List Bool) (n : Nat) (h : p.length = n) : p.count true ≤ n := by
  rw [← h]; exact List.count_le_length

/-- generalisation of the budget to any starting counter below `n` -/
theorem onlooker_bounds_from (n : Nat) (passes : List (List Bool)) (k0 k : Nat)
    (hlen : ∀ p ∈ passes, p.length = n) (hk0 : k0 < n) (h : onlooker n k0 passes = some k) :
    n ≤ k ∧ k ≤ 2 * n - 1 := by
  induction passes generalizing k0 with
  | nil => simp [onlooker, hk0] at h
  | cons p ps ih =>
    have hp : p.count true ≤ n := count_le_of_length p n (hlen p (by simp))
    have hps : ∀ q ∈ ps, q.length = n := fun q hq => hlen q (by simp [hq])
    rw [onlooker, if_pos hk0, runPass_eq] at h
    by_cases h1 : k0 + p.count true < n
    · exact ih _ hps h1 h
    · cases ps with
      | nil =>
        rw [onlooker, if_neg h1] at h
        injection h with h; omega
      | cons q qs =>
        rw [onlooker, if_neg h1] at h
        injection h with h; omega

/-- generalisation of the termination criterion to any starting counter -/
theorem onlooker_terminates_iff_from (n : Nat) (passes : List (List Bool)) (k : Nat) :
    onlooker n k passes ≠ none ↔ ∃ j, j ≤ passes.length ∧ n ≤ k + hits (passes.take j) := by
  induction passes generalizing k with
  | nil =>
    by_cases hk : k < n
    · simp [onlooker, hk, hits_nil]
    · simp only [onlooker, if_neg hk]
      constructor
      · intro _; exact ⟨0, by simp, by simp [hits_nil]; omega⟩
      · intro _ h; cases h
  | cons p ps ih =>
    by_cases hk : k < n
    · rw [onlooker, if_pos hk, runPass_eq, ih]
      constructor
      · rintro ⟨j, hj, hn⟩
        refine ⟨j + 1, by simp; omega, ?_⟩
        rw [List.take_succ_cons, hits_cons]; omega
      · rintro ⟨j, hj, hn⟩
        cases j with
        | zero => simp [hits_nil] at hn; omega
        | succ j =>
          rw [List.take_succ_cons, hits_cons] at hn
          exact ⟨j, by simp at hj; omega, by omega⟩
    · rw [onlooker, if_neg hk]
      constructor
      · intro _; exact ⟨0, by simp, by simp [hits_nil]; omega⟩
      · intro _ h; cases h

theorem hits_eq_zero_of_unfair (passes : List (List Bool))
    (h : ∀ p ∈ passes, ∀ b ∈ p, b = false) : hits passes = 0 := by
  unfold hits
  rw [List.count_eq_zero]
  intro hmem
  obtain ⟨p, hp, hb⟩ := List.mem_flatten.mp hmem
  exact absurd (h p hp true hb) (by decide)

/-- `onlookerTrace` refines `onlooker` -/
theorem onlookerTrace_fst (n : Nat) (passes : List (List Bool)) (k : Nat) :
    (onlookerTrace n k passes).map (·.1) = onlooker n k passes := by
  induction passes generalizing k with
  | nil => by_cases hk : k < n <;> simp [onlooker, onlookerTrace, hk]
  | cons p ps ih =>
    by_cases hk : k < n
    · rw [onlooker, onlookerTrace, if_pos hk, if_pos hk, ← ih]
      cases onlookerTrace n (runPass k p) ps <;> simp
    · simp [onlooker, onlookerTrace, hk]

/-- what the trace returns, from any starting counter -/
theorem onlookerTrace_spec_from (n : Nat) (passes : List (List Bool)) (k0 k j : Nat)
    (h : onlookerTrace n k0 passes = some (k, j)) :
    j ≤ passes.length ∧ k = k0 + hits (passes.take j) ∧ n ≤ k ∧
      ∀ j', j' < j → k0 + hits (passes.take j') < n := by
  induction passes generalizing k0 k j with
  | nil =>
    by_cases hk : k0 < n
    · simp [onlookerTrace, hk] at h
    · simp only [onlookerTrace, if_neg hk, Option.some.injEq, Prod.mk.injEq] at h
      obtain ⟨rfl, rfl⟩ := h
      refine ⟨by simp, by simp [hits_nil], by omega, ?_⟩
      intro j' hj'; omega
  | cons p ps ih =>
    by_cases hk : k0 < n
    · rw [onlookerTrace, if_pos hk] at h
      cases hr : onlookerTrace n (runPass k0 p) ps with
      | none => rw [hr] at h; simp at h
      | some r =>
        rw [hr] at h
        simp only [Option.map_some, Option.some.injEq, Prod.mk.injEq] at h
        obtain ⟨rfl, rfl⟩ := h
        obtain ⟨h1, h2, h3, h4⟩ := ih (runPass k0 p) r.1 r.2 hr
        rw [runPass_eq] at h2 h4
        refine ⟨by simp; omega, ?_, h3, ?_⟩
        · rw [List.take_succ_cons, hits_cons]; omega
        · intro j' hj'
          cases j' with
          | zero => simp [hits_nil]; omega
          | succ j' =>
            rw [List.take_succ_cons, hits_cons]
            have := h4 j' (by omega)
            omega
    · simp only [onlookerTrace, if_neg hk, Option.some.injEq, Prod.mk.injEq] at h
      obtain ⟨rfl, rfl⟩ := h
      refine ⟨by simp, by simp [hits_nil], by omega, ?_⟩
      intro j' hj'; omega

end Opy
