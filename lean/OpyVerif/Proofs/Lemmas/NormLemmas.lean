import OpyVerif.Model.Normalise
import OpyVerif.Proofs.RealElem
import Mathlib.Algebra.BigOperators.Group.List.Basic
import Mathlib.Algebra.Order.BigOperators.Group.List
import Mathlib.Algebra.BigOperators.Intervals
import Mathlib.Algebra.Order.BigOperators.Group.Finset
import Mathlib.Algebra.BigOperators.Field
import Mathlib.Algebra.Order.Round
import Mathlib.Tactic.Linarith
import Mathlib.Tactic.Ring
import Mathlib.Tactic.FieldSimp
import Mathlib.Tactic.Positivity
import Mathlib.Tactic.NormNum
/-!
Helper lemmas for `Proofs/C03norm.lean`: the formulas of `Model/Normalise.lean` instantiated at `ℝ`
as ordinary real expressions, and the list / finite-sum facts the property theorems are assembled
from.
-/
namespace Opy

/-! ### Model formulas at `ℝ` -/

theorem gsaBest_real (fits : List ℝ) : gsaBest fits = fits.head?.getD 0 := by
  unfold gsaBest; simp only [elem_ofNat', Nat.cast_zero]

theorem gsaWorst_real (fits : List ℝ) : gsaWorst fits = fits.getLast?.getD 0 := by
  unfold gsaWorst; simp only [elem_ofNat', Nat.cast_zero]

theorem gsaDen1_real (eps : ℝ) (fits : List ℝ) :
    gsaDen1 eps fits = gsaBest fits - gsaWorst fits - eps := by
  unfold gsaDen1; simp only [elem_sub]

theorem gsaRawMass_real (eps : ℝ) (fits : List ℝ) :
    gsaRawMass eps fits = fits.map fun f => (f - gsaWorst fits) / gsaDen1 eps fits := by
  unfold gsaRawMass; simp only [elem_sub, elem_div]

theorem gsaDen2_real (eps : ℝ) (fits : List ℝ) :
    gsaDen2 eps fits = (gsaRawMass eps fits).sum + eps := by
  unfold gsaDen2; simp only [elem_add, sumL_eq_sum]

theorem gsaMass_real (eps : ℝ) (fits : List ℝ) :
    gsaMass eps fits = (gsaRawMass eps fits).map fun m => m / gsaDen2 eps fits := by
  unfold gsaMass; simp only [elem_div]

theorem bhaRadius_real (b cost : ℝ) : bhaRadius b cost = b / cost := by
  unfold bhaRadius; simp only [elem_div]

theorem wcaCost_real (nsr : ℕ) (fits : List ℝ) : wcaCost nsr fits = (fits.take nsr).sum := by
  unfold wcaCost; rw [sumL_eq_sum]

theorem wcaShare_real (nsr : ℕ) (fits : List ℝ) (i : ℕ) :
    wcaShare nsr fits i = fits.getD i 0 / (fits.take nsr).sum := by
  unfold wcaShare; simp only [elem_div, elem_ofNat', Nat.cast_zero, wcaCost_real]

theorem wcaFlowReal_real (nsr n : ℕ) (fits : List ℝ) (i : ℕ) :
    wcaFlowReal nsr n fits i = |wcaShare nsr fits i| * ((n - nsr : ℕ) : ℝ) := by
  unfold wcaFlowReal; simp only [elem_mul, elem_abs, elem_ofNat']

/-! ### sorted lists -/

theorem gsaBest_mem (fits : List ℝ) (hne : fits ≠ []) : gsaBest fits ∈ fits := by
  rw [gsaBest_real]
  cases fits with
  | nil => exact absurd rfl hne
  | cons a l => simp

theorem gsaWorst_concat (L : List ℝ) (b : ℝ) : gsaWorst (L ++ [b]) = b := by
  rw [gsaWorst_real]; simp

theorem getD_of_lt (l : List ℝ) (i : ℕ) (h : i < l.length) : l.getD i 0 = l[i] := by simp [h]

/-- in a population sorted ascending every fitness is at most the last one -/
theorem le_gsaWorst (fits : List ℝ) (hs : fits.Pairwise (· ≤ ·)) : ∀ x ∈ fits, x ≤ gsaWorst fits := by
  rcases List.eq_nil_or_concat fits with rfl | ⟨L, b, rfl⟩
  · intro x hx; cases hx
  · intro x hx
    rw [List.concat_eq_append] at hs hx ⊢
    rw [gsaWorst_concat]
    rw [List.pairwise_append] at hs
    rcases List.mem_append.mp hx with h | h
    · exact hs.2.2 x h b (by simp)
    · simp at h; rw [h]

/-- `best ≤ worst` on a sorted population (on the empty one both default to `0`) -/
theorem gsaBest_le_gsaWorst (fits : List ℝ) (hs : fits.Pairwise (· ≤ ·)) :
    gsaBest fits ≤ gsaWorst fits := by
  by_cases hne : fits = []
  · subst hne; rw [gsaBest_real, gsaWorst_real]; simp
  · exact le_gsaWorst fits hs _ (gsaBest_mem fits hne)

/-- all fitnesses equal to `c`: best and worst coincide (also on the empty population, `0 = 0`) -/
theorem gsaBest_eq_gsaWorst_of_const (fits : List ℝ) (c : ℝ) (h : ∀ x ∈ fits, x = c) :
    gsaBest fits = gsaWorst fits := by
  rw [gsaBest_real, gsaWorst_real]
  cases fits with
  | nil => simp
  | cons a l =>
    have ha : a = c := h a (by simp)
    have hl : (a :: l).getLast (by simp) = c := h _ (List.getLast_mem _)
    rw [List.getLast?_eq_some_getLast (by simp), hl]
    simp [ha]

theorem gsaWorst_of_const (fits : List ℝ) (c : ℝ) (h : ∀ x ∈ fits, x = c) (hne : fits ≠ []) :
    gsaWorst fits = c := by
  rw [gsaWorst_real, List.getLast?_eq_some_getLast hne]
  exact h _ (List.getLast_mem _)

/-! ### list sums -/

theorem sum_map_div (l : List ℝ) (c : ℝ) : (l.map fun m => m / c).sum = l.sum / c := by
  induction l with
  | nil => simp
  | cons a l ih => simp only [List.map_cons, List.sum_cons, ih, add_div]

theorem sum_map_zero_of_forall (l : List ℝ) (h : ∀ x ∈ l, x = 0) : l.sum = 0 := by
  induction l with
  | nil => simp
  | cons a l ih =>
    rw [List.sum_cons, h a (by simp), ih fun x hx => h x (by simp [hx]), add_zero]

/-- `Σ_{k<m} l[k] = sum (take m l)` -/
theorem sum_range_getD (l : List ℝ) (m : ℕ) (hm : m ≤ l.length) :
    ∑ k ∈ Finset.range m, l.getD k 0 = (l.take m).sum := by
  induction m with
  | zero => simp
  | succ m ih =>
    have hlt : m < l.length := hm
    rw [Finset.sum_range_succ, ih (Nat.le_of_succ_le hm), List.sum_take_succ l m hlt,
      getD_of_lt l m hlt]

theorem getD_mem_take (l : List ℝ) (m i : ℕ) (hi : i < m) (hm : m ≤ l.length) :
    l.getD i 0 ∈ l.take m := by
  have hil : i < l.length := lt_of_lt_of_le hi hm
  rw [getD_of_lt l i hil]
  have hit : i < (l.take m).length := by rw [List.length_take]; omega
  have : (l.take m)[i] = l[i] := List.getElem_take
  rw [← this]
  exact List.getElem_mem hit

/-! ### WCA: cost, shares -/

theorem wcaCost_pos (nsr : ℕ) (fits : List ℝ) (hpos : ∀ x ∈ fits.take nsr, 0 < x)
    (h1 : 1 ≤ nsr) (hn : nsr ≤ fits.length) : 0 < (fits.take nsr).sum := by
  apply List.sum_pos _ hpos
  intro h
  have := congrArg List.length h
  rw [List.length_take, List.length_nil] at this
  omega

theorem wcaShare_pos (nsr : ℕ) (fits : List ℝ) (i : ℕ) (hpos : ∀ x ∈ fits.take nsr, 0 < x)
    (hi : i < nsr) (hn : nsr ≤ fits.length) : 0 < wcaShare nsr fits i := by
  rw [wcaShare_real]
  exact div_pos (hpos _ (getD_mem_take fits nsr i hi hn)) (wcaCost_pos nsr fits hpos (by omega) hn)

theorem wcaShare_le_one (nsr : ℕ) (fits : List ℝ) (i : ℕ) (hpos : ∀ x ∈ fits.take nsr, 0 < x)
    (hi : i < nsr) (hn : nsr ≤ fits.length) : wcaShare nsr fits i ≤ 1 := by
  rw [wcaShare_real, div_le_one (wcaCost_pos nsr fits hpos (by omega) hn)]
  exact List.single_le_sum (fun x hx => (hpos x hx).le) _ (getD_mem_take fits nsr i hi hn)

theorem wcaShares_sum_range (nsr : ℕ) (fits : List ℝ) (hpos : ∀ x ∈ fits.take nsr, 0 < x)
    (h1 : 1 ≤ nsr) (hn : nsr ≤ fits.length) :
    ∑ k ∈ Finset.range nsr, wcaShare nsr fits k = 1 := by
  have hc := wcaCost_pos nsr fits hpos h1 hn
  simp only [wcaShare_real]
  rw [← Finset.sum_div, sum_range_getD fits nsr hn, div_self hc.ne']

/-- the rivers' shares (everything but the sea, index 0) sum to less than one -/
theorem wcaShares_sum_Ico_le (nsr : ℕ) (fits : List ℝ) (hpos : ∀ x ∈ fits.take nsr, 0 < x)
    (h1 : 1 ≤ nsr) (hn : nsr ≤ fits.length) :
    ∑ k ∈ Finset.Ico 1 nsr, wcaShare nsr fits k ≤ 1 := by
  rw [← wcaShares_sum_range nsr fits hpos h1 hn]
  apply Finset.sum_le_sum_of_subset_of_nonneg
  · intro k hk
    rw [Finset.mem_Ico] at hk
    exact Finset.mem_range.mpr hk.2
  · intro k hk _
    exact (wcaShare_pos nsr fits k hpos (Finset.mem_range.mp hk) hn).le

/-! ### rounding -/

theorem rnd_le (rnd : ℝ → ℤ) (hr : ∀ y, |(rnd y : ℝ) - y| ≤ 1 / 2) (y : ℝ) :
    (rnd y : ℝ) ≤ y + 1 / 2 := by
  have := (abs_le.mp (hr y)).2; linarith

theorem rnd_nonneg (rnd : ℝ → ℤ) (hr : ∀ y, |(rnd y : ℝ) - y| ≤ 1 / 2) (y : ℝ) (hy : 0 ≤ y) :
    0 ≤ rnd y := by
  have h := (abs_le.mp (hr y)).1
  have h1 : (-1 : ℝ) < (rnd y : ℝ) := by linarith
  have h2 : (-1 : ℤ) < rnd y := by exact_mod_cast h1
  omega

/-- sum of the real flows of the rivers `1 … nsr-1` -/
theorem wcaFlowReal_sum_Ico_le (nsr n : ℕ) (fits : List ℝ) (hpos : ∀ x ∈ fits.take nsr, 0 < x)
    (h1 : 1 ≤ nsr) (hn : nsr ≤ n) (hlen : fits.length = n) :
    ∑ k ∈ Finset.Ico 1 nsr, wcaFlowReal nsr n fits k ≤ (n : ℝ) - (nsr : ℝ) := by
  have hn' : nsr ≤ fits.length := by omega
  have hsum := wcaShares_sum_Ico_le nsr fits hpos h1 hn'
  have hcast : ((n - nsr : ℕ) : ℝ) = (n : ℝ) - (nsr : ℝ) := Nat.cast_sub hn
  have hnonneg : (0 : ℝ) ≤ (n : ℝ) - (nsr : ℝ) := by rw [← hcast]; positivity
  have e : ∑ k ∈ Finset.Ico 1 nsr, wcaFlowReal nsr n fits k
      = (∑ k ∈ Finset.Ico 1 nsr, wcaShare nsr fits k) * ((n : ℝ) - (nsr : ℝ)) := by
    rw [Finset.sum_mul]
    apply Finset.sum_congr rfl
    intro k hk
    rw [Finset.mem_Ico] at hk
    rw [wcaFlowReal_real, hcast, abs_of_pos (wcaShare_pos nsr fits k hpos hk.2 hn')]
  rw [e]
  calc _ ≤ 1 * ((n : ℝ) - (nsr : ℝ)) := mul_le_mul_of_nonneg_right hsum hnonneg
    _ = _ := one_mul _

end Opy
