import OpyVerif.Model.Machine
/-!
Helper lemmas: the invariant of the abstract optimiser machine and its preservation by every
event.  Property theorems that use it live in `Proofs/C02.lean`, `C03.lean`, `C20.lean`.
-/
set_option linter.unusedVariables false
namespace Opy

def Truth (evals : List (Pos × Int)) (a : Ag) : Prop := (a.tpos, a.fit) ∈ evals

theorem truthB_iff (ev : List (Pos × Int)) (a : Ag) : truthB ev a = true ↔ Truth ev a := by
  simp [truthB, Truth]

theorem Truth.mono {ev : List (Pos × Int)} {a : Ag} (x : Pos × Int) (h : Truth ev a) :
    Truth (ev ++ [x]) a := by
  simp only [Truth, List.mem_append]; exact Or.inl h

structure Inv (cfg : Cfg) (s : St) : Prop where
  env  : ∀ e ∈ s.evals, s.best.fit ≤ e.2 ∨ ∃ a ∈ s.pop, Truth s.evals a ∧ a.fit ≤ e.2
  anch : ∀ a ∈ s.pop, Truth s.evals a ∨ s.best.fit ≤ a.fit
  best : Truth s.evals s.best ∨ (s.evals = [] ∧ s.best.fit = cfg.fmax)
  below : ∀ e ∈ s.evals, e.2 < cfg.fmax
  cur : s.cursor ≤ s.pop.length
  pre : s.cursor < s.pop.length →
    ∀ j (h : j < s.pop.length), j < s.cursor → s.best.fit ≤ (s.pop[j]'h).fit
  lower : s.swept = true → (s.evals ≠ [] ∧ ∀ e ∈ s.evals, s.best.fit ≤ e.2)
  logLe : ∀ x ∈ s.bestLog, s.best.fit ≤ x
  logSorted : s.bestLog.Pairwise (fun a b => b ≤ a)
  tpI : s.cursor < s.pop.length → s.tp = true →
    ∀ j (h : j < s.pop.length), j < s.cursor → Truth s.evals (s.pop[j]'h)
  truthI : s.truthful = true → ∀ a ∈ s.pop, Truth s.evals a

/-- what `changeOkB` buys: the envelope and the anchoring survive the population change -/
theorem change_sound {best : Ag} {ev ev' : List (Pos × Int)} {pop pop' : List Ag}
    (hsub : ∀ e ∈ ev, e ∈ ev')
    (hok : changeOkB best ev ev' pop pop' = true)
    (henv : ∀ e ∈ ev, best.fit ≤ e.2 ∨ ∃ a ∈ pop, Truth ev a ∧ a.fit ≤ e.2) :
    (∀ e ∈ ev, best.fit ≤ e.2 ∨ ∃ b ∈ pop', Truth ev' b ∧ b.fit ≤ e.2) ∧
    (∀ b ∈ pop', Truth ev' b ∨ best.fit ≤ b.fit) := by
  simp only [changeOkB, Bool.and_eq_true, List.all_eq_true, Bool.or_eq_true, List.any_eq_true,
    decide_eq_true_eq, Bool.not_eq_true', truthB_iff] at hok
  obtain ⟨h1, h2⟩ := hok
  refine ⟨?_, ?_⟩
  · intro e he
    rcases henv e he with h | ⟨a, ha, hta, hle⟩
    · exact Or.inl h
    · rcases h2 a ha with (hf | hb) | ⟨b, hb, hbt, hble⟩
      · have : truthB ev a = true := (truthB_iff ev a).2 hta
        rw [hf] at this; exact absurd this (by simp)
      · left; omega
      · exact Or.inr ⟨b, hb, hbt, by omega⟩
  · intro b hb
    rcases h1 b hb with h | h
    · exact Or.inl h
    · exact Or.inr h

theorem mem_set_cases {α : Type} (l : List α) (i : Nat) (x b : α) (h : b ∈ l.set i x) :
    b ∈ l ∨ b = x := by
  rcases List.mem_or_eq_of_mem_set h with h | h
  · exact Or.inl h
  · exact Or.inr h

/-- a member of the old list is still a member after `set`, unless it sat at that index -/
theorem mem_set_of_mem {α : Type} (l : List α) (i : Nat) (x a : α) (hi : i < l.length)
    (h : a ∈ l) : a ∈ l.set i x ∨ a = l[i] := by
  obtain ⟨k, hk, rfl⟩ := List.getElem_of_mem h
  by_cases hki : k = i
  · subst hki; exact Or.inr rfl
  · left
    have : (l.set i x)[k]'(by simpa using hk) = l[k] := by
      simp [Ne.symm hki]
    rw [← this]; exact List.getElem_mem _

end Opy

namespace Opy

/-- population-only change (hook / update / clipAll): evaluation log and best untouched -/
theorem inv_popChange (cfg : Cfg) (s : St) (pop' : List Ag) (c : Nat) (tp' tr' : Bool)
    (hk : Nat) (sh : Nat)
    (hi : Inv cfg s) (hok : changeOkB s.best s.evals s.evals s.pop pop' = true)
    (hlen : pop'.length = s.pop.length) (hcur : s.cursor = s.pop.length)
    (hc : c = 0 ∨ c = pop'.length)
    (htr : tr' = true → s.truthful = true ∧ pop'.all (truthB s.evals) = true) :
    Inv cfg { s with pop := pop', cursor := c, tp := tp', hooks := hk, sinceHook := sh, truthful := tr' } := by
  obtain ⟨henv, hanch⟩ := change_sound (fun e he => he) hok hi.env
  refine ⟨henv, hanch, hi.best, hi.below, ?_, ?_, hi.lower, hi.logLe, hi.logSorted, ?_, ?_⟩
  · rcases hc with rfl | rfl <;> simp
  · intro hlt j hj hjc
    rcases hc with rfl | rfl
    · dsimp only at hjc; omega
    · simp at hlt
  · intro hlt _ j hj hjc
    rcases hc with rfl | rfl
    · dsimp only at hjc; omega
    · simp at hlt
  · intro ht a ha
    have := (htr ht).2
    simp only [List.all_eq_true] at this
    exact (truthB_iff _ _).1 (this a ha)

theorem inv_hook (cfg : Cfg) (s s' : St) (pop' : List Ag) (hi : Inv cfg s)
    (h : apply cfg s (.hook pop') = some s') : Inv cfg s' := by
  simp only [apply] at h
  split at h
  · rename_i hg
    simp only [Bool.and_eq_true, beq_iff_eq] at hg
    obtain ⟨⟨h1, h2⟩, h3⟩ := hg
    cases h
    exact inv_popChange cfg s pop' 0 true _ _ _ hi h1 h2 h3 (Or.inl rfl)
      (by intro ht; simpa using ht)
  · cases h

theorem inv_update (cfg : Cfg) (s s' : St) (pop' : List Ag) (hi : Inv cfg s)
    (h : apply cfg s (.update pop') = some s') : Inv cfg s' := by
  simp only [apply] at h
  split at h
  · rename_i hg
    simp only [Bool.and_eq_true, beq_iff_eq] at hg
    obtain ⟨⟨h1, h2⟩, h3⟩ := hg
    cases h
    have := inv_popChange cfg s pop' s.cursor s.tp (s.truthful && pop'.all (truthB s.evals))
      s.hooks s.sinceHook hi h1 h2 h3 (Or.inr (by omega)) (by intro ht; simpa using ht)
    exact this
  · cases h

theorem inv_clipAll (cfg : Cfg) (s s' : St) (hi : Inv cfg s)
    (h : apply cfg s .clipAll = some s') : Inv cfg s' := by
  simp only [apply] at h
  split at h
  · rename_i hg
    simp only [beq_iff_eq] at hg
    split at h
    · rename_i h1
      cases h
      have := inv_popChange cfg s (s.pop.map (clipAg cfg)) s.cursor s.tp
        (s.truthful && (s.pop.map (clipAg cfg)).all (truthB s.evals))
        s.hooks s.sinceHook hi h1 (by simp) hg (Or.inr (by simp [hg])) (by intro ht; simpa using ht)
      exact this
    · cases h
  · cases h

theorem inv_dump (cfg : Cfg) (s s' : St) (hi : Inv cfg s)
    (h : apply cfg s .dump = some s') : Inv cfg s' := by
  simp only [apply] at h
  split at h
  · rename_i hg
    cases h
    refine ⟨hi.env, hi.anch, hi.best, hi.below, hi.cur, hi.pre, hi.lower, ?_, ?_, hi.tpI, hi.truthI⟩
    · intro x hx
      simp only [List.mem_append, List.mem_singleton] at hx
      rcases hx with hx | rfl
      · exact hi.logLe x hx
      · exact Int.le_refl _
    · rw [List.pairwise_append]
      refine ⟨hi.logSorted, by simp, ?_⟩
      intro a ha b hb
      simp only [List.mem_singleton] at hb
      subst hb
      exact hi.logLe a ha
  · cases h

end Opy

namespace Opy

theorem inv_trial (cfg : Cfg) (s s' : St) (p : Pos) (v : Int) (pop' : List Ag) (hi : Inv cfg s)
    (h : apply cfg s (.trial p v pop') = some s') : Inv cfg s' := by
  simp only [apply] at h
  split at h
  · rename_i hg
    simp only [Bool.and_eq_true, beq_iff_eq, decide_eq_true_eq] at hg
    obtain ⟨⟨⟨⟨⟨⟨_, hv⟩, hbt⟩, hok⟩, hcov⟩, hlen⟩, hcur⟩ := hg
    cases h
    obtain ⟨henv, hanch⟩ := change_sound (ev' := s.evals ++ [(p, v)])
      (fun e he => List.mem_append.2 (Or.inl he)) hok hi.env
    refine ⟨?_, hanch, ?_, ?_, ?_, ?_, ?_, hi.logLe, hi.logSorted, ?_, ?_⟩
    · intro e he
      simp only [List.mem_append, List.mem_singleton] at he
      rcases he with he | rfl
      · exact henv e he
      · simp only [coveredB, Bool.or_eq_true, decide_eq_true_eq, List.any_eq_true,
          Bool.and_eq_true, truthB_iff] at hcov
        rcases hcov with h1 | ⟨b, hb, hbt', hble⟩
        · exact Or.inl h1
        · exact Or.inr ⟨b, hb, hbt', hble⟩
    · exact Or.inl (Truth.mono _ ((truthB_iff _ _).1 hbt))
    · intro e he
      simp only [List.mem_append, List.mem_singleton] at he
      rcases he with he | rfl
      · exact hi.below e he
      · exact hv
    · dsimp only; omega
    · intro hlt; dsimp only at hlt; omega
    · intro hsw; simp at hsw
    · intro hlt; dsimp only at hlt; omega
    · intro ht a ha
      dsimp only at ht ha ⊢
      simp only [Bool.and_eq_true, List.all_eq_true] at ht
      exact (truthB_iff _ _).1 (ht.2 a ha)
  · cases h

theorem inv_trialSwap (cfg : Cfg) (s s' : St) (p : Pos) (v : Int) (i : Nat) (hi : Inv cfg s)
    (h : apply cfg s (.trialSwap p v i) = some s') : Inv cfg s' := by
  simp only [apply] at h
  split at h
  · cases h
  · rename_i a hai
    split at h
    · rename_i hg
      simp only [Bool.and_eq_true, beq_iff_eq, decide_eq_true_eq, Bool.or_eq_true,
        Bool.not_eq_true'] at hg
      obtain ⟨⟨⟨⟨⟨_, hv⟩, hbt⟩, hap⟩, hcur⟩, hdisc⟩ := hg
      have hbT : Truth s.evals s.best := (truthB_iff _ _).1 hbt
      obtain ⟨hil, hia⟩ := List.getElem?_eq_some_iff.1 hai
      cases h
      have hold : Truth (s.evals ++ [(p, v)])
          { pos := s.best.pos, tpos := s.best.tpos, fit := s.best.fit, ref := s.best.ref } :=
        Truth.mono _ hbT
      refine ⟨?_, ?_, ?_, ?_, ?_, ?_, ?_, ?_, hi.logSorted, ?_, ?_⟩
      · intro e he
        simp only [List.mem_append, List.mem_singleton] at he
        rcases he with he | rfl
        · rcases hi.env e he with h1 | ⟨w, hw, hwt, hwle⟩
          · left; dsimp only; omega
          · rcases mem_set_of_mem s.pop i _ w hil hw with h2 | h2
            · exact Or.inr ⟨w, h2, Truth.mono _ hwt, hwle⟩
            · left
              rw [h2, hia] at hwt hwle
              rcases hdisc with hd | hd
              · have := (truthB_iff _ _).2 hwt; rw [hd] at this; exact absurd this (by simp)
              · dsimp only; omega
        · left; exact Int.le_refl _
      · intro b hb
        rcases mem_set_cases _ _ _ _ hb with hb | rfl
        · rcases hi.anch b hb with h1 | h1
          · exact Or.inl (Truth.mono _ h1)
          · right; dsimp only; omega
        · exact Or.inl hold
      · left; simp [Truth]
      · intro e he
        simp only [List.mem_append, List.mem_singleton] at he
        rcases he with he | rfl
        · exact hi.below e he
        · have := hi.below _ hbT; dsimp only at this ⊢; omega
      · dsimp only; simp; omega
      · intro hlt; dsimp only at hlt; simp at hlt; omega
      · intro hsw; simp at hsw
      · intro x hx; have := hi.logLe x hx; dsimp only; omega
      · intro hlt; dsimp only at hlt; simp at hlt; omega
      · intro ht b hb
        dsimp only at ht hb ⊢
        rcases mem_set_cases _ _ _ _ hb with hb | rfl
        · exact Truth.mono _ (hi.truthI ht b hb)
        · exact hold
    · cases h

end Opy

namespace Opy

theorem sweepAgent_cases (cfg : Cfg) (a : Ag) (v : Int) :
    (sweepAgent cfg a v = { a with fit := v, tpos := a.pos }) ∨
    (cfg.swarm = true ∧ sweepAgent cfg a v = a ∧ a.fit ≤ v) := by
  unfold sweepAgent
  by_cases hs : cfg.swarm = true
  · by_cases hv : v < a.fit
    · left; simp [hs, hv]
    · right; simp [hs, hv]; omega
  · left; simp [hs]

theorem inv_sweep (cfg : Cfg) (s s' : St) (v : Int) (tie : Bool) (ref' : Nat) (hi : Inv cfg s)
    (h : apply cfg s (.sweep v tie ref') = some s') : Inv cfg s' := by
  simp only [apply] at h
  split at h
  · cases h
  · rename_i a hai
    split at h
    · rename_i hg
      simp only [Bool.and_eq_true, decide_eq_true_eq, Bool.or_eq_true, beq_iff_eq,
        Bool.not_eq_true'] at hg
      obtain ⟨⟨⟨hcons, hv⟩, hsw⟩, htie⟩ := hg
      obtain ⟨hcl, hca⟩ := List.getElem?_eq_some_iff.1 hai
      cases h
      -- abbreviations
      generalize ha' : sweepAgent cfg a v = a' at *
      generalize hev' : s.evals ++ [(a.pos, v)] = ev' at *
      have hmono : ∀ b, Truth s.evals b → Truth ev' b := by
        intro b hb; rw [← hev']; exact Truth.mono _ hb
      have hnew : (a.pos, v) ∈ ev' := by rw [← hev']; simp
      -- F3
      have F3 : Truth ev' a' ∨ (a' = a ∧ a.fit ≤ v) := by
        rcases sweepAgent_cases cfg a v with h1 | ⟨_, h1, h2⟩
        · left; rw [← ha', h1]; exact hnew
        · right; rw [← ha', h1]; exact ⟨rfl, h2⟩
      -- F4
      have F4 : Truth s.evals a → a'.fit ≤ a.fit ∧ Truth ev' a' := by
        intro hta
        rcases sweepAgent_cases cfg a v with h1 | ⟨_, h1, h2⟩
        · rw [← ha', h1]
          refine ⟨?_, hnew⟩
          dsimp only
          by_cases hs : cfg.swarm = true
          · -- swarm: sweepAgent took the branch v < a.fit or is a (covered by other case)
            have : sweepAgent cfg a v = { a with fit := v, tpos := a.pos } := h1
            unfold sweepAgent at this
            simp only [hs, if_true] at this
            by_cases hv' : v < a.fit
            · omega
            · simp only [hv', if_false] at this
              have : a.fit = v := by
                have := congrArg Ag.fit this; simpa using this
              omega
          · rcases hsw with hs' | hs'
            · exact absurd hs' hs
            · -- consistency
              simp only [consistentB, List.all_eq_true, Bool.or_eq_true, Bool.not_eq_true',
                beq_iff_eq, beq_eq_false_iff_ne] at hcons
              have := hcons (a.tpos, a.fit) hta
              rcases this with h3 | h3
              · exact absurd hs' h3
              · dsimp only at h3; omega
        · rw [← ha', h1]; exact ⟨Int.le_refl _, hmono a hta⟩
      -- F5
      have F5 : a'.fit ≤ v := by
        rcases sweepAgent_cases cfg a v with h1 | ⟨_, h1, h2⟩
        · rw [← ha', h1]; exact Int.le_refl _
        · rw [← ha', h1]; exact h2
      have haA := hi.anch a (by rw [← hca]; exact List.getElem_mem _)
      generalize hb' : (if takes s.best a' tie = true then bestOf a' ref' else s.best) = best' at *
      have F1 : best'.fit ≤ s.best.fit := by
        rw [← hb']; split
        · rename_i ht
          simp only [takes, Bool.or_eq_true, decide_eq_true_eq, Bool.and_eq_true, beq_iff_eq] at ht
          simp only [bestOf]; rcases ht with h1 | ⟨_, h1⟩ <;> omega
        · exact Int.le_refl _
      have F2 : best'.fit ≤ a'.fit := by
        rw [← hb']; split
        · simp [bestOf]
        · rename_i ht
          simp only [takes, Bool.or_eq_true, decide_eq_true_eq, Bool.and_eq_true, beq_iff_eq,
            not_or] at ht
          omega
      have hTa' : Truth ev' a' ∨ s.best.fit ≤ a'.fit := by
        rcases F3 with h1 | ⟨h1, h2⟩
        · exact Or.inl h1
        · rw [h1]; rcases haA with h3 | h3
          · exact Or.inl (hmono a h3)
          · exact Or.inr h3
      -- all agents up to and including the cursor are no better than the best
      have allLe : ∀ j (hj : j < (s.pop.set s.cursor a').length), j < s.cursor + 1 →
          best'.fit ≤ ((s.pop.set s.cursor a')[j]'hj).fit := by
        intro j hj hjc
        by_cases hjeq : j = s.cursor
        · subst hjeq; simp only [List.getElem_set_self]; exact F2
        · have hjl : j < s.pop.length := by simpa using hj
          have : (s.pop.set s.cursor a')[j]'hj = s.pop[j] := by
            simp [List.getElem_set_ne (Ne.symm hjeq)]
          rw [this]
          have := hi.pre hcl j hjl (by omega)
          omega
      have henv' : ∀ e ∈ ev', best'.fit ≤ e.2 ∨
          ∃ b ∈ s.pop.set s.cursor a', Truth ev' b ∧ b.fit ≤ e.2 := by
        intro e he
        rw [← hev'] at he
        simp only [List.mem_append, List.mem_singleton] at he
        rcases he with he | rfl
        · rcases hi.env e he with h1 | ⟨w, hw, hwt, hwle⟩
          · left; omega
          · rcases mem_set_of_mem s.pop s.cursor a' w hcl hw with h2 | h2
            · exact Or.inr ⟨w, h2, hmono w hwt, hwle⟩
            · rw [h2, hca] at hwt hwle
              obtain ⟨h3, h4⟩ := F4 hwt
              exact Or.inr ⟨a', List.mem_set hcl a', h4, by omega⟩
        · rcases F3 with h1 | ⟨h1, h2⟩
          · exact Or.inr ⟨a', List.mem_set hcl a', h1, F5⟩
          · rcases haA with h3 | h3
            · exact Or.inr ⟨a', List.mem_set hcl a', by rw [h1]; exact hmono a h3, F5⟩
            · left; dsimp only; omega
      refine ⟨henv', ?_, ?_, ?_, ?_, ?_, ?_, ?_, hi.logSorted, ?_, ?_⟩
      · intro b hb
        rcases mem_set_cases _ _ _ _ hb with hb | rfl
        · rcases hi.anch b hb with h1 | h1
          · exact Or.inl (hmono b h1)
          · right; dsimp only; omega
        · rcases hTa' with h1 | h1
          · exact Or.inl h1
          · right; dsimp only; omega
      · -- best
        left
        rw [← hb']
        split
        · rename_i ht
          simp only [takes, Bool.or_eq_true, decide_eq_true_eq, Bool.and_eq_true, beq_iff_eq] at ht
          show (a'.tpos, a'.fit) ∈ ev'
          rcases ht with h1 | ⟨h1, h2⟩
          · rcases hTa' with h3 | h3
            · exact h3
            · omega
          · rcases htie with h3 | h3
            · simp [h1, h2] at h3
            · exact (truthB_iff _ _).1 h3
        · rename_i ht
          simp only [takes, Bool.or_eq_true, decide_eq_true_eq, Bool.and_eq_true, beq_iff_eq,
            not_or] at ht
          rcases hi.best with h1 | ⟨_, h1⟩
          · exact hmono _ h1
          · omega
      · intro e he
        rw [← hev'] at he
        simp only [List.mem_append, List.mem_singleton] at he
        rcases he with he | rfl
        · exact hi.below e he
        · exact hv
      · dsimp only; simp; omega
      · intro hlt j hj hjc
        exact allLe j hj hjc
      · intro hsw'
        dsimp only at hsw'
        simp only [beq_iff_eq] at hsw'
        refine ⟨by rw [← hev']; simp, ?_⟩
        intro e he
        rcases henv' e he with h1 | ⟨b, hb, _, hble⟩
        · exact h1
        · obtain ⟨k, hk, rfl⟩ := List.getElem_of_mem hb
          have := allLe k hk (by simp at hk; omega)
          dsimp only; omega
      · intro x hx; have := hi.logLe x hx; dsimp only; omega
      · intro hlt htp j hj hjc
        dsimp only at hlt htp hj hjc ⊢
        simp only [Bool.and_eq_true] at htp
        by_cases hjeq : j = s.cursor
        · subst hjeq; simp only [List.getElem_set_self]; exact (truthB_iff _ _).1 htp.2
        · have hjl : j < s.pop.length := by simpa using hj
          have : (s.pop.set s.cursor a')[j]'hj = s.pop[j] := by
            simp [List.getElem_set_ne (Ne.symm hjeq)]
          rw [this]
          exact hmono _ (hi.tpI hcl htp.1 j hjl (by omega))
      · intro ht b hb
        dsimp only at ht hb ⊢
        simp only [Bool.and_eq_true, beq_iff_eq] at ht
        obtain ⟨⟨hn, htp⟩, hta'⟩ := ht
        obtain ⟨k, hk, rfl⟩ := List.getElem_of_mem hb
        by_cases hkeq : k = s.cursor
        · subst hkeq; simp only [List.getElem_set_self]; exact (truthB_iff _ _).1 hta'
        · have hkl : k < s.pop.length := by simpa using hk
          have : (s.pop.set s.cursor a')[k]'hk = s.pop[k] := by
            simp [List.getElem_set_ne (Ne.symm hkeq)]
          rw [this]
          exact hmono _ (hi.tpI hcl htp k hkl (by omega))
    · cases h

/-- every event the machine accepts preserves the invariant -/
theorem inv_apply (cfg : Cfg) (s s' : St) (e : Ev) (hi : Inv cfg s)
    (h : apply cfg s e = some s') : Inv cfg s' := by
  cases e with
  | hook p => exact inv_hook cfg s s' p hi h
  | update p => exact inv_update cfg s s' p hi h
  | trial p v pop' => exact inv_trial cfg s s' p v pop' hi h
  | trialSwap p v i => exact inv_trialSwap cfg s s' p v i hi h
  | sweep v tie r => exact inv_sweep cfg s s' v tie r hi h
  | clipAll => exact inv_clipAll cfg s s' hi h
  | dump => exact inv_dump cfg s s' hi h

theorem inv_run (cfg : Cfg) (evs : List Ev) : ∀ (s s' : St), Inv cfg s → run cfg s evs = some s' →
    Inv cfg s' := by
  induction evs with
  | nil => intro s s' hi h; simp only [run] at h; cases h; exact hi
  | cons e es ih =>
    intro s s' hi h
    simp only [run] at h
    split at h
    · rename_i s1 h1
      exact ih s1 s' (inv_apply cfg s s1 e hi h1) h
    · cases h

/-- a freshly built space satisfies the invariant -/
theorem inv_init (cfg : Cfg) (pop : List Ag) (best : Ag)
    (hp : ∀ a ∈ pop, a.fit = cfg.fmax) (hb : best.fit = cfg.fmax) : Inv cfg (initSt pop best) := by
  refine ⟨?_, ?_, ?_, ?_, ?_, ?_, ?_, ?_, ?_, ?_, ?_⟩ <;> simp [initSt]
  · intro a ha; right; rw [hp a ha, hb]; exact Int.le_refl _
  · exact Or.inr hb

end Opy
