import OpyVerif.Model.Skel
import OpyVerif.Proofs.C02
import OpyVerif.Proofs.C06
/-!
Helper definitions and lemmas for `Proofs/C01.lean`, `C07.lean`, `C20.lean`:
evaluation-site semantics (`runOps`), per-event descriptions of the machine (`apply`),
storage identities (`refsOf`), the greedy monitor (`greedyRun`) and ordered insertion.
-/
set_option linter.unusedVariables false
namespace Opy

/-! ### evaluation sites -/

/-- semantics of an evaluation site: the current position is replaced by oracle values
    (`assign`), clipped (`clip`) or handed to the objective (`eval`); the result is the list
    of evaluated positions in order.  An exhausted oracle leaves the position alone. -/
def runOps (lbs ubs : List Int) : Pos → List SiteOp → List Pos → List Pos
  | _, [], _ => []
  | _, .assign :: rest, p :: orc => runOps lbs ubs p rest orc
  | cur, .assign :: rest, [] => runOps lbs ubs cur rest []
  | cur, .clip :: rest, orc => runOps lbs ubs (clipPos lbs ubs cur) rest orc
  | cur, .eval :: rest, orc => cur :: runOps lbs ubs cur rest orc

theorem inBox_length (lbs ubs : List Int) (p : Pos) (h : InBox lbs ubs p) :
    p.length = lbs.length := by
  induction p generalizing lbs ubs with
  | nil => cases lbs <;> cases ubs <;> simp_all [InBox]
  | cons r rows ih =>
    cases lbs with
    | nil => simp [InBox] at h
    | cons l lbs =>
      cases ubs with
      | nil => simp [InBox] at h
      | cons u ubs =>
        simp only [InBox] at h
        simp [ih lbs ubs h.2]

/-- the scanning invariant of `opsOk`: `ok = true` means "the current position is feasible" -/
theorem runOps_inBox (lbs ubs : List Int) (hb : BoundsOk lbs ubs) (ops : List SiteOp) :
    ∀ (ok : Bool) (cur : Pos) (oracle : List Pos), cur.length = lbs.length →
      (∀ p ∈ oracle, p.length = lbs.length) → (ok = true → InBox lbs ubs cur) →
      opsOk ok ops = true → ∀ q ∈ runOps lbs ubs cur ops oracle, InBox lbs ubs q := by
  induction ops with
  | nil => intro ok cur oracle _ _ _ _ q hq; simp [runOps] at hq
  | cons op rest ih =>
    intro ok cur oracle hlen horc hok hops q hq
    cases op with
    | assign =>
      simp only [opsOk] at hops
      cases oracle with
      | nil =>
        simp only [runOps] at hq
        exact ih false cur [] hlen horc (by simp) hops q hq
      | cons p orc =>
        simp only [runOps] at hq
        exact ih false p orc (horc p (by simp)) (fun x hx => horc x (by simp [hx])) (by simp)
          hops q hq
    | clip =>
      simp only [opsOk] at hops
      simp only [runOps] at hq
      exact ih true (clipPos lbs ubs cur) oracle (by rw [clipPos_length]; exact hlen) horc
        (fun _ => clipPos_inBox lbs ubs cur hb hlen.symm) hops q hq
    | eval =>
      simp only [opsOk, Bool.and_eq_true] at hops
      simp only [runOps, List.mem_cons] at hq
      rcases hq with rfl | hq
      · exact hok hops.1
      · exact ih ok cur oracle hlen horc hok hops.2 q hq

/-! ### what each accepted event does (full successor state) -/

def Ev.isSweep : Ev → Bool
  | .sweep _ _ _ => true
  | _ => false

def Ev.isSwap : Ev → Bool
  | .trialSwap _ _ _ => true
  | _ => false

theorem hook_spec (cfg : Cfg) (s s' : St) (pop' : List Ag)
    (h : apply cfg s (.hook pop') = some s') :
    pop'.length = s.pop.length ∧ s.cursor = s.pop.length ∧
    s' = { s with pop := pop', cursor := 0, tp := true, hooks := s.hooks + 1, sinceHook := 0,
                  truthful := s.truthful && pop'.all (truthB s.evals) } := by
  simp only [apply] at h
  split at h
  · rename_i hg
    simp only [Bool.and_eq_true, beq_iff_eq] at hg
    cases h
    exact ⟨hg.1.2, hg.2, rfl⟩
  · cases h

theorem update_spec (cfg : Cfg) (s s' : St) (pop' : List Ag)
    (h : apply cfg s (.update pop') = some s') :
    pop'.length = s.pop.length ∧ s.cursor = s.pop.length ∧
    s' = { s with pop := pop', truthful := s.truthful && pop'.all (truthB s.evals) } := by
  simp only [apply] at h
  split at h
  · rename_i hg
    simp only [Bool.and_eq_true, beq_iff_eq] at hg
    cases h
    exact ⟨hg.1.2, hg.2, rfl⟩
  · cases h

theorem trial_spec (cfg : Cfg) (s s' : St) (p : Pos) (v : Int) (pop' : List Ag)
    (h : apply cfg s (.trial p v pop') = some s') :
    pop'.length = s.pop.length ∧ s.cursor = s.pop.length ∧
    s' = { s with pop := pop', evals := s.evals ++ [(p, v)], swept := false,
                  sinceHook := s.sinceHook + 1,
                  truthful := s.truthful && pop'.all (truthB (s.evals ++ [(p, v)])) } := by
  simp only [apply] at h
  split at h
  · rename_i hg
    simp only [Bool.and_eq_true, beq_iff_eq] at hg
    cases h
    exact ⟨hg.1.2, hg.2, rfl⟩
  · cases h

theorem trialSwap_spec (cfg : Cfg) (s s' : St) (p : Pos) (v : Int) (i : Nat)
    (h : apply cfg s (.trialSwap p v i) = some s') :
    ∃ a, s.pop[i]? = some a ∧ a.pos = p ∧ s.cursor = s.pop.length ∧
    s' = { s with pop := s.pop.set i { pos := s.best.pos, tpos := s.best.tpos, fit := s.best.fit,
                                       ref := s.best.ref },
                  best := { pos := p, tpos := p, fit := v, ref := a.ref },
                  evals := s.evals ++ [(p, v)], swept := false, sinceHook := s.sinceHook + 1 } := by
  simp only [apply] at h
  split at h
  · cases h
  · rename_i a hai
    split at h
    · rename_i hg
      simp only [Bool.and_eq_true, beq_iff_eq] at hg
      cases h
      exact ⟨a, hai, hg.1.1.2, hg.1.2, rfl⟩
    · cases h

theorem sweep_spec (cfg : Cfg) (s s' : St) (v : Int) (tie : Bool) (r : Nat)
    (h : apply cfg s (.sweep v tie r) = some s') :
    ∃ a, s.pop[s.cursor]? = some a ∧ consistentB s.evals a.pos v = true ∧
    (cfg.swarm = true ∨ a.tpos = a.pos) ∧
    s' = { s with pop := s.pop.set s.cursor (sweepAgent cfg a v),
                  best := if takes s.best (sweepAgent cfg a v) tie then bestOf (sweepAgent cfg a v) r
                          else s.best,
                  evals := s.evals ++ [(a.pos, v)],
                  cursor := s.cursor + 1,
                  swept := (s.cursor + 1 == s.pop.length),
                  tp := s.tp && truthB (s.evals ++ [(a.pos, v)]) (sweepAgent cfg a v),
                  truthful := (s.cursor + 1 == s.pop.length) && s.tp &&
                    truthB (s.evals ++ [(a.pos, v)]) (sweepAgent cfg a v),
                  sinceHook := s.sinceHook + 1 } := by
  simp only [apply] at h
  split at h
  · cases h
  · rename_i a hai
    split at h
    · rename_i hg
      simp only [Bool.and_eq_true, beq_iff_eq, Bool.or_eq_true] at hg
      cases h
      exact ⟨a, hai, hg.1.1.1, hg.1.2, rfl⟩
    · cases h

theorem clipAll_spec (cfg : Cfg) (s s' : St) (h : apply cfg s .clipAll = some s') :
    s.cursor = s.pop.length ∧
    s' = { s with pop := s.pop.map (clipAg cfg),
                  truthful := s.truthful && (s.pop.map (clipAg cfg)).all (truthB s.evals) } := by
  simp only [apply] at h
  split at h
  · rename_i hg
    simp only [beq_iff_eq] at hg
    split at h
    · cases h; exact ⟨hg, rfl⟩
    · cases h
  · cases h

theorem dump_spec (cfg : Cfg) (s s' : St) (h : apply cfg s .dump = some s') :
    s.swept = true ∧ s.cursor = s.pop.length ∧
    s' = { s with dumps := s.dumps + 1, bestLog := s.bestLog ++ [s.best.fit],
                  truthLog := s.truthLog ++ [s.truthful],
                  fitLog := s.fitLog ++ [s.pop.map (·.fit)] } := by
  simp only [apply] at h
  split at h
  · rename_i hg
    simp only [Bool.and_eq_true, beq_iff_eq] at hg
    cases h; exact ⟨hg.1, hg.2, rfl⟩
  · cases h

theorem sweepAgent_pos (cfg : Cfg) (a : Ag) (v : Int) : (sweepAgent cfg a v).pos = a.pos := by
  unfold sweepAgent; split
  · split <;> rfl
  · rfl

theorem sweepAgent_ref (cfg : Cfg) (a : Ag) (v : Int) : (sweepAgent cfg a v).ref = a.ref := by
  unfold sweepAgent; split
  · split <;> rfl
  · rfl

/-- splitting a run at its first event -/
theorem run_cons (cfg : Cfg) (s s' : St) (e : Ev) (es : List Ev) (h : run cfg s (e :: es) = some s') :
    ∃ s1, apply cfg s e = some s1 ∧ run cfg s1 es = some s' := by
  simp only [run] at h
  split at h
  · rename_i s1 h1; exact ⟨s1, h1, h⟩
  · cases h

/-- splitting a run in two -/
theorem run_split (cfg : Cfg) (a b : List Ev) (s s' : St) (h : run cfg s (a ++ b) = some s') :
    ∃ s1, run cfg s a = some s1 ∧ run cfg s1 b = some s' := by
  rw [run_append] at h
  cases h1 : run cfg s a with
  | none => simp [h1] at h
  | some s1 => simp only [h1, Option.bind_some] at h; exact ⟨s1, rfl, h⟩

/-! ### storage identities -/

/-- storage identities of the agents (population order) followed by that of the best -/
def refsOf (s : St) : List Nat := s.pop.map (·.ref) ++ [s.best.ref]

/-- no two of the `n + 1` agents share their position storage -/
def RefsOk (s : St) : Prop := (refsOf s).Nodup

instance (s : St) : Decidable (RefsOk s) := by unfold RefsOk; exact inferInstance

/-- overwriting an entry by one with the same image leaves the image list unchanged -/
theorem map_set_same {α β : Type} (f : α → β) (l : List α) (i : Nat) (x a : α)
    (hi : l[i]? = some a) (h : f x = f a) : (l.set i x).map f = l.map f := by
  obtain ⟨hil, hia⟩ := List.getElem?_eq_some_iff.1 hi
  rw [List.map_set, h, ← hia]
  have : f l[i] = (l.map f)[i]'(by simpa using hil) := by simp
  rw [this, List.set_getElem_self]

/-- exchanging entry `i` with an outside element is a permutation of "list ++ [outside]" -/
theorem perm_set_swap (l : List Nat) (x : Nat) : ∀ (i : Nat) (hi : i < l.length),
    (l.set i x ++ [l[i]]).Perm (l ++ [x]) := by
  induction l with
  | nil => intro i hi; simp at hi
  | cons y ys ih =>
    intro i hi
    cases i with
    | zero =>
      simp only [List.set_cons_zero, List.getElem_cons_zero, List.cons_append]
      have h1 : (x :: (ys ++ [y])).Perm (x :: y :: ys) :=
        List.Perm.cons x (List.perm_append_singleton y ys)
      have h2 : (x :: y :: ys).Perm (y :: x :: ys) := List.Perm.swap y x ys
      have h3 : (y :: x :: ys).Perm (y :: (ys ++ [x])) :=
        List.Perm.cons y (List.perm_append_singleton x ys).symm
      exact h1.trans (h2.trans h3)
    | succ k =>
      simp only [List.set_cons_succ, List.getElem_cons_succ, List.cons_append]
      exact List.Perm.cons y (ih k (by simpa using hi))

theorem nodup_concat (l : List Nat) (x : Nat) : (l ++ [x]).Nodup ↔ l.Nodup ∧ x ∉ l := by
  rw [(List.perm_append_singleton x l).nodup_iff, List.nodup_cons]
  exact ⟨fun h => ⟨h.2, h.1⟩, fun h => ⟨h.2, h.1⟩⟩

/-! ### index-wise comparison of fitness vectors -/

/-- same length and index-wise `≤` -/
def rowLeB : List Int → List Int → Bool
  | [], [] => true
  | x :: xs, y :: ys => decide (x ≤ y) && rowLeB xs ys
  | _, _ => false

theorem rowLeB_iff (a b : List Int) : rowLeB a b = true ↔
    a.length = b.length ∧ ∀ i (h1 : i < a.length) (h2 : i < b.length), a[i] ≤ b[i] := by
  induction a generalizing b with
  | nil => cases b <;> simp [rowLeB]
  | cons x xs ih =>
    cases b with
    | nil => simp [rowLeB]
    | cons y ys =>
      simp only [rowLeB, Bool.and_eq_true, decide_eq_true_eq, ih, List.length_cons]
      constructor
      · rintro ⟨h0, hl, hi⟩
        refine ⟨by omega, ?_⟩
        intro i h1 h2
        cases i with
        | zero => simpa using h0
        | succ k =>
          simp only [List.getElem_cons_succ]
          exact hi k (by simpa using h1) (by simpa using h2)
      · rintro ⟨hl, hi⟩
        refine ⟨by simpa using hi 0 (by simp) (by simp), by omega, ?_⟩
        intro i h1 h2
        have := hi (i + 1) (by simp; omega) (by simp; omega)
        simp only [List.getElem_cons_succ] at this
        exact this

theorem rowLeB_refl (a : List Int) : rowLeB a a = true := by
  rw [rowLeB_iff]; exact ⟨rfl, fun i _ _ => Int.le_refl _⟩

theorem rowLeB_trans (a b c : List Int) (h1 : rowLeB a b = true) (h2 : rowLeB b c = true) :
    rowLeB a c = true := by
  rw [rowLeB_iff] at *
  refine ⟨h1.1.trans h2.1, ?_⟩
  intro i ha hc
  have hb : i < b.length := by omega
  exact Int.le_trans (h1.2 i ha hb) (h2.2 i hb hc)

/-- the population keeps its size and no agent's fitness went up (population order fixed) -/
def fitsLe (new old : List Ag) : Bool := rowLeB (new.map (·.fit)) (old.map (·.fit))

theorem fitsLe_iff (new old : List Ag) : fitsLe new old = true ↔
    new.length = old.length ∧
      ∀ i (h1 : i < new.length) (h2 : i < old.length), new[i].fit ≤ old[i].fit := by
  unfold fitsLe
  rw [rowLeB_iff]
  simp only [List.length_map, List.getElem_map]

theorem fitsLe_refl (a : List Ag) : fitsLe a a = true := rowLeB_refl _

theorem fitsLe_trans (a b c : List Ag) (h1 : fitsLe a b = true) (h2 : fitsLe b c = true) :
    fitsLe a c = true := rowLeB_trans _ _ _ h1 h2

theorem fitsLe_of_map_eq (a b : List Ag) (h : a.map (·.fit) = b.map (·.fit)) :
    fitsLe a b = true := by
  unfold fitsLe; rw [h]; exact rowLeB_refl _

theorem fitsLe_set (l : List Ag) (i : Nat) (a a' : Ag) (hi : l[i]? = some a)
    (h : a'.fit ≤ a.fit) : fitsLe (l.set i a') l = true := by
  obtain ⟨hil, hia⟩ := List.getElem?_eq_some_iff.1 hi
  rw [fitsLe_iff]
  refine ⟨by simp, ?_⟩
  intro j h1 h2
  rw [List.getElem_set]
  split
  · rename_i hij; subst hij; rw [hia]; exact h
  · exact Int.le_refl _

/-! ### sweep step: fitness of the swept agent -/

theorem sweepAgent_fit_nonswarm (cfg : Cfg) (a : Ag) (v : Int) (hs : cfg.swarm = false) :
    sweepAgent cfg a v = { a with fit := v, tpos := a.pos } := by
  unfold sweepAgent; simp [hs]

theorem sweepAgent_fit_le (cfg : Cfg) (a : Ag) (v : Int) (hs : cfg.swarm = true) :
    (sweepAgent cfg a v).fit ≤ a.fit := by
  unfold sweepAgent
  simp only [hs, if_true]
  split
  · dsimp only; omega
  · exact Int.le_refl _

/-- determinism guard: a truthful record at the evaluated position fixes the value -/
theorem consistent_truth_fit (ev : List (Pos × Int)) (a : Ag) (v : Int)
    (hc : consistentB ev a.pos v = true) (ht : a.tpos = a.pos) (hT : Truth ev a) : a.fit = v := by
  simp only [consistentB, List.all_eq_true, Bool.or_eq_true, Bool.not_eq_true',
    beq_iff_eq, beq_eq_false_iff_ne] at hc
  rcases hc (a.tpos, a.fit) hT with h | h
  · exact absurd ht h
  · exact h

/-! ### the greedy monitor -/

/-- what a greedy optimiser's observable steps look like: population changes never raise a
    fitness; the sweep re-evaluates unmoved truthful agents (or keeps personal bests) -/
def greedyStep (cfg : Cfg) (s : St) : Ev → Bool
  | .hook pop' => fitsLe pop' s.pop
  | .update pop' => fitsLe pop' s.pop
  | .trial _ _ pop' => fitsLe pop' s.pop
  | .sweep _ _ _ =>
    cfg.swarm || (match s.pop[s.cursor]? with | some a => truthB s.evals a | none => false)
  | .trialSwap _ _ _ => false
  | .clipAll => true
  | .dump => true

/-- `greedyStep` holds before every event of the (accepted) history -/
def greedyRun (cfg : Cfg) : St → List Ev → Bool
  | _, [] => true
  | s, e :: es =>
    greedyStep cfg s e &&
      (match apply cfg s e with
       | some s' => greedyRun cfg s' es
       | none => false)

theorem greedy_step_fits (cfg : Cfg) (s s' : St) (e : Ev) (hg : greedyStep cfg s e = true)
    (h : apply cfg s e = some s') : fitsLe s'.pop s.pop = true := by
  cases e with
  | hook pop' => obtain ⟨_, _, rfl⟩ := hook_spec cfg s s' pop' h; exact hg
  | update pop' => obtain ⟨_, _, rfl⟩ := update_spec cfg s s' pop' h; exact hg
  | trial p v pop' => obtain ⟨_, _, rfl⟩ := trial_spec cfg s s' p v pop' h; exact hg
  | trialSwap p v i => simp [greedyStep] at hg
  | sweep v tie r =>
    obtain ⟨a, hai, hcons, hsw, rfl⟩ := sweep_spec cfg s s' v tie r h
    dsimp only
    apply fitsLe_set s.pop s.cursor a _ hai
    by_cases hs : cfg.swarm = true
    · exact sweepAgent_fit_le cfg a v hs
    · have hs' : cfg.swarm = false := by simpa using hs
      simp only [greedyStep, hs', Bool.false_or, hai] at hg
      rcases hsw with h1 | h1
      · exact absurd h1 hs
      · rw [sweepAgent_fit_nonswarm cfg a v hs']
        dsimp only
        rw [consistent_truth_fit s.evals a v hcons h1 ((truthB_iff _ _).1 hg)]
        exact Int.le_refl _
  | clipAll =>
    obtain ⟨_, rfl⟩ := clipAll_spec cfg s s' h
    apply fitsLe_of_map_eq
    dsimp only
    rw [List.map_map]; rfl
  | dump => obtain ⟨_, _, rfl⟩ := dump_spec cfg s s' h; exact fitsLe_refl _

/-- how an accepted event changes the fitness log -/
theorem apply_fitLog (cfg : Cfg) (s s' : St) (e : Ev) (h : apply cfg s e = some s') :
    s'.fitLog = s.fitLog ∨ (s'.fitLog = s.fitLog ++ [s.pop.map (·.fit)] ∧ s'.pop = s.pop) := by
  cases e with
  | hook pop' => obtain ⟨_, _, rfl⟩ := hook_spec cfg s s' pop' h; exact Or.inl rfl
  | update pop' => obtain ⟨_, _, rfl⟩ := update_spec cfg s s' pop' h; exact Or.inl rfl
  | trial p v pop' => obtain ⟨_, _, rfl⟩ := trial_spec cfg s s' p v pop' h; exact Or.inl rfl
  | trialSwap p v i => obtain ⟨a, _, _, _, rfl⟩ := trialSwap_spec cfg s s' p v i h; exact Or.inl rfl
  | sweep v tie r => obtain ⟨a, _, _, _, rfl⟩ := sweep_spec cfg s s' v tie r h; exact Or.inl rfl
  | clipAll => obtain ⟨_, rfl⟩ := clipAll_spec cfg s s' h; exact Or.inl rfl
  | dump => obtain ⟨_, _, rfl⟩ := dump_spec cfg s s' h; exact Or.inr ⟨rfl, rfl⟩

/-- the rows a greedy history appends to the fitness log: each is index-wise between the
    final and the initial population, and later rows are index-wise below earlier ones -/
theorem greedy_log (cfg : Cfg) (evs : List Ev) : ∀ (s s' : St), greedyRun cfg s evs = true →
    run cfg s evs = some s' →
    fitsLe s'.pop s.pop = true ∧
    ∃ rows, s'.fitLog = s.fitLog ++ rows ∧
      rows.Pairwise (fun r1 r2 => rowLeB r2 r1 = true) ∧
      ∀ r ∈ rows, rowLeB (s'.pop.map (·.fit)) r = true ∧ rowLeB r (s.pop.map (·.fit)) = true := by
  induction evs with
  | nil =>
    intro s s' _ h
    simp only [run] at h; cases h
    exact ⟨fitsLe_refl _, [], by simp, List.Pairwise.nil, by simp⟩
  | cons e es ih =>
    intro s s' hg h
    obtain ⟨s1, h1, h2⟩ := run_cons cfg s s' e es h
    simp only [greedyRun, h1, Bool.and_eq_true] at hg
    obtain ⟨hge, hgr⟩ := hg
    have hstep := greedy_step_fits cfg s s1 e hge h1
    obtain ⟨hfit, rows, hlog, hpw, hrows⟩ := ih s1 s' hgr h2
    refine ⟨fitsLe_trans _ _ _ hfit hstep, ?_⟩
    rcases apply_fitLog cfg s s1 e h1 with hl | ⟨hl, hpop⟩
    · refine ⟨rows, by rw [hlog, hl], hpw, ?_⟩
      intro r hr
      exact ⟨(hrows r hr).1, rowLeB_trans _ _ _ (hrows r hr).2 hstep⟩
    · refine ⟨s.pop.map (·.fit) :: rows, by rw [hlog, hl]; simp, ?_, ?_⟩
      · rw [List.pairwise_cons]
        refine ⟨?_, hpw⟩
        intro r hr
        have := (hrows r hr).2
        rw [hpop] at this; exact this
      · intro r hr
        simp only [List.mem_cons] at hr
        rcases hr with rfl | hr
        · refine ⟨?_, rowLeB_refl _⟩
          have := hfit; rw [hpop] at this; exact this
        · exact ⟨(hrows r hr).1, rowLeB_trans _ _ _ (hrows r hr).2 hstep⟩

/-! ### ordered insertion (harmony memory) -/

def insertSorted (v : Int) : List Int → List Int
  | [] => [v]
  | x :: xs => if v ≤ x then v :: x :: xs else x :: insertSorted v xs

/-- harmony search: the new harmony replaces the worst one if it is strictly better, and the
    memory is kept sorted -/
def replaceWorst (v : Int) (l : List Int) : List Int :=
  match l.getLast? with
  | some w => if v < w then insertSorted v l.dropLast else l
  | none => l

theorem mem_insertSorted (v : Int) (l : List Int) (y : Int) :
    y ∈ insertSorted v l ↔ y = v ∨ y ∈ l := by
  induction l with
  | nil => simp [insertSorted]
  | cons x xs ih =>
    unfold insertSorted
    split
    · simp
    · simp only [List.mem_cons, ih]
      constructor
      · rintro (h | h | h)
        · exact Or.inr (Or.inl h)
        · exact Or.inl h
        · exact Or.inr (Or.inr h)
      · rintro (h | h | h)
        · exact Or.inr (Or.inl h)
        · exact Or.inl h
        · exact Or.inr (Or.inr h)

theorem insertSorted_length (v : Int) (l : List Int) :
    (insertSorted v l).length = l.length + 1 := by
  induction l with
  | nil => simp [insertSorted]
  | cons x xs ih =>
    unfold insertSorted
    split
    · simp
    · simp [ih]

theorem insertSorted_sorted (v : Int) (l : List Int) (h : l.Pairwise (· ≤ ·)) :
    (insertSorted v l).Pairwise (· ≤ ·) := by
  induction l with
  | nil => simp [insertSorted]
  | cons x xs ih =>
    rw [List.pairwise_cons] at h
    unfold insertSorted
    split
    · rename_i hv
      rw [List.pairwise_cons]
      refine ⟨?_, List.pairwise_cons.2 h⟩
      intro y hy
      simp only [List.mem_cons] at hy
      rcases hy with rfl | hy
      · exact hv
      · have := h.1 y hy; omega
    · rename_i hv
      rw [List.pairwise_cons]
      refine ⟨?_, ih h.2⟩
      intro y hy
      rcases (mem_insertSorted v xs y).1 hy with rfl | hy
      · omega
      · exact h.1 y hy

/-- in a sorted list every entry is below its successor -/
theorem sorted_shift (xs : List Int) (w : Int) : ∀ (x : Int),
    (x :: (xs ++ [w])).Pairwise (· ≤ ·) → rowLeB (x :: xs) (xs ++ [w]) = true := by
  induction xs with
  | nil =>
    intro x h
    rw [List.pairwise_cons] at h
    simp [rowLeB, h.1 w (by simp)]
  | cons y ys ih =>
    intro x h
    rw [List.pairwise_cons] at h
    simp only [List.cons_append, rowLeB, Bool.and_eq_true, decide_eq_true_eq]
    exact ⟨h.1 y (by simp), ih y h.2⟩

theorem insertSorted_rowLe (v w : Int) (hv : v ≤ w) (l : List Int)
    (h : (l ++ [w]).Pairwise (· ≤ ·)) : rowLeB (insertSorted v l) (l ++ [w]) = true := by
  induction l with
  | nil => simp [insertSorted, rowLeB, hv]
  | cons x xs ih =>
    unfold insertSorted
    split
    · rename_i hvx
      simp only [List.cons_append, rowLeB, Bool.and_eq_true, decide_eq_true_eq]
      exact ⟨hvx, sorted_shift xs w x h⟩
    · simp only [List.cons_append, rowLeB, Bool.and_eq_true, decide_eq_true_eq]
      rw [List.cons_append, List.pairwise_cons] at h
      exact ⟨Int.le_refl _, ih h.2⟩

/-- a greedy history is greedy on both sides of any split point -/
theorem greedyRun_split (cfg : Cfg) (a b : List Ev) : ∀ (s s1 : St),
    greedyRun cfg s (a ++ b) = true → run cfg s a = some s1 →
    greedyRun cfg s a = true ∧ greedyRun cfg s1 b = true := by
  induction a with
  | nil => intro s s1 hg h; simp only [run] at h; cases h; exact ⟨rfl, hg⟩
  | cons e es ih =>
    intro s s1 hg h
    obtain ⟨s2, h2, h3⟩ := run_cons cfg s s1 e es h
    simp only [List.cons_append, greedyRun, h2, Bool.and_eq_true] at hg ⊢
    obtain ⟨hr1, hr2⟩ := ih s2 s1 hg.2 h3
    exact ⟨⟨hg.1, hr1⟩, hr2⟩

/-! ### concrete instances used by the non-vacuity examples -/

def c01Cfg : Cfg := { fmax := 100, swarm := false, lbs := [0], ubs := [9] }
def c01Pop : List Ag :=
  [{ pos := [[-3]], tpos := [[-3]], fit := 100, ref := 1 }, { pos := [[50]], tpos := [[50]], fit := 100, ref := 2 }]
def c01Best : Ag := { pos := [[0]], tpos := [[0]], fit := 100, ref := 0 }
/-- the population as the hook leaves it: positions as clipped (records re-anchored) -/
def c01Pop' : List Ag :=
  [{ pos := [[0]], tpos := [[0]], fit := 100, ref := 1 }, { pos := [[9]], tpos := [[9]], fit := 100, ref := 2 }]

/-- first iteration of the C02 demo (hook, sweep, dump) … -/
def c20Pre : List Ev := [.hook demoPop, .sweep 10 false 3, .sweep 4 false 4, .dump]
def c20Pop2 : List Ag :=
  [{ pos := [[2]], tpos := [[2]], fit := 3, ref := 1 }, { pos := [[5]], tpos := [[5]], fit := 4, ref := 2 }]
/-- … and a greedy second iteration: an accepted trial, clip, hook, re-evaluation, dump -/
def c20Greedy : List Ev :=
  [.trial [[2]] 3 c20Pop2, .clipAll, .hook c20Pop2, .sweep 3 false 5, .sweep 4 false 6, .dump]
/-- a swarm configuration and a history in which a personal best is kept -/
def c20Swarm : Cfg := { fmax := 100, swarm := true, lbs := [0], ubs := [9] }

end Opy
