import OpyVerif.Proofs.InitProg
import OpyVerif.Generated.Init.hyperInit_eq
/-!
C06 (construction clause) about the *translated* `_initialize_agents` methods.
-/
namespace Opy

/-- hypercomplex spaces: every row is asked from the unit interval and the agents keep the unit bounds, whatever bounds
    the space declares -/
theorem code_hyperInit (lbs ubs : List Int) (v : Nat) (draws : List Pos)
    (hd : ∀ p ∈ draws, InBox (List.replicate v keyZero) (List.replicate v keyOne) p) :
    ∃ agents, Gen.hyperInit.run lbs ubs v draws = some agents ∧
      Gen.hyperInit.ranges lbs ubs v = List.replicate v (keyZero, keyOne) ∧
      ∀ a ∈ agents, InBox (List.replicate v keyZero) (List.replicate v keyOne) a.pos ∧
        a.lb = List.replicate v keyZero ∧ a.ub = List.replicate v keyOne := by
  rw [Gen.hyperInit_eq]
  exact ⟨_, hyperInit_is_initHyper lbs ubs v draws, hyperInit_ranges lbs ubs v, initHyper_feasible v draws hd⟩

end Opy
