import OpyVerif.Model.NodeWalk
/-!
The expected `pre_order` / `post_order` programs, run by the interpreter, are `PNode.preLoop` / `PNode.postLoop`
— for every tree, stack, output and amount of fuel.  `Proofs/C11.preOrder_eq_pre` / `postOrder_eq_post` then say
they are the recursive traversals.
-/
namespace Opy
open PNode

/-- one turn of the `pre_order` loop body from a state whose stack is `n :: st` -/
theorem pre_body_step (fuel : Nat) (sf : PNode) (c n : PNode) (st out : List PNode) :
    exec fuel (WStmt.block [.popToCur, .emitCur, .ifThenElse .curRightNotNone (.push .curRight) .skip,
                            .ifThenElse .curLeftNotNone (.push .curLeft) .skip])
        { self_ := sf, cur := c, stack := n :: st, out := out } =
      { self_ := sf, cur := n,
        stack := (let s1 := if n.rightOf.isNil then st else n.rightOf :: st
                  if n.leftOf.isNil then s1 else n.leftOf :: s1),
        out := out ++ [n] } := by
  by_cases hr : n.rightOf.isNil <;> by_cases hl : n.leftOf.isNil <;>
    simp [WStmt.block, exec, WCond.eval, WExpr.eval, hr, hl]

/-- the loop is `preLoop` on the stack and the output, whatever the fuel -/
theorem pre_loop_eq (fuel : Nat) (sf c : PNode) (st out : List PNode) :
    (exec fuel Expected.preOrderLoop { self_ := sf, cur := c, stack := st, out := out }).out = preLoop fuel st out := by
  induction fuel generalizing c st out with
  | zero => simp [Expected.preOrderLoop, exec, preLoop]
  | succ fuel ih =>
    cases st with
    | nil => simp [Expected.preOrderLoop, exec, WCond.eval, preLoop]
    | cons n st =>
      have hb := pre_body_step fuel sf c n st out
      simp only [Expected.preOrderLoop, WStmt.block] at ih hb ⊢
      rw [exec]
      simp only [WCond.eval, List.isEmpty_cons, Bool.not_false, if_true]
      rw [hb, ih]
      simp [preLoop]

/-- the whole method: `stacked = [self]`, then the loop, with `size` turns of fuel, is `preOrder` -/
theorem pre_program_is_preOrder (t : PNode) :
    runWalk Expected.preOrderInit Expected.preOrderLoop t.size t = t.preOrder := by
  simp [runWalk, Expected.preOrderInit, exec, WExpr.eval, pre_loop_eq, preOrder]

theorem postLoop_nil_nil (fuel : Nat) (out : List PNode) : postLoop fuel nil [] out = out := by
  cases fuel <;> simp [postLoop]

/-- the loop is `postLoop` on cursor, stack and output, whatever the fuel — from every state the method can be
    in at the top of the outer loop (a cursor, or a non-empty stack) -/
theorem post_loop_eq (fuel : Nat) (sf c : PNode) (st out : List PNode) (h : c ≠ nil ∨ st ≠ []) :
    (exec fuel Expected.postOrderLoop { self_ := sf, cur := c, stack := st, out := out }).out = postLoop fuel c st out := by
  induction fuel generalizing c st out with
  | zero => simp [Expected.postOrderLoop, exec, postLoop]
  | succ fuel ih =>
    simp only [Expected.postOrderLoop, WStmt.block] at ih ⊢
    cases c with
    | mk i lb par flag l r =>
      rw [exec]
      cases r with
      | nil =>
        have := ih l (mk i lb par flag l nil :: st) out (Or.inr (by simp))
        simp [WStmt.block, WCond.eval, PNode.isNil, exec, WExpr.eval, rightOf, leftOf, this, postLoop]
      | mk i2 lb2 par2 flag2 l2 r2 =>
        have := ih l (mk i lb par flag l (mk i2 lb2 par2 flag2 l2 r2) :: mk i2 lb2 par2 flag2 l2 r2 :: st) out (Or.inr (by simp))
        simp [WStmt.block, WCond.eval, PNode.isNil, exec, WExpr.eval, rightOf, leftOf, this, postLoop]
    | nil =>
      rw [exec]
      cases st with
      | nil => simp at h
      | cons n st =>
        cases st with
        | nil =>
          cases hn : n.rightOf <;>
            simp [WStmt.block, WCond.eval, PNode.isNil, exec, WExpr.eval, hn, postLoop, postLoop_nil_nil]
        | cons top rest =>
          cases hn : n.rightOf with
          | nil =>
            have := ih nil (top :: rest) (out ++ [n]) (Or.inr (by simp))
            simp [WStmt.block, WCond.eval, PNode.isNil, exec, WExpr.eval, hn, this, postLoop]
          | mk i2 lb2 par2 flag2 l2 r2 =>
            have hrid : (mk i2 lb2 par2 flag2 l2 r2).id? = some i2 := rfl
            by_cases hid : top.id? = some i2
            · have := ih (mk i2 lb2 par2 flag2 l2 r2) (n :: rest) out (Or.inl (by simp))
              simp [WStmt.block, WCond.eval, PNode.isNil, exec, WExpr.eval, hn, this, postLoop, hrid, hid]
            · have := ih nil (top :: rest) (out ++ [n]) (Or.inr (by simp))
              simp [WStmt.block, WCond.eval, PNode.isNil, exec, WExpr.eval, hn, this, postLoop, hrid, hid]

/-- the whole `post_order` method on a non-empty tree is `postOrder` -/
theorem post_program_is_postOrder (t : PNode) (h : t ≠ nil) :
    runPost Expected.postOrderLoop (t.cost + 1) t = t.postOrder := by
  simp [runPost, postOrder, post_loop_eq _ t t [] [] (Or.inl h)]

end Opy
