import OpyVerif.Model.EvalProg
namespace Opy
open Elem

section
variable {α : Type} [Elem α]

/-- the expected reading of `_evaluate` is `evalTree`, for every tree and every environment of terminal arrays -/
theorem evalProg_is_evalTree (eps : α) (env : Nat → Option (List α)) :
    ∀ t : PNode, Expected.evalProg.run eps env t = evalTree eps env t := by
  intro t
  induction t with
  | nil => rfl
  | mk i lb p f l r ihl ihr =>
    simp only [EvalProg.run, evalTree, ihl, ihr]
    by_cases ht : lb.isTerm = true
    · simp [ht, Expected.evalProg]
    · simp only [ht, Bool.false_eq_true, if_false]
      have hg : Expected.evalProg.guardsNone = true := rfl
      have hx : Expected.evalProg.xFrom = .left := rfl
      have hy : Expected.evalProg.yFrom = .right := rfl
      have ho : Expected.evalProg.ops = expectedOps := rfl
      simp only [hg, hx, hy, ho, EvalProg.pick, Bool.not_true, Bool.false_eq_true, if_false]
      rcases Nat.lt_or_ge lb.name 10 with h | h
      · have : lb.name = 0 ∨ lb.name = 1 ∨ lb.name = 2 ∨ lb.name = 3 ∨ lb.name = 4 ∨ lb.name = 5 ∨ lb.name = 6 ∨
            lb.name = 7 ∨ lb.name = 8 ∨ lb.name = 9 := by omega
        rcases this with e | e | e | e | e | e | e | e | e | e <;>
          rw [e] <;>
          cases evalTree eps env l <;> cases evalTree eps env r <;>
          simp [expectedOps, OpExpr.usesY, OpExpr.eval, binOp, unOp]
      · have h1 : expectedOps[lb.name]? = none := by
          simp [expectedOps]; omega
        have h2 : binOp eps lb.name = none := by
          unfold binOp; split <;> first | omega | rfl
        have h3 : unOp eps lb.name = none := by
          unfold unOp; split <;> first | omega | rfl
        simp [h1, h2, h3]
end
end Opy
