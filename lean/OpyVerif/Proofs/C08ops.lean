import OpyVerif.Proofs.Lemmas.TreeOpsLemmas
/-
C08 (operators): the genetic-programming operators, as the code performs them pointer write by
pointer write, keep expression trees well formed (`WF`: non-empty, root without parent, every
stored parent / flag right, every arity right, no node twice) — for every tree, every point.
-/
namespace Opy
namespace PNode

/-- One pointer write `node.<side> = b` with the re-linking of `b` keeps a tree well formed when
    the slot held a child, `b` is a non-empty root-shaped, well-aritied branch without repeated
    nodes, and the only nodes `b` shares with the tree are nodes of the child it replaces.
    (That the slot's parent `pid` is a node of `t`, and is not inside the replaced child, both
    follow from the hypotheses.) -/
theorem setChild_wf {ar : Nat → Nat} {pid : Nat} {side : Bool} {b t : PNode}
    (ht : WF ar t) (hbk : KidsLinked b) (hba : Arity ar b) (hbn : b ≠ nil) (hbnd : b.ids.Nodup)
    (hfresh : ∀ x ∈ b.ids, x ∈ t.ids → x ∈ (childOf pid side t).ids)
    (hc : childOf pid side t ≠ nil) :
    WF ar (setChild pid side b t) := by
  obtain ⟨hne, hroot, hk, ha, hnd⟩ := ht
  have hmem : pid ∈ t.ids := by
    apply Classical.byContradiction
    intro h; exact hc (childOf_of_not_mem h)
  refine ⟨fun e => hne (setChild_eq_nil.1 e), ?_, kidsLinked_setChild pid side b hbk t hk,
    arity_setChild hba hbn t hnd ha hc, ?_⟩
  · rw [storedPar_setChild]; exact hroot
  · rw [List.nodup_iff_count]
    intro a
    have hcount := ids_setChild_count pid side b a hnd hmem
    have h1 := List.nodup_iff_count.1 hnd a
    have h2 := List.nodup_iff_count.1 hbnd a
    by_cases hb : a ∈ b.ids
    · by_cases hta : a ∈ t.ids
      · have h3 : 0 < (childOf pid side t).ids.count a := List.count_pos_iff.2 (hfresh a hb hta)
        omega
      · have h3 : t.ids.count a = 0 := List.count_eq_zero.2 hta
        omega
    · have h3 : b.ids.count a = 0 := List.count_eq_zero.2 hb
      omega

/-- a slot returned by `find_node` on a proper tree always designates an existing child -/
theorem findNode_slot_child_ne_nil {ar : Nat → Nat} {t : PNode} {p pid : Nat} {side : Bool}
    (hwf : WF ar t) (h : findNode t p = .slot pid side) : childOf pid side t ≠ nil := by
  obtain ⟨_, node, hp, hc | ⟨_, q, _, hl⟩⟩ := findNode_slot_spec hwf h
  · rw [hc.2]; exact ne_nil_of_mem_pre (List.mem_of_getElem? hp)
  · exact ne_nil_of_mem_pre (lookup_some hl).1

/-- `GP._mutate`: grafting a freshly grown well-formed branch (no node in common with the
    individual) at any point of a well-formed individual gives a well-formed individual. -/
theorem mutate_wf {ar : Nat → Nat} {t branch t' : PNode} {p : Nat}
    (ht : WF ar t) (hb : WF ar branch) (hdis : ∀ x ∈ branch.ids, x ∉ t.ids)
    (h : mutate t p branch = some t') : WF ar t' := by
  unfold mutate at h
  cases hf : findNode t p with
  | error => simp [hf] at h
  | noSlot =>
    simp only [hf, Option.some.injEq] at h
    subst h; exact hb
  | slot pid side =>
    simp only [hf, Option.some.injEq] at h
    subst h
    obtain ⟨hbn, _, hbk, hba, hbnd⟩ := hb
    exact setChild_wf ht hbk hba hbn hbnd (fun x hx hxt => absurd hxt (hdis x hx))
      (findNode_slot_child_ne_nil ht hf)

/-- `GP._cross`: both offspring of two well-formed parents without a common node are well
    formed. -/
theorem cross_wf {ar : Nat → Nat} {f m f' m' : PNode} {pf pm : Nat}
    (hf : WF ar f) (hm : WF ar m) (hdis : ∀ x ∈ f.ids, x ∉ m.ids)
    (h : cross f m pf pm = some (f', m')) : WF ar f' ∧ WF ar m' := by
  rcases cross_cases h with ⟨sf, ff, sm, fm, hsf, hsm, rfl, rfl⟩ | ⟨rfl, rfl⟩
  · have hcf := findNode_slot_child_ne_nil hf hsf
    have hcm := findNode_slot_child_ne_nil hm hsm
    constructor
    · exact setChild_wf hf (childOf_kidsLinked hm.2.2.1) (childOf_arity hm.2.2.2.1) hcm
        (childOf_nodup hm.2.2.2.2)
        (fun x hx hxf => absurd (childOf_ids_subset hx) (hdis x hxf)) hcf
    · exact setChild_wf hm (childOf_kidsLinked hf.2.2.1) (childOf_arity hf.2.2.2.1) hcf
        (childOf_nodup hf.2.2.2.2)
        (fun x hx hxm => absurd hxm (hdis x (childOf_ids_subset hx))) hcm
  · exact ⟨hf, hm⟩

/-- the offspring of parents without a common node have no common node -/
theorem cross_disjoint {ar : Nat → Nat} {f m f' m' : PNode} {pf pm : Nat}
    (hf : WF ar f) (hm : WF ar m) (hdis : ∀ x ∈ f.ids, x ∉ m.ids)
    (h : cross f m pf pm = some (f', m')) : ∀ x ∈ f'.ids, x ∉ m'.ids := by
  have hnd : (f.ids ++ m.ids).Nodup :=
    List.nodup_append.2 ⟨hf.2.2.2.2, hm.2.2.2.2, fun a ha b hb e => hdis a ha (e ▸ hb)⟩
  have hperm : List.Perm (f'.ids ++ m'.ids) (f.ids ++ m.ids) := by
    have := (cross_nodes_perm hf hm h).map Prod.fst
    simpa only [List.map_append, ← ids_eq_nodes] using this
  have hnd' := hperm.nodup_iff.2 hnd
  intro x hx hx'
  exact (List.nodup_append.1 hnd').2.2 x hx x hx' rfl

end PNode
end Opy

#print axioms Opy.PNode.setChild_wf
#print axioms Opy.PNode.mutate_wf
#print axioms Opy.PNode.cross_wf
#print axioms Opy.PNode.cross_disjoint
#print axioms Opy.PNode.findNode_slot_child_ne_nil
