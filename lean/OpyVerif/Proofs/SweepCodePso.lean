import OpyVerif.Proofs.SweepProg
import OpyVerif.Generated.Sweeps.psoSweep_eq
/-!
The machine's sweep rule is what the *translated* `_evaluate` methods do: `Gen.genericSweep`, `Gen.psoSweep`,
`Gen.gpSweep` are read from the current working tree; for each, some tie flag makes the loop body equal to
`sweepAgent` / `takes` / `bestOf` of `Model/Machine` — the rule every C02 / C03 / C20 machine theorem is about.
-/
namespace Opy

theorem code_psoSweep (cfg : Cfg) (hs : cfg.swarm = true) (a best : Ag) (v : Int) (fresh : Nat) (tp : Pos) :
    ∃ tie, Gen.psoSweep.body cfg.lbs cfg.ubs tp v fresh a best =
      (sweepAgent cfg a v, if takes best (sweepAgent cfg a v) tie then bestOf (sweepAgent cfg a v) fresh else best) := by
  rcases Gen.psoSweep_eq with h | h <;> rw [h]
  · exact ⟨false, psoSweep_is_machine_rule cfg hs a best v fresh tp⟩
  · exact ⟨true, psoSweepLe_is_machine_rule cfg hs a best v fresh tp⟩


end Opy
