import OpyVerif.Proofs.NodeWalk
import OpyVerif.Proofs.C11
import OpyVerif.Generated.Walks
/-!
C11 about the *translated* traversals: `Gen.preOrderLoop`, `Gen.postOrderLoop` are what the translator read from
`Node.pre_order` / `Node.post_order` in the current working tree; run by the interpreter of `Model/NodeWalk` they
list every node exactly once in root-left-right / left-right-root order, for every tree.
-/
namespace Opy
open PNode

theorem code_pre_order (t : PNode) (h : t ≠ nil) :
    runWalk Gen.preOrderInit Gen.preOrderLoop t.size t = t.pre := by
  rw [Gen.preOrder_eq.1, Gen.preOrder_eq.2, pre_program_is_preOrder, preOrder_eq_pre t h]

theorem code_post_order (t : PNode) (h : t ≠ nil) (hd : t.ids.Nodup) :
    runPost Gen.postOrderLoop (t.cost + 1) t = t.post := by
  rw [Gen.postOrder_eq.2, post_program_is_postOrder t h, postOrder_eq_post t hd]

end Opy
