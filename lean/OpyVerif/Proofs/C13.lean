import OpyVerif.Proofs.Lemmas.RealLemmas
/-!
C13 — `hypercomplex.span` over `ℝ`: a hypercomplex position with entries in `[0,1]` is mapped into
the box `[lb, ub]` of every variable; the map depends on the row only through its norm and is
monotone in it. The formulas are the ones of `Model/Num.lean` (`norm`, `spanRow`, `span`),
instantiated at `ℝ` through `Proofs/RealElem.lean`.
-/
set_option linter.unusedVariables false
namespace Opy

/-- entries in `[0,1]` ⇒ `0 ≤ ‖row‖ ≤ √d` -/
theorem norm_le_sqrt_d (row : List ℝ) (h : ∀ v ∈ row, 0 ≤ v ∧ v ≤ 1) :
    0 ≤ norm row ∧ norm row ≤ Real.sqrt (row.length : ℝ) :=
  ⟨norm_nonneg_real row, norm_le_sqrt_length row h⟩

/-- one spanned variable lies within its bounds -/
theorem spanRow_mem (lb ub : ℝ) (row : List ℝ) (hb : lb ≤ ub) (hne : row ≠ [])
    (h : ∀ v ∈ row, 0 ≤ v ∧ v ≤ 1) : lb ≤ spanRow lb ub row ∧ spanRow lb ub row ≤ ub := by
  obtain ⟨h0, h1⟩ := spanParam_mem row hne h
  rw [spanRow_real]
  exact lerp_mem lb ub _ hb h0 h1

/-- the all-zeros position is the lower bound -/
theorem spanRow_zeros (lb ub : ℝ) (row : List ℝ) (hne : row ≠ []) (h : ∀ v ∈ row, v = 0) :
    spanRow lb ub row = lb := by
  rw [spanRow_real, norm_real, sumsq_zeros row h, Real.sqrt_zero, zero_div, mul_zero, zero_add]

/-- the all-ones position is the upper bound -/
theorem spanRow_ones (lb ub : ℝ) (row : List ℝ) (hne : row ≠ []) (h : ∀ v ∈ row, v = 1) :
    spanRow lb ub row = ub := by
  rw [spanRow_real, norm_real, sumsq_ones row h, div_self (sqrt_length_pos row hne).ne']
  ring

/-- rows of the same dimension and the same norm span to the same value -/
theorem spanRow_depends_on_norm (lb ub : ℝ) (r1 r2 : List ℝ) (hn : norm r1 = norm r2)
    (hl : r1.length = r2.length) : spanRow lb ub r1 = spanRow lb ub r2 := by
  rw [spanRow_real, spanRow_real, hn, hl]

/-- for rows of the same dimension the spanned value is monotone in the norm -/
theorem spanRow_mono_norm (lb ub : ℝ) (r1 r2 : List ℝ) (hb : lb ≤ ub) (hl : r1.length = r2.length)
    (hne : r1 ≠ []) (hn : norm r1 ≤ norm r2) : spanRow lb ub r1 ≤ spanRow lb ub r2 := by
  rw [spanRow_real, spanRow_real, hl]
  have hs : 0 ≤ Real.sqrt (r2.length : ℝ) := Real.sqrt_nonneg _
  have hd : 0 ≤ ub - lb := sub_nonneg.mpr hb
  have := mul_le_mul_of_nonneg_left (div_le_div_of_nonneg_right hn hs) hd
  linarith

/-- `span` returns one value per variable -/
theorem span_length (lbs ubs : List ℝ) (rows : List (List ℝ)) (hl : lbs.length = rows.length)
    (hu : ubs.length = rows.length) : (span lbs ubs rows).length = rows.length := by
  rw [span_length_min, hl, hu]; simp

/-- entry `j` of `span` is `spanRow` of the `j`-th bounds and the `j`-th row -/
theorem span_entry (lbs ubs : List ℝ) (rows : List (List ℝ)) (j : Nat)
    (hj : j < (span lbs ubs rows).length) (h1 : j < lbs.length) (h2 : j < ubs.length)
    (h3 : j < rows.length) : (span lbs ubs rows)[j] = spanRow lbs[j] ubs[j] rows[j] :=
  span_getElem lbs ubs rows j hj h1 h2 h3

/-- every spanned variable lies within its own bounds -/
theorem span_mem (lbs ubs : List ℝ) (rows : List (List ℝ)) (hl : lbs.length = rows.length)
    (hu : ubs.length = rows.length)
    (hb : ∀ j (h1 : j < lbs.length) (h2 : j < ubs.length), lbs[j] ≤ ubs[j])
    (hrows : ∀ r ∈ rows, r ≠ [] ∧ ∀ v ∈ r, 0 ≤ v ∧ v ≤ 1)
    (j : Nat) (hj : j < (span lbs ubs rows).length) (h1 : j < lbs.length) (h2 : j < ubs.length) :
    lbs[j] ≤ (span lbs ubs rows)[j] ∧ (span lbs ubs rows)[j] ≤ ubs[j] := by
  have h3 : j < rows.length := hl ▸ h1
  rw [span_getElem lbs ubs rows j hj h1 h2 h3]
  obtain ⟨hne, hv⟩ := hrows rows[j] (List.getElem_mem h3)
  exact spanRow_mem _ _ _ (hb j h1 h2) hne hv

/-! satisfiability of the hypotheses, on concrete numbers -/

example : ∃ (lb ub : ℝ) (row : List ℝ), lb ≤ ub ∧ row ≠ [] ∧ (∀ v ∈ row, 0 ≤ v ∧ v ≤ 1) :=
  ⟨-10, 10, [1 / 2, 1 / 4], by norm_num, by simp, by
    intro v hv
    simp only [List.mem_cons, List.not_mem_nil, or_false] at hv
    rcases hv with rfl | rfl <;> norm_num⟩

example : spanRow (-10 : ℝ) 10 [0, 0, 0] = -10 :=
  spanRow_zeros _ _ _ (by simp) (by intro v hv; simpa using hv)

example : spanRow (-10 : ℝ) 10 [1, 1] = 10 :=
  spanRow_ones _ _ _ (by simp) (by intro v hv; simpa using hv)

example : (span [(-10 : ℝ), 0] [10, 1] [[1, 1], [0, 0]]).length = 2 :=
  span_length _ _ _ rfl rfl

#print axioms norm_le_sqrt_d
#print axioms spanRow_mem
#print axioms spanRow_zeros
#print axioms spanRow_ones
#print axioms spanRow_depends_on_norm
#print axioms spanRow_mono_norm
#print axioms span_length
#print axioms span_entry
#print axioms span_mem

end Opy
