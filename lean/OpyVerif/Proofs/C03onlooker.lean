import OpyVerif.Proofs.Lemmas.OnlookerLemmas
/-!
C03 (part) — the data-dependent loop of `ABC._send_onlooker` (`Model/Onlooker.lean`):
its trial budget when it terminates, exactly which random streams make it terminate, and the
(probability-zero) streams on which it does not.
-/
namespace Opy

/-! ### property theorems -/

/-- **Trial budget of the onlooker phase.** With `n ≥ 1` agents, every pass covering the `n` agents,
    a terminating run ends with `n ≤ k ≤ 2n - 1`: at least `n` selections; at most `n - 1` before
    the last pass plus at most `n` in it. `k` is the number of objective calls of the phase. -/
theorem onlooker_bounds (n : Nat) (passes : List (List Bool)) (k : Nat) (hn : 0 < n)
    (hlen : ∀ p ∈ passes, p.length = n) (h : onlooker n 0 passes = some k) :
    n ≤ k ∧ k ≤ 2 * n - 1 :=
  onlooker_bounds_from n passes 0 k hlen hn h

/-- **Termination criterion.** On a finite stream of passes the loop exits iff some prefix of the
    stream already contains `n` selections. (Holds for `n = 0` too: the empty prefix.) -/
theorem onlooker_terminates_iff (n : Nat) (passes : List (List Bool)) :
    onlooker n 0 passes ≠ none ↔ ∃ j, j ≤ passes.length ∧ n ≤ hits (passes.take j) := by
  have := onlooker_terminates_iff_from n passes 0
  simpa using this

/-- **Non-termination on unfair streams.** If no selection bit is ever `true` the loop never exits,
    whatever finite number of passes is supplied (the real loop then spins forever; such streams
    have probability zero because every `probs ≥ 0.1` when the fitnesses are non-negative). -/
theorem onlooker_diverges_on_unfair (n : Nat) (passes : List (List Bool)) (hn : 0 < n)
    (h : ∀ p ∈ passes, ∀ b ∈ p, b = false) : onlooker n 0 passes = none := by
  have hiff := onlooker_terminates_iff n passes
  cases hres : onlooker n 0 passes with
  | none => rfl
  | some k =>
    exfalso
    have hne : onlooker n 0 passes ≠ none := by rw [hres]; simp
    obtain ⟨j, _, hj⟩ := hiff.mp hne
    have hz : hits (passes.take j) = 0 :=
      hits_eq_zero_of_unfair _ fun p hp => h p (List.mem_of_mem_take hp)
    omega

/-- **Passes consumed.** When the loop exits it has consumed `j` passes, `j` the least prefix
    length containing `n` selections, and `k` is the number of selections in that prefix. -/
theorem onlooker_consumes (n : Nat) (passes : List (List Bool)) (k j : Nat)
    (h : onlookerTrace n 0 passes = some (k, j)) :
    onlooker n 0 passes = some k ∧ j ≤ passes.length ∧ k = hits (passes.take j) ∧ n ≤ k ∧
      ∀ j', j' < j → hits (passes.take j') < n := by
  obtain ⟨h1, h2, h3, h4⟩ := onlookerTrace_spec_from n passes 0 k j h
  refine ⟨?_, h1, by omega, h3, fun j' hj' => by have := h4 j' hj'; omega⟩
  rw [← onlookerTrace_fst, h]; rfl

/-- the budget is attained at both ends (n = 3): exactly `n`, and `2n - 1` -/
example : onlooker 3 0 [[true, true, true]] = some 3 := by decide
example : onlooker 3 0 [[true, true, false], [true, true, true]] = some 5 := by decide
example : onlooker 3 0 [[true, false, false], [false, false, false], [false, true, true]] = some 3 := by
  decide
example : onlookerTrace 3 0 [[true, false, false], [false, false, false], [false, true, true],
    [true, true, true]] = some (3, 3) := by decide
/-- passes run out -/
example : onlooker 3 0 [[true, false, false], [false, true, false]] = none := by decide
/-- an unfair stream -/
example : onlooker 2 0 [[false, false], [false, false], [false, false]] = none := by decide
/-- the loop does not start when there is no agent -/
example : onlooker 0 0 [[]] = some 0 := by decide
example : hits [[true, false], [true, true]] = 3 := by decide

#print axioms onlooker_bounds
#print axioms onlooker_terminates_iff
#print axioms onlooker_diverges_on_unfair
#print axioms onlooker_consumes

end Opy
