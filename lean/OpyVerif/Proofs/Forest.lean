import OpyVerif.Proofs.C08ops
import OpyVerif.Proofs.C08grow
import OpyVerif.Model.Pop
/-!
C08 at the level of the whole population: the forest of a GP run stays a family of proper expression trees that share
no node, under **every** sequence of reproduction, mutation and crossover steps (each working on deep copies, as the
code does), for every choice of slots, points, grown branches and copies.  Identities model object identity; a deep
copy is `shift k` onto identities nobody uses yet (`next` is the allocator's high-water mark).
-/
namespace Opy
open PNode

def Disj (a b : PNode) : Prop := ∀ x ∈ a.ids, x ∉ b.ids

theorem Disj.symm {a b : PNode} (h : Disj a b) : Disj b a := fun x hx hx' => h x hx' hx

/-- every tree is a proper expression tree, identities are below the high-water mark, no two slots share a node -/
def PopOK (ar : Nat → Nat) (P : Pop) : Prop :=
  (∀ t ∈ P.trees, WF ar t) ∧ (∀ t ∈ P.trees, ∀ x ∈ t.ids, x < P.next) ∧
  (∀ (i j : Nat) (a b : PNode), i ≠ j → P.trees[i]? = some a → P.trees[j]? = some b → Disj a b) ∧
  (P.best = nil ∨ (WF ar P.best ∧ (∀ x ∈ P.best.ids, x < P.next) ∧ ∀ t ∈ P.trees, Disj P.best t))

/-- a grown branch is admissible when it is a proper tree on identities nobody uses (beyond the copies the step makes) -/
def GPOp.admissible (ar : Nat → Nat) (P : Pop) : GPOp → Prop
  | .reproduce _ _ => True
  | .recordBest _ => True
  | .mutate _ _ branch => WF ar branch ∧ ∀ x ∈ branch.ids, 2 * P.next ≤ x ∧ x < 3 * P.next
  | .cross _ _ _ _ => True
  | .regrow _ tree => WF ar tree ∧ ∀ x ∈ tree.ids, 2 * P.next ≤ x ∧ x < 3 * P.next

theorem shift_ids_range {t : PNode} {k n : Nat} (h : ∀ x ∈ t.ids, x < n) :
    ∀ x ∈ (shift k t).ids, k ≤ x ∧ x < k + n := by
  intro x hx
  rw [shift_ids, List.mem_map] at hx
  obtain ⟨y, hy, rfl⟩ := hx
  have := h y hy
  omega

/-- replacing slot `w` by a tree that is proper, below the new mark and disjoint from every *other* slot keeps the
    population proper -/
theorem popOK_set {ar : Nat → Nat} {P : Pop} (hP : PopOK ar P) (w : Nat) (t' : PNode) (n' : Nat) (hn : P.next ≤ n')
    (hwf : WF ar t') (hlt : ∀ x ∈ t'.ids, x < n')
    (hdis : ∀ j b, j ≠ w → P.trees[j]? = some b → Disj t' b)
    (hbest : P.best ≠ nil → Disj P.best t') :
    PopOK ar ⟨P.trees.set w t', P.best, n'⟩ := by
  obtain ⟨h1, h2, h3, h4⟩ := hP
  refine ⟨?_, ?_, ?_, ?_⟩
  · intro t ht
    rcases List.mem_or_eq_of_mem_set ht with h | h
    · exact h1 t h
    · rw [h]; exact hwf
  · intro t ht x hx
    rcases List.mem_or_eq_of_mem_set ht with h | h
    · exact Nat.lt_of_lt_of_le (h2 t h x hx) hn
    · rw [h] at hx; exact hlt x hx
  · intro i j a b hij ha hb
    simp only [List.getElem?_set] at ha hb
    by_cases hi : w = i
    · have hj : ¬ w = j := fun e => hij (hi.symm.trans e)
      rw [if_pos hi] at ha
      rw [if_neg hj] at hb
      split at ha
      · cases ha; exact hdis j b (fun e => hj e.symm) hb
      · cases ha
    · rw [if_neg hi] at ha
      by_cases hj : w = j
      · rw [if_pos hj] at hb
        split at hb
        · cases hb; exact (hdis i a (fun e => hi e.symm) ha).symm
        · cases hb
      · rw [if_neg hj] at hb
        exact h3 i j a b hij ha hb
  · rcases h4 with h4 | ⟨b1, b2, b3⟩
    · exact Or.inl h4
    · refine Or.inr ⟨b1, fun x hx => Nat.lt_of_lt_of_le (b2 x hx) hn, ?_⟩
      intro t ht
      rcases List.mem_or_eq_of_mem_set ht with h | h
      · exact b3 t h
      · rw [h]; exact hbest (fun e => b1.1 e)

theorem mem_of_getElem?_eq_some' {l : List PNode} {i : Nat} {a : PNode} (h : l[i]? = some a) : a ∈ l :=
  List.mem_of_getElem? h

/-- **every step keeps the population proper** -/
theorem step_popOK {ar : Nat → Nat} {P P' : Pop} (op : GPOp) (hP : PopOK ar P) (hadm : op.admissible ar P)
    (hnext : 0 < P.next) (h : op.apply P = some P') : PopOK ar P' ∧ P.next ≤ P'.next := by
  obtain ⟨h1, h2, h3, h4⟩ := hP
  have hbestlt : P.best ≠ nil → ∀ x ∈ P.best.ids, x < P.next := by
    intro hne
    rcases h4 with e | ⟨_, b2, _⟩
    · exact absurd e hne
    · exact b2
  cases op with
  | recordBest i =>
    simp only [GPOp.apply] at h
    cases hi : P.trees[i]? with
    | none => simp [hi] at h
    | some t =>
      simp only [hi, Option.some.injEq] at h
      cases h
      have ht := mem_of_getElem?_eq_some' hi
      have hr := shift_ids_range (k := P.next) (h2 t ht)
      refine ⟨⟨h1, fun t' ht' x hx => by have := h2 t' ht' x hx; show x < 3 * P.next; omega, h3, Or.inr ⟨shift_wf (h1 t ht), ?_, ?_⟩⟩, by simp; omega⟩
      · intro x hx; have := hr x hx; show x < 3 * P.next; omega
      · intro t' ht' x hx hx'
        have := hr x hx
        have := h2 t' ht' x hx'
        omega
  | reproduce w s =>
    simp only [GPOp.apply] at h
    cases hs : P.trees[s]? with
    | none => simp [hs] at h
    | some t =>
      simp only [hs] at h
      split at h
      · cases h
        have ht := mem_of_getElem?_eq_some' hs
        refine ⟨popOK_set ⟨h1, h2, h3, h4⟩ w _ _ (by omega) (shift_wf (h1 t ht)) ?_ ?_ ?_, by simp; omega⟩
        · intro x hx; have := shift_ids_range (k := P.next) (h2 t ht) x hx; omega
        · intro j b _ hb x hx hx'
          have := shift_ids_range (k := P.next) (h2 t ht) x hx
          have := h2 b (mem_of_getElem?_eq_some' hb) x hx'
          omega
        · intro hne x hx hx'
          have := hbestlt hne x hx
          have := shift_ids_range (k := P.next) (h2 t ht) x hx'
          omega
      · cases h
  | mutate i point branch =>
    obtain ⟨hbwf, hbr⟩ := hadm
    simp only [GPOp.apply] at h
    cases hi : P.trees[i]? with
    | none => simp [hi] at h
    | some t =>
      simp only [hi] at h
      cases hm : PNode.mutate (shift P.next t) point branch with
      | none => simp [hm] at h
      | some t' =>
        simp only [hm, Option.some.injEq] at h
        cases h
        have ht := mem_of_getElem?_eq_some' hi
        have hcr := shift_ids_range (k := P.next) (h2 t ht)
        have hcd : ∀ x ∈ branch.ids, x ∉ (shift P.next t).ids := by
          intro x hx hx'; have := hcr x hx'; have := hbr x hx; omega
        have hwf' := mutate_wf (shift_wf (h1 t ht)) hbwf hcd hm
        have hsub : ∀ x ∈ t'.ids, P.next ≤ x ∧ x < 3 * P.next := by
          intro x hx
          unfold PNode.mutate at hm
          cases hf : findNode (shift P.next t) point with
          | error => simp [hf] at hm
          | noSlot => simp only [hf, Option.some.injEq] at hm; subst hm; have := hbr x hx; omega
          | slot pid side =>
            simp only [hf, Option.some.injEq] at hm; subst hm
            rcases ids_setChild_subset pid side branch _ x hx with e | e
            · have := hcr x e; omega
            · have := hbr x e; omega
        refine ⟨popOK_set ⟨h1, h2, h3, h4⟩ i _ _ (by omega) hwf' (fun x hx => (hsub x hx).2) ?_ ?_, by simp; omega⟩
        · intro j b _ hb x hx hx'
          have := hsub x hx
          have := h2 b (mem_of_getElem?_eq_some' hb) x hx'
          omega
        · intro hne x hx hx'
          have := hbestlt hne x hx
          have := hsub x hx'
          omega
  | cross a b pf pm =>
    simp only [GPOp.apply] at h
    cases ha : P.trees[a]? with
    | none => simp [ha] at h
    | some f =>
      cases hb : P.trees[b]? with
      | none => simp [ha, hb] at h
      | some m =>
        simp only [ha, hb] at h
        cases hc : PNode.cross (shift P.next f) (shift (2 * P.next) m) pf pm with
        | none => simp [hc] at h
        | some r =>
          obtain ⟨f', m'⟩ := r
          simp only [hc, Option.some.injEq] at h
          cases h
          have hf := mem_of_getElem?_eq_some' ha
          have hm := mem_of_getElem?_eq_some' hb
          have hfr := shift_ids_range (k := P.next) (h2 f hf)
          have hmr := shift_ids_range (k := 2 * P.next) (h2 m hm)
          have hd : ∀ x ∈ (shift P.next f).ids, x ∉ (shift (2 * P.next) m).ids := by
            intro x hx hx'; have := hfr x hx; have := hmr x hx'; omega
          have hwfc := cross_wf (shift_wf (h1 f hf)) (shift_wf (h1 m hm)) hd hc
          have hdc := cross_disjoint (shift_wf (h1 f hf)) (shift_wf (h1 m hm)) hd hc
          have hsub : (∀ x ∈ f'.ids, P.next ≤ x ∧ x < 3 * P.next) ∧ (∀ x ∈ m'.ids, P.next ≤ x ∧ x < 3 * P.next) := by
            rcases cross_cases hc with ⟨sf, ff, sm, fm, _, _, rfl, rfl⟩ | ⟨rfl, rfl⟩
            · constructor
              · intro x hx
                rcases ids_setChild_subset sf ff _ _ x hx with e | e
                · have := hfr x e; omega
                · have := hmr x (childOf_ids_subset e); omega
              · intro x hx
                rcases ids_setChild_subset sm fm _ _ x hx with e | e
                · have := hmr x e; omega
                · have := hfr x (childOf_ids_subset e); omega
            · exact ⟨fun x hx => by have := hfr x hx; omega, fun x hx => by have := hmr x hx; omega⟩
          -- first slot a, then slot b
          have hP1 : PopOK ar ⟨P.trees.set a f', P.best, 3 * P.next⟩ := by
            refine popOK_set ⟨h1, h2, h3, h4⟩ a _ _ (by omega) hwfc.1 (fun x hx => (hsub.1 x hx).2) ?_ ?_
            · intro j c _ hcj x hx hx'
              have := hsub.1 x hx
              have := h2 c (mem_of_getElem?_eq_some' hcj) x hx'
              omega
            · intro hne x hx hx'
              have := hbestlt hne x hx
              have := hsub.1 x hx'
              omega
          have hP2 := popOK_set hP1 b m' (3 * P.next) (Nat.le_refl _) hwfc.2 (fun x hx => (hsub.2 x hx).2) (by
            intro j c hjb hcj x hx hx'
            simp only [List.getElem?_set] at hcj
            by_cases hja : a = j
            · simp only [hja, if_true] at hcj
              split at hcj
              · cases hcj; exact hdc x hx' hx
              · cases hcj
            · simp only [hja, if_false] at hcj
              have := hsub.2 x hx
              have := h2 c (mem_of_getElem?_eq_some' hcj) x hx'
              omega) (by
            intro hne x hx hx'
            have := hbestlt hne x hx
            have := hsub.2 x hx'
            omega)
          exact ⟨hP2, by simp; omega⟩
  | regrow i tree =>
    obtain ⟨hbwf, hbr⟩ := hadm
    simp only [GPOp.apply] at h
    split at h
    · cases h
      refine ⟨popOK_set ⟨h1, h2, h3, h4⟩ i _ _ (by omega) hbwf (fun x hx => (hbr x hx).2) ?_ ?_, by simp; omega⟩
      · intro j b _ hb x hx hx'
        have := hbr x hx
        have := h2 b (mem_of_getElem?_eq_some' hb) x hx'
        omega
      · intro hne x hx hx'
        have := hbestlt hne x hx
        have := hbr x hx'
        omega
    · cases h

/-- a sequence of steps, each admissible in the population it is applied to -/
def AllAdmissible (ar : Nat → Nat) : Pop → List GPOp → Prop
  | _, [] => True
  | P, op :: ops => op.admissible ar P ∧ ∀ P', op.apply P = some P' → AllAdmissible ar P' ops

/-- **C08, population clause, for every history**: whatever sequence of reproduction, mutation and crossover steps a GP
    run performs (any slots, points, grown branches), the forest stays a family of proper expression trees no two of
    which share a node -/
theorem runGPOps_popOK {ar : Nat → Nat} : ∀ (ops : List GPOp) (P P' : Pop), PopOK ar P → 0 < P.next →
    AllAdmissible ar P ops → runGPOps ar P ops = some P' → PopOK ar P' := by
  intro ops
  induction ops with
  | nil => intro P P' hP _ _ h; simp only [runGPOps, Option.some.injEq] at h; subst h; exact hP
  | cons op ops ih =>
    intro P P' hP hn hadm h
    simp only [runGPOps] at h
    cases hs : op.apply P with
    | none => simp [hs] at h
    | some P1 =>
      simp only [hs] at h
      obtain ⟨hok, hle⟩ := step_popOK op hP hadm.1 hn hs
      exact ih P1 P' hok (by omega) (hadm.2 P1 hs) h

/-! ### the initial forest: `_create_trees` grows the trees one after the other -/

theorem growMany_spec (cfg : GrowCfg) (k : Nat) : ∀ (n : Nat) (ds : List Nat) (nid : Nat) (ts : List PNode) (d : List Nat) (m : Nat),
    growMany cfg k n ds nid = some (ts, d, m) →
      nid ≤ m ∧ (∀ t ∈ ts, WF cfg.ar t) ∧ (∀ t ∈ ts, ∀ x ∈ t.ids, nid ≤ x ∧ x < m) ∧
      (∀ (i j : Nat) (a b : PNode), i ≠ j → ts[i]? = some a → ts[j]? = some b → Disj a b) := by
  intro n
  induction n with
  | zero =>
    intro ds nid ts d m h
    simp only [growMany, Option.some.injEq, Prod.mk.injEq] at h
    obtain ⟨rfl, _, rfl⟩ := h
    exact ⟨Nat.le_refl _, by simp, by simp, by intro i j a b _ ha; simp at ha⟩
  | succ n ih =>
    intro ds nid ts d m h
    simp only [growMany] at h
    cases hg : grow cfg k ds nid with
    | none => simp [hg] at h
    | some r =>
      obtain ⟨t, ds', nid'⟩ := r
      simp only [hg] at h
      cases hm : growMany cfg k n ds' nid' with
      | none => simp [hm] at h
      | some r2 =>
        obtain ⟨ts', d', m'⟩ := r2
        simp only [hm, Option.some.injEq, Prod.mk.injEq] at h
        obtain ⟨rfl, _, rfl⟩ := h
        obtain ⟨hle, hwf, hr, hd⟩ := ih ds' nid' ts' d' m' hm
        obtain ⟨hfr, hlt⟩ := grow_ids_fresh hg
        refine ⟨by omega, ?_, ?_, ?_⟩
        · intro u hu
          rcases List.mem_cons.1 hu with e | e
          · rw [e]; exact grow_wf hg
          · exact hwf u e
        · intro u hu x hx
          rcases List.mem_cons.1 hu with e | e
          · rw [e] at hx; have := hfr x hx; omega
          · have := hr u e x hx; omega
        · intro i j a b hij ha hb
          cases i with
          | zero =>
            cases j with
            | zero => exact absurd rfl hij
            | succ j =>
              simp only [List.getElem?_cons_zero, Option.some.injEq] at ha
              simp only [List.getElem?_cons_succ] at hb
              subst ha
              intro x hx hx'
              have := hfr x hx
              have := hr b (List.mem_of_getElem? hb) x hx'
              omega
          | succ i =>
            cases j with
            | zero =>
              simp only [List.getElem?_cons_zero, Option.some.injEq] at hb
              simp only [List.getElem?_cons_succ] at ha
              subst hb
              intro x hx hx'
              have := hfr x hx'
              have := hr a (List.mem_of_getElem? ha) x hx
              omega
            | succ j =>
              simp only [List.getElem?_cons_succ] at ha hb
              exact hd i j a b (fun e => hij (by omega)) ha hb

/-- the forest `_create_trees` builds is proper: the starting point of `runGPOps_popOK` -/
theorem growMany_popOK (cfg : GrowCfg) (k n : Nat) (ds : List Nat) (nid : Nat) (ts : List PNode) (d : List Nat) (m : Nat)
    (h : growMany cfg k n ds nid = some (ts, d, m)) : PopOK cfg.ar ⟨ts, nil, m⟩ := by
  obtain ⟨_, hwf, hr, hd⟩ := growMany_spec cfg k n ds nid ts d m h
  exact ⟨hwf, fun t ht x hx => (hr t ht x hx).2, hd, Or.inl rfl⟩

end Opy

namespace Opy
open PNode
def cfgE : GrowCfg := { funcs := [0, 4], ar := fun k => if k < 4 then 2 else 1, nTerminals := 2 }
def drawsE : List Nat := [0, 2, 3, 1, 2, 0, 0, 1, 0, 3, 2, 1, 1, 1, 0]

/-- a concrete initial forest of three trees (sizes 3, 2, 5) on identities 1..10 -/
def popE : Pop := match growMany cfgE 2 3 drawsE 1 with
  | some (ts, _, m) => ⟨ts, .nil, m⟩
  | none => ⟨[], .nil, 1⟩

def branchE : PNode := mk 25 ⟨false, 4, 0⟩ none true (mk 26 ⟨true, 1, 2⟩ (some 25) true nil nil) nil

/-- non-vacuity: a proper initial forest and a sequence of steps of every kind that runs through, each admissible -/
example : PopOK cfgE.ar popE := by
  unfold popE
  cases h : growMany cfgE 2 3 drawsE 1 with
  | none => exact absurd h (by decide)
  | some r =>
    obtain ⟨ts, d, m⟩ := r
    exact growMany_popOK cfgE 2 3 drawsE 1 ts d m h
example : popE.next = 11 ∧ popE.trees.map PNode.size = [3, 2, 5] := by decide
example : (runGPOps cfgE.ar popE [.cross 0 2 1 2, .reproduce 1 0, .recordBest 2, .mutate 1 1 branchE]).map
    (fun P' => (P'.trees.length, P'.best.isNil, P'.next)) = some (3, false, 891) := by decide
example : (GPOp.mutate 1 1 branchE).admissible cfgE.ar popE :=
  ⟨wf_of_wfB (by decide), by decide⟩
end Opy
