import OpyVerif.Model.SelectProg
/-! The expected readings of `tournament_selection` / `generate_bernoulli_distribution` are the models. -/
namespace Opy

theorem tournProg_rounds_is_tournament (fitness : List Int) (rounds : List (List Int)) :
    Expected.tournProg.rounds fitness rounds = tournament fitness rounds := by
  induction rounds with
  | nil => rfl
  | cons step rest ih =>
    simp only [TournProg.rounds, tournament, ih]
    rfl

/-- the expected reading of `tournament_selection` is the model `tournament`, for every fitness list and every draws -/
theorem tournProg_is_tournament (fitness : List Int) (rounds : List (List Int)) :
    Expected.tournProg.run fitness rounds = tournament fitness rounds := by
  simp [TournProg.run, TournProg.wellFormed, Expected.tournProg, tournProg_rounds_is_tournament]
  exact tournProg_rounds_is_tournament fitness rounds

/-- the expected reading of `generate_bernoulli_distribution` is the model `bernoulli` -/
theorem bernProg_is_bernoulli (prob : Int) (us : List Int) :
    Expected.bernProg.run prob us = some (bernoulli prob us) := by
  simp [BernProg.run, Expected.bernProg, bernoulli, BCmp.holds]

end Opy
