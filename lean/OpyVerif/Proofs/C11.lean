import OpyVerif.Proofs.Lemmas.TreeLemmas
/-!
C11 — tree traversals, `_properties` and `find_node` compute what they are meant to, for every
tree (no depth bound).  Algorithms are the code's own loops (`OpyVerif.Model.Tree`); the
specifications are structural recursions.
-/
set_option linter.unusedVariables false
namespace Opy.PNode

/-- `Node.pre_order` (explicit stack) lists root, left, right. -/
theorem preOrder_eq_pre (t : PNode) (h : t ≠ nil) : t.preOrder = t.pre :=
  preOrder_eq_pre' t h

/-- `Node.post_order` (one stack, identity test on the stack top) lists left, right, root,
    provided no node object occurs twice. -/
theorem postOrder_eq_post (t : PNode) (h : t.ids.Nodup) : t.postOrder = t.post :=
  postOrder_eq_post' t h

/-- the identities listed by the pre-order are exactly the tree's identities, in order -/
theorem pre_ids (t : PNode) : t.pre.map (fun n => n.id?) = t.ids.map some := pre_ids' t

/-- post-order and pre-order list the same nodes with the same multiplicities -/
theorem post_perm_pre (t : PNode) : List.Perm t.post t.pre := post_perm_pre' t

/-- with distinct identities every node is listed exactly once -/
theorem pre_nodup (t : PNode) (h : t.ids.Nodup) : t.pre.Nodup := pre_nodup' t h

/-- `_properties`: (min leaf depth, max leaf depth, #childless nodes, #nodes), including the
    `if min_depth == 0` sentinel test. -/
theorem properties_eq (t : PNode) (h : t ≠ nil) :
    t.properties = ⟨t.minD, (t.maxD : Int), t.leaves, t.size⟩ := properties_eq' t h

/-! ### `find_node`

`n` is the node at pre-order position `p`, written `t.pre[p]? = some n` (for `p < t.size` such an
`n` exists: `pre_getElem?_exists`).  "Where `n` actually hangs" is `parentOf t (idOf n)`: a
structural search of the tree that never reads the stored `par`/`flag` (`parentOf_sound`,
`parentOf_complete` in the lemma file say it answers exactly the tree's edges).  `side = true`
means "left child".  Hypotheses that are implied by the others (`p < t.size` by `hn`; `1 ≤ p` in
the function-node cases by the existence of a structural parent) are kept to mirror the
informal statement; they are not used. -/

/-- a terminal at position `p ≥ 1`: `find_node` answers the node it really hangs under and the
    real side -/
theorem findNode_terminal (ar : Nat → Nat) (t : PNode) (hwf : WF ar t) (p : Nat)
    (h1 : 1 ≤ p) (h2 : p < t.size) (n : PNode) (hn : t.pre[p]? = some n)
    (hterm : n.isTermNode = true) :
    ∃ pid side, parentOf t (idOf n) = some (pid, side) ∧ findNode t p = .slot pid side :=
  findNode_terminal' ar t hwf p h1 n hn hterm

/-- a function node whose structural parent `q` has a structural parent `g`: `find_node`
    answers `g` and the side on which `q` hangs under `g` -/
theorem findNode_function (ar : Nat → Nat) (t : PNode) (hwf : WF ar t) (p : Nat)
    (h1 : 1 ≤ p) (h2 : p < t.size) (n : PNode) (hn : t.pre[p]? = some n)
    (hfun : n.isTermNode = false) (q g : Nat) (s1 s2 : Bool)
    (hq : parentOf t (idOf n) = some (q, s1)) (hg : parentOf t q = some (g, s2)) :
    findNode t p = .slot g s2 :=
  findNode_function' ar t hwf p n hn hfun q g s1 s2 hq hg

/-- a function node hanging directly under the root: `(None, False)` -/
theorem findNode_function_under_root (ar : Nat → Nat) (t : PNode) (hwf : WF ar t) (p : Nat)
    (h1 : 1 ≤ p) (h2 : p < t.size) (n : PNode) (hn : t.pre[p]? = some n)
    (hfun : n.isTermNode = false) (q : Nat) (s : Bool)
    (hq : parentOf t (idOf n) = some (q, s)) (hroot : t.id? = some q) :
    findNode t p = .noSlot :=
  findNode_function_under_root' ar t hwf p n hn hfun q s hq hroot

/-- a position past the end: `(None, False)` -/
theorem findNode_out_of_range (t : PNode) (p : Nat) (h : t.size ≤ p) (ht : t ≠ nil) :
    findNode t p = .noSlot := findNode_out_of_range' t p h ht

/-- position 0 on a function root: the code dereferences `None.parent` and raises -/
theorem findNode_zero_function_root (ar : Nat → Nat) (t : PNode) (hwf : WF ar t)
    (hfun : t.isTermNode = false) : findNode t 0 = .error :=
  findNode_zero_function_root' t hwf.1 hwf.2.1 hfun

/-! ### the hypotheses are satisfiable: `add(sqrt(neg(x)), y)` -/

/-- operator 0 is binary, every other operator unary -/
def ar0 : Nat → Nat := fun k => if k = 0 then 2 else 1

def t0 : PNode :=
  mk 10 ⟨false, 0, 0⟩ none false
    (mk 11 ⟨false, 1, 0⟩ (some 10) true
      (mk 12 ⟨false, 2, 0⟩ (some 11) true
        (mk 13 ⟨true, 0, 7⟩ (some 12) true nil nil) nil) nil)
    (mk 14 ⟨true, 1, 8⟩ (some 10) false nil nil)

example : WF ar0 t0 := wfB_sound ar0 t0 (by decide)
example : t0 ≠ nil ∧ t0.ids.Nodup := ⟨by decide, by decide⟩
example : t0.preOrder = t0.pre ∧ t0.postOrder = t0.post := by decide
example : t0.properties = ⟨1, 3, 2, 5⟩ := by decide
-- position 3 is the terminal `x` (id 13), the left child of node 12
example : ∃ n, t0.pre[3]? = some n ∧ n.isTermNode = true ∧ parentOf t0 (idOf n) = some (12, true)
    ∧ findNode t0 3 = .slot 12 true := ⟨_, rfl, rfl, rfl, by decide⟩
-- position 4 is the terminal `y` (id 14), the right child of the root
example : ∃ n, t0.pre[4]? = some n ∧ n.isTermNode = true ∧ parentOf t0 (idOf n) = some (10, false)
    ∧ findNode t0 4 = .slot 10 false := ⟨_, rfl, rfl, rfl, by decide⟩
-- position 2 is `neg` (id 12) under `sqrt` (id 11) under the root (id 10)
example : ∃ n, t0.pre[2]? = some n ∧ n.isTermNode = false ∧ parentOf t0 (idOf n) = some (11, true)
    ∧ parentOf t0 11 = some (10, true) ∧ findNode t0 2 = .slot 10 true :=
  ⟨_, rfl, rfl, rfl, rfl, by decide⟩
-- position 1 is `sqrt` (id 11) directly under the root
example : ∃ n, t0.pre[1]? = some n ∧ n.isTermNode = false ∧ parentOf t0 (idOf n) = some (10, true)
    ∧ t0.id? = some 10 ∧ findNode t0 1 = .noSlot := ⟨_, rfl, rfl, rfl, rfl, by decide⟩
example : t0.isTermNode = false ∧ findNode t0 0 = .error := by decide
example : t0.size ≤ 5 ∧ findNode t0 5 = .noSlot := by decide

-- a shape outside the arity discipline (left = nil, right ≠ nil) is covered by the traversal and
-- `_properties` theorems too
example : let t := mk 1 ⟨false, 0, 0⟩ none false nil (mk 2 ⟨true, 0, 0⟩ (some 1) false nil nil)
    t ≠ nil ∧ t.ids.Nodup ∧ t.preOrder = t.pre ∧ t.postOrder = t.post
      ∧ t.properties = ⟨1, 1, 1, 2⟩ := by decide

end Opy.PNode

#print axioms Opy.PNode.preOrder_eq_pre
#print axioms Opy.PNode.postOrder_eq_post
#print axioms Opy.PNode.pre_ids
#print axioms Opy.PNode.post_perm_pre
#print axioms Opy.PNode.pre_nodup
#print axioms Opy.PNode.properties_eq
#print axioms Opy.PNode.findNode_terminal
#print axioms Opy.PNode.findNode_function
#print axioms Opy.PNode.findNode_function_under_root
#print axioms Opy.PNode.findNode_out_of_range
#print axioms Opy.PNode.findNode_zero_function_root
