import OpyVerif.Model.PersistProg
/-!
C19 (save / load clause) for any number of histories saved side by side.
-/
namespace Opy

theorem FS.read_write_same {α : Type} (fs : FS α) (name : String) (x : α) : (fs.write name x).read name = some x := by
  simp [FS.read, FS.write]

theorem FS.read_write_other {α : Type} (fs : FS α) (name other : String) (x : α) (h : other ≠ name) :
    (fs.write other x).read name = fs.read name := by
  simp [FS.read, FS.write, h]

/-- a sequence of saves -/
def saveAll {α : Type} (fs : FS α) : List (String × α) → FS α
  | [] => fs
  | (n, x) :: rest => saveAll (fs.write n x) rest

/-- what the last save under `name` wrote (`none` if there was none) -/
def lastSaved {α : Type} (name : String) : List (String × α) → Option α
  | [] => none
  | (n, x) :: rest => match lastSaved name rest with
    | some y => some y
    | none => if n == name then some x else none

/-- **load(name) returns what the last save(name, …) wrote, whatever was saved under other names** -/
theorem read_saveAll {α : Type} (name : String) : ∀ (saves : List (String × α)) (fs : FS α),
    (saveAll fs saves).read name = (lastSaved name saves).or (fs.read name) := by
  intro saves
  induction saves with
  | nil => intro fs; simp [saveAll, lastSaved]
  | cons s rest ih =>
    intro fs
    obtain ⟨n, x⟩ := s
    simp only [saveAll, lastSaved]
    rw [ih]
    cases hl : lastSaved name rest with
    | some y => simp
    | none =>
      by_cases hn : n = name
      · subst hn; simp [FS.read_write_same]
      · have : (n == name) = false := by simpa using hn
        simp [this, FS.read_write_other fs name n x hn]

theorem saveProg_run {α : Type} (fs : FS α) (name : String) (a : α) :
    Expected.saveProg.run fs name a = some (fs.write name a) := by
  simp [SaveProg.run, SaveProg.wellFormed, Expected.saveProg]

theorem loadProg_run {α : Type} (fs : FS α) (name : String) : Expected.loadProg.run fs name = fs.read name := by
  simp [LoadProg.run, LoadProg.wellFormed, Expected.loadProg]

/-- distinct names never interfere: after saving `a` under `n1` and `b` under `n2 ≠ n1` (in either order, with anything else
    in between under further names), loading `n1` gives `a` -/
theorem load_after_two_saves {α : Type} (fs : FS α) (n1 n2 : String) (a b : α) (h : n1 ≠ n2) :
    ∃ fs1 fs2, Expected.saveProg.run fs n1 a = some fs1 ∧ Expected.saveProg.run fs1 n2 b = some fs2 ∧
      Expected.loadProg.run fs2 n1 = some a ∧ Expected.loadProg.run fs2 n2 = some b := by
  refine ⟨_, _, saveProg_run fs n1 a, saveProg_run _ n2 b, ?_, ?_⟩
  · rw [loadProg_run, FS.read_write_other _ n1 n2 b (fun e => h e.symm), FS.read_write_same]
  · rw [loadProg_run, FS.read_write_same]

example : (saveAll ([] : FS Nat) [("run.0", 1), ("run.1", 2), ("run.0", 3)]).read "run.0" = some 3 := by decide
example : (saveAll ([] : FS Nat) [("run.0", 1), ("run.1", 2)]).read "run.1" = some 2 := by decide

end Opy
