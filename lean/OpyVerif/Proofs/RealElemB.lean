import Mathlib.Analysis.SpecialFunctions.Pow.Real
import Mathlib.Analysis.SpecialFunctions.Gamma.Basic
import Mathlib.Analysis.SpecialFunctions.Trigonometric.Basic
import Mathlib.Analysis.SpecialFunctions.Log.Basic
import Mathlib.Analysis.SpecialFunctions.Sqrt
import Mathlib.Tactic.NormNum.OfScientific
import OpyVerif.Model.Num
/-!
The proof-side instance `Elem ℝ` and the simp lemmas that unfold every `Elem` operation at `ℝ`
to the corresponding Mathlib operation.

`Elem` extends `Add … Neg`, so its parent projections are instances.  Once `Elem ℝ` exists they
would compete with Mathlib's own `Add ℝ`, `Div ℝ`, … whenever `a / b : ℝ` is elaborated (observed:
`b / a` picked `Elem.toDiv`).  The projections are therefore given a low priority here; for an
abstract `α` with `[Elem α]` they stay the only candidates, so the model files are unaffected.
-/
namespace Opy

attribute [instance 10] Elem.toAdd Elem.toSub Elem.toMul Elem.toDiv Elem.toNeg

noncomputable instance instElemRealB : Elem ℝ where
  toAdd := Real.instAdd
  toSub := Real.instSub
  toMul := Real.instMul
  toDiv := inferInstance
  toNeg := Real.instNeg
  ofNat' n := (n : ℝ)
  ofSci m s e := (OfScientific.ofScientific m s e : ℝ)
  exp := Real.exp
  log := Real.log
  sin := Real.sin
  cos := Real.cos
  sqrt := Real.sqrt
  abs := fun x => |x|
  pow := fun x y => x ^ y
  pi := Real.pi
  gamma := Real.Gamma

namespace RealElem

@[simp] theorem add_def (a b : ℝ) :
    @HAdd.hAdd ℝ ℝ ℝ (@instHAdd ℝ (@Elem.toAdd ℝ instElemRealB)) a b = a + b := rfl
@[simp] theorem sub_def (a b : ℝ) :
    @HSub.hSub ℝ ℝ ℝ (@instHSub ℝ (@Elem.toSub ℝ instElemRealB)) a b = a - b := rfl
@[simp] theorem mul_def (a b : ℝ) :
    @HMul.hMul ℝ ℝ ℝ (@instHMul ℝ (@Elem.toMul ℝ instElemRealB)) a b = a * b := rfl
@[simp] theorem div_def (a b : ℝ) :
    @HDiv.hDiv ℝ ℝ ℝ (@instHDiv ℝ (@Elem.toDiv ℝ instElemRealB)) a b = a / b := rfl
@[simp] theorem neg_def (a : ℝ) : @Neg.neg ℝ (@Elem.toNeg ℝ instElemRealB) a = -a := rfl
@[simp] theorem ofNat'_def (n : ℕ) : (Elem.ofNat' n : ℝ) = (n : ℝ) := rfl
@[simp] theorem ofSci_def (m : ℕ) (s : Bool) (e : ℕ) :
    (Elem.ofSci m s e : ℝ) = (OfScientific.ofScientific m s e : ℝ) := rfl
@[simp] theorem exp_def (a : ℝ) : Elem.exp a = Real.exp a := rfl
@[simp] theorem log_def (a : ℝ) : Elem.log a = Real.log a := rfl
@[simp] theorem sin_def (a : ℝ) : Elem.sin a = Real.sin a := rfl
@[simp] theorem cos_def (a : ℝ) : Elem.cos a = Real.cos a := rfl
@[simp] theorem sqrt_def (a : ℝ) : Elem.sqrt a = Real.sqrt a := rfl
@[simp] theorem abs_def (a : ℝ) : Elem.abs a = |a| := rfl
@[simp] theorem pow_def (a b : ℝ) : Elem.pow a b = a ^ b := rfl
@[simp] theorem pi_def : (Elem.pi : ℝ) = Real.pi := rfl
@[simp] theorem gamma_def (a : ℝ) : Elem.gamma a = Real.Gamma a := rfl

theorem foldl_add_eq (xs : List ℝ) (a : ℝ) : xs.foldl (fun u v : ℝ => u + v) a = a + xs.sum := by
  induction xs generalizing a with
  | nil => simp
  | cons x xs ih => simp [List.foldl_cons, ih, add_assoc]

/-- the left fold from `0` is the list sum -/
theorem sumL_eq_sum (xs : List ℝ) : sumL xs = xs.sum := by
  have h := foldl_add_eq xs 0
  rw [zero_add] at h
  rw [← h]
  simp [sumL]

end RealElem
end Opy
