import OpyVerif.Proofs.Lemmas.MachineLemmas2
/-!
C07 — the population size never changes, and position storage is never shared.

`refsOf s` lists the storage identities of the agents (population order) followed by that of
the best agent; `RefsOk s` says they are pairwise distinct (no aliasing between agents, nor
between an agent and the best).  The sweep gives the best *fresh* storage (the deep copy) and
leaves every agent's storage alone; the black-hole swap exchanges two identities; clipping and
dumping touch none.  The best agent itself changes only in a sweep or a swap.
-/
set_option linter.unusedVariables false
namespace Opy

/-- every accepted event preserves the population size -/
theorem apply_pop_length (cfg : Cfg) (s s' : St) (e : Ev) (h : apply cfg s e = some s') :
    s'.pop.length = s.pop.length := by
  cases e with
  | hook pop' => obtain ⟨h1, _, rfl⟩ := hook_spec cfg s s' pop' h; exact h1
  | update pop' => obtain ⟨h1, _, rfl⟩ := update_spec cfg s s' pop' h; exact h1
  | trial p v pop' => obtain ⟨h1, _, rfl⟩ := trial_spec cfg s s' p v pop' h; exact h1
  | trialSwap p v i => obtain ⟨a, _, _, _, rfl⟩ := trialSwap_spec cfg s s' p v i h; simp
  | sweep v tie r => obtain ⟨a, _, _, _, rfl⟩ := sweep_spec cfg s s' v tie r h; simp
  | clipAll => obtain ⟨_, rfl⟩ := clipAll_spec cfg s s' h; simp
  | dump => obtain ⟨_, _, rfl⟩ := dump_spec cfg s s' h; rfl

/-- **C07 (size).** The population size is the same after any accepted history. -/
theorem run_pop_length (cfg : Cfg) (evs : List Ev) : ∀ (s s' : St), run cfg s evs = some s' →
    s'.pop.length = s.pop.length := by
  induction evs with
  | nil => intro s s' h; simp only [run] at h; cases h; rfl
  | cons e es ih =>
    intro s s' h
    obtain ⟨s1, h1, h2⟩ := run_cons cfg s s' e es h
    rw [ih s1 s' h2, apply_pop_length cfg s s1 e h1]

/-- a sweep never changes any agent's storage identity -/
theorem sweep_pop_refs (cfg : Cfg) (s s' : St) (v : Int) (tie : Bool) (r : Nat)
    (h : apply cfg s (.sweep v tie r) = some s') :
    s'.pop.map (·.ref) = s.pop.map (·.ref) := by
  obtain ⟨a, hai, _, _, rfl⟩ := sweep_spec cfg s s' v tie r h
  exact map_set_same _ s.pop s.cursor _ a hai (sweepAgent_ref cfg a v)

/-- after a sweep step the best either kept its storage or received the fresh one -/
theorem sweep_best_ref (cfg : Cfg) (s s' : St) (v : Int) (tie : Bool) (r : Nat)
    (h : apply cfg s (.sweep v tie r) = some s') :
    s'.best.ref = s.best.ref ∨ s'.best.ref = r := by
  obtain ⟨a, hai, _, _, rfl⟩ := sweep_spec cfg s s' v tie r h
  dsimp only
  split
  · right; rfl
  · left; rfl

/-- **C07 (sweep).** The best's new storage is fresh and the agents keep theirs: no aliasing
    is introduced by the sweep. -/
theorem sweep_refs (cfg : Cfg) (s s' : St) (v : Int) (tie : Bool) (r : Nat)
    (h : apply cfg s (.sweep v tie r) = some s') (hok : RefsOk s) (hr : r ∉ refsOf s) :
    RefsOk s' := by
  have hp := sweep_pop_refs cfg s s' v tie r h
  unfold RefsOk refsOf at *
  rw [hp]
  rcases sweep_best_ref cfg s s' v tie r h with hb | hb
  · rw [hb]; exact hok
  · rw [hb]
    rw [nodup_concat] at hok ⊢
    refine ⟨hok.1, ?_⟩
    intro hmem
    exact hr (List.mem_append.2 (Or.inl hmem))

/-- **C07 (black-hole swap).** The swap exchanges two storage identities: the multiset of
    identities is unchanged, hence still duplicate-free. -/
theorem trialSwap_refs (cfg : Cfg) (s s' : St) (p : Pos) (v : Int) (i : Nat)
    (h : apply cfg s (.trialSwap p v i) = some s') :
    List.Perm (refsOf s') (refsOf s) ∧ (RefsOk s → RefsOk s') := by
  obtain ⟨a, hai, _, _, rfl⟩ := trialSwap_spec cfg s s' p v i h
  obtain ⟨hil, hia⟩ := List.getElem?_eq_some_iff.1 hai
  have hperm : List.Perm
      (refsOf { s with pop := s.pop.set i { pos := s.best.pos, tpos := s.best.tpos,
                                             fit := s.best.fit, ref := s.best.ref },
                       best := { pos := p, tpos := p, fit := v, ref := a.ref },
                       evals := s.evals ++ [(p, v)], swept := false,
                       sinceHook := s.sinceHook + 1 }) (refsOf s) := by
    unfold refsOf
    dsimp only
    rw [List.map_set]
    have : a.ref = (s.pop.map (·.ref))[i]'(by simpa using hil) := by simp [hia]
    rw [this]
    exact perm_set_swap (s.pop.map (·.ref)) s.best.ref i (by simpa using hil)
  exact ⟨hperm, fun hok => (hperm.nodup_iff).2 hok⟩

/-- the agent at index `i` takes over the best's storage and vice versa -/
theorem trialSwap_exchange (cfg : Cfg) (s s' : St) (p : Pos) (v : Int) (i : Nat)
    (h : apply cfg s (.trialSwap p v i) = some s') :
    ∃ a, s.pop[i]? = some a ∧ s'.best.ref = a.ref ∧
      (s'.pop[i]?).map Ag.ref = some s.best.ref := by
  obtain ⟨a, hai, _, _, rfl⟩ := trialSwap_spec cfg s s' p v i h
  obtain ⟨hil, hia⟩ := List.getElem?_eq_some_iff.1 hai
  refine ⟨a, hai, rfl, ?_⟩
  dsimp only
  simp [hil]

theorem dump_refs (cfg : Cfg) (s s' : St) (h : apply cfg s .dump = some s') :
    refsOf s' = refsOf s := by
  obtain ⟨_, _, rfl⟩ := dump_spec cfg s s' h; rfl

/-- limit enforcement writes into the existing storage: `clipAg` keeps `ref` -/
theorem clipAll_refs (cfg : Cfg) (s s' : St) (h : apply cfg s .clipAll = some s') :
    refsOf s' = refsOf s := by
  obtain ⟨_, rfl⟩ := clipAll_spec cfg s s' h
  unfold refsOf
  dsimp only
  rw [List.map_map]
  rfl

/-- **C07 (best).** The best agent changes only in a sweep step or a black-hole swap. -/
theorem best_changes_only_in_sweep_or_swap (cfg : Cfg) (s s' : St) (e : Ev)
    (hsw : e.isSweep = false) (hsp : e.isSwap = false) (h : apply cfg s e = some s') :
    s'.best = s.best := by
  cases e with
  | hook pop' => obtain ⟨_, _, rfl⟩ := hook_spec cfg s s' pop' h; rfl
  | update pop' => obtain ⟨_, _, rfl⟩ := update_spec cfg s s' pop' h; rfl
  | trial p v pop' => obtain ⟨_, _, rfl⟩ := trial_spec cfg s s' p v pop' h; rfl
  | trialSwap p v i => simp [Ev.isSwap] at hsp
  | sweep v tie r => simp [Ev.isSweep] at hsw
  | clipAll => obtain ⟨_, rfl⟩ := clipAll_spec cfg s s' h; rfl
  | dump => obtain ⟨_, _, rfl⟩ := dump_spec cfg s s' h; rfl

/-! ### non-vacuity -/

/-- distinct identities at the start, fresh identities 3 and 4 in the two sweep steps -/
example : RefsOk (initSt demoPop demoBest) := by decide
example : ((run demoCfg (initSt demoPop demoBest) [.hook demoPop, .sweep 10 false 3, .sweep 4 false 4]).map
    (fun s => (refsOf s, s.pop.length))) = some ([1, 2, 4], 2) := by decide
/-- a black-hole swap after the sweep (agent 0 moved to `[[3]]` first): agent 0 and the best
    exchange identities -/
example : ((run demoCfg (initSt demoPop demoBest)
    [.hook demoPop, .sweep 10 false 3, .sweep 4 false 4,
     .update [{ pos := [[3]], tpos := [[3]], fit := 10, ref := 1 }, { pos := [[5]], tpos := [[5]], fit := 4, ref := 2 }],
     .trialSwap [[3]] 2 0]).map
    (fun s => (refsOf s, s.best.fit, s.pop.length))) = some ([4, 2, 1], 2, 2) := by decide
/-- freshness is needed: re-using an agent's identity for the best aliases the two -/
example : ((run demoCfg (initSt demoPop demoBest) [.hook demoPop, .sweep 10 false 2]).map
    (fun s => decide (RefsOk s))) = some false := by decide

#print axioms apply_pop_length
#print axioms run_pop_length
#print axioms sweep_pop_refs
#print axioms sweep_best_ref
#print axioms sweep_refs
#print axioms trialSwap_refs
#print axioms trialSwap_exchange
#print axioms dump_refs
#print axioms clipAll_refs
#print axioms best_changes_only_in_sweep_or_swap

end Opy
