import OpyVerif.Proofs.Lemmas.RealLemmas
/-!
C15 — self-adapting hyperparameter schedules stay in their declared ranges over `ℝ`:
AIWPSO inertia weight, IHS `PAR`/`bw`, SA temperature, FA `alpha`, WCA `d_max`.
The formulas are the ones of `Model/Num.lean`, instantiated at `ℝ`.
-/
set_option linter.unusedVariables false
namespace Opy

/-- AIWPSO: the inertia weight stays in `[w_min, w_max]` whenever the success count is at most `n` -/
theorem aiwpsoW_mem (wmin wmax : ℝ) (p n : ℕ) (hn : 0 < n) (hp : p ≤ n) (hw : wmin ≤ wmax) :
    wmin ≤ aiwpsoW wmin wmax p n ∧ aiwpsoW wmin wmax p n ≤ wmax := by
  obtain ⟨h0, h1⟩ := frac_mem p n hn hp
  rw [aiwpsoW_real]
  exact lerp_mem wmin wmax _ hw h0 h1

/-- the counting loop `p = #{i | new_i < old_i}` never exceeds the number of agents -/
theorem success_count_le (new old : List ℝ) (n : ℕ) (h1 : new.length = n) (h2 : old.length = n) :
    successCount new old ≤ n := by
  have := successCount_le_length new old
  rw [h1, h2] at this
  simpa using this

/-- the loop form of the source computes the same count -/
theorem success_loop_le (new old : List ℝ) (n : ℕ) (h1 : new.length = n) (h2 : old.length = n) :
    successLoop new old ≤ n := by
  rw [successLoop_eq_count]; exact success_count_le new old n h1 h2

/-- AIWPSO end to end: with `p` the success count over `n ≥ 1` agents the weight is in range -/
theorem aiwpsoW_mem_of_count (wmin wmax : ℝ) (new old : List ℝ) (n : ℕ) (hn : 0 < n)
    (h1 : new.length = n) (h2 : old.length = n) (hw : wmin ≤ wmax) :
    wmin ≤ aiwpsoW wmin wmax (successLoop new old) n ∧
      aiwpsoW wmin wmax (successLoop new old) n ≤ wmax :=
  aiwpsoW_mem wmin wmax _ n hn (success_loop_le new old n h1 h2) hw

/-- IHS: `PAR` stays in `[PAR_min, PAR_max]` for every iteration `t < N` -/
theorem ihsPAR_mem (pmin pmax : ℝ) (N t : ℕ) (hN : 0 < N) (ht : t < N) (hp : pmin ≤ pmax) :
    pmin ≤ ihsPAR pmin pmax N t ∧ ihsPAR pmin pmax N t ≤ pmax := by
  obtain ⟨h0, h1⟩ := frac_mem t N hN ht.le
  rw [ihsPAR_real]
  have e : pmin + (pmax - pmin) / (N : ℝ) * (t : ℝ) = (pmax - pmin) * ((t : ℝ) / (N : ℝ)) + pmin := by
    ring
  rw [e]
  exact lerp_mem pmin pmax _ hp h0 h1

/-- IHS: `bw` stays in `[bw_min, bw_max]` for every iteration `t < N` -/
theorem ihsBw_mem (bmin bmax : ℝ) (N t : ℕ) (hN : 0 < N) (ht : t < N) (h0 : 0 < bmin)
    (hb : bmin ≤ bmax) : bmin ≤ ihsBw bmin bmax N t ∧ ihsBw bmin bmax N t ≤ bmax := by
  rw [ihsBw_real]
  have hmax : 0 < bmax := lt_of_lt_of_le h0 hb
  have hr0 : 0 < bmin / bmax := div_pos h0 hmax
  have hr1 : bmin / bmax ≤ 1 := by rw [div_le_one hmax]; exact hb
  have hlog : Real.log (bmin / bmax) ≤ 0 := Real.log_nonpos hr0.le hr1
  obtain ⟨hfrac0, hfrac1⟩ := frac_mem t N hN ht.le
  have e : Real.log (bmin / bmax) / (N : ℝ) * (t : ℝ)
      = Real.log (bmin / bmax) * ((t : ℝ) / (N : ℝ)) := by ring
  have hexp_le : Real.log (bmin / bmax) / (N : ℝ) * (t : ℝ) ≤ 0 := by
    rw [e]; exact mul_nonpos_of_nonpos_of_nonneg hlog hfrac0
  have hexp_ge : Real.log (bmin / bmax) ≤ Real.log (bmin / bmax) / (N : ℝ) * (t : ℝ) := by
    rw [e]
    have := mul_le_mul_of_nonpos_left hfrac1 hlog
    linarith
  constructor
  · have h := Real.exp_le_exp.mpr hexp_ge
    rw [Real.exp_log hr0] at h
    calc bmin = bmax * (bmin / bmax) := by field_simp
      _ ≤ _ := mul_le_mul_of_nonneg_left h hmax.le
  · have h : Real.exp (Real.log (bmin / bmax) / (N : ℝ) * (t : ℝ)) ≤ 1 := by
      rw [← Real.exp_zero]; exact Real.exp_le_exp.mpr hexp_le
    have := mul_le_mul_of_nonneg_left h hmax.le
    linarith

/-- SA: one cooling step with `beta ∈ [0,1]` keeps the temperature in `[0, T]` -/
theorem saT_antitone_nonneg (T beta : ℝ) (hT : 0 ≤ T) (hb0 : 0 ≤ beta) (hb1 : beta ≤ 1) :
    0 ≤ saT T beta ∧ saT T beta ≤ T := by
  rw [saT_real]
  constructor
  · exact mul_nonneg hT hb0
  · have := mul_le_mul_of_nonneg_left hb1 hT; linarith

/-- SA: after any number `k` of cooling steps the temperature is in `[0, T0]`, and step `k+1` does
    not exceed step `k` -/
theorem saT_iter (T0 beta : ℝ) (hT : 0 ≤ T0) (hb0 : 0 ≤ beta) (hb1 : beta ≤ 1) (k : ℕ) :
    0 ≤ (fun T => saT T beta)^[k] T0 ∧ (fun T => saT T beta)^[k] T0 ≤ T0 ∧
      (fun T => saT T beta)^[k + 1] T0 ≤ (fun T => saT T beta)^[k] T0 :=
  iterate_shrink _ (fun x hx => saT_antitone_nonneg x beta hx hb0 hb1) T0 hT k

/-- SA: the temperature sequence is antitone in the iteration count -/
theorem saT_iter_antitone (T0 beta : ℝ) (hT : 0 ≤ T0) (hb0 : 0 ≤ beta) (hb1 : beta ≤ 1) :
    Antitone fun k => (fun T => saT T beta)^[k] T0 :=
  iterate_shrink_antitone _ (fun x hx => saT_antitone_nonneg x beta hx hb0 hb1) T0 hT

/-- FA: `delta ∈ (0,1)` for every positive iteration budget -/
theorem faDelta_mem (N : ℕ) (hN : 0 < N) : 0 < (faDelta N : ℝ) ∧ (faDelta N : ℝ) < 1 := by
  obtain ⟨h0, h1⟩ := faFactor_mem N hN
  rw [faDelta_real]
  constructor <;> linarith

/-- FA: one update keeps `alpha` in `[0, alpha]` -/
theorem faAlpha_antitone_nonneg (alpha : ℝ) (N : ℕ) (hN : 0 < N) (ha : 0 ≤ alpha) :
    0 ≤ faAlpha alpha N ∧ faAlpha alpha N ≤ alpha := by
  obtain ⟨h0, h1⟩ := faFactor_mem N hN
  rw [faAlpha_real]
  constructor
  · exact mul_nonneg ha h0.le
  · have := mul_le_mul_of_nonneg_left h1.le ha; linarith

theorem faAlpha_iter (alpha0 : ℝ) (N : ℕ) (hN : 0 < N) (ha : 0 ≤ alpha0) (k : ℕ) :
    0 ≤ (fun a => faAlpha a N)^[k] alpha0 ∧ (fun a => faAlpha a N)^[k] alpha0 ≤ alpha0 ∧
      (fun a => faAlpha a N)^[k + 1] alpha0 ≤ (fun a => faAlpha a N)^[k] alpha0 :=
  iterate_shrink _ (fun x hx => faAlpha_antitone_nonneg x N hN hx) alpha0 ha k

theorem faAlpha_iter_antitone (alpha0 : ℝ) (N : ℕ) (hN : 0 < N) (ha : 0 ≤ alpha0) :
    Antitone fun k => (fun a => faAlpha a N)^[k] alpha0 :=
  iterate_shrink_antitone _ (fun x hx => faAlpha_antitone_nonneg x N hN hx) alpha0 ha

/-- WCA: one update keeps `d_max` in `[0, d_max]` -/
theorem wcaDmax_antitone_nonneg (d : ℝ) (N : ℕ) (hN : 1 ≤ N) (hd : 0 ≤ d) :
    0 ≤ wcaDmax d N ∧ wcaDmax d N ≤ d := by
  rw [wcaDmax_real]
  have hN' : (1 : ℝ) ≤ N := by exact_mod_cast hN
  have hpos : (0 : ℝ) < N := by linarith
  have h0 : 0 ≤ d / (N : ℝ) := div_nonneg hd hpos.le
  have h1 : d / (N : ℝ) ≤ d := div_le_self hd hN'
  constructor <;> linarith

theorem wcaDmax_iter (d0 : ℝ) (N : ℕ) (hN : 1 ≤ N) (hd : 0 ≤ d0) (k : ℕ) :
    0 ≤ (fun d => wcaDmax d N)^[k] d0 ∧ (fun d => wcaDmax d N)^[k] d0 ≤ d0 ∧
      (fun d => wcaDmax d N)^[k + 1] d0 ≤ (fun d => wcaDmax d N)^[k] d0 :=
  iterate_shrink _ (fun x hx => wcaDmax_antitone_nonneg x N hN hx) d0 hd k

theorem wcaDmax_iter_antitone (d0 : ℝ) (N : ℕ) (hN : 1 ≤ N) (hd : 0 ≤ d0) :
    Antitone fun k => (fun d => wcaDmax d N)^[k] d0 :=
  iterate_shrink_antitone _ (fun x hx => wcaDmax_antitone_nonneg x N hN hx) d0 hd


/-! ### the schedules as functions of the iteration: end points and direction (every `N`, every pair of iterations) -/

/-- IHS: `PAR` starts at `PAR_min` -/
theorem ihsPAR_zero (pmin pmax : ℝ) (N : ℕ) : ihsPAR pmin pmax N 0 = pmin := by
  rw [ihsPAR_real]; simp

/-- IHS: `PAR` would reach `PAR_max` at `t = N` (the run stops at `N - 1`) -/
theorem ihsPAR_last (pmin pmax : ℝ) (N : ℕ) (hN : 0 < N) : ihsPAR pmin pmax N N = pmax := by
  rw [ihsPAR_real]
  have hN' : (N : ℝ) ≠ 0 := by exact_mod_cast hN.ne'
  field_simp; ring

/-- IHS: `PAR` never decreases from one iteration to a later one -/
theorem ihsPAR_monotone (pmin pmax : ℝ) (N t t' : ℕ) (hp : pmin ≤ pmax) (htt : t ≤ t') :
    ihsPAR pmin pmax N t ≤ ihsPAR pmin pmax N t' := by
  rw [ihsPAR_real, ihsPAR_real]
  have hd : 0 ≤ (pmax - pmin) / (N : ℝ) := div_nonneg (sub_nonneg.mpr hp) (Nat.cast_nonneg N)
  have ht : (t : ℝ) ≤ (t' : ℝ) := by exact_mod_cast htt
  have := mul_le_mul_of_nonneg_left ht hd
  linarith

/-- IHS: `bw` starts at `bw_max` -/
theorem ihsBw_zero (bmin bmax : ℝ) (N : ℕ) : ihsBw bmin bmax N 0 = bmax := by
  rw [ihsBw_real]; simp

/-- IHS: `bw` would reach `bw_min` at `t = N` -/
theorem ihsBw_last (bmin bmax : ℝ) (N : ℕ) (hN : 0 < N) (h0 : 0 < bmin) (hb : bmin ≤ bmax) :
    ihsBw bmin bmax N N = bmin := by
  rw [ihsBw_real]
  have hmax : 0 < bmax := lt_of_lt_of_le h0 hb
  have hN' : (N : ℝ) ≠ 0 := by exact_mod_cast hN.ne'
  have e : Real.log (bmin / bmax) / (N : ℝ) * (N : ℝ) = Real.log (bmin / bmax) := by field_simp
  rw [e, Real.exp_log (div_pos h0 hmax)]
  field_simp

/-- IHS: `bw` never increases from one iteration to a later one -/
theorem ihsBw_antitone (bmin bmax : ℝ) (N t t' : ℕ) (h0 : 0 < bmin) (hb : bmin ≤ bmax) (htt : t ≤ t') :
    ihsBw bmin bmax N t' ≤ ihsBw bmin bmax N t := by
  rw [ihsBw_real, ihsBw_real]
  have hmax : 0 < bmax := lt_of_lt_of_le h0 hb
  have hr0 : 0 < bmin / bmax := div_pos h0 hmax
  have hr1 : bmin / bmax ≤ 1 := by rw [div_le_one hmax]; exact hb
  have hlog : Real.log (bmin / bmax) / (N : ℝ) ≤ 0 :=
    div_nonpos_of_nonpos_of_nonneg (Real.log_nonpos hr0.le hr1) (Nat.cast_nonneg N)
  have ht : (t : ℝ) ≤ (t' : ℝ) := by exact_mod_cast htt
  have hexp : Real.log (bmin / bmax) / (N : ℝ) * (t' : ℝ) ≤ Real.log (bmin / bmax) / (N : ℝ) * (t : ℝ) :=
    mul_le_mul_of_nonpos_left ht hlog
  exact mul_le_mul_of_nonneg_left (Real.exp_le_exp.mpr hexp) hmax.le

/-- AIWPSO: more successes never give a smaller inertia weight -/
theorem aiwpsoW_monotone (wmin wmax : ℝ) (p p' n : ℕ) (hw : wmin ≤ wmax) (hpp : p ≤ p') :
    aiwpsoW wmin wmax p n ≤ aiwpsoW wmin wmax p' n := by
  rw [aiwpsoW_real, aiwpsoW_real]
  have hd : 0 ≤ wmax - wmin := sub_nonneg.mpr hw
  have hp : (p : ℝ) / (n : ℝ) ≤ (p' : ℝ) / (n : ℝ) :=
    div_le_div_of_nonneg_right (by exact_mod_cast hpp) (Nat.cast_nonneg n)
  have := mul_le_mul_of_nonneg_left hp hd
  linarith

/-- AIWPSO: no success gives `w_min`, all successes give `w_max` -/
theorem aiwpsoW_ends (wmin wmax : ℝ) (n : ℕ) (hn : 0 < n) :
    aiwpsoW wmin wmax 0 n = wmin ∧ aiwpsoW wmin wmax n n = wmax := by
  rw [aiwpsoW_real, aiwpsoW_real]
  have hn' : (n : ℝ) ≠ 0 := by exact_mod_cast hn.ne'
  constructor
  · simp
  · rw [div_self hn']; ring

/-! ### closed forms of the multiplicative decays (what a rewrite of the loop "in closed form" has to equal over `ℝ`) -/

/-- SA: after `k` cooling steps `T = T0 · beta ^ k` -/
theorem saT_closed_form (T0 beta : ℝ) (k : ℕ) : (fun T => saT T beta)^[k] T0 = T0 * beta ^ k := by
  induction k with
  | zero => simp
  | succ k ih => rw [Function.iterate_succ_apply', ih, saT_real]; ring

/-- WCA: after `k` updates `d_max = d0 · (1 - 1/N) ^ k`; in particular it is `0` from the first update on when `N = 1` -/
theorem wcaDmax_closed_form (d0 : ℝ) (N k : ℕ) :
    (fun d => wcaDmax d N)^[k] d0 = d0 * (1 - 1 / (N : ℝ)) ^ k := by
  induction k with
  | zero => simp
  | succ k ih => rw [Function.iterate_succ_apply', ih, wcaDmax_real]; ring

/-- WCA with a one-iteration budget: `d_max` is exactly `0` after the first update -/
theorem wcaDmax_one_iteration (d0 : ℝ) : wcaDmax d0 1 = 0 := by
  rw [wcaDmax_real]; simp

/-- FA: after `k` updates `alpha = alpha0 · ((1/900) ^ (1/N)) ^ k` -/
theorem faAlpha_closed_form (alpha0 : ℝ) (N k : ℕ) :
    (fun a => faAlpha a N)^[k] alpha0 = alpha0 * (((1 : ℝ) / 900) ^ ((1 : ℝ) / (N : ℝ))) ^ k := by
  induction k with
  | zero => simp
  | succ k ih => rw [Function.iterate_succ_apply', ih, faAlpha_real]; ring

/-- FA: a whole task of `N` iterations divides `alpha` by exactly 900 (over `ℝ`) -/
theorem faAlpha_whole_task (alpha0 : ℝ) (N : ℕ) (hN : 0 < N) :
    (fun a => faAlpha a N)^[N] alpha0 = alpha0 / 900 := by
  rw [faAlpha_closed_form]
  have hN' : (N : ℝ) ≠ 0 := by exact_mod_cast hN.ne'
  rw [← Real.rpow_natCast, ← Real.rpow_mul (by norm_num), one_div_mul_cancel hN', Real.rpow_one]
  ring

/-! satisfiability of the hypotheses, on concrete numbers -/

example : (0 : ℕ) < 20 ∧ (7 : ℕ) ≤ 20 ∧ (0.4 : ℝ) ≤ 0.9 := by norm_num
example : (0 : ℕ) < 1000 ∧ (999 : ℕ) < 1000 ∧ (0 : ℝ) ≤ 1 := by norm_num
example : (0 : ℕ) < 1000 ∧ (999 : ℕ) < 1000 ∧ (0 : ℝ) < 1 ∧ (1 : ℝ) ≤ 10 := by norm_num
example : (0 : ℝ) ≤ 100 ∧ (0 : ℝ) ≤ 0.999 ∧ (0.999 : ℝ) ≤ 1 := by norm_num
example : (1 : ℕ) ≤ 1000 ∧ (0 : ℝ) ≤ 0.1 := by norm_num
example : (0.01 : ℝ) ≤ 0.99 ∧ (3 : ℕ) ≤ 7 ∧ (0 : ℝ) < 0.0001 ∧ (0.0001 : ℝ) ≤ 1 := by norm_num
example : successCount [(1 : ℕ), 5, 2] [3, 4, 9] = 2 := by decide
example : successLoop [(1 : ℕ), 5, 2] [3, 4, 9] = 2 := by decide

#print axioms aiwpsoW_mem
#print axioms success_count_le
#print axioms success_loop_le
#print axioms aiwpsoW_mem_of_count
#print axioms ihsPAR_mem
#print axioms ihsBw_mem
#print axioms saT_antitone_nonneg
#print axioms saT_iter
#print axioms saT_iter_antitone
#print axioms faDelta_mem
#print axioms faAlpha_antitone_nonneg
#print axioms faAlpha_iter
#print axioms faAlpha_iter_antitone
#print axioms wcaDmax_antitone_nonneg
#print axioms wcaDmax_iter
#print axioms wcaDmax_iter_antitone
#print axioms ihsPAR_zero
#print axioms ihsPAR_last
#print axioms ihsPAR_monotone
#print axioms ihsBw_zero
#print axioms ihsBw_last
#print axioms ihsBw_antitone
#print axioms aiwpsoW_monotone
#print axioms aiwpsoW_ends
#print axioms saT_closed_form
#print axioms wcaDmax_closed_form
#print axioms wcaDmax_one_iteration
#print axioms faAlpha_closed_form
#print axioms faAlpha_whole_task

end Opy
