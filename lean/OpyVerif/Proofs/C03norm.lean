import OpyVerif.Proofs.Lemmas.NormLemmas
/-!
C03 (part) — the fitness normalisations of GSA, BHA and WCA (`Model/Normalise.lean`) over `ℝ`:
when their divisions are defined, and what ranges the results then lie in.

Over `ℝ` a division by zero is not an error (`x / 0 = 0` by Mathlib's convention), so "the division
is defined" is stated as "the denominator is non-zero" (`< 0` or `> 0`), and the excluded points
are exhibited as denominators that *are* zero.
-/
namespace Opy

/-! ### GSA `_calculate_mass` (after the repair) -/

/-- first denominator `best - worst - eps` is negative: the first division is always defined.
    `fits` sorted ascending, `0 < eps`. (Non-emptiness is not needed: on `[]` the model's defaults
    give `0 - 0 - eps`.) -/
theorem gsaDen1_neg (eps : ℝ) (fits : List ℝ) (hs : fits.Pairwise (· ≤ ·)) (heps : 0 < eps) :
    gsaDen1 eps fits < 0 := by
  have := gsaBest_le_gsaWorst fits hs
  rw [gsaDen1_real]; linarith

/-- every raw mass `(fit_i - worst) / (best - worst - eps)` is non-negative -/
theorem gsaRawMass_nonneg (eps : ℝ) (fits : List ℝ) (hs : fits.Pairwise (· ≤ ·)) (heps : 0 < eps) :
    ∀ m ∈ gsaRawMass eps fits, 0 ≤ m := by
  intro m hm
  rw [gsaRawMass_real] at hm
  obtain ⟨f, hf, rfl⟩ := List.mem_map.mp hm
  exact div_nonneg_of_nonpos (sub_nonpos.mpr (le_gsaWorst fits hs f hf)) (gsaDen1_neg eps fits hs heps).le

/-- second denominator `sum(mass) + eps` is positive: the second division is always defined -/
theorem gsaDen2_pos (eps : ℝ) (fits : List ℝ) (hs : fits.Pairwise (· ≤ ·)) (heps : 0 < eps) :
    0 < gsaDen2 eps fits := by
  have := List.sum_nonneg (gsaRawMass_nonneg eps fits hs heps)
  rw [gsaDen2_real]; linarith

/-- every normalised mass lies in `[0, 1)` -/
theorem gsaMass_nonneg (eps : ℝ) (fits : List ℝ) (hs : fits.Pairwise (· ≤ ·)) (heps : 0 < eps) :
    ∀ m ∈ gsaMass eps fits, 0 ≤ m ∧ m < 1 := by
  intro m hm
  rw [gsaMass_real] at hm
  obtain ⟨r, hr, rfl⟩ := List.mem_map.mp hm
  have hnn := gsaRawMass_nonneg eps fits hs heps
  have hd := gsaDen2_pos eps fits hs heps
  refine ⟨div_nonneg (hnn r hr) hd.le, ?_⟩
  rw [div_lt_one hd, gsaDen2_real]
  have := List.single_le_sum hnn r hr
  linarith

/-- the normalised masses sum to `S / (S + eps)`, `S` the sum of the raw masses -/
theorem gsaMass_sum_eq (eps : ℝ) (fits : List ℝ) :
    sumL (gsaMass eps fits) = (gsaRawMass eps fits).sum / ((gsaRawMass eps fits).sum + eps) := by
  rw [sumL_eq_sum, gsaMass_real, sum_map_div, gsaDen2_real]

/-- the normalised masses sum to a number in `[0, 1)` -/
theorem gsaMass_sum_lt_one (eps : ℝ) (fits : List ℝ) (hs : fits.Pairwise (· ≤ ·)) (heps : 0 < eps) :
    0 ≤ sumL (gsaMass eps fits) ∧ sumL (gsaMass eps fits) < 1 := by
  have hS := List.sum_nonneg (gsaRawMass_nonneg eps fits hs heps)
  have hd : 0 < (gsaRawMass eps fits).sum + eps := by linarith
  rw [gsaMass_sum_eq]
  refine ⟨div_nonneg hS hd.le, ?_⟩
  rw [div_lt_one hd]; linarith

/-- all fitnesses equal (the input that gave `0/0 = NaN` before the repair): every mass is `0` -/
theorem gsaMass_equal_fitness (eps c : ℝ) (fits : List ℝ) (h : ∀ x ∈ fits, x = c) :
    ∀ m ∈ gsaMass eps fits, m = 0 := by
  intro m hm
  rw [gsaMass_real] at hm
  obtain ⟨r, hr, rfl⟩ := List.mem_map.mp hm
  rw [gsaRawMass_real] at hr
  obtain ⟨f, hf, rfl⟩ := List.mem_map.mp hr
  have hne : fits ≠ [] := List.ne_nil_of_mem hf
  rw [gsaWorst_of_const fits c h hne, h f hf, sub_self, zero_div, zero_div]

/-- … and on that input the two denominators are `-eps` and `eps`, both non-zero when `eps ≠ 0` -/
theorem gsaMass_equal_fitness_dens (eps c : ℝ) (fits : List ℝ) (h : ∀ x ∈ fits, x = c) :
    gsaDen1 eps fits = -eps ∧ gsaDen2 eps fits = eps := by
  have h1 : gsaDen1 eps fits = -eps := by
    rw [gsaDen1_real, gsaBest_eq_gsaWorst_of_const fits c h]; ring
  refine ⟨h1, ?_⟩
  rw [gsaDen2_real, sum_map_zero_of_forall, zero_add]
  intro r hr
  rw [gsaRawMass_real] at hr
  obtain ⟨f, hf, rfl⟩ := List.mem_map.mp hr
  rw [gsaWorst_of_const fits c h (List.ne_nil_of_mem hf), h f hf, sub_self, zero_div]

/-- one mass per agent (any scalar type) -/
theorem gsaMass_length {α : Type} [Elem α] (eps : α) (fits : List α) :
    (gsaMass eps fits).length = fits.length := by
  simp [gsaMass, gsaRawMass]

/-! ### BHA `_event_horizon` -/

theorem bhaRadius_spec (b cost : ℝ) (hc : cost ≠ 0) : bhaRadius b cost * cost = b := by
  rw [bhaRadius_real]; exact div_mul_cancel₀ b hc

theorem bhaRadius_pos (b cost : ℝ) (hb : 0 < b) (hc : 0 < cost) : 0 < bhaRadius b cost := by
  rw [bhaRadius_real]; exact div_pos hb hc

/-- The excluded point. Over `ℝ` the quotient by zero is `0` by convention, so the radius "exists";
    on IEEE / Python numbers `best_agent.fit / 0.0` with a Python float `cost` is the
    `ZeroDivisionError` of known finding K3 (e.g. every agent at fitness 0, or fitnesses cancelling). -/
theorem bhaRadius_zero_cost (b : ℝ) : bhaRadius b 0 = 0 := by
  rw [bhaRadius_real]; exact div_zero b

/-! ### WCA `_flow_intensity` -/

/-- each of the first `nsr` shares `fit_i / cost` lies in `(0, 1]` when the first `nsr`
    fitnesses are positive -/
theorem wcaFlow_share_mem (nsr : ℕ) (fits : List ℝ) (i : ℕ) (hpos : ∀ x ∈ fits.take nsr, 0 < x)
    (hi : i < nsr) (hn : nsr ≤ fits.length) :
    0 < wcaShare nsr fits i ∧ wcaShare nsr fits i ≤ 1 :=
  ⟨wcaShare_pos nsr fits i hpos hi hn, wcaShare_le_one nsr fits i hpos hi hn⟩

/-- the shares of the sea and the rivers sum to one -/
theorem wcaFlow_shares_sum (nsr : ℕ) (fits : List ℝ) (hpos : ∀ x ∈ fits.take nsr, 0 < x)
    (h1 : 1 ≤ nsr) (hn : nsr ≤ fits.length) :
    ∑ k ∈ Finset.range nsr, wcaShare nsr fits k = 1 :=
  wcaShares_sum_range nsr fits hpos h1 hn

/-- every rounded flow is non-negative — for any fitnesses, any index (`|·| * (n - nsr) ≥ 0`) -/
theorem wcaFlows_nonneg (rnd : ℝ → ℤ) (hr : ∀ y, |(rnd y : ℝ) - y| ≤ 1 / 2) (nsr n : ℕ)
    (fits : List ℝ) (k : ℕ) : 0 ≤ rnd (wcaFlowReal nsr n fits k) := by
  apply rnd_nonneg rnd hr
  rw [wcaFlowReal_real]
  exact mul_nonneg (abs_nonneg _) (Nat.cast_nonneg _)

/-- **The streams handed to the rivers fit into the population.** For any rounding within `1/2`
    (Python's `round`), positive fitnesses of the sea and the rivers, `1 ≤ nsr ≤ n = len(agents)`:
    each flow is `≥ 0` and the flows of rivers `1 … nsr-1` add up to at most `n` — so the running
    counter `n_flows` of `_update_stream`, hence its index `i < n_flows`, stays inside `agents`. -/
theorem wcaFlows_inrange_pos (rnd : ℝ → ℤ) (hr : ∀ y, |(rnd y : ℝ) - y| ≤ 1 / 2) (nsr n : ℕ)
    (fits : List ℝ) (hpos : ∀ x ∈ fits.take nsr, 0 < x) (h1 : 1 ≤ nsr) (hn : nsr ≤ n)
    (hlen : fits.length = n) :
    (∀ k, 0 ≤ rnd (wcaFlowReal nsr n fits k)) ∧
      ∑ k ∈ Finset.Ico 1 nsr, rnd (wcaFlowReal nsr n fits k) ≤ (n : ℤ) := by
  refine ⟨wcaFlows_nonneg rnd hr nsr n fits, ?_⟩
  have hreal := wcaFlowReal_sum_Ico_le nsr n fits hpos h1 hn hlen
  have hstep : ∑ k ∈ Finset.Ico 1 nsr, ((rnd (wcaFlowReal nsr n fits k) : ℤ) : ℝ)
      ≤ ∑ k ∈ Finset.Ico 1 nsr, (wcaFlowReal nsr n fits k + 1 / 2) :=
    Finset.sum_le_sum fun k _ => rnd_le rnd hr _
  rw [Finset.sum_add_distrib, Finset.sum_const, Nat.card_Ico, nsmul_eq_mul] at hstep
  have hc : ((nsr - 1 : ℕ) : ℝ) = (nsr : ℝ) - 1 := by rw [Nat.cast_sub h1, Nat.cast_one]
  rw [hc] at hstep
  have hnsr : (1 : ℝ) ≤ (nsr : ℝ) := by exact_mod_cast h1
  have hfin : ((∑ k ∈ Finset.Ico 1 nsr, rnd (wcaFlowReal nsr n fits k) : ℤ) : ℝ) ≤ ((n : ℤ) : ℝ) := by
    rw [Int.cast_sum, Int.cast_natCast]
    nlinarith
  exact_mod_cast hfin

/-- the same for every prefix of the rivers: the running counter `n_flows` after river `m - 1`
    is between `0` and `n` -/
theorem wcaFlows_prefix_inrange (rnd : ℝ → ℤ) (hr : ∀ y, |(rnd y : ℝ) - y| ≤ 1 / 2) (nsr n : ℕ)
    (fits : List ℝ) (hpos : ∀ x ∈ fits.take nsr, 0 < x) (h1 : 1 ≤ nsr) (hn : nsr ≤ n)
    (hlen : fits.length = n) (m : ℕ) (hm : m ≤ nsr) :
    0 ≤ ∑ k ∈ Finset.Ico 1 m, rnd (wcaFlowReal nsr n fits k) ∧
      ∑ k ∈ Finset.Ico 1 m, rnd (wcaFlowReal nsr n fits k) ≤ (n : ℤ) := by
  obtain ⟨h0, hall⟩ := wcaFlows_inrange_pos rnd hr nsr n fits hpos h1 hn hlen
  refine ⟨Finset.sum_nonneg fun k _ => h0 k, le_trans ?_ hall⟩
  exact Finset.sum_le_sum_of_subset_of_nonneg (Finset.Ico_subset_Ico_right hm) fun k _ _ => h0 k

/-- The excluded point (known finding K2): with fitnesses of both signs the cost of the sea and the
    rivers can be exactly zero, e.g. `[1, -1, …]` with `nsr = 2`; `agents[i].fit / cost` is then a
    division by zero and `_flow_intensity` crashes (zero / sign-changing fitness sums). -/
theorem wcaFlow_zero_cost_example : sumL ([1, -1] : List ℝ) = 0 := by
  rw [sumL_eq_sum]; norm_num

theorem wcaFlow_zero_cost_example' : wcaCost 2 ([1, -1, 5, 7] : List ℝ) = 0 := by
  rw [wcaCost_real]; norm_num

/-! ### satisfiability of the hypotheses, on concrete numbers -/

example : ([1, 2, 4] : List ℝ).Pairwise (· ≤ ·) ∧ (0 : ℝ) < 1e-32 := by
  refine ⟨?_, by norm_num⟩
  simp only [List.pairwise_cons, List.mem_cons, List.not_mem_nil, or_false, forall_eq_or_imp,
    forall_eq, List.Pairwise.nil, and_true, false_imp_iff, implies_true]
  norm_num
example : ∀ x ∈ ([2, 2, 2] : List ℝ), x = 2 := by simp
example : (5 : ℝ) ≠ 0 ∧ (0 : ℝ) < 1 ∧ (0 : ℝ) < 5 := by norm_num
/-- a rounding function within `1/2` exists (Mathlib's `round`) -/
example : ∃ rnd : ℝ → ℤ, ∀ y, |(rnd y : ℝ) - y| ≤ 1 / 2 :=
  ⟨round, fun y => by rw [abs_sub_comm]; exact abs_sub_round y⟩
example : (∀ x ∈ ([3, 2, 1, 9, 9] : List ℝ).take 3, 0 < x) ∧ 1 ≤ 3 ∧ 3 ≤ 5 ∧
    ([3, 2, 1, 9, 9] : List ℝ).length = 5 := by
  refine ⟨?_, by norm_num, by norm_num, rfl⟩
  intro x hx
  simp only [List.take_succ_cons, List.take_zero, List.mem_cons, List.not_mem_nil, or_false] at hx
  rcases hx with rfl | rfl | rfl <;> norm_num

#print axioms gsaDen1_neg
#print axioms gsaRawMass_nonneg
#print axioms gsaDen2_pos
#print axioms gsaMass_nonneg
#print axioms gsaMass_sum_eq
#print axioms gsaMass_sum_lt_one
#print axioms gsaMass_equal_fitness
#print axioms gsaMass_equal_fitness_dens
#print axioms gsaMass_length
#print axioms bhaRadius_spec
#print axioms bhaRadius_pos
#print axioms bhaRadius_zero_cost
#print axioms wcaFlow_share_mem
#print axioms wcaFlow_shares_sum
#print axioms wcaFlows_nonneg
#print axioms wcaFlows_inrange_pos
#print axioms wcaFlows_prefix_inrange
#print axioms wcaFlow_zero_cost_example
#print axioms wcaFlow_zero_cost_example'

end Opy
