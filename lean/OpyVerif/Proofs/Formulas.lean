import OpyVerif.Model.FExpected
/-!
For all inputs and every scalar domain (`Float` for execution, `ℝ` for the property theorems): the
expected expressions of `Model/FExpected` denote the hand-written models.  Together with the
regenerated equalities of `Generated/Formulas.lean` (source = expected) this makes the ℝ theorems of
C13 C15 C16 C17 C18 statements about what the current source says (`Proofs/FormulasCode.lean`).
Core Lean only (no Mathlib).
-/
namespace Opy
open Elem

section lists
variable {β : Type}
theorem zip_dropLast_tail (l : List β) : List.zip l.dropLast l.tail = List.zip l l.tail := by
  induction l with
  | nil => rfl
  | cons a t ih =>
    cases t with
    | nil => rfl
    | cons b u =>
      simp only [List.dropLast_cons_cons, List.tail_cons, List.zip_cons_cons] at ih ⊢
      cases u with
      | nil => simp
      | cons c w => simp_all

theorem zipWith_dropLast_tail (f : β → β → β) (l : List β) :
    List.zipWith f l.dropLast l.tail = (List.zip l l.tail).map fun p => f p.1 p.2 := by
  rw [← zip_dropLast_tail]; simp [List.zip, List.map_zipWith]
theorem zipWith_tail_dropLast (f : β → β → β) (l : List β) :
    List.zipWith f l.tail l.dropLast = (List.zip l l.tail).map fun p => f p.2 p.1 := by
  rw [List.zipWith_comm, zipWith_dropLast_tail]
end lists

variable {α : Type} [Elem α]

attribute [local simp] FExpr.denote FVal.lift2 FVal.map1 FVal.red FVal.sl Fn1.app ipowL
  List.map_map List.zipWith_map_left List.zipWith_map_right List.zipWith_self Function.comp_def
  List.lookup zipWith_dropLast_tail zipWith_tail_dropLast Expected.bench pw2 pw3 pw4 pw5 pw6

/-- the meaning of a named benchmark expression -/
def benchDenote (name : String) (env : String → α) (xs : List α) : Option (FVal α) :=
  (Expected.bench.lookup name).map (·.denote env xs)

theorem d_ackley1 (env : String → α) (xs : List α) : benchDenote "ackley1" env xs = some (.s (ackley1 xs)) := by
  simp [benchDenote, ackley1]
theorem d_alpine1 (env : String → α) (xs : List α) : benchDenote "alpine1" env xs = some (.s (alpine1 xs)) := by
  simp [benchDenote, alpine1]
theorem d_alpine2 (env : String → α) (xs : List α) : benchDenote "alpine2" env xs = some (.s (alpine2 xs)) := by
  simp [benchDenote, alpine2]
theorem d_brown (env : String → α) (xs : List α) : benchDenote "brown" env xs = some (.s (brown xs)) := by
  simp [benchDenote, brown, -List.map_dropLast, -List.map_tail]
theorem d_chung_reynolds (env : String → α) (xs : List α) : benchDenote "chung_reynolds" env xs = some (.s (chung_reynolds xs)) := by
  simp [benchDenote, chung_reynolds, sphere]
theorem d_cosine_mixture (env : String → α) (xs : List α) : benchDenote "cosine_mixture" env xs = some (.s (cosine_mixture xs)) := by
  simp [benchDenote, cosine_mixture]
theorem d_csendes (env : String → α) (xs : List α) : benchDenote "csendes" env xs = some (.s (csendes xs)) := by
  simp [benchDenote, csendes]
theorem d_deb1 (env : String → α) (xs : List α) : benchDenote "deb1" env xs = some (.s (deb1 xs)) := by
  simp [benchDenote, deb1]
theorem d_deb2 (env : String → α) (xs : List α) : benchDenote "deb2" env xs = some (.s (deb2 xs)) := by
  simp [benchDenote, deb2]
theorem d_exponential (env : String → α) (xs : List α) : benchDenote "exponential" env xs = some (.s (exponential xs)) := by
  simp [benchDenote, exponential, sphere]
theorem d_quintic (env : String → α) (xs : List α) : benchDenote "quintic" env xs = some (.s (quintic xs)) := by
  simp [benchDenote, quintic]
theorem d_rastringin (env : String → α) (xs : List α) : benchDenote "rastringin" env xs = some (.s (rastringin xs)) := by
  simp [benchDenote, rastringin]
theorem d_salomon (env : String → α) (xs : List α) : benchDenote "salomon" env xs = some (.s (salomon xs)) := by
  simp [benchDenote, salomon, sphere]
theorem d_schumer_steiglitz (env : String → α) (xs : List α) : benchDenote "schumer_steiglitz" env xs = some (.s (schumer_steiglitz xs)) := by
  simp [benchDenote, schumer_steiglitz]
theorem d_schwefel (env : String → α) (xs : List α) : benchDenote "schwefel" env xs = some (.s (schwefel xs)) := by
  simp [benchDenote, schwefel]
theorem d_sphere (env : String → α) (xs : List α) : benchDenote "sphere" env xs = some (.s (sphere xs)) := by
  simp [benchDenote, sphere]
theorem d_styblinski_tang (env : String → α) (xs : List α) : benchDenote "styblinski_tang" env xs = some (.s (styblinski_tang xs)) := by
  simp [benchDenote, styblinski_tang]

/-! ### span, schedules, Lévy step, weighted sum -/

theorem d_span (env : String → α) (row : List α) :
    Expected.span.denote env row = .s (spanRow (env "lb") (env "ub") row) := by
  simp [Expected.span, spanRow]

theorem d_norm (env : String → α) (row : List α) : Expected.norm.denote env row = .s (norm row) := by
  simp [Expected.norm]

def schedDenote (name : String) (env : String → α) : Option (FVal α) :=
  (Expected.schedules.lookup name).map (·.denote env [])

theorem d_aiwpso_w (env : String → α) (p n : Nat) (hp : env "p" = ofNat' p) (hn : env "len(agents)" = ofNat' n) :
    schedDenote "aiwpso_w" env = some (.s (aiwpsoW (env "self.w_min") (env "self.w_max") p n)) := by
  simp [schedDenote, Expected.schedules, aiwpsoW, hp, hn]

theorem d_ihs_PAR (env : String → α) (N t : Nat) (hN : env "space.n_iterations" = ofNat' N) (ht : env "t" = ofNat' t) :
    schedDenote "ihs_PAR" env = some (.s (ihsPAR (env "self.PAR_min") (env "self.PAR_max") N t)) := by
  simp [schedDenote, Expected.schedules, ihsPAR, hN, ht]

theorem d_ihs_bw (env : String → α) (N t : Nat) (hN : env "space.n_iterations" = ofNat' N) (ht : env "t" = ofNat' t) :
    schedDenote "ihs_bw" env = some (.s (ihsBw (env "self.bw_min") (env "self.bw_max") N t)) := by
  simp [schedDenote, Expected.schedules, ihsBw, hN, ht]

theorem d_sa_T (env : String → α) :
    schedDenote "sa_T" env = some (.s (saT (env "self.T") (env "self.beta"))) := by
  simp [schedDenote, Expected.schedules, saT]

theorem d_fa_alpha (env : String → α) (N : Nat) (hN : env "n_iterations" = ofNat' N) :
    schedDenote "fa_alpha" env = some (.s (faAlpha (env "self.alpha") N)) := by
  simp [schedDenote, Expected.schedules, faAlpha, faDelta, hN]

theorem d_wca_dmax (env : String → α) (N : Nat) (hN : env "space.n_iterations" = ofNat' N) :
    schedDenote "wca_dmax" env = some (.s (wcaDmax (env "self.d_max") N)) := by
  simp [schedDenote, Expected.schedules, wcaDmax, hN]

theorem d_levy (env : String → α) :
    Expected.levy.denote env [] = .s (levyStep (env "beta") (env "g1") (env "g2")) := by
  simp [Expected.levy, levyStep, levySigma]

/-- one round of the weighted-sum loop: `z += w * f(x)` -/
theorem d_weightedBody (env : String → α) :
    Expected.weightedBody.denote env [] = .s (env "z" + env "w" * env "fx") := by
  simp [Expected.weightedBody]

/-- the environment of one loop round -/
def wEnv (z w fx : α) : String → α := fun n => if n = "z" then z else if n = "w" then w else fx

/-- one loop round with body `b`: the new accumulator -/
def bodyStep (b : FExpr) (z w fx : α) : α :=
  match b.denote (wEnv z w fx) [] with
  | .s r => r
  | _ => z

/-- folding the translated loop body over `zip(weights, component values)` from `z = 0` is
    `Model/Num.weighted` -/
theorem weighted_is_body_fold (ws vals : List α) :
    (List.zip ws vals).foldl (fun z p => bodyStep Expected.weightedBody z p.1 p.2) (ofNat' 0)
      = weighted ws vals := by
  simp [weighted, bodyStep, Expected.weightedBody, wEnv]

end Opy
