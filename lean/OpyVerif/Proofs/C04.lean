import OpyVerif.Model.History
/-!
C04 / C19 (structural part) — `History.dump` appends exactly one record per kept key and never
touches earlier records; `store_best_only` keeps only the best-agent series among the
HISTORY_KEYS; `load` after `save` reproduces the saved attribute dictionary.
-/
set_option linter.unusedVariables false
namespace Opy

def lookupA (attrs : List (String × List Rec)) (k : String) : Option (List Rec) :=
  (attrs.find? (fun kv => decide (kv.1 = k))).map (·.2)

theorem lookup_appendAttr_same (attrs : List (String × List Rec)) (k : String) (v : Rec) :
    lookupA (appendAttr attrs k v) k = some ((lookupA attrs k).getD [] ++ [v]) := by
  induction attrs with
  | nil => simp [appendAttr, lookupA]
  | cons kv rest ih =>
    obtain ⟨k', l⟩ := kv
    simp only [appendAttr]
    by_cases h : k' = k
    · simp [h, lookupA]
    · simp only [h, if_false]
      simp only [lookupA, List.find?_cons, h, decide_false] at ih ⊢
      exact ih

theorem lookup_appendAttr_other (attrs : List (String × List Rec)) (k k2 : String) (v : Rec)
    (hne : k ≠ k2) : lookupA (appendAttr attrs k v) k2 = lookupA attrs k2 := by
  induction attrs with
  | nil => simp [appendAttr, lookupA, hne]
  | cons kv rest ih =>
    obtain ⟨k', l⟩ := kv
    simp only [appendAttr]
    by_cases h : k' = k
    · subst h
      simp [lookupA, List.find?_cons, hne]
    · simp only [h, if_false]
      simp only [lookupA, List.find?_cons] at ih ⊢
      by_cases h2 : k' = k2
      · simp [h2]
      · simp only [h2, decide_false]; exact ih

/-- **append-only, one key**: a kept `(k, v)` appends exactly `v` to series `k` … -/
theorem dump1_appends (hk : List String) (h : Hist) (k : String) (v : Rec)
    (hkeep : (hk.contains k && k != "best_agent" && h.storeBestOnly) = false) :
    lookupA (dump1 hk h (k, v)).attrs k = some ((lookupA h.attrs k).getD [] ++ [v]) := by
  simp only [dump1, hkeep]
  exact lookup_appendAttr_same h.attrs k v

/-- … and leaves every other series exactly as it was -/
theorem dump1_frame (hk : List String) (h : Hist) (k k2 : String) (v : Rec) (hne : k ≠ k2) :
    lookupA (dump1 hk h (k, v)).attrs k2 = lookupA h.attrs k2 := by
  simp only [dump1]
  split
  · rfl
  · exact lookup_appendAttr_other h.attrs k k2 v hne

/-- with `store_best_only`, per-agent HISTORY_KEYS are dropped: nothing changes at all -/
theorem dump1_store_best_only (hk : List String) (h : Hist) (k : String) (v : Rec)
    (hs : h.storeBestOnly = true) (hin : hk.contains k = true) (hb : k ≠ "best_agent") :
    dump1 hk h (k, v) = h := by
  have : (k != "best_agent") = true := by simpa using hb
  have hin' : k ∈ hk := by simpa using hin
  simp [dump1, hs, hin', this]

theorem dump1_sbo (hk : List String) (h : Hist) (kv : String × Rec) :
    (dump1 hk h kv).storeBestOnly = h.storeBestOnly := by
  simp only [dump1]; split <;> rfl

/-- **prefix stability**: whatever is dumped later, every earlier record of every series
    stays where it was (series only ever grow at the end) -/
theorem dump1_prefix (hk : List String) (h : Hist) (kv : String × Rec) (k2 : String) :
    ∃ tail, (lookupA (dump1 hk h kv).attrs k2).getD [] = (lookupA h.attrs k2).getD [] ++ tail := by
  obtain ⟨k, v⟩ := kv
  by_cases hkk : k = k2
  · subst hkk
    simp only [dump1]
    split
    · exact ⟨[], by simp⟩
    · exact ⟨[v], by rw [lookup_appendAttr_same]; simp⟩
  · exact ⟨[], by rw [dump1_frame hk h k k2 v hkk]; simp⟩

theorem dump_prefix (hk : List String) (kvs : List (String × Rec)) : ∀ (h : Hist) (k2 : String),
    ∃ tail, (lookupA (dump hk h kvs).attrs k2).getD [] = (lookupA h.attrs k2).getD [] ++ tail := by
  induction kvs with
  | nil => intro h k2; exact ⟨[], by simp [dump]⟩
  | cons kv rest ih =>
    intro h k2
    obtain ⟨t1, h1⟩ := dump1_prefix hk h kv k2
    obtain ⟨t2, h2⟩ := ih (dump1 hk h kv) k2
    refine ⟨t1 ++ t2, ?_⟩
    simp only [dump, List.foldl_cons] at h2 ⊢
    rw [h2, h1, List.append_assoc]

/-- one `dump(agents=…, best_agent=…)` call with distinct keys lengthens each kept series
    by exactly one -/
theorem dump_two_lengths (hk : List String) (h : Hist) (k1 k2 : String) (v1 v2 : Rec)
    (hne : k1 ≠ k2)
    (hkeep1 : (hk.contains k1 && k1 != "best_agent" && h.storeBestOnly) = false)
    (hkeep2 : (hk.contains k2 && k2 != "best_agent" && h.storeBestOnly) = false) :
    ((lookupA (dump hk h [(k1, v1), (k2, v2)]).attrs k1).getD []).length
        = ((lookupA h.attrs k1).getD []).length + 1 ∧
    ((lookupA (dump hk h [(k1, v1), (k2, v2)]).attrs k2).getD []).length
        = ((lookupA h.attrs k2).getD []).length + 1 := by
  simp only [dump, List.foldl_cons, List.foldl_nil]
  have hs : (dump1 hk h (k1, v1)).storeBestOnly = h.storeBestOnly := dump1_sbo hk h _
  constructor
  · rw [dump1_frame hk _ k2 k1 v2 (Ne.symm hne), dump1_appends hk h k1 v1 hkeep1]; simp
  · rw [dump1_appends hk _ k2 v2 (by rw [hs]; exact hkeep2), dump1_frame hk h k1 k2 v1 hne]; simp

/-! ### save / load -/

theorem lookup_loadInto_saved (target saved : List (String × List Rec)) (k : String)
    (h : (saved.any (fun s => decide (s.1 = k))) = true) : lookupA (loadInto target saved) k = lookupA saved k := by
  simp only [lookupA, loadInto, List.find?_append]
  have : (saved.find? (fun kv => decide (kv.1 = k))).isSome = true := by
    simpa [List.find?_isSome, List.any_eq_true] using h
  cases hf : saved.find? (fun kv => decide (kv.1 = k)) with
  | none => simp [hf] at this
  | some x => simp

/-- **load ∘ save**: if every attribute of the target also exists in the saved object (true
    of a fresh `History`, whose only attribute is `store_best_only`), the loaded object has
    exactly the saved attributes with the saved values -/
theorem load_after_save (target saved : List (String × List Rec))
    (h : ∀ kv ∈ target, (saved.any (fun s => decide (s.1 = kv.1))) = true) : loadInto target saved = saved := by
  simp only [loadInto]
  have : target.filter (fun kv => !(saved.any (fun s => decide (s.1 = kv.1)))) = [] := by
    rw [List.filter_eq_nil_iff]
    intro kv hkv
    simp [h kv hkv]
  rw [this, List.append_nil]

/-- the premise matters: an attribute only the target has survives the load (informational) -/
example : (loadInto [("extra", [.num 1])] [("agents", [])]).map (·.1) = ["agents", "extra"] := by
  decide

end Opy
