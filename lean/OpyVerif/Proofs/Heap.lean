import OpyVerif.Model.Heap
import OpyVerif.Proofs.Lemmas.TreeOpsLemmas
/-!
Heap-level semantics of the tree operators: the field writes of `GP._mutate` / `GP._cross` on the objects of the
(copied) parents leave exactly the trees `PNode.mutate` / `PNode.cross` describe.  Core Lean only.
-/
namespace Opy
open PNode

/-- every node of `t` is an object of `h` whose fields are what the tree says -/
def Rep (h : Heap) : PNode → Prop
  | nil => True
  | mk i lb p f l r => h i = some ⟨lb, p, f, l.id?, r.id?⟩ ∧ Rep h l ∧ Rep h r

theorem rep_congr {h h' : Heap} : ∀ (t : PNode), (∀ j ∈ t.ids, h' j = h j) → Rep h t → Rep h' t := by
  intro t
  induction t with
  | nil => intro _ _; trivial
  | mk i lb p f l r ihl ihr =>
    intro hag hr
    obtain ⟨h1, h2, h3⟩ := hr
    refine ⟨?_, ihl (fun j hj => hag j (by simp [ids, hj])) h2, ihr (fun j hj => hag j (by simp [ids, hj])) h3⟩
    rw [hag i (by simp [ids])]; exact h1

theorem rep_toTree {h : Heap} : ∀ (t : PNode) (fuel : Nat), Rep h t → t.size ≤ fuel → toTree h fuel t.id? = t := by
  intro t
  induction t with
  | nil => intro fuel _ _; cases fuel <;> simp [toTree, id?]
  | mk i lb p f l r ihl ihr =>
    intro fuel hr hs
    obtain ⟨h1, h2, h3⟩ := hr
    cases fuel with
    | zero => simp [size] at hs
    | succ k =>
      simp only [size] at hs
      show toTree h (k + 1) (some i) = _
      simp only [toTree, h1]
      rw [ihl k h2 (by omega), ihr k h3 (by omega)]

theorem heapOf_none_of_not_mem : ∀ (t : PNode) (j : Nat), j ∉ t.ids → heapOf t j = none := by
  intro t
  induction t with
  | nil => intro j _; rfl
  | mk i lb p f l r ihl ihr =>
    intro j hj
    simp only [ids, List.mem_cons, List.mem_append, not_or] at hj
    simp [heapOf, hj.1, ihl j hj.2.1, ihr j hj.2.2]

theorem heapOf_isSome_of_mem : ∀ (t : PNode) (j : Nat), j ∈ t.ids → (heapOf t j).isSome := by
  intro t
  induction t with
  | nil => intro j hj; simp [ids] at hj
  | mk i lb p f l r ihl ihr =>
    intro j hj
    simp only [ids, List.mem_cons, List.mem_append] at hj
    by_cases e : j = i
    · simp [heapOf, e]
    · simp only [heapOf, e, if_false]
      rcases hj with hj | hj | hj
      · exact absurd hj e
      · have := ihl j hj
        cases hl : heapOf l j with
        | none => simp [hl] at this
        | some c => simp
      · have := ihr j hj
        cases hl : heapOf l j with
        | none => simpa [Option.or] using this
        | some c => simp

theorem rep_heapOf : ∀ (t : PNode), t.ids.Nodup → Rep (heapOf t) t := by
  intro t
  induction t with
  | nil => intro _; trivial
  | mk i lb p f l r ihl ihr =>
    intro hn
    obtain ⟨h1, h2, hl, hr, hd⟩ := nodup_mk hn
    refine ⟨by simp [heapOf], ?_, ?_⟩
    · refine rep_congr l (fun j hj => ?_) (ihl hl)
      have hji : j ≠ i := fun e => h1 (e ▸ hj)
      have := heapOf_isSome_of_mem l j hj
      cases hc : heapOf l j with
      | none => simp [hc] at this
      | some c => simp [heapOf, hji, hc]
    · refine rep_congr r (fun j hj => ?_) (ihr hr)
      have hji : j ≠ i := fun e => h2 (e ▸ hj)
      have hjl : j ∉ l.ids := fun hx => hd j hx hj
      simp [heapOf, hji, heapOf_none_of_not_mem l j hjl]

theorem id?_relink (pid side) (b : PNode) : (relink pid side b).id? = b.id? := by cases b <;> rfl

theorem id?_setChild (pid side b) (t : PNode) : (setChild pid side b t).id? = t.id? := by
  cases t with
  | nil => rfl
  | mk i lb p f l r =>
    simp only [setChild]
    split
    · cases side <;> rfl
    · rfl

/-- the graft lemma: if `h'` is `h` with the `side` pointer of object `pid` redirected to `b` (and possibly other
    changes confined to `pid`'s old `side` child and to objects outside `s`), and `h'` holds `b` re-linked, then `h'`
    holds `setChild pid side b s` -/
theorem graft (h h' : Heap) (pid : Nat) (side : Bool) (b : PNode)
    (hpid : ∀ c, h pid = some c → h' pid = some (if side then { c with left := b.id? } else { c with right := b.id? }))
    (hb : Rep h' (relink pid side b)) :
    ∀ (s : PNode), s.ids.Nodup → Rep h s →
      (∀ j ∈ s.ids, j ≠ pid → j ∉ (childOf pid side s).ids → h' j = h j) →
      Rep h' (setChild pid side b s) := by
  intro s
  induction s with
  | nil => intro _ _ _; trivial
  | mk i lb p f l r ihl ihr =>
    intro hn hr hag
    obtain ⟨h1, h2, hl, hrn, hd⟩ := nodup_mk hn
    obtain ⟨hc, hrl, hrr⟩ := hr
    by_cases hi : i = pid
    · subst hi
      have hp := hpid _ hc
      cases side with
      | true =>
        simp only [setChild, if_true]
        refine ⟨by simpa [id?_relink] using hp, hb, ?_⟩
        refine rep_congr r (fun j hj => hag j (by simp [ids, hj]) (fun e => h2 (e ▸ hj)) ?_) hrr
        rw [childOf_mk]; simp only [if_true]
        exact fun hx => hd j hx hj
      | false =>
        simp only [setChild, if_true]
        refine ⟨by simpa [id?_relink] using hp, ?_, hb⟩
        refine rep_congr l (fun j hj => hag j (by simp [ids, hj]) (fun e => h1 (e ▸ hj)) ?_) hrl
        rw [childOf_mk]; simp only [if_true]
        exact fun hx => hd j hj hx
    · simp only [setChild, hi, if_false]
      have hsub : ∀ x, x ∈ (childOf pid side (mk i lb p f l r)).ids → x ∈ l.ids ∨ x ∈ r.ids := by
        intro x hx
        rw [childOf_mk] at hx
        simp only [hi, if_false] at hx
        by_cases hm : pid ∈ l.ids
        · simp only [hm, if_true] at hx; exact Or.inl (childOf_ids_subset hx)
        · simp only [hm, if_false] at hx; exact Or.inr (childOf_ids_subset hx)
      refine ⟨?_, ?_, ?_⟩
      · rw [hag i (by simp [ids]) hi (fun hx => by rcases hsub i hx with e | e; exact h1 e; exact h2 e)]
        simpa [id?_setChild] using hc
      · refine ihl hl hrl (fun j hj hjp hjc => hag j (by simp [ids, hj]) hjp ?_)
        rw [childOf_mk]; simp only [hi, if_false]
        by_cases hm : pid ∈ l.ids
        · simpa [hm] using hjc
        · simp only [hm, if_false]
          exact fun hx => hd j hj (childOf_ids_subset hx)
      · refine ihr hrn hrr (fun j hj hjp hjc => hag j (by simp [ids, hj]) hjp ?_)
        rw [childOf_mk]; simp only [hi, if_false]
        by_cases hm : pid ∈ l.ids
        · simp only [hm, if_true]
          exact fun hx => hd j (childOf_ids_subset hx) hj
        · simpa [hm] using hjc

end Opy

namespace Opy
open PNode

theorem union_left {a b : Heap} {j : Nat} {c : Cell} (h : a j = some c) : (a.union b) j = some c := by
  simp [Heap.union, h]

theorem union_right {a b : Heap} {j : Nat} (h : a j = none) : (a.union b) j = b j := by
  simp [Heap.union, h]

theorem rep_union_left {t u : PNode} (ht : t.ids.Nodup) : Rep ((heapOf t).union (heapOf u)) t := by
  refine rep_congr t (fun j hj => ?_) (rep_heapOf t ht)
  have := heapOf_isSome_of_mem t j hj
  cases hc : heapOf t j with
  | none => simp [hc] at this
  | some c => exact union_left hc

theorem rep_union_right {t u : PNode} (hu : u.ids.Nodup) (hd : ∀ x ∈ t.ids, x ∉ u.ids) :
    Rep ((heapOf t).union (heapOf u)) u := by
  refine rep_congr u (fun j hj => ?_) (rep_heapOf u hu)
  exact union_right (heapOf_none_of_not_mem t j (fun hx => hd j hx hj))

/-- the object of a node of a represented tree -/
theorem rep_cell {h : Heap} : ∀ (t : PNode), Rep h t → ∀ j ∈ t.ids, ∃ c, h j = some c ∧
    ∀ side, (if side then c.left else c.right) = (childOf j side t).id? ∨ ¬ t.ids.Nodup := by
  intro t
  induction t with
  | nil => intro _ j hj; simp [ids] at hj
  | mk i lb p f l r ihl ihr =>
    intro hr j hj
    obtain ⟨hc, hl, hrr⟩ := hr
    by_cases hn : (mk i lb p f l r).ids.Nodup
    · obtain ⟨h1, h2, hln, hrn, hd⟩ := nodup_mk hn
      simp only [ids, List.mem_cons, List.mem_append] at hj
      by_cases e : i = j
      · subst e
        refine ⟨_, hc, fun side => Or.inl ?_⟩
        rw [childOf_mk]; cases side <;> simp
      · have hj' : j ∈ l.ids ∨ j ∈ r.ids := by
          rcases hj with hj | hj | hj
          · exact absurd hj.symm e
          · exact Or.inl hj
          · exact Or.inr hj
        rcases hj' with hj' | hj'
        · obtain ⟨c, hcj, hs⟩ := ihl hl j hj'
          refine ⟨c, hcj, fun side => ?_⟩
          rcases hs side with hs | hs
          · left; rw [childOf_mk]; simp [e, hj', hs]
          · exact absurd hln hs
        · obtain ⟨c, hcj, hs⟩ := ihr hrr j hj'
          refine ⟨c, hcj, fun side => ?_⟩
          have hjl : j ∉ l.ids := fun hx => hd j hx hj'
          rcases hs side with hs | hs
          · left; rw [childOf_mk]; simp [e, hjl, hs]
          · exact absurd hrn hs
    · simp only [ids, List.mem_cons, List.mem_append] at hj
      have : ∃ c, h j = some c := by
        rcases hj with hj | hj | hj
        · exact ⟨_, hj ▸ hc⟩
        · obtain ⟨c, hcj, _⟩ := ihl hl j hj; exact ⟨c, hcj⟩
        · obtain ⟨c, hcj, _⟩ := ihr hrr j hj; exact ⟨c, hcj⟩
      obtain ⟨c, hcj⟩ := this
      exact ⟨c, hcj, fun _ => Or.inr hn⟩

theorem set_set_same (h : Heap) (i : Nat) (c c' : Cell) : (h.set i c).set i c' = h.set i c' := by
  funext j; by_cases e : j = i <;> simp [Heap.set, e]

/-- what the three writes of the `if sub_tree:` branch of `_mutate` do to the heap -/
theorem mutateBody_run (s : HState) (pid br : Nat) (side : Bool) (c cb : Cell)
    (he1 : s.env "sub_tree" = some pid) (he2 : s.env "branch" = some br) (hf : s.flags "flag" = side)
    (hc : s.heap pid = some c) (hcb : s.heap br = some cb) (hne : br ≠ pid) :
    (Expected.mutateBody.run s).map (·.heap) =
      some ((s.heap.set pid (if side then { c with left := some br } else { c with right := some br })).set br
                  { cb with flag := side, par := some pid }) := by
  cases side <;>
    simp [Expected.mutateBody, HStmt.run, HCond.eval, HState.target, HRef.eval, Heap.set, he1, he2, hf, hc, hcb, hne] <;>
    exact set_set_same _ _ _ _

end Opy

namespace Opy
open PNode

theorem map_heap_eq_some {r : Option HState} {H : Heap} (h : r.map (·.heap) = some H) :
    ∃ s1, r = some s1 ∧ s1.heap = H := by
  cases r with
  | none => simp at h
  | some s1 => exact ⟨s1, rfl, by simpa using h⟩

/-- `_mutate`, slot branch, on the heap: after the three writes the object graph hanging from the copy's root is
    `setChild pid side branch t` (what `PNode.mutate` returns for a slot) -/
theorem mutateBody_spec (t branch : PNode) (pid : Nat) (side : Bool)
    (ht : t.ids.Nodup) (hb : branch.ids.Nodup) (hd : ∀ x ∈ t.ids, x ∉ branch.ids)
    (hpid : pid ∈ t.ids) (hne : branch ≠ nil)
    (s : HState) (hs : s.heap = (heapOf t).union (heapOf branch))
    (he1 : s.env "sub_tree" = some pid) (he2 : s.env "branch" = branch.id?) (hf : s.flags "flag" = side) :
    ∃ s1, Expected.mutateBody.run s = some s1 ∧
      ∀ fuel, (setChild pid side branch t).size ≤ fuel → toTree s1.heap fuel t.id? = setChild pid side branch t := by
  cases branch with
  | nil => exact absurd rfl hne
  | mk br lb p f l r =>
    have hrt : Rep s.heap t := hs ▸ rep_union_left ht
    have hrb : Rep s.heap (mk br lb p f l r) := hs ▸ rep_union_right hb hd
    obtain ⟨c, hc, _⟩ := rep_cell t hrt pid hpid
    obtain ⟨hcb, hrl, hrr⟩ := hrb
    obtain ⟨b1, b2, bl, brn, bd⟩ := nodup_mk hb
    have hbr : br ∉ t.ids := fun hx => hd br hx (by simp [ids])
    have hne' : br ≠ pid := fun e => hbr (e ▸ hpid)
    obtain ⟨s1, hrun, hheap⟩ := map_heap_eq_some (mutateBody_run s pid br side c _ he1 (by simpa [id?] using he2) hf hc hcb hne')
    refine ⟨s1, hrun, fun fuel hfuel => ?_⟩
    have hrep : Rep s1.heap (setChild pid side (mk br lb p f l r) t) := by
      rw [hheap]
      refine graft s.heap _ pid side _ ?_ ?_ t ht hrt ?_
      · intro c' hc'
        rw [hc] at hc'; cases hc'
        cases side <;> simp [Heap.set, hne'.symm, id?]
      · refine ⟨by simp [Heap.set], ?_, ?_⟩
        · refine rep_congr l (fun j hj => ?_) hrl
          have h1 : j ≠ br := fun e => b1 (e ▸ hj)
          have h2 : j ≠ pid := fun e => hd pid hpid (by simp [ids, e ▸ hj])
          simp [Heap.set, h1, h2]
        · refine rep_congr r (fun j hj => ?_) hrr
          have h1 : j ≠ br := fun e => b2 (e ▸ hj)
          have h2 : j ≠ pid := fun e => hd pid hpid (by simp [ids, e ▸ hj])
          simp [Heap.set, h1, h2]
      · intro j hj hjp _
        have h1 : j ≠ br := fun e => hbr (e ▸ hj)
        simp [Heap.set, h1, hjp]
    have := rep_toTree _ fuel hrep hfuel
    rwa [id?_setChild] at this

end Opy

namespace Opy
open PNode

set_option linter.unusedSimpArgs false in
/-- what the writes of the `if sub_father and sub_mother:` branch of `_cross` do to the heap: four objects change -/
theorem crossBody_run (s : HState) (sf sm br mv : Nat) (ff fm : Bool) (csf csm cbr cmv : Cell)
    (he1 : s.env "sub_father" = some sf) (he2 : s.env "sub_mother" = some sm)
    (hf1 : s.flags "flag_father" = ff) (hf2 : s.flags "flag_mother" = fm)
    (h1 : s.heap sf = some csf) (h2 : s.heap sm = some csm) (h3 : s.heap br = some cbr) (h4 : s.heap mv = some cmv)
    (hcf : (if ff then csf.left else csf.right) = some br) (hcm : (if fm then csm.left else csm.right) = some mv)
    (d1 : sf ≠ sm) (d2 : sf ≠ br) (d3 : sf ≠ mv) (d4 : sm ≠ br) (d5 : sm ≠ mv) (d6 : br ≠ mv) :
    (Expected.crossBody.run s).map (·.heap) =
      some ((((s.heap.set sf (if ff then { csf with left := some mv } else { csf with right := some mv })).set mv
                { cmv with flag := ff, par := some sf }).set sm
                (if fm then { csm with left := some br } else { csm with right := some br })).set br
                { cbr with flag := fm, par := some sm }) := by
  have d1' := d1.symm; have d2' := d2.symm; have d3' := d3.symm; have d4' := d4.symm; have d5' := d5.symm; have d6' := d6.symm
  cases ff <;> cases fm <;>
    simp only [if_true, if_false, Bool.false_eq_true] at hcf hcm <;>
    simp [Expected.crossBody, HStmt.run, HCond.eval, HState.target, HRef.eval, Heap.set, he1, he2, hf1, hf2, h1, h2, h3, h4,
          hcf, hcm, d1, d2, d3, d4, d5, d6, d1', d2', d3', d4', d5', d6'] <;>
    simp only [set_set_same]

end Opy

namespace Opy
open PNode

theorem rep_of_mem_pre {h : Heap} : ∀ (t : PNode) (n : PNode), n ∈ t.pre → Rep h t → Rep h n := by
  intro t
  induction t with
  | nil => intro n hn; simp [pre] at hn
  | mk i lb p f l r ihl ihr =>
    intro n hn hr
    rcases mem_pre_mk.1 hn with e | e | e
    · rw [e]; exact hr
    · exact ihl n e hr.2.1
    · exact ihr n e hr.2.2

theorem rep_childOf {h : Heap} {t : PNode} (pid : Nat) (side : Bool) (hr : Rep h t) : Rep h (childOf pid side t) := by
  rcases childOf_nil_or_mem pid side t with e | e
  · rw [e]; trivial
  · exact rep_of_mem_pre t _ e hr

/-- `_cross`, both slots present, on the heap of the two copies: afterwards the object graph hanging from the father
    copy's root is `setChild sf ff (childOf sm fm m) f` and the one hanging from the mother copy's root is
    `setChild sm fm (childOf sf ff f) m` — the pair `PNode.cross` returns -/
theorem crossBody_spec (f m : PNode) (sf sm : Nat) (ff fm : Bool)
    (hf : f.ids.Nodup) (hm : m.ids.Nodup) (hd : ∀ x ∈ f.ids, x ∉ m.ids)
    (hsf : sf ∈ f.ids) (hsm : sm ∈ m.ids)
    (hbr : childOf sf ff f ≠ nil) (hmv : childOf sm fm m ≠ nil)
    (s : HState) (hs : s.heap = (heapOf f).union (heapOf m))
    (he1 : s.env "sub_father" = some sf) (he2 : s.env "sub_mother" = some sm)
    (hf1 : s.flags "flag_father" = ff) (hf2 : s.flags "flag_mother" = fm) :
    ∃ s1, Expected.crossBody.run s = some s1 ∧
      (∀ fuel, (setChild sf ff (childOf sm fm m) f).size ≤ fuel →
        toTree s1.heap fuel f.id? = setChild sf ff (childOf sm fm m) f) ∧
      (∀ fuel, (setChild sm fm (childOf sf ff f) m).size ≤ fuel →
        toTree s1.heap fuel m.id? = setChild sm fm (childOf sf ff f) m) := by
  have hrf : Rep s.heap f := hs ▸ rep_union_left hf
  have hrm : Rep s.heap m := hs ▸ rep_union_right hm hd
  obtain ⟨csf, h1, hcf⟩ := rep_cell f hrf sf hsf
  obtain ⟨csm, h2, hcm⟩ := rep_cell m hrm sm hsm
  have hcf' := (hcf ff).resolve_right (fun h => h hf)
  have hcm' := (hcm fm).resolve_right (fun h => h hm)
  have hrB : Rep s.heap (childOf sf ff f) := rep_childOf sf ff hrf
  have hrM : Rep s.heap (childOf sm fm m) := rep_childOf sm fm hrm
  have hnB : (childOf sf ff f).ids.Nodup := childOf_nodup hf
  have hnM : (childOf sm fm m).ids.Nodup := childOf_nodup hm
  have hsfB : sf ∉ (childOf sf ff f).ids := pid_not_mem_childOf hf
  have hsmM : sm ∉ (childOf sm fm m).ids := pid_not_mem_childOf hm
  have hBsub : ∀ x ∈ (childOf sf ff f).ids, x ∈ f.ids := fun x hx => childOf_ids_subset hx
  have hMsub : ∀ x ∈ (childOf sm fm m).ids, x ∈ m.ids := fun x hx => childOf_ids_subset hx
  generalize hB : childOf sf ff f = B at *
  generalize hM : childOf sm fm m = M at *
  cases B with
  | nil => exact absurd rfl hbr
  | mk br lbB pB fB lB rB =>
  cases M with
  | nil => exact absurd rfl hmv
  | mk mv lbM pM fM lM rM =>
    obtain ⟨h3, hrBl, hrBr⟩ := hrB
    obtain ⟨h4, hrMl, hrMr⟩ := hrM
    obtain ⟨b1, b2, _, _, _⟩ := nodup_mk hnB
    obtain ⟨m1, m2, _, _, _⟩ := nodup_mk hnM
    have hbrf : br ∈ f.ids := hBsub br (by simp [ids])
    have hmvm : mv ∈ m.ids := hMsub mv (by simp [ids])
    have d1 : sf ≠ sm := fun e => hd sf hsf (e ▸ hsm)
    have d2 : sf ≠ br := fun e => hsfB (by simp [ids, e])
    have d3 : sf ≠ mv := fun e => hd sf hsf (e ▸ hmvm)
    have d4 : sm ≠ br := fun e => hd br hbrf (e ▸ hsm)
    have d5 : sm ≠ mv := fun e => hsmM (by simp [ids, e])
    have d6 : br ≠ mv := fun e => hd br hbrf (e ▸ hmvm)
    obtain ⟨s1, hrun, hheap⟩ := map_heap_eq_some
      (crossBody_run s sf sm br mv ff fm csf csm _ _ he1 he2 hf1 hf2 h1 h2 h3 h4
        (by simpa [id?] using hcf') (by simpa [id?] using hcm') d1 d2 d3 d4 d5 d6)
    refine ⟨s1, hrun, ?_, ?_⟩
    · intro fuel hfuel
      have hrep : Rep s1.heap (setChild sf ff (mk mv lbM pM fM lM rM) f) := by
        rw [hheap]
        refine graft s.heap _ sf ff _ ?_ ?_ f hf hrf ?_
        · intro c' hc'
          rw [h1] at hc'; cases hc'
          cases ff <;> simp [Heap.set, d1, d2, d3, id?]
        · refine ⟨by simp [Heap.set, d5.symm, d6.symm], ?_, ?_⟩
          · refine rep_congr lM (fun j hj => ?_) hrMl
            have hjm : j ∈ m.ids := hMsub j (by simp [ids, hj])
            have e1 : j ≠ sf := fun e => hd sf hsf (e ▸ hjm)
            have e2 : j ≠ mv := fun e => m1 (e ▸ hj)
            have e3 : j ≠ sm := fun e => hsmM (by simp [ids, e ▸ hj])
            have e4 : j ≠ br := fun e => hd br hbrf (e ▸ hjm)
            simp [Heap.set, e1, e2, e3, e4]
          · refine rep_congr rM (fun j hj => ?_) hrMr
            have hjm : j ∈ m.ids := hMsub j (by simp [ids, hj])
            have e1 : j ≠ sf := fun e => hd sf hsf (e ▸ hjm)
            have e2 : j ≠ mv := fun e => m2 (e ▸ hj)
            have e3 : j ≠ sm := fun e => hsmM (by simp [ids, e ▸ hj])
            have e4 : j ≠ br := fun e => hd br hbrf (e ▸ hjm)
            simp [Heap.set, e1, e2, e3, e4]
        · intro j hj hjp hjc
          rw [hB] at hjc
          have e2 : j ≠ mv := fun e => hd j hj (e ▸ hmvm)
          have e3 : j ≠ sm := fun e => hd j hj (e ▸ hsm)
          have e4 : j ≠ br := fun e => hjc (by simp [ids, e])
          simp [Heap.set, hjp, e2, e3, e4]
      have := rep_toTree _ fuel hrep hfuel
      rwa [id?_setChild] at this
    · intro fuel hfuel
      have hrep : Rep s1.heap (setChild sm fm (mk br lbB pB fB lB rB) m) := by
        rw [hheap]
        refine graft s.heap _ sm fm _ ?_ ?_ m hm hrm ?_
        · intro c' hc'
          rw [h2] at hc'; cases hc'
          cases fm <;> simp [Heap.set, d4, id?]
        · refine ⟨by simp [Heap.set], ?_, ?_⟩
          · refine rep_congr lB (fun j hj => ?_) hrBl
            have hjf : j ∈ f.ids := hBsub j (by simp [ids, hj])
            have e1 : j ≠ sf := fun e => hsfB (by simp [ids, e ▸ hj])
            have e2 : j ≠ mv := fun e => hd j hjf (e ▸ hmvm)
            have e3 : j ≠ sm := fun e => hd j hjf (e ▸ hsm)
            have e4 : j ≠ br := fun e => b1 (e ▸ hj)
            simp [Heap.set, e1, e2, e3, e4]
          · refine rep_congr rB (fun j hj => ?_) hrBr
            have hjf : j ∈ f.ids := hBsub j (by simp [ids, hj])
            have e1 : j ≠ sf := fun e => hsfB (by simp [ids, e ▸ hj])
            have e2 : j ≠ mv := fun e => hd j hjf (e ▸ hmvm)
            have e3 : j ≠ sm := fun e => hd j hjf (e ▸ hsm)
            have e4 : j ≠ br := fun e => b2 (e ▸ hj)
            simp [Heap.set, e1, e2, e3, e4]
        · intro j hj hjp hjc
          rw [hM] at hjc
          have e1 : j ≠ sf := fun e => hd sf hsf (e ▸ hj)
          have e2 : j ≠ mv := fun e => hjc (by simp [ids, e])
          have e4 : j ≠ br := fun e => hd br hbrf (e ▸ hj)
          simp [Heap.set, hjp, e1, e2, e4]
      have := rep_toTree _ fuel hrep hfuel
      rwa [id?_setChild] at this

end Opy

namespace Opy
open PNode

theorem slot_child_ne_nil {ar : Nat → Nat} {t : PNode} {p pid : Nat} {side : Bool}
    (hwf : WF ar t) (h : findNode t p = .slot pid side) : childOf pid side t ≠ nil := by
  obtain ⟨_, node, hp, hc⟩ := findNode_slot_spec hwf h
  rcases hc with ⟨_, e⟩ | ⟨_, q, _, hl⟩
  · rw [e]; exact ne_nil_of_mem_pre (List.mem_of_getElem? hp)
  · exact ne_nil_of_mem_pre (lookup_some hl).1

/-- `GP._cross` on proper trees with both slots found: running the field writes on the objects of the two copies
    yields exactly the pair of trees `PNode.cross` returns (the function the C09 theorems `cross_spec`, `cross_multiset`,
    `cross_frame` are about) -/
theorem cross_on_heap {ar : Nat → Nat} (f m : PNode) (pf pm : Nat) (hwf : WF ar f) (hwm : WF ar m)
    (hd : ∀ x ∈ f.ids, x ∉ m.ids) (sf sm : Nat) (ff fm : Bool)
    (hfn : findNode f pf = .slot sf ff) (hmn : findNode m pm = .slot sm fm)
    (s : HState) (hs : s.heap = (heapOf f).union (heapOf m))
    (he1 : s.env "sub_father" = some sf) (he2 : s.env "sub_mother" = some sm)
    (hf1 : s.flags "flag_father" = ff) (hf2 : s.flags "flag_mother" = fm) :
    ∃ s1 f' m', Expected.crossBody.run s = some s1 ∧ cross f m pf pm = some (f', m') ∧
      (∀ fuel, f'.size ≤ fuel → toTree s1.heap fuel f.id? = f') ∧
      (∀ fuel, m'.size ≤ fuel → toTree s1.heap fuel m.id? = m') := by
  obtain ⟨s1, hrun, h1, h2⟩ := crossBody_spec f m sf sm ff fm hwf.2.2.2.2 hwm.2.2.2.2 hd
    (findNode_slot_mem hwf hfn) (findNode_slot_mem hwm hmn) (slot_child_ne_nil hwf hfn) (slot_child_ne_nil hwm hmn)
    s hs he1 he2 hf1 hf2
  exact ⟨s1, _, _, hrun, by simp [cross, hfn, hmn], h1, h2⟩

/-- `GP._mutate` on a proper tree with a slot found and a freshly grown branch -/
theorem mutate_on_heap {ar : Nat → Nat} (t branch : PNode) (point : Nat) (hwf : WF ar t)
    (hb : branch.ids.Nodup) (hd : ∀ x ∈ t.ids, x ∉ branch.ids) (hne : branch ≠ nil)
    (pid : Nat) (side : Bool) (hfn : findNode t point = .slot pid side)
    (s : HState) (hs : s.heap = (heapOf t).union (heapOf branch))
    (he1 : s.env "sub_tree" = some pid) (he2 : s.env "branch" = branch.id?) (hf : s.flags "flag" = side) :
    ∃ s1 t', Expected.mutateBody.run s = some s1 ∧ mutate t point branch = some t' ∧
      ∀ fuel, t'.size ≤ fuel → toTree s1.heap fuel t.id? = t' := by
  obtain ⟨s1, hrun, h1⟩ := mutateBody_spec t branch pid side hwf.2.2.2.2 hb hd (findNode_slot_mem hwf hfn) hne s hs he1 he2 hf
  exact ⟨s1, _, hrun, by simp [mutate, hfn], h1⟩

end Opy

/-! ### non-vacuity: a concrete pair of parents, both slots present, run on the heap -/
namespace Opy
open PNode

def hF : PNode :=
  mk 10 ⟨false, 0, 0⟩ none true
    (mk 11 ⟨false, 1, 0⟩ (some 10) true (mk 12 ⟨true, 0, 7⟩ (some 11) true nil nil) nil)
    (mk 13 ⟨true, 1, 8⟩ (some 10) false nil nil)

def hM : PNode :=
  mk 20 ⟨false, 0, 0⟩ none true
    (mk 21 ⟨true, 0, 7⟩ (some 20) true nil nil)
    (mk 22 ⟨false, 1, 0⟩ (some 20) false (mk 23 ⟨true, 1, 8⟩ (some 22) true nil nil) nil)

def hS : HState :=
  { heap := (heapOf hF).union (heapOf hM),
    env := fun n => if n = "sub_father" then some 11 else if n = "sub_mother" then some 20 else none,
    flags := fun n => n == "flag_father" }

-- position 2 of the father is the terminal 12 (left slot of 11); position 2 of the mother is the function node 22, whose
-- parent's slot does not exist (the parent is the root): choose position 3 (terminal 23 under 22)... the slots used
-- here are (11, left) and (20, right)
example : findNode hF 2 = .slot 11 true := by decide
example : findNode hM 1 = .slot 20 true := by decide
example : (∀ x ∈ hF.ids, x ∉ hM.ids) := by decide

example : ((Expected.crossBody.run hS).map (fun s1 => (toTree s1.heap 10 hF.id?, toTree s1.heap 10 hM.id?))) =
    some (setChild 11 true (childOf 20 false hM) hF, setChild 20 false (childOf 11 true hF) hM) := by decide

end Opy

namespace Opy
open PNode

theorem size_relink (pid side) (b : PNode) : (relink pid side b).size = b.size := by cases b <;> rfl

theorem size_setChild_le (pid : Nat) (side : Bool) (b : PNode) :
    ∀ t : PNode, t.ids.Nodup → (setChild pid side b t).size ≤ t.size + b.size := by
  intro t
  induction t with
  | nil => intro _; simp [setChild, size]
  | mk i lb p f l r ihl ihr =>
    intro hn
    obtain ⟨_, _, hl, hr, hd⟩ := nodup_mk hn
    simp only [setChild]
    split
    · cases side <;> simp only [size, size_relink, if_true, Bool.false_eq_true, if_false] <;> omega
    · by_cases hm : pid ∈ l.ids
      · have hr' : pid ∉ r.ids := hd pid hm
        rw [setChild_of_not_mem pid side b r hr']
        have := ihl hl; simp only [size]; omega
      · rw [setChild_of_not_mem pid side b l hm]
        have := ihr hr; simp only [size]; omega

theorem size_le_of_mem_pre : ∀ (t n : PNode), n ∈ t.pre → n.size ≤ t.size := by
  intro t
  induction t with
  | nil => intro n hn; simp [pre] at hn
  | mk i lb p f l r ihl ihr =>
    intro n hn
    rcases mem_pre_mk.1 hn with e | e | e
    · rw [e]; exact Nat.le_refl _
    · have := ihl n e; simp only [size]; omega
    · have := ihr n e; simp only [size]; omega

theorem size_childOf_le (pid : Nat) (side : Bool) (t : PNode) : (childOf pid side t).size ≤ t.size := by
  rcases childOf_nil_or_mem pid side t with e | e
  · rw [e]; simp [size]
  · exact size_le_of_mem_pre t _ e

/-- **`_cross` at the level of field writes is the functional model**: for proper parents on disjoint identities (the
    two deep copies), every pair of points -/
theorem runCross_is_cross {ar : Nat → Nat} (f m : PNode) (pf pm : Nat) (hwf : WF ar f) (hwm : WF ar m)
    (hd : ∀ x ∈ f.ids, x ∉ m.ids) :
    runCross Expected.crossFrame.cond Expected.crossBody f m pf pm = cross f m pf pm := by
  unfold runCross
  cases hfn : findNode f pf with
  | error => simp [cross, hfn]
  | noSlot =>
    cases hmn : findNode m pm with
    | error => simp [cross, hfn, hmn]
    | noSlot => simp [cross, hfn, hmn, Expected.crossFrame, HCond.eval]
    | slot sm fm => simp [cross, hfn, hmn, Expected.crossFrame, HCond.eval]
  | slot sf ff =>
    cases hmn : findNode m pm with
    | error => simp [cross, hfn, hmn]
    | noSlot => simp [cross, hfn, hmn, Expected.crossFrame, HCond.eval]
    | slot sm fm =>
      obtain ⟨s1, f', m', hrun, hc, h1, h2⟩ := cross_on_heap f m pf pm hwf hwm hd sf sm ff fm hfn hmn
        { heap := (heapOf f).union (heapOf m),
          env := fun n => if n = "sub_father" then some sf else if n = "sub_mother" then some sm else none,
          flags := fun n => if n = "flag_father" then ff else if n = "flag_mother" then fm else false }
        rfl (by simp) (by simp) (by simp) (by simp)
      have hc' := hc
      simp only [cross, hfn, hmn, Option.some.injEq, Prod.mk.injEq] at hc'
      have hs1 : f'.size ≤ f.size + m.size + 1 := by
        rw [← hc'.1]; have := size_setChild_le sf ff (childOf sm fm m) f hwf.2.2.2.2; have := size_childOf_le sm fm m; omega
      have hs2 : m'.size ≤ f.size + m.size + 1 := by
        rw [← hc'.2]; have := size_setChild_le sm fm (childOf sf ff f) m hwm.2.2.2.2; have := size_childOf_le sf ff f; omega
      simp only [Expected.crossFrame, HCond.eval, Option.isSome_some, if_true]
      rw [hrun, hc]
      simp [h1 _ hs1, h2 _ hs2]

/-- **`_mutate` at the level of field writes is the functional model**, for a proper tree and a fresh branch on other
    identities -/
theorem runMutate_is_mutate {ar : Nat → Nat} (t branch : PNode) (point : Nat) (hwf : WF ar t)
    (hb : branch.ids.Nodup) (hd : ∀ x ∈ t.ids, x ∉ branch.ids) (hne : branch ≠ nil) :
    runMutate Expected.mutFrame.cond Expected.mutateBody t point branch = mutate t point branch := by
  unfold runMutate
  cases hfn : findNode t point with
  | error => simp [mutate, hfn]
  | noSlot => simp [mutate, hfn, Expected.mutFrame, HCond.eval]
  | slot pid side =>
    obtain ⟨s1, t', hrun, hc, h1⟩ := mutate_on_heap t branch point hwf hb hd hne pid side hfn
      { heap := (heapOf t).union (heapOf branch),
        env := fun n => if n = "sub_tree" then some pid else if n = "branch" then branch.id? else none,
        flags := fun n => if n = "flag" then side else false }
      rfl (by simp) (by simp) (by simp)
    have hc' := hc
    simp only [mutate, hfn, Option.some.injEq] at hc'
    have hs : t'.size ≤ t.size + branch.size + 1 := by
      rw [← hc']; have := size_setChild_le pid side branch t hwf.2.2.2.2; omega
    simp only [Expected.mutFrame, HCond.eval, Option.isSome_some, if_true]
    rw [hrun, hc]
    simp [h1 _ hs]

end Opy
