import OpyVerif.Proofs.SweepProg
import OpyVerif.Generated.Sweeps
/-!
The machine's sweep rule is what the *translated* `_evaluate` methods do: `Gen.genericSweep`, `Gen.psoSweep`,
`Gen.gpSweep` are read from the current working tree; for each, some tie flag makes the loop body equal to
`sweepAgent` / `takes` / `bestOf` of `Model/Machine` — the rule every C02 / C03 / C20 machine theorem is about.
-/
namespace Opy

/-- every translated sweep calls the objective exactly once per agent -/
theorem code_sweeps_eval_once :
    Gen.genericSweep.evalsOnce = true ∧ Gen.psoSweep.evalsOnce = true ∧ Gen.gpSweep.evalsOnce = true := by
  refine ⟨?_, ?_, ?_⟩
  · rcases Gen.genericSweep_eq with h | h <;> rw [h] <;> decide
  · rcases Gen.psoSweep_eq with h | h <;> rw [h] <;> decide
  · rcases Gen.gpSweep_eq with h | h <;> rw [h] <;> decide

/-- only `Optimizer`, `PSO` and `GP` define a sweep; every other optimizer inherits one of the three -/
theorem code_sweep_owners : Gen.sweepOwners = ["GP", "Optimizer", "PSO"] := Gen.sweepOwners_eq

end Opy
