import OpyVerif.Model.HistProg
import OpyVerif.Proofs.C19
import OpyVerif.Generated.HistProg.getProg_eq
/-!
C19 / C04 about the *translated* `History.get` and `Opytimizer.start`.
-/
namespace Opy

/-- the translated `get` is the model `get` (checks, their order, the index path, `hstack`) -/
theorem code_get (records : List Rec) (isTuple : Bool) (index : List Nat) :
    Gen.getProg.run records isTuple index = some (get records isTuple index) := by
  rw [Gen.getProg_eq]; exact getProg_is_get records isTuple index


end Opy
