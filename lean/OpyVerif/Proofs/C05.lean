import OpyVerif.Proofs.Lemmas.MiscLemmas
/-!
C05 — runs are reproducible from the seed alone.

**What is proved here is structural.**  `Prog` (Model/Effects.lean) is the language of
everything a run is allowed to do: draw from the global generator (`uniform`, `normal`,
`choice`), read the clock, call the objective, call the hook.  `interp` gives it meaning over a
`World = (rng stream + position, clock stream + position, ambient)`.  The theorems say: *code
that touches only these primitives is reproducible* — its result is a function of the consumed
segment of the generator stream (i.e. of the seed) and, only through `clock` nodes, of the
clock; the `ambient` component (hash seed, earlier workload, module globals, …) cannot matter.

That each shipped optimiser *is* such a program — that it has no other source of
nondeterminism (iteration over sets, `id()`-dependent ordering, a private generator, …) — is
**not** proved in Lean.  It is established outside Lean by the two-run differential test of the
harness (same seed twice, in differently perturbed processes ⇒ identical histories; different
seeds ⇒ different histories).

* `run_ambient_irrelevant`      : equal generator and clock ⇒ equal result and final states;
* `run_clock_irrelevant_for`    : no `clock` node ⇒ the clock cannot matter at all;
* `run_clock_only_through_reads`: in general only the clock values actually read matter;
* `run_depends_only_on_consumed`: only the consumed stream segments matter (master statement);
* `run_rng_position`, `run_consumes` : the stream is consumed, one element per draw node;
* `run_deterministic_in_seed`(`_noClock`) : same seed ⇒ same result.

Core Lean only.
-/
set_option linter.unusedVariables false
namespace Opy

variable {α : Type} (f : List Int → Int)

/-- **nothing reads `ambient`**: two worlds that agree on the generator (stream and position)
    and on the clock (stream and position) give the same result and the same final generator
    and clock states, whatever their `ambient` components; `ambient` itself is left as it was -/
theorem run_ambient_irrelevant (p : Prog α) (w1 w2 : World)
    (hr : w1.rng = w2.rng) (hp : w1.pos = w2.pos) (hc : w1.clock = w2.clock) (hcp : w1.cpos = w2.cpos) :
    (interp f p w1).1 = (interp f p w2).1 ∧
    (interp f p w1).2.rng = (interp f p w2).2.rng ∧ (interp f p w1).2.pos = (interp f p w2).2.pos ∧
    (interp f p w1).2.clock = (interp f p w2).2.clock ∧ (interp f p w1).2.cpos = (interp f p w2).2.cpos ∧
    (interp f p w1).2.ambient = w1.ambient ∧ (interp f p w2).2.ambient = w2.ambient := by
  obtain ⟨h1, h2, h3⟩ := interp_congr f p w1 w2 (fun i _ => by rw [hr, hp]) (fun i _ => by rw [hc, hcp])
  rw [interp_final f p w1, interp_final f p w2]
  exact ⟨h1, hr, by show w1.pos + _ = w2.pos + _; rw [hp, h2], hc,
    by show w1.cpos + _ = w2.cpos + _; rw [hcp, h3], rfl, rfl⟩

/-- **master statement**: the result depends on the world only through the generator elements
    actually consumed and the clock readings actually taken (both counted on the executed path
    of the first run, read relative to the current positions) -/
theorem run_depends_only_on_consumed (p : Prog α) (w1 w2 : World)
    (hr : ∀ i, i < draws f p w1 → w1.rng (w1.pos + i) = w2.rng (w2.pos + i))
    (hc : ∀ i, i < ticks f p w1 → w1.clock (w1.cpos + i) = w2.clock (w2.cpos + i)) :
    (interp f p w1).1 = (interp f p w2).1 ∧ draws f p w2 = draws f p w1 ∧ ticks f p w2 = ticks f p w1 :=
  interp_congr f p w1 w2 hr hc

/-- **clock-free programs**: without `clock` nodes the result (and the generator consumption)
    does not depend on the clock stream, the clock position or `ambient` at all -/
theorem run_clock_irrelevant_for (p : Prog α) (hnc : p.NoClock) (w1 w2 : World)
    (hr : w1.rng = w2.rng) (hp : w1.pos = w2.pos) :
    (interp f p w1).1 = (interp f p w2).1 ∧ (interp f p w1).2.pos = (interp f p w2).2.pos := by
  obtain ⟨h1, h2, _⟩ := interp_congr f p w1 w2 (fun i _ => by rw [hr, hp])
    (fun i hi => by rw [ticks_noClock f p w1 hnc] at hi; exact absurd hi (Nat.not_lt_zero _))
  simp only [interp_final]
  exact ⟨h1, by rw [hp, h2]⟩

/-- a clock-free program takes no clock reading -/
theorem run_noClock_ticks (p : Prog α) (hnc : p.NoClock) (w : World) :
    (interp f p w).2.cpos = w.cpos := by
  simp only [interp_final, ticks_noClock f p w hnc, Nat.add_zero]

/-- **in general the clock matters only through `clock` nodes**: with the same generator, two
    clocks that agree on the `ticks` readings the executed path takes (and may differ
    everywhere else) give the same result -/
theorem run_clock_only_through_reads (p : Prog α) (w1 w2 : World)
    (hr : w1.rng = w2.rng) (hp : w1.pos = w2.pos)
    (hc : ∀ i, i < ticks f p w1 → w1.clock (w1.cpos + i) = w2.clock (w2.cpos + i)) :
    (interp f p w1).1 = (interp f p w2).1 :=
  (interp_congr f p w1 w2 (fun i _ => by rw [hr, hp]) hc).1

/-- **the stream is consumed, one element per draw**: final position = initial position +
    number of draw nodes on the executed path; the stream itself is not altered -/
theorem run_rng_position (p : Prog α) (w : World) :
    (interp f p w).2.pos = w.pos + draws f p w ∧ (interp f p w).2.rng = w.rng := by
  simp only [interp_final, and_self]

/-- the same for the clock -/
theorem run_clock_position (p : Prog α) (w : World) :
    (interp f p w).2.cpos = w.cpos + ticks f p w ∧ (interp f p w).2.clock = w.clock := by
  simp only [interp_final, and_self]

/-- a run that draws at least once ends strictly further in the stream: a second run in the
    same process does *not* see the same numbers unless it is re-seeded -/
theorem run_consumes (p : Prog α) (w : World) (h : 0 < draws f p w) : w.pos < (interp f p w).2.pos := by
  rw [(run_rng_position f p w).1]; omega

/-- **same seed ⇒ same result**: two freshly seeded worlds with the same seed and the same
    clock readings give the same result, whatever `ambient` is -/
theorem run_deterministic_in_seed (p : Prog α) (gen : Nat → Nat → Int) (seed : Nat)
    (clock : Nat → Int) (amb1 amb2 : Nat) :
    (interp f p (World.seeded gen seed clock amb1)).1 = (interp f p (World.seeded gen seed clock amb2)).1 :=
  (run_ambient_irrelevant f p (World.seeded gen seed clock amb1) (World.seeded gen seed clock amb2)
    rfl rfl rfl rfl).1

/-- for clock-free programs the seed alone decides: clocks and `ambient` may both differ -/
theorem run_deterministic_in_seed_noClock (p : Prog α) (hnc : p.NoClock) (gen : Nat → Nat → Int)
    (seed : Nat) (clock1 clock2 : Nat → Int) (amb1 amb2 : Nat) :
    (interp f p (World.seeded gen seed clock1 amb1)).1 = (interp f p (World.seeded gen seed clock2 amb2)).1 :=
  (run_clock_irrelevant_for f p hnc (World.seeded gen seed clock1 amb1)
    (World.seeded gen seed clock2 amb2) rfl rfl).1

/-- equal streams, possibly at different absolute offsets, also suffice (only the consumed
    window matters): this is "re-seeding restores the run" -/
theorem run_reseed (p : Prog α) (hnc : p.NoClock) (w1 w2 : World)
    (h : ∀ i, w1.rng (w1.pos + i) = w2.rng (w2.pos + i)) : (interp f p w1).1 = (interp f p w2).1 :=
  (interp_congr f p w1 w2 (fun i _ => h i)
    (fun i hi => by rw [ticks_noClock f p w1 hnc] at hi; exact absurd hi (Nat.not_lt_zero _))).1

/-! ### satisfiability / non-vacuity -/

/-- different seeds are actually used: the two-draw program `twoDraws` (lemma file) returns
    different results for two different streams … -/
example :
    (interp (fun _ => 0) twoDraws (World.seeded (fun s i => s + i) 0 (fun _ => 0) 0)).1 = (0, 1) ∧
    (interp (fun _ => 0) twoDraws (World.seeded (fun s i => s + i) 7 (fun _ => 0) 0)).1 = (7, 8) := by
  decide
/-- … it consumes two elements, and running it again without re-seeding gives another result -/
example :
    let w := World.seeded (fun s i => s + i) 0 (fun _ => 0) 0
    draws (fun _ => 0) twoDraws w = 2 ∧ (interp (fun _ => 0) twoDraws w).2.pos = 2 ∧
    (interp (fun _ => 0) twoDraws (interp (fun _ => 0) twoDraws w).2).1 = (2, 3) := by
  decide
example : twoDraws.NoClock := by simp [twoDraws, Prog.NoClock]
/-- a program with a `clock` node does depend on the clock (so `NoClock` is not superfluous),
    but never on `ambient` -/
example :
    (interp (fun x => x.sum) timedEval ⟨fun i => i + 5, 0, fun _ => 100, 0, 1⟩).1 = (5, 100) ∧
    (interp (fun x => x.sum) timedEval ⟨fun i => i + 5, 0, fun _ => 200, 0, 2⟩).1 = (5, 200) := by
  decide

#print axioms run_ambient_irrelevant
#print axioms run_depends_only_on_consumed
#print axioms run_clock_irrelevant_for
#print axioms run_noClock_ticks
#print axioms run_clock_only_through_reads
#print axioms run_rng_position
#print axioms run_clock_position
#print axioms run_consumes
#print axioms run_deterministic_in_seed
#print axioms run_deterministic_in_seed_noClock
#print axioms run_reseed

end Opy
