import OpyVerif.Model.EffectSites
import OpyVerif.Generated.Effects
/-!
C05 about the *translated source*: the effect sites found in the current working tree are exactly the ones of
the signature the non-interference theorems of `Proofs/C05.lean` are about.
-/
namespace Opy

/-- every call site of the current source that can read more than its arguments is a primitive of the effect
    signature (NumPy's global generator through the three entry points, the clock in `Opytimizer.start`) or file
    access by `History.save/load` -/
theorem code_sites_in_signature :
    Gen.effectSites.all (fun s => (effKindOf s.2.2).isSome) = true ∧
    (Gen.effectSites.filter (fun s => effKindOf s.2.2 == some .clock)).map (·.2.1) = ["Opytimizer.start"] ∧
    (Gen.effectSites.filter (fun s => effKindOf s.2.2 == some .fileIO)).map (·.2.1) = ["History.load", "History.save"] := by
  rw [Gen.effectSites_eq]; exact sites_in_signature

/-- no call of `hash`, `id`, `set`, `np.empty`, `random.*`, `os.urandom`, … anywhere in the library -/
theorem code_no_other_entropy :
    Gen.effectSites.map (·.2.2) = ["np.random.choice", "np.random.normal", "np.random.uniform", "time.time", "open", "open"] := by
  rw [Gen.effectSites_eq]; rfl

end Opy
