import OpyVerif.Proofs.SweepCodeGeneric
import OpyVerif.Proofs.SweepCodePso
import OpyVerif.Proofs.SweepCodeGp
import OpyVerif.Proofs.SweepCodeAll
