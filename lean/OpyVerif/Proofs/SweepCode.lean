import OpyVerif.Proofs.SweepProg
import OpyVerif.Generated.Sweeps
/-!
The machine's sweep rule is what the *translated* `_evaluate` methods do: `Gen.genericSweep`, `Gen.psoSweep`,
`Gen.gpSweep` are read from the current working tree; for each, some tie flag makes the loop body equal to
`sweepAgent` / `takes` / `bestOf` of `Model/Machine` — the rule every C02 / C03 / C20 machine theorem is about.
-/
namespace Opy

theorem code_genericSweep (cfg : Cfg) (hs : cfg.swarm = false) (a best : Ag) (v : Int) (fresh : Nat) (tp : Pos) :
    ∃ tie, Gen.genericSweep.body cfg.lbs cfg.ubs tp v fresh a best =
      (sweepAgent cfg a v, if takes best (sweepAgent cfg a v) tie then bestOf (sweepAgent cfg a v) fresh else best) := by
  rcases Gen.genericSweep_eq with h | h <;> rw [h]
  · exact ⟨false, genericSweep_is_machine_rule cfg hs a best v fresh tp⟩
  · exact ⟨true, genericSweepLe_is_machine_rule cfg hs a best v fresh tp⟩

theorem code_psoSweep (cfg : Cfg) (hs : cfg.swarm = true) (a best : Ag) (v : Int) (fresh : Nat) (tp : Pos) :
    ∃ tie, Gen.psoSweep.body cfg.lbs cfg.ubs tp v fresh a best =
      (sweepAgent cfg a v, if takes best (sweepAgent cfg a v) tie then bestOf (sweepAgent cfg a v) fresh else best) := by
  rcases Gen.psoSweep_eq with h | h <;> rw [h]
  · exact ⟨false, psoSweep_is_machine_rule cfg hs a best v fresh tp⟩
  · exact ⟨true, psoSweepLe_is_machine_rule cfg hs a best v fresh tp⟩

theorem code_gpSweep (cfg : Cfg) (hs : cfg.swarm = false) (a best : Ag) (v : Int) (fresh : Nat) (tp : Pos) :
    ∃ tie, Gen.gpSweep.body cfg.lbs cfg.ubs tp v fresh a best =
      (let a0 := { a with pos := clipPos cfg.lbs cfg.ubs tp }
       (sweepAgent cfg a0 v, if takes best (sweepAgent cfg a0 v) tie then bestOf (sweepAgent cfg a0 v) fresh else best)) := by
  rcases Gen.gpSweep_eq with h | h <;> rw [h]
  · exact ⟨false, gpSweep_is_machine_rule cfg hs a best v fresh tp⟩
  · exact ⟨true, gpSweepLe_is_machine_rule cfg hs a best v fresh tp⟩

/-- every translated sweep calls the objective exactly once per agent -/
theorem code_sweeps_eval_once :
    Gen.genericSweep.evalsOnce = true ∧ Gen.psoSweep.evalsOnce = true ∧ Gen.gpSweep.evalsOnce = true := by
  refine ⟨?_, ?_, ?_⟩
  · rcases Gen.genericSweep_eq with h | h <;> rw [h] <;> decide
  · rcases Gen.psoSweep_eq with h | h <;> rw [h] <;> decide
  · rcases Gen.gpSweep_eq with h | h <;> rw [h] <;> decide

/-- only `Optimizer`, `PSO` and `GP` define a sweep; every other optimizer inherits one of the three -/
theorem code_sweep_owners : Gen.sweepOwners = ["GP", "Optimizer", "PSO"] := Gen.sweepOwners_eq

end Opy
