import OpyVerif.Model.FindProg
/-!
The expected `find_node` program is `PNode.findNode`, for every tree (well-formed or not) and every position.
-/
namespace Opy
open PNode

theorem findProg_is_findNode (t : PNode) (p : Nat) :
    Expected.findProg.run t p none = findNode t p := by
  unfold Expected.findProg findNode
  simp only [FProg.run]
  cases hp : t.preOrder[p]? with
  | none => simp
  | some node =>
    by_cases ht : node.isTermNode
    · cases hpar : node.storedPar <;> simp [FProg.run, ht, NRef.idOf, NRef.obj, hpar]
    · cases hpar : node.storedPar with
      | none => simp [FProg.run, ht, NRef.idOf, NRef.obj, hpar]
      | some pid =>
        cases hl : lookup pid t with
        | none => simp [FProg.run, ht, NRef.idOf, NRef.obj, hpar, hl]
        | some q =>
          cases hq : q.storedPar <;> simp [FProg.run, ht, NRef.idOf, NRef.obj, hpar, hl, hq]

end Opy
