import OpyVerif.Proofs.C16
import OpyVerif.Proofs.Formulas
import OpyVerif.Generated.FormulasC16
/-!
C16 stated about the *translated source*: the expressions of `Generated/FormulasDefs.lean` are what
`harness/translate_formulas.py` read from the current working tree.  Each theorem composes the
regenerated equality "source = expected expression" (`Generated/FormulasC16.lean`, re-decided on
every build), the denotation theorem of `Proofs/Formulas.lean` (expected expression = model, all
inputs) and the real-number theorem about the model.  `env` gives the values of the named
quantities the expression mentions (`self.w_min`, `space.n_iterations`, the loop counter `t`, …).
-/
set_option linter.unusedVariables false
namespace Opy

/-! ## C16 — the weighted-sum loop -/

/-- folding the *translated* loop body over `zip(weights, component values)` from `z = 0` is the
    mathematical weighted sum -/
theorem code_weighted_eq_sum (ws vals : List ℝ) :
    (List.zip ws vals).foldl (fun z p => bodyStep Gen.weightedBody z p.1 p.2) (0 : ℝ)
      = ((List.zip ws vals).map fun p => p.1 * p.2).sum := by
  rw [Gen.weightedRule_eq.2]
  have := weighted_is_body_fold ws vals
  rw [weighted_eq_sum] at this
  simpa [Elem.ofNat'] using this

/-- the value the translated loop returns -/
noncomputable def codeWeighted (ws vals : List ℝ) : ℝ :=
  (List.zip ws vals).foldl (fun z p => bodyStep Gen.weightedBody z p.1 p.2) (0 : ℝ)

/-- the translated loop computes the model's `weighted` -/
theorem code_weighted_eq_model (ws vals : List ℝ) : codeWeighted ws vals = weighted ws vals := by
  unfold codeWeighted; rw [code_weighted_eq_sum, weighted_eq_sum]

/-- the translated loop with a single component of weight one returns that component's value -/
theorem code_weighted_single_one (v : ℝ) : codeWeighted [1] [v] = v := by
  rw [code_weighted_eq_model]; exact weighted_single_one v

/-- the translated loop: non-negative weights, components bounded below by `m` — the value is at least `m · Σ w` -/
theorem code_weighted_lower_bound (m : ℝ) (ws vals : List ℝ) (h : ws.length = vals.length)
    (hw : ∀ w ∈ ws, 0 ≤ w) (hv : ∀ v ∈ vals, m ≤ v) : m * ws.sum ≤ codeWeighted ws vals := by
  rw [code_weighted_eq_model]; exact weighted_lower_bound m ws vals h hw hv

/-- the translated loop: non-negative weights — the value is monotone in every component value -/
theorem code_weighted_mono (ws vals vals' : List ℝ) (h : vals.length = vals'.length)
    (hw : ∀ w ∈ ws, 0 ≤ w) (hv : ∀ i (h1 : i < vals.length) (h2 : i < vals'.length), vals[i] ≤ vals'[i]) :
    codeWeighted ws vals ≤ codeWeighted ws vals' := by
  rw [code_weighted_eq_model, code_weighted_eq_model]; exact weighted_mono ws vals vals' h hw hv

/-- the translated loop: scaling every weight scales the value -/
theorem code_weighted_smul (c : ℝ) (ws vals : List ℝ) :
    codeWeighted (ws.map (c * ·)) vals = c * codeWeighted ws vals := by
  rw [code_weighted_eq_model, code_weighted_eq_model]; exact weighted_smul c ws vals

/-- the loop's shape: accumulator starts at `0`, iterates `zip(self.functions, self.weights)`
    unpacked as `(f, w)`, returns the accumulator -/
theorem code_weighted_rule :
    Gen.weightedRule = ["z = 0", "zip(self.functions, self.weights)", "(f, w)", "z"] := by
  rw [Gen.weightedRule_eq.1]; rfl

end Opy
