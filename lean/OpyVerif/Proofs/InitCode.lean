import OpyVerif.Proofs.InitCodeSearch
import OpyVerif.Proofs.InitCodeHyper
