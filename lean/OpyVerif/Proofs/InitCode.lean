import OpyVerif.Proofs.InitCodeSearch
import OpyVerif.Proofs.InitCodeHyper
import OpyVerif.Proofs.InitCodeTerminals
