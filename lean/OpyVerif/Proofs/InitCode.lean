import OpyVerif.Proofs.InitProg
import OpyVerif.Generated.Init
/-!
C06 (construction clause) about the *translated* `_initialize_agents` methods.
-/
namespace Opy

/-- search spaces, as translated on this run: draws inside the intervals the loop asks for give agents inside the declared
    box, each carrying the declared bounds (which its own `check_limits` then leaves alone) -/
theorem code_searchInit (lbs ubs : List Int) (v : Nat) (draws : List Pos) (h : lbs.length = ubs.length)
    (hd : ∀ p ∈ draws, InBox lbs ubs p) :
    ∃ agents, Gen.searchInit.run lbs ubs v draws = some agents ∧ Gen.searchInit.ranges lbs ubs v = List.zip lbs ubs ∧
      ∀ a ∈ agents, InBox lbs ubs a.pos ∧ a.lb = lbs ∧ a.ub = ubs ∧ clipPos a.lb a.ub a.pos = a.pos := by
  rw [Gen.searchInit_eq]
  refine ⟨_, searchInit_is_initSearch lbs ubs v draws h, searchInit_ranges lbs ubs v, fun a ha => ?_⟩
  obtain ⟨h1, h2, h3⟩ := initSearch_feasible lbs ubs draws hd a ha
  exact ⟨h1, h2, h3, initSearch_clip_noop lbs ubs draws hd a ha⟩

/-- tree spaces initialise their agents by the same loop -/
theorem code_treeInit (lbs ubs : List Int) (v : Nat) (draws : List Pos) (h : lbs.length = ubs.length)
    (hd : ∀ p ∈ draws, InBox lbs ubs p) :
    ∃ agents, Gen.treeInit.run lbs ubs v draws = some agents ∧
      ∀ a ∈ agents, InBox lbs ubs a.pos ∧ a.lb = lbs ∧ a.ub = ubs := by
  rw [Gen.treeInit_eq]
  exact ⟨_, searchInit_is_initSearch lbs ubs v draws h, initSearch_feasible lbs ubs draws hd⟩

/-- hypercomplex spaces: every row is asked from the unit interval and the agents keep the unit bounds, whatever bounds
    the space declares -/
theorem code_hyperInit (lbs ubs : List Int) (v : Nat) (draws : List Pos)
    (hd : ∀ p ∈ draws, InBox (List.replicate v keyZero) (List.replicate v keyOne) p) :
    ∃ agents, Gen.hyperInit.run lbs ubs v draws = some agents ∧
      Gen.hyperInit.ranges lbs ubs v = List.replicate v (keyZero, keyOne) ∧
      ∀ a ∈ agents, InBox (List.replicate v keyZero) (List.replicate v keyOne) a.pos ∧
        a.lb = List.replicate v keyZero ∧ a.ub = List.replicate v keyOne := by
  rw [Gen.hyperInit_eq]
  exact ⟨_, hyperInit_is_initHyper lbs ubs v draws, hyperInit_ranges lbs ubs v, initHyper_feasible v draws hd⟩

end Opy
