import OpyVerif.Model.Num
import Mathlib.Analysis.SpecialFunctions.Trigonometric.Basic
import Mathlib.Analysis.SpecialFunctions.Log.Basic
import Mathlib.Analysis.SpecialFunctions.Sqrt
import Mathlib.Analysis.SpecialFunctions.Pow.Real
import Mathlib.Analysis.SpecialFunctions.Gamma.Basic
/-!
The proof-side instance of the scalar class: `Elem ℝ`, with every operation the mathematical one.
The `simp` lemmas below rewrite each class operation at `ℝ` into the Mathlib operation, so that a
Model formula instantiated at `ℝ` becomes an ordinary real expression after `simp`.
-/
set_option warn.classDefReducibility false
namespace Opy

/-- Deliberately *not* instance-reducible: the unfolding lemmas below then rewrite
`Elem.toAdd`-addition into `Real.instAdd`-addition without `simp` re-matching its own result. -/
noncomputable def instElemReal : Elem ℝ where
  add := fun a b => a + b
  sub := fun a b => a - b
  mul := fun a b => a * b
  div := fun a b => a / b
  neg := fun a => -a
  ofNat' := fun n => (n : ℝ)
  ofSci := fun m s e => (OfScientific.ofScientific m s e : ℝ)
  exp := Real.exp
  log := Real.log
  sin := Real.sin
  cos := Real.cos
  sqrt := Real.sqrt
  abs := fun x => |x|
  pow := Real.rpow
  pi := Real.pi
  gamma := Real.Gamma

attribute [instance] instElemReal

/-! ordinary real arithmetic still elaborates to Mathlib's instances, not to `Elem.toAdd` etc. -/
/-- info: Real.instAdd -/
#guard_msgs in #synth Add ℝ
/-- info: Real.instSub -/
#guard_msgs in #synth Sub ℝ
/-- info: Real.instMul -/
#guard_msgs in #synth Mul ℝ
/-- info: Real.instNeg -/
#guard_msgs in #synth Neg ℝ

section simp_lemmas
variable (a b : ℝ)

@[simp] theorem elem_add : @HAdd.hAdd ℝ ℝ ℝ (@instHAdd ℝ (Elem.toAdd)) a b = a + b := rfl
@[simp] theorem elem_sub : @HSub.hSub ℝ ℝ ℝ (@instHSub ℝ (Elem.toSub)) a b = a - b := rfl
@[simp] theorem elem_mul : @HMul.hMul ℝ ℝ ℝ (@instHMul ℝ (Elem.toMul)) a b = a * b := rfl
@[simp] theorem elem_div : @HDiv.hDiv ℝ ℝ ℝ (@instHDiv ℝ (Elem.toDiv)) a b = a / b := rfl
@[simp] theorem elem_neg : @Neg.neg ℝ (Elem.toNeg) a = -a := rfl
@[simp] theorem elem_ofNat' (n : ℕ) : (Elem.ofNat' n : ℝ) = (n : ℝ) := rfl
@[simp] theorem elem_ofSci (m : ℕ) (s : Bool) (e : ℕ) :
    (Elem.ofSci m s e : ℝ) = (OfScientific.ofScientific m s e : ℝ) := rfl
@[simp] theorem elem_exp : Elem.exp a = Real.exp a := rfl
@[simp] theorem elem_log : Elem.log a = Real.log a := rfl
@[simp] theorem elem_sin : Elem.sin a = Real.sin a := rfl
@[simp] theorem elem_cos : Elem.cos a = Real.cos a := rfl
@[simp] theorem elem_sqrt : Elem.sqrt a = Real.sqrt a := rfl
@[simp] theorem elem_abs : Elem.abs a = |a| := rfl
@[simp] theorem elem_pow : Elem.pow a b = a ^ b := rfl
@[simp] theorem elem_pi : (Elem.pi : ℝ) = Real.pi := rfl
@[simp] theorem elem_gamma : Elem.gamma a = Real.Gamma a := rfl

end simp_lemmas

theorem foldl_add_eq (xs : List ℝ) (a : ℝ) : xs.foldl (fun x y => x + y) a = a + xs.sum := by
  induction xs generalizing a with
  | nil => simp
  | cons x xs ih => simp [List.foldl_cons, ih, add_assoc]

/-- the left fold of the source is the mathematical sum -/
theorem sumL_eq_sum (xs : List ℝ) : sumL xs = xs.sum := by
  unfold sumL
  simp only [elem_add, elem_ofNat', Nat.cast_zero]
  rw [foldl_add_eq, zero_add]

end Opy
