import OpyVerif.Proofs.InitProg
import OpyVerif.Generated.Init.terminalsInit_eq
/-!
C06 (construction clause) about the *translated* `TreeSpace._initialize_terminals`: the terminals of a tree space are
sampled by the same loop as its agents, so whatever `grow` hangs into a tree lies inside the declared box.
-/
namespace Opy

theorem code_terminalsInit (lbs ubs : List Int) (v : Nat) (draws : List Pos) (h : lbs.length = ubs.length)
    (hd : ∀ p ∈ draws, InBox lbs ubs p) :
    ∃ terminals, Gen.terminalsInit.run lbs ubs v draws = some terminals ∧ Gen.terminalsInit.ranges lbs ubs v = List.zip lbs ubs ∧
      ∀ a ∈ terminals, InBox lbs ubs a.pos ∧ a.lb = lbs ∧ a.ub = ubs ∧ clipPos a.lb a.ub a.pos = a.pos := by
  rw [Gen.terminalsInit_eq]
  refine ⟨_, searchInit_is_initSearch lbs ubs v draws h, searchInit_ranges lbs ubs v, fun a ha => ?_⟩
  obtain ⟨h1, h2, h3⟩ := initSearch_feasible lbs ubs draws hd a ha
  exact ⟨h1, h2, h3, initSearch_clip_noop lbs ubs draws hd a ha⟩

end Opy
