import OpyVerif.Proofs.Lemmas.MiscLemmas
/-!
C12 — after `GP._evaluate`, agents, fitnesses and the incumbent agree with the trees.

`gpSweep lbs ubs f tvs best` (Model/GPSweep.lean) is the loop of `GP._evaluate` over the tree
values `tvs` (individual `i`'s tree evaluates to `tvs[i]`), starting from the incumbent
`best = (best_agent.fit, best_agent.position, index best_tree was copied from)`.
`gpFit lbs ubs f tv = f (clipPos lbs ubs tv)` is the fitness the loop computes for a tree value.

* `gpSweep_agents*`  : agent `i` holds the clipped value of tree `i` and `f` of it;
* `gpSweep_best`     : the incumbent is unchanged, or it is the *first* individual attaining the
                       sweep's minimum fitness, which is strictly below the previous best;
* `gpSweep_best_le`  : the incumbent is at least as good as every agent and as before;
* `gpSweep_inBox`    : all resulting positions are feasible.

Core Lean only.
-/
set_option linter.unusedVariables false
namespace Opy

variable (lbs ubs : List Int) (f : Pos → Int)

/-- the agents after the sweep, all at once: agent `i` = (clipped value of tree `i`, its `f`) -/
theorem gpSweep_agents_eq (tvs : List Pos) (best : GPBest) :
    (gpSweep lbs ubs f tvs best).1 =
      tvs.map (fun tv => (clipPos lbs ubs tv, f (clipPos lbs ubs tv))) := by
  simp only [gpSweep]
  rw [gpFold_agents]; simp [gpFit]

/-- **agents agree with trees**: as many agents as trees; agent `i`'s position is the clipped
    value of tree `i`, and its fitness is `f` of that very position -/
theorem gpSweep_agents (tvs : List Pos) (best : GPBest) :
    (gpSweep lbs ubs f tvs best).1.length = tvs.length ∧
    ∀ i (h : i < tvs.length),
      (gpSweep lbs ubs f tvs best).1[i]? = some (clipPos lbs ubs tvs[i], f (clipPos lbs ubs tvs[i])) := by
  rw [gpSweep_agents_eq]
  refine ⟨by simp, ?_⟩
  intro i h
  simp [h]

/-- fitness and position of every agent are consistent with each other -/
theorem gpSweep_agents_fit (tvs : List Pos) (best : GPBest) :
    ∀ a ∈ (gpSweep lbs ubs f tvs best).1, a.2 = f a.1 := by
  rw [gpSweep_agents_eq]
  intro a ha
  obtain ⟨tv, _, rfl⟩ := List.mem_map.mp ha
  rfl

/-- **the incumbent**: either no individual is strictly better than the previous best and all
    three components are unchanged; or `bestIdx = some j` where `j` is the first index
    attaining the minimum fitness of the sweep, that minimum is strictly below the previous
    best, `bestPos` is the clipped value of tree `j` and `bestFit = f bestPos` -/
theorem gpSweep_best (tvs : List Pos) (best : GPBest) :
    ((∀ tv ∈ tvs, best.1 ≤ gpFit lbs ubs f tv) ∧ (gpSweep lbs ubs f tvs best).2 = best) ∨
    (∃ j, ∃ h : j < tvs.length,
        (gpSweep lbs ubs f tvs best).2.2.2 = some j ∧
        (gpSweep lbs ubs f tvs best).2.2.1 = clipPos lbs ubs tvs[j] ∧
        (gpSweep lbs ubs f tvs best).2.1 = f (gpSweep lbs ubs f tvs best).2.2.1 ∧
        gpFit lbs ubs f tvs[j] < best.1 ∧
        (∀ m (hm : m < tvs.length), gpFit lbs ubs f tvs[j] ≤ gpFit lbs ubs f tvs[m]) ∧
        (∀ m (hm : m < j), gpFit lbs ubs f tvs[j] < gpFit lbs ubs f (tvs[m]'(by omega)))) := by
  simp only [gpSweep]
  rcases gpFold_best lbs ubs f tvs 0 [] best with h | ⟨j, hj, hres, h1, h2, h3⟩
  · exact Or.inl h
  · refine Or.inr ⟨j, hj, ?_, ?_, ?_, h1, h2, h3⟩ <;> rw [hres] <;> simp [gpFit]

/-- the two cases of `gpSweep_best` are told apart by the data: the incumbent changes iff some
    individual is strictly better than the previous best -/
theorem gpSweep_best_changed_iff (tvs : List Pos) (best : GPBest) :
    (gpSweep lbs ubs f tvs best).2 = best ↔ ∀ tv ∈ tvs, best.1 ≤ gpFit lbs ubs f tv := by
  rcases gpSweep_best lbs ubs f tvs best with ⟨h1, h2⟩ | ⟨j, hj, _, _, hfit, hlt, _, _⟩
  · exact ⟨fun _ => h1, fun _ => h2⟩
  · constructor
    · intro heq
      exfalso
      have hp : (gpSweep lbs ubs f tvs best).2.2.1 = clipPos lbs ubs tvs[j] := by assumption
      rw [hp] at hfit
      rw [heq] at hfit
      simp only [gpFit] at hlt
      omega
    · intro hall
      have := hall tvs[j] (List.getElem_mem _)
      omega

/-- **the incumbent is a minimum**: afterwards `bestFit ≤` every agent's fitness, and
    `bestFit ≤` the previous best fitness -/
theorem gpSweep_best_le (tvs : List Pos) (best : GPBest) :
    (∀ a ∈ (gpSweep lbs ubs f tvs best).1, (gpSweep lbs ubs f tvs best).2.1 ≤ f a.1) ∧
    (gpSweep lbs ubs f tvs best).2.1 ≤ best.1 := by
  have hag := gpSweep_agents_eq lbs ubs f tvs best
  rcases gpSweep_best lbs ubs f tvs best with ⟨h1, h2⟩ | ⟨j, hj, _, hp, hfit, hlt, hmin, _⟩
  · rw [h2]
    refine ⟨?_, Int.le_refl _⟩
    intro a ha
    rw [hag] at ha
    obtain ⟨tv, htv, rfl⟩ := List.mem_map.mp ha
    exact h1 tv htv
  · rw [hfit, hp]
    refine ⟨?_, Int.le_of_lt hlt⟩
    intro a ha
    rw [hag] at ha
    obtain ⟨tv, htv, rfl⟩ := List.mem_map.mp ha
    obtain ⟨m, hm, rfl⟩ := List.getElem_of_mem htv
    exact hmin m hm

/-- **feasibility**: with point-wise ordered bounds and every tree value having one row per
    bound pair, every agent position is in the box, and so is the best position whenever it
    was replaced (otherwise it is the previous one, bit for bit) -/
theorem gpSweep_inBox (tvs : List Pos) (best : GPBest) (hb : BoundsOk lbs ubs)
    (hrows : ∀ tv ∈ tvs, tv.length = lbs.length) :
    (∀ a ∈ (gpSweep lbs ubs f tvs best).1, InBox lbs ubs a.1) ∧
    ((gpSweep lbs ubs f tvs best).2 = best ∨ InBox lbs ubs (gpSweep lbs ubs f tvs best).2.2.1) := by
  constructor
  · rw [gpSweep_agents_eq]
    intro a ha
    obtain ⟨tv, htv, rfl⟩ := List.mem_map.mp ha
    exact clipPos_inBox lbs ubs tv hb (hrows tv htv).symm
  · rcases gpSweep_best lbs ubs f tvs best with ⟨_, h2⟩ | ⟨j, hj, _, hp, _⟩
    · exact Or.inl h2
    · right
      rw [hp]
      exact clipPos_inBox lbs ubs _ hb (hrows _ (List.getElem_mem _)).symm

/-- if the previous best position was feasible, the best position is feasible afterwards -/
theorem gpSweep_best_inBox (tvs : List Pos) (best : GPBest) (hb : BoundsOk lbs ubs)
    (hrows : ∀ tv ∈ tvs, tv.length = lbs.length) (h0 : InBox lbs ubs best.2.1) :
    InBox lbs ubs (gpSweep lbs ubs f tvs best).2.2.1 := by
  rcases (gpSweep_inBox lbs ubs f tvs best hb hrows).2 with h | h
  · rw [h]; exact h0
  · exact h

/-! ### satisfiability / non-vacuity

three individuals, fitness = first entry; the second and third tie at the minimum after
clipping: the *first* of them (index 1) becomes the incumbent -/
example :
    gpSweep [0] [5] (fun p => (p.headD []).headD 0) [[[4]], [[-3]], [[0]]] (9, [[9]], none)
      = ([([[4]], 4), ([[0]], 0), ([[0]], 0)], (0, [[0]], some 1)) := by decide
/-- nobody better: incumbent untouched -/
example :
    (gpSweep [0] [5] (fun p => (p.headD []).headD 0) [[[4]], [[7]]] (2, [[2]], none)).2
      = (2, [[2]], none) := by decide

#print axioms gpSweep_agents_eq
#print axioms gpSweep_agents
#print axioms gpSweep_agents_fit
#print axioms gpSweep_best
#print axioms gpSweep_best_changed_iff
#print axioms gpSweep_best_le
#print axioms gpSweep_inBox
#print axioms gpSweep_best_inBox

end Opy
