import OpyVerif.Proofs.C13
import OpyVerif.Proofs.Formulas
import OpyVerif.Generated.FormulasC13
/-!
C13 stated about the *translated source*: the expressions of `Generated/FormulasDefs.lean` are what
`harness/translate_formulas.py` read from the current working tree.  Each theorem composes the
regenerated equality "source = expected expression" (`Generated/FormulasC13.lean`, re-decided on
every build), the denotation theorem of `Proofs/Formulas.lean` (expected expression = model, all
inputs) and the real-number theorem about the model.  `env` gives the values of the named
quantities the expression mentions (`self.w_min`, `space.n_iterations`, the loop counter `t`, …).
-/
set_option linter.unusedVariables false
namespace Opy

/-! ## C13 — `hypercomplex.span`, one variable (`lb`, `ub` the variable's bounds, `row` its
hypercomplex components) -/

theorem code_span (env : String → ℝ) (row : List ℝ) :
    Gen.spanExpr.denote env row = .s (spanRow (env "lb") (env "ub") row) := by
  rw [Gen.span_eq]; exact d_span env row

theorem code_norm (env : String → ℝ) (row : List ℝ) : Gen.normExpr.denote env row = .s (norm row) := by
  rw [Gen.norm_eq]; exact d_norm env row

/-- the spanned value of a unit-box row lies within the variable's bounds -/
theorem code_span_mem (env : String → ℝ) (row : List ℝ) (hb : env "lb" ≤ env "ub") (hne : row ≠ [])
    (h : ∀ v ∈ row, 0 ≤ v ∧ v ≤ 1) :
    ∃ y, Gen.spanExpr.denote env row = .s y ∧ env "lb" ≤ y ∧ y ≤ env "ub" :=
  ⟨_, code_span env row, spanRow_mem _ _ row hb hne h⟩

theorem code_span_zeros (env : String → ℝ) (row : List ℝ) (hne : row ≠ []) (h : ∀ v ∈ row, v = 0) :
    Gen.spanExpr.denote env row = .s (env "lb") := by
  rw [code_span, spanRow_zeros _ _ row hne h]

theorem code_span_ones (env : String → ℝ) (row : List ℝ) (hne : row ≠ []) (h : ∀ v ∈ row, v = 1) :
    Gen.spanExpr.denote env row = .s (env "ub") := by
  rw [code_span, spanRow_ones _ _ row hne h]

/-- the translated `span` depends on the row only through its norm, and is monotone in it -/
theorem code_span_mono_norm (env : String → ℝ) (r1 r2 : List ℝ) (hb : env "lb" ≤ env "ub")
    (hl : r1.length = r2.length) (hne : r1 ≠ []) (hn : norm r1 ≤ norm r2) :
    ∃ y1 y2, Gen.spanExpr.denote env r1 = .s y1 ∧ Gen.spanExpr.denote env r2 = .s y2 ∧ y1 ≤ y2 :=
  ⟨_, _, code_span env r1, code_span env r2, spanRow_mono_norm _ _ r1 r2 hb hl hne hn⟩

end Opy
