import OpyVerif.Proofs.GPRun
import OpyVerif.Generated.GPRun
import OpyVerif.Generated.PopLoops
import OpyVerif.Generated.Trees
/-!
C08 (population clause) about a whole GP task **as translated on this run**: `Gen.treesProg` (`_create_trees`),
`Gen.updateProg` (`_update`), `Gen.crossLoop`, `Gen.mutLoop` are what the translator read from the working tree.
-/
namespace Opy
open PNode

/-- for every function set, depth budget, number of trees, every tournament outcome, every point drawn, every tree grown
    (proper and fresh when it is grown), every sequence of best-tree records and any number of iterations: the forest of the
    task consists of `n_trees` proper expression trees no two of which share a node, and the best tree shares no node with
    any of them -/
theorem code_gp_task_popOK (cfg : GrowCfg) (k n : Nat) (draws : List Nat) (nid : Nat) (P0 P1 P' : Pop) (bests0 : List Nat)
    (is : List IterInput)
    (h0 : Gen.treesProg.run cfg k n draws nid = some P0)
    (hb : runGPOps cfg.ar P0 (bests0.map GPOp.recordBest) = some P1) (hok : RunOK cfg.ar P1 is)
    (h : gpTask cfg.ar Gen.updateProg Gen.mutLoop Gen.crossLoop P0 bests0 is = some P') :
    PopOK cfg.ar P' ∧ P'.trees.length = n := by
  rw [Gen.treesProg_eq] at h0
  rw [Gen.updateProg_eq, Gen.mutLoop_eq, Gen.crossLoop_eq] at h
  exact gpTask_popOK cfg k n draws nid P0 P1 P' bests0 is h0 hb hok h

end Opy
