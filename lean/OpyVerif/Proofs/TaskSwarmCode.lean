import OpyVerif.Proofs.TaskSwarm
import OpyVerif.Proofs.TaskRunCode
/-!
`task_swarm` about the translated programs: any of the sixteen skeletons (PSO, AIWPSO, RPSO are the ones that use it) with
`PSO._evaluate` as read from the working tree (`Gen.psoSweep`).
-/
namespace Opy
open Task

/-- **C20 for the swarm family about the translated programs.**  From the first sweep on every particle's stored fitness is the
    objective at its stored personal-best position and no particle's recorded fitness ever increases — for every clip loop, box,
    objective, iteration count and every oracle that leaves the personal-best memory alone. -/
theorem code_task_swarm (sk : Skeleton) (hsk : sk ∈ Gen.taskSkeletons) (c : ClipLoop) (lbs ubs : List Int) (o : TaskOracle)
    (hm : KeepsMemory o) (pop : List Ag) (best : Ag) (h0 : ∀ a ∈ pop, ∀ x, o.f x < a.fit) (N : Nat) :
    SwInv o (TaskProg.runTask ⟨sk, c, Gen.psoSweep⟩ lbs ubs o (TaskSt.start pop best) N) :=
  task_swarm ⟨sk, c, Gen.psoSweep⟩ lbs ubs o (code_taskSkeletons_good sk hsk) code_psoSweep_isRule hm pop best h0 N

/-! ### non-vacuity; the model runs (tests) -/
namespace SwarmExample
open TaskExample
/-- objective `x ↦ min x 50` (below the particles' sentinel 100 everywhere); the k-th update moves the only particle to `7 - k` (7, 5 at k = 1, 3 …, then up again); memory untouched -/
def o1 : TaskOracle :=
  { f := fun p => min ((p.head?.bind List.head?).getD 0) 50,
    upd := fun k st => (st.1.map fun a => { a with pos := [[if k = 1 then 3 else 9]] }, st.2),
    hook := fun _ st => st, post := fun _ st => st }
example : KeepsMemory o1 :=
  ⟨fun k st => by simp [o1, memory, List.map_map, Function.comp_def], fun _ _ => rfl, fun _ _ => rfl⟩
example : ∀ a ∈ [a0], ∀ x, o1.f x < a.fit := by
  intro a ha x
  simp only [List.mem_singleton] at ha
  subst ha
  have : o1.f x ≤ 50 := Int.min_le_right _ _
  simp only [a0]; omega
/-- PSO, two iterations: evaluated at 5, 3, 9; the personal best goes 5 → 3 and stays 3 when the particle is at 9 -/
example :
    let s := TaskProg.runTask ⟨Gen.skel_PSO, Gen.searchClip, Gen.psoSweep⟩ [0] [10] o1 (TaskSt.start [a0] b0) 2
    s.evals = [([[5]], 5), ([[3]], 3), ([[9]], 9)] ∧ s.pop.map (fun a => (a.pos, a.tpos, a.fit)) = [([[9]], [[3]], 3)] ∧
      s.dumps.map (fun d => d.1.map (·.2)) = [[3], [3]] ∧ record s.best = ([[3]], 3) := by decide +kernel
end SwarmExample

end Opy
