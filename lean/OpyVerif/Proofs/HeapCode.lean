import OpyVerif.Proofs.Heap
import OpyVerif.Generated.HeapOps
/-!
C09 / C08 about the *translated* `GP._cross` and `GP._mutate`: the field writes read from the current source, run on
the heap of the copied parents, produce the trees of the functional model the operator theorems are about.
-/
namespace Opy
open PNode

/-- the translated `_cross` (its test and its field writes, as read on this run) is `PNode.cross`, for every pair of
    proper parents (copied onto disjoint identities) and every pair of points -/
theorem code_cross {ar : Nat → Nat} (f m : PNode) (pf pm : Nat) (hwf : WF ar f) (hwm : WF ar m)
    (hd : ∀ x ∈ f.ids, x ∉ m.ids) :
    runCross Gen.crossFrame.cond Gen.crossBody f m pf pm = cross f m pf pm := by
  rw [Gen.crossFrame_eq, Gen.crossBody_eq]; exact runCross_is_cross f m pf pm hwf hwm hd

/-- the translated `_mutate` is `PNode.mutate`, for every proper tree, point and freshly grown branch -/
theorem code_mutate {ar : Nat → Nat} (t branch : PNode) (point : Nat) (hwf : WF ar t)
    (hb : branch.ids.Nodup) (hd : ∀ x ∈ t.ids, x ∉ branch.ids) (hne : branch ≠ nil) :
    runMutate Gen.mutFrame.cond Gen.mutateBody t point branch = mutate t point branch := by
  rw [Gen.mutFrame_eq, Gen.mutateBody_eq]; exact runMutate_is_mutate t branch point hwf hb hd hne

end Opy
