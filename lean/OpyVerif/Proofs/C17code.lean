import OpyVerif.Proofs.C17
import OpyVerif.Proofs.Formulas
import OpyVerif.Generated.FormulasC17
/-!
C17 stated about the *translated source*: `benchCode name xs` is the NumPy meaning (over `ℝ`) of the
body of `benchmark.<name>` as `harness/translate_formulas.py` read it from the current working tree
(`Generated/FormulasDefs.lean`).  Each theorem composes three facts: the regenerated equality
"source = expected expression" (`Generated/FormulasC17.lean`, re-decided on every build), the
denotation theorem of `Proofs/Formulas.lean` (expected expression = model, all inputs), and the
real-number theorem of `Proofs/C17.lean` about the model.  A change to a benchmark body therefore
breaks the first link and with it every theorem below that mentions the function.
-/
set_option linter.unusedVariables false
namespace Opy
open RealElem

/-- the value of `benchmark.<name>` at `xs`, as the current source defines it -/
noncomputable def benchCode (name : String) (xs : List ℝ) : Option (FVal ℝ) :=
  (Gen.benchExprs.lookup name).map (·.denote (fun _ => 0) xs)

/-! ## the source computes the documented closed form (all 17 functions, every input) -/

theorem code_ackley1 (xs : List ℝ) : benchCode "ackley1" xs = some (.s (ackley1 xs)) := by
  unfold benchCode; rw [Gen.bench_ackley1_eq]; exact d_ackley1 _ xs

theorem code_alpine1 (xs : List ℝ) : benchCode "alpine1" xs = some (.s (alpine1 xs)) := by
  unfold benchCode; rw [Gen.bench_alpine1_eq]; exact d_alpine1 _ xs

theorem code_alpine2 (xs : List ℝ) : benchCode "alpine2" xs = some (.s (alpine2 xs)) := by
  unfold benchCode; rw [Gen.bench_alpine2_eq]; exact d_alpine2 _ xs

theorem code_brown (xs : List ℝ) : benchCode "brown" xs = some (.s (brown xs)) := by
  unfold benchCode; rw [Gen.bench_brown_eq]; exact d_brown _ xs

theorem code_chung_reynolds (xs : List ℝ) : benchCode "chung_reynolds" xs = some (.s (chung_reynolds xs)) := by
  unfold benchCode; rw [Gen.bench_chung_reynolds_eq]; exact d_chung_reynolds _ xs

theorem code_cosine_mixture (xs : List ℝ) : benchCode "cosine_mixture" xs = some (.s (cosine_mixture xs)) := by
  unfold benchCode; rw [Gen.bench_cosine_mixture_eq]; exact d_cosine_mixture _ xs

theorem code_csendes (xs : List ℝ) : benchCode "csendes" xs = some (.s (csendes xs)) := by
  unfold benchCode; rw [Gen.bench_csendes_eq]; exact d_csendes _ xs

theorem code_deb1 (xs : List ℝ) : benchCode "deb1" xs = some (.s (deb1 xs)) := by
  unfold benchCode; rw [Gen.bench_deb1_eq]; exact d_deb1 _ xs

theorem code_deb2 (xs : List ℝ) : benchCode "deb2" xs = some (.s (deb2 xs)) := by
  unfold benchCode; rw [Gen.bench_deb2_eq]; exact d_deb2 _ xs

theorem code_exponential (xs : List ℝ) : benchCode "exponential" xs = some (.s (exponential xs)) := by
  unfold benchCode; rw [Gen.bench_exponential_eq]; exact d_exponential _ xs

theorem code_quintic (xs : List ℝ) : benchCode "quintic" xs = some (.s (quintic xs)) := by
  unfold benchCode; rw [Gen.bench_quintic_eq]; exact d_quintic _ xs

theorem code_rastringin (xs : List ℝ) : benchCode "rastringin" xs = some (.s (rastringin xs)) := by
  unfold benchCode; rw [Gen.bench_rastringin_eq]; exact d_rastringin _ xs

theorem code_salomon (xs : List ℝ) : benchCode "salomon" xs = some (.s (salomon xs)) := by
  unfold benchCode; rw [Gen.bench_salomon_eq]; exact d_salomon _ xs

theorem code_schumer_steiglitz (xs : List ℝ) : benchCode "schumer_steiglitz" xs = some (.s (schumer_steiglitz xs)) := by
  unfold benchCode; rw [Gen.bench_schumer_steiglitz_eq]; exact d_schumer_steiglitz _ xs

theorem code_schwefel (xs : List ℝ) : benchCode "schwefel" xs = some (.s (schwefel xs)) := by
  unfold benchCode; rw [Gen.bench_schwefel_eq]; exact d_schwefel _ xs

theorem code_sphere (xs : List ℝ) : benchCode "sphere" xs = some (.s (sphere xs)) := by
  unfold benchCode; rw [Gen.bench_sphere_eq]; exact d_sphere _ xs

theorem code_styblinski_tang (xs : List ℝ) : benchCode "styblinski_tang" xs = some (.s (styblinski_tang xs)) := by
  unfold benchCode; rw [Gen.bench_styblinski_tang_eq]; exact d_styblinski_tang _ xs

/-! ## lower bounds and minimisers, about the source -/

theorem code_sphere_lower_bound (xs : List ℝ) :
    ∃ y, benchCode "sphere" xs = some (.s y) ∧ 0 ≤ y :=
  ⟨_, code_sphere xs, sphere_lower_bound xs⟩

theorem code_sphere_at_minimiser (n : ℕ) :
    benchCode "sphere" (List.replicate n (0 : ℝ)) = some (.s (0)) := by
  rw [code_sphere, sphere_at_minimiser n]

theorem code_chung_reynolds_lower_bound (xs : List ℝ) :
    ∃ y, benchCode "chung_reynolds" xs = some (.s y) ∧ 0 ≤ y :=
  ⟨_, code_chung_reynolds xs, chung_reynolds_lower_bound xs⟩

theorem code_chung_reynolds_at_minimiser (n : ℕ) :
    benchCode "chung_reynolds" (List.replicate n (0 : ℝ)) = some (.s (0)) := by
  rw [code_chung_reynolds, chung_reynolds_at_minimiser n]

theorem code_schumer_steiglitz_lower_bound (xs : List ℝ) :
    ∃ y, benchCode "schumer_steiglitz" xs = some (.s y) ∧ 0 ≤ y :=
  ⟨_, code_schumer_steiglitz xs, schumer_steiglitz_lower_bound xs⟩

theorem code_schumer_steiglitz_at_minimiser (n : ℕ) :
    benchCode "schumer_steiglitz" (List.replicate n (0 : ℝ)) = some (.s (0)) := by
  rw [code_schumer_steiglitz, schumer_steiglitz_at_minimiser n]

theorem code_rastringin_lower_bound (xs : List ℝ) :
    ∃ y, benchCode "rastringin" xs = some (.s y) ∧ 0 ≤ y :=
  ⟨_, code_rastringin xs, rastringin_lower_bound xs⟩

theorem code_rastringin_at_minimiser (n : ℕ) :
    benchCode "rastringin" (List.replicate n (0 : ℝ)) = some (.s (0)) := by
  rw [code_rastringin, rastringin_at_minimiser n]

theorem code_alpine1_lower_bound (xs : List ℝ) :
    ∃ y, benchCode "alpine1" xs = some (.s y) ∧ 0 ≤ y :=
  ⟨_, code_alpine1 xs, alpine1_lower_bound xs⟩

theorem code_alpine1_at_minimiser (n : ℕ) :
    benchCode "alpine1" (List.replicate n (0 : ℝ)) = some (.s (0)) := by
  rw [code_alpine1, alpine1_at_minimiser n]

theorem code_salomon_lower_bound (xs : List ℝ) :
    ∃ y, benchCode "salomon" xs = some (.s y) ∧ 0 ≤ y :=
  ⟨_, code_salomon xs, salomon_lower_bound xs⟩

theorem code_salomon_at_minimiser (n : ℕ) :
    benchCode "salomon" (List.replicate n (0 : ℝ)) = some (.s (0)) := by
  rw [code_salomon, salomon_at_minimiser n]

theorem code_brown_lower_bound (xs : List ℝ) :
    ∃ y, benchCode "brown" xs = some (.s y) ∧ 0 ≤ y :=
  ⟨_, code_brown xs, brown_lower_bound xs⟩

theorem code_brown_at_minimiser (n : ℕ) :
    benchCode "brown" (List.replicate n (0 : ℝ)) = some (.s (0)) := by
  rw [code_brown, brown_at_minimiser n]

theorem code_exponential_lower_bound (xs : List ℝ) :
    ∃ y, benchCode "exponential" xs = some (.s y) ∧ -1 ≤ y :=
  ⟨_, code_exponential xs, exponential_lower_bound xs⟩

theorem code_exponential_at_minimiser (n : ℕ) :
    benchCode "exponential" (List.replicate n (0 : ℝ)) = some (.s (-1)) := by
  rw [code_exponential, exponential_at_minimiser n]

theorem code_ackley1_lower_bound (xs : List ℝ) (hn : 1 ≤ xs.length) :
    ∃ y, benchCode "ackley1" xs = some (.s y) ∧ 0 ≤ y :=
  ⟨_, code_ackley1 xs, ackley1_lower_bound xs hn⟩

theorem code_ackley1_at_minimiser (n : ℕ) (hn : 1 ≤ n) :
    benchCode "ackley1" (List.replicate n (0 : ℝ)) = some (.s (0)) := by
  rw [code_ackley1, ackley1_at_minimiser n hn]

theorem code_quintic_lower_bound (xs : List ℝ) :
    ∃ y, benchCode "quintic" xs = some (.s y) ∧ 0 ≤ y :=
  ⟨_, code_quintic xs, quintic_lower_bound xs⟩

theorem code_quintic_at_minimiser (n : ℕ) :
    benchCode "quintic" (List.replicate n (-1 : ℝ)) = some (.s 0) ∧
    benchCode "quintic" (List.replicate n (2 : ℝ)) = some (.s 0) := by
  rw [code_quintic, code_quintic, (quintic_at_minimiser n).1, (quintic_at_minimiser n).2]; exact ⟨rfl, rfl⟩

theorem code_deb1_lower_bound (xs : List ℝ) (hn : 1 ≤ xs.length) :
    ∃ y, benchCode "deb1" xs = some (.s y) ∧ -1 ≤ y :=
  ⟨_, code_deb1 xs, deb1_lower_bound xs hn⟩

theorem code_deb1_at_minimiser (n : ℕ) (hn : 1 ≤ n) :
    benchCode "deb1" (List.replicate n (0.1 : ℝ)) = some (.s (-1)) := by
  rw [code_deb1, deb1_at_minimiser n hn]

theorem code_csendes_lower_bound (xs : List ℝ) (hx : ∀ v ∈ xs, v ≠ 0) :
    ∃ y, benchCode "csendes" xs = some (.s y) ∧ 0 ≤ y :=
  ⟨_, code_csendes xs, csendes_lower_bound xs hx⟩

theorem code_deb2_lower_bound (xs : List ℝ) (hn : 1 ≤ xs.length) (hx : ∀ v ∈ xs, 0 ≤ v) :
    ∃ y, benchCode "deb2" xs = some (.s y) ∧ -1 ≤ y :=
  ⟨_, code_deb2 xs, deb2_lower_bound xs hn hx⟩

theorem code_deb2_at_minimiser (n : ℕ) (hn : 1 ≤ n) :
    benchCode "deb2" (List.replicate n ((0.15 : ℝ) ^ (4 / 3 : ℝ))) = some (.s (-1)) := by
  rw [code_deb2, deb2_at_minimiser n hn]

/-- non-vacuity: the translated `sphere` at a concrete point -/
example : benchCode "sphere" [1, 2] = some (.s 5) := by
  rw [code_sphere, sphere_closed_form]; norm_num

end Opy
