import OpyVerif.Proofs.Forest
import OpyVerif.Model.TreesProg
/-!
C08 (construction clause): the forest a tree space starts with.
-/
namespace Opy
open PNode

theorem treesProg_run (cfg : GrowCfg) (k n : Nat) (draws : List Nat) (nid : Nat) :
    Expected.treesProg.run cfg k n draws nid =
      match growMany cfg k n draws nid with
      | some (t0 :: ts, _, m) => some ⟨t0 :: ts, shift m t0, 2 * m⟩
      | _ => none := by
  simp only [TreesProg.run, TreesProg.wellFormed, Expected.treesProg]
  rfl

theorem growMany_length (cfg : GrowCfg) (k : Nat) : ∀ (n : Nat) (ds : List Nat) (nid : Nat) (ts : List PNode) (d : List Nat) (m : Nat),
    growMany cfg k n ds nid = some (ts, d, m) → ts.length = n := by
  intro n
  induction n with
  | zero => intro ds nid ts d m h; simp only [growMany, Option.some.injEq, Prod.mk.injEq] at h; rw [← h.1]; rfl
  | succ n ih =>
    intro ds nid ts d m h
    simp only [growMany] at h
    cases hg : PNode.grow cfg k ds nid with
    | none => simp [hg] at h
    | some r =>
      obtain ⟨t, ds', nid'⟩ := r
      simp only [hg] at h
      cases hm : growMany cfg k n ds' nid' with
      | none => simp [hm] at h
      | some r2 =>
        obtain ⟨ts', d', m'⟩ := r2
        simp only [hm, Option.some.injEq, Prod.mk.injEq] at h
        rw [← h.1, List.length_cons, ih ds' nid' ts' d' m' hm]

/-- **the initial forest**: `n_trees` proper trees no two of which share a node, and a best tree that is a proper tree
    sharing no node with any of them -/
theorem treesProg_popOK (cfg : GrowCfg) (k n : Nat) (draws : List Nat) (nid : Nat) (P : Pop)
    (h : Expected.treesProg.run cfg k n draws nid = some P) :
    PopOK cfg.ar P ∧ P.trees.length = n ∧ P.best ≠ nil ∧ 0 < n := by
  rw [treesProg_run] at h
  cases hg : growMany cfg k n draws nid with
  | none => simp [hg] at h
  | some r =>
    obtain ⟨ts, d, m⟩ := r
    cases ts with
    | nil => simp [hg] at h
    | cons t0 ts =>
      simp only [hg, Option.some.injEq] at h
      subst h
      obtain ⟨hle, hwf, hr, hd⟩ := growMany_spec cfg k n draws nid (t0 :: ts) d m hg
      have hlen := growMany_length cfg k n draws nid (t0 :: ts) d m hg
      have h0 : t0 ∈ t0 :: ts := List.mem_cons_self
      have hr0 := shift_ids_range (k := m) (n := m) (fun x hx => (hr t0 h0 x hx).2)
      have hne : shift m t0 ≠ nil := by
        intro e
        have := (shift_wf (k := m) (hwf t0 h0)).1
        exact this e
      refine ⟨⟨hwf, fun t ht x hx => by have := (hr t ht x hx).2; show x < 2 * m; omega, hd,
        Or.inr ⟨shift_wf (hwf t0 h0), fun x hx => by have := hr0 x hx; show x < 2 * m; omega, ?_⟩⟩, hlen, hne, by
          simp only [List.length_cons] at hlen; omega⟩
      intro t ht x hx hx'
      have := hr0 x hx
      have := (hr t ht x hx').2
      omega

/-- non-vacuity: the forest of `Proofs/Forest.lean` with its best tree -/
example : ((Expected.treesProg.run cfgE 2 3 drawsE 1).map fun P => (P.trees.map PNode.size, P.best.size, P.next)) = some ([3, 2, 5], 3, 22) := by
  decide

/-- one tree object repeated is representable and is not a proper forest: two slots share every node -/
example : ((({ Expected.treesProg with listKind := .repeated } : TreesProg).run cfgE 2 2 drawsE 1).map
    fun P => P.trees.map (·.ids)) = some [[1, 2, 3], [1, 2, 3]] := by decide

end Opy
