import OpyVerif.Proofs.Lemmas.RealLemmas
import Mathlib.Algebra.Order.Floor.Ring
import Mathlib.Algebra.Order.Archimedean.Real.Basic
/-!
C18 (real part) — the random primitives as functions of the unit / standard draw they consume:
range of `uniform`, affinity of `normal`, symmetries and definedness of the Lévy step, range of the
integer index draw `int(np.random.uniform(low, high))`.
The formulas are the ones of `Model/Num.lean`, instantiated at `ℝ`.
-/
set_option linter.unusedVariables false
namespace Opy

/-- a unit draw `u ∈ [0,1)` lands in `[low, high)` -/
theorem uniformAffine_mem (low high u : ℝ) (hlh : low < high) (hu0 : 0 ≤ u) (hu1 : u < 1) :
    low ≤ uniformAffine low high u ∧ uniformAffine low high u < high := by
  rw [uniformAffine_real]
  have hd : 0 < high - low := sub_pos.mpr hlh
  constructor
  · have := mul_nonneg hd.le hu0; linarith
  · have := mul_lt_mul_of_pos_left hu1 hd; linarith

/-- `normal(mu, sd)` is the affine image of the standard draw; scaling `sd` scales the deviation -/
theorem normalAffine_affine (mu sd z c : ℝ) :
    normalAffine mu sd z = mu + sd * z ∧ normalAffine mu sd z - mu = sd * z ∧
      normalAffine mu (c * sd) z - mu = c * (normalAffine mu sd z - mu) := by
  rw [normalAffine_real, normalAffine_real]
  refine ⟨rfl, ?_, ?_⟩ <;> ring

/-- the Lévy step unfolded: `g1 * sigma / |g2| ^ (1/beta)` -/
theorem levyStep_eq (beta g1 g2 : ℝ) :
    levyStep beta g1 g2 = g1 * levySigma beta / |g2| ^ (1 / beta) :=
  levyStep_real beta g1 g2

/-- Mantegna's `sigma` unfolded -/
theorem levySigma_eq (beta : ℝ) :
    levySigma beta =
      ((Real.Gamma (1 + beta) * Real.sin (Real.pi * beta / 2)) /
        (Real.Gamma ((1 + beta) / 2) * beta * (2 : ℝ) ^ ((beta - 1) / 2))) ^ (1 / beta) :=
  levySigma_real beta

/-- odd in the numerator draw -/
theorem levyStep_odd_u (beta g1 g2 : ℝ) : levyStep beta (-g1) g2 = -levyStep beta g1 g2 := by
  rw [levyStep_real, levyStep_real]; ring

/-- even in the denominator draw -/
theorem levyStep_even_v (beta g1 g2 : ℝ) : levyStep beta g1 (-g2) = levyStep beta g1 g2 := by
  rw [levyStep_real, levyStep_real, abs_neg]

/-- the denominator is positive (so the division is defined) as soon as `g2 ≠ 0` -/
theorem levyStep_defined (beta g2 : ℝ) (hg : g2 ≠ 0) (hb : 0 < beta) : |g2| ^ (1 / beta) > 0 :=
  Real.rpow_pos_of_pos (abs_pos.mpr hg) _

/-- `int(np.random.uniform(low, high))` for integer `low < high`: the floor lies in `[low, high-1]` -/
theorem index_draw_range (low high : ℤ) (u : ℝ) (hlh : low < high) (hu0 : 0 ≤ u) (hu1 : u < 1) :
    low ≤ ⌊(low : ℝ) + ((high : ℝ) - (low : ℝ)) * u⌋ ∧
      ⌊(low : ℝ) + ((high : ℝ) - (low : ℝ)) * u⌋ ≤ high - 1 := by
  have hlh' : (low : ℝ) < (high : ℝ) := by exact_mod_cast hlh
  have hd : 0 < (high : ℝ) - (low : ℝ) := sub_pos.mpr hlh'
  have h0 := mul_nonneg hd.le hu0
  have h1 := mul_lt_mul_of_pos_left hu1 hd
  constructor
  · rw [Int.le_floor]; linarith
  · have : ⌊(low : ℝ) + ((high : ℝ) - (low : ℝ)) * u⌋ < high := by
      rw [Int.floor_lt]; linarith
    omega

/-- the same through the Model formula -/
theorem index_draw_range_uniformAffine (low high : ℤ) (u : ℝ) (hlh : low < high) (hu0 : 0 ≤ u)
    (hu1 : u < 1) :
    low ≤ ⌊uniformAffine (low : ℝ) (high : ℝ) u⌋ ∧ ⌊uniformAffine (low : ℝ) (high : ℝ) u⌋ ≤ high - 1 := by
  rw [uniformAffine_real]; exact index_draw_range low high u hlh hu0 hu1

/-! ### the primitives as functions of the draw: direction, end point, degenerate ranges -/

/-- the smallest unit draw gives `low` exactly -/
theorem uniformAffine_zero (low high : ℝ) : uniformAffine low high 0 = low := by
  rw [uniformAffine_real]; ring

/-- a degenerate range `low = high` gives `low` whatever the draw (the `[low, high)` contract is empty there) -/
theorem uniformAffine_degenerate (low u : ℝ) : uniformAffine low low u = low := by
  rw [uniformAffine_real]; ring

/-- for `low ≤ high` the result is non-decreasing in the unit draw (a fixed stream gives coupled samples) -/
theorem uniformAffine_mono (low high u u' : ℝ) (hlh : low ≤ high) (hu : u ≤ u') :
    uniformAffine low high u ≤ uniformAffine low high u' := by
  rw [uniformAffine_real, uniformAffine_real]
  have := mul_le_mul_of_nonneg_left hu (sub_nonneg.mpr hlh)
  linarith

/-- for a fixed draw the result moves with the bounds: widening the range upwards never lowers the sample -/
theorem uniformAffine_mono_high (low high high' u : ℝ) (hh : high ≤ high') (hu0 : 0 ≤ u) :
    uniformAffine low high u ≤ uniformAffine low high' u := by
  rw [uniformAffine_real, uniformAffine_real]
  have := mul_le_mul_of_nonneg_right (sub_le_sub_right hh low) hu0
  linarith

/-- the closed interval version that holds for `low ≤ high` and `u ∈ [0, 1]` (what the callers rely on when they
    draw positions between bounds that may coincide) -/
theorem uniformAffine_mem_closed (low high u : ℝ) (hlh : low ≤ high) (hu0 : 0 ≤ u) (hu1 : u ≤ 1) :
    low ≤ uniformAffine low high u ∧ uniformAffine low high u ≤ high := by
  rw [uniformAffine_real]
  have hd : 0 ≤ high - low := sub_nonneg.mpr hlh
  constructor
  · have := mul_nonneg hd hu0; linarith
  · have := mul_le_mul_of_nonneg_left hu1 hd; linarith

/-- the standard draw `0` gives the mean; deviation `0` gives the mean whatever the draw -/
theorem normalAffine_centre (mu sd z : ℝ) : normalAffine mu sd 0 = mu ∧ normalAffine mu 0 z = mu := by
  rw [normalAffine_real, normalAffine_real]; constructor <;> ring

/-- shifting the mean shifts the sample; for `sd ≥ 0` the sample is non-decreasing in the standard draw -/
theorem normalAffine_shift_mono (mu sd z z' c : ℝ) (hsd : 0 ≤ sd) (hz : z ≤ z') :
    normalAffine (mu + c) sd z = normalAffine mu sd z + c ∧ normalAffine mu sd z ≤ normalAffine mu sd z' := by
  rw [normalAffine_real, normalAffine_real, normalAffine_real]
  refine ⟨by ring, ?_⟩
  have := mul_le_mul_of_nonneg_left hz hsd
  linarith

/-! satisfiability of the hypotheses, on concrete numbers -/

example : (-5 : ℝ) < 5 ∧ (0 : ℝ) ≤ 0.25 ∧ (0.25 : ℝ) < 1 := by norm_num
example : uniformAffine (-5 : ℝ) 5 0 = -5 := by rw [uniformAffine_real]; norm_num
example : (2 : ℝ) ≠ 0 ∧ (0 : ℝ) < 1.5 := by norm_num
example : (0 : ℤ) < 10 ∧ (0 : ℝ) ≤ 0.999 ∧ (0.999 : ℝ) < 1 := by norm_num
example : ⌊((0 : ℤ) : ℝ) + (((10 : ℤ) : ℝ) - ((0 : ℤ) : ℝ)) * 0.999⌋ = 9 := by
  rw [Int.floor_eq_iff]; norm_num

#print axioms uniformAffine_mem
#print axioms normalAffine_affine
#print axioms levyStep_eq
#print axioms levySigma_eq
#print axioms levyStep_odd_u
#print axioms levyStep_even_v
#print axioms levyStep_defined
#print axioms index_draw_range
#print axioms index_draw_range_uniformAffine
#print axioms uniformAffine_zero
#print axioms uniformAffine_degenerate
#print axioms uniformAffine_mono
#print axioms uniformAffine_mono_high
#print axioms uniformAffine_mem_closed
#print axioms normalAffine_centre
#print axioms normalAffine_shift_mono

end Opy
