import OpyVerif.Proofs.GrowProg
import OpyVerif.Proofs.C08grow
import OpyVerif.Generated.Grow
/-!
C08 (freshly grown trees) about the *translated* `TreeSpace.grow`.
-/
namespace Opy
open PNode

/-- the translated method is the model `grow`, for every configuration, depth budget, draws and identity counter -/
theorem code_grow (cfg : GrowCfg) (k : Nat) (ds : List Nat) (nid : Nat) :
    Gen.growProg.run cfg k ds nid = grow cfg k ds nid := by
  rw [Gen.growProg_eq]; exact growProg_is_grow cfg k ds nid

/-- C08, grown trees, for the code as translated on this run: whatever `grow` returns is a proper expression tree, no
    deeper than the budget `k = max_depth - min_depth`, on fresh identities -/
theorem code_grow_wf {cfg : GrowCfg} {k : Nat} {ds ds' : List Nat} {nid nid' : Nat} {t : PNode}
    (h : Gen.growProg.run cfg k ds nid = some (t, ds', nid')) :
    WF cfg.ar t ∧ t.maxD ≤ k ∧ (∀ x ∈ t.ids, nid ≤ x ∧ x < nid') := by
  rw [code_grow] at h
  exact ⟨grow_wf h, grow_depth_le h, (grow_ids_fresh h).1⟩

end Opy
