import OpyVerif.Proofs.PersistProg
import OpyVerif.Generated.Persist
/-!
C19 (save / load clause) about the *translated* `History.save` / `History.load`.
-/
namespace Opy

/-- `save(name)` then `load(name)` returns what was saved, for every file system state and every name -/
theorem code_load_after_save {α : Type} (fs : FS α) (name : String) (a : α) :
    ∃ fs', Gen.saveProg.run fs name a = some fs' ∧ Gen.loadProg.run fs' name = some a := by
  rw [Gen.saveProg_eq, Gen.loadProg_eq]
  exact ⟨_, saveProg_run fs name a, by rw [loadProg_run, FS.read_write_same]⟩

/-- histories saved side by side under different names do not disturb one another -/
theorem code_load_after_two_saves {α : Type} (fs : FS α) (n1 n2 : String) (a b : α) (h : n1 ≠ n2) :
    ∃ fs1 fs2, Gen.saveProg.run fs n1 a = some fs1 ∧ Gen.saveProg.run fs1 n2 b = some fs2 ∧
      Gen.loadProg.run fs2 n1 = some a ∧ Gen.loadProg.run fs2 n2 = some b := by
  rw [Gen.saveProg_eq, Gen.loadProg_eq]; exact load_after_two_saves fs n1 n2 a b h

/-- … for any number of saves: `load(name)` is the last thing saved under exactly that name -/
theorem code_load_after_saves {α : Type} (fs : FS α) (name : String) (saves : List (String × α)) :
    Gen.loadProg.run (saveAll fs saves) name = (lastSaved name saves).or (fs.read name) := by
  rw [Gen.loadProg_eq, loadProg_run]; exact read_saveAll name saves fs

end Opy
