import OpyVerif.Model.SweepProg
/-!
The expected sweep loops are the machine's sweep rule: for every agent, best agent, objective value and
storage identity.  (`tie := false`: the code replaces the best on strict improvement only; the machine also
accepts implementations that take ties, which is why its rule has the flag.)
-/
namespace Opy

theorem genericSweep_is_machine_rule (cfg : Cfg) (hs : cfg.swarm = false) (a best : Ag) (v : Int) (fresh : Nat) (tp : Pos) :
    Expected.genericSweep.body cfg.lbs cfg.ubs tp v fresh a best =
      (sweepAgent cfg a v, if takes best (sweepAgent cfg a v) false then bestOf (sweepAgent cfg a v) fresh else best) := by
  by_cases h : v < best.fit <;>
    simp [SweepLoop.body, Expected.genericSweep, SweepStep.run, sweepAgent, hs, takes, bestOf, Cmp.eval, h]

theorem psoSweep_is_machine_rule (cfg : Cfg) (hs : cfg.swarm = true) (a best : Ag) (v : Int) (fresh : Nat) (tp : Pos) :
    Expected.psoSweep.body cfg.lbs cfg.ubs tp v fresh a best =
      (sweepAgent cfg a v, if takes best (sweepAgent cfg a v) false then bestOf (sweepAgent cfg a v) fresh else best) := by
  by_cases h : v < a.fit <;> by_cases h2 : v < best.fit <;> by_cases h3 : a.fit < best.fit <;>
    simp [SweepLoop.body, Expected.psoSweep, SweepStep.run, sweepAgent, hs, takes, bestOf, Cmp.eval, h, h2, h3]

/-- GP: the agent's position becomes the tree's value limited to the bounds, the objective is applied there;
    afterwards exactly the generic rule (the machine's GP agents carry `clip(value(tree))` as their position) -/
theorem gpSweep_is_machine_rule (cfg : Cfg) (hs : cfg.swarm = false) (a best : Ag) (v : Int) (fresh : Nat) (tp : Pos) :
    Expected.gpSweep.body cfg.lbs cfg.ubs tp v fresh a best =
      (let a0 := { a with pos := clipPos cfg.lbs cfg.ubs tp }
       (sweepAgent cfg a0 v, if takes best (sweepAgent cfg a0 v) false then bestOf (sweepAgent cfg a0 v) fresh else best)) := by
  by_cases h : v < best.fit <;>
    simp [SweepLoop.body, Expected.gpSweep, SweepStep.run, sweepAgent, hs, takes, bestOf, Cmp.eval, h]

/-! the `<=` variants are the machine rule with the tie flag set -/

theorem takes_tie (best a' : Ag) : takes best a' true = decide (a'.fit ≤ best.fit) := by
  unfold takes
  by_cases h1 : a'.fit < best.fit
  · have : a'.fit ≤ best.fit := Int.le_of_lt h1
    simp [h1, this]
  · by_cases h2 : a'.fit = best.fit
    · simp [h2]
    · have : ¬ a'.fit ≤ best.fit := by omega
      simp [h1, h2, this]

theorem genericSweepLe_is_machine_rule (cfg : Cfg) (hs : cfg.swarm = false) (a best : Ag) (v : Int) (fresh : Nat) (tp : Pos) :
    Expected.genericSweepLe.body cfg.lbs cfg.ubs tp v fresh a best =
      (sweepAgent cfg a v, if takes best (sweepAgent cfg a v) true then bestOf (sweepAgent cfg a v) fresh else best) := by
  by_cases h : v < best.fit <;> by_cases h2 : v = best.fit <;>
    simp [SweepLoop.body, Expected.genericSweepLe, Expected.genericSweep, SweepStep.run, sweepAgent, hs, takes, bestOf, Cmp.eval, Int.le_iff_lt_or_eq, h, h2]

theorem psoSweepLe_is_machine_rule (cfg : Cfg) (hs : cfg.swarm = true) (a best : Ag) (v : Int) (fresh : Nat) (tp : Pos) :
    Expected.psoSweepLe.body cfg.lbs cfg.ubs tp v fresh a best =
      (sweepAgent cfg a v, if takes best (sweepAgent cfg a v) true then bestOf (sweepAgent cfg a v) fresh else best) := by
  rw [takes_tie]
  by_cases h : v < a.fit
  · by_cases h2 : v ≤ best.fit <;>
      simp [SweepLoop.body, Expected.psoSweepLe, Expected.psoSweep, SweepStep.run, sweepAgent, hs, bestOf, Cmp.eval, h, h2]
  · by_cases h2 : a.fit ≤ best.fit <;>
      simp [SweepLoop.body, Expected.psoSweepLe, Expected.psoSweep, SweepStep.run, sweepAgent, hs, bestOf, Cmp.eval, h, h2]

theorem gpSweepLe_is_machine_rule (cfg : Cfg) (hs : cfg.swarm = false) (a best : Ag) (v : Int) (fresh : Nat) (tp : Pos) :
    Expected.gpSweepLe.body cfg.lbs cfg.ubs tp v fresh a best =
      (let a0 := { a with pos := clipPos cfg.lbs cfg.ubs tp }
       (sweepAgent cfg a0 v, if takes best (sweepAgent cfg a0 v) true then bestOf (sweepAgent cfg a0 v) fresh else best)) := by
  by_cases h : v < best.fit <;> by_cases h2 : v = best.fit <;>
    simp [SweepLoop.body, Expected.gpSweepLe, Expected.gpSweep, SweepStep.run, sweepAgent, hs, takes, bestOf, Cmp.eval, Int.le_iff_lt_or_eq, h, h2]

/-- every sweep calls the objective exactly once per agent -/
theorem sweeps_eval_once :
    Expected.genericSweep.evalsOnce = true ∧ Expected.psoSweep.evalsOnce = true ∧ Expected.gpSweep.evalsOnce = true := by
  decide

/-- after a generic / GP round the agent's record is truthful: its fitness is the value returned for its position -/
theorem genericSweep_truthful (cfg : Cfg) (hs : cfg.swarm = false) (a best : Ag) (v : Int) (fresh : Nat) (tp : Pos) :
    (Expected.genericSweep.body cfg.lbs cfg.ubs tp v fresh a best).1.fit = v ∧
    (Expected.genericSweep.body cfg.lbs cfg.ubs tp v fresh a best).1.tpos = a.pos := by
  by_cases h : v < best.fit <;> simp [SweepLoop.body, Expected.genericSweep, SweepStep.run, Cmp.eval, h]

/-- the best agent never gets worse in a round, and when it changes it takes the agent's pair in fresh storage -/
theorem genericSweep_best (cfg : Cfg) (a best : Ag) (v : Int) (fresh : Nat) (tp : Pos) :
    let r := Expected.genericSweep.body cfg.lbs cfg.ubs tp v fresh a best
    r.2.fit ≤ best.fit ∧ (r.2 ≠ best → r.2.fit = v ∧ r.2.pos = a.pos ∧ r.2.ref = fresh) := by
  by_cases h : v < best.fit <;>
    simp [SweepLoop.body, Expected.genericSweep, SweepStep.run, Cmp.eval, h] <;> omega

end Opy
