import OpyVerif.Model.BfsProg
/-!
The expected reading of `_properties` computes `PNode.properties` (the model `Proofs/C11.properties_eq`
speaks about), for every tree.  Core Lean only.
-/
namespace Opy
open PNode

theorem kids_ne_nil (n : PNode) : ∀ k ∈ n.kids, k ≠ nil := by
  cases n with
  | nil => simp [kids]
  | mk i lb p f l r =>
    intro k hk
    simp only [kids, List.mem_append] at hk
    rcases hk with hk | hk
    · cases l <;> simp_all [isNil]
    · cases r <;> simp_all [isNil]

/-- one round of the `for` body is one step of `level` -/
theorem perNode_step (n : PNode) (hn : n ≠ nil) (s : BState) :
    Expected.bfsProg.perNode.run n s =
      ⟨if n.childless && s.minD == 0 then s.maxD.toNat else s.minD, s.maxD,
       if n.childless then s.leaves + 1 else s.leaves, s.nodes + 1, s.next ++ n.kids⟩ := by
  cases n with
  | nil => exact absurd rfl hn
  | mk i lb p f l r =>
    cases l <;> cases r <;> by_cases h0 : s.minD = 0 <;>
      simp [Expected.bfsProg, BStmt.run, BCond.eval, childless, kids, isNil, leftOf, rightOf, h0]

theorem level_next_ne_nil (d : Nat) (nodes : List PNode) (acc : Nat × Nat × Nat × List PNode)
    (h : ∀ k ∈ acc.2.2.2, k ≠ nil) : ∀ k ∈ (level d nodes acc).2.2.2, k ≠ nil := by
  induction nodes generalizing acc with
  | nil => simpa [level] using h
  | cons n ns ih =>
    obtain ⟨a, b, c, nx⟩ := acc
    simp only [level]
    apply ih
    intro k hk
    simp only [List.mem_append] at hk
    rcases hk with hk | hk
    · exact h k hk
    · exact kids_ne_nil n k hk

theorem fold_is_level (nodes : List PNode) (hnn : ∀ n ∈ nodes, n ≠ nil) (s : BState) :
    nodes.foldl (fun acc n => Expected.bfsProg.perNode.run n acc) s =
      (let r := level s.maxD.toNat nodes (s.minD, s.leaves, s.nodes, s.next)
       ⟨r.1, s.maxD, r.2.1, r.2.2.1, r.2.2.2⟩) := by
  induction nodes generalizing s with
  | nil => simp [level]
  | cons n ns ih =>
    have hn := hnn n (by simp)
    have hns : ∀ m ∈ ns, m ≠ nil := fun m hm => hnn m (by simp [hm])
    simp only [List.foldl_cons, perNode_step n hn s, ih hns, level]

theorem loop_is_bfs (fuel : Nat) (nodes : List PNode) (hnn : ∀ n ∈ nodes, n ≠ nil) (s : BState) :
    (let r := Expected.bfsProg.loop fuel nodes s; (⟨r.minD, r.maxD, r.leaves, r.nodes⟩ : Props)) =
      bfs fuel nodes s.maxD s.minD s.leaves s.nodes := by
  induction fuel generalizing nodes s with
  | zero => simp [BfsProg.loop, bfs]
  | succ k ih =>
    cases nodes with
    | nil => simp [BfsProg.loop, bfs]
    | cons n ns =>
      simp only [BfsProg.loop, bfs]
      have hl : Expected.bfsProg.perLevel.run nil { s with next := [] } = ⟨s.minD, s.maxD + 1, s.leaves, s.nodes, []⟩ := by
        simp [Expected.bfsProg, BStmt.run]
      rw [hl, fold_is_level (n :: ns) hnn]
      have hsw : Expected.bfsProg.swaps = true := rfl
      simp only [hsw, if_true]
      have hnext := level_next_ne_nil (s.maxD + 1).toNat (n :: ns) (s.minD, s.leaves, s.nodes, []) (by simp)
      have := ih _ hnext ⟨(level (s.maxD + 1).toNat (n :: ns) (s.minD, s.leaves, s.nodes, [])).1, s.maxD + 1,
        (level (s.maxD + 1).toNat (n :: ns) (s.minD, s.leaves, s.nodes, [])).2.1,
        (level (s.maxD + 1).toNat (n :: ns) (s.minD, s.leaves, s.nodes, [])).2.2.1,
        (level (s.maxD + 1).toNat (n :: ns) (s.minD, s.leaves, s.nodes, [])).2.2.2⟩
      simpa using this

/-- the expected reading of `_properties` is the model's `properties`, for every non-empty tree -/
theorem bfsProg_is_properties (t : PNode) (h : t ≠ nil) : Expected.bfsProg.run t = t.properties := by
  unfold BfsProg.run properties
  have := loop_is_bfs (t.maxD + 2) [t] (by simpa using h) ⟨0, -1, 0, 0, []⟩
  simpa [Expected.bfsProg] using this

end Opy
