import OpyVerif.Proofs.InitProg
import OpyVerif.Generated.Init.searchInit_eq
import OpyVerif.Generated.Init.treeInit_eq
/-!
C06 (construction clause) about the *translated* `_initialize_agents` methods.
-/
namespace Opy

/-- search spaces, as translated on this run: draws inside the intervals the loop asks for give agents inside the declared
    box, each carrying the declared bounds (which its own `check_limits` then leaves alone) -/
theorem code_searchInit (lbs ubs : List Int) (v : Nat) (draws : List Pos) (h : lbs.length = ubs.length)
    (hd : ∀ p ∈ draws, InBox lbs ubs p) :
    ∃ agents, Gen.searchInit.run lbs ubs v draws = some agents ∧ Gen.searchInit.ranges lbs ubs v = List.zip lbs ubs ∧
      ∀ a ∈ agents, InBox lbs ubs a.pos ∧ a.lb = lbs ∧ a.ub = ubs ∧ clipPos a.lb a.ub a.pos = a.pos := by
  rw [Gen.searchInit_eq]
  refine ⟨_, searchInit_is_initSearch lbs ubs v draws h, searchInit_ranges lbs ubs v, fun a ha => ?_⟩
  obtain ⟨h1, h2, h3⟩ := initSearch_feasible lbs ubs draws hd a ha
  exact ⟨h1, h2, h3, initSearch_clip_noop lbs ubs draws hd a ha⟩

/-- tree spaces initialise their agents by the same loop -/
theorem code_treeInit (lbs ubs : List Int) (v : Nat) (draws : List Pos) (h : lbs.length = ubs.length)
    (hd : ∀ p ∈ draws, InBox lbs ubs p) :
    ∃ agents, Gen.treeInit.run lbs ubs v draws = some agents ∧
      ∀ a ∈ agents, InBox lbs ubs a.pos ∧ a.lb = lbs ∧ a.ub = ubs := by
  rw [Gen.treeInit_eq]
  exact ⟨_, searchInit_is_initSearch lbs ubs v draws h, initSearch_feasible lbs ubs draws hd⟩


end Opy
