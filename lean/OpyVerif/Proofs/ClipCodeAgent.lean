import OpyVerif.Proofs.ClipProg
import OpyVerif.Proofs.C06
import OpyVerif.Generated.ClipLoops.agentClip_eq
/-!
C01 / C06 / C13 stated about the *translated* `check_limits` methods: `Gen.agentClip`,
`Gen.searchClip`, `Gen.hyperClip` are what `harness/translate_loops.py` read from the current
working tree.  Each theorem composes the regenerated equality (`Generated/ClipLoops.lean`), the
meaning of the expected loop (`Proofs/ClipProg.lean`) and the projection theorems of `Proofs/C06.lean`.
-/
namespace Opy

theorem code_agentClip (lbs ubs : List Int) (p : Pos) : Gen.agentClip.runPos lbs ubs p = clipPos lbs ubs p := by
  rw [Gen.agentClip_eq]; exact agentClip_run lbs ubs p

/-- `Agent.check_limits` (as translated) leaves the position inside the agent's box, whatever it was -/
theorem code_agentClip_inBox (lbs ubs : List Int) (p : Pos) (hb : BoundsOk lbs ubs) (hl : p.length = lbs.length) :
    InBox lbs ubs (Gen.agentClip.runPos lbs ubs p) := by
  rw [code_agentClip]; exact clipPos_inBox lbs ubs p hb hl.symm

/-- … changes nothing that is already inside (bit-identical through the key embedding) … -/
theorem code_agentClip_fixed (lbs ubs : List Int) (p : Pos) (h : InBox lbs ubs p) :
    Gen.agentClip.runPos lbs ubs p = p := by
  rw [code_agentClip]; exact clipPos_fixed lbs ubs p h

/-- … and is idempotent -/
theorem code_agentClip_idem (lbs ubs : List Int) (p : Pos) (hb : BoundsOk lbs ubs) (hl : p.length = lbs.length) :
    Gen.agentClip.runPos lbs ubs (Gen.agentClip.runPos lbs ubs p) = Gen.agentClip.runPos lbs ubs p := by
  rw [code_agentClip, code_agentClip]; exact clipPos_idem lbs ubs p hb hl.symm


end Opy
