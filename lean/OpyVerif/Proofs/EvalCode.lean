import OpyVerif.Proofs.EvalProg
import OpyVerif.Generated.Ops.evalProg_eq
/-!
C10 about the *translated* `_evaluate`: guard, operand sources, terminal test and operator chain as read from the current
source are `evalTree`, the function every C10 theorem (`evalTree_total`, `evalTree_shape`, `evalTree_<op>`, …) speaks about.
-/
namespace Opy

/-- the translated `_evaluate` is the model `evalTree`, for every tree, every environment of terminal arrays and over any
    carrier (`Float` in the driver, `ℝ` in the proofs) -/
theorem code_evaluate {α : Type} [Elem α] (eps : α) (env : Nat → Option (List α)) (t : PNode) :
    Gen.evalProg.run eps env t = evalTree eps env t := by
  rw [Gen.evalProg_eq]; exact evalProg_is_evalTree eps env t

end Opy
