import OpyVerif.Proofs.CreateProg
import OpyVerif.Generated.Create
/-!
C07 / C06 (construction clauses) about the *translated* `Space._create_agents` and `Space._build`.
-/
namespace Opy

/-- whatever `n_agents`, `n_variables`, `n_dimensions`: the population `_create_agents` (as read from the current source)
    returns has exactly `n_agents` agents of the declared shape, pairwise distinct objects, and a best agent that is a
    further object of the same shape -/
theorem code_create_agents (n v d next : Nat) (ags : List AgentObj) (best : AgentObj)
    (h : Gen.createProg.run n v d next = some (ags, best)) :
    ags.length = n ∧ (ags.map (·.id)).Nodup ∧ best.id ∉ ags.map (·.id) ∧
      (∀ a ∈ ags, a.nVars = v ∧ a.nDims = d) ∧ best.nVars = v ∧ best.nDims = d := by
  rw [Gen.createProg_eq] at h
  obtain ⟨a, b, c, e, f, g, _, _⟩ := createProg_spec n v d next ags best h
  exact ⟨a, b, c, e, f, g⟩

/-- … and it returns for every population size the guards accept (`n_agents > 0`) -/
theorem code_create_agents_total (n v d next : Nat) (hn : 0 < n) : (Gen.createProg.run n v d next).isSome := by
  rw [Gen.createProg_eq, createProg_run n v d next hn]; rfl

/-- `_build` installs exactly that population (and the bounds handed in) before the space calls itself built -/
theorem code_build_wellFormed : Gen.buildProg.wellFormed = true := by
  rw [Gen.buildProg_eq]; decide

end Opy
