import OpyVerif.Proofs.Lemmas.TreeOpsLemmas
import OpyVerif.Proofs.C08ops
/-
C09: what mutation and crossover *do* — for every tree, every point.

* `find_node` on a proper tree designates the selected terminal's own slot, or the slot of the
  *parent* of the selected function node (`findNode_slot_designates`);
* `_cross` exchanges exactly the two designated slots (`cross_spec*`), otherwise returns the
  pair unchanged (`cross_no_slot`), and conserves the combined multiset of nodes
  (`cross_multiset`);
* `_mutate` writes the branch into exactly the designated slot (`mutate_spec*`);
* one pointer write changes only its slot (`setChild_frame'`, `setChild_childOf_other`).

`cross_pure` / `mutate_pure` are not stated: `cross` and `mutate` are Lean functions on values,
so "the result depends only on the arguments and the arguments are not modified" is vacuous here
(it is a property of the tie between model and code, not of the model).
-/
namespace Opy
namespace PNode

/-! ### what `find_node` designates -/

/-- On a proper tree a slot answered by `find_node p` is a slot of the tree, and the child hanging
    there is the node at pre-order position `p` itself when that node is a terminal, and the
    *parent* of that node when it is a function node. -/
theorem findNode_slot_designates {ar : Nat → Nat} {t : PNode} {p pid : Nat} {side : Bool}
    (hwf : WF ar t) (h : findNode t p = .slot pid side) :
    pid ∈ t.ids ∧ ∃ node, t.pre[p]? = some node ∧
      ((node.isTermNode = true ∧ childOf pid side t = node) ∨
       (node.isTermNode = false ∧ ∃ q, node.storedPar = some q ∧
          lookup q t = some (childOf pid side t))) :=
  findNode_slot_spec hwf h

/-! ### one pointer write -/

/-- Frame: every node of `setChild pid side b t` comes from the branch or is a node of `t` with
    the same identity, label, stored parent and flag. -/
theorem setChild_frame' (pid : Nat) (side : Bool) (b t : PNode) :
    ∀ n ∈ (setChild pid side b t).pre,
      n.id? ∈ b.ids.map some ∨
      ∃ n0 ∈ t.pre, n0.id? = n.id? ∧ n0.lbl? = n.lbl? ∧ n0.storedPar = n.storedPar ∧
        n0.storedFlag = n.storedFlag :=
  setChild_frame pid side b t

/-- after the write the slot holds the branch, re-linked -/
theorem setChild_childOf_self {pid : Nat} {side : Bool} {b t : PNode}
    (hnd : t.ids.Nodup) (hmem : pid ∈ t.ids) :
    childOf pid side (setChild pid side b t) = relink pid side b :=
  childOf_setChild_self t hnd hmem

/-- Any *other* slot `(pid', side')` whose parent is neither inside the replaced child nor an
    identity of the branch holds, after the write, what it held before with the same write
    applied inside it. -/
theorem setChild_childOf_other {pid pid' : Nat} {side side' : Bool} {b : PNode} :
    ∀ t : PNode, t.ids.Nodup → (pid', side') ≠ (pid, side) → pid' ∉ b.ids →
      pid' ∉ (childOf pid side t).ids →
      childOf pid' side' (setChild pid side b t) = setChild pid side b (childOf pid' side' t) := by
  intro t
  induction t with
  | nil => intro _ _ _ _; rfl
  | mk i lb par flag l r ihl ihr =>
    intro hnd hne hb hc
    obtain ⟨h1, h2, hl, hr, hd⟩ := nodup_mk hnd
    rw [childOf_mk] at hc
    by_cases hi : i = pid
    · subst hi
      simp only [if_true] at hc
      by_cases hi' : i = pid'
      · subst hi'
        have hs : side' ≠ side := fun e => hne (by rw [e])
        cases side <;> cases side'
        · exact absurd rfl hs
        · simp only [setChild, if_true, Bool.false_eq_true, if_false]
          rw [childOf_mk, childOf_mk]; simp only [if_true]
          exact (setChild_of_not_mem _ _ _ _ h1).symm
        · simp only [setChild, if_true]
          rw [childOf_mk, childOf_mk]; simp only [if_true, Bool.false_eq_true, if_false]
          exact (setChild_of_not_mem _ _ _ _ h2).symm
        · exact absurd rfl hs
      · cases side
        · simp only [Bool.false_eq_true, if_false] at hc
          simp only [setChild, if_true, Bool.false_eq_true, if_false]
          rw [childOf_mk, childOf_mk]; simp only [hi', if_false]
          by_cases hm : pid' ∈ l.ids
          · simp only [hm, if_true]
            exact (setChild_of_not_mem _ _ _ _ (fun hx => h1 (childOf_ids_subset hx))).symm
          · simp only [hm, if_false]
            rw [childOf_of_not_mem (by rw [ids_relink]; exact hb), childOf_of_not_mem hc]; rfl
        · simp only [if_true] at hc
          simp only [setChild, if_true]
          rw [childOf_mk, childOf_mk]; simp only [hi', if_false, ids_relink, hb, hc]
          exact (setChild_of_not_mem _ _ _ _ (fun hx => h2 (childOf_ids_subset hx))).symm
    · simp only [hi, if_false] at hc
      simp only [setChild, hi, if_false]
      rw [childOf_mk, childOf_mk]
      by_cases hi' : i = pid'
      · simp only [hi', if_true]; cases side' <;> rfl
      · simp only [hi', if_false]
        by_cases hpl : pid ∈ l.ids
        · have hpr := hd pid hpl
          simp only [hpl, if_true] at hc
          rw [setChild_of_not_mem pid side b r hpr]
          have hiff : pid' ∈ (setChild pid side b l).ids ↔ pid' ∈ l.ids :=
            mem_setChild_iff hl hpl hb hc
          by_cases hm : pid' ∈ l.ids
          · simp only [hiff.2 hm, hm, if_true]; exact ihl hl hne hb hc
          · simp only [mt hiff.1 hm, hm, if_false]
            exact (setChild_of_not_mem _ _ _ _ (fun hx => hpr (childOf_ids_subset hx))).symm
        · simp only [hpl, if_false] at hc
          rw [setChild_of_not_mem pid side b l hpl]
          by_cases hm : pid' ∈ l.ids
          · simp only [hm, if_true]
            exact (setChild_of_not_mem _ _ _ _ (fun hx => hpl (childOf_ids_subset hx))).symm
          · simp only [hm, if_false]; exact ihr hr hne hb hc

/-- a slot that is neither the written one, nor below it, nor above it is unchanged -/
theorem setChild_childOf_unrelated {pid pid' : Nat} {side side' : Bool} {b t : PNode}
    (hnd : t.ids.Nodup) (hne : (pid', side') ≠ (pid, side)) (hb : pid' ∉ b.ids)
    (hbelow : pid' ∉ (childOf pid side t).ids) (habove : pid ∉ (childOf pid' side' t).ids) :
    childOf pid' side' (setChild pid side b t) = childOf pid' side' t := by
  rw [setChild_childOf_other t hnd hne hb hbelow, setChild_of_not_mem _ _ _ _ habove]

/-! ### crossover -/

/-- with two slots, `_cross` performs exactly the two writes exchanging the two children -/
theorem cross_spec {f m : PNode} {pf pm sf sm : Nat} {ff fm : Bool}
    (hf : findNode f pf = .slot sf ff) (hm : findNode m pm = .slot sm fm) :
    cross f m pf pm =
      some (setChild sf ff (childOf sm fm m) f, setChild sm fm (childOf sf ff f) m) := by
  unfold cross; rw [hf, hm]

/-- … so the father's slot now holds the mother's subtree, re-linked, and symmetrically -/
theorem cross_spec_slots {ar : Nat → Nat} {f m f' m' : PNode} {pf pm sf sm : Nat} {ff fm : Bool}
    (hwf : WF ar f) (hwm : WF ar m)
    (hf : findNode f pf = .slot sf ff) (hm : findNode m pm = .slot sm fm)
    (h : cross f m pf pm = some (f', m')) :
    childOf sf ff f' = relink sf ff (childOf sm fm m) ∧
    childOf sm fm m' = relink sm fm (childOf sf ff f) := by
  rw [cross_spec hf hm] at h
  simp only [Option.some.injEq, Prod.mk.injEq] at h
  obtain ⟨rfl, rfl⟩ := h
  exact ⟨childOf_setChild_self f hwf.2.2.2.2 (findNode_slot_mem hwf hf),
    childOf_setChild_self m hwm.2.2.2.2 (findNode_slot_mem hwm hm)⟩

/-- if either `find_node` answers "no slot" (and neither raises) the pair is returned unchanged -/
theorem cross_no_slot {f m : PNode} {pf pm : Nat}
    (hf : findNode f pf ≠ .error) (hm : findNode m pm ≠ .error)
    (h : findNode f pf = .noSlot ∨ findNode m pm = .noSlot) :
    cross f m pf pm = some (f, m) := by
  unfold cross
  cases h1 : findNode f pf <;> cases h2 : findNode m pm <;> simp_all

/-- `_cross` raises exactly when one of the `find_node` calls does -/
theorem cross_error_iff {f m : PNode} {pf pm : Nat} :
    cross f m pf pm = none ↔ findNode f pf = .error ∨ findNode m pm = .error := by
  unfold cross
  cases h1 : findNode f pf <;> cases h2 : findNode m pm <;> simp

/-- `_cross` conserves the combined multiset of nodes: identities, labels, and
    `(identity, label)` pairs (no node is lost, duplicated or relabelled). -/
theorem cross_multiset {ar : Nat → Nat} {f m f' m' : PNode} {pf pm : Nat}
    (hf : WF ar f) (hm : WF ar m) (h : cross f m pf pm = some (f', m')) :
    List.Perm (f'.ids ++ m'.ids) (f.ids ++ m.ids) ∧
    List.Perm (f'.pre.map lbl? ++ m'.pre.map lbl?) (f.pre.map lbl? ++ m.pre.map lbl?) ∧
    List.Perm (f'.nodes ++ m'.nodes) (f.nodes ++ m.nodes) := by
  have hp := cross_nodes_perm hf hm h
  refine ⟨?_, ?_, hp⟩
  · have := hp.map Prod.fst
    simpa only [List.map_append, ← ids_eq_nodes] using this
  · have := hp.map (fun x => some x.2)
    simpa only [List.map_append, ← lbls_eq_nodes] using this

/-- Frame for `_cross`: every node of the offspring is a node of one of the parents with the same
    identity and label, and — unless it is the root of one of the two exchanged subtrees, which
    is re-linked — the same stored parent and flag. -/
theorem cross_frame {f m f' m' : PNode} {pf pm : Nat} (h : cross f m pf pm = some (f', m')) :
    ∀ n ∈ f'.pre ++ m'.pre, ∃ n0 ∈ f.pre ++ m.pre, n0.id? = n.id? ∧ n0.lbl? = n.lbl? ∧
      ((n0.storedPar = n.storedPar ∧ n0.storedFlag = n.storedFlag) ∨
       ∃ sf ff sm fm, findNode f pf = .slot sf ff ∧ findNode m pm = .slot sm fm ∧
         (n = relink sf ff (childOf sm fm m) ∨ n = relink sm fm (childOf sf ff f))) := by
  have key : ∀ (pid side) (b t : PNode), (b = nil ∨ b ∈ m.pre ∨ b ∈ f.pre) →
      (∀ x ∈ t.pre, x ∈ f.pre ∨ x ∈ m.pre) →
      ∀ n ∈ (setChild pid side b t).pre, ∃ n0 ∈ f.pre ++ m.pre, n0.id? = n.id? ∧ n0.lbl? = n.lbl? ∧
        ((n0.storedPar = n.storedPar ∧ n0.storedFlag = n.storedFlag) ∨ n = relink pid side b) := by
    intro pid side b t hb ht
    induction t with
    | nil => intro n hn; simp [setChild, pre] at hn
    | mk i lb par flag l r ihl ihr =>
      have hself := ht _ (mem_pre_mk.2 (Or.inl rfl))
      have htl : ∀ x ∈ l.pre, x ∈ f.pre ∨ x ∈ m.pre :=
        fun x hx => ht x (mem_pre_mk.2 (Or.inr (Or.inl hx)))
      have htr : ∀ x ∈ r.pre, x ∈ f.pre ∨ x ∈ m.pre :=
        fun x hx => ht x (mem_pre_mk.2 (Or.inr (Or.inr hx)))
      have hbr : ∀ n ∈ (relink pid side b).pre,
          ∃ n0 ∈ f.pre ++ m.pre, n0.id? = n.id? ∧ n0.lbl? = n.lbl? ∧
            ((n0.storedPar = n.storedPar ∧ n0.storedFlag = n.storedFlag) ∨
              n = relink pid side b) := by
        intro n hn
        cases b with
        | nil => simp [relink, pre] at hn
        | mk j lb' p' f'' l' r' =>
          have hbm : mk j lb' p' f'' l' r' ∈ f.pre ++ m.pre := by
            rcases hb with e | e | e
            · cases e
            · exact List.mem_append.2 (Or.inr e)
            · exact List.mem_append.2 (Or.inl e)
          simp only [relink] at hn
          rcases mem_pre_mk.1 hn with e | e | e
          · subst e; exact ⟨_, hbm, rfl, rfl, Or.inr rfl⟩
          · refine ⟨n, ?_, rfl, rfl, Or.inl ⟨rfl, rfl⟩⟩
            rcases List.mem_append.1 hbm with hh | hh
            · exact List.mem_append.2 (Or.inl (mem_pre_trans hh (mem_pre_mk.2 (Or.inr (Or.inl e)))))
            · exact List.mem_append.2 (Or.inr (mem_pre_trans hh (mem_pre_mk.2 (Or.inr (Or.inl e)))))
          · refine ⟨n, ?_, rfl, rfl, Or.inl ⟨rfl, rfl⟩⟩
            rcases List.mem_append.1 hbm with hh | hh
            · exact List.mem_append.2 (Or.inl (mem_pre_trans hh (mem_pre_mk.2 (Or.inr (Or.inr e)))))
            · exact List.mem_append.2 (Or.inr (mem_pre_trans hh (mem_pre_mk.2 (Or.inr (Or.inr e)))))
      intro n hn
      by_cases hi : i = pid
      · subst hi
        cases side
        · simp only [setChild, if_true, Bool.false_eq_true, if_false] at hn
          rcases mem_pre_mk.1 hn with e | e | e
          · subst e; exact ⟨_, List.mem_append.2 hself, rfl, rfl, Or.inl ⟨rfl, rfl⟩⟩
          · exact ⟨n, List.mem_append.2 (htl n e), rfl, rfl, Or.inl ⟨rfl, rfl⟩⟩
          · exact hbr n e
        · simp only [setChild, if_true] at hn
          rcases mem_pre_mk.1 hn with e | e | e
          · subst e; exact ⟨_, List.mem_append.2 hself, rfl, rfl, Or.inl ⟨rfl, rfl⟩⟩
          · exact hbr n e
          · exact ⟨n, List.mem_append.2 (htr n e), rfl, rfl, Or.inl ⟨rfl, rfl⟩⟩
      · simp only [setChild, hi, if_false] at hn
        rcases mem_pre_mk.1 hn with e | e | e
        · subst e; exact ⟨_, List.mem_append.2 hself, rfl, rfl, Or.inl ⟨rfl, rfl⟩⟩
        · exact ihl htl n e
        · exact ihr htr n e
  rcases cross_cases h with ⟨sf, ff, sm, fm, hsf, hsm, rfl, rfl⟩ | ⟨rfl, rfl⟩
  · intro n hn
    rcases List.mem_append.1 hn with hn | hn
    · have hb : childOf sm fm m = nil ∨ childOf sm fm m ∈ m.pre ∨ childOf sm fm m ∈ f.pre := by
        rcases childOf_nil_or_mem sm fm m with e | e
        · exact Or.inl e
        · exact Or.inr (Or.inl e)
      obtain ⟨n0, h0, h1, h2, h3⟩ := key sf ff _ f hb (fun x hx => Or.inl hx) n hn
      refine ⟨n0, h0, h1, h2, ?_⟩
      rcases h3 with h3 | h3
      · exact Or.inl h3
      · exact Or.inr ⟨sf, ff, sm, fm, hsf, hsm, Or.inl h3⟩
    · have hb : childOf sf ff f = nil ∨ childOf sf ff f ∈ m.pre ∨ childOf sf ff f ∈ f.pre := by
        rcases childOf_nil_or_mem sf ff f with e | e
        · exact Or.inl e
        · exact Or.inr (Or.inr e)
      obtain ⟨n0, h0, h1, h2, h3⟩ := key sm fm _ m hb (fun x hx => Or.inr hx) n hn
      refine ⟨n0, h0, h1, h2, ?_⟩
      rcases h3 with h3 | h3
      · exact Or.inl h3
      · exact Or.inr ⟨sf, ff, sm, fm, hsf, hsm, Or.inr h3⟩
  · intro n hn; exact ⟨n, hn, rfl, rfl, Or.inl ⟨rfl, rfl⟩⟩

/-! ### mutation -/

/-- a slot → the branch is written into exactly that slot -/
theorem mutate_spec {t b : PNode} {p pid : Nat} {side : Bool}
    (h : findNode t p = .slot pid side) : mutate t p b = some (setChild pid side b t) := by
  unfold mutate; rw [h]

/-- … and afterwards the slot holds the branch, re-linked -/
theorem mutate_spec_slot {ar : Nat → Nat} {t b : PNode} {p pid : Nat} {side : Bool}
    (hwf : WF ar t) (h : findNode t p = .slot pid side) :
    childOf pid side (setChild pid side b t) = relink pid side b :=
  childOf_setChild_self t hwf.2.2.2.2 (findNode_slot_mem hwf h)

/-- no slot → the grown tree replaces the whole individual -/
theorem mutate_no_slot {t b : PNode} {p : Nat} (h : findNode t p = .noSlot) :
    mutate t p b = some b := by
  unfold mutate; rw [h]

/-- `_mutate` raises exactly when `find_node` does -/
theorem mutate_error_iff {t b : PNode} {p : Nat} :
    mutate t p b = none ↔ findNode t p = .error := by
  unfold mutate
  cases h : findNode t p <;> simp

/-- node accounting for a mutation at a slot: the old child's nodes leave, the branch's arrive -/
theorem mutate_multiset {ar : Nat → Nat} {t b : PNode} {p pid : Nat} {side : Bool}
    (hwf : WF ar t) (h : findNode t p = .slot pid side) :
    List.Perm ((setChild pid side b t).ids ++ (childOf pid side t).ids) (t.ids ++ b.ids) ∧
    List.Perm ((setChild pid side b t).pre.map lbl? ++ (childOf pid side t).pre.map lbl?)
      (t.pre.map lbl? ++ b.pre.map lbl?) :=
  ⟨ids_setChild_perm hwf.2.2.2.2 (findNode_slot_mem hwf h),
   lbls_setChild_perm hwf.2.2.2.2 (findNode_slot_mem hwf h)⟩

/-- only the selected slot changed: every node of the mutant comes from the branch or is a node
    of the individual with the same identity, label, stored parent and flag -/
theorem mutate_frame {t b t' : PNode} {p pid : Nat} {side : Bool}
    (h : findNode t p = .slot pid side) (hm : mutate t p b = some t') :
    ∀ n ∈ t'.pre,
      n.id? ∈ b.ids.map some ∨
      ∃ n0 ∈ t.pre, n0.id? = n.id? ∧ n0.lbl? = n.lbl? ∧ n0.storedPar = n.storedPar ∧
        n0.storedFlag = n.storedFlag := by
  rw [mutate_spec h] at hm
  cases hm
  exact setChild_frame pid side b t

/-! ### a concrete pair: the hypotheses are satisfiable and the results are as expected -/

section witness

/-- operator 7 is unary, every other operator binary -/
private def arW : Nat → Nat := fun n => if n = 7 then 1 else 2

private def T (i n : Nat) (p : Nat) (f : Bool) : PNode := mk i ⟨true, n, n + 1⟩ (some p) f nil nil
private def F (i op : Nat) (p : Option Nat) (f : Bool) (l r : PNode) : PNode :=
  mk i ⟨false, op, 0⟩ p f l r

/-- father: `op0( op7( x0 ), op1( x1, x0 ) )`, identities 0‥5 in pre-order -/
private def father : PNode :=
  F 0 0 none true
    (F 1 7 (some 0) true (T 2 0 1 true) nil)
    (F 3 1 (some 0) false (T 4 1 3 true) (T 5 0 3 false))

/-- mother: `op2( x1, op3( op1( x0, x1 ), x2 ) )`, identities 10‥16 -/
private def mother : PNode :=
  F 10 2 none true
    (T 11 1 10 true)
    (F 12 3 (some 10) false
      (F 13 1 (some 12) true (T 15 0 13 true) (T 16 1 13 false))
      (T 14 2 12 false))

example : WF arW father := wf_of_wfB (by decide)
example : WF arW mother := wf_of_wfB (by decide)
example : ∀ x ∈ father.ids, x ∉ mother.ids := by decide

-- position 2 of the father is terminal 2 (slot: left of node 1); position 3 of the mother is
-- function node 13, whose *parent* 12 hangs right of the root 10
example : findNode father 2 = .slot 1 true := by decide
example : findNode mother 3 = .slot 10 false := by decide
-- a function root raises, a child of the root gives "no slot"
example : findNode father 0 = .error := by decide
example : findNode father 1 = .noSlot := by decide
example : findNode father 9 = .noSlot := by decide

/-- the two selected subtrees are exchanged and re-linked, nothing else moves -/
example : cross father mother 2 3 = some
    (F 0 0 none true
      (F 1 7 (some 0) true
        (F 12 3 (some 1) true
          (F 13 1 (some 12) true (T 15 0 13 true) (T 16 1 13 false))
          (T 14 2 12 false))
        nil)
      (F 3 1 (some 0) false (T 4 1 3 true) (T 5 0 3 false)),
     F 10 2 none true (T 11 1 10 true) (T 2 0 10 false)) := by decide

example : (cross father mother 2 3).map (fun x => (wfB arW x.1, wfB arW x.2)) =
    some (true, true) := by decide
example : cross father mother 1 3 = some (father, mother) := by decide
example : cross father mother 0 3 = none := by decide

/-- mutation at terminal 4 with (a fresh copy of) the mother as the grown branch -/
example : mutate father 4 mother = some
    (F 0 0 none true
      (F 1 7 (some 0) true (T 2 0 1 true) nil)
      (F 3 1 (some 0) false (relink 3 true mother) (T 5 0 3 false))) := by decide
example : (mutate father 4 mother).map (wfB arW) = some true := by decide
example : mutate father 1 mother = some mother := by decide

end witness

end PNode
end Opy

#print axioms Opy.PNode.findNode_slot_designates
#print axioms Opy.PNode.setChild_frame'
#print axioms Opy.PNode.setChild_childOf_self
#print axioms Opy.PNode.setChild_childOf_other
#print axioms Opy.PNode.setChild_childOf_unrelated
#print axioms Opy.PNode.cross_spec
#print axioms Opy.PNode.cross_spec_slots
#print axioms Opy.PNode.cross_no_slot
#print axioms Opy.PNode.cross_error_iff
#print axioms Opy.PNode.cross_multiset
#print axioms Opy.PNode.cross_frame
#print axioms Opy.PNode.mutate_spec
#print axioms Opy.PNode.mutate_spec_slot
#print axioms Opy.PNode.mutate_no_slot
#print axioms Opy.PNode.mutate_error_iff
#print axioms Opy.PNode.mutate_multiset
#print axioms Opy.PNode.mutate_frame
