import OpyVerif.Proofs.ClipProg
import OpyVerif.Proofs.C06
import OpyVerif.Generated.ClipLoops.searchClip_eq
/-!
C01 / C06 / C13 stated about the *translated* `check_limits` methods: `Gen.agentClip`,
`Gen.searchClip`, `Gen.hyperClip` are what `harness/translate_loops.py` read from the current
working tree.  Each theorem composes the regenerated equality (`Generated/ClipLoops.lean`), the
meaning of the expected loop (`Proofs/ClipProg.lean`) and the projection theorems of `Proofs/C06.lean`.
-/
namespace Opy

theorem code_searchClip (lbs ubs : List Int) (pop : List Pos) : Gen.searchClip.runAll lbs ubs pop = clipAll lbs ubs pop := by
  rw [Gen.searchClip_eq]; exact searchClip_run lbs ubs pop

/-- `SearchSpace.check_limits` (as translated) puts every agent inside the declared box -/
theorem code_searchClip_inBox (lbs ubs : List Int) (pop : List Pos) (hb : BoundsOk lbs ubs)
    (hl : ∀ p ∈ pop, p.length = lbs.length) :
    ∀ q ∈ Gen.searchClip.runAll lbs ubs pop, InBox lbs ubs q := by
  rw [code_searchClip]; exact clipAll_inBox lbs ubs pop hb (fun p hp => (hl p hp).symm)


end Opy
