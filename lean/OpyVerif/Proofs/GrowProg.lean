import OpyVerif.Model.GrowProg
namespace Opy
open PNode

theorem growProg_go_is_grow (cfg : GrowCfg) : ∀ (k : Nat) (ds : List Nat) (nid : Nat),
    Expected.growProg.go cfg k ds nid = grow cfg k ds nid := by
  intro k
  induction k with
  | zero =>
    intro ds nid
    cases ds with
    | nil => simp [GrowProg.go, grow]
    | cons d ds => simp [GrowProg.go, grow, Expected.growProg, IExp.eval]
  | succ k ih =>
    intro ds nid
    cases ds with
    | nil => simp [GrowProg.go, grow]
    | cons d ds =>
      have e1 : Expected.growProg.innerLow = IExp.lit 0 := rfl
      have e2 : Expected.growProg.innerHigh = IExp.add .nFunctions .nTerminals := rfl
      have e3 : Expected.growProg.termThreshold = IExp.nFunctions := rfl
      have e4 : Expected.growProg.termId = IExp.sub .draw .nFunctions := rfl
      have e5 : Expected.growProg.funcIndex = IExp.draw := rfl
      simp only [GrowProg.go, grow, ih, e1, e2, e3, e4, e5, IExp.eval]
      by_cases h1 : d < cfg.funcs.length
      · have h2 : d < cfg.funcs.length + cfg.nTerminals := by omega
        have h3 : ¬ cfg.funcs.length ≤ d := by omega
        cases hg1 : grow cfg k ds (nid + 1) with
        | none => simp [h1, h2, h3]
        | some r =>
          obtain ⟨c1, ds1, n1⟩ := r
          cases hg2 : grow cfg k ds1 n1 with
          | none => simp [h1, h2, h3, hg2]
          | some r2 =>
            obtain ⟨c2, ds2, n2⟩ := r2
            simp [h1, h2, h3, hg2]
      · by_cases h2 : d < cfg.funcs.length + cfg.nTerminals
        · have h3 : cfg.funcs.length ≤ d := by omega
          have h4 : d - cfg.funcs.length < cfg.nTerminals := by omega
          simp [h1, h2, h3, h4]
        · simp [h1, h2]

/-- the expected reading of `TreeSpace.grow` is the model `grow` -/
theorem growProg_is_grow (cfg : GrowCfg) (k : Nat) (ds : List Nat) (nid : Nat) :
    Expected.growProg.run cfg k ds nid = grow cfg k ds nid := by
  simp [GrowProg.run, GrowProg.ok, Expected.growProg]
  exact growProg_go_is_grow cfg k ds nid

end Opy
