import OpyVerif.Proofs.SweepProg
import OpyVerif.Generated.Sweeps.gpSweep_eq
/-!
The machine's sweep rule is what the *translated* `_evaluate` methods do: `Gen.genericSweep`, `Gen.psoSweep`,
`Gen.gpSweep` are read from the current working tree; for each, some tie flag makes the loop body equal to
`sweepAgent` / `takes` / `bestOf` of `Model/Machine` — the rule every C02 / C03 / C20 machine theorem is about.
-/
namespace Opy

theorem code_gpSweep (cfg : Cfg) (hs : cfg.swarm = false) (a best : Ag) (v : Int) (fresh : Nat) (tp : Pos) :
    ∃ tie, Gen.gpSweep.body cfg.lbs cfg.ubs tp v fresh a best =
      (let a0 := { a with pos := clipPos cfg.lbs cfg.ubs tp }
       (sweepAgent cfg a0 v, if takes best (sweepAgent cfg a0 v) tie then bestOf (sweepAgent cfg a0 v) fresh else best)) := by
  rcases Gen.gpSweep_eq with h | h <;> rw [h]
  · exact ⟨false, gpSweep_is_machine_rule cfg hs a best v fresh tp⟩
  · exact ⟨true, gpSweepLe_is_machine_rule cfg hs a best v fresh tp⟩


end Opy
