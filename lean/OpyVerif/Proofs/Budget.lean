import OpyVerif.Model.Budget
import OpyVerif.Generated.Budget
import OpyVerif.Proofs.C03onlooker
/-!
C03, trial budget: for every optimizer and every population size the objective call sites found in the
current source (`Gen.evalTerms`) add up to the per-iteration budget the run-level check enforces
(`Expected.budgetFormula`), and every sweep makes exactly one call per agent.
-/
namespace Opy

/-- the 17 optimizers -/
def kinds17 : List String :=
  ["ABC", "AIWPSO", "BA", "BHA", "CS", "FA", "FPA", "GP", "GSA", "HC", "HS", "IHS", "PSO", "RPSO", "SA", "SCA", "WCA"]

theorem evalTerms_kinds : Expected.evalTerms.map (·.1) = kinds17 := by decide

/-- every optimizer's sweep is one objective call inside one loop over the agents: `n` calls -/
theorem sweep_is_one_call_per_agent (n : Nat) :
    ∀ row ∈ Expected.evalTerms, sumBounds n row.2.2 = some n := by
  intro row h
  simp only [Expected.evalTerms, List.mem_cons, List.mem_nil_iff, or_false] at h
  rcases h with h | h | h | h | h | h | h | h | h | h | h | h | h | h | h | h | h <;> subst h <;>
    simp [sumBounds, EvalTerm.bound]

/-- update trials + sweep = the budget formula, for every optimizer and every `n` -/
theorem budget_formula (n : Nat) :
    ∀ row ∈ Expected.evalTerms, iterationBudget n row.2 = some (Expected.budgetFormula row.1 n) := by
  intro row h
  simp only [Expected.evalTerms, List.mem_cons, List.mem_nil_iff, or_false] at h
  rcases h with h | h | h | h | h | h | h | h | h | h | h | h | h | h | h | h | h <;> subst h <;>
    simp [iterationBudget, sumBounds, EvalTerm.bound, Expected.budgetFormula] <;> omega

/-- the same about the translated source -/
theorem code_budget (n : Nat) :
    ∀ row ∈ Gen.evalTerms, iterationBudget n row.2 = some (Expected.budgetFormula row.1 n) := by
  rw [Gen.evalTerms_eq]; exact budget_formula n

theorem code_sweep (n : Nat) : ∀ row ∈ Gen.evalTerms, sumBounds n row.2.2 = some n := by
  rw [Gen.evalTerms_eq]; exact sweep_is_one_call_per_agent n

/-- the `2n - 1` of the one `while` term is the bound proved for the onlooker loop's control flow -/
theorem while_term_is_onlooker_bound (n : Nat) (passes : List (List Bool)) (k : Nat) (hn : 0 < n)
    (hlen : ∀ p ∈ passes, p.length = n) (h : onlooker n 0 passes = some k) :
    ∃ b, EvalTerm.bound n { site := "ABC._evaluate_location", factors := [.whileLoop "k < len(agents)", .agents] } = some b
      ∧ n ≤ k ∧ k ≤ b :=
  ⟨2 * n - 1, rfl, onlooker_bounds n passes k hn hlen h⟩

/-- the budget never lets an iteration make fewer calls than one per agent -/
theorem budget_ge_sweep (kind : String) (n : Nat) : n ≤ Expected.budgetFormula kind n := by
  unfold Expected.budgetFormula
  split <;> try omega
  split <;> try omega
  split <;> try omega
  split <;> omega

end Opy
