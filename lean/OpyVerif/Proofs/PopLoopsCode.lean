import OpyVerif.Proofs.PopLoops
import OpyVerif.Generated.PopLoops
/-!
C08 / C09 (population clauses) about the *translated* `GP._mutation` and `GP._crossover`: `Gen.mutLoop`, `Gen.crossLoop` are
what the translator read from the current working tree.
-/
namespace Opy
open PNode

/-- whatever the tournament selects, whatever points `_mutate` draws and whatever proper, fresh trees `space.grow` returns:
    after `GP._mutation` the forest is a family of proper, pairwise disjoint expression trees of the same size, and slots
    that were not selected hold the tree they held -/
theorem code_mutation_popOK {ar : Nat → Nat} (P P' : Pop) (selected : List Nat) (points : List Nat) (grown : List PNode)
    (hP : PopOK ar P) (hn : 0 < P.next) (hg : GrownFresh ar P.next grown)
    (h : Gen.mutLoop.run P selected points grown = some P') :
    PopOK ar P' ∧ P'.trees.length = P.trees.length ∧ ∀ i, i ∉ selected → P'.trees[i]? = P.trees[i]? := by
  rw [Gen.mutLoop_eq] at h; exact mutLoop_popOK P P' selected points grown hP hn hg h

/-- the same for `GP._crossover`, for every tournament outcome (also one that names an individual twice, or pairs it with
    itself) and all points -/
theorem code_crossover_popOK {ar : Nat → Nat} (P P' : Pop) (selected : List Nat) (draws : List (Nat × Nat))
    (hP : PopOK ar P) (hn : 0 < P.next) (h : Gen.crossLoop.run P selected draws = some P') :
    PopOK ar P' ∧ P'.trees.length = P.trees.length ∧ ∀ i, i ∉ selected → P'.trees[i]? = P.trees[i]? := by
  rw [Gen.crossLoop_eq] at h; exact crossLoop_popOK P P' selected draws hP hn h

/-- the tournament is asked for an even number of parents, so `pairwise` pairs all of them -/
theorem code_crossover_count_even (n : Nat) : Gen.crossLoop.count n % 2 = 0 := by
  rw [Gen.crossLoop_eq]; exact crossLoop_count_even n

theorem code_crossover_pairs_all (n : Nat) (selected : List Nat) (h : selected.length = Gen.crossLoop.count n) :
    (pairsOf selected).flatMap (fun p => [p.1, p.2]) = selected :=
  pairsOf_flatten selected (by rw [h]; exact code_crossover_count_even n)

end Opy
