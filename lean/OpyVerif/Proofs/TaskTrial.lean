import OpyVerif.Proofs.TaskRun
import OpyVerif.Proofs.Accept
import OpyVerif.Proofs.C01
/-!
The greedy optimisers (ABC, CS, FPA, HS / IHS) at the level of a whole task: their update is no longer an arbitrary
oracle but a sequence of *trials*, each one an evaluation site (`Site`: assignments, the trial's own `check_limits`, the
objective call — `Generated/Skeletons: evalSites`) followed by an acceptance site (`AcceptRec` — `Generated/Accepts:
acceptSites`), both as the translator reads them.  What stays an oracle: which individual a trial is compared with, the
positions its assignments produce (all arithmetic, all draws), how many trials an update makes.

Theorems (for every iteration count, objective, trial script): every objective call of a trial is inside the box (C01);
every per-agent record written by `history.dump` is truthful — its fitness is the objective at its position, which is
feasible — and from one record to the next no agent's fitness increases (C20).
-/
namespace Opy
namespace Task

/-- one trial: the index of the population member it is compared with and the positions its assignments produce -/
structure Trial where
  who : Nat
  proposals : List Pos

def agOf (h : Holder) : Ag := { pos := h.pos, tpos := h.pos, fit := h.fit, ref := h.ref }
def holderOf (a : Ag) : Holder := { pos := a.pos, fit := a.fit, ref := a.ref }

/-- a trial on the population: the incumbent's position goes through the site's operations; the last position handed to the
    objective is the candidate; the acceptance site decides.  Returns the population and the objective calls made. -/
def trialStep (site : Site) (acc : AcceptRec) (lbs ubs : List Int) (f : Pos → Int) (pop : List Ag) (t : Trial) :
    List Ag × List (Pos × Int) :=
  match pop[t.who]? with
  | none => (pop, [])
  | some a =>
    let qs := runOps lbs ubs a.pos site.ops t.proposals
    match qs.getLast? with
    | none => (pop, [])
    | some q =>
      let r := acceptStep acc { pos := q, fit := f q, ref := 0 } (holderOf a) (holderOf a) 0
      (pop.set t.who (agOf r), qs.map fun q => (q, f q))

/-- an update: the trials one after the other -/
def greedyUpdate (site : Site) (acc : AcceptRec) (lbs ubs : List Int) (f : Pos → Int) :
    List Ag → List Trial → List Ag × List (Pos × Int)
  | pop, [] => (pop, [])
  | pop, t :: ts =>
    let r := trialStep site acc lbs ubs f pop t
    let rest := greedyUpdate site acc lbs ubs f r.1 ts
    (rest.1, r.2 ++ rest.2)

/-- the oracle of a greedy task: updates are trial scripts, the hook observes, there is no post step -/
def greedyOracle (site : Site) (acc : AcceptRec) (lbs ubs : List Int) (f : Pos → Int) (script : Nat → List Trial) : TaskOracle :=
  { f := f, upd := fun k st => ((greedyUpdate site acc lbs ubs f st.1 (script k)).1, st.2),
    hook := fun _ st => st, post := fun _ st => st }

/-- feasible and truthful: inside the box, and the stored fitness is the objective at the stored position -/
def Settled (lbs ubs : List Int) (f : Pos → Int) (a : Ag) : Prop := InBox lbs ubs a.pos ∧ a.fit = f a.pos

/-- point-wise `≤` of two fitness vectors of the same length -/
def LeAll : List Int → List Int → Prop
  | [], [] => True
  | x :: xs, y :: ys => x ≤ y ∧ LeAll xs ys
  | _, _ => False

theorem leAll_refl (xs : List Int) : LeAll xs xs := by
  induction xs with
  | nil => trivial
  | cons x xs ih => exact ⟨Int.le_refl x, ih⟩

theorem leAll_trans {xs ys zs : List Int} (h1 : LeAll xs ys) (h2 : LeAll ys zs) : LeAll xs zs := by
  induction xs generalizing ys zs with
  | nil => cases ys <;> cases zs <;> simp_all [LeAll]
  | cons x xs ih =>
    cases ys with
    | nil => simp [LeAll] at h1
    | cons y ys =>
      cases zs with
      | nil => simp [LeAll] at h2
      | cons z zs => exact ⟨Int.le_trans h1.1 h2.1, ih h1.2 h2.2⟩

theorem leAll_set (pop : List Ag) (i : Nat) (a a' : Ag) (hi : pop[i]? = some a) (h : a'.fit ≤ a.fit) :
    LeAll ((pop.set i a').map (·.fit)) (pop.map (·.fit)) := by
  induction pop generalizing i with
  | nil => simp at hi
  | cons x xs ih =>
    cases i with
    | zero =>
      simp only [List.getElem?_cons_zero, Option.some.injEq] at hi
      subst hi
      exact ⟨h, leAll_refl _⟩
    | succ j =>
      simp only [List.getElem?_cons_succ] at hi
      exact ⟨Int.le_refl _, ih j hi⟩

/-! ### one trial -/

section
variable (site : Site) (acc : AcceptRec) (lbs ubs : List Int) (f : Pos → Int)

/-- **C01, trial level.**  A site that passes `opsOk` hands only feasible positions to the objective, whatever its
    assignments produce. -/
theorem trialStep_evals_inBox (hb : BoundsOk lbs ubs) (hs : opsOk false site.ops = true) (pop : List Ag) (t : Trial)
    (hp : ∀ a ∈ pop, a.pos.length = lbs.length) (ht : ∀ p ∈ t.proposals, p.length = lbs.length) :
    ∀ e ∈ (trialStep site acc lbs ubs f pop t).2, InBox lbs ubs e.1 := by
  unfold trialStep
  cases hw : pop[t.who]? with
  | none => simp
  | some a =>
    simp only
    cases hq : (runOps lbs ubs a.pos site.ops t.proposals).getLast? with
    | none => simp
    | some q =>
      simp only
      intro e he
      simp only [List.mem_map] at he
      obtain ⟨x, hx, rfl⟩ := he
      exact site_evals_inBox lbs ubs a.pos site.ops t.proposals hb (hp a (List.mem_of_getElem? hw)) ht hs x hx

/-- **C20, trial level.**  With an acceptance site of the replacing kind nobody's fitness increases, the population keeps
    its size, and feasible truthful agents stay feasible and truthful. -/
theorem trialStep_pop (hb : BoundsOk lbs ubs) (hs : opsOk false site.ops = true) (ha : acc.okReplace = true)
    (pop : List Ag) (t : Trial) (hp : ∀ a ∈ pop, Settled lbs ubs f a) (ht : ∀ p ∈ t.proposals, p.length = lbs.length) :
    LeAll ((trialStep site acc lbs ubs f pop t).1.map (·.fit)) (pop.map (·.fit)) ∧
    ∀ a ∈ (trialStep site acc lbs ubs f pop t).1, Settled lbs ubs f a := by
  unfold trialStep
  cases hw : pop[t.who]? with
  | none => exact ⟨leAll_refl _, hp⟩
  | some a =>
    simp only
    cases hq : (runOps lbs ubs a.pos site.ops t.proposals).getLast? with
    | none => exact ⟨leAll_refl _, hp⟩
    | some q =>
      simp only
      have hamem : a ∈ pop := List.mem_of_getElem? hw
      have hqmem : q ∈ runOps lbs ubs a.pos site.ops t.proposals := List.mem_of_getLast? hq
      have hqbox : InBox lbs ubs q :=
        site_evals_inBox lbs ubs a.pos site.ops t.proposals hb (inBox_length lbs ubs a.pos (hp a hamem).1) ht hs q hqmem
      have hle := accept_never_worse acc ha { pos := q, fit := f q, ref := 0 } (holderOf a) (holderOf a) 0
      refine ⟨leAll_set pop t.who a _ hw (by simpa [agOf, holderOf] using hle), ?_⟩
      intro x hx
      rcases List.mem_or_eq_of_mem_set hx with hx | rfl
      · exact hp x hx
      · rcases accept_pair acc ha { pos := q, fit := f q, ref := 0 } (holderOf a) (holderOf a) 0 with e | e <;> rw [e]
        · exact ⟨(hp a hamem).1, (hp a hamem).2⟩
        · exact ⟨hqbox, rfl⟩

theorem greedyUpdate_evals_inBox (hb : BoundsOk lbs ubs) (hs : opsOk false site.ops = true) (ha : acc.okReplace = true)
    (pop : List Ag) (ts : List Trial) (hp : ∀ a ∈ pop, Settled lbs ubs f a)
    (ht : ∀ t ∈ ts, ∀ p ∈ t.proposals, p.length = lbs.length) :
    (∀ e ∈ (greedyUpdate site acc lbs ubs f pop ts).2, InBox lbs ubs e.1) ∧
    LeAll ((greedyUpdate site acc lbs ubs f pop ts).1.map (·.fit)) (pop.map (·.fit)) ∧
    ∀ a ∈ (greedyUpdate site acc lbs ubs f pop ts).1, Settled lbs ubs f a := by
  induction ts generalizing pop with
  | nil => exact ⟨by simp [greedyUpdate], leAll_refl _, hp⟩
  | cons t ts ih =>
    simp only [greedyUpdate]
    have h1 := trialStep_pop site acc lbs ubs f hb hs ha pop t hp (ht t List.mem_cons_self)
    have h0 := trialStep_evals_inBox site acc lbs ubs f hb hs pop t
      (fun a ha' => inBox_length lbs ubs a.pos (hp a ha').1) (ht t List.mem_cons_self)
    obtain ⟨i1, i2, i3⟩ := ih (trialStep site acc lbs ubs f pop t).1 h1.2 (fun t' ht' => ht t' (List.mem_cons_of_mem _ ht'))
    refine ⟨?_, leAll_trans i2 h1.1, i3⟩
    intro e he
    rcases List.mem_append.mp he with he | he
    · exact h0 e he
    · exact i1 e he

end

/-! ### the whole task -/

/-- the space-wide clip leaves feasible positions where they are -/
def ClipFixes (c : ClipLoop) (lbs ubs : List Int) : Prop :=
  ∀ pos : Pos, InBox lbs ubs pos → c.runPos lbs ubs pos = pos

theorem sweepPop_pop (l : SweepLoop) (swarm : Bool) (hr : IsRule l swarm) (lbs ubs : List Int) (f : Pos → Int)
    (pop : List Ag) (best : Ag) (fresh : Nat) :
    (sweepPop l lbs ubs f pop best fresh).1 = pop.map (fun a => sweepAgent ⟨0, swarm, lbs, ubs⟩ a (f a.pos)) := by
  obtain ⟨tie, hr⟩ := hr
  induction pop generalizing best fresh with
  | nil => simp [sweepPop]
  | cons a as ih => simp only [sweepPop, hr, List.map_cons]; rw [ih]

section
variable (p : TaskProg) (site : Site) (acc : AcceptRec) (lbs ubs : List Int) (f : Pos → Int) (script : Nat → List Trial)

/-- what holds of a greedy task from its first sweep on -/
structure GInv (lbs ubs : List Int) (f : Pos → Int) (s : TaskSt) : Prop where
  /-- every agent is feasible and its stored fitness is the objective at its position -/
  settled : ∀ a ∈ s.pop, Settled lbs ubs f a
  /-- the population's fitness vector is point-wise at most every recorded one -/
  below : ∀ d ∈ s.dumps, LeAll (s.pop.map (·.fit)) (d.1.map (·.2))
  /-- … and every later record is point-wise at most every earlier one -/
  chain : s.dumps.Pairwise (fun d d' => LeAll (d'.1.map (·.2)) (d.1.map (·.2)))
  /-- every per-agent record is feasible and truthful -/
  truth : ∀ d ∈ s.dumps, ∀ r ∈ d.1, InBox lbs ubs r.1 ∧ r.2 = f r.1

theorem map_fix_settled (g : Ag → Ag) (pop : List Ag) (h : ∀ a ∈ pop, g a = a) : pop.map g = pop := by
  induction pop with
  | nil => rfl
  | cons a as ih =>
    simp only [List.map_cons]
    rw [h a List.mem_cons_self, ih (fun x hx => h x (List.mem_cons_of_mem _ hx))]

theorem ginv_execEv (hb : BoundsOk lbs ubs) (hs : opsOk false site.ops = true) (ha : acc.okReplace = true)
    (hc : ClipFixes p.clip lbs ubs) (hr : IsRule p.sweep false)
    (hscript : ∀ k, ∀ t ∈ script k, ∀ q ∈ t.proposals, q.length = lbs.length)
    (s : TaskSt) (ev : SEv) (h : GInv lbs ubs f s) :
    GInv lbs ubs f (p.execEv lbs ubs (greedyOracle site acc lbs ubs f script) s ev) := by
  obtain ⟨h1, h2, h3, h4⟩ := h
  cases ev with
  | update =>
    obtain ⟨_, u2, u3⟩ := greedyUpdate_evals_inBox site acc lbs ubs f hb hs ha s.pop (script s.k) h1 (hscript s.k)
    exact ⟨u3, fun d hd => leAll_trans u2 (h2 d hd), h3, h4⟩
  | hook => exact ⟨h1, h2, h3, h4⟩
  | post => exact ⟨h1, h2, h3, h4⟩
  | clipAll =>
    have e : (s.pop.map fun a => { a with pos := p.clip.runPos lbs ubs a.pos }) = s.pop :=
      map_fix_settled _ s.pop (fun a ha' => by rw [hc a.pos (h1 a ha').1])
    refine ⟨?_, ?_, h3, h4⟩
    · simp only [TaskProg.execEv]; rw [e]; exact h1
    · simp only [TaskProg.execEv]; rw [e]; exact h2
  | sweep =>
    have e : (sweepPop p.sweep lbs ubs f s.pop s.best s.fresh).1
        = s.pop.map (fun a => sweepAgent ⟨0, false, lbs, ubs⟩ a (f a.pos)) := sweepPop_pop p.sweep false hr lbs ubs f _ _ _
    have ef : ((sweepPop p.sweep lbs ubs f s.pop s.best s.fresh).1).map (·.fit) = s.pop.map (·.fit) := by
      rw [e, List.map_map]
      apply List.map_congr_left
      intro a ha'
      simp [sweepAgent, (h1 a ha').2]
    refine ⟨?_, ?_, h3, h4⟩
    · intro a ha'
      simp only [TaskProg.execEv, greedyOracle] at ha'
      rw [e] at ha'
      obtain ⟨x, hx, rfl⟩ := List.mem_map.mp ha'
      exact ⟨by simpa [sweepAgent] using (h1 x hx).1, by simp [sweepAgent]⟩
    · intro d hd
      simp only [TaskProg.execEv, greedyOracle] at hd ⊢
      rw [ef]; exact h2 d hd
  | dump =>
    have er : (s.pop.map record).map (·.2) = s.pop.map (·.fit) := by simp [List.map_map, record, Function.comp_def]
    refine ⟨h1, ?_, ?_, ?_⟩
    · intro d hd
      simp only [TaskProg.execEv, List.mem_append, List.mem_singleton] at hd
      rcases hd with hd | rfl
      · exact h2 d hd
      · show LeAll _ ((s.pop.map record).map (·.2)); rw [er]; exact leAll_refl _
    · simp only [TaskProg.execEv]
      rw [List.pairwise_append]
      refine ⟨h3, by simp, ?_⟩
      intro d hd d' hd'
      simp only [List.mem_singleton] at hd'
      subst hd'
      show LeAll ((s.pop.map record).map (·.2)) _; rw [er]; exact h2 d hd
    · intro d hd r hr'
      simp only [TaskProg.execEv, List.mem_append, List.mem_singleton] at hd
      rcases hd with hd | rfl
      · exact h4 d hd r hr'
      · obtain ⟨a, ha', rfl⟩ := List.mem_map.mp hr'
        exact ⟨(h1 a ha').1, (h1 a ha').2⟩

theorem ginv_exec (hb : BoundsOk lbs ubs) (hs : opsOk false site.ops = true) (ha : acc.okReplace = true)
    (hc : ClipFixes p.clip lbs ubs) (hr : IsRule p.sweep false)
    (hscript : ∀ k, ∀ t ∈ script k, ∀ q ∈ t.proposals, q.length = lbs.length)
    (es : List SEv) (s : TaskSt) (h : GInv lbs ubs f s) :
    GInv lbs ubs f (p.exec lbs ubs (greedyOracle site acc lbs ubs f script) s es) := by
  induction es generalizing s with
  | nil => exact h
  | cons e es ih => exact ih _ (ginv_execEv p site acc lbs ubs f script hb hs ha hc hr hscript s e h)

theorem runSkel_pre (sk : Skeleton) (N : Nat) : ∃ rest, runSkel sk N = evs sk.pre ++ rest := by
  induction N with
  | zero => exact ⟨[], by simp [runSkel]⟩
  | succ n ih =>
    obtain ⟨r, hr⟩ := ih
    exact ⟨r ++ evs sk.body, by simp [runSkel, hr, List.append_assoc]⟩

/-- **C20 (and C01 for trials), task level.**  A task of a greedy optimiser — good skeleton, a space clip that leaves feasible
    positions alone, the machine's sweep rule, an evaluation site that clips before it evaluates, an acceptance site of the
    replacing kind — started from a feasible population: for every number of iterations, every objective and every trial
    script, every agent is feasible and truthful from the first sweep on (so every trial evaluates inside the box,
    `greedyUpdate_evals_inBox`), every per-agent record is feasible and truthful, and from record to record no agent's
    fitness increases. -/
theorem task_greedy (hg : Good true p.skel = true) (hb : BoundsOk lbs ubs) (hs : opsOk false site.ops = true)
    (ha : acc.okReplace = true) (hc : ClipFixes p.clip lbs ubs) (hr : IsRule p.sweep false)
    (hscript : ∀ k, ∀ t ∈ script k, ∀ q ∈ t.proposals, q.length = lbs.length)
    (pop : List Ag) (best : Ag) (h0 : ∀ a ∈ pop, InBox lbs ubs a.pos) (N : Nat) :
    GInv lbs ubs f (p.runTask lbs ubs (greedyOracle site acc lbs ubs f script) (TaskSt.start pop best) N) := by
  obtain ⟨hpre, _⟩ := good_pattern true p.skel hg
  obtain ⟨rest, hrest⟩ := runSkel_pre p.skel N
  unfold TaskProg.runTask
  rw [hrest, exec_append, hpre]
  apply ginv_exec p site acc lbs ubs f script hb hs ha hc hr hscript
  -- the state after the first hook and sweep
  have e : (sweepPop p.sweep lbs ubs f pop best 0).1
      = pop.map (fun a => sweepAgent ⟨0, false, lbs, ubs⟩ a (f a.pos)) := sweepPop_pop p.sweep false hr lbs ubs f _ _ _
  refine ⟨?_, by simp [exec_cons, exec_nil, TaskProg.execEv, TaskSt.start, greedyOracle],
    by simp [exec_cons, exec_nil, TaskProg.execEv, TaskSt.start, greedyOracle],
    by simp [exec_cons, exec_nil, TaskProg.execEv, TaskSt.start, greedyOracle]⟩
  intro a ha'
  simp only [exec_cons, exec_nil, TaskProg.execEv, TaskSt.start, greedyOracle] at ha'
  rw [e] at ha'
  obtain ⟨x, hx, rfl⟩ := List.mem_map.mp ha'
  exact ⟨by simpa [sweepAgent] using h0 x hx, by simp [sweepAgent]⟩

end

end Task
end Opy
