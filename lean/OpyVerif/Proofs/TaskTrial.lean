import OpyVerif.Proofs.TaskRun
import OpyVerif.Proofs.Accept
import OpyVerif.Proofs.C01
/-!
The greedy optimisers (ABC, CS, FPA, HS / IHS) at the level of a whole task: their update is no longer an arbitrary
oracle but a sequence of *trials*, each one an evaluation site (`Site`: assignments, the trial's own `check_limits`, the
objective call — `Generated/Skeletons: evalSites`) followed by an acceptance site (`AcceptRec` — `Generated/Accepts:
acceptSites`), both as the translator reads them.  What stays an oracle: which individual a trial is compared with, the
positions its assignments produce (all arithmetic, all draws), how many trials an update makes.

Theorems (for every iteration count, objective, trial script): every objective call of a trial is inside the box (C01);
every per-agent record written by `history.dump` is truthful — its fitness is the objective at its position, which is
feasible — and from one record to the next no agent's fitness increases (C20).
-/
namespace Opy
namespace Task

/-- one trial: the index of the population member it is compared with and the positions its assignments produce -/
structure Trial where
  who : Nat
  proposals : List Pos

def agOf (h : Holder) : Ag := { pos := h.pos, tpos := h.pos, fit := h.fit, ref := h.ref }
def holderOf (a : Ag) : Holder := { pos := a.pos, fit := a.fit, ref := a.ref }

/-- a trial on the population: the incumbent's position goes through the site's operations; the last position handed to the
    objective is the candidate; the acceptance site decides.  Returns the population and the objective calls made. -/
def trialStep (site : Site) (acc : AcceptRec) (lbs ubs : List Int) (f : Pos → Int) (pop : List Ag) (t : Trial) :
    List Ag × List (Pos × Int) :=
  match pop[t.who]? with
  | none => (pop, [])
  | some a =>
    let qs := runOps lbs ubs a.pos site.ops t.proposals
    match qs.getLast? with
    | none => (pop, [])
    | some q =>
      let r := acceptStep acc { pos := q, fit := f q, ref := 0 } (holderOf a) (holderOf a) 0
      (pop.set t.who (agOf r), qs.map fun q => (q, f q))

/-- an update: the trials one after the other -/
def greedyUpdate (site : Site) (acc : AcceptRec) (lbs ubs : List Int) (f : Pos → Int) :
    List Ag → List Trial → List Ag × List (Pos × Int)
  | pop, [] => (pop, [])
  | pop, t :: ts =>
    let r := trialStep site acc lbs ubs f pop t
    let rest := greedyUpdate site acc lbs ubs f r.1 ts
    (rest.1, r.2 ++ rest.2)

/-- the oracle of a greedy task: updates are trial scripts, the hook observes, there is no post step -/
def greedyOracle (site : Site) (acc : AcceptRec) (lbs ubs : List Int) (f : Pos → Int) (script : Nat → List Trial) : TaskOracle :=
  { f := f, upd := fun k st => ((greedyUpdate site acc lbs ubs f st.1 (script k)).1, st.2),
    updEv := fun k st => (greedyUpdate site acc lbs ubs f st.1 (script k)).2,
    hook := fun _ st => st, post := fun _ st => st }

/-- feasible and truthful: inside the box, and the stored fitness is the objective at the stored position -/
def Settled (lbs ubs : List Int) (f : Pos → Int) (a : Ag) : Prop := InBox lbs ubs a.pos ∧ a.fit = f a.pos

/-- point-wise `≤` of two fitness vectors of the same length -/
def LeAll : List Int → List Int → Prop
  | [], [] => True
  | x :: xs, y :: ys => x ≤ y ∧ LeAll xs ys
  | _, _ => False

theorem leAll_refl (xs : List Int) : LeAll xs xs := by
  induction xs with
  | nil => trivial
  | cons x xs ih => exact ⟨Int.le_refl x, ih⟩

theorem leAll_trans {xs ys zs : List Int} (h1 : LeAll xs ys) (h2 : LeAll ys zs) : LeAll xs zs := by
  induction xs generalizing ys zs with
  | nil => cases ys <;> cases zs <;> simp_all [LeAll]
  | cons x xs ih =>
    cases ys with
    | nil => simp [LeAll] at h1
    | cons y ys =>
      cases zs with
      | nil => simp [LeAll] at h2
      | cons z zs => exact ⟨Int.le_trans h1.1 h2.1, ih h1.2 h2.2⟩

theorem leAll_set (pop : List Ag) (i : Nat) (a a' : Ag) (hi : pop[i]? = some a) (h : a'.fit ≤ a.fit) :
    LeAll ((pop.set i a').map (·.fit)) (pop.map (·.fit)) := by
  induction pop generalizing i with
  | nil => simp at hi
  | cons x xs ih =>
    cases i with
    | zero =>
      simp only [List.getElem?_cons_zero, Option.some.injEq] at hi
      subst hi
      exact ⟨h, leAll_refl _⟩
    | succ j =>
      simp only [List.getElem?_cons_succ] at hi
      exact ⟨Int.le_refl _, ih j hi⟩

/-! ### one trial -/

section
variable (site : Site) (acc : AcceptRec) (lbs ubs : List Int) (f : Pos → Int)

/-- **C01, trial level.**  A site that passes `opsOk` hands only feasible positions to the objective, whatever its
    assignments produce. -/
theorem trialStep_evals_inBox (hb : BoundsOk lbs ubs) (hs : opsOk false site.ops = true) (pop : List Ag) (t : Trial)
    (hp : ∀ a ∈ pop, a.pos.length = lbs.length) (ht : ∀ p ∈ t.proposals, p.length = lbs.length) :
    ∀ e ∈ (trialStep site acc lbs ubs f pop t).2, InBox lbs ubs e.1 := by
  unfold trialStep
  cases hw : pop[t.who]? with
  | none => simp
  | some a =>
    simp only
    cases hq : (runOps lbs ubs a.pos site.ops t.proposals).getLast? with
    | none => simp
    | some q =>
      simp only
      intro e he
      simp only [List.mem_map] at he
      obtain ⟨x, hx, rfl⟩ := he
      exact site_evals_inBox lbs ubs a.pos site.ops t.proposals hb (hp a (List.mem_of_getElem? hw)) ht hs x hx

/-- **C20, trial level.**  With an acceptance site of the replacing kind nobody's fitness increases, the population keeps
    its size, and feasible truthful agents stay feasible and truthful. -/
theorem trialStep_pop (hb : BoundsOk lbs ubs) (hs : opsOk false site.ops = true) (ha : acc.okReplace = true)
    (pop : List Ag) (t : Trial) (hp : ∀ a ∈ pop, Settled lbs ubs f a) (ht : ∀ p ∈ t.proposals, p.length = lbs.length) :
    LeAll ((trialStep site acc lbs ubs f pop t).1.map (·.fit)) (pop.map (·.fit)) ∧
    ∀ a ∈ (trialStep site acc lbs ubs f pop t).1, Settled lbs ubs f a := by
  unfold trialStep
  cases hw : pop[t.who]? with
  | none => exact ⟨leAll_refl _, hp⟩
  | some a =>
    simp only
    cases hq : (runOps lbs ubs a.pos site.ops t.proposals).getLast? with
    | none => exact ⟨leAll_refl _, hp⟩
    | some q =>
      simp only
      have hamem : a ∈ pop := List.mem_of_getElem? hw
      have hqmem : q ∈ runOps lbs ubs a.pos site.ops t.proposals := List.mem_of_getLast? hq
      have hqbox : InBox lbs ubs q :=
        site_evals_inBox lbs ubs a.pos site.ops t.proposals hb (inBox_length lbs ubs a.pos (hp a hamem).1) ht hs q hqmem
      have hle := accept_never_worse acc ha { pos := q, fit := f q, ref := 0 } (holderOf a) (holderOf a) 0
      refine ⟨leAll_set pop t.who a _ hw (by simpa [agOf, holderOf] using hle), ?_⟩
      intro x hx
      rcases List.mem_or_eq_of_mem_set hx with hx | rfl
      · exact hp x hx
      · rcases accept_pair acc ha { pos := q, fit := f q, ref := 0 } (holderOf a) (holderOf a) 0 with e | e <;> rw [e]
        · exact ⟨(hp a hamem).1, (hp a hamem).2⟩
        · exact ⟨hqbox, rfl⟩

theorem greedyUpdate_evals_inBox (hb : BoundsOk lbs ubs) (hs : opsOk false site.ops = true) (ha : acc.okReplace = true)
    (pop : List Ag) (ts : List Trial) (hp : ∀ a ∈ pop, Settled lbs ubs f a)
    (ht : ∀ t ∈ ts, ∀ p ∈ t.proposals, p.length = lbs.length) :
    (∀ e ∈ (greedyUpdate site acc lbs ubs f pop ts).2, InBox lbs ubs e.1) ∧
    LeAll ((greedyUpdate site acc lbs ubs f pop ts).1.map (·.fit)) (pop.map (·.fit)) ∧
    ∀ a ∈ (greedyUpdate site acc lbs ubs f pop ts).1, Settled lbs ubs f a := by
  induction ts generalizing pop with
  | nil => exact ⟨by simp [greedyUpdate], leAll_refl _, hp⟩
  | cons t ts ih =>
    simp only [greedyUpdate]
    have h1 := trialStep_pop site acc lbs ubs f hb hs ha pop t hp (ht t List.mem_cons_self)
    have h0 := trialStep_evals_inBox site acc lbs ubs f hb hs pop t
      (fun a ha' => inBox_length lbs ubs a.pos (hp a ha').1) (ht t List.mem_cons_self)
    obtain ⟨i1, i2, i3⟩ := ih (trialStep site acc lbs ubs f pop t).1 h1.2 (fun t' ht' => ht t' (List.mem_cons_of_mem _ ht'))
    refine ⟨?_, leAll_trans i2 h1.1, i3⟩
    intro e he
    rcases List.mem_append.mp he with he | he
    · exact h0 e he
    · exact i1 e he

end

/-! ### the whole task -/

/-- the space-wide clip, run with the declared bounds `dl`, `du`, leaves the positions of the box `lbs … ubs` where they are
    (search spaces: the box is the declared one; hypercomplex spaces: the unit box, whatever was declared) -/
def ClipFixes (c : ClipLoop) (dl du lbs ubs : List Int) : Prop :=
  ∀ pos : Pos, InBox lbs ubs pos → c.runPos dl du pos = pos

theorem sweepPop_pop (l : SweepLoop) (swarm : Bool) (hr : IsRule l swarm) (lbs ubs : List Int) (f : Pos → Int)
    (pop : List Ag) (best : Ag) (fresh : Nat) :
    (sweepPop l lbs ubs f pop best fresh).1 = pop.map (fun a => sweepAgent ⟨0, swarm, lbs, ubs⟩ a (f a.pos)) := by
  obtain ⟨tie, hr⟩ := hr
  induction pop generalizing best fresh with
  | nil => simp [sweepPop]
  | cons a as ih => simp only [sweepPop, hr, List.map_cons]; rw [ih]

section
variable (p : TaskProg) (site : Site) (acc : AcceptRec) (dl du : List Int) (lbs ubs : List Int) (f : Pos → Int) (script : Nat → List Trial)

/-- what holds of a greedy task from its first sweep on -/
structure GInv (lbs ubs : List Int) (f : Pos → Int) (s : TaskSt) : Prop where
  /-- every agent is feasible and its stored fitness is the objective at its position -/
  settled : ∀ a ∈ s.pop, Settled lbs ubs f a
  /-- the population's fitness vector is point-wise at most every recorded one -/
  below : ∀ d ∈ s.dumps, LeAll (s.pop.map (·.fit)) (d.1.map (·.2))
  /-- … and every later record is point-wise at most every earlier one -/
  chain : s.dumps.Pairwise (fun d d' => LeAll (d'.1.map (·.2)) (d.1.map (·.2)))
  /-- every per-agent record is feasible and truthful -/
  truth : ∀ d ∈ s.dumps, ∀ r ∈ d.1, InBox lbs ubs r.1 ∧ r.2 = f r.1

theorem map_fix_settled (g : Ag → Ag) (pop : List Ag) (h : ∀ a ∈ pop, g a = a) : pop.map g = pop := by
  induction pop with
  | nil => rfl
  | cons a as ih =>
    simp only [List.map_cons]
    rw [h a List.mem_cons_self, ih (fun x hx => h x (List.mem_cons_of_mem _ hx))]

theorem ginv_execEv (hb : BoundsOk lbs ubs) (hs : opsOk false site.ops = true) (ha : acc.okReplace = true)
    (hc : ClipFixes p.clip dl du lbs ubs) (hr : IsRule p.sweep false)
    (hscript : ∀ k, ∀ t ∈ script k, ∀ q ∈ t.proposals, q.length = lbs.length)
    (s : TaskSt) (ev : SEv) (h : GInv lbs ubs f s) :
    GInv lbs ubs f (p.execEv dl du (greedyOracle site acc lbs ubs f script) s ev) := by
  obtain ⟨h1, h2, h3, h4⟩ := h
  cases ev with
  | update =>
    obtain ⟨_, u2, u3⟩ := greedyUpdate_evals_inBox site acc lbs ubs f hb hs ha s.pop (script s.k) h1 (hscript s.k)
    exact ⟨u3, fun d hd => leAll_trans u2 (h2 d hd), h3, h4⟩
  | hook => exact ⟨h1, h2, h3, h4⟩
  | post => exact ⟨h1, h2, h3, h4⟩
  | clipAll =>
    have e : (s.pop.map fun a => { a with pos := p.clip.runPos dl du a.pos }) = s.pop :=
      map_fix_settled _ s.pop (fun a ha' => by rw [hc a.pos (h1 a ha').1])
    refine ⟨?_, ?_, h3, h4⟩
    · simp only [TaskProg.execEv]; rw [e]; exact h1
    · simp only [TaskProg.execEv]; rw [e]; exact h2
  | sweep =>
    have e : (sweepPop p.sweep dl du f s.pop s.best s.fresh).1
        = s.pop.map (fun a => sweepAgent ⟨0, false, dl, du⟩ a (f a.pos)) := sweepPop_pop p.sweep false hr dl du f _ _ _
    have ef : ((sweepPop p.sweep dl du f s.pop s.best s.fresh).1).map (·.fit) = s.pop.map (·.fit) := by
      rw [e, List.map_map]
      apply List.map_congr_left
      intro a ha'
      simp [sweepAgent, (h1 a ha').2]
    refine ⟨?_, ?_, h3, h4⟩
    · intro a ha'
      simp only [TaskProg.execEv, greedyOracle] at ha'
      rw [e] at ha'
      obtain ⟨x, hx, rfl⟩ := List.mem_map.mp ha'
      exact ⟨by simpa [sweepAgent] using (h1 x hx).1, by simp [sweepAgent]⟩
    · intro d hd
      simp only [TaskProg.execEv, greedyOracle] at hd ⊢
      rw [ef]; exact h2 d hd
  | dump =>
    have er : (s.pop.map record).map (·.2) = s.pop.map (·.fit) := by simp [List.map_map, record, Function.comp_def]
    refine ⟨h1, ?_, ?_, ?_⟩
    · intro d hd
      simp only [TaskProg.execEv, List.mem_append, List.mem_singleton] at hd
      rcases hd with hd | rfl
      · exact h2 d hd
      · show LeAll _ ((s.pop.map record).map (·.2)); rw [er]; exact leAll_refl _
    · simp only [TaskProg.execEv]
      rw [List.pairwise_append]
      refine ⟨h3, by simp, ?_⟩
      intro d hd d' hd'
      simp only [List.mem_singleton] at hd'
      subst hd'
      show LeAll ((s.pop.map record).map (·.2)) _; rw [er]; exact h2 d hd
    · intro d hd r hr'
      simp only [TaskProg.execEv, List.mem_append, List.mem_singleton] at hd
      rcases hd with hd | rfl
      · exact h4 d hd r hr'
      · obtain ⟨a, ha', rfl⟩ := List.mem_map.mp hr'
        exact ⟨(h1 a ha').1, (h1 a ha').2⟩

theorem ginv_exec (hb : BoundsOk lbs ubs) (hs : opsOk false site.ops = true) (ha : acc.okReplace = true)
    (hc : ClipFixes p.clip dl du lbs ubs) (hr : IsRule p.sweep false)
    (hscript : ∀ k, ∀ t ∈ script k, ∀ q ∈ t.proposals, q.length = lbs.length)
    (es : List SEv) (s : TaskSt) (h : GInv lbs ubs f s) :
    GInv lbs ubs f (p.exec dl du (greedyOracle site acc lbs ubs f script) s es) := by
  induction es generalizing s with
  | nil => exact h
  | cons e es ih => exact ih _ (ginv_execEv p site acc dl du lbs ubs f script hb hs ha hc hr hscript s e h)

theorem runSkel_pre (sk : Skeleton) (N : Nat) : ∃ rest, runSkel sk N = evs sk.pre ++ rest := by
  induction N with
  | zero => exact ⟨[], by simp [runSkel]⟩
  | succ n ih =>
    obtain ⟨r, hr⟩ := ih
    exact ⟨r ++ evs sk.body, by simp [runSkel, hr, List.append_assoc]⟩

/-- **C20 (and C01 for trials), task level.**  A task of a greedy optimiser — good skeleton, a space clip that leaves feasible
    positions alone, the machine's sweep rule, an evaluation site that clips before it evaluates, an acceptance site of the
    replacing kind — started from a feasible population: for every number of iterations, every objective and every trial
    script, every agent is feasible and truthful from the first sweep on (so every trial evaluates inside the box,
    `greedyUpdate_evals_inBox`), every per-agent record is feasible and truthful, and from record to record no agent's
    fitness increases. -/
theorem task_greedy (hg : Good true p.skel = true) (hb : BoundsOk lbs ubs) (hs : opsOk false site.ops = true)
    (ha : acc.okReplace = true) (hc : ClipFixes p.clip dl du lbs ubs) (hr : IsRule p.sweep false)
    (hscript : ∀ k, ∀ t ∈ script k, ∀ q ∈ t.proposals, q.length = lbs.length)
    (pop : List Ag) (best : Ag) (h0 : ∀ a ∈ pop, InBox lbs ubs a.pos) (N : Nat) :
    GInv lbs ubs f (p.runTask dl du (greedyOracle site acc lbs ubs f script) (TaskSt.start pop best) N) := by
  obtain ⟨hpre, _⟩ := good_pattern true p.skel hg
  obtain ⟨rest, hrest⟩ := runSkel_pre p.skel N
  unfold TaskProg.runTask
  rw [hrest, exec_append, hpre]
  apply ginv_exec p site acc dl du lbs ubs f script hb hs ha hc hr hscript
  -- the state after the first hook and sweep
  have e : (sweepPop p.sweep dl du f pop best 0).1
      = pop.map (fun a => sweepAgent ⟨0, false, dl, du⟩ a (f a.pos)) := sweepPop_pop p.sweep false hr dl du f _ _ _
  refine ⟨?_, by simp [exec_cons, exec_nil, TaskProg.execEv, TaskSt.start, greedyOracle],
    by simp [exec_cons, exec_nil, TaskProg.execEv, TaskSt.start, greedyOracle],
    by simp [exec_cons, exec_nil, TaskProg.execEv, TaskSt.start, greedyOracle]⟩
  intro a ha'
  simp only [exec_cons, exec_nil, TaskProg.execEv, TaskSt.start, greedyOracle] at ha'
  rw [e] at ha'
  obtain ⟨x, hx, rfl⟩ := List.mem_map.mp ha'
  exact ⟨by simpa [sweepAgent] using h0 x hx, by simp [sweepAgent]⟩

end

/-! ### C02 for greedy tasks: the best agent bounds every objective call, trials included -/

theorem leAll_exists {xs ys : List Int} (h : LeAll xs ys) : ∀ y ∈ ys, ∃ x ∈ xs, x ≤ y := by
  induction xs generalizing ys with
  | nil => cases ys <;> simp_all [LeAll]
  | cons x xs ih =>
    cases ys with
    | nil => simp [LeAll] at h
    | cons y ys =>
      intro z hz
      rcases List.mem_cons.mp hz with rfl | hz
      · exact ⟨x, List.mem_cons_self, h.1⟩
      · obtain ⟨w, hw, hle⟩ := ih h.2 z hz
        exact ⟨w, List.mem_cons_of_mem _ hw, hle⟩

theorem leAll_agents {pop' pop : List Ag} (h : LeAll (pop'.map (·.fit)) (pop.map (·.fit))) :
    ∀ a ∈ pop, ∃ a' ∈ pop', a'.fit ≤ a.fit := by
  intro a ha
  obtain ⟨x, hx, hle⟩ := leAll_exists h a.fit (List.mem_map.mpr ⟨a, ha, rfl⟩)
  obtain ⟨a', ha', rfl⟩ := List.mem_map.mp hx
  exact ⟨a', ha', hle⟩

/-- a site with exactly one objective call evaluates exactly one position -/
theorem runOps_one (lbs ubs : List Int) (ops : List SiteOp) :
    ∀ (cur : Pos) (orc : List Pos), (runOps lbs ubs cur ops orc).length = (ops.filter (· == .eval)).length := by
  induction ops with
  | nil => intro cur orc; simp [runOps]
  | cons op rest ih =>
    intro cur orc
    cases op with
    | assign => cases orc <;> simp [runOps, ih]
    | clip => simp [runOps, ih]
    | eval => simp [runOps, ih]

/-- a replacing acceptance site leaves the incumbent at most as large as the candidate it was offered -/
theorem accept_bound (r : AcceptRec) (h : r.okReplace = true) (cand inc other : Holder) (fresh : Nat) :
    (acceptStep r cand inc other fresh).fit ≤ cand.fit := by
  simp only [AcceptRec.okReplace, Bool.and_eq_true, Bool.or_eq_true, beq_iff_eq] at h
  obtain ⟨⟨⟨⟨⟨⟨⟨hop, hl⟩, hr⟩, hp⟩, hc⟩, hf⟩, _⟩, _⟩ := h
  unfold acceptStep
  simp only [hl, hr, hp, hf, pick]
  rcases hop with hop | hop <;> rw [hop] <;> simp only [Cmp.eval] <;> split <;> simp_all <;> omega

section
variable (site : Site) (acc : AcceptRec) (lbs ubs : List Int) (f : Pos → Int)

theorem trialStep_bound (ha : acc.okReplace = true) (hone : (site.ops.filter (· == .eval)).length = 1)
    (pop : List Ag) (t : Trial) :
    ∀ e ∈ (trialStep site acc lbs ubs f pop t).2, ∃ a ∈ (trialStep site acc lbs ubs f pop t).1, a.fit ≤ e.2 := by
  unfold trialStep
  cases hw : pop[t.who]? with
  | none => simp
  | some a =>
    simp only
    have hlen := runOps_one lbs ubs site.ops a.pos t.proposals
    rw [hone] at hlen
    match hqs : runOps lbs ubs a.pos site.ops t.proposals, hlen with
    | [q], _ =>
      simp only [List.getLast?_singleton, List.map_cons, List.map_nil, List.mem_singleton]
      intro e he
      subst he
      have hi : t.who < pop.length := (List.getElem?_eq_some_iff.mp hw).1
      have hi' : t.who < (pop.set t.who (agOf (acceptStep acc { pos := q, fit := f q, ref := 0 } (holderOf a) (holderOf a) 0))).length := by
        simpa using hi
      have hm := List.getElem_mem hi'
      rw [List.getElem_set_self] at hm
      refine ⟨_, hm, ?_⟩
      simpa [agOf] using accept_bound acc ha { pos := q, fit := f q, ref := 0 } (holderOf a) (holderOf a) 0

theorem greedyUpdate_bound (hb : BoundsOk lbs ubs) (hs : opsOk false site.ops = true) (ha : acc.okReplace = true)
    (hone : (site.ops.filter (· == .eval)).length = 1)
    (pop : List Ag) (ts : List Trial) (hp : ∀ a ∈ pop, Settled lbs ubs f a)
    (ht : ∀ t ∈ ts, ∀ p ∈ t.proposals, p.length = lbs.length) :
    ∀ e ∈ (greedyUpdate site acc lbs ubs f pop ts).2, ∃ a ∈ (greedyUpdate site acc lbs ubs f pop ts).1, a.fit ≤ e.2 := by
  induction ts generalizing pop with
  | nil => simp [greedyUpdate]
  | cons t ts ih =>
    simp only [greedyUpdate]
    have h1 := trialStep_pop site acc lbs ubs f hb hs ha pop t hp (ht t List.mem_cons_self)
    have hrest := greedyUpdate_evals_inBox site acc lbs ubs f hb hs ha (trialStep site acc lbs ubs f pop t).1 ts h1.2
      (fun t' ht' => ht t' (List.mem_cons_of_mem _ ht'))
    intro e he
    rcases List.mem_append.mp he with he | he
    · obtain ⟨a, ha', hle⟩ := trialStep_bound site acc lbs ubs f ha hone pop t e he
      obtain ⟨a', ha'', hle'⟩ := leAll_agents hrest.2.1 a ha'
      exact ⟨a', ha'', Int.le_trans hle' hle⟩
    · exact ih (trialStep site acc lbs ubs f pop t).1 h1.2 (fun t' ht' => ht t' (List.mem_cons_of_mem _ ht')) e he

end

section
variable (p : TaskProg) (site : Site) (acc : AcceptRec) (dl du : List Int) (lbs ubs : List Int) (f : Pos → Int) (script : Nat → List Trial)

/-- every value a trial obtained is matched by a population member that is at least as good -/
def TrialBound (s : TaskSt) : Prop := ∀ e ∈ s.trialEvals, ∃ a ∈ s.pop, a.fit ≤ e.2

theorem trialBound_execEv (hb : BoundsOk lbs ubs) (hs : opsOk false site.ops = true) (ha : acc.okReplace = true)
    (hone : (site.ops.filter (· == .eval)).length = 1)
    (hc : ClipFixes p.clip dl du lbs ubs) (hr : IsRule p.sweep false)
    (hscript : ∀ k, ∀ t ∈ script k, ∀ q ∈ t.proposals, q.length = lbs.length)
    (s : TaskSt) (ev : SEv) (hg : GInv lbs ubs f s) (h : TrialBound s) :
    TrialBound (p.execEv dl du (greedyOracle site acc lbs ubs f script) s ev) := by
  cases ev with
  | update =>
    obtain ⟨_, u2, _⟩ := greedyUpdate_evals_inBox site acc lbs ubs f hb hs ha s.pop (script s.k) hg.settled (hscript s.k)
    intro e he
    simp only [TaskProg.execEv, greedyOracle, List.mem_append] at he ⊢
    rcases he with he | he
    · obtain ⟨a, ha', hle⟩ := h e he
      obtain ⟨a', ha'', hle'⟩ := leAll_agents u2 a ha'
      exact ⟨a', ha'', Int.le_trans hle' hle⟩
    · exact greedyUpdate_bound site acc lbs ubs f hb hs ha hone s.pop (script s.k) hg.settled (hscript s.k) e he
  | hook => exact h
  | post => exact h
  | dump => exact h
  | clipAll =>
    have e : (s.pop.map fun a => { a with pos := p.clip.runPos dl du a.pos }) = s.pop :=
      map_fix_settled _ s.pop (fun a ha' => by rw [hc a.pos (hg.settled a ha').1])
    intro x hx
    simp only [TaskProg.execEv] at hx ⊢
    rw [e]; exact h x hx
  | sweep =>
    have e : (sweepPop p.sweep dl du f s.pop s.best s.fresh).1
        = s.pop.map (fun a => sweepAgent ⟨0, false, dl, du⟩ a (f a.pos)) := sweepPop_pop p.sweep false hr dl du f _ _ _
    intro x hx
    simp only [TaskProg.execEv, greedyOracle] at hx ⊢
    obtain ⟨a, ha', hle⟩ := h x hx
    rw [e]
    exact ⟨_, List.mem_map.mpr ⟨a, ha', rfl⟩, by simpa [sweepAgent, (hg.settled a ha').2] using hle⟩

theorem ginv2_exec (hb : BoundsOk lbs ubs) (hs : opsOk false site.ops = true) (ha : acc.okReplace = true)
    (hone : (site.ops.filter (· == .eval)).length = 1)
    (hc : ClipFixes p.clip dl du lbs ubs) (hr : IsRule p.sweep false)
    (hscript : ∀ k, ∀ t ∈ script k, ∀ q ∈ t.proposals, q.length = lbs.length)
    (es : List SEv) (s : TaskSt) (hg : GInv lbs ubs f s) (h : TrialBound s) :
    GInv lbs ubs f (p.exec dl du (greedyOracle site acc lbs ubs f script) s es) ∧
    TrialBound (p.exec dl du (greedyOracle site acc lbs ubs f script) s es) := by
  induction es generalizing s with
  | nil => exact ⟨hg, h⟩
  | cons e es ih =>
    exact ih _ (ginv_execEv p site acc dl du lbs ubs f script hb hs ha hc hr hscript s e hg)
      (trialBound_execEv p site acc dl du lbs ubs f script hb hs ha hone hc hr hscript s e hg h)

/-- post steps and the dump of a greedy task leave population and best agent alone -/
theorem exec_tail_same (b : Nat) (s : TaskSt) :
    (p.exec dl du (greedyOracle site acc lbs ubs f script) s (List.replicate b .post ++ [.dump])).pop = s.pop ∧
    (p.exec dl du (greedyOracle site acc lbs ubs f script) s (List.replicate b .post ++ [.dump])).best = s.best ∧
    (p.exec dl du (greedyOracle site acc lbs ubs f script) s (List.replicate b .post ++ [.dump])).trialEvals = s.trialEvals := by
  induction b generalizing s with
  | zero => simp [exec_cons, exec_nil, TaskProg.execEv]
  | succ b ih =>
    rw [List.replicate_succ, List.cons_append, exec_cons]
    have := ih (p.execEv dl du (greedyOracle site acc lbs ubs f script) s .post)
    simpa [TaskProg.execEv, greedyOracle] using this

/-- **C02 for greedy tasks, every objective call counted.**  When a task of `N` iterations ends (for every `N`: at the end of
    every iteration), the best agent's fitness is at most every value the objective has returned — to a sweep *or to a
    trial* — for every objective and every trial script. -/
theorem task_greedy_best_is_min (hg : Good true p.skel = true) (hb : BoundsOk lbs ubs) (hs : opsOk false site.ops = true)
    (ha : acc.okReplace = true) (hone : (site.ops.filter (· == .eval)).length = 1)
    (hc : ClipFixes p.clip dl du lbs ubs) (hr : IsRule p.sweep false)
    (hscript : ∀ k, ∀ t ∈ script k, ∀ q ∈ t.proposals, q.length = lbs.length)
    (pop : List Ag) (best : Ag) (h0 : ∀ a ∈ pop, InBox lbs ubs a.pos) (N : Nat) :
    let s := p.runTask dl du (greedyOracle site acc lbs ubs f script) (TaskSt.start pop best) N
    (∀ e ∈ s.evals, s.best.fit ≤ e.2) ∧ (∀ e ∈ s.trialEvals, s.best.fit ≤ e.2) := by
  have hk : BestKept (greedyOracle site acc lbs ubs f script) := ⟨fun _ _ => rfl, fun _ _ => rfl, fun _ _ => rfl⟩
  refine ⟨(task_best p dl du _ false hr hk pop best N).1, ?_⟩
  obtain ⟨hpre, a, b, hbody⟩ := good_pattern true p.skel hg
  simp only [if_true] at hbody
  cases N with
  | zero =>
    simp only [runTask_zero, hpre]
    simp [exec_cons, exec_nil, TaskProg.execEv, TaskSt.start, greedyOracle]
  | succ n =>
    -- the state at the start of the last iteration satisfies both invariants (they hold after `pre` and are kept by every event)
    obtain ⟨rest, hrest⟩ := runSkel_pre p.skel n
    have hstart : GInv lbs ubs f (p.runTask dl du (greedyOracle site acc lbs ubs f script) (TaskSt.start pop best) n) :=
      task_greedy p site acc dl du lbs ubs f script hg hb hs ha hc hr hscript pop best h0 n
    have hpreTB : TrialBound (p.exec dl du (greedyOracle site acc lbs ubs f script) (TaskSt.start pop best) [.hook, .sweep]) := by
      intro e he
      simp [exec_cons, exec_nil, TaskProg.execEv, TaskSt.start, greedyOracle] at he
    have hpreG : GInv lbs ubs f (p.exec dl du (greedyOracle site acc lbs ubs f script) (TaskSt.start pop best) [.hook, .sweep]) := by
      have := task_greedy p site acc dl du lbs ubs f script hg hb hs ha hc hr hscript pop best h0 0
      simpa [runTask_zero, hpre] using this
    have hTBn : TrialBound (p.runTask dl du (greedyOracle site acc lbs ubs f script) (TaskSt.start pop best) n) := by
      unfold TaskProg.runTask
      rw [hrest, exec_append, hpre]
      exact (ginv2_exec p site acc dl du lbs ubs f script hb hs ha hone hc hr hscript rest _ hpreG hpreTB).2
    -- the last iteration: updates, clip, hook | sweep | posts, dump
    have hs_eq : p.runTask dl du (greedyOracle site acc lbs ubs f script) (TaskSt.start pop best) (n + 1) = p.exec dl du (greedyOracle site acc lbs ubs f script)
        (p.execEv dl du (greedyOracle site acc lbs ubs f script)
          (p.exec dl du (greedyOracle site acc lbs ubs f script)
            (p.runTask dl du (greedyOracle site acc lbs ubs f script) (TaskSt.start pop best) n)
            (List.replicate (a + 1) .update ++ [.clipAll, .hook])) .sweep)
        (List.replicate b .post ++ [.dump]) := by
      simp only [runTask_succ, hbody]
      simp only [exec_append, exec_cons, exec_nil, List.append_assoc]
    obtain ⟨g3, t3⟩ := ginv2_exec p site acc dl du lbs ubs f script hb hs ha hone hc hr hscript
      (List.replicate (a + 1) .update ++ [.clipAll, .hook]) _ hstart hTBn
    generalize p.exec dl du (greedyOracle site acc lbs ubs f script)
      (p.runTask dl du (greedyOracle site acc lbs ubs f script) (TaskSt.start pop best) n)
      (List.replicate (a + 1) .update ++ [.clipAll, .hook]) = s3 at hs_eq g3 t3
    have g4 := ginv_execEv p site acc dl du lbs ubs f script hb hs ha hc hr hscript s3 .sweep g3
    have t4 := trialBound_execEv p site acc dl du lbs ubs f script hb hs ha hone hc hr hscript s3 .sweep g3 t3
    -- right after the sweep the best agent is at most every agent
    have cov : ∀ x ∈ (p.execEv dl du (greedyOracle site acc lbs ubs f script) s3 .sweep).pop,
        (p.execEv dl du (greedyOracle site acc lbs ubs f script) s3 .sweep).best.fit ≤ x.fit := by
      have e : (sweepPop p.sweep dl du f s3.pop s3.best s3.fresh).1
          = s3.pop.map (fun a => sweepAgent ⟨0, false, dl, du⟩ a (f a.pos)) := sweepPop_pop p.sweep false hr dl du f _ _ _
      intro x hx
      simp only [TaskProg.execEv, greedyOracle] at hx ⊢
      rw [e] at hx
      obtain ⟨y, hy, rfl⟩ := List.mem_map.mp hx
      have := (sweepPop_best p.sweep false hr dl du f s3.pop s3.best s3.fresh).2 y hy
      simpa [sweepAgent] using this
    obtain ⟨q1, q2, q3⟩ := exec_tail_same p site acc dl du lbs ubs f script b
      (p.execEv dl du (greedyOracle site acc lbs ubs f script) s3 .sweep)
    intro e he
    rw [hs_eq] at he ⊢
    rw [q3] at he
    rw [q2]
    obtain ⟨x, hx, hle⟩ := t4 e he
    exact Int.le_trans (cov x hx) hle

end

end Task
end Opy
