import OpyVerif.Model.ClipProg
/-!
The expected `check_limits` loops mean the functions of `Model/Clip` the C01 / C06 / C13 theorems are
about — for every bound vector (of any lengths) and every position / population.
-/
namespace Opy

theorem clipRows_zip (lbs ubs : List Int) (p : Pos) :
    clipRows .zipFst .zipSnd (List.zip lbs ubs) p = clipPos lbs ubs p := by
  induction lbs generalizing ubs p with
  | nil => cases p <;> simp [clipRows, clipPos]
  | cons l lbs ih =>
    cases ubs with
    | nil => cases p <;> simp [clipRows, clipPos]
    | cons u ubs =>
      cases p with
      | nil => simp [clipRows, clipPos]
      | cons r rows => simp [clipRows, clipPos, BRef.pick, ih]

theorem clipRows_lit (a b : Int) (ps : List (Int × Int)) (p : Pos) :
    clipRows (.lit a) (.lit b) ps p = clipPos (List.replicate ps.length a) (List.replicate ps.length b) p := by
  induction ps generalizing p with
  | nil => cases p <;> simp [clipRows, clipPos]
  | cons q ps ih =>
    cases p with
    | nil => simp [clipRows, clipPos, List.replicate]
    | cons r rows => simp [clipRows, clipPos, List.replicate, BRef.pick, ih]

/-- `Agent.check_limits` as read from the source is `clipPos` with the agent's own bounds -/
theorem agentClip_run (lbs ubs : List Int) (p : Pos) :
    Expected.agentClip.runPos lbs ubs p = clipPos lbs ubs p := by
  simp [ClipLoop.runPos, Expected.agentClip, BSrc.pick, clipRows_zip]

/-- `SearchSpace.check_limits` is `clipAll` with the space's bounds -/
theorem searchClip_run (lbs ubs : List Int) (pop : List Pos) :
    Expected.searchClip.runAll lbs ubs pop = clipAll lbs ubs pop := by
  simp [ClipLoop.runAll, ClipLoop.runPos, Expected.searchClip, Expected.agentClip, BSrc.pick, clipRows_zip, clipAll]

/-- `HyperSpace.check_limits` clips the first `min(len lb, len ub)` rows to the unit interval,
    whatever the declared bounds are -/
theorem hyperClip_run (lbs ubs : List Int) (pop : List Pos) :
    Expected.hyperClip.runAll lbs ubs pop = clipAllHyper (min lbs.length ubs.length) pop := by
  simp [ClipLoop.runAll, ClipLoop.runPos, Expected.hyperClip, Expected.searchClip, Expected.agentClip, BSrc.pick,
    clipRows_lit, clipAllHyper, clipHyper, List.length_zip]

theorem expected_wellFormed :
    Expected.agentClip.wellFormed = true ∧ Expected.searchClip.wellFormed = true ∧
    Expected.hyperClip.wellFormed = true := by decide

end Opy
