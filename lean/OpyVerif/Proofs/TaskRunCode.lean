import OpyVerif.Proofs.TaskRunCodeBox
import OpyVerif.Generated.Sweeps.genericSweep_eq
import OpyVerif.Generated.Sweeps.psoSweep_eq
/-!
The task theorems of `Proofs/TaskRun.lean` about what the translator read from the working tree on this run: the sixteen
`run()` skeletons (`Gen.skel_*`), `SearchSpace.check_limits` / `HyperSpace.check_limits` (`Gen.searchClip`, `Gen.hyperClip`)
and the two evaluation sweeps (`Gen.genericSweep`, `Gen.psoSweep`).  Every hypothesis about the program is discharged by a
regenerated obligation; what remains are the assumptions about the oracles (`OracleOK`, `BestKept`), i.e. about the
arithmetic of the updates and about the user's hook.
-/
namespace Opy
open Task

/-- the two sweeps of these optimisers, as translated -/
def Gen.taskSweeps : List SweepLoop := [Gen.genericSweep, Gen.psoSweep]

theorem code_taskSweeps_plain : ∀ sw ∈ Gen.taskSweeps, sw.plain = true := by
  intro sw h
  simp only [Gen.taskSweeps, List.mem_cons, List.not_mem_nil, or_false] at h
  rcases h with rfl | rfl
  · rcases Gen.genericSweep_eq with h | h <;> rw [h] <;> decide
  · rcases Gen.psoSweep_eq with h | h <;> rw [h] <;> decide

theorem code_genericSweep_isRule : IsRule Gen.genericSweep false := by
  rcases Gen.genericSweep_eq with h | h <;> rw [h]
  · exact ⟨false, fun lbs ubs tp v fresh a best => genericSweep_is_machine_rule ⟨0, false, lbs, ubs⟩ rfl a best v fresh tp⟩
  · exact ⟨true, fun lbs ubs tp v fresh a best => genericSweepLe_is_machine_rule ⟨0, false, lbs, ubs⟩ rfl a best v fresh tp⟩

theorem code_psoSweep_isRule : IsRule Gen.psoSweep true := by
  rcases Gen.psoSweep_eq with h | h <;> rw [h]
  · exact ⟨false, fun lbs ubs tp v fresh a best => psoSweep_is_machine_rule ⟨0, true, lbs, ubs⟩ rfl a best v fresh tp⟩
  · exact ⟨true, fun lbs ubs tp v fresh a best => psoSweepLe_is_machine_rule ⟨0, true, lbs, ubs⟩ rfl a best v fresh tp⟩

theorem code_taskSweeps_isRule : ∀ sw ∈ Gen.taskSweeps, ∃ swarm, IsRule sw swarm := by
  intro sw h
  simp only [Gen.taskSweeps, List.mem_cons, List.not_mem_nil, or_false] at h
  rcases h with rfl | rfl
  · exact ⟨false, code_genericSweep_isRule⟩
  · exact ⟨true, code_psoSweep_isRule⟩


section
variable (sk : Skeleton) (hsk : sk ∈ Gen.taskSkeletons) (sw : SweepLoop) (hsw : sw ∈ Gen.taskSweeps)
include hsw

/-- **C02.**  The best agent's fitness bounds every value a sweep obtained and every recorded best fitness from below, and
    the recorded best fitnesses never increase (optimisers whose updates leave the best agent alone). -/
theorem code_task_best (c : ClipLoop) (lbs ubs : List Int) (o : TaskOracle) (hk : BestKept o) (pop : List Ag) (best : Ag) (N : Nat) :
    BestInv (TaskProg.runTask ⟨sk, c, sw⟩ lbs ubs o (TaskSt.start pop best) N) := by
  obtain ⟨swarm, hr⟩ := code_taskSweeps_isRule sw hsw
  exact task_best ⟨sk, c, sw⟩ lbs ubs o swarm hr hk pop best N

end

/-- **C01, best agent (search spaces, generic sweep).**  The best agent reported is the one the task was handed or feasible. -/
theorem code_task_best_inBox (sk : Skeleton) (hsk : sk ∈ Gen.taskSkeletons) (lbs ubs : List Int) (hb : BoundsOk lbs ubs)
    (o : TaskOracle) (ho : OracleOK lbs.length lbs ubs o) (hk : BestKept o)
    (pop : List Ag) (best : Ag) (h0 : ∀ a ∈ pop, InBox lbs ubs a.pos) (N : Nat) :
    (TaskProg.runTask ⟨sk, Gen.searchClip, Gen.genericSweep⟩ lbs ubs o (TaskSt.start pop best) N).best = best ∨
    InBox lbs ubs (TaskProg.runTask ⟨sk, Gen.searchClip, Gen.genericSweep⟩ lbs ubs o (TaskSt.start pop best) N).best.pos :=
  task_best_inBox ⟨sk, Gen.searchClip, Gen.genericSweep⟩ lbs ubs o (code_taskSkeletons_good sk hsk) lbs ubs
    (code_searchClip_clipsInto lbs ubs hb) ho code_genericSweep_isRule hk pop best h0 N

/-- **C02 in full (generic sweep).**  With an objective below the sentinel and a non-empty population the reported best is, from
    the first sweep on, an evaluated pair whose fitness is the minimum of everything the sweeps evaluated. -/
theorem code_task_best_is_min (sk : Skeleton) (hsk : sk ∈ Gen.taskSkeletons) (c : ClipLoop) (lbs ubs : List Int)
    (o : TaskOracle) (hk : BestKept o) (pop : List Ag) (best : Ag) (hlt : ∀ x, o.f x < best.fit)
    (hne : (o.hook 0 (pop, best)).1 ≠ []) (N : Nat) :
    let s := TaskProg.runTask ⟨sk, c, Gen.genericSweep⟩ lbs ubs o (TaskSt.start pop best) N
    (s.best.pos, s.best.fit) ∈ s.evals ∧ ∀ e ∈ s.evals, s.best.fit ≤ e.2 :=
  task_best_is_min ⟨sk, c, Gen.genericSweep⟩ lbs ubs o (code_taskSkeletons_good sk hsk) code_genericSweep_isRule hk pop best hlt hne N

/-! ### the hypotheses are satisfiable; the model runs (tests, not theorems about all inputs) -/

namespace TaskExample
def a0 : Ag := { pos := [[5]], tpos := [[5]], fit := 100, ref := 0 }
def b0 : Ag := { pos := [[0]], tpos := [[0]], fit := 1000, ref := 1 }
/-- objective `x ↦ x`; every update throws the only agent to 25, beyond the box [0, 10]; observer hook; no post step -/
def o0 : TaskOracle :=
  { f := fun p => (p.head?.bind List.head?).getD 0,
    upd := fun _ st => ([{ a0 with pos := [[25]] }], st.2), hook := fun _ st => st, post := fun _ st => st }

example : OracleOK 1 [0] [10] o0 :=
  ⟨by intro k st a ha; simp [o0] at ha; subst ha; rfl, by intro k st h a ha; exact h a ha⟩
example : BestKept o0 := ⟨fun _ _ => rfl, fun _ _ => rfl, fun _ _ => rfl⟩
example : BoundsOk [0] [10] ∧ ∀ a ∈ [a0], InBox [0] [10] a.pos := by simp [BoundsOk, InBox, a0]
example : Gen.skel_HC ∈ Gen.taskSkeletons ∧ Gen.genericSweep ∈ Gen.taskSweeps := by simp [Gen.taskSkeletons, Gen.taskSweeps]
/-- HC for two iterations: the sweeps see 5, then the clipped 10 twice; the best agent ends as (5, 5); two records -/
example :
    let s := TaskProg.runTask ⟨Gen.skel_HC, Gen.searchClip, Gen.genericSweep⟩ [0] [10] o0 (TaskSt.start [a0] b0) 2
    s.evals = [([[5]], 5), ([[10]], 10), ([[10]], 10)] ∧ record s.best = ([[5]], 5) ∧ s.hookOut = s.sweepArgs ∧
      s.dumps = [([([[10]], 10)], ([[5]], 5)), ([([[10]], 10)], ([[5]], 5))] := by decide +kernel
end TaskExample

end Opy
