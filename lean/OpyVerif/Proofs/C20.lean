import OpyVerif.Proofs.Lemmas.MachineLemmas2
/-!
C20 — records are truthful; greedy optimisers never accept a worse agent.

*Truthful*: an agent's record `(tpos, fit)` is literally one of the (argument, value) pairs of
the objective-call log.  The machine tracks a flag `truthful` that every dump copies into
`truthLog`; whenever the flag recorded by a dump is `true`, every agent of the dumped
population holds a truthful record.  The sweep re-establishes truth agent by agent (always in
the non-swarm family; in the swarm family whenever the personal best was truthful or is
improved).

*Greedy*: `greedyRun` is the monitor the harness runs on the observed event list of a greedy
optimiser (every population snapshot index-wise no worse than the previous one, the sweep
re-evaluates only unmoved truthful agents or keeps personal bests, no black-hole swap).  Under
it every agent's fitness is non-increasing along the history, and so are the rows of the
fitness log.  The harmony-search variant is about ranks: replacing the worst harmony by a
better one and re-sorting never makes the k-th best worse.
-/
set_option linter.unusedVariables false
namespace Opy

/-! ### truthful records -/

/-- **C20 (records).** If the truth flag recorded by a dump is `true`, every agent of the
    dumped population holds a pair the objective really returned. -/
theorem C20_records_truthful (cfg : Cfg) (pop : List Ag) (best : Ag)
    (hp : ∀ a ∈ pop, a.fit = cfg.fmax) (hb : best.fit = cfg.fmax)
    (evs : List Ev) (s' : St)
    (h : run cfg (initSt pop best) (evs ++ [.dump]) = some s')
    (hflag : s'.truthLog.getLast? = some true) :
    ∀ a ∈ s'.pop, (a.tpos, a.fit) ∈ s'.evals := by
  obtain ⟨s1, h1, h2⟩ := run_split cfg evs [.dump] _ s' h
  obtain ⟨s2, h3, h4⟩ := run_cons cfg s1 s' .dump [] h2
  simp only [run] at h4; cases h4
  have hi := inv_run cfg evs _ s1 (inv_init cfg pop best hp hb) h1
  obtain ⟨_, _, rfl⟩ := dump_spec cfg s1 _ h3
  dsimp only at hflag ⊢
  rw [List.getLast?_concat] at hflag
  exact hi.truthI (Option.some.inj hflag)

/-- the sweep step conjoins the truth of the swept agent's new record to the running flag -/
theorem sweep_tp (cfg : Cfg) (s s' : St) (v : Int) (tie : Bool) (r : Nat)
    (h : apply cfg s (.sweep v tie r) = some s') :
    ∃ a', s'.pop[s.cursor]? = some a' ∧ s'.tp = (s.tp && truthB s'.evals a') := by
  obtain ⟨a, hai, _, _, rfl⟩ := sweep_spec cfg s s' v tie r h
  obtain ⟨hcl, _⟩ := List.getElem?_eq_some_iff.1 hai
  exact ⟨sweepAgent cfg a v, by simp [hcl], rfl⟩

/-- non-swarm family: the swept agent is truthful afterwards, the running flag is unchanged -/
theorem sweep_nonswarm_tp (cfg : Cfg) (s s' : St) (v : Int) (tie : Bool) (r : Nat)
    (hs : cfg.swarm = false) (h : apply cfg s (.sweep v tie r) = some s') :
    s'.tp = s.tp ∧ ∃ a', s'.pop[s.cursor]? = some a' ∧ truthB s'.evals a' = true := by
  obtain ⟨a, hai, _, _, rfl⟩ := sweep_spec cfg s s' v tie r h
  obtain ⟨hcl, _⟩ := List.getElem?_eq_some_iff.1 hai
  have ht : truthB (s.evals ++ [(a.pos, v)]) (sweepAgent cfg a v) = true := by
    rw [sweepAgent_fit_nonswarm cfg a v hs, truthB_iff]
    simp [Truth]
  refine ⟨?_, sweepAgent cfg a v, by simp [hcl], ht⟩
  dsimp only
  rw [ht, Bool.and_true]

/-- swarm family: the personal best stays truthful if it was, and becomes truthful when it is
    improved; in both cases the running flag is unchanged.  (Otherwise — an untruthful record
    that is not improved — the flag drops: see the example at the end.) -/
theorem sweep_swarm_tp (cfg : Cfg) (s s' : St) (v : Int) (tie : Bool) (r : Nat) (a : Ag)
    (hs : cfg.swarm = true) (h : apply cfg s (.sweep v tie r) = some s')
    (ha : s.pop[s.cursor]? = some a) (hcase : v < a.fit ∨ Truth s.evals a) :
    s'.tp = s.tp ∧ ∃ a', s'.pop[s.cursor]? = some a' ∧ truthB s'.evals a' = true := by
  obtain ⟨a0, hai, _, _, rfl⟩ := sweep_spec cfg s s' v tie r h
  rw [ha] at hai; cases hai
  obtain ⟨hcl, _⟩ := List.getElem?_eq_some_iff.1 ha
  have ht : truthB (s.evals ++ [(a.pos, v)]) (sweepAgent cfg a v) = true := by
    rw [truthB_iff]
    rcases sweepAgent_cases cfg a v with h1 | ⟨_, h1, h2⟩
    · rw [h1]; simp [Truth]
    · rw [h1]
      rcases hcase with h3 | h3
      · omega
      · exact Truth.mono _ h3
  refine ⟨?_, sweepAgent cfg a v, by simp [hcl], ht⟩
  dsimp only
  rw [ht, Bool.and_true]

/-- **C20 (determinism guard).** Non-swarm family: re-evaluating an unmoved agent whose record
    is truthful returns the recorded value (the machine rejects anything else). -/
theorem sweep_truthful_same_fit (cfg : Cfg) (s s' : St) (v : Int) (tie : Bool) (r : Nat) (a : Ag)
    (hs : cfg.swarm = false) (h : apply cfg s (.sweep v tie r) = some s')
    (ha : s.pop[s.cursor]? = some a) (hT : Truth s.evals a) :
    (s'.pop[s.cursor]?).map Ag.fit = some a.fit := by
  obtain ⟨a0, hai, hcons, hsw, rfl⟩ := sweep_spec cfg s s' v tie r h
  rw [ha] at hai; cases hai
  obtain ⟨hcl, _⟩ := List.getElem?_eq_some_iff.1 ha
  have hpos : a.tpos = a.pos := by
    rcases hsw with h1 | h1
    · rw [hs] at h1; cases h1
    · exact h1
  have hv := consistent_truth_fit s.evals a v hcons hpos hT
  dsimp only
  simp [hcl, sweepAgent_fit_nonswarm cfg a v hs, hv]

/-- swarm family: the sweep never raises a recorded fitness (no hypothesis on the record) -/
theorem sweep_swarm_fit_le (cfg : Cfg) (s s' : St) (v : Int) (tie : Bool) (r : Nat) (a : Ag)
    (hs : cfg.swarm = true) (h : apply cfg s (.sweep v tie r) = some s')
    (ha : s.pop[s.cursor]? = some a) :
    ∃ a', s'.pop[s.cursor]? = some a' ∧ a'.fit ≤ a.fit := by
  obtain ⟨a0, hai, _, _, rfl⟩ := sweep_spec cfg s s' v tie r h
  rw [ha] at hai; cases hai
  obtain ⟨hcl, _⟩ := List.getElem?_eq_some_iff.1 ha
  exact ⟨sweepAgent cfg a v, by simp [hcl], sweepAgent_fit_le cfg a v hs⟩

/-! ### greedy optimisers -/

/-- **C20 (greedy, agents).** Along a history that passes the greedy monitor no agent's
    fitness ever goes up: the final population is index-wise no worse than the initial one
    (same size, population order fixed). -/
theorem greedy_fits_antitone (cfg : Cfg) (s s' : St) (evs : List Ev)
    (hg : greedyRun cfg s evs = true) (h : run cfg s evs = some s') :
    fitsLe s'.pop s.pop = true :=
  (greedy_log cfg evs s s' hg h).1

/-- the same, spelled out index-wise -/
theorem greedy_fits_antitone_idx (cfg : Cfg) (s s' : St) (evs : List Ev)
    (hg : greedyRun cfg s evs = true) (h : run cfg s evs = some s') :
    s'.pop.length = s.pop.length ∧
      ∀ i (h1 : i < s'.pop.length) (h2 : i < s.pop.length), s'.pop[i].fit ≤ s.pop[i].fit :=
  (fitsLe_iff _ _).1 (greedy_fits_antitone cfg s s' evs hg h)

/-- **C20 (greedy, log).** The fitness rows dumped during a history that passes the greedy
    monitor are index-wise non-increasing: every later row has the length of every earlier one
    and is entry-wise `≤` it (pairwise, hence in particular for consecutive rows). -/
theorem C20_greedy_agents (cfg : Cfg) (s s' : St) (evs : List Ev)
    (hg : greedyRun cfg s evs = true) (h : run cfg s evs = some s') :
    (s'.fitLog.drop s.fitLog.length).Pairwise (fun r1 r2 =>
      r2.length = r1.length ∧ ∀ i (h2 : i < r2.length) (h1 : i < r1.length), r2[i] ≤ r1[i]) := by
  obtain ⟨_, rows, hlog, hpw, _⟩ := greedy_log cfg evs s s' hg h
  rw [hlog, List.drop_left]
  exact hpw.imp (fun {r1 r2} hr => (rowLeB_iff r2 r1).1 hr)

/-- two-dump version: the row written by the last dump is index-wise `≤` the row written by
    the previous one -/
theorem C20_greedy_two_dumps (cfg : Cfg) (s s' : St) (evs1 evs2 : List Ev)
    (hg : greedyRun cfg s (evs1 ++ [.dump] ++ evs2 ++ [.dump]) = true)
    (h : run cfg s (evs1 ++ [.dump] ++ evs2 ++ [.dump]) = some s') :
    ∃ pre r1 r2, s'.fitLog = pre ++ [r1, r2] ∧ r2.length = r1.length ∧
      ∀ i (h2 : i < r2.length) (h1 : i < r1.length), r2[i] ≤ r1[i] := by
  have e1 : evs1 ++ [.dump] ++ evs2 ++ [.dump] = evs1 ++ (.dump :: (evs2 ++ [.dump])) := by simp
  rw [e1] at hg h
  obtain ⟨s1, h1, h2⟩ := run_split cfg evs1 _ s s' h
  obtain ⟨_, hg2⟩ := greedyRun_split cfg evs1 _ s s1 hg h1
  obtain ⟨s2, h3, h4⟩ := run_cons cfg s1 s' .dump _ h2
  simp only [greedyRun, h3, Bool.and_eq_true] at hg2
  obtain ⟨s3, h5, h6⟩ := run_split cfg evs2 [.dump] s2 s' h4
  obtain ⟨hg3, _⟩ := greedyRun_split cfg evs2 [.dump] s2 s3 hg2.2 h5
  obtain ⟨s4, h7, h8⟩ := run_cons cfg s3 s' .dump [] h6
  simp only [run] at h8; cases h8
  obtain ⟨hfit, rows, hlog, _, hrows⟩ := greedy_log cfg evs2 s2 s3 hg3 h5
  obtain ⟨_, _, hs2⟩ := dump_spec cfg s1 s2 h3
  obtain ⟨_, _, hs4⟩ := dump_spec cfg s3 _ h7
  have hpop2 : s2.pop = s1.pop := by rw [hs2]
  have hlog2 : s2.fitLog = s1.fitLog ++ [s1.pop.map (·.fit)] := by rw [hs2]
  have hlog4 : s'.fitLog = s2.fitLog ++ rows ++ [s3.pop.map (·.fit)] := by rw [hs4, ← hlog]
  by_cases hne : rows = []
  · -- no dump inside `evs2`: the previous row is the one written by the first dump
    refine ⟨s1.fitLog, s1.pop.map (·.fit), s3.pop.map (·.fit), ?_, ?_⟩
    · rw [hlog4, hlog2, hne]; simp
    · rw [hpop2] at hfit
      exact (rowLeB_iff _ _).1 hfit
  · -- otherwise it is the last row dumped inside `evs2`
    refine ⟨s2.fitLog ++ rows.dropLast, rows.getLast hne, s3.pop.map (·.fit), ?_, ?_⟩
    · have hdl := List.dropLast_concat_getLast hne
      calc s'.fitLog
          = s2.fitLog ++ (rows.dropLast ++ [rows.getLast hne]) ++ [s3.pop.map (·.fit)] := by
            rw [hdl]; exact hlog4
        _ = s2.fitLog ++ rows.dropLast ++ [rows.getLast hne, s3.pop.map (·.fit)] := by simp
    · exact (rowLeB_iff _ _).1 (hrows _ (List.getLast_mem hne)).1

/-! ### harmony search: ranks -/

/-- **C20 (ranks).** A sorted harmony memory whose worst entry is replaced by a strictly better
    value and re-sorted: still sorted, same size, and the k-th best is no worse for every k. -/
theorem replaceWorst_rank_antitone (v : Int) (l : List Int) (hs : l.Pairwise (· ≤ ·))
    (hne : l ≠ []) (hv : v < l.getLast hne) :
    (insertSorted v l.dropLast).Pairwise (· ≤ ·) ∧
    (insertSorted v l.dropLast).length = l.length ∧
    ∀ i (h1 : i < (insertSorted v l.dropLast).length) (h2 : i < l.length),
      (insertSorted v l.dropLast)[i] ≤ l[i] := by
  have hl := List.dropLast_concat_getLast hne
  have hs' : (l.dropLast ++ [l.getLast hne]).Pairwise (· ≤ ·) := by rw [hl]; exact hs
  have hle := insertSorted_rowLe v (l.getLast hne) (by omega) l.dropLast hs'
  rw [hl, rowLeB_iff] at hle
  refine ⟨insertSorted_sorted v _ (List.pairwise_append.1 hs').1, hle.1, hle.2⟩

/-- the no-op case: a candidate that is not strictly better than the worst leaves the memory
    unchanged -/
theorem replaceWorst_noop (v : Int) (l : List Int) (hne : l ≠ []) (hv : ¬ v < l.getLast hne) :
    replaceWorst v l = l := by
  unfold replaceWorst
  rw [List.getLast?_eq_some_getLast hne]
  simp [hv]

/-- both cases together, for the memory update as harmony search performs it -/
theorem replaceWorst_antitone (v : Int) (l : List Int) (hs : l.Pairwise (· ≤ ·)) :
    (replaceWorst v l).Pairwise (· ≤ ·) ∧ (replaceWorst v l).length = l.length ∧
    ∀ i (h1 : i < (replaceWorst v l).length) (h2 : i < l.length), (replaceWorst v l)[i] ≤ l[i] := by
  by_cases hne : l = []
  · subst hne; simp [replaceWorst]
  · by_cases hv : v < l.getLast hne
    · have : replaceWorst v l = insertSorted v l.dropLast := by
        unfold replaceWorst
        rw [List.getLast?_eq_some_getLast hne]
        simp [hv]
      rw [this]
      exact replaceWorst_rank_antitone v l hs hne hv
    · rw [replaceWorst_noop v l hne hv]
      exact ⟨hs, rfl, fun i _ _ => Int.le_refl _⟩

/-! ### non-vacuity -/

/-- the C02 demo history ends with a dump whose truth flag is `true` -/
example : ((run demoCfg (initSt demoPop demoBest) demoEvs).map (fun s => s.truthLog.getLast?))
    = some (some true) := by decide

/-- first iteration, then a greedy second iteration (accepted trial, clip, hook, re-evaluation
    of truthful unmoved agents, dump): accepted by the machine and by the monitor; the two
    dumped rows are `[10, 4]` then `[3, 4]` -/
example : (match run demoCfg (initSt demoPop demoBest) c20Pre with
    | some s0 => greedyRun demoCfg s0 c20Greedy &&
        ((run demoCfg s0 c20Greedy).map (fun s => s.fitLog)) == some [[10, 4], [3, 4]]
    | none => false) = true := by decide

/-- the monitor does reject the very first sweep of a non-swarm optimiser (the sentinel records
    are not truthful): monitoring starts after the initial evaluation -/
example : greedyRun demoCfg (initSt demoPop demoBest) c20Pre = false := by decide

/-- swarm family: a sweep that does not improve an *untruthful* personal best leaves the
    record untruthful and the running flag drops (so `sweep_swarm_tp` needs its case
    hypothesis) -/
example : ((apply c20Swarm
      { (initSt [{ pos := [[1]], tpos := [[2]], fit := 5, ref := 1 }]
          { pos := [[0]], tpos := [[0]], fit := 5, ref := 0 }) with cursor := 0, tp := true }
      (.sweep 7 false 2)).map (fun s => (s.tp, s.pop.map (·.fit)))) = some (false, [5]) := by decide
/-- … while an improving evaluation keeps it -/
example : ((apply c20Swarm
      { (initSt [{ pos := [[1]], tpos := [[2]], fit := 5, ref := 1 }]
          { pos := [[0]], tpos := [[0]], fit := 5, ref := 0 }) with cursor := 0, tp := true }
      (.sweep 3 false 2)).map (fun s => (s.tp, s.pop.map (·.fit)))) = some (true, [3]) := by decide

/-- harmony memory `[1, 4, 6, 9]`, new harmony `5` replaces the worst; `12` does not -/
example : insertSorted 5 [1, 4, 6, 9].dropLast = [1, 4, 5, 6] := by decide
example : replaceWorst 5 [1, 4, 6, 9] = [1, 4, 5, 6] := by decide
example : replaceWorst 12 [1, 4, 6, 9] = [1, 4, 6, 9] := by decide
example : [1, 4, 6, (9 : Int)].Pairwise (· ≤ ·) := by decide

#print axioms C20_records_truthful
#print axioms sweep_tp
#print axioms sweep_nonswarm_tp
#print axioms sweep_swarm_tp
#print axioms sweep_truthful_same_fit
#print axioms sweep_swarm_fit_le
#print axioms greedy_fits_antitone
#print axioms greedy_fits_antitone_idx
#print axioms C20_greedy_agents
#print axioms C20_greedy_two_dumps
#print axioms replaceWorst_rank_antitone
#print axioms replaceWorst_noop
#print axioms replaceWorst_antitone

end Opy
