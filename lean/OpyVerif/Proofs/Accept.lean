import OpyVerif.Model.Accept
import OpyVerif.Model.Machine
/-!
What a well-formed acceptance site guarantees, for every candidate, incumbent and oracle value:
the incumbent never gets worse, it ends up holding either its old pair or exactly the
candidate's (position, fitness) pair, on storage of its own; and a well-formed `best` site is the
machine's sweep rule (`takes` / `bestOf`) with `tie := (op = ≤)`.
The generated file proves `ok` of every site of the current source on every build.
-/
set_option linter.unusedVariables false
namespace Opy

theorem accept_never_worse (r : AcceptRec) (h : r.okReplace = true) (cand inc other : Holder) (fresh : Nat) :
    (acceptStep r cand inc other fresh).fit ≤ inc.fit := by
  simp only [AcceptRec.okReplace, Bool.and_eq_true, Bool.or_eq_true, beq_iff_eq] at h
  obtain ⟨⟨⟨⟨⟨⟨⟨hop, hl⟩, hr⟩, hp⟩, hc⟩, hf⟩, _⟩, _⟩ := h
  unfold acceptStep
  simp only [hl, hr, hp, hf, pick]
  split
  · rename_i hcmp
    rcases hop with h1 | h1 <;> simp only [h1, Cmp.eval, decide_eq_true_eq] at hcmp <;> simp <;> omega
  · exact Int.le_refl _

/-- the incumbent afterwards holds its old pair, or exactly the candidate's pair on fresh storage -/
theorem accept_pair (r : AcceptRec) (h : r.okReplace = true) (cand inc other : Holder) (fresh : Nat) :
    acceptStep r cand inc other fresh = inc ∨
    acceptStep r cand inc other fresh = { pos := cand.pos, fit := cand.fit, ref := fresh } := by
  simp only [AcceptRec.okReplace, Bool.and_eq_true, Bool.or_eq_true, beq_iff_eq] at h
  obtain ⟨⟨⟨⟨⟨⟨⟨hop, hl⟩, hr⟩, hp⟩, hc⟩, hf⟩, _⟩, _⟩ := h
  unfold acceptStep
  simp only [hl, hr, hp, hf, hc, pick]
  split
  · right; rfl
  · left; rfl

/-- no storage is shared with the candidate afterwards (given the candidate did not share before
    and `fresh` is fresh) -/
theorem accept_private (r : AcceptRec) (h : r.okReplace = true) (cand inc other : Holder) (fresh : Nat)
    (h1 : inc.ref ≠ cand.ref) (h2 : fresh ≠ cand.ref) :
    (acceptStep r cand inc other fresh).ref ≠ cand.ref := by
  rcases accept_pair r h cand inc other fresh with e | e <;> rw [e] <;> assumption

/-- strict improvement is always taken; a strictly worse candidate never -/
theorem accept_takes_better (r : AcceptRec) (h : r.okReplace = true) (cand inc other : Holder) (fresh : Nat) :
    (cand.fit < inc.fit → acceptStep r cand inc other fresh = { pos := cand.pos, fit := cand.fit, ref := fresh }) ∧
    (inc.fit < cand.fit → acceptStep r cand inc other fresh = inc) := by
  simp only [AcceptRec.okReplace, Bool.and_eq_true, Bool.or_eq_true, beq_iff_eq] at h
  obtain ⟨⟨⟨⟨⟨⟨⟨hop, hl⟩, hr⟩, hp⟩, hc⟩, hf⟩, _⟩, _⟩ := h
  unfold acceptStep
  simp only [hl, hr, hp, hf, hc, pick]
  constructor
  · intro hlt
    have : r.op.eval cand.fit inc.fit = true := by
      rcases hop with h1 | h1 <;> simp [h1, Cmp.eval] <;> omega
    simp [this]
  · intro hlt
    have : r.op.eval cand.fit inc.fit = false := by
      rcases hop with h1 | h1 <;> simp [h1, Cmp.eval] <;> omega
    simp [this]

/-- a well-formed `best` site *is* the machine's sweep rule: `takes … (tie := op = ≤)` / `bestOf` -/
theorem best_site_is_sweep_rule (r : AcceptRec) (h : r.okReplace = true) (a' best : Ag) (other : Holder) (fresh : Nat) :
    let cand : Holder := { pos := a'.tpos, fit := a'.fit, ref := 0 }
    let inc : Holder := { pos := best.pos, fit := best.fit, ref := best.ref }
    let out := acceptStep r cand inc other fresh
    let model := if takes best a' (r.op == .le) then bestOf a' fresh else best
    out.pos = model.pos ∧ out.fit = model.fit ∧ out.ref = model.ref := by
  simp only [AcceptRec.okReplace, Bool.and_eq_true, Bool.or_eq_true, beq_iff_eq] at h
  obtain ⟨⟨⟨⟨⟨⟨⟨hop, hl⟩, hr⟩, hp⟩, hc⟩, hf⟩, _⟩, _⟩ := h
  simp only [acceptStep, hl, hr, hp, hf, hc, pick, takes, bestOf]
  rcases hop with h1 | h1
  · simp only [h1, Cmp.eval]
    by_cases hlt : a'.fit < best.fit
    · simp [hlt]
    · simp [hlt]
  · simp only [h1, Cmp.eval]
    by_cases hlt : a'.fit < best.fit
    · have : a'.fit ≤ best.fit := by omega
      simp [hlt, this]
    · by_cases heq : a'.fit = best.fit
      · simp [heq]
      · have : ¬ a'.fit ≤ best.fit := by omega
        simp [hlt, this, heq]

/-- non-vacuity: the two shapes that occur (deep-copied fields / whole object), and a record that
    aliases the position is refused -/
def demoGood : AcceptRec :=
  { func := "ABC._evaluate_location", role := .greedy, op := .lt, lhs := .cand, rhs := .incumbent,
    posFrom := .cand, posCopy := true, fitFrom := .cand, both := true, unknown := 0 }
example : demoGood.ok = true := by decide
example : ({ demoGood with posCopy := false } : AcceptRec).ok = false := by decide
example : ({ demoGood with op := .gt } : AcceptRec).ok = false := by decide
example : ({ demoGood with lhs := .incumbent, rhs := .cand } : AcceptRec).ok = false := by decide

end Opy
