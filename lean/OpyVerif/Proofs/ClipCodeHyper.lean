import OpyVerif.Proofs.ClipProg
import OpyVerif.Proofs.C06
import OpyVerif.Generated.ClipLoops.hyperClip_eq
/-!
C01 / C06 / C13 stated about the *translated* `check_limits` methods: `Gen.agentClip`,
`Gen.searchClip`, `Gen.hyperClip` are what `harness/translate_loops.py` read from the current
working tree.  Each theorem composes the regenerated equality (`Generated/ClipLoops.lean`), the
meaning of the expected loop (`Proofs/ClipProg.lean`) and the projection theorems of `Proofs/C06.lean`.
-/
namespace Opy

theorem code_hyperClip (lbs ubs : List Int) (pop : List Pos) :
    Gen.hyperClip.runAll lbs ubs pop = clipAllHyper (min lbs.length ubs.length) pop := by
  rw [Gen.hyperClip_eq]; exact hyperClip_run lbs ubs pop

/-- `HyperSpace.check_limits` (as translated) puts every agent of the declared shape inside the unit box,
    whatever the declared bounds are -/
theorem code_hyperClip_inUnitBox (lbs ubs : List Int) (pop : List Pos) (hl : lbs.length = ubs.length)
    (hs : ∀ p ∈ pop, p.length = lbs.length) :
    ∀ q ∈ Gen.hyperClip.runAll lbs ubs pop,
      InBox (List.replicate lbs.length keyZero) (List.replicate lbs.length keyOne) q := by
  rw [code_hyperClip]
  intro q hq
  simp only [clipAllHyper, List.mem_map] at hq
  obtain ⟨p, hp, rfl⟩ := hq
  have h1 : min lbs.length ubs.length = p.length := by rw [hs p hp]; omega
  rw [h1, ← hs p hp]
  exact clipHyper_inUnitBox p

end Opy
