import OpyVerif.Proofs.TaskTrial
import OpyVerif.Proofs.TaskRunCode
import OpyVerif.Proofs.TaskTrialCode
import OpyVerif.Generated.Skeletons.evalSites_ok
/-!
C01 for *every* objective call of a task, whatever the optimiser does with the values.  An update is a script of trials at
evaluation sites of the translated table `Gen.evalSites` (ABC's two, BA, BHA, CS, FPA, HS, SA — everything that calls the objective
outside a sweep); after a trial the challenged individual is an *arbitrary* agent of the declared row count (accepted, rejected,
moved on: an oracle value), so no acceptance rule is assumed at all.  Theorem: for every iteration count, objective and script,
every position handed to the objective — by a sweep or inside an update — lies in the box.
-/
namespace Opy
namespace Task

/-- a trial whose outcome is an oracle value -/
structure AnyTrial where
  site : Site
  who : Nat
  proposals : List Pos
  /-- what stands at index `who` afterwards -/
  after : Ag

def anyTrialStep (lbs ubs : List Int) (f : Pos → Int) (pop : List Ag) (t : AnyTrial) : List Ag × List (Pos × Int) :=
  match pop[t.who]? with
  | none => (pop, [])
  | some a => (pop.set t.who t.after, (runOps lbs ubs a.pos t.site.ops t.proposals).map fun q => (q, f q))

def anyUpdate (lbs ubs : List Int) (f : Pos → Int) : List Ag → List AnyTrial → List Ag × List (Pos × Int)
  | pop, [] => (pop, [])
  | pop, t :: ts =>
    let r := anyTrialStep lbs ubs f pop t
    let rest := anyUpdate lbs ubs f r.1 ts
    (rest.1, r.2 ++ rest.2)

def anyOracle (lbs ubs : List Int) (f : Pos → Int) (script : Nat → List AnyTrial) : TaskOracle :=
  { f := f, upd := fun k st => ((anyUpdate lbs ubs f st.1 (script k)).1, st.2),
    updEv := fun k st => (anyUpdate lbs ubs f st.1 (script k)).2,
    hook := fun _ st => st, post := fun _ st => st }

/-- a well-formed trial: its site clips before it evaluates, everything has the declared row count -/
def AnyTrial.OK (lbs : List Int) (t : AnyTrial) : Prop :=
  opsOk false t.site.ops = true ∧ t.after.pos.length = lbs.length ∧ ∀ q ∈ t.proposals, q.length = lbs.length

theorem anyUpdate_spec (lbs ubs : List Int) (f : Pos → Int) (hb : BoundsOk lbs ubs) (pop : List Ag) (ts : List AnyTrial)
    (hp : ∀ a ∈ pop, a.pos.length = lbs.length) (ht : ∀ t ∈ ts, t.OK lbs) :
    (∀ e ∈ (anyUpdate lbs ubs f pop ts).2, InBox lbs ubs e.1) ∧
    ∀ a ∈ (anyUpdate lbs ubs f pop ts).1, a.pos.length = lbs.length := by
  induction ts generalizing pop with
  | nil => exact ⟨by simp [anyUpdate], hp⟩
  | cons t ts ih =>
    simp only [anyUpdate]
    obtain ⟨hs, hafter, hprop⟩ := ht t List.mem_cons_self
    have hstep : (∀ e ∈ (anyTrialStep lbs ubs f pop t).2, InBox lbs ubs e.1) ∧
        ∀ a ∈ (anyTrialStep lbs ubs f pop t).1, a.pos.length = lbs.length := by
      unfold anyTrialStep
      cases hw : pop[t.who]? with
      | none => exact ⟨by simp, hp⟩
      | some a =>
        refine ⟨?_, ?_⟩
        · intro e he
          simp only [List.mem_map] at he
          obtain ⟨q, hq, rfl⟩ := he
          exact site_evals_inBox lbs ubs a.pos t.site.ops t.proposals hb (hp a (List.mem_of_getElem? hw)) hprop hs q hq
        · intro x hx
          rcases List.mem_or_eq_of_mem_set hx with hx | rfl
          · exact hp x hx
          · exact hafter
    obtain ⟨i1, i2⟩ := ih (anyTrialStep lbs ubs f pop t).1 hstep.2 (fun t' ht' => ht t' (List.mem_cons_of_mem _ ht'))
    refine ⟨?_, i2⟩
    intro e he
    rcases List.mem_append.mp he with he | he
    · exact hstep.1 e he
    · exact i1 e he

/-- **C03, calls per update.**  With sites that call the objective once, an update makes at most one objective call per trial
    (exactly one for every trial that names an existing individual): the number of calls inside an update is bounded by the number
    of trials the algorithm performs, whatever they propose and whatever becomes of them. -/
theorem anyUpdate_calls (lbs ubs : List Int) (f : Pos → Int) (pop : List Ag) (ts : List AnyTrial)
    (hone : ∀ t ∈ ts, (t.site.ops.filter (· == .eval)).length = 1) :
    (anyUpdate lbs ubs f pop ts).2.length ≤ ts.length := by
  induction ts generalizing pop with
  | nil => simp [anyUpdate]
  | cons t ts ih =>
    simp only [anyUpdate, List.length_append, List.length_cons]
    have h1 : (anyTrialStep lbs ubs f pop t).2.length ≤ 1 := by
      unfold anyTrialStep
      cases pop[t.who]? with
      | none => simp
      | some a => simp [runOps_one, hone t List.mem_cons_self]
    have h2 := ih (anyTrialStep lbs ubs f pop t).1 (fun t' ht' => hone t' (List.mem_cons_of_mem _ ht'))
    omega

/-- reading an event list with one flag, "the whole population is known to be inside the box": updates clear it, the
    space-wide clip sets it, a sweep needs it; `none` = some sweep is reached without it -/
def scan : Bool → List SEv → Option Bool
  | c, [] => some c
  | _, .update :: l => scan false l
  | _, .clipAll :: l => scan true l
  | c, .sweep :: l => if c then scan c l else none
  | c, _ :: l => scan c l

theorem scan_append (c : Bool) (l1 l2 : List SEv) : scan c (l1 ++ l2) = (scan c l1).bind (fun c' => scan c' l2) := by
  induction l1 generalizing c with
  | nil => simp [scan]
  | cons e l ih =>
    cases e <;> simp only [List.cons_append, scan, ih]
    split <;> simp

theorem scan_updates (n : Nat) (c : Bool) : scan c (List.replicate (n + 1) .update) = some false := by
  induction n generalizing c with
  | zero => simp [scan]
  | succ n ih => rw [List.replicate_succ]; simp only [scan]; exact ih false

theorem scan_posts (n : Nat) (c : Bool) : scan c (List.replicate n .post) = some c := by
  induction n with
  | zero => simp [scan]
  | succ n ih => rw [List.replicate_succ]; simp only [scan]; exact ih

/-- the event pattern of a good skeleton is safe: started with a feasible population, every sweep finds one -/
theorem scan_runSkel (sk : Skeleton) (hg : Good true sk = true) (N : Nat) : scan true (runSkel sk N) = some true := by
  obtain ⟨hpre, a, b, hbody⟩ := good_pattern true sk hg
  simp only [if_true] at hbody
  induction N with
  | zero => simp [runSkel, hpre, scan]
  | succ n ih =>
    simp only [runSkel, scan_append, ih, Option.bind_some, hbody, scan_updates]
    simp [scan, scan_posts]

section
variable (p : TaskProg) (lbs ubs : List Int) (f : Pos → Int) (script : Nat → List AnyTrial)

/-- the clip loop keeps the number of rows -/
def ClipKeepsRows (c : ClipLoop) (lbs ubs : List Int) : Prop := ∀ pos : Pos, (c.runPos lbs ubs pos).length = pos.length

/-- rows as declared; every objective call so far — of a sweep or of a trial — inside the box -/
structure AInv (lbs ubs : List Int) (s : TaskSt) : Prop where
  rows : ∀ a ∈ s.pop, a.pos.length = lbs.length
  trials : ∀ e ∈ s.trialEvals, InBox lbs ubs e.1
  sweeps : ∀ e ∈ s.evals, InBox lbs ubs e.1

theorem scan_sound (hb : BoundsOk lbs ubs) (hc : ClipsInto p.clip lbs ubs lbs ubs) (hr : IsRule p.sweep false)
    (hscript : ∀ k, ∀ t ∈ script k, t.OK lbs) (es : List SEv) :
    ∀ (c c' : Bool) (s : TaskSt), scan c es = some c' → (c = true → ∀ a ∈ s.pop, InBox lbs ubs a.pos) → AInv lbs ubs s →
      AInv lbs ubs (p.exec lbs ubs (anyOracle lbs ubs f script) s es) ∧
      (c' = true → ∀ a ∈ (p.exec lbs ubs (anyOracle lbs ubs f script) s es).pop, InBox lbs ubs a.pos) := by
  induction es with
  | nil =>
    intro c c' s hsc hcl h
    simp only [scan, Option.some.injEq] at hsc
    subst hsc
    exact ⟨h, hcl⟩
  | cons ev es ih =>
    intro c c' s hsc hcl h
    rw [exec_cons]
    obtain ⟨h1, h2, h3⟩ := h
    cases ev with
    | update =>
      simp only [scan] at hsc
      obtain ⟨u1, u2⟩ := anyUpdate_spec lbs ubs f hb s.pop (script s.k) h1 (hscript s.k)
      refine ih false c' _ hsc (by simp) ⟨u2, ?_, h3⟩
      intro e he
      simp only [TaskProg.execEv, anyOracle, List.mem_append] at he
      rcases he with he | he
      · exact h2 e he
      · exact u1 e he
    | clipAll =>
      simp only [scan] at hsc
      have hin : ∀ a ∈ (p.execEv lbs ubs (anyOracle lbs ubs f script) s .clipAll).pop, InBox lbs ubs a.pos := by
        intro a ha
        simp only [TaskProg.execEv, List.mem_map] at ha
        obtain ⟨x, hx, rfl⟩ := ha
        exact hc x.pos (h1 x hx)
      exact ih true c' _ hsc (fun _ => hin) ⟨fun a ha => inBox_length lbs ubs a.pos (hin a ha), h2, h3⟩
    | hook => simp only [scan] at hsc; exact ih c c' _ hsc hcl ⟨h1, h2, h3⟩
    | post => simp only [scan] at hsc; exact ih c c' _ hsc hcl ⟨h1, h2, h3⟩
    | dump => simp only [scan] at hsc; exact ih c c' _ hsc hcl ⟨h1, h2, h3⟩
    | sweep =>
      simp only [scan] at hsc
      cases c with
      | false => simp at hsc
      | true =>
        simp only [if_true] at hsc
        have hin := hcl rfl
        have e : (sweepPop p.sweep lbs ubs f s.pop s.best s.fresh).1
            = s.pop.map (fun a => sweepAgent ⟨0, false, lbs, ubs⟩ a (f a.pos)) := sweepPop_pop p.sweep false hr lbs ubs f _ _ _
        have hin' : ∀ a ∈ (p.execEv lbs ubs (anyOracle lbs ubs f script) s .sweep).pop, InBox lbs ubs a.pos := by
          intro a ha
          simp only [TaskProg.execEv, anyOracle] at ha
          rw [e] at ha
          obtain ⟨x, hx, rfl⟩ := List.mem_map.mp ha
          simpa [sweepAgent] using hin x hx
        refine ih true c' _ hsc (fun _ => hin') ⟨fun a ha => inBox_length lbs ubs a.pos (hin' a ha), h2, ?_⟩
        intro x hx
        simp only [TaskProg.execEv, anyOracle, List.mem_append, List.mem_map] at hx
        rcases hx with hx | ⟨a, ha, rfl⟩
        · exact h3 x hx
        · exact hin a ha

/-- **C01, every objective call.**  Good skeleton, a clip loop that projects into the box, the machine's sweep rule, trial sites
    that clip before they evaluate — and nothing assumed about acceptance: for every iteration count, objective and script,
    every position a sweep evaluates and every position a trial evaluates lies in the box. -/
theorem task_all_evals_inBox (hg : Good true p.skel = true) (hb : BoundsOk lbs ubs)
    (hc : ClipsInto p.clip lbs ubs lbs ubs) (hr : IsRule p.sweep false)
    (hscript : ∀ k, ∀ t ∈ script k, t.OK lbs)
    (pop : List Ag) (best : Ag) (h0 : ∀ a ∈ pop, InBox lbs ubs a.pos) (N : Nat) :
    let s := p.runTask lbs ubs (anyOracle lbs ubs f script) (TaskSt.start pop best) N
    (∀ e ∈ s.evals, InBox lbs ubs e.1) ∧ (∀ e ∈ s.trialEvals, InBox lbs ubs e.1) := by
  have h := (scan_sound p lbs ubs f script hb hc hr hscript (runSkel p.skel N) true true (TaskSt.start pop best)
    (scan_runSkel p.skel hg N) (fun _ => h0)
    ⟨fun a ha => inBox_length lbs ubs a.pos (h0 a ha), by simp [TaskSt.start], by simp [TaskSt.start]⟩).1
  exact ⟨h.sweeps, h.trials⟩

end

end Task

open Task

/-- every site outside the sweeps, as translated, makes a well-formed trial whatever it proposes (of the declared row count) -/
theorem code_anyTrial_ok (site : Site) (hsite : site ∈ Gen.evalSites) (hns : site.isSweep = false) (lbs : List Int)
    (who : Nat) (proposals : List Pos) (after : Ag) (ha : after.pos.length = lbs.length)
    (hp : ∀ q ∈ proposals, q.length = lbs.length) :
    AnyTrial.OK lbs { site := site, who := who, proposals := proposals, after := after } := by
  have h := List.all_eq_true.mp Gen.evalSites_ok site hsite
  exact ⟨by simpa [Site.ok, hns] using h, ha, hp⟩

/-- **C03 about the translated sites.**  Every evaluation site of the current source calls the objective exactly once
    (`decide` over `Gen.evalSites`), so an update built from them makes at most one call per trial. -/
theorem code_anyUpdate_calls (lbs ubs : List Int) (f : Pos → Int) (pop : List Ag) (ts : List AnyTrial)
    (hsites : ∀ t ∈ ts, t.site ∈ Gen.evalSites) : (anyUpdate lbs ubs f pop ts).2.length ≤ ts.length :=
  anyUpdate_calls lbs ubs f pop ts (fun t ht => code_sites_one_eval t.site (hsites t ht))

/-- **C01 about the translated programs, every objective call.**  Any of the sixteen skeletons, `SearchSpace.check_limits`,
    `Optimizer._evaluate`, trials at any non-sweep sites of `Gen.evalSites` with arbitrary outcomes: every position handed to the
    objective, by a sweep or inside an update, lies in the declared box — for every `N`, objective and script. -/
theorem code_task_all_evals_inBox (sk : Skeleton) (hsk : sk ∈ Gen.taskSkeletons) (lbs ubs : List Int) (hb : BoundsOk lbs ubs)
    (f : Pos → Int) (script : Nat → List AnyTrial)
    (hscript : ∀ k, ∀ t ∈ script k, t.site ∈ Gen.evalSites ∧ t.site.isSweep = false ∧ t.after.pos.length = lbs.length ∧
      ∀ q ∈ t.proposals, q.length = lbs.length)
    (pop : List Ag) (best : Ag) (h0 : ∀ a ∈ pop, InBox lbs ubs a.pos) (N : Nat) :
    let s := TaskProg.runTask ⟨sk, Gen.searchClip, Gen.genericSweep⟩ lbs ubs (anyOracle lbs ubs f script) (TaskSt.start pop best) N
    (∀ e ∈ s.evals, InBox lbs ubs e.1) ∧ (∀ e ∈ s.trialEvals, InBox lbs ubs e.1) :=
  task_all_evals_inBox ⟨sk, Gen.searchClip, Gen.genericSweep⟩ lbs ubs f script (code_taskSkeletons_good sk hsk) hb
    (code_searchClip_clipsInto lbs ubs hb) code_genericSweep_isRule
    (fun k t ht => by
      obtain ⟨h1, h2, h3, h4⟩ := hscript k t ht
      exact code_anyTrial_ok t.site h1 h2 lbs t.who t.proposals t.after h3 h4)
    pop best h0 N

end Opy
