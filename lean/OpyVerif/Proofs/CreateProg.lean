import OpyVerif.Model.CreateProg
/-!
C07 (construction clause): the population a space builds has exactly `n_agents` agents, all of the declared shape, no two
of them the same object, and the best agent is a further object.
-/
namespace Opy

theorem createProg_run (n v d next : Nat) (hn : 0 < n) :
    Expected.createProg.run n v d next =
      some ((List.range n).map (fun i => (⟨next + i, v, d⟩ : AgentObj)), ⟨next + n, v, d⟩) := by
  cases n with
  | zero => omega
  | succ k =>
    simp only [CreateProg.run, CreateProg.wellFormed, Expected.createProg]
    simp [List.range_succ_eq_map]

theorem createProg_empty (v d next : Nat) : Expected.createProg.run 0 v d next = none := by
  simp [CreateProg.run, CreateProg.wellFormed, Expected.createProg]

/-- **what `_create_agents` builds** -/
theorem createProg_spec (n v d next : Nat) (ags : List AgentObj) (best : AgentObj)
    (h : Expected.createProg.run n v d next = some (ags, best)) :
    ags.length = n ∧ (ags.map (·.id)).Nodup ∧ best.id ∉ ags.map (·.id) ∧
      (∀ a ∈ ags, a.nVars = v ∧ a.nDims = d) ∧ best.nVars = v ∧ best.nDims = d ∧
      (∀ a ∈ ags, next ≤ a.id) ∧ next ≤ best.id := by
  have hn : 0 < n := by
    cases n with
    | zero => rw [createProg_empty] at h; cases h
    | succ k => omega
  rw [createProg_run n v d next hn] at h
  simp only [Option.some.injEq, Prod.mk.injEq] at h
  obtain ⟨rfl, rfl⟩ := h
  refine ⟨by simp, ?_, ?_, ?_, rfl, rfl, ?_, by simp⟩
  · simp only [List.map_map]
    rw [List.Nodup, List.pairwise_map]
    refine List.Pairwise.imp ?_ (List.nodup_range (n := n))
    intro a b hab e
    simp only [Function.comp] at e
    exact hab (by omega)
  · simp only [List.map_map, List.mem_map, List.mem_range, Function.comp, not_exists, not_and]
    intro i hi e
    omega
  · intro a ha
    simp only [List.mem_map, List.mem_range] at ha
    obtain ⟨i, _, rfl⟩ := ha
    exact ⟨rfl, rfl⟩
  · intro a ha
    simp only [List.mem_map, List.mem_range] at ha
    obtain ⟨i, _, rfl⟩ := ha
    simp

/-- a population made by repeating one object is *not* accepted by the specification (two slots, one object) -/
example : ((({ Expected.createProg with listKind := .repeated } : CreateProg).run 3 2 1 10).map
    fun r => (r.1.map (·.id))) = some [10, 10, 10] := by decide

example : (Expected.createProg.run 3 2 1 10).map (fun r => (r.1.map (·.id), r.2.id)) = some ([10, 11, 12], 13) := by decide

end Opy
