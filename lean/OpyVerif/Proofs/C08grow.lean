import OpyVerif.Proofs.Lemmas.GrowLemmas
/-!
C08 — GROW builds proper expression trees on fresh identities within the depth budget, and a
deep copy is a proper tree of the same shape sharing no node with its source.

Every statement about `grow` is conditional on the run succeeding
(`grow cfg k ds nid = some (t, ds', nid')`); nothing is assumed about the configuration
(in particular not that operator arities are 1 or 2 — the model returns `none` otherwise),
about the draw list, or about `k = max_depth - min_depth`.
`grow_total` characterises success: the run succeeds iff the draws respect, one after the
other, the range the code requests at that point (`drawsOk`, in `Lemmas/GrowLemmas.lean`).
-/
set_option linter.unusedVariables false
namespace Opy
namespace PNode

section grow
variable {cfg : GrowCfg} {k : Nat} {ds : List Nat} {nid : Nat} {t : PNode} {ds' : List Nat} {nid' : Nat}

/-- a grown tree is well-formed: non-empty, parentless root, every stored parent / flag right,
    arities respected, no node twice -/
theorem grow_wf (h : grow cfg k ds nid = some (t, ds', nid')) : WF cfg.ar t :=
  have g := grow_grown h
  ⟨g.ne_nil, g.storedPar, g.kidsLinked, g.arity, g.ids.2.2⟩

/-- identities are drawn from `[nid, nid')` and the counter strictly advances -/
theorem grow_ids_fresh (h : grow cfg k ds nid = some (t, ds', nid')) :
    (∀ x ∈ t.ids, nid ≤ x ∧ x < nid') ∧ nid < nid' :=
  have g := (grow_grown h).ids
  ⟨g.1, g.2.1⟩

/-- the counter advances by exactly the number of nodes -/
theorem grow_counter (h : grow cfg k ds nid = some (t, ds', nid')) : nid' = nid + t.size :=
  (grow_grown h).counter

/-- any later call (any configuration, budget, draws) started from a counter at or beyond the
    returned one yields a tree sharing no node with the first -/
theorem grow_disjoint_of_le {cfg₂ : GrowCfg} {k₂ : Nat} {es es' : List Nat} {m m' : Nat} {t₂ : PNode}
    (h₁ : grow cfg k ds nid = some (t, ds', nid')) (hm : nid' ≤ m)
    (h₂ : grow cfg₂ k₂ es m = some (t₂, es', m')) : ∀ x ∈ t.ids, x ∉ t₂.ids := by
  intro x hx hx2
  have := (grow_ids_fresh h₁).1 x hx
  have := (grow_ids_fresh h₂).1 x hx2
  omega

/-- two successive calls, the second continuing with the draws and the counter the first
    returned, build disjoint trees -/
theorem grow_disjoint {k₂ : Nat} {ds'' : List Nat} {nid'' : Nat} {t₂ : PNode}
    (h₁ : grow cfg k ds nid = some (t, ds', nid'))
    (h₂ : grow cfg k₂ ds' nid' = some (t₂, ds'', nid'')) : ∀ x ∈ t.ids, x ∉ t₂.ids :=
  grow_disjoint_of_le h₁ (Nat.le_refl _) h₂

/-- a freshly grown tree is no deeper than `k = max_depth - min_depth` (≤ `max_depth`) -/
theorem grow_depth_le (h : grow cfg k ds nid = some (t, ds', nid')) : t.maxD ≤ k :=
  (grow_grown h).maxD_le

/-- hence it has fewer than `2^(k+1)` nodes -/
theorem grow_size_lt (h : grow cfg k ds nid = some (t, ds', nid')) : t.size < 2 ^ (k + 1) :=
  (grow_grown h).size_lt

/-- every node of the tree carries a label; a terminal's name is a terminal index of the space
    (and it holds that terminal's array, `name + 1`), a function node's name is an operator
    code of the space's function set -/
theorem grow_terminals (h : grow cfg k ds nid = some (t, ds', nid')) :
    ∀ n ∈ t.pre, ∃ lb, n.lbl? = some lb ∧
      (lb.isTerm = true → lb.name < cfg.nTerminals ∧ lb.arr = lb.name + 1) ∧
      (lb.isTerm = false → lb.name ∈ cfg.funcs ∧ lb.arr = 0) :=
  allLbl_pre (grow_grown h).lbls

/-- exactly one draw per node, taken from the front of the list -/
theorem grow_consumes (h : grow cfg k ds nid = some (t, ds', nid')) :
    ds' <:+ ds ∧ ds.length = ds'.length + t.size := by
  obtain ⟨u, rfl, hu⟩ := (grow_grown h).consumes
  exact ⟨List.suffix_append u ds', by simp [hu]; omega⟩

/-- totality: if every operator of the function set is unary or binary and the draws are
    those of a range-respecting oracle (`drawsOk cfg [k] ds`: enough draws, each inside the
    range requested at that point — `[0, nTerminals)` at budget 0, `[0, |funcs| + nTerminals)`
    above), GROW returns a tree. -/
theorem grow_total (hfun : ∀ op ∈ cfg.funcs, cfg.ar op = 1 ∨ cfg.ar op = 2)
    (hok : drawsOk cfg [k] ds = true) (nid : Nat) :
    ∃ t ds' nid', grow cfg k ds nid = some (t, ds', nid') := by
  obtain ⟨t, ds', nid', h, _⟩ := grow_total_aux hfun k [] ds nid hok
  exact ⟨t, ds', nid', h⟩

/-- and only then (no assumption on the configuration) -/
theorem grow_some_drawsOk (h : grow cfg k ds nid = some (t, ds', nid')) :
    drawsOk cfg [k] ds = true :=
  (grow_grown h).drawsOk [] (by cases ds' <;> rfl)

end grow

section shift
variable {ar : Nat → Nat} {k : Nat} {t : PNode}

theorem shift_ids (k : Nat) (t : PNode) : (shift k t).ids = t.ids.map (· + k) := shift_ids' k t

/-- a deep copy of a well-formed tree is well-formed -/
theorem shift_wf (h : WF ar t) : WF ar (shift k t) := by
  obtain ⟨h1, h2, h3, h4, h5⟩ := h
  refine ⟨mt shift_eq_nil.1 h1, ?_, shift_kidsLinked h3, shift_arity h4, shift_nodup h5⟩
  cases t with
  | nil => rfl
  | mk i lb par fl l r => simp only [storedPar] at h2; subst h2; rfl

/-- a deep copy onto identities beyond the source's shares no node with it -/
theorem shift_disjoint (h : ∀ x ∈ t.ids, x < k) : ∀ x ∈ (shift k t).ids, x ∉ t.ids := by
  intro x hx hx'
  rw [shift_ids, List.mem_map] at hx
  obtain ⟨y, _, rfl⟩ := hx
  have := h _ hx'
  omega

/-- the copy has the same labels in pre-order, the same size and the same depth -/
theorem shift_shape (k : Nat) (t : PNode) :
    (shift k t).pre.map lbl? = t.pre.map lbl? ∧ (shift k t).size = t.size ∧
      (shift k t).maxD = t.maxD := by
  refine ⟨?_, shift_size' k t, shift_maxD' k t⟩
  rw [shift_pre', List.map_map]
  apply List.map_congr_left
  intro n _
  exact shift_lbl? k n

end shift

/-! ### the hypotheses are satisfiable and the results as expected on concrete inputs -/

/-- budget 2, draws `1,0,2,3` (binary op, unary op, terminal 2 at budget 0, terminal 3-2=1);
    the fifth draw is left over -/
example : grow exCfg 2 [1, 0, 2, 3, 9] 0 = some (exTree, [9], 4) := by decide
example : ∀ op ∈ exCfg.funcs, exCfg.ar op = 1 ∨ exCfg.ar op = 2 := by decide
example : drawsOk exCfg [2] [1, 0, 2, 3, 9] = true := by decide
example : wfB exCfg.ar exTree = true ∧ exTree.maxD = 2 ∧ exTree.size = 4 := by decide
/-- at budget 0 the code draws from the terminals only: a draw fine above is out of range here -/
example : grow exCfg 0 [3] 0 = none ∧ drawsOk exCfg [0] [3] = false := by decide
example : (grow exCfg 1 [3] 0).isSome = true := by decide
/-- draws exhausted -/
example : grow exCfg 2 [1, 0, 2] 0 = none ∧ drawsOk exCfg [2] [1, 0, 2] = false := by decide
/-- a ternary operator: the model refuses although the draws are in range (`hfun` is needed) -/
example : grow exCfgBad 1 [0, 0, 0, 0] 0 = none ∧ drawsOk exCfgBad [1] [0, 0, 0, 0] = true := by decide
/-- two successive calls -/
example : grow exCfg 0 [2] 4 = some (mk 4 ⟨true, 2, 3⟩ none true nil nil, [], 5) := by decide
/-- deep copy -/
example : (shift 10 exTree).ids = [10, 11, 12, 13] ∧ wfB exCfg.ar (shift 10 exTree) = true ∧
    (∀ x ∈ exTree.ids, x < 10) := by decide
example : shift 10 exTree =
    mk 10 ⟨false, 7, 0⟩ none true
      (mk 11 ⟨false, 5, 0⟩ (some 10) true (mk 12 ⟨true, 2, 3⟩ (some 11) true nil nil) nil)
      (mk 13 ⟨true, 1, 2⟩ (some 10) false nil nil) := by decide

end PNode
end Opy

#print axioms Opy.PNode.grow_wf
#print axioms Opy.PNode.grow_ids_fresh
#print axioms Opy.PNode.grow_counter
#print axioms Opy.PNode.grow_disjoint_of_le
#print axioms Opy.PNode.grow_disjoint
#print axioms Opy.PNode.grow_depth_le
#print axioms Opy.PNode.grow_size_lt
#print axioms Opy.PNode.grow_terminals
#print axioms Opy.PNode.grow_consumes
#print axioms Opy.PNode.grow_total
#print axioms Opy.PNode.grow_some_drawsOk
#print axioms Opy.PNode.shift_ids
#print axioms Opy.PNode.shift_wf
#print axioms Opy.PNode.shift_disjoint
#print axioms Opy.PNode.shift_shape
