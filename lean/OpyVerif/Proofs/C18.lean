import OpyVerif.Model.Select
/-!
C18 (order part) — tournament selection, `pairwise`, Bernoulli thresholding, for every fitness
vector (ties, negatives), every drawn round and every uniform stream, over keys.
The arithmetic part (affine maps, Lévy) is in `C18real.lean`.
-/
set_option linter.unusedVariables false
namespace Opy

theorem minList_mem : ∀ (l : List Int) (m : Int), minList l = some m → m ∈ l ∧ ∀ x ∈ l, m ≤ x := by
  intro l
  induction l with
  | nil => intro m h; simp [minList] at h
  | cons x xs ih =>
    intro m h
    simp only [minList] at h
    cases hxs : minList xs with
    | none =>
      rw [hxs] at h; cases h
      cases xs with
      | nil => simp
      | cons y ys =>
        simp only [minList] at hxs
        cases hm : minList ys <;> simp [hm] at hxs
    | some m' =>
      rw [hxs] at h
      obtain ⟨h1, h2⟩ := ih m' hxs
      simp only [Option.some.injEq] at h
      by_cases hle : x ≤ m'
      · simp only [hle, if_true] at h; subst h
        refine ⟨by simp, ?_⟩
        intro y hy; simp only [List.mem_cons] at hy
        rcases hy with rfl | hy
        · exact Int.le_refl _
        · have := h2 y hy; omega
      · simp only [hle, if_false] at h; subst h
        refine ⟨by simp [h1], ?_⟩
        intro y hy; simp only [List.mem_cons] at hy
        rcases hy with rfl | hy
        · omega
        · exact h2 y hy

theorem minList_some (l : List Int) (h : l ≠ []) : ∃ m, minList l = some m := by
  cases l with
  | nil => exact absurd rfl h
  | cons x xs => simp only [minList]; cases minList xs <;> simp

theorem firstIdx_spec : ∀ (l : List Int) (v : Int) (i : Nat), firstIdx v l = some i →
    ∃ h : i < l.length, l[i] = v ∧ ∀ j (hj : j < l.length), j < i → l[j] ≠ v := by
  intro l
  induction l with
  | nil => intro v i h; simp [firstIdx] at h
  | cons x xs ih =>
    intro v i h
    simp only [firstIdx] at h
    by_cases hx : x = v
    · simp only [hx, if_true, Option.some.injEq] at h; subst h
      exact ⟨by simp, by simpa using hx, by intro j _ hj; omega⟩
    · simp only [hx, if_false, Option.map_eq_some_iff] at h
      obtain ⟨k, hk, rfl⟩ := h
      obtain ⟨hkl, hkv, hkj⟩ := ih v k hk
      refine ⟨by simp; omega, by simpa using hkv, ?_⟩
      intro j hj hji
      cases j with
      | zero => simpa using hx
      | succ j => simp only [List.getElem_cons_succ]; exact hkj j (by simpa using hj) (by omega)

theorem firstIdx_some (l : List Int) (v : Int) (h : v ∈ l) : ∃ i, firstIdx v l = some i := by
  induction l with
  | nil => simp at h
  | cons x xs ih =>
    simp only [firstIdx]
    by_cases hx : x = v
    · exact ⟨0, by simp [hx]⟩
    · simp only [hx, if_false]
      have : v ∈ xs := by
        simp only [List.mem_cons] at h
        rcases h with h | h
        · exact absurd h.symm hx
        · exact h
      obtain ⟨i, hi⟩ := ih this
      exact ⟨i + 1, by simp [hi]⟩

/-- `tournament_selection` returns exactly one index per round -/
theorem tournament_length (fit : List Int) : ∀ (rounds : List (List Int)) (sel : List Nat),
    tournament fit rounds = some sel → sel.length = rounds.length := by
  intro rounds
  induction rounds with
  | nil => intro sel h; simp only [tournament, Option.some.injEq] at h; subst h; rfl
  | cons step rest ih =>
    intro sel h
    simp only [tournament] at h
    split at h
    · cases h
    · split at h
      · rename_i i is _ hr
        cases h
        simp [ih is hr]
      · cases h

/-- every selected index is valid; its fitness is the minimum of the values drawn for its
    round; and it is the *first* holder of that minimum -/
theorem tournament_spec (fit : List Int) : ∀ (rounds : List (List Int)) (sel : List Nat),
    tournament fit rounds = some sel →
    ∀ k (hk : k < sel.length) (hk' : k < rounds.length),
      ∃ h : sel[k] < fit.length,
        (fit[sel[k]] ∈ rounds[k] ∧ ∀ x ∈ rounds[k], fit[sel[k]] ≤ x) ∧
        ∀ j (hj : j < fit.length), j < sel[k] → fit[j] ≠ fit[sel[k]] := by
  intro rounds
  induction rounds with
  | nil => intro sel h k hk hk'; simp at hk'
  | cons step rest ih =>
    intro sel h k hk hk'
    simp only [tournament] at h
    split at h
    · cases h
    · rename_i m hm
      split at h
      · rename_i i is hi hr
        cases h
        cases k with
        | zero =>
          obtain ⟨h1, h2, h3⟩ := firstIdx_spec fit m i hi
          obtain ⟨h4, h5⟩ := minList_mem step m hm
          refine ⟨h1, ?_, ?_⟩
          · simp only [List.getElem_cons_zero]; rw [h2]; exact ⟨h4, h5⟩
          · intro j hj hji
            simp only [List.getElem_cons_zero] at hji ⊢
            rw [h2]; exact h3 j hj hji
        | succ k =>
          simp only [List.getElem_cons_succ]
          exact ih is hr k (by simpa using hk) (by simpa using hk')
      · cases h

/-- the selection is total whenever every round is non-empty and draws values of the list
    (which is what `np.random.choice(fitness)` returns) -/
theorem tournament_total (fit : List Int) (rounds : List (List Int))
    (h : ∀ step ∈ rounds, step ≠ [] ∧ ∀ x ∈ step, x ∈ fit) :
    ∃ sel, tournament fit rounds = some sel := by
  induction rounds with
  | nil => exact ⟨[], rfl⟩
  | cons step rest ih =>
    obtain ⟨hne, hmem⟩ := h step (by simp)
    obtain ⟨m, hm⟩ := minList_some step hne
    obtain ⟨i, hi⟩ := firstIdx_some fit m (hmem m (minList_mem step m hm).1)
    obtain ⟨is, his⟩ := ih (fun s hs => h s (by simp [hs]))
    exact ⟨i :: is, by simp [tournament, hm, hi, his]⟩

/-! ### pairwise -/

theorem pairwise_join {α : Type} : ∀ (l : List α), (pairwise l).flatten = l
  | [] => rfl
  | [x] => rfl
  | x :: y :: rest => by simp [pairwise, pairwise_join rest]

/-- every chunk but possibly the last is a pair; the last one is a singleton exactly when the
    length is odd -/
theorem pairwise_chunks {α : Type} : ∀ (l : List α),
    (∀ c ∈ pairwise l, c.length = 2 ∨ c.length = 1) ∧
    (l.length % 2 = 0 → ∀ c ∈ pairwise l, c.length = 2) ∧
    (pairwise l).length = (l.length + 1) / 2
  | [] => by simp [pairwise]
  | [x] => by simp [pairwise]
  | x :: y :: rest => by
    obtain ⟨h1, h2, h3⟩ := pairwise_chunks rest
    refine ⟨?_, ?_, ?_⟩
    · intro c hc
      simp only [pairwise, List.mem_cons] at hc
      rcases hc with rfl | hc
      · simp
      · exact h1 c hc
    · intro hev c hc
      simp only [pairwise, List.mem_cons] at hc
      rcases hc with rfl | hc
      · simp
      · exact h2 (by simp at hev; omega) c hc
    · simp only [pairwise, List.length_cons, h3]; omega

/-- chunk `k` is the pair of consecutive elements `2k, 2k+1` -/
theorem pairwise_get {α : Type} : ∀ (l : List α) (k : Nat) (h : 2 * k + 1 < l.length),
    (pairwise l)[k]? = some [l[2 * k]'(by omega), l[2 * k + 1]]
  | [], k, h => by simp at h
  | [x], k, h => by simp at h
  | x :: y :: rest, 0, h => by simp [pairwise]
  | x :: y :: rest, k + 1, h => by
    have := pairwise_get rest k (by simp at h; omega)
    simp only [pairwise, List.getElem?_cons_succ, this]
    simp [Nat.mul_add]

/-! ### Bernoulli -/

theorem bernoulli_length (p : Int) (us : List Int) : (bernoulli p us).length = us.length := by
  simp [bernoulli]

theorem bernoulli_values (p : Int) (us : List Int) : ∀ b ∈ bernoulli p us, b = 0 ∨ b = 1 := by
  intro b hb
  simp only [bernoulli, List.mem_map] at hb
  obtain ⟨u, _, rfl⟩ := hb
  split <;> simp

/-- monotone in the probability for a fixed stream -/
theorem bernoulli_mono (p p' : Int) (h : p ≤ p') (us : List Int) (i : Nat) (hi : i < us.length) :
    (bernoulli p us)[i]'(by simpa [bernoulli] using hi) ≤ (bernoulli p' us)[i]'(by simpa [bernoulli] using hi) := by
  simp only [bernoulli, List.getElem_map]
  split <;> split <;> omega

/-- probability 0 (or anything ≤ every draw; unit draws are ≥ 0): all zeros -/
theorem bernoulli_zero (p : Int) (us : List Int) (h : ∀ u ∈ us, p ≤ u) : ∀ b ∈ bernoulli p us, b = 0 := by
  intro b hb
  simp only [bernoulli, List.mem_map] at hb
  obtain ⟨u, hu, rfl⟩ := hb
  have := h u hu
  split <;> omega

/-- probability 1 (unit draws are < 1): all ones -/
theorem bernoulli_one (p : Int) (us : List Int) (h : ∀ u ∈ us, u < p) : ∀ b ∈ bernoulli p us, b = 1 := by
  intro b hb
  simp only [bernoulli, List.mem_map] at hb
  obtain ⟨u, hu, rfl⟩ := hb
  have := h u hu
  split <;> omega

/-- non-vacuity / tests on literals -/
example : tournament [5, -3, 7, -3] [[7, -3], [5, 5], [7, 5]] = some [1, 0, 0] := by decide
example : pairwise [1, 2, 3, 4, 5] = [[1, 2], [3, 4], [5]] := by decide
example : bernoulli 5 [0, 4, 5, 9] = [1, 1, 0, 0] := by decide

end Opy
