import OpyVerif.Proofs.C15
import OpyVerif.Proofs.Formulas
import OpyVerif.Generated.FormulasC15
/-!
C15 stated about the *translated source*: the expressions of `Generated/FormulasDefs.lean` are what
`harness/translate_formulas.py` read from the current working tree.  Each theorem composes the
regenerated equality "source = expected expression" (`Generated/FormulasC15.lean`, re-decided on
every build), the denotation theorem of `Proofs/Formulas.lean` (expected expression = model, all
inputs) and the real-number theorem about the model.  `env` gives the values of the named
quantities the expression mentions (`self.w_min`, `space.n_iterations`, the loop counter `t`, …).
-/
set_option linter.unusedVariables false
namespace Opy

/-! ## C15 — the five self-adapting updates -/

/-- the value the source assigns to the adaptive attribute `name` -/
noncomputable def schedCode (name : String) (env : String → ℝ) : Option (FVal ℝ) :=
  (Gen.scheduleExprs.lookup name).map (·.denote env [])

/-- AIWPSO `self.w = …` stays in `[w_min, w_max]` -/
theorem code_aiwpso_w_mem (env : String → ℝ) (p n : ℕ) (hp : env "p" = (p : ℝ)) (hn : env "len(agents)" = (n : ℝ))
    (hn0 : 0 < n) (hpn : p ≤ n) (hw : env "self.w_min" ≤ env "self.w_max") :
    ∃ w, schedCode "aiwpso_w" env = some (.s w) ∧ env "self.w_min" ≤ w ∧ w ≤ env "self.w_max" := by
  refine ⟨_, ?_, aiwpsoW_mem _ _ p n hn0 hpn hw⟩
  unfold schedCode; rw [Gen.sched_aiwpso_w_eq]; exact d_aiwpso_w env p n hp hn

/-- IHS `self.PAR = …` stays in `[PAR_min, PAR_max]` for every iteration `t < N` -/
theorem code_ihs_PAR_mem (env : String → ℝ) (N t : ℕ) (hN : env "space.n_iterations" = (N : ℝ)) (ht : env "t" = (t : ℝ))
    (hN0 : 0 < N) (htN : t < N) (hp : env "self.PAR_min" ≤ env "self.PAR_max") :
    ∃ v, schedCode "ihs_PAR" env = some (.s v) ∧ env "self.PAR_min" ≤ v ∧ v ≤ env "self.PAR_max" := by
  refine ⟨_, ?_, ihsPAR_mem _ _ N t hN0 htN hp⟩
  unfold schedCode; rw [Gen.sched_ihs_PAR_eq]; exact d_ihs_PAR env N t hN ht

/-- IHS `self.bw = …` stays in `[bw_min, bw_max]` for every iteration `t < N` -/
theorem code_ihs_bw_mem (env : String → ℝ) (N t : ℕ) (hN : env "space.n_iterations" = (N : ℝ)) (ht : env "t" = (t : ℝ))
    (hN0 : 0 < N) (htN : t < N) (h0 : 0 < env "self.bw_min") (hb : env "self.bw_min" ≤ env "self.bw_max") :
    ∃ v, schedCode "ihs_bw" env = some (.s v) ∧ env "self.bw_min" ≤ v ∧ v ≤ env "self.bw_max" := by
  refine ⟨_, ?_, ihsBw_mem _ _ N t hN0 htN h0 hb⟩
  unfold schedCode; rw [Gen.sched_ihs_bw_eq]; exact d_ihs_bw env N t hN ht

/-- IHS `self.PAR = …` read at two iterations `t ≤ t'` of one task (same `PAR_min`, `PAR_max`, `n_iterations`):
    the later value is not smaller, and the value at `t = 0` is `PAR_min` -/
theorem code_ihs_PAR_monotone (env env' : String → ℝ) (N t t' : ℕ)
    (hN : env "space.n_iterations" = (N : ℝ)) (hN' : env' "space.n_iterations" = (N : ℝ))
    (ht : env "t" = (t : ℝ)) (ht' : env' "t" = (t' : ℝ))
    (hmin : env' "self.PAR_min" = env "self.PAR_min") (hmax : env' "self.PAR_max" = env "self.PAR_max")
    (hp : env "self.PAR_min" ≤ env "self.PAR_max") (htt : t ≤ t') :
    ∃ v v', schedCode "ihs_PAR" env = some (.s v) ∧ schedCode "ihs_PAR" env' = some (.s v') ∧ v ≤ v' ∧
      (t = 0 → v = env "self.PAR_min") := by
  refine ⟨ihsPAR (env "self.PAR_min") (env "self.PAR_max") N t,
    ihsPAR (env' "self.PAR_min") (env' "self.PAR_max") N t', ?_, ?_, ?_, ?_⟩
  · unfold schedCode; rw [Gen.sched_ihs_PAR_eq]; exact d_ihs_PAR env N t hN ht
  · unfold schedCode; rw [Gen.sched_ihs_PAR_eq]; exact d_ihs_PAR env' N t' hN' ht'
  · rw [hmin, hmax]; exact ihsPAR_monotone _ _ N t t' hp htt
  · intro h0; subst h0; exact ihsPAR_zero _ _ N

/-- IHS `self.bw = …` read at two iterations `t ≤ t'` of one task: the later value is not larger, and the value at
    `t = 0` is `bw_max` -/
theorem code_ihs_bw_antitone (env env' : String → ℝ) (N t t' : ℕ)
    (hN : env "space.n_iterations" = (N : ℝ)) (hN' : env' "space.n_iterations" = (N : ℝ))
    (ht : env "t" = (t : ℝ)) (ht' : env' "t" = (t' : ℝ))
    (hmin : env' "self.bw_min" = env "self.bw_min") (hmax : env' "self.bw_max" = env "self.bw_max")
    (h0 : 0 < env "self.bw_min") (hb : env "self.bw_min" ≤ env "self.bw_max") (htt : t ≤ t') :
    ∃ v v', schedCode "ihs_bw" env = some (.s v) ∧ schedCode "ihs_bw" env' = some (.s v') ∧ v' ≤ v ∧
      (t = 0 → v = env "self.bw_max") := by
  refine ⟨ihsBw (env "self.bw_min") (env "self.bw_max") N t,
    ihsBw (env' "self.bw_min") (env' "self.bw_max") N t', ?_, ?_, ?_, ?_⟩
  · unfold schedCode; rw [Gen.sched_ihs_bw_eq]; exact d_ihs_bw env N t hN ht
  · unfold schedCode; rw [Gen.sched_ihs_bw_eq]; exact d_ihs_bw env' N t' hN' ht'
  · rw [hmin, hmax]; exact ihsBw_antitone _ _ N t t' h0 hb htt
  · intro h0; subst h0; exact ihsBw_zero _ _ N

/-- AIWPSO `self.w = …` for two success counts `p ≤ p'` over the same swarm: more successes, no smaller weight -/
theorem code_aiwpso_w_monotone (env env' : String → ℝ) (p p' n : ℕ)
    (hp : env "p" = (p : ℝ)) (hp' : env' "p" = (p' : ℝ))
    (hn : env "len(agents)" = (n : ℝ)) (hn' : env' "len(agents)" = (n : ℝ))
    (hmin : env' "self.w_min" = env "self.w_min") (hmax : env' "self.w_max" = env "self.w_max")
    (hw : env "self.w_min" ≤ env "self.w_max") (hpp : p ≤ p') :
    ∃ w w', schedCode "aiwpso_w" env = some (.s w) ∧ schedCode "aiwpso_w" env' = some (.s w') ∧ w ≤ w' := by
  refine ⟨aiwpsoW (env "self.w_min") (env "self.w_max") p n,
    aiwpsoW (env' "self.w_min") (env' "self.w_max") p' n, ?_, ?_, ?_⟩
  · unfold schedCode; rw [Gen.sched_aiwpso_w_eq]; exact d_aiwpso_w env p n hp hn
  · unfold schedCode; rw [Gen.sched_aiwpso_w_eq]; exact d_aiwpso_w env' p' n hp' hn'
  · rw [hmin, hmax]; exact aiwpsoW_monotone _ _ p p' n hw hpp

/-- SA `self.T *= self.beta` neither increases nor becomes negative (decay ≤ 1) -/
theorem code_sa_T_antitone_nonneg (env : String → ℝ) (hT : 0 ≤ env "self.T") (hb0 : 0 ≤ env "self.beta")
    (hb1 : env "self.beta" ≤ 1) :
    ∃ v, schedCode "sa_T" env = some (.s v) ∧ 0 ≤ v ∧ v ≤ env "self.T" := by
  refine ⟨_, ?_, saT_antitone_nonneg _ _ hT hb0 hb1⟩
  unfold schedCode; rw [Gen.sched_sa_T_eq]; exact d_sa_T env

/-- FA `self.alpha *= (1 - delta)` neither increases nor becomes negative -/
theorem code_fa_alpha_antitone_nonneg (env : String → ℝ) (N : ℕ) (hN : env "n_iterations" = (N : ℝ)) (hN0 : 0 < N)
    (ha : 0 ≤ env "self.alpha") :
    ∃ v, schedCode "fa_alpha" env = some (.s v) ∧ 0 ≤ v ∧ v ≤ env "self.alpha" := by
  refine ⟨_, ?_, faAlpha_antitone_nonneg _ N hN0 ha⟩
  unfold schedCode; rw [Gen.sched_fa_alpha_eq]; exact d_fa_alpha env N hN

/-- WCA `self.d_max -= self.d_max / n_iterations` neither increases nor becomes negative -/
theorem code_wca_dmax_antitone_nonneg (env : String → ℝ) (N : ℕ) (hN : env "space.n_iterations" = (N : ℝ)) (hN1 : 1 ≤ N)
    (hd : 0 ≤ env "self.d_max") :
    ∃ v, schedCode "wca_dmax" env = some (.s v) ∧ 0 ≤ v ∧ v ≤ env "self.d_max" := by
  refine ⟨_, ?_, wcaDmax_antitone_nonneg _ N hN1 hd⟩
  unfold schedCode; rw [Gen.sched_wca_dmax_eq]; exact d_wca_dmax env N hN

/-- frame: after construction no optimizer method assigns any attribute other than the five
    self-adapting ones, and none re-runs `_build/_rebuild` (regenerated table, decided on every build) -/
theorem code_attr_writes :
    Gen.attrWrites = [("AIWPSO", "_compute_success", "w"), ("FA", "_update", "alpha"), ("IHS", "run", "PAR"),
      ("IHS", "run", "bw"), ("SA", "_update", "T"), ("WCA", "run", "d_max")] := by
  rw [Gen.attrWrites_eq]; rfl

end Opy
