import OpyVerif.Proofs.Lemmas.BenchLemmas
/-!
C17 — each bundled benchmark function returns the closed form of its documentation; where the
documented minimum is mathematically coherent the function never goes below it and attains it at
the known minimiser; where it is not, a theorem shows why.

All statements are about the `ℝ` instance of the definitions in `Model/Bench.lean` (the same
definitions whose `Float` instance is compared against NumPy).  `x : List ℝ` is the input array,
`x.length` its dimension `n`; `List.replicate n c` is the point `(c, …, c)`.

* `<fn>_closed_form`  : the model at `ℝ` is the docstring's expression, in Mathlib notation.
* `<fn>_lower_bound`  : the documented minimum is a lower bound (on all of `ℝⁿ` unless a box
                         hypothesis is stated).
* `<fn>_at_minimiser` : the documented minimum is attained at the known minimiser.
* `<fn>_documented_minimum_incoherent` : what is wrong with the documented minimum.
-/
set_option linter.unusedVariables false
namespace Opy
open RealElem

/-! ## closed forms (all 17 active functions) -/

theorem sphere_closed_form (x : List ℝ) : sphere x = (x.map fun v => v ^ 2).sum := by
  simp [sphere, sumL_eq_sum]

theorem ackley1_closed_form (x : List ℝ) :
    ackley1 x =
      20 - 20 * Real.exp (-0.2 * √(1 / x.length * (x.map fun v => v ^ 2).sum)) + Real.exp 1
        - Real.exp (1 / x.length * (x.map fun v => Real.cos (2 * Real.pi * v)).sum) := by
  simp [ackley1, sumL_eq_sum]

theorem alpine1_closed_form (x : List ℝ) :
    alpine1 x = (x.map fun v => |v * Real.sin v + 0.1 * v|).sum := by
  simp [alpine1, sumL_eq_sum]

theorem alpine2_closed_form (x : List ℝ) :
    alpine2 x = -(x.map fun v => √v * Real.sin v).prod := by
  simp [alpine2, prodL_eq_prod]

theorem brown_closed_form (x : List ℝ) :
    brown x =
      ((x.zip x.tail).map fun p =>
        (p.1 ^ 2) ^ (p.2 ^ 2 + 1 : ℝ) + (p.2 ^ 2) ^ (p.1 ^ 2 + 1 : ℝ)).sum := by
  simp [brown, sumL_eq_sum]

theorem chung_reynolds_closed_form (x : List ℝ) :
    chung_reynolds x = ((x.map fun v => v ^ 2).sum) ^ 2 := by
  simp [chung_reynolds, sphere_closed_form]

theorem cosine_mixture_closed_form (x : List ℝ) :
    cosine_mixture x =
      0.1 * (x.map fun v => Real.cos (5 * Real.pi * v)).sum - (x.map fun v => v ^ 2).sum := by
  simp [cosine_mixture, sumL_eq_sum]

theorem csendes_closed_form (x : List ℝ) :
    csendes x = (x.map fun v => v ^ 6 * (2 + Real.sin (1 / v))).sum := by
  simp [csendes, sumL_eq_sum]

theorem deb1_closed_form (x : List ℝ) :
    deb1 x = -1 / x.length * (x.map fun v => Real.sin (5 * Real.pi * v) ^ 6).sum := by
  simp [deb1, sumL_eq_sum]

theorem deb2_closed_form (x : List ℝ) :
    deb2 x =
      -1 / x.length
        * (x.map fun v => Real.sin (5 * Real.pi * (v ^ (3 / 4 : ℝ) - 0.05)) ^ 6).sum := by
  simp [deb2, sumL_eq_sum]

theorem exponential_closed_form (x : List ℝ) :
    exponential x = -Real.exp (-0.5 * (x.map fun v => v ^ 2).sum) := by
  simp [exponential, sphere_closed_form]

theorem quintic_closed_form (x : List ℝ) :
    quintic x =
      (x.map fun v => |v ^ 5 - 3 * v ^ 4 + 4 * v ^ 3 + 2 * v ^ 2 - 10 * v - 4|).sum := by
  simp [quintic, sumL_eq_sum]

theorem rastringin_closed_form (x : List ℝ) :
    rastringin x =
      10 * x.length + (x.map fun v => v ^ 2 - 10 * Real.cos (2 * Real.pi * v)).sum := by
  simp [rastringin, sumL_eq_sum]

theorem salomon_closed_form (x : List ℝ) :
    salomon x =
      1 - Real.cos (2 * Real.pi * √((x.map fun v => v ^ 2).sum))
        + 0.1 * √((x.map fun v => v ^ 2).sum) := by
  simp [salomon, sphere_closed_form]

theorem schumer_steiglitz_closed_form (x : List ℝ) :
    schumer_steiglitz x = (x.map fun v => v ^ 4).sum := by
  simp [schumer_steiglitz, sumL_eq_sum]

theorem schwefel_closed_form (x : List ℝ) :
    schwefel x = 418.9829 * x.length - (x.map fun v => v * Real.sin √|v|).sum := by
  simp [schwefel, sumL_eq_sum]

theorem styblinski_tang_closed_form (x : List ℝ) :
    styblinski_tang x = 1 / 2 * (x.map fun v => v ^ 4 - 16 * v ^ 2 + 5 * v).sum := by
  simp [styblinski_tang, sumL_eq_sum]


/-! ## functions whose documented minimum is coherent -/

/-! ### sphere — minimum 0 at 0 -/

theorem sphere_lower_bound (x : List ℝ) : 0 ≤ sphere x := by
  rw [sphere_closed_form]
  exact sum_map_nonneg _ _ (fun v _ => sq_nonneg v)

theorem sphere_at_minimiser (n : ℕ) : sphere (List.replicate n (0 : ℝ)) = 0 := by
  simp [sphere_closed_form]

/-! ### chung_reynolds — minimum 0 at 0 -/

theorem chung_reynolds_lower_bound (x : List ℝ) : 0 ≤ chung_reynolds x := by
  rw [chung_reynolds_closed_form]
  exact sq_nonneg _

theorem chung_reynolds_at_minimiser (n : ℕ) : chung_reynolds (List.replicate n (0 : ℝ)) = 0 := by
  simp [chung_reynolds_closed_form]

/-! ### schumer_steiglitz — minimum 0 at 0 -/

theorem schumer_steiglitz_lower_bound (x : List ℝ) : 0 ≤ schumer_steiglitz x := by
  rw [schumer_steiglitz_closed_form]
  exact sum_map_nonneg _ _ (fun v _ => by positivity)

theorem schumer_steiglitz_at_minimiser (n : ℕ) :
    schumer_steiglitz (List.replicate n (0 : ℝ)) = 0 := by
  simp [schumer_steiglitz_closed_form]

/-! ### exponential — minimum −1 at 0 -/

theorem exponential_lower_bound (x : List ℝ) : -1 ≤ exponential x := by
  rw [exponential_closed_form]
  have hs : 0 ≤ (x.map fun v => v ^ 2).sum := sum_map_nonneg _ _ (fun v _ => sq_nonneg v)
  have he : Real.exp (-0.5 * (x.map fun v => v ^ 2).sum) ≤ 1 :=
    Real.exp_le_one_iff.mpr (by linarith)
  linarith

theorem exponential_at_minimiser (n : ℕ) : exponential (List.replicate n (0 : ℝ)) = -1 := by
  simp [exponential_closed_form]

/-! ### rastringin — minimum 0 at 0 -/

theorem rastringin_lower_bound (x : List ℝ) : 0 ≤ rastringin x := by
  rw [rastringin_closed_form]
  have h := card_mul_le_sum_map (fun v : ℝ => v ^ 2 - 10 * Real.cos (2 * Real.pi * v)) (-10) x
    (fun v _ => by
      have h1 := Real.cos_le_one (2 * Real.pi * v)
      have h2 := sq_nonneg v
      linarith)
  linarith

theorem rastringin_at_minimiser (n : ℕ) : rastringin (List.replicate n (0 : ℝ)) = 0 := by
  simp [rastringin_closed_form]
  ring

/-! ### ackley1 — minimum 0 at 0 (needs `np.e = exp 1`, `n ≥ 1` for the `1 / n`) -/

theorem ackley1_lower_bound (x : List ℝ) (hn : 1 ≤ x.length) : 0 ≤ ackley1 x := by
  rw [ackley1_closed_form]
  have hpos : (0 : ℝ) < x.length := by exact_mod_cast hn
  have h1 : Real.exp (-0.2 * √(1 / x.length * (x.map fun v => v ^ 2).sum)) ≤ 1 := by
    apply Real.exp_le_one_iff.mpr
    have := Real.sqrt_nonneg (1 / x.length * (x.map fun v => v ^ 2).sum)
    linarith
  have hS : (x.map fun v => Real.cos (2 * Real.pi * v)).sum ≤ x.length * 1 :=
    sum_map_le_card_mul _ 1 x (fun v _ => Real.cos_le_one _)
  have h2 : Real.exp (1 / x.length * (x.map fun v => Real.cos (2 * Real.pi * v)).sum)
      ≤ Real.exp 1 := by
    apply Real.exp_le_exp.mpr
    rw [div_mul_eq_mul_div, one_mul, div_le_one hpos]
    linarith
  linarith

theorem ackley1_at_minimiser (n : ℕ) (hn : 1 ≤ n) : ackley1 (List.replicate n (0 : ℝ)) = 0 := by
  have hne : (n : ℝ) ≠ 0 := by exact_mod_cast (by omega : n ≠ 0)
  simp [ackley1_closed_form, hne]

/-! ### alpine1 — minimum 0 at 0 -/

theorem alpine1_lower_bound (x : List ℝ) : 0 ≤ alpine1 x := by
  rw [alpine1_closed_form]
  exact sum_map_nonneg _ _ (fun v _ => abs_nonneg _)

theorem alpine1_at_minimiser (n : ℕ) : alpine1 (List.replicate n (0 : ℝ)) = 0 := by
  simp [alpine1_closed_form]

/-! ### quintic — minimum 0, attained at (−1, …, −1) and at (2, …, 2) -/

theorem quintic_lower_bound (x : List ℝ) : 0 ≤ quintic x := by
  rw [quintic_closed_form]
  exact sum_map_nonneg _ _ (fun v _ => abs_nonneg _)

theorem quintic_at_minimiser (n : ℕ) :
    quintic (List.replicate n (-1 : ℝ)) = 0 ∧ quintic (List.replicate n (2 : ℝ)) = 0 := by
  constructor
  · rw [quintic_closed_form, sum_map_replicate, quintic_poly_neg_one]; simp
  · rw [quintic_closed_form, sum_map_replicate, quintic_poly_two]; simp

/-! ### salomon — minimum 0 at 0 -/

theorem salomon_lower_bound (x : List ℝ) : 0 ≤ salomon x := by
  rw [salomon_closed_form]
  have h1 := Real.cos_le_one (2 * Real.pi * √((x.map fun v => v ^ 2).sum))
  have h2 := Real.sqrt_nonneg ((x.map fun v => v ^ 2).sum)
  linarith

theorem salomon_at_minimiser (n : ℕ) : salomon (List.replicate n (0 : ℝ)) = 0 := by
  simp [salomon_closed_form]

/-! ### brown — minimum 0 at 0 (documented for `n ≥ 2`; for `n < 2` the sum is empty) -/

theorem brown_lower_bound (x : List ℝ) : 0 ≤ brown x := by
  rw [brown_closed_form]
  exact sum_map_nonneg _ _ (fun p _ =>
    add_nonneg (Real.rpow_nonneg (sq_nonneg _) _) (Real.rpow_nonneg (sq_nonneg _) _))

theorem brown_at_minimiser (n : ℕ) : brown (List.replicate n (0 : ℝ)) = 0 := by
  rw [brown_closed_form]
  apply sum_map_eq_zero
  intro p hp
  obtain ⟨a, b⟩ := p
  have h := List.of_mem_zip hp
  have ha : a = 0 := List.eq_of_mem_replicate h.1
  have hb : b = 0 := List.eq_of_mem_replicate (List.mem_of_mem_tail h.2)
  subst ha; subst hb
  norm_num

/-! ### deb1 — minimum −1, attained at (0.1, …, 0.1) -/

theorem deb1_lower_bound (x : List ℝ) (hn : 1 ≤ x.length) : -1 ≤ deb1 x := by
  rw [deb1_closed_form]
  have hpos : (0 : ℝ) < x.length := by exact_mod_cast hn
  have hS : (x.map fun v => Real.sin (5 * Real.pi * v) ^ 6).sum ≤ x.length * 1 :=
    sum_map_le_card_mul _ 1 x (fun v _ => sin_pow_six_le_one _)
  have h1 : (x.map fun v => Real.sin (5 * Real.pi * v) ^ 6).sum / x.length ≤ 1 := by
    rw [div_le_one hpos]; linarith
  have h2 : -1 / (x.length : ℝ) * (x.map fun v => Real.sin (5 * Real.pi * v) ^ 6).sum
      = -((x.map fun v => Real.sin (5 * Real.pi * v) ^ 6).sum / x.length) := by ring
  rw [h2]
  linarith

theorem deb1_at_minimiser (n : ℕ) (hn : 1 ≤ n) : deb1 (List.replicate n (0.1 : ℝ)) = -1 := by
  have hne : (n : ℝ) ≠ 0 := by exact_mod_cast (by omega : n ≠ 0)
  have harg : 5 * Real.pi * 0.1 = Real.pi / 2 := by ring
  rw [deb1_closed_form, sum_map_replicate, harg, Real.sin_pi_div_two]
  simp only [List.length_replicate]
  field_simp

/-! ### csendes — infimum 0; the code evaluates `sin(1 / 0)` at a zero entry, so the bound is
stated for inputs without zero entries, where the value is in fact strictly positive -/

theorem csendes_lower_bound (x : List ℝ) (hx : ∀ v ∈ x, v ≠ 0) : 0 ≤ csendes x := by
  rw [csendes_closed_form]
  refine sum_map_nonneg _ _ (fun v _ => mul_nonneg (by positivity) ?_)
  have := Real.neg_one_le_sin (1 / v)
  linarith


/-- "minimum at 0" is an infimum that is never attained: wherever the code is defined (no zero
    entry) the value is strictly positive, and at a zero entry the code returns `nan`. -/
theorem csendes_documented_minimum_incoherent (x : List ℝ) (hn : 1 ≤ x.length)
    (hx : ∀ v ∈ x, v ≠ 0) : 0 < csendes x := by
  rw [csendes_closed_form]
  refine sum_map_pos _ _ hn (fun v hv => mul_pos (Even.pow_pos ⟨3, rfl⟩ (hx v hv)) ?_)
  have := Real.neg_one_le_sin (1 / v)
  linarith

/-! ## functions whose documented minimum is not coherent -/

/-! ### cosine_mixture — "minimum at 0.1 · n": that is the value at 0 and it is the *maximum* of
the documented formula; on the documented box `[-1, 1]ⁿ` the minimum is `−1.1 · n` at (1, …, 1) -/

theorem cosine_mixture_upper_bound (x : List ℝ) : cosine_mixture x ≤ 0.1 * x.length := by
  rw [cosine_mixture_closed_form]
  have h1 : (x.map fun v => Real.cos (5 * Real.pi * v)).sum ≤ x.length * 1 :=
    sum_map_le_card_mul _ 1 x (fun v _ => Real.cos_le_one _)
  have h2 : 0 ≤ (x.map fun v => v ^ 2).sum := sum_map_nonneg _ _ (fun v _ => sq_nonneg v)
  linarith

theorem cosine_mixture_at_zero (n : ℕ) :
    cosine_mixture (List.replicate n (0 : ℝ)) = 0.1 * n := by
  simp [cosine_mixture_closed_form]

theorem cosine_mixture_at_ones (n : ℕ) :
    cosine_mixture (List.replicate n (1 : ℝ)) = -1.1 * n := by
  rw [cosine_mixture_closed_form, sum_map_replicate, sum_map_replicate, mul_one, cos_five_pi]
  ring

/-- lower bound on the documented box `[-1, 1]ⁿ` (attained at (1, …, 1), `cosine_mixture_at_ones`) -/
theorem cosine_mixture_lower_bound (x : List ℝ) (hbox : ∀ v ∈ x, -1 ≤ v ∧ v ≤ 1) :
    -1.1 * x.length ≤ cosine_mixture x := by
  rw [cosine_mixture_closed_form]
  have h1 : x.length * (-1) ≤ (x.map fun v => Real.cos (5 * Real.pi * v)).sum :=
    card_mul_le_sum_map _ (-1) x (fun v _ => Real.neg_one_le_cos _)
  have h2 : (x.map fun v : ℝ => v ^ 2).sum ≤ (x.length : ℝ) * 1 :=
    sum_map_le_card_mul _ 1 x (fun v hv => by
      have := hbox v hv
      nlinarith [this.1, this.2])
  linarith

/-- the documented `0.1 · n` is the maximum (attained at 0), and the point (1, …, 1) of the
    documented box has the strictly smaller value `−1.1 · n` -/
theorem cosine_mixture_documented_minimum_incoherent (n : ℕ) (hn : 1 ≤ n) :
    (∀ x : List ℝ, x.length = n → cosine_mixture x ≤ 0.1 * n)
      ∧ cosine_mixture (List.replicate n (0 : ℝ)) = 0.1 * n
      ∧ cosine_mixture (List.replicate n (1 : ℝ)) < 0.1 * n := by
  have hpos : (0 : ℝ) < n := by exact_mod_cast hn
  refine ⟨fun x hx => ?_, cosine_mixture_at_zero n, ?_⟩
  · have := cosine_mixture_upper_bound x
    rwa [hx] at this
  · rw [cosine_mixture_at_ones]
    linarith

/-! ### styblinski_tang — "minimum at −78.332" is the `n = 2` value; the minimum is
`≈ −39.16617 · n` at (−2.903534, …, −2.903534) -/

theorem styblinski_tang_replicate (n : ℕ) (a : ℝ) :
    styblinski_tang (List.replicate n a) = n * ((a ^ 4 - 16 * a ^ 2 + 5 * a) / 2) := by
  rw [styblinski_tang_closed_form, sum_map_replicate]
  ring

/-- a true lower bound, linear in the dimension -/
theorem styblinski_tang_lower_bound (x : List ℝ) : -39.2 * x.length ≤ styblinski_tang x := by
  rw [styblinski_tang_closed_form]
  have h := card_mul_le_sum_map (fun v : ℝ => v ^ 4 - 16 * v ^ 2 + 5 * v) (-78.4) x
    (fun v _ => styblinski_term_ge v)
  linarith

/-- one coordinate at the minimiser contributes a value in `(−39.17, −39.16)` -/
theorem styblinski_tang_at_minimiser_dim1 :
    -39.17 < styblinski_tang [(-2.903534 : ℝ)] ∧ styblinski_tang [(-2.903534 : ℝ)] < -39.16 := by
  have h := styblinski_tang_replicate 1 (-2.903534)
  simp only [List.replicate_one, Nat.cast_one, one_mul] at h
  rw [h]
  constructor <;> norm_num

/-- the documented `−78.332` is not the minimum for `n ≠ 2`: for `n = 1` it is never reached, for
    every `n ≥ 3` the function goes strictly below it inside the documented box `[-5, 5]ⁿ`; even
    for `n = 2` the value at (−2.903534, −2.903534) is below the (rounded) `−78.332`. -/
theorem styblinski_tang_documented_minimum_incoherent :
    (∀ v : ℝ, -78.332 < styblinski_tang [v])
      ∧ (∀ n : ℕ, 3 ≤ n → styblinski_tang (List.replicate n (-2.903534 : ℝ)) < -78.332)
      ∧ styblinski_tang [(-2.903534 : ℝ), -2.903534] < -78.332 := by
  refine ⟨fun v => ?_, fun n hn => ?_, ?_⟩
  · have h := styblinski_tang_lower_bound [v]
    simp only [List.length_singleton, Nat.cast_one] at h
    linarith
  · rw [styblinski_tang_replicate]
    have h3 : (3 : ℝ) ≤ n := by exact_mod_cast hn
    have hc : ((-2.903534 : ℝ) ^ 4 - 16 * (-2.903534) ^ 2 + 5 * (-2.903534)) / 2 < -39 := by
      norm_num
    nlinarith
  · have h := styblinski_tang_replicate 2 (-2.903534)
    simp only [List.replicate, Nat.cast_ofNat] at h
    rw [h]
    norm_num

/-! ### deb2 — the formula and its minimum −1 are coherent on `[0, 1]ⁿ` only; on the negative half
of the documented box `[-1, 1]ⁿ` the code's `x ** (3/4)` is `nan` (the `ℝ` model's `Real.rpow`
assigns a conventional value there, so the statements below are restricted to `x ≥ 0`) -/

theorem deb2_lower_bound (x : List ℝ) (hn : 1 ≤ x.length) (hx : ∀ v ∈ x, 0 ≤ v) :
    -1 ≤ deb2 x := by
  rw [deb2_closed_form]
  have hpos : (0 : ℝ) < x.length := by exact_mod_cast hn
  have hS : (x.map fun v => Real.sin (5 * Real.pi * (v ^ (3 / 4 : ℝ) - 0.05)) ^ 6).sum
      ≤ x.length * 1 :=
    sum_map_le_card_mul _ 1 x (fun v _ => sin_pow_six_le_one _)
  have h1 : (x.map fun v => Real.sin (5 * Real.pi * (v ^ (3 / 4 : ℝ) - 0.05)) ^ 6).sum
      / x.length ≤ 1 := by
    rw [div_le_one hpos]; linarith
  have h2 : -1 / (x.length : ℝ)
        * (x.map fun v => Real.sin (5 * Real.pi * (v ^ (3 / 4 : ℝ) - 0.05)) ^ 6).sum
      = -((x.map fun v => Real.sin (5 * Real.pi * (v ^ (3 / 4 : ℝ) - 0.05)) ^ 6).sum
          / x.length) := by ring
  rw [h2]
  linarith

/-- attained at `x_i = 0.15^(4/3) ≈ 0.0797`, where `x_i^(3/4) − 0.05 = 0.1` -/
theorem deb2_at_minimiser (n : ℕ) (hn : 1 ≤ n) :
    deb2 (List.replicate n ((0.15 : ℝ) ^ (4 / 3 : ℝ))) = -1 := by
  have hne : (n : ℝ) ≠ 0 := by exact_mod_cast (by omega : n ≠ 0)
  have hp : ((0.15 : ℝ) ^ (4 / 3 : ℝ)) ^ (3 / 4 : ℝ) = 0.15 := by
    rw [← Real.rpow_mul (by norm_num)]
    norm_num
  have harg : 5 * Real.pi * ((0.15 : ℝ) - 0.05) = Real.pi / 2 := by ring
  rw [deb2_closed_form, sum_map_replicate, hp, harg, Real.sin_pi_div_two]
  simp only [List.length_replicate]
  field_simp

/-! ### alpine2 — "minimum at −2.808^n": a rounded constant (the true value is
`−2.80813118…^n`); inside the documented box `[0, 10]ⁿ` the function goes strictly below it -/

theorem alpine2_documented_minimum_incoherent (n : ℕ) (hn : 1 ≤ n) :
    alpine2 (List.replicate n (7.917 : ℝ)) < -((2.808 : ℝ) ^ n) := by
  rw [alpine2_closed_form, List.map_replicate, List.prod_replicate, neg_lt_neg_iff]
  exact pow_lt_pow_left₀ alpine2_term_gt (by norm_num) (by omega)

/-! ## Schwefel: a true bound on the documented box, the value at the origin, and why "minimum at 0" is not the origin -/

/-- one term is at most `|v|` -/
theorem schwefel_term_le (v : ℝ) : v * Real.sin √|v| ≤ |v| := by
  have h1 : v * Real.sin √|v| ≤ abs (v * Real.sin √|v|) := le_abs_self _
  rw [abs_mul] at h1
  have h2 : abs (Real.sin √|v|) ≤ 1 := Real.abs_sin_le_one _
  have := mul_le_mul_of_nonneg_left h2 (abs_nonneg v)
  linarith

theorem sum_map_neg' (f : ℝ → ℝ) (l : List ℝ) : (l.map fun v => -f v).sum = -(l.map f).sum := by
  induction l with
  | nil => simp
  | cons a l ih => simp only [List.map_cons, List.sum_cons, ih]; ring

/-- on the documented box `[-500, 500]ⁿ` the function is bounded below, linearly in the dimension
    (a true bound; the documented minimum value `0` is approached only near `420.9687`) -/
theorem schwefel_lower_bound_box (x : List ℝ) (hbox : ∀ v ∈ x, |v| ≤ 500) :
    (418.9829 - 500) * x.length ≤ schwefel x := by
  rw [schwefel_closed_form]
  have h := card_mul_le_sum_map (fun v : ℝ => -(v * Real.sin √|v|)) (-500) x
    (fun v hv => by have := schwefel_term_le v; have := hbox v hv; linarith)
  rw [sum_map_neg' (fun v => v * Real.sin √|v|)] at h
  linarith

/-- at the origin the value is `418.9829 · n` -/
theorem schwefel_at_origin (n : ℕ) : schwefel (List.replicate n (0 : ℝ)) = 418.9829 * n := by
  rw [schwefel_closed_form, sum_map_replicate]; simp

/-- "has minimum at 0" cannot mean the origin: the point `(π²/4, …, π²/4)` of the documented box has a smaller value -/
theorem schwefel_origin_not_minimiser (n : ℕ) (hn : 1 ≤ n) :
    |Real.pi ^ 2 / 4| ≤ 500 ∧
      schwefel (List.replicate n (Real.pi ^ 2 / 4)) < schwefel (List.replicate n (0 : ℝ)) := by
  have hpi0 : 0 < Real.pi := Real.pi_pos
  have hpi4 : Real.pi < 4 := Real.pi_lt_four
  have hpos : 0 < Real.pi ^ 2 / 4 := by positivity
  have hsq : √|Real.pi ^ 2 / 4| = Real.pi / 2 := by
    rw [abs_of_pos hpos]
    have : Real.pi ^ 2 / 4 = (Real.pi / 2) ^ 2 := by ring
    rw [this, Real.sqrt_sq (by positivity)]
  constructor
  · rw [abs_of_pos hpos]; nlinarith
  · rw [schwefel_at_origin, schwefel_closed_form, sum_map_replicate, hsq, Real.sin_pi_div_two, List.length_replicate]
    have hn' : (0 : ℝ) < n := by exact_mod_cast hn
    have := mul_pos hn' hpos
    linarith

/-! ## satisfiability: the model evaluates at concrete real points -/

example : sphere [(1 : ℝ), 2] = 5 := by
  simp [sphere_closed_form]; norm_num
example : quintic [(0 : ℝ)] = 4 := by
  simp [quintic_closed_form]
example : styblinski_tang [(1 : ℝ), -1] = -15 := by
  simp [styblinski_tang_closed_form]; norm_num
example : rastringin [(1 : ℝ)] = 1 := by
  simp [rastringin_closed_form]
example : chung_reynolds [(1 : ℝ), 2] = 25 := by
  simp [chung_reynolds_closed_form]; norm_num
example : cosine_mixture [(1 : ℝ)] = -1.1 := by
  have := cosine_mixture_at_ones 1
  simpa using this

end Opy

/-! ## axiom audit -/
#print axioms Opy.sphere_closed_form
#print axioms Opy.ackley1_closed_form
#print axioms Opy.alpine1_closed_form
#print axioms Opy.alpine2_closed_form
#print axioms Opy.brown_closed_form
#print axioms Opy.chung_reynolds_closed_form
#print axioms Opy.cosine_mixture_closed_form
#print axioms Opy.csendes_closed_form
#print axioms Opy.deb1_closed_form
#print axioms Opy.deb2_closed_form
#print axioms Opy.exponential_closed_form
#print axioms Opy.quintic_closed_form
#print axioms Opy.rastringin_closed_form
#print axioms Opy.salomon_closed_form
#print axioms Opy.schumer_steiglitz_closed_form
#print axioms Opy.schwefel_closed_form
#print axioms Opy.styblinski_tang_closed_form
#print axioms Opy.sphere_lower_bound
#print axioms Opy.sphere_at_minimiser
#print axioms Opy.chung_reynolds_lower_bound
#print axioms Opy.chung_reynolds_at_minimiser
#print axioms Opy.schumer_steiglitz_lower_bound
#print axioms Opy.schumer_steiglitz_at_minimiser
#print axioms Opy.exponential_lower_bound
#print axioms Opy.exponential_at_minimiser
#print axioms Opy.rastringin_lower_bound
#print axioms Opy.rastringin_at_minimiser
#print axioms Opy.ackley1_lower_bound
#print axioms Opy.ackley1_at_minimiser
#print axioms Opy.alpine1_lower_bound
#print axioms Opy.alpine1_at_minimiser
#print axioms Opy.quintic_lower_bound
#print axioms Opy.quintic_at_minimiser
#print axioms Opy.salomon_lower_bound
#print axioms Opy.salomon_at_minimiser
#print axioms Opy.brown_lower_bound
#print axioms Opy.brown_at_minimiser
#print axioms Opy.deb1_lower_bound
#print axioms Opy.deb1_at_minimiser
#print axioms Opy.csendes_lower_bound
#print axioms Opy.csendes_documented_minimum_incoherent
#print axioms Opy.cosine_mixture_upper_bound
#print axioms Opy.cosine_mixture_at_zero
#print axioms Opy.cosine_mixture_at_ones
#print axioms Opy.cosine_mixture_lower_bound
#print axioms Opy.cosine_mixture_documented_minimum_incoherent
#print axioms Opy.styblinski_tang_replicate
#print axioms Opy.styblinski_tang_lower_bound
#print axioms Opy.styblinski_tang_at_minimiser_dim1
#print axioms Opy.styblinski_tang_documented_minimum_incoherent
#print axioms Opy.deb2_lower_bound
#print axioms Opy.deb2_at_minimiser
#print axioms Opy.alpine2_documented_minimum_incoherent
#print axioms Opy.schwefel_term_le
#print axioms Opy.schwefel_lower_bound_box
#print axioms Opy.schwefel_at_origin
#print axioms Opy.schwefel_origin_not_minimiser
