import OpyVerif.Proofs.TreesProg
import OpyVerif.Proofs.CreateProg
import OpyVerif.Generated.Trees
/-!
C08 (construction clause) about the *translated* `TreeSpace._create_trees` / `_create_terminals`.
-/
namespace Opy
open PNode

/-- whatever the function set, the depth budget, the number of trees and the draws: the forest `_create_trees` (as read
    from the current source) returns consists of `n_trees` proper expression trees no two of which share a node, together
    with a best tree that is a proper tree sharing no node with any of them — the hypothesis of `runGPOps_popOK`,
    `code_mutation_popOK` and `code_crossover_popOK` -/
theorem code_create_trees (cfg : GrowCfg) (k n : Nat) (draws : List Nat) (nid : Nat) (P : Pop)
    (h : Gen.treesProg.run cfg k n draws nid = some P) :
    PopOK cfg.ar P ∧ P.trees.length = n ∧ P.best ≠ nil := by
  rw [Gen.treesProg_eq] at h
  obtain ⟨a, b, c, _⟩ := treesProg_popOK cfg k n draws nid P h
  exact ⟨a, b, c⟩

/-- the terminals are `n_terminals` separate agents of the declared shape (read with the record type of `_create_agents`) -/
theorem code_create_terminals : Gen.terminalsProg.listKind = .comprehension ∧ Gen.terminalsProg.elemIsAgentCtor = true ∧
    Gen.terminalsProg.countIsNAgents = true ∧ Gen.terminalsProg.extraStmts = 0 := by
  rw [Gen.terminalsProg_eq]; decide

end Opy
