import OpyVerif.Proofs.ReproProg
import OpyVerif.Proofs.C09repro
import OpyVerif.Generated.Repro
/-!
C09 (reproduction clause) about the *translated* `GP._reproduction`: `Gen.reproLoop` is what the translator read
from the current working tree.
-/
namespace Opy
open PNode

/-- the translated method is the model's `reproduction`, for every population, fitness list and tournament outcome -/
theorem code_reproduction {α β : Type} (cpT : α → α) (cpA : β → β)
    (trees : List α) (agents : List β) (fit : List Int) (selected : List Nat) :
    Gen.reproLoop.run cpT cpA trees agents fit selected = some (reproduction cpT cpA trees agents fit selected) := by
  rw [Gen.reproLoop_eq]; exact reproLoop_is_reproduction cpT cpA trees agents fit selected

/-- … so it keeps the population sizes … -/
theorem code_reproduction_lengths {α β : Type} (cpT : α → α) (cpA : β → β)
    (trees : List α) (agents : List β) (fit : List Int) (selected : List Nat) :
    ∃ r, Gen.reproLoop.run cpT cpA trees agents fit selected = some r ∧
      r.1.length = trees.length ∧ r.2.1.length = agents.length := by
  refine ⟨_, code_reproduction cpT cpA trees agents fit selected, ?_, ?_⟩
  · exact (reproduction_lengths cpT cpA trees agents fit selected).1
  · exact (reproduction_lengths cpT cpA trees agents fit selected).2.1

/-- … and tree `i` and agent `i` stay paired (copies keep the pairing tag) -/
theorem code_reproduction_paired {α β τ : Type} (cpT : α → α) (cpA : β → β) (tag : α → τ) (tag' : β → τ)
    (hT : ∀ t, tag (cpT t) = tag t) (hA : ∀ a, tag' (cpA a) = tag' a)
    (trees : List α) (agents : List β) (fit : List Int) (selected : List Nat)
    (h : ∀ i : Nat, (trees[i]?).map tag = (agents[i]?).map tag') :
    ∃ r, Gen.reproLoop.run cpT cpA trees agents fit selected = some r ∧
      ∀ i : Nat, (r.1[i]?).map tag = (r.2.1[i]?).map tag' :=
  ⟨_, code_reproduction cpT cpA trees agents fit selected,
    reproduction_paired cpT cpA tag tag' hT hA trees agents fit selected h⟩

end Opy
