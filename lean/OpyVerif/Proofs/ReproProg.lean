import OpyVerif.Model.ReproProg
/-!
The expected `_reproduction` record is `PNode.reproduction`, for every population, working fitness and
tournament outcome.
-/
namespace Opy

theorem reproStepM_zero {α β : Type} (cpT : α → α) (cpA : β → β) (st : List α × List β × List Int) (s : Nat) :
    reproStepM cpT cpA 0 st s = PNode.reproStep cpT cpA st s := by
  obtain ⟨t, a, f⟩ := st
  unfold reproStepM PNode.reproStep
  cases h1 : t[s]? <;> cases h2 : a[s]? <;> simp [h1, h2]

theorem reproLoop_is_reproduction {α β : Type} (cpT : α → α) (cpA : β → β)
    (trees : List α) (agents : List β) (fit : List Int) (selected : List Nat) :
    Expected.reproLoop.run cpT cpA trees agents fit selected = some (PNode.reproduction cpT cpA trees agents fit selected) := by
  have hstep : reproStepM cpT cpA 0 = PNode.reproStep cpT cpA := by
    funext st s; exact reproStepM_zero cpT cpA st s
  simp [ReproLoop.run, Expected.reproLoop, ReproLoop.wellFormed, PNode.reproduction, hstep]

theorem reproLoop_wellFormed : Expected.reproLoop.wellFormed = true := by decide

end Opy
