import OpyVerif.Proofs.HistCodeGet
import OpyVerif.Proofs.HistCodeStart
