import OpyVerif.Model.HistProg
import OpyVerif.Generated.HistProg
import OpyVerif.Proofs.C19
/-!
C19 / C04 about the *translated* `History.get` and `Opytimizer.start`.
-/
namespace Opy

/-- the translated `get` is the model `get` (checks, their order, the index path, `hstack`) -/
theorem code_get (records : List Rec) (isTuple : Bool) (index : List Nat) :
    Gen.getProg.run records isTuple index = some (get records isTuple index) := by
  rw [Gen.getProg_eq]; exact getProg_is_get records isTuple index

/-- the translated `start` returns the run's history with exactly one more `time` record, the difference of the clock
    readings taken right before and right after the run -/
theorem code_start_time (keys : List String) (h : Hist) (t0 t1 : Int) (hk : keys.contains "time" = false) :
    ∃ h', Gen.startProg.run keys h t0 t1 = some h' ∧ h'.attrs = appendAttr h.attrs "time" (.num (t1 - t0)) := by
  rw [Gen.startProg_eq]
  exact ⟨_, startProg_is_startTask keys h t0 t1, startTask_time keys h t0 t1 hk⟩

end Opy
