import OpyVerif.Proofs.TaskRunCodeSkel
import OpyVerif.Proofs.ClipProg
import OpyVerif.Generated.ClipLoops.searchClip_eq
import OpyVerif.Generated.ClipLoops.hyperClip_eq
/-!
The task theorems that need the regenerated skeletons and `check_limits` loops (C01, C13): every sweep evaluates inside the box,
whatever the sweep's loop body is.
-/
namespace Opy
open Task

/-- `SearchSpace.check_limits`, as translated, projects every position of the declared row count into the declared box -/
theorem code_searchClip_clipsInto (lbs ubs : List Int) (hb : BoundsOk lbs ubs) : ClipsInto Gen.searchClip lbs ubs lbs ubs := by
  intro pos hl
  rw [Gen.searchClip_eq]
  have h : Expected.searchClip.runPos lbs ubs pos = clipPos lbs ubs pos := agentClip_run lbs ubs pos
  rw [h]
  exact clipPos_inBox lbs ubs pos hb hl.symm

/-- `HyperSpace.check_limits`, as translated, projects into the unit box whatever the declared bounds are -/
theorem code_hyperClip_clipsInto (lbs ubs : List Int) (hl : lbs.length = ubs.length) :
    ClipsInto Gen.hyperClip lbs ubs (List.replicate lbs.length keyZero) (List.replicate lbs.length keyOne) := by
  intro pos hp
  rw [Gen.hyperClip_eq]
  have h := hyperClip_run lbs ubs [pos]
  simp only [ClipLoop.runAll, clipAllHyper, List.map_cons, List.map_nil, List.cons.injEq, and_true] at h
  rw [h]
  have h1 : min lbs.length ubs.length = pos.length := by omega
  rw [h1, ← hp]
  exact clipHyper_inUnitBox pos


section
variable (sk : Skeleton) (hsk : sk ∈ Gen.taskSkeletons) (sw : SweepLoop)
include hsk

/-- **C01 (search spaces).**  Every position a sweep of any of the sixteen optimisers hands to the objective lies in the
    declared box: for every box with `lb ≤ ub`, objective, update arithmetic, feasible-keeping hook and iteration count. -/
theorem code_task_evals_inBox (lbs ubs : List Int) (hb : BoundsOk lbs ubs) (o : TaskOracle)
    (ho : OracleOK lbs.length lbs ubs o) (pop : List Ag) (best : Ag) (h0 : ∀ a ∈ pop, InBox lbs ubs a.pos) (N : Nat) :
    ∀ e ∈ (TaskProg.runTask ⟨sk, Gen.searchClip, sw⟩ lbs ubs o (TaskSt.start pop best) N).evals, InBox lbs ubs e.1 :=
  task_evals_inBox ⟨sk, Gen.searchClip, sw⟩ lbs ubs o (code_taskSkeletons_good sk hsk) lbs ubs
    (code_searchClip_clipsInto lbs ubs hb) ho pop best h0 N

/-- **C01 / C13 (hypercomplex spaces).**  … lies in the unit box, whatever bounds were declared. -/
theorem code_task_evals_inUnitBox (lbs ubs : List Int) (hl : lbs.length = ubs.length) (o : TaskOracle)
    (ho : OracleOK lbs.length (List.replicate lbs.length keyZero) (List.replicate lbs.length keyOne) o)
    (pop : List Ag) (best : Ag)
    (h0 : ∀ a ∈ pop, InBox (List.replicate lbs.length keyZero) (List.replicate lbs.length keyOne) a.pos) (N : Nat) :
    ∀ e ∈ (TaskProg.runTask ⟨sk, Gen.hyperClip, sw⟩ lbs ubs o (TaskSt.start pop best) N).evals,
      InBox (List.replicate lbs.length keyZero) (List.replicate lbs.length keyOne) e.1 :=
  task_evals_inBox ⟨sk, Gen.hyperClip, sw⟩ lbs ubs o (code_taskSkeletons_good sk hsk) _ _
    (code_hyperClip_clipsInto lbs ubs hl) ho pop best h0 N

end

end Opy
