import OpyVerif.Proofs.ClipProg
import OpyVerif.Proofs.C06
import OpyVerif.Generated.ClipLoops
/-!
C01 / C06 / C13 stated about the *translated* `check_limits` methods: `Gen.agentClip`,
`Gen.searchClip`, `Gen.hyperClip` are what `harness/translate_loops.py` read from the current
working tree.  Each theorem composes the regenerated equality (`Generated/ClipLoops.lean`), the
meaning of the expected loop (`Proofs/ClipProg.lean`) and the projection theorems of `Proofs/C06.lean`.
-/
namespace Opy

theorem code_agentClip (lbs ubs : List Int) (p : Pos) : Gen.agentClip.runPos lbs ubs p = clipPos lbs ubs p := by
  rw [Gen.agentClip_eq]; exact agentClip_run lbs ubs p

theorem code_searchClip (lbs ubs : List Int) (pop : List Pos) : Gen.searchClip.runAll lbs ubs pop = clipAll lbs ubs pop := by
  rw [Gen.searchClip_eq]; exact searchClip_run lbs ubs pop

theorem code_hyperClip (lbs ubs : List Int) (pop : List Pos) :
    Gen.hyperClip.runAll lbs ubs pop = clipAllHyper (min lbs.length ubs.length) pop := by
  rw [Gen.hyperClip_eq]; exact hyperClip_run lbs ubs pop

/-- `Agent.check_limits` (as translated) leaves the position inside the agent's box, whatever it was -/
theorem code_agentClip_inBox (lbs ubs : List Int) (p : Pos) (hb : BoundsOk lbs ubs) (hl : p.length = lbs.length) :
    InBox lbs ubs (Gen.agentClip.runPos lbs ubs p) := by
  rw [code_agentClip]; exact clipPos_inBox lbs ubs p hb hl.symm

/-- … changes nothing that is already inside (bit-identical through the key embedding) … -/
theorem code_agentClip_fixed (lbs ubs : List Int) (p : Pos) (h : InBox lbs ubs p) :
    Gen.agentClip.runPos lbs ubs p = p := by
  rw [code_agentClip]; exact clipPos_fixed lbs ubs p h

/-- … and is idempotent -/
theorem code_agentClip_idem (lbs ubs : List Int) (p : Pos) (hb : BoundsOk lbs ubs) (hl : p.length = lbs.length) :
    Gen.agentClip.runPos lbs ubs (Gen.agentClip.runPos lbs ubs p) = Gen.agentClip.runPos lbs ubs p := by
  rw [code_agentClip, code_agentClip]; exact clipPos_idem lbs ubs p hb hl.symm

/-- `SearchSpace.check_limits` (as translated) puts every agent inside the declared box -/
theorem code_searchClip_inBox (lbs ubs : List Int) (pop : List Pos) (hb : BoundsOk lbs ubs)
    (hl : ∀ p ∈ pop, p.length = lbs.length) :
    ∀ q ∈ Gen.searchClip.runAll lbs ubs pop, InBox lbs ubs q := by
  rw [code_searchClip]; exact clipAll_inBox lbs ubs pop hb (fun p hp => (hl p hp).symm)

/-- `HyperSpace.check_limits` (as translated) puts every agent of the declared shape inside the unit box,
    whatever the declared bounds are -/
theorem code_hyperClip_inUnitBox (lbs ubs : List Int) (pop : List Pos) (hl : lbs.length = ubs.length)
    (hs : ∀ p ∈ pop, p.length = lbs.length) :
    ∀ q ∈ Gen.hyperClip.runAll lbs ubs pop,
      InBox (List.replicate lbs.length keyZero) (List.replicate lbs.length keyOne) q := by
  rw [code_hyperClip]
  intro q hq
  simp only [clipAllHyper, List.mem_map] at hq
  obtain ⟨p, hp, rfl⟩ := hq
  have h1 : min lbs.length ubs.length = p.length := by rw [hs p hp]; omega
  rw [h1, ← hs p hp]
  exact clipHyper_inUnitBox p

end Opy
