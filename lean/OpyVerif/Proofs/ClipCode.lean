import OpyVerif.Proofs.ClipCodeAgent
import OpyVerif.Proofs.ClipCodeSearch
import OpyVerif.Proofs.ClipCodeHyper
