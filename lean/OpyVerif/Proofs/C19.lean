import OpyVerif.Proofs.Lemmas.MiscLemmas
/-!
C19 — `History.get` returns the recorded series in iteration order, or fails with the
documented error; C04 at run level — one record per iteration for every recorded quantity.

`get records isTuple index` models `History.get(key, index)` on the records of one attribute:
`np.asarray` (shape discovery `shapeOf`), the `ndim - 1 != len(index)` test, the slice
`attr[(slice(None),) + index]` (`atPath` on every record) and `np.hstack`.

* `get_type_error`, `get_size_error`, `get_index_error` : the three failures;
* `get_ok`, `get_ok_all`, `get_series_order`            : success, components in record order;
* `hstack_nums`, `hstack_rows`, `hstack_rows_length`    : what `np.hstack` does to scalars and
  to `(v × d)` positions — `(v × T·d)`, row `i` = concatenation over iterations of row `i`;
* `shapeOf_agents_record`, `shapeOf_best_record`        : `[T, n, 2]` and `[T, 2]`, so valid
  indices have length 2 and 1;
* `dump_series_values`, `dump_series_length`, `dump_series_skipped` : after `N` calls
  `dump(k₁=…, …, k_m=…)` with the same distinct keys, every kept key has exactly the `N`
  values passed for it, in call order; with `store_best_only` the per-agent HISTORY_KEYS have
  no attribute at all.

Core Lean only.
-/
set_option linter.unusedVariables false
namespace Opy

/-! ### failures -/

/-- a non-tuple index raises `TypeError` whatever the records are -/
theorem get_type_error (rs : List Rec) (idx : List Nat) : get rs false idx = .error .typeError := by
  simp [get]

/-- an index whose length is not `ndim - 1` raises `SizeError` -/
theorem get_size_error (rs : List Rec) (idx : List Nat)
    (h : (shapeOf (.list rs)).length - 1 ≠ idx.length) : get rs true idx = .error .sizeError := by
  simp [get, h]

/-- a right-sized index that leaves some record (out of range, or through a non-list) is the
    model's `indexError` -/
theorem get_index_error (rs : List Rec) (idx : List Nat)
    (hsz : (shapeOf (.list rs)).length - 1 = idx.length)
    (hbad : ∃ r ∈ rs, atPath r idx = none) : get rs true idx = .error .indexError := by
  simp [get, hsz, mapM_eq_none_of_mem _ rs hbad]

/-! ### success -/

/-- sizes match and record `i` has component `parts[i]` at `idx` (for every `i`, in order):
    the answer is `np.hstack` of exactly these components, in record order -/
theorem get_ok (rs parts : List Rec) (idx : List Nat)
    (hsz : (shapeOf (.list rs)).length - 1 = idx.length)
    (hp : rs.map (fun r => atPath r idx) = parts.map some) :
    get rs true idx = .ok (hstack parts) := by
  simp [get, hsz, mapM_eq_some_of_map _ rs parts hp]

/-- the same with the hypothesis "every `atPath r idx` is `some`": one component per record -/
theorem get_ok_all (rs : List Rec) (idx : List Nat)
    (hsz : (shapeOf (.list rs)).length - 1 = idx.length)
    (hall : ∀ r ∈ rs, (atPath r idx).isSome = true) :
    get rs true idx = .ok (hstack (rs.filterMap fun r => atPath r idx)) ∧
    (rs.filterMap fun r => atPath r idx).length = rs.length := by
  obtain ⟨h1, h2⟩ := map_eq_filterMap_of_isSome (fun r => atPath r idx) rs hall
  exact ⟨get_ok rs _ idx hsz h1, h2⟩

/-- `np.hstack` of scalars is the list of these scalars, in order -/
theorem hstack_nums (ns : List Int) : hstack (ns.map .num) = .list (ns.map .num) := by
  cases ns with
  | nil => rfl
  | cons n ns =>
    have := flatMap_items_nums (n :: ns)
    simp only [List.map_cons] at this
    simp only [hstack, List.map_cons, this]

/-- **iteration order**: when the component of record `i` is the number `ns[i]`, the result
    is the series `ns`, oldest iteration first -/
theorem get_series_order (rs : List Rec) (ns : List Int) (idx : List Nat)
    (hsz : (shapeOf (.list rs)).length - 1 = idx.length)
    (hp : rs.map (fun r => atPath r idx) = ns.map (fun n => some (.num n))) :
    get rs true idx = .ok (.list (ns.map .num)) := by
  rw [get_ok rs (ns.map .num) idx hsz (by rw [hp, List.map_map]; rfl), hstack_nums]

/-- `np.hstack` of 2-D parts with `m ≥ 1` rows each: row `i` of the result is the
    concatenation, over the parts in order, of their row `i` -/
theorem hstack_rows (mats : List (List (List Rec))) (m : Nat) (hm : 0 < m) (hne : mats ≠ [])
    (hrows : ∀ M ∈ mats, M.length = m) :
    hstack (mats.map fun M => .list (M.map .list)) =
      .list ((List.range m).map fun i => .list (mats.flatMap fun M => M[i]?.getD [])) := by
  cases mats with
  | nil => exact absurd rfl hne
  | cons M0 rest =>
    have h0 : M0.length = m := hrows M0 (by simp)
    cases M0 with
    | nil => simp at h0; omega
    | cons row0 M0' =>
      simp only [List.map_cons, hstack, Rec.items, List.length_cons, List.length_map, Rec.list.injEq]
      rw [show M0'.length + 1 = m from by simpa using h0]
      apply List.map_congr_left
      intro i _
      simp only [Rec.list.injEq, List.flatMap_cons, List.flatMap_map]
      congr 1
      · cases i with
        | zero => simp
        | succ i => cases h : M0'[i]? <;> simp [h]
      · apply flatMap_congr'
        intro M _
        simp only [List.getElem?_map]
        cases h : M[i]? <;> simp

/-- … hence `T` positions of shape `(v × d)` give `(v × T·d)` -/
theorem hstack_rows_length (mats : List (List (List Rec))) (m d : Nat)
    (hrows : ∀ M ∈ mats, M.length = m) (hcols : ∀ M ∈ mats, ∀ row ∈ M, row.length = d)
    (i : Nat) (hi : i < m) : (mats.flatMap fun M => M[i]?.getD []).length = mats.length * d := by
  apply length_flatMap_const
  intro M hM
  have : i < M.length := by rw [hrows M hM]; exact hi
  simp only [List.getElem?_eq_getElem this, Option.getD_some]
  exact hcols M hM _ (List.getElem_mem _)

/-! ### shapes of the two standard series -/

/-- `agents`: `T ≥ 1` iterations × `n ≥ 1` agents × `(position, fit)` has shape `[T, n, 2]`
    (the position, being a nested list next to a number, stays an object): a valid index has
    length 2 — `(agent, 0)` for positions, `(agent, 1)` for fitnesses -/
theorem shapeOf_agents_record (rs : List Rec) (T n : Nat) (hT : 0 < T) (hn : 0 < n)
    (hlen : rs.length = T)
    (h : ∀ r ∈ rs, ∃ ags : List Rec, r = .list ags ∧ ags.length = n ∧
          ∀ a ∈ ags, ∃ (pos : Rec) (fit : Int), a = .list [pos, .num fit]) :
    shapeOf (.list rs) = [T, n, 2] := by
  have hr : ∀ r ∈ rs, shapeOf r = [n, 2] := by
    intro r hr
    obtain ⟨ags, rfl, hl, ha⟩ := h r hr
    rw [shapeOf, hl, shapesCommon_const [2] ags (by intro h0; rw [h0] at hl; simp at hl; omega)]
    intro a haa
    obtain ⟨pos, fit, rfl⟩ := ha a haa
    exact shapeOf_pair pos fit
  rw [shapeOf, hlen, shapesCommon_const [n, 2] rs (by intro h0; rw [h0] at hlen; simp at hlen; omega) hr]

/-- `best_agent`: `T ≥ 1` × `(position, fit)` has shape `[T, 2]`: a valid index has length 1 -/
theorem shapeOf_best_record (rs : List Rec) (T : Nat) (hT : 0 < T) (hlen : rs.length = T)
    (h : ∀ r ∈ rs, ∃ (pos : Rec) (fit : Int), r = .list [pos, .num fit]) :
    shapeOf (.list rs) = [T, 2] := by
  have hr : ∀ r ∈ rs, shapeOf r = [2] := by
    intro r hr
    obtain ⟨pos, fit, rfl⟩ := h r hr
    exact shapeOf_pair pos fit
  rw [shapeOf, hlen, shapesCommon_const [2] rs (by intro h0; rw [h0] at hlen; simp at hlen; omega) hr]

/-- the same for records built the way `_parse` builds them -/
theorem shapeOf_mkAgentsRec (its : List (List (List (List Int) × Int))) (n : Nat) (hn : 0 < n)
    (hT : its ≠ []) (hlen : ∀ ags ∈ its, ags.length = n) :
    shapeOf (.list (its.map mkAgentsRec)) = [its.length, n, 2] := by
  apply shapeOf_agents_record _ _ _ (List.length_pos_iff.mpr hT) hn (by simp)
  intro r hr
  obtain ⟨ags, hags, rfl⟩ := List.mem_map.mp hr
  refine ⟨_, rfl, by simpa using hlen ags hags, ?_⟩
  intro a ha
  obtain ⟨x, _, rfl⟩ := List.mem_map.mp ha
  exact ⟨_, _, rfl⟩

theorem shapeOf_mkBestRec (its : List (List (List Int) × Int)) (hT : its ≠ []) :
    shapeOf (.list (its.map mkBestRec)) = [its.length, 2] := by
  apply shapeOf_best_record _ _ (List.length_pos_iff.mpr hT) (by simp)
  intro r hr
  obtain ⟨a, _, rfl⟩ := List.mem_map.mp hr
  exact ⟨_, _, rfl⟩

/-- end to end: the fitness series of the best agent, in iteration order -/
theorem get_best_fitness_series (its : List (List (List Int) × Int)) (hT : its ≠ []) :
    get (its.map mkBestRec) true [1] = .ok (.list (its.map fun a => .num a.2)) := by
  have := get_series_order (its.map mkBestRec) (its.map (·.2)) [1]
    (by rw [shapeOf_mkBestRec its hT]; rfl)
    (by simp [mkBestRec, atPath])
  simpa [Function.comp_def] using this

/-! ### C04 at run level -/

/-- **values, in call order**: after the calls `calls` (each with pairwise-distinct keys), a
    kept key holds what it held before followed by the values passed for it, call by call -/
theorem dump_series_values (hk : List String) (calls : List (List (String × Rec))) (h0 : Hist)
    (k : String) (hnd : ∀ c ∈ calls, (c.map (·.1)).Nodup)
    (hkeep : ¬ (hk.contains k = true ∧ k ≠ "best_agent" ∧ h0.storeBestOnly = true)) :
    (lookupA (calls.foldl (dump hk) h0).attrs k).getD [] =
      (lookupA h0.attrs k).getD [] ++ calls.flatMap (fun c => (kvLookup c k).toList) := by
  apply foldl_dump_kept hk calls h0 k hnd
  cases h1 : hk.contains k <;> cases h2 : (k != "best_agent") <;> cases h3 : h0.storeBestOnly <;>
    simp_all

/-- **exactly one record per iteration**: `N` successive `dump` calls, each with the same
    pairwise-distinct keys `ks`, from a history holding none of them: every kept key has exactly
    `N` records (and the attribute exists as soon as `N ≥ 1`) -/
theorem dump_series_length (hk ks : List String) (calls : List (List (String × Rec))) (h0 : Hist)
    (hnd : ks.Nodup) (hkeys : ∀ c ∈ calls, c.map (·.1) = ks)
    (hfresh : ∀ k ∈ ks, lookupA h0.attrs k = none)
    (k : String) (hmem : k ∈ ks)
    (hkeep : ¬ (hk.contains k = true ∧ k ≠ "best_agent" ∧ h0.storeBestOnly = true)) :
    ((lookupA (calls.foldl (dump hk) h0).attrs k).getD []).length = calls.length ∧
    (0 < calls.length → ∃ l, lookupA (calls.foldl (dump hk) h0).attrs k = some l ∧
      l.length = calls.length) := by
  have hlen : ((lookupA (calls.foldl (dump hk) h0).attrs k).getD []).length = calls.length := by
    rw [dump_series_values hk calls h0 k (fun c hc => by rw [hkeys c hc]; exact hnd) hkeep,
      hfresh k hmem]
    simp only [Option.getD_none, List.nil_append]
    rw [length_flatMap_const _ 1 calls, Nat.mul_one]
    intro c hc
    obtain ⟨v, hv⟩ := kvLookup_isSome_of_mem c k (by rw [hkeys c hc]; exact hmem)
    simp [hv]
  refine ⟨hlen, fun hpos => ?_⟩
  cases hl : lookupA (calls.foldl (dump hk) h0).attrs k with
  | none => rw [hl] at hlen; simp at hlen; omega
  | some l => rw [hl] at hlen; exact ⟨l, rfl, by simpa using hlen⟩

/-- **nothing per-agent under `store_best_only`**: a skipped key has no attribute at all -/
theorem dump_series_skipped (hk : List String) (calls : List (List (String × Rec))) (h0 : Hist)
    (k : String) (hfresh : lookupA h0.attrs k = none)
    (hskip : hk.contains k = true ∧ k ≠ "best_agent" ∧ h0.storeBestOnly = true) :
    lookupA (calls.foldl (dump hk) h0).attrs k = none := by
  rw [foldl_dump_skipped hk calls h0 k (by rw [hskip.1, hskip.2.2]; simp [hskip.2.1]), hfresh]

/-- **save / load**: a series that was saved is read back identically after `load`, so `get`
    answers the same on the loaded history as on the saved one (with `load_after_save`, C04,
    a fresh target has exactly the saved attributes) -/
theorem get_after_load (target saved : List (String × List Rec)) (k : String) (isTuple : Bool)
    (idx : List Nat) (h : (saved.any (fun s => decide (s.1 = k))) = true) :
    get ((lookupA (loadInto target saved) k).getD []) isTuple idx =
      get ((lookupA saved k).getD []) isTuple idx := by
  rw [lookup_loadInto_saved target saved k h]

/-! ### satisfiability / non-vacuity -/

/-- two iterations, two agents, `(1 × 2)` positions (`c19Recs`, lemma file): shape `[2, 2, 2]`;
    the positions of agent 1 over time are stacked row-wise; the fitnesses of agent 0 form the
    series `[10, 30]`; a short index is a `SizeError`, an out-of-range one an index error -/
example : shapeOf (.list c19Recs) = [2, 2, 2] := by decide
example : (match get c19Recs true [1, 0] with
    | .ok (.list [.list [.num 3, .num 4, .num 7, .num 8]]) => true | _ => false) = true := by decide
example : (match get c19Recs true [0, 1] with
    | .ok (.list [.num 10, .num 30]) => true | _ => false) = true := by decide
example : (match get c19Recs true [0] with | .error .sizeError => true | _ => false) = true := by
  decide
example : (match get c19Recs true [5, 0] with | .error .indexError => true | _ => false) = true := by
  decide

/-- a run of two iterations with `store_best_only`: only `best_agent` is kept -/
example :
    let h := [[("agents", .num 1), ("best_agent", .num 2)], [("agents", .num 3), ("best_agent", .num 4)]].foldl
      (dump ["agents", "best_agent", "local"]) ⟨true, []⟩
    (match lookupA h.attrs "best_agent" with | some [.num 2, .num 4] => true | _ => false) = true ∧
      (lookupA h.attrs "agents").isNone = true := by
  decide

#print axioms get_type_error
#print axioms get_size_error
#print axioms get_index_error
#print axioms get_ok
#print axioms get_ok_all
#print axioms hstack_nums
#print axioms get_series_order
#print axioms hstack_rows
#print axioms hstack_rows_length
#print axioms shapeOf_agents_record
#print axioms shapeOf_best_record
#print axioms shapeOf_mkAgentsRec
#print axioms shapeOf_mkBestRec
#print axioms get_best_fitness_series
#print axioms dump_series_values
#print axioms dump_series_length
#print axioms dump_series_skipped
#print axioms get_after_load

end Opy
