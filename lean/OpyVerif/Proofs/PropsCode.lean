import OpyVerif.Proofs.BfsProg
import OpyVerif.Proofs.C11
import OpyVerif.Generated.Props
/-!
C11 (measurement clause) about the *translated* `_properties`.
-/
namespace Opy
open PNode

/-- the translated function is the model's `properties`, for every non-empty tree -/
theorem code_properties_is_model (t : PNode) (h : t ≠ nil) : Gen.bfsProg.run t = t.properties := by
  rw [Gen.bfsProg_eq]; exact bfsProg_is_properties t h

/-- C11, first clause, for the code as translated on this run: `min_depth`, `max_depth`, `n_leaves`, `n_nodes` are the
    smallest and largest leaf depth, the number of childless nodes and the number of nodes, for every tree -/
theorem code_properties (t : PNode) (h : t ≠ nil) :
    Gen.bfsProg.run t = ⟨t.minD, (t.maxD : Int), t.leaves, t.size⟩ := by
  rw [code_properties_is_model t h]; exact properties_eq t h

end Opy
