import OpyVerif.Model.InitProg
import OpyVerif.Proofs.C06
/-! The expected readings of the `_initialize_agents` methods are the construction models of `Model/Clip`. -/
namespace Opy

theorem zip_map_fst (lbs ubs : List Int) (h : lbs.length = ubs.length) : (List.zip lbs ubs).map (·.1) = lbs := by
  induction lbs generalizing ubs with
  | nil => simp
  | cons a as ih =>
    cases ubs with
    | nil => simp at h
    | cons b bs => simp [List.zip] at *; exact ih bs h

theorem zip_map_snd (lbs ubs : List Int) (h : lbs.length = ubs.length) : (List.zip lbs ubs).map (·.2) = ubs := by
  induction lbs generalizing ubs with
  | nil => cases ubs <;> simp at *
  | cons a as ih =>
    cases ubs with
    | nil => simp at h
    | cons b bs => simp [List.zip] at *; exact ih bs h

/-- search / tree spaces: the loop leaves the agents of `initSearch` (positions = the draws, bounds = the declared ones) -/
theorem searchInit_is_initSearch (lbs ubs : List Int) (v : Nat) (draws : List Pos) (h : lbs.length = ubs.length) :
    Expected.searchInit.run lbs ubs v draws = some (initSearch lbs ubs draws) := by
  simp [InitLoop.run, InitLoop.wellFormed, Expected.searchInit, InitLoop.agentBounds, InitLoop.pairs, DrawRef.pick, initSearch,
        zip_map_fst lbs ubs h, zip_map_snd lbs ubs h]

/-- … and every row `j` was asked from `[lb_j, ub_j]` -/
theorem searchInit_ranges (lbs ubs : List Int) (v : Nat) :
    Expected.searchInit.ranges lbs ubs v = List.zip lbs ubs := by
  simp [InitLoop.ranges, Expected.searchInit, InitLoop.pairs, DrawRef.pick]

/-- hypercomplex spaces: unit draws, the agents keep the default unit bounds -/
theorem hyperInit_is_initHyper (lbs ubs : List Int) (v : Nat) (draws : List Pos) :
    Expected.hyperInit.run lbs ubs v draws = some (initHyper v draws) := by
  simp [InitLoop.run, InitLoop.wellFormed, Expected.hyperInit, InitLoop.agentBounds, initHyper]

theorem hyperInit_ranges (lbs ubs : List Int) (v : Nat) :
    Expected.hyperInit.ranges lbs ubs v = List.replicate v (keyZero, keyOne) := by
  simp [InitLoop.ranges, Expected.hyperInit, InitLoop.pairs, DrawRef.pick]

end Opy
