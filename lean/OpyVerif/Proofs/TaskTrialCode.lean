import OpyVerif.Proofs.TaskTrial
import OpyVerif.Proofs.TaskRunCode
import OpyVerif.Generated.Skeletons.evalSites_ok
import OpyVerif.Generated.Accepts.acceptSites_ok
/-!
The greedy-task theorems of `Proofs/TaskTrial.lean` about what the translator read on this run: any of the sixteen `run()`
skeletons, `SearchSpace.check_limits`, `Optimizer._evaluate`, any non-sweep evaluation site of `Gen.evalSites`
(`ABC._evaluate_location`, `ABC._send_scout`, `CS._evaluate_nests`, `FPA._update`, `HS._update` …) and any acceptance site
of `Gen.acceptSites` whose role is *greedy*.  The model compares a trial with the population member at a fixed index, which is what
ABC, CS and FPA do; HS / IHS sort the population and replace its worst member, so for them the index-wise statement is about the
sorted population (the rank-wise reading is `replaceWorst_rank_antitone` in `Proofs/C20.lean`); the site-level facts are shared.
-/
namespace Opy
open Task

/-- every evaluation site outside the sweeps clips before it evaluates -/
theorem code_trialSites_ok : ∀ site ∈ Gen.evalSites, site.isSweep = false → opsOk false site.ops = true := by
  intro site hs hsw
  have h := List.all_eq_true.mp Gen.evalSites_ok site hs
  simpa [Site.ok, hsw] using h

/-- every greedy acceptance site replaces the incumbent by a copy of a candidate that is not worse -/
theorem code_greedySites_ok : ∀ acc ∈ Gen.acceptSites, acc.role = .greedy → acc.okReplace = true := by
  intro acc ha hr
  have h := List.all_eq_true.mp Gen.acceptSites_ok acc ha
  simpa [AcceptRec.ok, hr] using h

/-- `SearchSpace.check_limits`, as translated, leaves feasible positions where they are -/
theorem code_searchClip_fixes (lbs ubs : List Int) : ClipFixes Gen.searchClip lbs ubs lbs ubs := by
  intro pos hp
  rw [Gen.searchClip_eq]
  have h : Expected.searchClip.runPos lbs ubs pos = clipPos lbs ubs pos := agentClip_run lbs ubs pos
  rw [h]
  exact clipPos_fixed lbs ubs pos hp

/-- **C20 / C01 about the translated programs.**  For every skeleton, trial site and greedy acceptance site of the current
    source, every box with `lb ≤ ub`, every objective, every trial script and every iteration count: from the first sweep on
    every agent is feasible and truthful, every per-agent record is feasible and truthful, and from record to record no
    agent's fitness increases. -/
theorem code_task_greedy (sk : Skeleton) (hsk : sk ∈ Gen.taskSkeletons)
    (site : Site) (hsite : site ∈ Gen.evalSites) (hns : site.isSweep = false)
    (acc : AcceptRec) (hacc : acc ∈ Gen.acceptSites) (hrole : acc.role = .greedy)
    (lbs ubs : List Int) (hb : BoundsOk lbs ubs) (f : Pos → Int) (script : Nat → List Trial)
    (hscript : ∀ k, ∀ t ∈ script k, ∀ q ∈ t.proposals, q.length = lbs.length)
    (pop : List Ag) (best : Ag) (h0 : ∀ a ∈ pop, InBox lbs ubs a.pos) (N : Nat) :
    GInv lbs ubs f (TaskProg.runTask ⟨sk, Gen.searchClip, Gen.genericSweep⟩ lbs ubs
      (greedyOracle site acc lbs ubs f script) (TaskSt.start pop best) N) :=
  task_greedy ⟨sk, Gen.searchClip, Gen.genericSweep⟩ site acc lbs ubs lbs ubs f script (code_taskSkeletons_good sk hsk) hb
    (code_trialSites_ok site hsite hns) (code_greedySites_ok acc hacc hrole) (code_searchClip_fixes lbs ubs)
    code_genericSweep_isRule hscript pop best h0 N

/-- `HyperSpace.check_limits`, as translated and run with any declared bounds of the right length, leaves positions of the
    unit box where they are -/
theorem code_hyperClip_fixes (dl du : List Int) (hl : dl.length = du.length) :
    ClipFixes Gen.hyperClip dl du (List.replicate dl.length keyZero) (List.replicate dl.length keyOne) := by
  intro pos hp
  rw [Gen.hyperClip_eq]
  have h := hyperClip_run dl du [pos]
  simp only [ClipLoop.runAll, clipAllHyper, List.map_cons, List.map_nil, List.cons.injEq, and_true] at h
  rw [h]
  have hlen : pos.length = dl.length := by
    have := inBox_length _ _ pos hp
    simpa using this
  have h1 : min dl.length du.length = pos.length := by omega
  rw [h1]
  apply clipHyper_fixed
  rw [hlen]; exact hp

/-- **C20 / C01 / C13 on hypercomplex spaces.**  The same for a task on a `HyperSpace`: whatever bounds were declared, with the
    trials' own clip and the space clip both working on the unit box, from the first sweep on every agent and every record is
    inside the unit box and truthful, and no agent's recorded fitness increases. -/
theorem code_task_greedy_hyper (sk : Skeleton) (hsk : sk ∈ Gen.taskSkeletons)
    (site : Site) (hsite : site ∈ Gen.evalSites) (hns : site.isSweep = false)
    (acc : AcceptRec) (hacc : acc ∈ Gen.acceptSites) (hrole : acc.role = .greedy)
    (dl du : List Int) (hl : dl.length = du.length) (f : Pos → Int) (script : Nat → List Trial)
    (hscript : ∀ k, ∀ t ∈ script k, ∀ q ∈ t.proposals, q.length = (List.replicate dl.length keyZero).length)
    (pop : List Ag) (best : Ag)
    (h0 : ∀ a ∈ pop, InBox (List.replicate dl.length keyZero) (List.replicate dl.length keyOne) a.pos) (N : Nat) :
    GInv (List.replicate dl.length keyZero) (List.replicate dl.length keyOne) f
      (TaskProg.runTask ⟨sk, Gen.hyperClip, Gen.genericSweep⟩ dl du
        (greedyOracle site acc (List.replicate dl.length keyZero) (List.replicate dl.length keyOne) f script)
        (TaskSt.start pop best) N) :=
  task_greedy ⟨sk, Gen.hyperClip, Gen.genericSweep⟩ site acc dl du _ _ f script (code_taskSkeletons_good sk hsk)
    (boundsOk_unit _) (code_trialSites_ok site hsite hns) (code_greedySites_ok acc hacc hrole) (code_hyperClip_fixes dl du hl)
    code_genericSweep_isRule hscript pop best h0 N

/-- … and every objective call of every trial of such a task lies in the box -/
theorem code_trial_evals_inBox (site : Site) (hsite : site ∈ Gen.evalSites) (hns : site.isSweep = false)
    (acc : AcceptRec) (hacc : acc ∈ Gen.acceptSites) (hrole : acc.role = .greedy)
    (lbs ubs : List Int) (hb : BoundsOk lbs ubs) (f : Pos → Int) (pop : List Ag) (ts : List Trial)
    (hp : ∀ a ∈ pop, Settled lbs ubs f a) (ht : ∀ t ∈ ts, ∀ q ∈ t.proposals, q.length = lbs.length) :
    ∀ e ∈ (greedyUpdate site acc lbs ubs f pop ts).2, InBox lbs ubs e.1 :=
  (greedyUpdate_evals_inBox site acc lbs ubs f hb (code_trialSites_ok site hsite hns)
    (code_greedySites_ok acc hacc hrole) pop ts hp ht).1

/-- every evaluation site of the current source calls the objective exactly once -/
theorem code_sites_one_eval : ∀ site ∈ Gen.evalSites, (site.ops.filter (· == .eval)).length = 1 := by decide +kernel

/-- **C02 about the translated programs, every objective call counted.**  At the end of every iteration of a greedy task the
    best agent's fitness is at most every value the objective returned, to a sweep or to a trial. -/
theorem code_task_greedy_best_is_min (sk : Skeleton) (hsk : sk ∈ Gen.taskSkeletons)
    (site : Site) (hsite : site ∈ Gen.evalSites) (hns : site.isSweep = false)
    (acc : AcceptRec) (hacc : acc ∈ Gen.acceptSites) (hrole : acc.role = .greedy)
    (lbs ubs : List Int) (hb : BoundsOk lbs ubs) (f : Pos → Int) (script : Nat → List Trial)
    (hscript : ∀ k, ∀ t ∈ script k, ∀ q ∈ t.proposals, q.length = lbs.length)
    (pop : List Ag) (best : Ag) (h0 : ∀ a ∈ pop, InBox lbs ubs a.pos) (N : Nat) :
    let s := TaskProg.runTask ⟨sk, Gen.searchClip, Gen.genericSweep⟩ lbs ubs
      (greedyOracle site acc lbs ubs f script) (TaskSt.start pop best) N
    (∀ e ∈ s.evals, s.best.fit ≤ e.2) ∧ (∀ e ∈ s.trialEvals, s.best.fit ≤ e.2) :=
  task_greedy_best_is_min ⟨sk, Gen.searchClip, Gen.genericSweep⟩ site acc lbs ubs lbs ubs f script (code_taskSkeletons_good sk hsk) hb
    (code_trialSites_ok site hsite hns) (code_greedySites_ok acc hacc hrole) (code_sites_one_eval site hsite)
    (code_searchClip_fixes lbs ubs) code_genericSweep_isRule hscript pop best h0 N

/-! ### non-vacuity; the model runs (tests) -/

namespace TrialExample
open TaskExample
def siteCS : Site := { func := "CS._evaluate_nests", obj := "new_agent", ops := [.assign, .clip, .eval], isSweep := false }
def accCS : AcceptRec :=
  { func := "CS._evaluate_nests", role := .greedy, op := .lt, lhs := .cand, rhs := .incumbent, posFrom := .cand, posCopy := true,
    fitFrom := .cand, both := true, unknown := 0 }
example : siteCS ∈ Gen.evalSites ∧ accCS ∈ Gen.acceptSites := by simp [Gen.evalSites, Gen.acceptSites, siteCS, accCS]
/-- (oracle steps are numbered through the task: hook 0, update 1, hook 2, update 3, hook 4) two agents at 5 and 7 in the box [0, 10], objective `x ↦ x`; iteration 1 proposes 3 for agent 0 (accepted) and 25 for
    agent 1 (clipped to 10, evaluated there, rejected); iteration 2 proposes −4 for agent 1 (clipped to 0, accepted) -/
def script : Nat → List Trial
  | 1 => [{ who := 0, proposals := [[[3]]] }, { who := 1, proposals := [[[25]]] }]
  | 3 => [{ who := 1, proposals := [[[-4]]] }]
  | _ => []
def a1 : Ag := { pos := [[7]], tpos := [[7]], fit := 100, ref := 2 }
example :
    let s := TaskProg.runTask ⟨Gen.skel_CS, Gen.searchClip, Gen.genericSweep⟩ [0] [10]
      (greedyOracle siteCS accCS [0] [10] o0.f script) (TaskSt.start [a0, a1] b0) 2
    s.dumps.map (·.1) = [[([[3]], 3), ([[7]], 7)], [([[3]], 3), ([[0]], 0)]] ∧ s.k = 5 ∧
      s.trialEvals = [([[3]], 3), ([[10]], 10), ([[0]], 0)] ∧ record s.best = ([[0]], 0) := by decide +kernel
example : (greedyUpdate siteCS accCS [0] [10] o0.f [a0, a1] (script 1)).2 = [([[3]], 3), ([[10]], 10)] := by decide +kernel
end TrialExample

end Opy
