import OpyVerif.Model.TaskRun
import OpyVerif.Proofs.C06
import OpyVerif.Proofs.SweepProg
/-!
The sweep-level clauses of C01, C02, C03 and C04 about a whole task (`Model/TaskRun.runTask`), for every number of
iterations, every objective and every update / hook / post oracle.  The only facts used about the program are the ones the
regenerated obligations establish: the skeleton is `Good`, the clip loop projects into the box, the sweep is the machine's
sweep rule.
-/
namespace Opy
namespace Task

/-! ### the event pattern of a good skeleton -/

theorem takeWhile_beq_replicate (x : SEv) (l : List SEv) :
    ∃ n, l.takeWhile (· == x) = List.replicate n x := by
  induction l with
  | nil => exact ⟨0, rfl⟩
  | cons y ys ih =>
    by_cases h : y = x
    · obtain ⟨n, hn⟩ := ih
      exact ⟨n + 1, by simp [List.takeWhile, hn, List.replicate_succ, h]⟩
    · have hb : (y == x) = false := by simpa using h
      exact ⟨0, by simp [List.takeWhile, hb]⟩

/-- inside the loop: at least one update, then (clip,) hook, sweep, then post steps, then the dump — nothing else -/
theorem goodBody_pattern (nc : Bool) (l : List Step) (h : goodBody nc l = true) :
    ∃ a b, evs l = List.replicate (a + 1) .update ++ (if nc then [.clipAll, .hook, .sweep] else [.hook, .sweep])
      ++ List.replicate b .post ++ [.dump] := by
  unfold goodBody at h
  simp only [Bool.and_eq_true, Bool.not_eq_true', beq_iff_eq] at h
  obtain ⟨⟨h1, h2⟩, h3⟩ := h
  generalize evs l = e at *
  have e1 : e = e.takeWhile (· == .update) ++ e.dropWhile (· == .update) := (List.takeWhile_append_dropWhile).symm
  generalize hr : e.dropWhile (· == SEv.update) = rest at *
  have e2 : rest = rest.takeWhile (fun x => x == .clipAll || x == .hook || x == .sweep)
      ++ rest.dropWhile (fun x => x == .clipAll || x == .hook || x == .sweep) := (List.takeWhile_append_dropWhile).symm
  generalize hr2 : rest.dropWhile (fun x => x == SEv.clipAll || x == .hook || x == .sweep) = rest2 at *
  have e3 : rest2 = rest2.takeWhile (· == .post) ++ rest2.dropWhile (· == .post) := (List.takeWhile_append_dropWhile).symm
  rw [h3] at e3
  rw [h2] at e2
  obtain ⟨n, hu⟩ := takeWhile_beq_replicate .update e
  obtain ⟨b, hp⟩ := takeWhile_beq_replicate .post rest2
  rw [hp] at e3
  have hn0 : n ≠ 0 := by
    intro h0
    rw [h0] at hu
    simp [hu] at h1
  obtain ⟨a, rfl⟩ := Nat.exists_eq_succ_of_ne_zero hn0
  refine ⟨a, b, ?_⟩
  rw [e1, hu, e2, e3]
  simp [List.append_assoc]

theorem good_pattern (nc : Bool) (sk : Skeleton) (h : Good nc sk = true) :
    evs sk.pre = [.hook, .sweep] ∧
    ∃ a b, evs sk.body = List.replicate (a + 1) .update ++ (if nc then [.clipAll, .hook, .sweep] else [.hook, .sweep])
      ++ List.replicate b .post ++ [.dump] := by
  unfold Good at h
  simp only [Bool.and_eq_true, beq_iff_eq] at h
  exact ⟨h.1.1.1.1, goodBody_pattern nc sk.body h.1.1.1.2⟩

/-! ### execution lemmas -/

section
variable (p : TaskProg) (lbs ubs : List Int) (o : TaskOracle)

theorem exec_append (s : TaskSt) (xs ys : List SEv) :
    p.exec lbs ubs o s (xs ++ ys) = p.exec lbs ubs o (p.exec lbs ubs o s xs) ys := by
  simp [TaskProg.exec, List.foldl_append]

theorem exec_cons (s : TaskSt) (x : SEv) (xs : List SEv) :
    p.exec lbs ubs o s (x :: xs) = p.exec lbs ubs o (p.execEv lbs ubs o s x) xs := rfl

theorem exec_nil (s : TaskSt) : p.exec lbs ubs o s [] = s := rfl

theorem runTask_zero (s0 : TaskSt) : p.runTask lbs ubs o s0 0 = p.exec lbs ubs o s0 (evs p.skel.pre) := rfl

theorem runTask_succ (s0 : TaskSt) (n : Nat) :
    p.runTask lbs ubs o s0 (n + 1) = p.exec lbs ubs o (p.runTask lbs ubs o s0 n) (evs p.skel.body) := by
  simp [TaskProg.runTask, runSkel, exec_append]

/-- update steps write no log -/
theorem exec_updates_logs (n : Nat) (s : TaskSt) :
    let s' := p.exec lbs ubs o s (List.replicate n .update)
    s'.evals = s.evals ∧ s'.hookOut = s.hookOut ∧ s'.sweepArgs = s.sweepArgs ∧ s'.dumps = s.dumps := by
  induction n generalizing s with
  | zero => simp [exec_nil]
  | succ n ih =>
    rw [List.replicate_succ, exec_cons]
    have := ih (p.execEv lbs ubs o s .update)
    simpa [TaskProg.execEv] using this

/-- post steps write no log -/
theorem exec_posts_logs (n : Nat) (s : TaskSt) :
    let s' := p.exec lbs ubs o s (List.replicate n .post)
    s'.evals = s.evals ∧ s'.hookOut = s.hookOut ∧ s'.sweepArgs = s.sweepArgs ∧ s'.dumps = s.dumps := by
  induction n generalizing s with
  | zero => simp [exec_nil]
  | succ n ih =>
    rw [List.replicate_succ, exec_cons]
    have := ih (p.execEv lbs ubs o s .post)
    simpa [TaskProg.execEv] using this

/-- after at least one update step the population is what an update returned -/
theorem exec_updates_pop (n : Nat) (s : TaskSt) :
    ∃ k st, (p.exec lbs ubs o s (List.replicate (n + 1) .update)).pop = (o.upd k st).1 := by
  rw [List.replicate_succ', exec_append]
  exact ⟨_, _, rfl⟩

end

/-! ### what is assumed of the oracles -/

/-- updates return positions with the declared number of rows; a user hook that is handed a population inside the box
    leaves it inside the box (the two assumptions of C01 that no source can establish) -/
structure OracleOK (nrows : Nat) (blo bhi : List Int) (o : TaskOracle) : Prop where
  updRows : ∀ k st, ∀ a ∈ (o.upd k st).1, a.pos.length = nrows
  hookBox : ∀ k st, (∀ a ∈ st.1, InBox blo bhi a.pos) → ∀ a ∈ (o.hook k st).1, InBox blo bhi a.pos

/-- only sweeps write the best agent (true of every optimiser but BHA, whose exchange with the black hole is a rule of
    the abstract machine) -/
structure BestKept (o : TaskOracle) : Prop where
  upd : ∀ k st, (o.upd k st).2 = st.2
  hook : ∀ k st, (o.hook k st).2 = st.2
  post : ∀ k st, (o.post k st).2 = st.2

/-- the clip loop projects every position of the declared row count into the box `blo … bhi` -/
def ClipsInto (c : ClipLoop) (lbs ubs blo bhi : List Int) : Prop :=
  ∀ pos : Pos, pos.length = lbs.length → InBox blo bhi (c.runPos lbs ubs pos)

/-! ### one iteration -/

section
variable (p : TaskProg) (lbs ubs : List Int) (o : TaskOracle)

/-- One pass through a good loop body, from any state: there is a population `X` — what the hook left behind — such that
    the sweep evaluated exactly `X`, in order, and the logs grew by exactly that. -/
theorem exec_body (a b : Nat) (s : TaskSt) :
    let s' := p.exec lbs ubs o s (List.replicate (a + 1) .update ++ [.clipAll, .hook, .sweep] ++ List.replicate b .post ++ [.dump])
    ∃ (k : Nat) (st : List Ag × Ag) (kh : Nat) (bst : Ag),
      let X := (o.hook kh (((o.upd k st).1.map fun a => { a with pos := p.clip.runPos lbs ubs a.pos }), bst)).1
      s'.evals = s.evals ++ X.map (fun a => (a.pos, o.f a.pos)) ∧
      s'.hookOut = s.hookOut ++ [X.map (·.pos)] ∧
      s'.sweepArgs = s.sweepArgs ++ [X.map (·.pos)] ∧
      s'.dumps = s.dumps ++ [(s'.pop.map record, record s'.best)] := by
  intro s'
  obtain ⟨k, st, hk⟩ := exec_updates_pop p lbs ubs o a s
  have hl := exec_updates_logs p lbs ubs o (a + 1) s
  generalize hs1 : p.exec lbs ubs o s (List.replicate (a + 1) .update) = s1 at hk hl
  refine ⟨k, st, s1.k, s1.best, ?_⟩
  have hs' : s' = p.exec lbs ubs o (p.exec lbs ubs o
      (p.execEv lbs ubs o (p.execEv lbs ubs o (p.execEv lbs ubs o s1 .clipAll) .hook) .sweep) (List.replicate b .post)) [.dump] := by
    simp only [s', exec_append, hs1, exec_cons, exec_nil]
  have hp := exec_posts_logs p lbs ubs o b
    (p.execEv lbs ubs o (p.execEv lbs ubs o (p.execEv lbs ubs o s1 .clipAll) .hook) .sweep)
  generalize hs5 : p.exec lbs ubs o
    (p.execEv lbs ubs o (p.execEv lbs ubs o (p.execEv lbs ubs o s1 .clipAll) .hook) .sweep) (List.replicate b .post) = s5 at hs' hp
  obtain ⟨l1, l2, l3, l4⟩ := hl
  obtain ⟨p1, p2, p3, p4⟩ := hp
  simp only [TaskProg.execEv] at p1 p2 p3 p4
  rw [hs']
  simp only [exec_cons, exec_nil, TaskProg.execEv]
  rw [p1, p2, p3, p4, l1, l2, l3, l4, hk]
  exact ⟨rfl, rfl, rfl, rfl⟩

end

/-! ### C03: hook first, the sweep evaluates exactly what the hook left, counts -/

section
variable (p : TaskProg) (lbs ubs : List Int) (o : TaskOracle)

/-- the logs are coherent: every sweep evaluated, in order, the positions the hook call right before it left behind, and
    the objective calls of the sweeps are exactly those arguments with their values -/
def LogInv (o : TaskOracle) (s : TaskSt) : Prop :=
  s.sweepArgs = s.hookOut ∧ s.evals = s.sweepArgs.flatten.map (fun x => (x, o.f x))

theorem exec_pre (s : TaskSt) :
    let s' := p.exec lbs ubs o s [.hook, .sweep]
    let X := (o.hook s.k (s.pop, s.best)).1
    s'.evals = s.evals ++ X.map (fun a => (a.pos, o.f a.pos)) ∧
    s'.hookOut = s.hookOut ++ [X.map (·.pos)] ∧
    s'.sweepArgs = s.sweepArgs ++ [X.map (·.pos)] ∧
    s'.dumps = s.dumps := by
  simp [exec_cons, exec_nil, TaskProg.execEv]

theorem logInv_step (s : TaskSt) (X : List Ag) (s' : TaskSt) (h : LogInv o s)
    (h1 : s'.evals = s.evals ++ X.map (fun a => (a.pos, o.f a.pos)))
    (h2 : s'.hookOut = s.hookOut ++ [X.map (·.pos)]) (h3 : s'.sweepArgs = s.sweepArgs ++ [X.map (·.pos)]) :
    LogInv o s' := by
  obtain ⟨ha, hb⟩ := h
  refine ⟨by rw [h2, h3, ha], ?_⟩
  rw [h1, h3, hb]
  simp [List.map_map, Function.comp_def]

/-- **C03, sweep level.**  For every number of iterations `N`: the hook is called `N + 1` times and every call is followed
    by a sweep that evaluates, in population order, exactly the positions the hook left behind; the history gets `N`
    records; the sweeps' objective calls are those arguments, nothing else. -/
theorem task_logs (hg : Good true p.skel = true) (pop : List Ag) (best : Ag) (N : Nat) :
    let s := p.runTask lbs ubs o (TaskSt.start pop best) N
    LogInv o s ∧ s.hookOut.length = N + 1 ∧ s.sweepArgs.length = N + 1 ∧ s.dumps.length = N := by
  obtain ⟨hpre, a, b, hbody⟩ := good_pattern true p.skel hg
  simp only [if_true] at hbody
  induction N with
  | zero =>
    simp only [runTask_zero, hpre]
    obtain ⟨e1, e2, e3, e4⟩ := exec_pre p lbs ubs o (TaskSt.start pop best)
    refine ⟨logInv_step o _ _ _ (by simp [LogInv, TaskSt.start]) e1 e2 e3, ?_, ?_, ?_⟩
    · rw [e2]; simp [TaskSt.start]
    · rw [e3]; simp [TaskSt.start]
    · rw [e4]; simp [TaskSt.start]
  | succ n ih =>
    simp only [runTask_succ, hbody]
    obtain ⟨hi, l1, l2, l3⟩ := ih
    obtain ⟨k, st, kh, bst, e1, e2, e3, e4⟩ := exec_body p lbs ubs o a b (p.runTask lbs ubs o (TaskSt.start pop best) n)
    refine ⟨logInv_step o _ _ _ hi e1 e2 e3, ?_, ?_, ?_⟩
    · rw [e2]; simp [l1]
    · rw [e3]; simp [l2]
    · rw [e4]; simp [l3]

/-- with updates, hooks and post steps that keep the size of the population (`n` agents), a task of `N` iterations makes
    exactly `(N + 1) · n` sweep calls of the objective -/
theorem task_sweep_calls (hg : Good true p.skel = true) (pop : List Ag) (best : Ag) (N n : Nat)
    (hn : ∀ k st, (o.hook k st).1.length = n) :
    (p.runTask lbs ubs o (TaskSt.start pop best) N).evals.length = (N + 1) * n := by
  obtain ⟨hpre, a, b, hbody⟩ := good_pattern true p.skel hg
  simp only [if_true] at hbody
  induction N with
  | zero =>
    simp only [runTask_zero, hpre]
    obtain ⟨e1, _, _, _⟩ := exec_pre p lbs ubs o (TaskSt.start pop best)
    rw [e1]; simp [TaskSt.start, hn]
  | succ m ih =>
    simp only [runTask_succ, hbody]
    obtain ⟨k, st, kh, bst, e1, _, _, _⟩ := exec_body p lbs ubs o a b (p.runTask lbs ubs o (TaskSt.start pop best) m)
    rw [e1, List.length_append, ih, List.length_map, hn]
    simp only [Nat.add_mul, Nat.one_mul]

/-! ### C04: one record per iteration, the last one is the final state -/

/-- **C04, record level.**  After `N + 1` iterations the last record handed to `History.dump` is the population and the
    best agent as the task leaves them (position and fitness, population order). -/
theorem task_last_dump (hg : Good true p.skel = true) (s0 : TaskSt) (N : Nat) :
    let s := p.runTask lbs ubs o s0 (N + 1)
    s.dumps.getLast? = some (s.pop.map record, record s.best) := by
  obtain ⟨_, a, b, hbody⟩ := good_pattern true p.skel hg
  simp only [if_true] at hbody
  simp only [runTask_succ, hbody]
  obtain ⟨k, st, kh, bst, _, _, _, e4⟩ := exec_body p lbs ubs o a b (p.runTask lbs ubs o s0 N)
  rw [e4]; simp

/-- **C04, append-only.**  One more iteration adds exactly one record and leaves every earlier record as it was: the records of
    `N` iterations are the first `N` records of `N + 1` iterations. -/
theorem task_dumps_append (hg : Good true p.skel = true) (s0 : TaskSt) (N : Nat) :
    ∃ r, (p.runTask lbs ubs o s0 (N + 1)).dumps = (p.runTask lbs ubs o s0 N).dumps ++ [r] := by
  obtain ⟨_, a, b, hbody⟩ := good_pattern true p.skel hg
  simp only [if_true] at hbody
  simp only [runTask_succ, hbody]
  obtain ⟨k, st, kh, bst, _, _, _, e4⟩ := exec_body p lbs ubs o a b (p.runTask lbs ubs o s0 N)
  exact ⟨_, e4⟩

theorem task_dumps_prefix (hg : Good true p.skel = true) (s0 : TaskSt) (N M : Nat) (h : N ≤ M) :
    ∃ rest, (p.runTask lbs ubs o s0 M).dumps = (p.runTask lbs ubs o s0 N).dumps ++ rest ∧ rest.length = M - N := by
  induction M with
  | zero =>
    have : N = 0 := by omega
    subst this
    exact ⟨[], by simp, by simp⟩
  | succ m ih =>
    by_cases hm : N ≤ m
    · obtain ⟨rest, h1, h2⟩ := ih hm
      obtain ⟨r, hr⟩ := task_dumps_append p lbs ubs o hg s0 m
      exact ⟨rest ++ [r], by rw [hr, h1, List.append_assoc], by simp [h2]; omega⟩
    · have : N = m + 1 := by omega
      subst this
      exact ⟨[], by simp, by simp⟩

/-! ### C01: every sweep evaluates inside the box -/

/-- **C01, sweep level.**  If the skeleton is good, the space-wide clip projects into the box, updates keep the declared
    row count and the user's hook keeps a feasible population feasible, then — for every objective, every update arithmetic,
    every number of iterations — every position a sweep hands to the objective lies in the box. -/
theorem task_evals_inBox (hg : Good true p.skel = true) (blo bhi : List Int)
    (hc : ClipsInto p.clip lbs ubs blo bhi) (ho : OracleOK lbs.length blo bhi o)
    (pop : List Ag) (best : Ag) (h0 : ∀ a ∈ pop, InBox blo bhi a.pos) (N : Nat) :
    ∀ e ∈ (p.runTask lbs ubs o (TaskSt.start pop best) N).evals, InBox blo bhi e.1 := by
  obtain ⟨hpre, a, b, hbody⟩ := good_pattern true p.skel hg
  simp only [if_true] at hbody
  induction N with
  | zero =>
    simp only [runTask_zero, hpre]
    obtain ⟨e1, _, _, _⟩ := exec_pre p lbs ubs o (TaskSt.start pop best)
    rw [e1]
    intro e he
    simp only [TaskSt.start, List.nil_append, List.mem_map] at he
    obtain ⟨x, hx, rfl⟩ := he
    exact ho.hookBox _ _ h0 x hx
  | succ n ih =>
    simp only [runTask_succ, hbody]
    obtain ⟨k, st, kh, bst, e1, _, _, _⟩ := exec_body p lbs ubs o a b (p.runTask lbs ubs o (TaskSt.start pop best) n)
    rw [e1]
    intro e he
    rcases List.mem_append.mp he with he | he
    · exact ih e he
    · simp only [List.mem_map] at he
      obtain ⟨x, hx, rfl⟩ := he
      refine ho.hookBox _ _ ?_ x hx
      intro y hy
      simp only [List.mem_map] at hy
      obtain ⟨z, hz, rfl⟩ := hy
      exact hc z.pos (ho.updRows k st z hz)

end

/-! ### C02: the best agent is the best point the sweeps evaluated -/

/-- the loop body of the sweep is the machine's sweep rule (`sweepAgent`, `takes`, `bestOf`) for some tie flag -/
def IsRule (l : SweepLoop) (swarm : Bool) : Prop :=
  ∃ tie, ∀ (lbs ubs : List Int) (tp : Pos) (v : Int) (fresh : Nat) (a best : Ag),
    l.body lbs ubs tp v fresh a best =
      (sweepAgent ⟨0, swarm, lbs, ubs⟩ a v,
       if takes best (sweepAgent ⟨0, swarm, lbs, ubs⟩ a v) tie then bestOf (sweepAgent ⟨0, swarm, lbs, ubs⟩ a v) fresh else best)

theorem sweepAgent_fit_le (cfg : Cfg) (a : Ag) (v : Int) : (sweepAgent cfg a v).fit ≤ v := by
  unfold sweepAgent
  by_cases hs : cfg.swarm <;> by_cases h : v < a.fit <;> simp [hs, h] <;> omega

theorem rule_best (best a' : Ag) (tie : Bool) (fresh : Nat) :
    let b' := if takes best a' tie then bestOf a' fresh else best
    b'.fit ≤ best.fit ∧ b'.fit ≤ a'.fit := by
  by_cases h : takes best a' tie = true
  · simp only [h, if_true, bestOf]
    unfold takes at h
    simp only [Bool.or_eq_true, decide_eq_true_eq, Bool.and_eq_true, beq_iff_eq] at h
    rcases h with h | ⟨_, h⟩ <;> omega
  · simp only [h]
    unfold takes at h
    simp only [Bool.or_eq_true, decide_eq_true_eq, Bool.and_eq_true, beq_iff_eq, not_or] at h
    have := h.1
    simp; omega

theorem sweepPop_best (l : SweepLoop) (swarm : Bool) (hr : IsRule l swarm) (lbs ubs : List Int) (f : Pos → Int)
    (pop : List Ag) (best : Ag) (fresh : Nat) :
    (sweepPop l lbs ubs f pop best fresh).2.fit ≤ best.fit ∧
    ∀ a ∈ pop, (sweepPop l lbs ubs f pop best fresh).2.fit ≤ f a.pos := by
  obtain ⟨tie, hr⟩ := hr
  induction pop generalizing best fresh with
  | nil => simp [sweepPop]
  | cons a as ih =>
    simp only [sweepPop, hr]
    have h1 := rule_best best (sweepAgent ⟨0, swarm, lbs, ubs⟩ a (f a.pos)) tie fresh
    have h2 := sweepAgent_fit_le ⟨0, swarm, lbs, ubs⟩ a (f a.pos)
    obtain ⟨i1, i2⟩ := ih (if takes best (sweepAgent ⟨0, swarm, lbs, ubs⟩ a (f a.pos)) tie
      then bestOf (sweepAgent ⟨0, swarm, lbs, ubs⟩ a (f a.pos)) fresh else best) (fresh + 1)
    refine ⟨by omega, ?_⟩
    intro x hx
    rcases List.mem_cons.mp hx with rfl | hx
    · omega
    · exact i2 x hx

/-- outside the swarm family the best agent a sweep leaves is the incumbent or one of the evaluated pairs -/
theorem sweepPop_best_from (l : SweepLoop) (hr : IsRule l false) (lbs ubs : List Int) (f : Pos → Int)
    (pop : List Ag) (best : Ag) (fresh : Nat) :
    (sweepPop l lbs ubs f pop best fresh).2 = best ∨
    ∃ a ∈ pop, (sweepPop l lbs ubs f pop best fresh).2.pos = a.pos ∧ (sweepPop l lbs ubs f pop best fresh).2.fit = f a.pos := by
  obtain ⟨tie, hr⟩ := hr
  induction pop generalizing best fresh with
  | nil => simp [sweepPop]
  | cons a as ih =>
    simp only [sweepPop, hr]
    rcases ih (if takes best (sweepAgent ⟨0, false, lbs, ubs⟩ a (f a.pos)) tie
      then bestOf (sweepAgent ⟨0, false, lbs, ubs⟩ a (f a.pos)) fresh else best) (fresh + 1) with h | ⟨x, hx, h1, h2⟩
    · rw [h]
      by_cases ht : takes best (sweepAgent ⟨0, false, lbs, ubs⟩ a (f a.pos)) tie = true
      · right
        rw [if_pos ht]
        exact ⟨a, List.mem_cons_self, by simp [bestOf, sweepAgent], by simp [bestOf, sweepAgent]⟩
      · left; simp [ht]
    · right
      exact ⟨x, List.mem_cons_of_mem _ hx, h1, h2⟩

section
variable (p : TaskProg) (lbs ubs : List Int) (o : TaskOracle)

/-- the best agent's fitness is a lower bound of every value a sweep has seen and of every recorded best fitness, and the
    recorded best fitnesses never increase -/
def BestInv (s : TaskSt) : Prop :=
  (∀ e ∈ s.evals, s.best.fit ≤ e.2) ∧ (∀ d ∈ s.dumps, s.best.fit ≤ d.2.2) ∧
  (s.dumps.map (fun d => d.2.2)).Pairwise (· ≥ ·)

theorem bestInv_congr (s s' : TaskSt) (hb : s'.best = s.best) (he : s'.evals = s.evals) (hd : s'.dumps = s.dumps)
    (h : BestInv s) : BestInv s' := by
  unfold BestInv at *
  rw [hb, he, hd]; exact h

theorem bestInv_execEv (swarm : Bool) (hr : IsRule p.sweep swarm) (hk : BestKept o) (s : TaskSt) (ev : SEv)
    (h : BestInv s) : BestInv (p.execEv lbs ubs o s ev) := by
  cases ev with
  | update => exact bestInv_congr s _ (by simp [TaskProg.execEv, hk.upd]) rfl rfl h
  | hook => exact bestInv_congr s _ (by simp [TaskProg.execEv, hk.hook]) rfl rfl h
  | post => exact bestInv_congr s _ (by simp [TaskProg.execEv, hk.post]) rfl rfl h
  | clipAll => exact bestInv_congr s _ rfl rfl rfl h
  | sweep =>
    obtain ⟨h1, h2, h3⟩ := h
    obtain ⟨b1, b2⟩ := sweepPop_best p.sweep swarm hr lbs ubs o.f s.pop s.best s.fresh
    refine ⟨?_, ?_, by simpa [TaskProg.execEv] using h3⟩
    · intro e he
      simp only [TaskProg.execEv, List.mem_append, List.mem_map] at he ⊢
      rcases he with he | ⟨x, hx, rfl⟩
      · have := h1 e he; omega
      · exact b2 x hx
    · intro d hd
      simp only [TaskProg.execEv] at hd ⊢
      have := h2 d hd; omega
  | dump =>
    obtain ⟨h1, h2, h3⟩ := h
    refine ⟨h1, ?_, ?_⟩
    · intro d hd
      simp only [TaskProg.execEv, List.mem_append, List.mem_singleton] at hd ⊢
      rcases hd with hd | rfl
      · exact h2 d hd
      · simp [record]
    · simp only [TaskProg.execEv, List.map_append, List.map_cons, List.map_nil]
      rw [List.pairwise_append]
      refine ⟨h3, by simp, ?_⟩
      intro x hx y hy
      simp only [List.mem_map] at hx
      obtain ⟨d, hd, rfl⟩ := hx
      simp only [List.mem_singleton] at hy
      subst hy
      simpa [record] using h2 d hd

theorem bestInv_exec (swarm : Bool) (hr : IsRule p.sweep swarm) (hk : BestKept o) (es : List SEv) (s : TaskSt)
    (h : BestInv s) : BestInv (p.exec lbs ubs o s es) := by
  induction es generalizing s with
  | nil => exact h
  | cons e es ih => exact ih _ (bestInv_execEv p lbs ubs o swarm hr hk s e h)

/-- **C02, sweep level.**  Whatever the skeleton, the objective and the oracles that leave the best agent alone: at every
    moment of a task the best agent's fitness is at most every value any sweep has obtained so far and at most every best
    fitness recorded so far, and the recorded best fitnesses are non-increasing. -/
theorem task_best (swarm : Bool) (hr : IsRule p.sweep swarm) (hk : BestKept o) (pop : List Ag) (best : Ag) (N : Nat) :
    BestInv (p.runTask lbs ubs o (TaskSt.start pop best) N) :=
  bestInv_exec p lbs ubs o swarm hr hk _ _ (by simp [BestInv, TaskSt.start])

/-- the best agent is the one the task started with, or a pair some sweep evaluated -/
def BestFrom (best0 : Ag) (s : TaskSt) : Prop :=
  s.best = best0 ∨ (s.best.pos, s.best.fit) ∈ s.evals

theorem bestFrom_congr (best0 : Ag) (s s' : TaskSt) (hb : s'.best = s.best) (he : s'.evals = s.evals)
    (h : BestFrom best0 s) : BestFrom best0 s' := by
  unfold BestFrom at *
  rw [hb, he]; exact h

theorem bestFrom_execEv (hr : IsRule p.sweep false) (hk : BestKept o) (best0 : Ag) (s : TaskSt) (ev : SEv)
    (h : BestFrom best0 s) : BestFrom best0 (p.execEv lbs ubs o s ev) := by
  cases ev with
  | update => exact bestFrom_congr _ s _ (by simp [TaskProg.execEv, hk.upd]) rfl h
  | hook => exact bestFrom_congr _ s _ (by simp [TaskProg.execEv, hk.hook]) rfl h
  | post => exact bestFrom_congr _ s _ (by simp [TaskProg.execEv, hk.post]) rfl h
  | clipAll => exact bestFrom_congr _ s _ rfl rfl h
  | dump => exact bestFrom_congr _ s _ rfl rfl h
  | sweep =>
    rcases sweepPop_best_from p.sweep hr lbs ubs o.f s.pop s.best s.fresh with hb | ⟨x, hx, h1, h2⟩
    · rcases h with h | h
      · left; simp only [TaskProg.execEv]; rw [hb, h]
      · right; simp only [TaskProg.execEv]; rw [hb]; exact List.mem_append_left _ h
    · right
      simp only [TaskProg.execEv]
      rw [h1, h2]
      exact List.mem_append_right _ (List.mem_map.mpr ⟨x, hx, rfl⟩)

theorem bestFrom_exec (hr : IsRule p.sweep false) (hk : BestKept o) (best0 : Ag) (es : List SEv) (s : TaskSt)
    (h : BestFrom best0 s) : BestFrom best0 (p.exec lbs ubs o s es) := by
  induction es generalizing s with
  | nil => exact h
  | cons e es ih => exact ih _ (bestFrom_execEv p lbs ubs o hr hk best0 s e h)

/-- **C02 / C01, best agent.**  Outside the swarm family: the best agent a task reports is the agent it was handed, or its
    (position, fitness) is an objective call some sweep made — so, with `task_evals_inBox`, its position is feasible. -/
theorem task_best_evaluated (hr : IsRule p.sweep false) (hk : BestKept o) (pop : List Ag) (best : Ag) (N : Nat) :
    BestFrom best (p.runTask lbs ubs o (TaskSt.start pop best) N) :=
  bestFrom_exec p lbs ubs o hr hk best _ _ (Or.inl rfl)

theorem task_best_inBox (hg : Good true p.skel = true) (blo bhi : List Int)
    (hc : ClipsInto p.clip lbs ubs blo bhi) (ho : OracleOK lbs.length blo bhi o)
    (hr : IsRule p.sweep false) (hk : BestKept o)
    (pop : List Ag) (best : Ag) (h0 : ∀ a ∈ pop, InBox blo bhi a.pos) (N : Nat) :
    (p.runTask lbs ubs o (TaskSt.start pop best) N).best = best ∨
    InBox blo bhi (p.runTask lbs ubs o (TaskSt.start pop best) N).best.pos := by
  rcases task_best_evaluated p lbs ubs o hr hk pop best N with h | h
  · exact Or.inl h
  · exact Or.inr (task_evals_inBox p lbs ubs o hg blo bhi hc ho pop best h0 N _ h)

end

/-! ### C02 in full: the reported best *is* the minimum of what the sweeps evaluated -/

section
variable (p : TaskProg) (lbs ubs : List Int) (o : TaskOracle)

/-- the best agent's (position, fitness) is one of the sweeps' objective calls -/
def Evald (s : TaskSt) : Prop := (s.best.pos, s.best.fit) ∈ s.evals

theorem evald_execEv (hr : IsRule p.sweep false) (hk : BestKept o) (s : TaskSt) (ev : SEv) (h : Evald s) :
    Evald (p.execEv lbs ubs o s ev) := by
  have hb := bestFrom_execEv p lbs ubs o hr hk s.best s ev (Or.inr h)
  rcases hb with hb | hb
  · -- the best agent is unchanged and the log only grows
    unfold Evald
    rw [hb]
    cases ev <;> simp only [TaskProg.execEv] <;> first | exact h | exact List.mem_append_left _ h
  · exact hb

theorem evald_exec (hr : IsRule p.sweep false) (hk : BestKept o) (es : List SEv) (s : TaskSt) (h : Evald s) :
    Evald (p.exec lbs ubs o s es) := by
  induction es generalizing s with
  | nil => exact h
  | cons e es ih => exact ih _ (evald_execEv p lbs ubs o hr hk s e h)

theorem runSkel_pre' (sk : Skeleton) (N : Nat) : ∃ rest, runSkel sk N = evs sk.pre ++ rest := by
  induction N with
  | zero => exact ⟨[], by simp [runSkel]⟩
  | succ n ih =>
    obtain ⟨r, hr⟩ := ih
    exact ⟨r ++ evs sk.body, by simp [runSkel, hr, List.append_assoc]⟩

/-- **C02 in full (generic sweep).**  If the objective stays strictly below the incumbent's sentinel fitness (`FLOAT_MAX`: the
    excluded point is the recorded finding K6) and the first hook leaves a non-empty population, then at every moment from the
    first sweep on the reported best is one of the evaluated pairs and its fitness is at most every value any sweep obtained:
    it is the minimum, attained. -/
theorem task_best_is_min (hg : Good true p.skel = true) (hr : IsRule p.sweep false) (hk : BestKept o)
    (pop : List Ag) (best : Ag) (hlt : ∀ x, o.f x < best.fit) (hne : (o.hook 0 (pop, best)).1 ≠ []) (N : Nat) :
    let s := p.runTask lbs ubs o (TaskSt.start pop best) N
    (s.best.pos, s.best.fit) ∈ s.evals ∧ ∀ e ∈ s.evals, s.best.fit ≤ e.2 := by
  refine ⟨?_, (task_best p lbs ubs o false hr hk pop best N).1⟩
  obtain ⟨hpre, _⟩ := good_pattern true p.skel hg
  obtain ⟨rest, hrest⟩ := runSkel_pre' p.skel N
  show Evald (p.runTask lbs ubs o (TaskSt.start pop best) N)
  unfold TaskProg.runTask
  rw [hrest, exec_append, hpre]
  apply evald_exec p lbs ubs o hr hk
  -- the first sweep takes somebody: the population is not empty and every value is below the sentinel
  simp only [exec_cons, exec_nil, TaskProg.execEv, TaskSt.start, Evald, List.nil_append]
  rw [hk.hook]
  generalize (o.hook 0 (pop, best)).1 = X at hne
  rcases sweepPop_best_from p.sweep hr lbs ubs o.f X best 0 with h | ⟨a, ha, h1, h2⟩
  · exfalso
    obtain ⟨x, xs, rfl⟩ := List.exists_cons_of_ne_nil hne
    have := (sweepPop_best p.sweep false hr lbs ubs o.f (x :: xs) best 0).2 x List.mem_cons_self
    rw [h] at this
    have := hlt x.pos
    omega
  · rw [h1, h2]
    exact List.mem_map.mpr ⟨a, ha, rfl⟩

end

end Task
end Opy
