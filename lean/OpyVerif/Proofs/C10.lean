import OpyVerif.Proofs.Lemmas.MiscLemmas
/-!
C10 — a tree's position is the value of the expression it denotes.

`evalTree` is the transcription of `node._evaluate`.  Over any scalar type (`Elem α`: `Float`
for the executable twin, `ℝ` for the proofs):

* every well-aritied tree over the ten operators whose terminals hold arrays evaluates
  (`evalTree_total`), and the result has the declared shape (`evalTree_shape`);
* one unfolding lemma per operator fixes the operand order and the protections
  (`x / (y + eps)`, `sqrt (abs x)`, `log (abs x + eps)`);
* a deep copy (`PNode.shift`) has the same value (`evalTree_shift`): evaluation looks at labels
  and array identities only, never at node identities or stored links.

The protections' analytic content over `ℝ` is in `C10real.lean`.  Core Lean only.
-/
set_option linter.unusedVariables false
namespace Opy
open Elem

section
variable {α : Type} [Elem α]

/-- **totality**: a non-empty tree with the arity discipline of the ten operators, every
    terminal of which holds an array, evaluates -/
theorem evalTree_total (eps : α) (env : Nat → Option (List α)) (t : PNode)
    (ha : PNode.Arity ar10 t) (hne : t ≠ .nil)
    (hterm : ∀ lb, some lb ∈ t.pre.map PNode.lbl? → lb.isTerm = true → (env lb.arr).isSome = true) :
    ∃ r, evalTree eps env t = some r := by
  obtain ⟨r, hr, _⟩ := evalTree_pred eps env (fun _ => True) (fun _ _ _ _ _ => trivial)
    (fun _ _ _ => trivial) t ha hne (fun b hb hT => by
      obtain ⟨a, ha⟩ := Option.isSome_iff_exists.mp (hterm b hb hT)
      exact ⟨a, ha, trivial⟩)
  exact ⟨r, hr⟩

/-- **declared shape**: if moreover every terminal array has `n` entries, so has the result -/
theorem evalTree_shape (eps : α) (env : Nat → Option (List α)) (t : PNode) (n : Nat)
    (ha : PNode.Arity ar10 t) (hne : t ≠ .nil)
    (hterm : ∀ lb, some lb ∈ t.pre.map PNode.lbl? → lb.isTerm = true →
      ∃ a, env lb.arr = some a ∧ a.length = n) :
    ∃ r, evalTree eps env t = some r ∧ r.length = n :=
  evalTree_pred eps env (fun a => a.length = n)
    (fun f x y hx hy => by rw [zipW_length f x y (by rw [hx, hy]), hx])
    (fun g x hx => by simpa using hx) t ha hne hterm

/-! ### unfolding lemmas: one per operator, operand order explicit
(`x` = value of the left child, `y` = value of the right child) -/

theorem evalTree_nil (eps : α) (env : Nat → Option (List α)) : evalTree eps env .nil = none := rfl

/-- TERMINAL: the array the node holds (children are not looked at) -/
theorem evalTree_terminal (eps : α) (env : Nat → Option (List α)) (i nm a p f l r) :
    evalTree eps env (.mk i ⟨true, nm, a⟩ p f l r) = env a := by
  simp [evalTree]

/-- SUM: `x + y` -/
theorem evalTree_sum (eps : α) (env : Nat → Option (List α)) (i a p f l r) :
    evalTree eps env (.mk i ⟨false, 0, a⟩ p f l r) =
      match evalTree eps env l, evalTree eps env r with
      | some x, some y => some (zipW (fun x y => x + y) x y)
      | _, _ => none := by
  simp only [evalTree, binOp, Bool.false_eq_true, if_false]
  cases evalTree eps env l <;> cases evalTree eps env r <;> rfl

/-- SUB: `x - y` (left minus right) -/
theorem evalTree_sub (eps : α) (env : Nat → Option (List α)) (i a p f l r) :
    evalTree eps env (.mk i ⟨false, 1, a⟩ p f l r) =
      match evalTree eps env l, evalTree eps env r with
      | some x, some y => some (zipW (fun x y => x - y) x y)
      | _, _ => none := by
  simp only [evalTree, binOp, Bool.false_eq_true, if_false]
  cases evalTree eps env l <;> cases evalTree eps env r <;> rfl

/-- MUL: `x * y` -/
theorem evalTree_mul (eps : α) (env : Nat → Option (List α)) (i a p f l r) :
    evalTree eps env (.mk i ⟨false, 2, a⟩ p f l r) =
      match evalTree eps env l, evalTree eps env r with
      | some x, some y => some (zipW (fun x y => x * y) x y)
      | _, _ => none := by
  simp only [evalTree, binOp, Bool.false_eq_true, if_false]
  cases evalTree eps env l <;> cases evalTree eps env r <;> rfl

/-- DIV: protected, `x / (y + eps)` (left over right) -/
theorem evalTree_div (eps : α) (env : Nat → Option (List α)) (i a p f l r) :
    evalTree eps env (.mk i ⟨false, 3, a⟩ p f l r) =
      match evalTree eps env l, evalTree eps env r with
      | some x, some y => some (zipW (fun x y => x / (y + eps)) x y)
      | _, _ => none := by
  simp only [evalTree, binOp, Bool.false_eq_true, if_false]
  cases evalTree eps env l <;> cases evalTree eps env r <;> rfl

/-- EXP: `exp x` of the left value (the right child is not looked at) -/
theorem evalTree_exp (eps : α) (env : Nat → Option (List α)) (i a p f l r) :
    evalTree eps env (.mk i ⟨false, 4, a⟩ p f l r) = (evalTree eps env l).map (List.map fun x => exp x) := by
  simp only [evalTree, binOp, unOp, Bool.false_eq_true, if_false]
  cases evalTree eps env l <;> rfl

/-- SQRT: protected, `sqrt (abs x)` -/
theorem evalTree_sqrt (eps : α) (env : Nat → Option (List α)) (i a p f l r) :
    evalTree eps env (.mk i ⟨false, 5, a⟩ p f l r) =
      (evalTree eps env l).map (List.map fun x => sqrt (abs x)) := by
  simp only [evalTree, binOp, unOp, Bool.false_eq_true, if_false]
  cases evalTree eps env l <;> rfl

/-- LOG: protected, `log (abs x + eps)` -/
theorem evalTree_log (eps : α) (env : Nat → Option (List α)) (i a p f l r) :
    evalTree eps env (.mk i ⟨false, 6, a⟩ p f l r) =
      (evalTree eps env l).map (List.map fun x => log (abs x + eps)) := by
  simp only [evalTree, binOp, unOp, Bool.false_eq_true, if_false]
  cases evalTree eps env l <;> rfl

/-- ABS: `abs x` -/
theorem evalTree_abs (eps : α) (env : Nat → Option (List α)) (i a p f l r) :
    evalTree eps env (.mk i ⟨false, 7, a⟩ p f l r) = (evalTree eps env l).map (List.map fun x => abs x) := by
  simp only [evalTree, binOp, unOp, Bool.false_eq_true, if_false]
  cases evalTree eps env l <;> rfl

/-- SIN: `sin x` -/
theorem evalTree_sin (eps : α) (env : Nat → Option (List α)) (i a p f l r) :
    evalTree eps env (.mk i ⟨false, 8, a⟩ p f l r) = (evalTree eps env l).map (List.map fun x => sin x) := by
  simp only [evalTree, binOp, unOp, Bool.false_eq_true, if_false]
  cases evalTree eps env l <;> rfl

/-- COS: `cos x` -/
theorem evalTree_cos (eps : α) (env : Nat → Option (List α)) (i a p f l r) :
    evalTree eps env (.mk i ⟨false, 9, a⟩ p f l r) = (evalTree eps env l).map (List.map fun x => cos x) := by
  simp only [evalTree, binOp, unOp, Bool.false_eq_true, if_false]
  cases evalTree eps env l <;> rfl

/-- an operator code outside the table: the code falls through every `elif` and returns `None` -/
theorem evalTree_unknown (eps : α) (env : Nat → Option (List α)) (i c a p f l r) (h : 10 ≤ c) :
    evalTree eps env (.mk i ⟨false, c, a⟩ p f l r) = none := by
  obtain ⟨c', rfl⟩ : ∃ c', c = c' + 10 := ⟨c - 10, by omega⟩
  simp only [evalTree, binOp, unOp, Bool.false_eq_true, if_false]

/-- **a deep copy has the same value**: `shift` (the model of `copy.deepcopy`) renames node
    identities and stored links only; labels and array identities, which are all evaluation
    reads, are preserved.  (In a functional model "evaluation is a function of `(eps, env, t)`
    only" holds by construction; this is the non-vacuous counterpart.) -/
theorem evalTree_shift (eps : α) (env : Nat → Option (List α)) (k : Nat) (t : PNode) :
    evalTree eps env (PNode.shift k t) = evalTree eps env t := by
  induction t with
  | nil => rfl
  | mk i lb p f l r ihl ihr => simp only [PNode.shift, evalTree, ihl, ihr]

/-- evaluation ignores identities and stored links of the root as well -/
theorem evalTree_links_irrelevant (eps : α) (env : Nat → Option (List α)) (i i' lb p p' f f' l r) :
    evalTree eps env (.mk i lb p f l r) = evalTree eps env (.mk i' lb p' f' l r) := by
  simp only [evalTree]

end

/-! ### satisfiability / non-vacuity

The concrete tree `c10Tree = SUB(x0, ABS(x1))` (lemma file) is well-aritied, the terminal
hypothesis of `evalTree_total` / `evalTree_shape` holds for an environment defining arrays 1
and 2, and the value is `x - abs y` with the operands in that order. -/

example : PNode.arityB ar10 c10Tree = true := by decide
example : PNode.Arity ar10 c10Tree ∧ c10Tree ≠ .nil := by
  simp [c10Tree, PNode.Arity, ar10]
example {α : Type} [Elem α] (x y : α) :
    ∀ lb, some lb ∈ c10Tree.pre.map PNode.lbl? → lb.isTerm = true →
      ∃ a, c10Env x y lb.arr = some a ∧ a.length = 1 := by
  intro lb hlb hT
  simp only [c10Tree, PNode.pre, PNode.lbl?, List.map_cons, List.map_nil, List.cons_append,
    List.nil_append, List.mem_cons, Option.some.injEq, List.not_mem_nil, or_false] at hlb
  rcases hlb with rfl | rfl | rfl | rfl <;> simp_all [c10Env]
example {α : Type} [Elem α] (eps x y : α) :
    evalTree eps (c10Env x y) c10Tree = some [x - abs y] := by
  simp [c10Tree, c10Env, evalTree, binOp, unOp, zipW]

#print axioms evalTree_total
#print axioms evalTree_shape
#print axioms evalTree_terminal
#print axioms evalTree_sum
#print axioms evalTree_sub
#print axioms evalTree_mul
#print axioms evalTree_div
#print axioms evalTree_exp
#print axioms evalTree_sqrt
#print axioms evalTree_log
#print axioms evalTree_abs
#print axioms evalTree_sin
#print axioms evalTree_cos
#print axioms evalTree_unknown
#print axioms evalTree_shift
#print axioms evalTree_links_irrelevant

end Opy
