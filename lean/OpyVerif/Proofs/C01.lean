import OpyVerif.Proofs.Lemmas.MachineLemmas2
/-!
C01 — the objective is only evaluated at feasible points.

Two levels.  *Site level*: for an evaluation site whose operation list passes `opsOk`
(every `eval` preceded by a `clip` with no `assign` in between; a sweep site may rely on the
position being feasible on entry), every evaluated position is inside the box, whatever
values the assignments produce (the oracle positions are arbitrary keys, ±∞ included; only
the row count is fixed).  *Machine level*: the sweep evaluates exactly the current position of
the agent under the cursor and moves nobody, so after "clip, hook (positions untouched), sweep"
every swept argument is feasible; and the reported best position is one of the logged
arguments, hence feasible when they all are.
-/
set_option linter.unusedVariables false
namespace Opy

/-! ### evaluation sites -/

/-- **C01 (trial site).** Every evaluation preceded by a clip with no assignment in between ⇒
    only feasible points are evaluated, whatever the assignments produce. -/
theorem site_evals_inBox (lbs ubs : List Int) (cur : Pos) (ops : List SiteOp) (oracle : List Pos)
    (hb : BoundsOk lbs ubs) (hlen : cur.length = lbs.length)
    (horc : ∀ p ∈ oracle, p.length = lbs.length) (hops : opsOk false ops = true) :
    ∀ q ∈ runOps lbs ubs cur ops oracle, InBox lbs ubs q :=
  runOps_inBox lbs ubs hb ops false cur oracle hlen horc (by simp) hops

/-- **C01 (sweep site).** A sweep may evaluate before any clip of its own: it relies on the
    position being feasible on entry. -/
theorem sweep_site_evals_inBox (lbs ubs : List Int) (cur : Pos) (ops : List SiteOp)
    (oracle : List Pos) (hb : BoundsOk lbs ubs) (hcur : InBox lbs ubs cur)
    (horc : ∀ p ∈ oracle, p.length = lbs.length) (hops : opsOk true ops = true) :
    ∀ q ∈ runOps lbs ubs cur ops oracle, InBox lbs ubs q :=
  runOps_inBox lbs ubs hb ops true cur oracle (inBox_length lbs ubs cur hcur) horc
    (fun _ => hcur) hops

/-! ### machine level -/

/-- after the space-wide limit enforcement every agent is inside the box -/
theorem clipAll_event_inBox (cfg : Cfg) (s s' : St) (hb : BoundsOk cfg.lbs cfg.ubs)
    (h : apply cfg s .clipAll = some s')
    (hl : ∀ a ∈ s.pop, a.pos.length = cfg.lbs.length) :
    ∀ a ∈ s'.pop, InBox cfg.lbs cfg.ubs a.pos := by
  obtain ⟨_, rfl⟩ := clipAll_spec cfg s s' h
  intro a ha
  dsimp only at ha
  simp only [List.mem_map] at ha
  obtain ⟨b, hb', rfl⟩ := ha
  exact clipPos_inBox cfg.lbs cfg.ubs b.pos hb (hl b hb').symm

/-- the sweep evaluates exactly the current position of the agent under the cursor and
    moves nobody -/
theorem sweep_event_arg (cfg : Cfg) (s s' : St) (v : Int) (tie : Bool) (r : Nat)
    (h : apply cfg s (.sweep v tie r) = some s') :
    ∃ a, s.pop[s.cursor]? = some a ∧ s'.evals = s.evals ++ [(a.pos, v)] ∧
      (∀ j : Nat, (s'.pop[j]?).map Ag.pos = (s.pop[j]?).map Ag.pos) := by
  obtain ⟨a, hai, _, _, rfl⟩ := sweep_spec cfg s s' v tie r h
  refine ⟨a, hai, rfl, ?_⟩
  intro j
  dsimp only
  rw [List.getElem?_set]
  obtain ⟨hcl, hca⟩ := List.getElem?_eq_some_iff.1 hai
  by_cases hj : s.cursor = j
  · subst hj
    simp only [if_true, hcl, hai, Option.map_some, sweepAgent_pos]
  · simp only [hj, if_false]

/-- **C01 (sweep).** If every agent is feasible, then whatever sweep events the machine
    accepts, every objective call they add to the log has a feasible argument.
    (The hypothesis `s.cursor = 0` of the informal statement is not needed.) -/
theorem C01_sweep_args_inBox (cfg : Cfg) (evs : List Ev) : ∀ (s s' : St),
    (∀ a ∈ s.pop, InBox cfg.lbs cfg.ubs a.pos) → (∀ e ∈ evs, e.isSweep = true) →
    run cfg s evs = some s' →
    ∃ new, s'.evals = s.evals ++ new ∧ new.length = evs.length ∧
      ∀ e ∈ new, InBox cfg.lbs cfg.ubs e.1 := by
  induction evs with
  | nil =>
    intro s s' _ _ h
    simp only [run] at h; cases h
    exact ⟨[], by simp, rfl, by simp⟩
  | cons e es ih =>
    intro s s' hin hsw h
    obtain ⟨s1, h1, h2⟩ := run_cons cfg s s' e es h
    have he := hsw e (by simp)
    cases e with
    | sweep v tie r =>
      obtain ⟨a, hai, _, _, hs1⟩ := sweep_spec cfg s s1 v tie r h1
      obtain ⟨hcl, hca⟩ := List.getElem?_eq_some_iff.1 hai
      have hamem : a ∈ s.pop := by rw [← hca]; exact List.getElem_mem _
      have hin1 : ∀ b ∈ s1.pop, InBox cfg.lbs cfg.ubs b.pos := by
        intro b hb
        rw [hs1] at hb; dsimp only at hb
        rcases mem_set_cases _ _ _ _ hb with hb | rfl
        · exact hin b hb
        · rw [sweepAgent_pos]; exact hin a hamem
      obtain ⟨new, hnew, hlen, hbox⟩ := ih s1 s' hin1 (fun x hx => hsw x (by simp [hx])) h2
      refine ⟨(a.pos, v) :: new, ?_, by simp [hlen], ?_⟩
      · rw [hnew, hs1]; simp
      · intro x hx
        simp only [List.mem_cons] at hx
        rcases hx with rfl | hx
        · exact hin a hamem
        · exact hbox x hx
    | hook _ => simp [Ev.isSweep] at he
    | update _ => simp [Ev.isSweep] at he
    | trial _ _ _ => simp [Ev.isSweep] at he
    | trialSwap _ _ _ => simp [Ev.isSweep] at he
    | clipAll => simp [Ev.isSweep] at he
    | dump => simp [Ev.isSweep] at he

/-- the same, in terms of the entries of `evals` beyond those of the start state -/
theorem C01_sweep_args_inBox_drop (cfg : Cfg) (evs : List Ev) (s s' : St)
    (hin : ∀ a ∈ s.pop, InBox cfg.lbs cfg.ubs a.pos) (hsw : ∀ e ∈ evs, e.isSweep = true)
    (h : run cfg s evs = some s') :
    ∀ e ∈ s'.evals.drop s.evals.length, InBox cfg.lbs cfg.ubs e.1 := by
  obtain ⟨new, hnew, _, hbox⟩ := C01_sweep_args_inBox cfg evs s s' hin hsw h
  rw [hnew, List.drop_left]; exact hbox

/-- **C01 (clip, hook, sweep).** The iteration pattern of every optimiser: space-wide limit
    enforcement, then the pre-evaluation hook (which leaves the positions alone), then the
    sweep.  Every argument the sweep hands to the objective is feasible — whatever the
    positions were before the clip (only the row count is fixed). -/
theorem C01_clip_hook_sweep (cfg : Cfg) (s s' : St) (pop' : List Ag) (sweeps : List Ev)
    (hb : BoundsOk cfg.lbs cfg.ubs)
    (hl : ∀ a ∈ s.pop, a.pos.length = cfg.lbs.length)
    (hpos : pop'.map (·.pos) = (s.pop.map (clipAg cfg)).map (·.pos))
    (hsw : ∀ e ∈ sweeps, e.isSweep = true)
    (h : run cfg s ([.clipAll, .hook pop'] ++ sweeps) = some s') :
    ∀ e ∈ s'.evals.drop s.evals.length, InBox cfg.lbs cfg.ubs e.1 := by
  simp only [List.cons_append, List.nil_append] at h
  obtain ⟨s1, h1, h⟩ := run_cons cfg s s' _ _ h
  obtain ⟨s2, h2, h⟩ := run_cons cfg s1 s' _ _ h
  have hbox1 := clipAll_event_inBox cfg s s1 hb h1 hl
  obtain ⟨_, hs1⟩ := clipAll_spec cfg s s1 h1
  obtain ⟨_, _, hs2⟩ := hook_spec cfg s1 s2 pop' h2
  have hev : s2.evals = s.evals := by rw [hs2, hs1]
  have hpop2 : s2.pop = pop' := by rw [hs2]
  have hpop1 : s1.pop = s.pop.map (clipAg cfg) := by rw [hs1]
  have hin2 : ∀ a ∈ s2.pop, InBox cfg.lbs cfg.ubs a.pos := by
    intro a ha
    rw [hpop2] at ha
    have : a.pos ∈ pop'.map (·.pos) := List.mem_map.2 ⟨a, ha, rfl⟩
    rw [hpos, ← hpop1] at this
    obtain ⟨b, hb', hbe⟩ := List.mem_map.1 this
    rw [← hbe]; exact hbox1 b hb'
  have := C01_sweep_args_inBox_drop cfg sweeps s2 s' hin2 hsw h
  rw [hev] at this; exact this

/-- **C01 (best).** In any accepted history from a fresh space in which every logged
    argument is feasible, the reported best position is feasible as soon as anything has
    been evaluated. -/
theorem C01_best_feasible (cfg : Cfg) (pop : List Ag) (best : Ag)
    (hp : ∀ a ∈ pop, a.fit = cfg.fmax) (hbf : best.fit = cfg.fmax) (hbt : best.tpos = best.pos)
    (evs : List Ev) (s' : St) (h : run cfg (initSt pop best) evs = some s')
    (hfeas : ∀ e ∈ s'.evals, InBox cfg.lbs cfg.ubs e.1) :
    s'.evals ≠ [] → InBox cfg.lbs cfg.ubs s'.best.pos := by
  intro hne
  have hi := inv_run cfg evs _ s' (inv_init cfg pop best hp hbf) h
  have ht := best_tpos_run cfg evs _ s' h hbt
  rcases hi.best with h1 | ⟨h1, _⟩
  · have := hfeas _ h1
    dsimp only at this
    rw [ht] at this; exact this
  · exact absurd h1 hne

/-! ### non-vacuity -/

/-- a trial site: assign, clip, evaluate, assign again, clip, evaluate (oracle values far
    outside the box) -/
example : opsOk false [.assign, .clip, .eval, .assign, .clip, .eval] = true := by decide
example : runOps [-5, 0] [5, 0] [[0], [0]] [.assign, .clip, .eval, .assign, .clip, .eval]
    [[[-99], [7]], [[99999999999], [-1]]] = [[[-5], [0]], [[5], [0]]] := by decide
/-- a site that evaluates after an unclipped assignment is rejected by `opsOk`, and indeed
    evaluates an infeasible point -/
example : opsOk true [.eval, .assign, .eval] = false := by decide
example : runOps [0] [9] [[1]] [.eval, .assign, .eval] [[[42]]] = [[[1]], [[42]]] := by decide

/-- machine level: out-of-range population, clip, hook, two sweeps, all accepted; the two new
    arguments are the clipped positions -/
example : ((run c01Cfg (initSt c01Pop c01Best)
      ([.clipAll, .hook c01Pop'] ++ [.sweep 10 false 3, .sweep 4 false 4])).map
        (fun s => (s.evals, s.best.pos)))
    = some ([([[0]], 10), ([[9]], 4)], [[9]]) := by decide
example : c01Pop'.map (·.pos) = (c01Pop.map (clipAg c01Cfg)).map (·.pos) := by decide
example : BoundsOk c01Cfg.lbs c01Cfg.ubs := by simp [BoundsOk, c01Cfg]
example : ∀ a ∈ c01Pop, a.pos.length = c01Cfg.lbs.length := by decide
example : ∀ e ∈ [Ev.sweep 10 false 3, Ev.sweep 4 false 4], e.isSweep = true := by decide

#print axioms site_evals_inBox
#print axioms sweep_site_evals_inBox
#print axioms clipAll_event_inBox
#print axioms sweep_event_arg
#print axioms C01_sweep_args_inBox
#print axioms C01_sweep_args_inBox_drop
#print axioms C01_clip_hook_sweep
#print axioms C01_best_feasible

end Opy
