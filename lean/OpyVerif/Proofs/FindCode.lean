import OpyVerif.Proofs.FindProg
import OpyVerif.Proofs.C11
import OpyVerif.Generated.Find
/-!
C11 (slot clause) about the *translated* `Node.find_node`.
-/
namespace Opy
open PNode

/-- the translated method is the model's `findNode`, for every tree and position: the C11 slot theorems
    (`findNode_terminal`, `findNode_function`, `findNode_function_under_root`, `findNode_out_of_range`) speak about it -/
theorem code_find_node (t : PNode) (p : Nat) : Gen.findProg.run t p none = findNode t p := by
  rw [Gen.findProg_eq]; exact findProg_is_findNode t p

end Opy
