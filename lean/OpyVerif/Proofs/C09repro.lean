import OpyVerif.Proofs.Lemmas.GrowLemmas
/-!
C09 — `GP._reproduction`: each round overwrites the first arg-max of the working fitness list
by a copy of the selected individual and marks it with fitness 0.

With positive fitness the `k` rounds overwrite `k` distinct individuals, the worst first
(`reproduction_k_worst_of_pos`); with negative fitness the marker 0 *is* the maximum and the
same slot is overwritten again and again (`reproduction_negative_repeats`).
`reproTrace`, `fitTrace`, `FirstMaxOutside` are defined in `Lemmas/GrowLemmas.lean`.
-/
set_option linter.unusedVariables false
namespace Opy
namespace PNode

/-- `argmaxFirst` is `np.argmax`: the first index of the maximum -/
theorem argmaxFirst_spec (l : List Int) (h : l ≠ []) :
    ∃ hw : argmaxFirst l < l.length,
      (∀ x ∈ l, x ≤ l[argmaxFirst l]) ∧ (∀ j (hj : j < argmaxFirst l), l[j] < l[argmaxFirst l]) :=
  argmaxFirst_spec' l h

section
variable {α β : Type} (cpT : α → α) (cpA : β → β)

/-- one round keeps the three lengths (no hypothesis needed) -/
theorem reproStep_lengths (st : List α × List β × List Int) (s : Nat) :
    (reproStep cpT cpA st s).1.length = st.1.length ∧
    (reproStep cpT cpA st s).2.1.length = st.2.1.length ∧
    (reproStep cpT cpA st s).2.2.length = st.2.2.length := by
  obtain ⟨trees, agents, fit⟩ := st
  unfold reproStep
  simp only
  split <;> simp

/-- so does the whole loop -/
theorem reproduction_lengths (trees : List α) (agents : List β) (fit : List Int)
    (selected : List Nat) :
    (reproduction cpT cpA trees agents fit selected).1.length = trees.length ∧
    (reproduction cpT cpA trees agents fit selected).2.1.length = agents.length ∧
    (reproduction cpT cpA trees agents fit selected).2.2.length = fit.length := by
  unfold reproduction
  generalize hst : (trees, agents, fit) = st
  have e1 : trees = st.1 := by rw [← hst]
  have e2 : agents = st.2.1 := by rw [← hst]
  have e3 : fit = st.2.2 := by rw [← hst]
  rw [e1, e2, e3]
  clear hst e1 e2 e3
  induction selected generalizing st with
  | nil => exact ⟨rfl, rfl, rfl⟩
  | cons s ss ih =>
    rw [List.foldl_cons]
    obtain ⟨h1, h2, h3⟩ := reproStep_lengths cpT cpA st s
    obtain ⟨i1, i2, i3⟩ := ih (reproStep cpT cpA st s)
    exact ⟨i1.trans h1, i2.trans h2, i3.trans h3⟩

/-- one round, spelled out: with `w` the first arg-max of the working fitness, position `w`
    of the trees / agents holds the copy of entry `s`, `fit[w] = 0`, nothing else changes -/
theorem reproStep_spec (trees : List α) (agents : List β) (fit : List Int) (s : Nat)
    (hs : s < trees.length) (hta : trees.length = agents.length) (htf : trees.length = fit.length) :
    argmaxFirst fit < fit.length ∧
    (reproStep cpT cpA (trees, agents, fit) s).1[argmaxFirst fit]? = some (cpT trees[s]) ∧
    (reproStep cpT cpA (trees, agents, fit) s).2.1[argmaxFirst fit]? = some (cpA (agents[s]'(hta ▸ hs))) ∧
    (reproStep cpT cpA (trees, agents, fit) s).2.2[argmaxFirst fit]? = some 0 ∧
    ∀ i : Nat, i ≠ argmaxFirst fit →
      (reproStep cpT cpA (trees, agents, fit) s).1[i]? = trees[i]? ∧
      (reproStep cpT cpA (trees, agents, fit) s).2.1[i]? = agents[i]? ∧
      (reproStep cpT cpA (trees, agents, fit) s).2.2[i]? = fit[i]? := by
  have hs' : s < agents.length := hta ▸ hs
  have hw : argmaxFirst fit < fit.length :=
    argmaxFirst_lt (by intro h; rw [h] at htf; simp only [List.length_nil] at htf; omega)
  rw [reproStep_eq_of_lt cpT cpA hs hs']
  refine ⟨hw, ?_, ?_, ?_, ?_⟩
  · simp [htf, hw]
  · simp [← hta, htf, hw]
  · simp [hw]
  · intro i hi
    simp [Ne.symm hi]

/-- ghost tags: if copying preserves the tags and tree `i` / agent `i` carry equal tags, they
    still do after one round … -/
theorem reproStep_paired {τ : Type} (tag : α → τ) (tag' : β → τ)
    (hT : ∀ t, tag (cpT t) = tag t) (hA : ∀ a, tag' (cpA a) = tag' a)
    (st : List α × List β × List Int) (s : Nat)
    (h : ∀ i : Nat, (st.1[i]?).map tag = (st.2.1[i]?).map tag') :
    ∀ i : Nat, ((reproStep cpT cpA st s).1[i]?).map tag = ((reproStep cpT cpA st s).2.1[i]?).map tag' := by
  obtain ⟨trees, agents, fit⟩ := st
  have hlen : trees.length = agents.length := length_eq_of_paired h
  by_cases hs : s < trees.length ∧ s < agents.length
  · rw [reproStep_eq_of_lt cpT cpA hs.1 hs.2]
    intro i
    have hsi := h s
    simp only [List.getElem?_eq_getElem hs.1, List.getElem?_eq_getElem hs.2, Option.map_some,
      Option.some.injEq] at hsi
    simp only [List.getElem?_set, ← hlen]
    by_cases hwi : argmaxFirst fit = i
    · simp only [if_pos hwi]
      by_cases hwl : argmaxFirst fit < trees.length
      · simp only [if_pos hwl, Option.map_some, hT, hA, hsi]
      · simp only [if_neg hwl, Option.map_none]
    · simp only [if_neg hwi]; exact h i
  · rw [reproStep_eq_of_not cpT cpA hs]; exact h

/-- … and after the whole loop: tree `i` and agent `i` stay paired -/
theorem reproduction_paired {τ : Type} (tag : α → τ) (tag' : β → τ)
    (hT : ∀ t, tag (cpT t) = tag t) (hA : ∀ a, tag' (cpA a) = tag' a)
    (trees : List α) (agents : List β) (fit : List Int) (selected : List Nat)
    (h : ∀ i : Nat, (trees[i]?).map tag = (agents[i]?).map tag') :
    ∀ i : Nat, ((reproduction cpT cpA trees agents fit selected).1[i]?).map tag =
         ((reproduction cpT cpA trees agents fit selected).2.1[i]?).map tag' := by
  unfold reproduction
  generalize hst : (trees, agents, fit) = st
  have h' : ∀ i : Nat, (st.1[i]?).map tag = (st.2.1[i]?).map tag' := by rw [← hst]; exact h
  clear h hst
  induction selected generalizing st with
  | nil => exact h'
  | cons s ss ih =>
    rw [List.foldl_cons]
    exact ih _ (reproStep_paired cpT cpA tag tag' hT hA st s h')

/-- `reproTrace` really lists the overwritten positions: its head is the first arg-max of the
    current working fitness, its tail the trace of the remaining rounds from the updated state -/
theorem reproTrace_cons (trees : List α) (agents : List β) (fit : List Int) (s : Nat)
    (ss : List Nat) (hs : s < trees.length) (hs' : s < agents.length) :
    reproTrace cpT cpA (trees, agents, fit) (s :: ss) =
      argmaxFirst fit :: reproTrace cpT cpA (reproStep cpT cpA (trees, agents, fit) s) ss := by
  rw [reproTrace]
  simp only [List.getElem?_eq_getElem hs, List.getElem?_eq_getElem hs']

/-- the trace is faithful to `reproduction` (no hypothesis): the final working fitness is the
    original one with exactly the traced positions set to the marker 0 -/
theorem reproduction_fit_final (trees : List α) (agents : List β) (fit : List Int)
    (selected : List Nat) (i : Nat) :
    (reproduction cpT cpA trees agents fit selected).2.2[i]? =
      if i ∈ reproTrace cpT cpA (trees, agents, fit) selected then (fit[i]?).map (fun _ => 0)
      else fit[i]? := by
  unfold reproduction
  rw [reproduction_fit_foldl cpT cpA selected (trees, agents, fit), foldl_set_zero_getElem?]

/-- **positive fitness**: `k = selected.length ≤ n` rounds overwrite `k` *distinct* positions,
    and round `j` overwrites the first position holding the maximum of the original fitness
    over the positions not overwritten before — the worst individuals, worst first.
    Fitnesses need not be distinct; a selected index may itself have been overwritten earlier
    (nothing is said about *what* is copied, only *where*). -/
theorem reproduction_k_worst_of_pos (trees : List α) (agents : List β) (fit : List Int)
    (selected : List Nat) (hta : trees.length = agents.length)
    (hsel : ∀ s ∈ selected, s < trees.length) (hpos : ∀ x ∈ fit, 0 < x)
    (hlen : selected.length ≤ fit.length) :
    (reproTrace cpT cpA (trees, agents, fit) selected).length = selected.length ∧
    (reproTrace cpT cpA (trees, agents, fit) selected).Nodup ∧
    ∀ j (hj : j < (reproTrace cpT cpA (trees, agents, fit) selected).length),
      FirstMaxOutside fit ((reproTrace cpT cpA (trees, agents, fit) selected).take j)
        (reproTrace cpT cpA (trees, agents, fit) selected)[j] := by
  rw [reproTrace_eq_fitTrace cpT cpA selected trees agents fit hta hsel]
  obtain ⟨hnd, hP⟩ := fitTrace_spec selected.length fit (fun x hx => Int.le_of_lt (hpos x hx))
    (by rw [countP_pos_of_all_pos hpos]; exact hlen)
  exact ⟨fitTrace_length _ _, hnd, fun j hj => (hP j hj).1⟩

/-- worst first: the original fitnesses of the overwritten positions are non-increasing -/
theorem reproduction_worst_first (trees : List α) (agents : List β) (fit : List Int)
    (selected : List Nat) (hta : trees.length = agents.length)
    (hsel : ∀ s ∈ selected, s < trees.length) (hpos : ∀ x ∈ fit, 0 < x)
    (hlen : selected.length ≤ fit.length) :
    ((reproTrace cpT cpA (trees, agents, fit) selected).map (fun w => fit[w]!)).Pairwise
      (fun a b => b ≤ a) := by
  obtain ⟨_, hnd, hP⟩ := reproduction_k_worst_of_pos cpT cpA trees agents fit selected hta hsel hpos hlen
  generalize reproTrace cpT cpA (trees, agents, fit) selected = tr at hnd hP
  rw [List.pairwise_map, List.pairwise_iff_getElem]
  intro i j hi hj hij
  obtain ⟨_, hwi, hmax, _⟩ := hP i hi
  obtain ⟨_, hwj, _, _⟩ := hP j hj
  rw [getElem!_pos fit _ hwj, getElem!_pos fit _ hwi]
  apply hmax _ hwj
  intro hmem
  obtain ⟨m, hm, hmj⟩ := List.mem_take_iff_getElem.1 hmem
  exact List.pairwise_iff_getElem.1 hnd m j (by omega) hj (by omega) hmj

end

/-- **negative fitness** (finding K12): the marker 0 is the maximum, so the second round
    overwrites the slot the first round just filled — one worst individual is replaced twice,
    the second worst never -/
theorem reproduction_negative_repeats :
    reproTrace id id ([10, 11, 12, 13], [20, 21, 22, 23], [-4, -3, -2, -1]) [0, 1] = [3, 3] := by
  decide

/-! ### concrete checks -/

/-- positive fitness, ties included: slots 1 (first 9), 3 (second 9), 0 -/
example : reproTrace id id ([10, 11, 12, 13], [20, 21, 22, 23], [5, 9, 2, 9]) [2, 2, 1] = [1, 3, 0] := by
  decide
/-- the third round selects slot 1, already overwritten: the copy is of the new content -/
example : reproduction (· + 100) (· + 100) [10, 11, 12, 13] [20, 21, 22, 23] [5, 9, 2, 9] [2, 2, 1] =
    ([212, 112, 12, 112], [222, 122, 22, 122], [0, 0, 2, 0]) := by decide
example : reproduction id id [10, 11, 12, 13] [20, 21, 22, 23] [-4, -3, -2, -1] [0, 1] =
    ([10, 11, 12, 11], [20, 21, 22, 21], [-4, -3, -2, 0]) := by decide
example : argmaxFirst [3, 7, 7, 1] = 1 ∧ argmaxFirst [-4, -3, -2, 0] = 3 := by decide

end PNode
end Opy

#print axioms Opy.PNode.argmaxFirst_spec
#print axioms Opy.PNode.reproStep_lengths
#print axioms Opy.PNode.reproduction_lengths
#print axioms Opy.PNode.reproStep_spec
#print axioms Opy.PNode.reproStep_paired
#print axioms Opy.PNode.reproduction_paired
#print axioms Opy.PNode.reproTrace_cons
#print axioms Opy.PNode.reproduction_fit_final
#print axioms Opy.PNode.reproduction_k_worst_of_pos
#print axioms Opy.PNode.reproduction_worst_first
#print axioms Opy.PNode.reproduction_negative_repeats
