import OpyVerif.Proofs.Forest
import OpyVerif.Model.PopLoops
/-!
`GP._mutation` and `GP._crossover` at the level of the population: every run of the loops (as read from the source, see
`Model/PopLoops.lean`) keeps the forest a family of proper, pairwise disjoint expression trees, keeps the number of trees,
and touches only selected slots — for every population, every tournament outcome, every point drawn and every branch
grown.
-/
namespace Opy
open PNode

theorem apply_length {P P' : Pop} (op : GPOp) (h : op.apply P = some P') : P'.trees.length = P.trees.length := by
  cases op with
  | recordBest i =>
    simp only [GPOp.apply] at h
    split at h
    · cases h; rfl
    · cases h
  | reproduce w s =>
    simp only [GPOp.apply] at h
    split at h
    · split at h
      · cases h; simp
      · cases h
    · cases h
  | mutate i point branch =>
    simp only [GPOp.apply] at h
    split at h
    · split at h
      · cases h; simp
      · cases h
    · cases h
  | cross a b pf pm =>
    simp only [GPOp.apply] at h
    split at h
    · split at h
      · cases h; simp
      · cases h
    · cases h
  | regrow i tree =>
    simp only [GPOp.apply] at h
    split at h
    · cases h; simp
    · cases h

/-- a step writes only the slots it names -/
theorem apply_frame {P P' : Pop} (op : GPOp) (h : op.apply P = some P') (i : Nat)
    (hi : match op with
      | .recordBest _ => True
      | .reproduce w _ => i ≠ w
      | .mutate j _ _ => i ≠ j
      | .cross a b _ _ => i ≠ a ∧ i ≠ b
      | .regrow j _ => i ≠ j) : P'.trees[i]? = P.trees[i]? := by
  cases op with
  | recordBest j =>
    simp only [GPOp.apply] at h
    split at h
    · cases h; rfl
    · cases h
  | reproduce w s =>
    simp only [GPOp.apply] at h
    split at h
    · split at h
      · cases h; simp only [List.getElem?_set]; rw [if_neg (fun e => hi e.symm)]
      · cases h
    · cases h
  | mutate j point branch =>
    simp only [GPOp.apply] at h
    split at h
    · split at h
      · cases h; simp only [List.getElem?_set]; rw [if_neg (fun e => hi e.symm)]
      · cases h
    · cases h
  | cross a b pf pm =>
    simp only [GPOp.apply] at h
    split at h
    · split at h
      · cases h; simp only [List.getElem?_set]; rw [if_neg (fun e => hi.2 e.symm), if_neg (fun e => hi.1 e.symm)]
      · cases h
    · cases h
  | regrow j tree =>
    simp only [GPOp.apply] at h
    split at h
    · cases h; simp only [List.getElem?_set]; rw [if_neg (fun e => hi e.symm)]
    · cases h

theorem apply_next {P P' : Pop} (op : GPOp) (h : op.apply P = some P') : P'.next = 3 * P.next := by
  cases op with
  | recordBest i =>
    simp only [GPOp.apply] at h
    split at h
    · cases h; rfl
    · cases h
  | reproduce w s =>
    simp only [GPOp.apply] at h
    split at h
    · split at h
      · cases h; rfl
      · cases h
    · cases h
  | mutate i point branch =>
    simp only [GPOp.apply] at h
    split at h
    · split at h
      · cases h; rfl
      · cases h
    · cases h
  | cross a b pf pm =>
    simp only [GPOp.apply] at h
    split at h
    · split at h
      · cases h; rfl
      · cases h
    · cases h
  | regrow i tree =>
    simp only [GPOp.apply] at h
    split at h
    · cases h; rfl
    · cases h

/-- what `space.grow` returns along the loop: the `k`-th tree is proper and built on identities nobody uses when it is
    grown (every round triples the high-water mark `n`) -/
def GrownFresh (ar : Nat → Nat) (n : Nat) (grown : List PNode) : Prop :=
  ∀ (k : Nat) (g : PNode), grown[k]? = some g → WF ar g ∧ ∀ x ∈ g.ids, 2 * (3 ^ k * n) ≤ x ∧ x < 3 * (3 ^ k * n)

theorem GrownFresh.head {ar : Nat → Nat} {n : Nat} {g : PNode} {gs : List PNode} (h : GrownFresh ar n (g :: gs)) :
    WF ar g ∧ ∀ x ∈ g.ids, 2 * n ≤ x ∧ x < 3 * n := by
  have := h 0 g (by simp)
  simpa using this

theorem GrownFresh.tail {ar : Nat → Nat} {n : Nat} {g : PNode} {gs : List PNode} (h : GrownFresh ar n (g :: gs)) :
    GrownFresh ar (3 * n) gs := by
  intro k g' hk
  have := h (k + 1) g' (by simpa using hk)
  have e : 3 ^ (k + 1) * n = 3 ^ k * (3 * n) := by rw [Nat.pow_succ, Nat.mul_assoc]
  rw [e] at this
  exact this

theorem runMut_popOK {ar : Nat → Nat} : ∀ (selected : List Nat) (P P' : Pop) (points : List Nat) (grown : List PNode),
    PopOK ar P → 0 < P.next → GrownFresh ar P.next grown → runMut P selected points grown = some P' →
    PopOK ar P' ∧ P'.trees.length = P.trees.length ∧ ∀ i, i ∉ selected → P'.trees[i]? = P.trees[i]? := by
  intro selected
  induction selected with
  | nil => intro P P' _ _ hP _ _ h; simp only [runMut, Option.some.injEq] at h; subst h; exact ⟨hP, rfl, fun _ _ => rfl⟩
  | cons s ss ih =>
    intro P P' points grown hP hn hg h
    simp only [runMut] at h
    cases ht : P.trees[s]? with
    | none => simp [ht] at h
    | some t =>
      simp only [ht] at h
      split at h
      · -- handed to `_mutate`
        cases points with
        | nil => simp at h
        | cons p ps =>
          cases grown with
          | nil => simp at h
          | cons g gs =>
            simp only at h
            cases ha : (GPOp.mutate s p g).apply P with
            | none => simp [ha] at h
            | some P1 =>
              simp only [ha] at h
              obtain ⟨hok, hle⟩ := step_popOK (GPOp.mutate s p g) hP hg.head hn ha
              have hnx := apply_next _ ha
              obtain ⟨a, b, c⟩ := ih P1 P' ps gs hok (by omega) (by rw [hnx]; exact hg.tail) h
              refine ⟨a, by rw [b, apply_length _ ha], fun i hi => ?_⟩
              rw [c i (fun e => hi (List.mem_cons_of_mem _ e)),
                apply_frame _ ha i (fun e => hi (e ▸ List.mem_cons_self))]
      · -- re-created by `space.grow`
        cases grown with
        | nil => simp at h
        | cons g gs =>
          simp only at h
          cases ha : (GPOp.regrow s g).apply P with
          | none => simp [ha] at h
          | some P1 =>
            simp only [ha] at h
            obtain ⟨hok, hle⟩ := step_popOK (GPOp.regrow s g) hP hg.head hn ha
            have hnx := apply_next _ ha
            obtain ⟨a, b, c⟩ := ih P1 P' points gs hok (by omega) (by rw [hnx]; exact hg.tail) h
            refine ⟨a, by rw [b, apply_length _ ha], fun i hi => ?_⟩
            rw [c i (fun e => hi (List.mem_cons_of_mem _ e)),
              apply_frame _ ha i (fun e => hi (e ▸ List.mem_cons_self))]

theorem runCrossPairs_popOK {ar : Nat → Nat} : ∀ (pairs : List (Nat × Nat)) (P P' : Pop) (draws : List (Nat × Nat)),
    PopOK ar P → 0 < P.next → runCrossPairs P pairs draws = some P' →
    PopOK ar P' ∧ P'.trees.length = P.trees.length ∧
      ∀ i, (∀ q ∈ pairs, q.1 ≠ i ∧ q.2 ≠ i) → P'.trees[i]? = P.trees[i]? := by
  intro pairs
  induction pairs with
  | nil => intro P P' _ hP _ h; simp only [runCrossPairs, Option.some.injEq] at h; subst h; exact ⟨hP, rfl, fun _ _ => rfl⟩
  | cons q qs ih =>
    intro P P' draws hP hn h
    obtain ⟨a, b⟩ := q
    simp only [runCrossPairs] at h
    split at h
    · split at h
      · cases draws with
        | nil => simp at h
        | cons d ds =>
          simp only at h
          cases ha : (GPOp.cross a b d.1 d.2).apply P with
          | none => simp [ha] at h
          | some P1 =>
            simp only [ha] at h
            obtain ⟨hok, hle⟩ := step_popOK (GPOp.cross a b d.1 d.2) hP trivial hn ha
            obtain ⟨x, y, z⟩ := ih P1 P' ds hok (by omega) h
            refine ⟨x, by rw [y, apply_length _ ha], fun i hi => ?_⟩
            have := hi (a, b) List.mem_cons_self
            rw [z i (fun q' hq' => hi q' (List.mem_cons_of_mem _ hq')),
              apply_frame _ ha i ⟨fun e => this.1 e.symm, fun e => this.2 e.symm⟩]
      · obtain ⟨x, y, z⟩ := ih P P' draws hP hn h
        exact ⟨x, y, fun i hi => z i (fun q' hq' => hi q' (List.mem_cons_of_mem _ hq'))⟩
    · cases h

/-! ### the loops -/

theorem mutLoop_run (P : Pop) (selected : List Nat) (points : List Nat) (grown : List PNode) :
    Expected.mutLoop.run P selected points grown = runMut P selected points grown := by
  simp [MutLoop.run, MutLoop.wellFormed, Expected.mutLoop]

theorem crossLoop_run (P : Pop) (selected : List Nat) (draws : List (Nat × Nat)) :
    Expected.crossLoop.run P selected draws = runCrossPairs P (pairsOf selected) draws := by
  simp [CrossLoop.run, CrossLoop.wellFormed, Expected.crossLoop]

/-- **`_mutation` keeps the forest proper, keeps its size and leaves unselected slots alone** -/
theorem mutLoop_popOK {ar : Nat → Nat} (P P' : Pop) (selected : List Nat) (points : List Nat) (grown : List PNode)
    (hP : PopOK ar P) (hn : 0 < P.next) (hg : GrownFresh ar P.next grown)
    (h : Expected.mutLoop.run P selected points grown = some P') :
    PopOK ar P' ∧ P'.trees.length = P.trees.length ∧ ∀ i, i ∉ selected → P'.trees[i]? = P.trees[i]? := by
  rw [mutLoop_run] at h
  exact runMut_popOK selected P P' points grown hP hn hg h

theorem mem_pairsOf : ∀ (l : List Nat) (p : Nat × Nat), p ∈ pairsOf l → p.1 ∈ l ∧ p.2 ∈ l
  | [], p, h => by simp [pairsOf] at h
  | [_], p, h => by simp [pairsOf] at h
  | a :: b :: rest, p, h => by
    simp only [pairsOf, List.mem_cons] at h
    rcases h with rfl | h
    · simp
    · have := mem_pairsOf rest p h
      simp [this.1, this.2]

/-- **`_crossover` keeps the forest proper, keeps its size and leaves unselected slots alone** (also when the tournament
    returns the same individual twice in a pair) -/
theorem crossLoop_popOK {ar : Nat → Nat} (P P' : Pop) (selected : List Nat) (draws : List (Nat × Nat))
    (hP : PopOK ar P) (hn : 0 < P.next) (h : Expected.crossLoop.run P selected draws = some P') :
    PopOK ar P' ∧ P'.trees.length = P.trees.length ∧ ∀ i, i ∉ selected → P'.trees[i]? = P.trees[i]? := by
  rw [crossLoop_run] at h
  obtain ⟨a, b, c⟩ := runCrossPairs_popOK _ P P' draws hP hn h
  refine ⟨a, b, fun i hi => c i ?_⟩
  intro q hq
  have := mem_pairsOf selected q hq
  exact ⟨fun e => hi (e ▸ this.1), fun e => hi (e ▸ this.2)⟩

/-- the number of individuals asked of the tournament is even … -/
theorem crossLoop_count_even (n : Nat) : Expected.crossLoop.count n % 2 = 0 := by
  simp only [CrossLoop.count, Expected.crossLoop, Bool.true_and]
  split <;> simp_all <;> omega

/-- … so `pairwise` uses every selected individual, in order, exactly once -/
theorem pairsOf_flatten : ∀ (l : List Nat), l.length % 2 = 0 → (pairsOf l).flatMap (fun p => [p.1, p.2]) = l
  | [], _ => by simp [pairsOf]
  | [_], h => by simp at h
  | a :: b :: rest, h => by
    have : rest.length % 2 = 0 := by simp only [List.length_cons] at h; omega
    simp [pairsOf, pairsOf_flatten rest this]

theorem pairsOf_length : ∀ (l : List Nat), l.length % 2 = 0 → 2 * (pairsOf l).length = l.length
  | [], _ => by simp [pairsOf]
  | [_], h => by simp at h
  | a :: b :: rest, h => by
    have : rest.length % 2 = 0 := by simp only [List.length_cons] at h; omega
    have := pairsOf_length rest this
    simp only [pairsOf, List.length_cons]; omega

/-- non-vacuity: on the concrete forest of `Proofs/Forest.lean` both loops run through, with a slot selected twice and a
    pair made of one individual -/
example : ((Expected.crossLoop.run popE [0, 2, 1, 1] [(1, 2), (1, 1)]).map fun P' => (P'.trees.length, P'.next)) = some (3, 99) := by
  decide
example : ((Expected.mutLoop.run popE [1, 1] [1, 1] [branchE, shift 45 branchE]).map fun P' => (P'.trees.length, P'.next))
    = some (3, 99) := by decide
example : GrownFresh cfgE.ar popE.next [branchE, shift 45 branchE] := by
  intro k g hk
  match k, hk with
  | 0, hk => simp at hk; subst hk; exact ⟨wf_of_wfB (by decide), by decide⟩
  | 1, hk => simp at hk; subst hk; exact ⟨wf_of_wfB (by decide), by decide⟩
  | k + 2, hk => simp at hk

end Opy
