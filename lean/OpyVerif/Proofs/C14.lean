import OpyVerif.Model.Guards
/-!
C14 — validated attributes accept exactly their documented domain, atomically.

`agree_sound`: whenever the syntactic matcher pairs a guard condition with a documented
domain, the guard rejects a value **iff** the value lies outside the domain — for every
Python value of the model universe (every rational, ±∞, every type tag, length, string),
NaN excluded (numeric setters accept NaN: known finding K9, `nan_accepted` below).
The generated file proves, on every build, that the list of guards for which `agree` fails
is exactly the recorded list of known mismatches.
-/
set_option linter.unusedVariables false
namespace Opy.G

theorem Num.not_lt_iff_le (a b : Num) (ha : a ≠ .nan) (hb : b ≠ .nan) :
    a.lt b = false ↔ b.le a = true := by
  cases a <;> cases b <;> simp_all [Num.lt, Num.le, Rat.not_lt]

theorem Num.lt_iff_not_le (a b : Num) (ha : a ≠ .nan) (hb : b ≠ .nan) :
    a.lt b = true ↔ ¬ (b.le a = true) := by
  rw [← Num.not_lt_iff_le a b ha hb]; simp

theorem Num.le_iff_not_lt (a b : Num) (ha : a ≠ .nan) (hb : b ≠ .nan) :
    a.le b = true ↔ ¬ (b.lt a = true) := by
  rw [Num.lt_iff_not_le b a hb ha]; simp

theorem fin_ne_nan (q : Rat) : Num.fin q ≠ Num.nan := by intro h; cases h

/-- integers: `k < c + 1 ↔ ¬ (c < k)` -/
theorem int_lt_succ (k c : Int) : Num.lt (.fin (k : Rat)) (.fin ((c + 1 : Int) : Rat)) = true ↔
    ¬ (Num.lt (.fin (c : Rat)) (.fin (k : Rat)) = true) := by
  simp only [Num.lt, decide_eq_true_eq, Rat.not_lt]
  constructor
  · intro h
    have : k < c + 1 := by exact_mod_cast h
    have : k ≤ c := by omega
    exact_mod_cast this
  · intro h
    have : k ≤ c := by exact_mod_cast h
    have : k < c + 1 := by omega
    exact_mod_cast this

theorem agree_sound (it : Bool) (c : Cond) (d : Dom) (h : agree it c d = true) (ctx : Ctx) (v : PyVal)
    (hnan : v.num ≠ .nan) (hattr : ∀ a, ctx.attr a ≠ .nan)
    (hint : it = true → ∃ k : Int, v.num = .fin (k : Rat)) :
    c.holds ctx v = true ↔ ¬ d.mem ctx v := by
  cases c <;> cases d <;> simp only [agree, Bool.false_eq_true] at h
  case notInst.inst t t' =>
    have : t = t' := by simpa using h
    subst this; simp [Cond.holds, Dom.mem]
  case lt.ge c c' =>
    have : c = c' := by simpa using h
    subst this
    simp only [Cond.holds, Dom.mem]
    exact Num.lt_iff_not_le _ _ hnan (fin_ne_nan _)
  case le.gt c c' =>
    have : c = c' := by simpa using h
    subst this
    simp only [Cond.holds, Dom.mem]
    exact Num.le_iff_not_lt _ _ hnan (fin_ne_nan _)
  case lt.gt c c' =>
    simp only [Bool.and_eq_true, beq_iff_eq] at h
    obtain ⟨hit, hc⟩ := h
    obtain ⟨k, hk⟩ := hint hit
    subst hc
    simp only [Cond.holds, Dom.mem, hk]
    exact int_lt_succ k c'
  case ltAttr.geAttr a a' =>
    have : a = a' := by simpa using h
    subst this
    simp only [Cond.holds, Dom.mem]
    exact Num.lt_iff_not_le _ _ hnan (hattr a)
  case notIn.oneOf s s' =>
    have : s = s' := by simpa using h
    subst this; simp [Cond.holds, Dom.mem]
  case shapeNe.sameSize a a' =>
    have : a = a' := by simpa using h
    subst this; simp [Cond.holds, Dom.mem]
  case notCallable.callable => simp [Cond.holds, Dom.mem]
  case notBuilt.built => simp [Cond.holds, Dom.mem]
  case or.between a b lo hi =>
    cases a <;> cases b <;> simp only [agree, Bool.false_eq_true] at h
    case lt.gt x y =>
      have h' : x = lo ∧ y = hi := by simpa using h
      obtain ⟨rfl, rfl⟩ := h'
      simp only [Cond.holds, Dom.mem, Bool.or_eq_true]
      rw [Num.lt_iff_not_le _ _ hnan (fin_ne_nan _), Num.lt_iff_not_le _ _ (fin_ne_nan _) hnan]
      constructor
      · rintro (h1 | h1) ⟨h2, h3⟩
        · exact h1 h2
        · exact h1 h3
      · intro hh
        by_cases h1 : Num.le (.fin x) v.num = true
        · right; intro h2; exact hh ⟨h1, h2⟩
        · left; exact h1

/-- the setter is atomic: on rejection the object is returned unchanged (there is no state
    change to undo), on acceptance exactly the stored value changes -/
theorem setAttr_atomic {σ : Type} (store : σ → PyVal → σ) (ctx : Ctx) (gs : List Guard) (o : σ) (v : PyVal) :
    (∀ e, setAttr store ctx gs o v = .error e → firstError ctx v gs = some e) ∧
    (∀ o', setAttr store ctx gs o v = .ok o' → firstError ctx v gs = none ∧ o' = store o v) := by
  unfold setAttr
  cases firstError ctx v gs with
  | none => simp
  | some e => simp

/-- the value is accepted iff no guard holds; with guards that all `agree` with their
    documented domains this is: iff the value is in every documented domain -/
theorem accepts_iff_all_domains (ctx : Ctx) (v : PyVal) (gs : List Guard)
    (hag : ∀ g ∈ gs, agree false g.cond g.dom = true)
    (hnan : v.num ≠ .nan) (hattr : ∀ a, ctx.attr a ≠ .nan) :
    firstError ctx v gs = none ↔ ∀ g ∈ gs, g.dom.mem ctx v := by
  induction gs with
  | nil => simp [firstError]
  | cons g gs ih =>
    have hs := agree_sound false g.cond g.dom (hag g (by simp)) ctx v hnan hattr (by simp)
    simp only [firstError]
    by_cases hh : g.cond.holds ctx v = true
    · simp only [hh, if_true]
      constructor
      · intro h; cases h
      · intro h; exact absurd (h g (by simp)) (hs.1 hh)
    · simp only [hh, Bool.false_eq_true, if_false]
      rw [ih (fun g' hg' => hag g' (by simp [hg']))]
      constructor
      · intro h g' hg'
        simp only [List.mem_cons] at hg'
        rcases hg' with rfl | hg'
        · by_cases hm : g'.dom.mem ctx v
          · exact hm
          · exact absurd (hs.2 hm) hh
        · exact h g' hg'
      · intro h g' hg'; exact h g' (by simp [hg'])

/-- K9: NaN passes every sign / range guard although it is in none of the documented
    domains (`agree_sound` needs `v.num ≠ nan`) -/
theorem nan_accepted (ctx : Ctx) :
    (Cond.or (.lt 0) (.gt 1)).holds ctx { ty := .float, num := .nan } = false ∧
    ¬ (Dom.between 0 1).mem ctx { ty := .float, num := .nan } := by
  simp [Cond.holds, Dom.mem, Num.lt, Num.le]

/-- non-vacuity: the matcher accepts the common forms and refuses a wrong pairing -/
example : agree false (.or (.lt 0) (.gt 1)) (.between 0 1) = true := by decide
example : agree true (.lt 1) (.gt 0) = true := by decide
example : agree false (.lt 1) (.gt 1) = false := by decide

end Opy.G
