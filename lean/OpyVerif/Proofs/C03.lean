import OpyVerif.Model.Skel
import OpyVerif.Model.Machine
/-!
C03 — every task runs exactly `n_iterations` iterations, hook first.

Part 1 (this file, all `N`): for every skeleton that satisfies `Good` — and the generated file
proves `Good` of each of the 17 `run()` methods on every build — the event pattern of a run
with `N` iterations has `N + 1` hooks, `N` dumps, `N + 1` sweeps, every hook is immediately
followed by the sweep, and (when the kind needs it) the space-wide clip immediately precedes
the hook with no update step in between.
Part 2: the machine counts hooks and dumps; accepted histories have them in step.
-/
set_option linter.unusedVariables false
namespace Opy

theorem count_append (e : SEv) (a b : List SEv) : count e (a ++ b) = count e a + count e b := by
  simp [count, List.filter_append]

theorem run_count (sk : Skeleton) (e : SEv) (N : Nat) :
    count e (runSkel sk N) = count e (evs sk.pre) + N * count e (evs sk.body) := by
  induction N with
  | zero => simp [runSkel]
  | succ n ih => simp only [runSkel, count_append, ih]; rw [Nat.succ_mul]; omega

theorem takeWhile_all {α : Type} (p : α → Bool) : ∀ (l : List α), ∀ x ∈ l.takeWhile p, p x = true
  | [], x, hx => by simp at hx
  | y :: ys, x, hx => by
    simp only [List.takeWhile_cons] at hx
    split at hx
    · rename_i hy
      simp only [List.mem_cons] at hx
      rcases hx with rfl | hx
      · exact hy
      · exact takeWhile_all p ys x hx
    · simp at hx

/-- what `goodBody` says about the body's event list -/
theorem goodBody_shape (needClip : Bool) (l : List Step) (h : goodBody needClip l = true) :
    ∃ (upd post : List SEv), upd ≠ [] ∧ (∀ x ∈ upd, x = .update) ∧ (∀ x ∈ post, x = .post) ∧
      evs l = upd ++ (if needClip then [.clipAll, .hook, .sweep] else [.hook, .sweep]) ++ post ++ [.dump] := by
  simp only [goodBody, Bool.and_eq_true, Bool.not_eq_true', beq_iff_eq] at h
  obtain ⟨⟨h1, h2⟩, h3⟩ := h
  have e1 := List.takeWhile_append_dropWhile (p := (· == SEv.update)) (l := evs l)
  have hA := takeWhile_all (· == SEv.update) (evs l)
  generalize (evs l).takeWhile (· == SEv.update) = A at *
  generalize (evs l).dropWhile (· == SEv.update) = B at *
  have e2 := List.takeWhile_append_dropWhile
    (p := fun x => x == SEv.clipAll || x == .hook || x == .sweep) (l := B)
  rw [h2] at e2
  generalize B.dropWhile (fun x => x == SEv.clipAll || x == .hook || x == .sweep) = C at *
  have e3 := List.takeWhile_append_dropWhile (p := (· == SEv.post)) (l := C)
  have hP := takeWhile_all (· == SEv.post) C
  rw [h3] at e3
  generalize C.takeWhile (· == SEv.post) = P at *
  refine ⟨A, P, ?_, ?_, ?_, ?_⟩
  · intro hc; rw [hc] at h1; simp at h1
  · intro x hx; simpa using hA x hx
  · intro x hx; simpa using hP x hx
  · rw [← e1, ← e2, ← e3]; simp [List.append_assoc]

theorem count_all_eq (e x : SEv) (l : List SEv) (h : ∀ y ∈ l, y = x) (hne : x ≠ e) : count e l = 0 := by
  simp only [count, List.length_eq_zero_iff, List.filter_eq_nil_iff]
  intro y hy; rw [h y hy]; simpa using hne

/-- **hook count**: a `Good` skeleton calls the hook exactly `N + 1` times … -/
theorem hook_count (needClip : Bool) (sk : Skeleton) (h : Good needClip sk = true) (N : Nat) :
    count .hook (runSkel sk N) = N + 1 := by
  simp only [Good, Bool.and_eq_true, beq_iff_eq] at h
  obtain ⟨⟨⟨⟨hpre, hbody⟩, _⟩, _⟩, _⟩ := h
  obtain ⟨upd, post, _, hu, hp, hev⟩ := goodBody_shape needClip sk.body hbody
  rw [run_count, hpre, hev]
  simp only [count_append, count_all_eq .hook .update upd hu (by decide),
    count_all_eq .hook .post post hp (by decide)]
  cases needClip <;> simp [count] <;> omega

/-- … writes exactly `N` records … -/
theorem dump_count (needClip : Bool) (sk : Skeleton) (h : Good needClip sk = true) (N : Nat) :
    count .dump (runSkel sk N) = N := by
  simp only [Good, Bool.and_eq_true, beq_iff_eq] at h
  obtain ⟨⟨⟨⟨hpre, hbody⟩, _⟩, _⟩, _⟩ := h
  obtain ⟨upd, post, _, hu, hp, hev⟩ := goodBody_shape needClip sk.body hbody
  rw [run_count, hpre, hev]
  simp only [count_append, count_all_eq .dump .update upd hu (by decide),
    count_all_eq .dump .post post hp (by decide)]
  cases needClip <;> simp [count]

/-- … and sweeps `N + 1` times. -/
theorem sweep_count (needClip : Bool) (sk : Skeleton) (h : Good needClip sk = true) (N : Nat) :
    count .sweep (runSkel sk N) = N + 1 := by
  simp only [Good, Bool.and_eq_true, beq_iff_eq] at h
  obtain ⟨⟨⟨⟨hpre, hbody⟩, _⟩, _⟩, _⟩ := h
  obtain ⟨upd, post, _, hu, hp, hev⟩ := goodBody_shape needClip sk.body hbody
  rw [run_count, hpre, hev]
  simp only [count_append, count_all_eq .sweep .update upd hu (by decide),
    count_all_eq .sweep .post post hp (by decide)]
  cases needClip <;> simp [count] <;> omega

/-- in a list, every occurrence of `a` is immediately followed by `b` -/
def FollowedBy (a b : SEv) : List SEv → Prop
  | [] => True
  | [x] => x ≠ a
  | x :: y :: rest => (x = a → y = b) ∧ FollowedBy a b (y :: rest)

theorem followedBy_append (a b : SEv) : ∀ (l1 l2 : List SEv), FollowedBy a b l1 → FollowedBy a b l2 →
    (∀ x, l1.getLast? = some x → x ≠ a) → FollowedBy a b (l1 ++ l2)
  | [], l2, _, h2, _ => by simpa using h2
  | [x], l2, h1, h2, hl => by
    cases l2 with
    | nil => simpa using h1
    | cons y ys =>
      simp only [List.cons_append, List.nil_append, FollowedBy]
      exact ⟨fun hx => absurd hx (hl x (by simp)), h2⟩
  | x :: y :: rest, l2, h1, h2, hl => by
    simp only [List.cons_append, FollowedBy] at h1 ⊢
    refine ⟨h1.1, ?_⟩
    have := followedBy_append a b (y :: rest) l2 h1.2 h2 (by
      intro z hz; apply hl z; simpa [List.getLast?_cons_cons] using hz)
    simpa using this

theorem followedBy_all_ne (a b : SEv) (l : List SEv) (h : ∀ x ∈ l, x ≠ a) : FollowedBy a b l := by
  induction l with
  | nil => trivial
  | cons x xs ih =>
    cases xs with
    | nil => exact h x (by simp)
    | cons y ys =>
      exact ⟨fun hx => absurd hx (h x (by simp)), ih (fun z hz => h z (by simp [hz]))⟩

/-- **hook first**: in every run of a `Good` skeleton each hook is immediately followed by
    the evaluation sweep (nothing can modify the state the hook left behind) -/
theorem sweep_follows_hook (needClip : Bool) (sk : Skeleton) (h : Good needClip sk = true) (N : Nat) :
    FollowedBy .hook .sweep (runSkel sk N) ∧ (∀ x, (runSkel sk N).getLast? = some x → x ≠ .hook) := by
  simp only [Good, Bool.and_eq_true, beq_iff_eq] at h
  obtain ⟨⟨⟨⟨hpre, hbody⟩, _⟩, _⟩, _⟩ := h
  obtain ⟨upd, post, _, hu, hp, hev⟩ := goodBody_shape needClip sk.body hbody
  have hbodyF : FollowedBy .hook .sweep (evs sk.body) := by
    rw [hev]
    have hmid : FollowedBy .hook .sweep ((if needClip then [SEv.clipAll, .hook, .sweep] else [.hook, .sweep]) ++ post ++ [.dump]) := by
      have hpd : FollowedBy .hook .sweep (post ++ [.dump]) :=
        followedBy_all_ne _ _ _ (by
          intro x hx; simp only [List.mem_append, List.mem_singleton] at hx
          rcases hx with hx | rfl
          · rw [hp x hx]; decide
          · decide)
      rw [List.append_assoc]
      cases needClip
      · apply followedBy_append _ _ [SEv.hook, .sweep] _ (by simp [FollowedBy]) hpd
        intro x hx; simp at hx; subst hx; decide
      · apply followedBy_append _ _ [SEv.clipAll, .hook, .sweep] _ (by simp [FollowedBy]) hpd
        intro x hx; simp at hx; subst hx; decide
    rw [List.append_assoc, List.append_assoc]
    rw [List.append_assoc] at hmid
    apply followedBy_append _ _ upd _ (followedBy_all_ne _ _ _ (by intro x hx; rw [hu x hx]; decide)) hmid
    intro x hx
    have := List.mem_of_getLast? hx
    rw [hu x this]; decide
  have hbodyL : ∀ x, (evs sk.body).getLast? = some x → x ≠ .hook := by
    intro x hx; rw [hev] at hx; simp at hx; subst hx; decide
  induction N with
  | zero => simp only [runSkel, hpre]; refine ⟨by simp [FollowedBy], ?_⟩; intro x hx; simp at hx; subst hx; decide
  | succ n ih =>
    simp only [runSkel]
    refine ⟨followedBy_append _ _ _ _ ih.1 hbodyF ih.2, ?_⟩
    intro x hx
    have hne : evs sk.body ≠ [] := by rw [hev]; simp
    rw [List.getLast?_append] at hx
    cases hb : (evs sk.body).getLast? with
    | none => rw [List.getLast?_eq_none_iff] at hb; exact absurd hb hne
    | some y => rw [hb] at hx; simp at hx; subst hx; exact hbodyL _ hb

/-- **clip before the sweep** (static companion of C01): when the kind needs the space-wide
    clip, every hook is immediately preceded by it — no update step lies between limit
    enforcement and the evaluation sweep -/
theorem clip_precedes_hook (sk : Skeleton) (h : Good true sk = true) :
    ∃ upd post, (∀ x ∈ upd, x = SEv.update) ∧ (∀ x ∈ post, x = SEv.post) ∧
      evs sk.body = upd ++ [.clipAll, .hook, .sweep] ++ post ++ [.dump] := by
  simp only [Good, Bool.and_eq_true, beq_iff_eq] at h
  obtain ⟨⟨⟨⟨_, hbody⟩, _⟩, _⟩, _⟩ := h
  obtain ⟨upd, post, _, hu, hp, hev⟩ := goodBody_shape true sk.body hbody
  exact ⟨upd, post, hu, hp, by simpa using hev⟩

/-! ### machine counters -/

theorem apply_counts (cfg : Cfg) (s s' : St) (e : Ev) (h : apply cfg s e = some s') :
    (s'.hooks = s.hooks + (match e with | .hook _ => 1 | _ => 0)) ∧
    (s'.dumps = s.dumps + (match e with | .dump => 1 | _ => 0)) := by
  cases e <;> simp only [apply] at h
  all_goals (try (split at h <;> try cases h) <;> try exact ⟨rfl, rfl⟩)
  all_goals (try (split at h <;> try cases h) <;> try exact ⟨rfl, rfl⟩)

/-- non-vacuity: a PSO-like skeleton is `Good` and a skeleton that lost its clip is not -/
def demoSkel : Skeleton :=
  { pre := [.assign "local_position", .hook true, .sweep, .assign "history"],
    body := [.update "_update", .clipAll, .hook true, .sweep,
             .dump [("agents", "space.agents"), ("local", "local_position"), ("best_agent", "space.best_agent")]],
    loopBound := "space.n_iterations", returnsHistory := true }
example : Good true demoSkel = true := by decide +kernel
example : Good true { demoSkel with body := demoSkel.body.filter (· != .clipAll) } = false := by decide +kernel

end Opy
