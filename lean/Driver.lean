import OpyVerif.Model.Clip
import OpyVerif.Model.Machine
import OpyVerif.Model.Tree
import OpyVerif.Model.TreeOps
import OpyVerif.Model.TreeEval
import OpyVerif.Model.Num
import OpyVerif.Model.Select
import OpyVerif.Model.History
import OpyVerif.Model.Skel
import OpyVerif.Model.Guards
import OpyVerif.Model.Proto
import OpyVerif.Model.Bench
import OpyVerif.Model.Normalise
import OpyVerif.Model.Onlooker
import OpyVerif.Generated.ConstantsDefs
import OpyVerif.Generated.SkeletonsDefs
import OpyVerif.Generated.GuardsDefs
import OpyVerif.Generated.FormulasDefs
import OpyVerif.Generated.BudgetDefs
import OpyVerif.Generated.WalksDefs
import OpyVerif.Generated.FindDefs
import OpyVerif.Generated.PropsDefs
import OpyVerif.Generated.SelectDefs
import OpyVerif.Generated.HeapOpsDefs
import OpyVerif.Generated.OpsDefs
import OpyVerif.Generated.GrowDefs
import OpyVerif.Generated.PopLoopsDefs
import OpyVerif.Generated.ClipLoopsDefs
import OpyVerif.Generated.SweepsDefs
import OpyVerif.Model.TaskRun
/-
Line-protocol driver: runs the *executable model definitions* on inputs sent by the Python
harness, one request per line, one answer per line.  Imports models only (no Mathlib), so it
links as a native executable.
-/
open Opy Opy.Proto

def fOfBits (s : String) : Option Float := s.toNat?.map (fun n => Float.ofBits n.toUInt64)
def parseFloats (s : String) : Option (List Float) :=
  if s == "-" then some [] else (s.splitOn ",").mapM fOfBits
def parseFRows (s : String) : Option (List (List Float)) :=
  if s == "-" then some [] else (s.splitOn ";").mapM parseFloats
def showF (x : Float) : String := toString x.toBits.toNat
def showFs (l : List Float) : String := if l.isEmpty then "-" else ",".intercalate (l.map showF)
def b01 (b : Bool) : String := if b then "1" else "0"

def eps : Float := Float.ofBits Opy.Gen.epsilonBits.toUInt64

structure DState where
  cfg : Cfg := { fmax := 0, swarm := false, lbs := [], ubs := [] }
  st : Option St := none
  hist : Hist := { storeBestOnly := false, attrs := [] }
  /-- task replay (`Model/TaskRun`): the program, the box, the start state; the scripted oracle steps in call order
      (`none` = the step leaves population and best agent as they are); the objective as a table -/
  task : Option (TaskProg × List Int × List Int × TaskSt) := none
  script : Array (Option (List Ag × Ag)) := #[]
  tbl : List (Pos × Int) := []

def showSt (s : St) : String :=
  s!"{showAgs s.pop} {showAg s.best} {s.cursor} {b01 s.swept} {b01 s.truthful} {s.hooks} {s.dumps} {s.sinceHook}"

def machineEv (d : DState) (e : Ev) : DState × String :=
  match d.st with
  | none => (d, "noinit")
  | some s =>
    match apply d.cfg s e with
    | some s' => ({ d with st := some s' }, "ok " ++ showSt s')
    | none => (d, "reject")

def foundStr : PNode.Found → String
  | .slot p s => s!"slot {p} {b01 s}"
  | .noSlot => "noslot"
  | .error => "error"

def parseGuardVal (toks : List String) : Option G.PyVal :=
  -- ty num len str truthy built ; num = `f<num>/<den>` | pinf | ninf | nan
  match toks with
  | [ty, num, len, str, truthy, built] =>
    let ty' : Option G.Ty := match ty with
      | "int" => some .int | "float" => some .float | "bool" => some .bool | "str" => some .str
      | "list" => some .list | "dict" => some .dict | "tuple" => some .tuple | "ndarray" => some .ndarray
      | "node" => some .node | "agent" => some .agent | "none" => some .none | "callable" => some .callable
      | "other" => some .other | _ => none
    let num' : Option G.Num :=
      if num == "pinf" then some .pinf else if num == "ninf" then some .ninf else if num == "nan" then some .nan
      else match (num.drop 1).toString.splitOn "/" with
        | [a, b] => match a.toInt?, b.toNat? with
          | some a, some b => some (.fin ((a : Rat) / (b : Rat)))
          | _, _ => none
        | _ => none
    match ty', num', len.toNat? with
    | some t, some n, some l =>
      some { ty := t, num := n, len := l, str := if str == "~" then "" else str, truthy := truthy == "1", built := built == "1" }
    | _, _, _ => none
  | _ => none

def errStr : G.ErrClass → String
  | .typeError => "TypeError" | .valueError => "ValueError" | .sizeError => "SizeError"
  | .argumentError => "ArgumentError" | .buildError => "BuildError" | .other => "other"

def sevStr : SEv → String
  | .hook => "H" | .sweep => "S" | .clipAll => "C" | .update => "U" | .post => "P" | .dump => "D"

def step (d : DState) (line : String) : DState × String :=
  let toks := (line.trimAscii.toString.splitOn " ").filter (· ≠ "")
  match toks with
  | ["clip", lbs, ubs, p] =>
    match parseInts lbs, parseInts ubs, parsePos p with
    | some l, some u, some p => (d, showPos (clipPos l u p))
    | _, _, _ => (d, "bad-op")
  | ["clipall", lbs, ubs, pop] =>
    match parseInts lbs, parseInts ubs, parsePop pop with
    | some l, some u, some p => (d, showPop (clipAll l u p))
    | _, _, _ => (d, "bad-op")
  | ["cliphyper", n, p] =>
    match n.toNat?, parsePos p with
    | some n, some p => (d, showPos (clipHyper n p))
    | _, _ => (d, "bad-op")
  | ["inbox", lbs, ubs, p] =>
    match parseInts lbs, parseInts ubs, parsePos p with
    | some l, some u, some p => (d, b01 (inBoxB l u p))
    | _, _, _ => (d, "bad-op")
  -- machine
  | ["m.init", fmax, swarm, lbs, ubs, pop, best] =>
    match fmax.toInt?, parseInts lbs, parseInts ubs, parseAgs pop, parseAg best with
    | some fm, some l, some u, some p, some b =>
      let cfg : Cfg := { fmax := fm, swarm := swarm == "1", lbs := l, ubs := u }
      ({ d with cfg := cfg, st := some (initSt p b) }, "ok")
    | _, _, _, _, _ => (d, "bad-op")
  | ["m.hook", pop] => match parseAgs pop with | some p => machineEv d (.hook p) | none => (d, "bad-op")
  | ["m.update", pop] => match parseAgs pop with | some p => machineEv d (.update p) | none => (d, "bad-op")
  | ["m.trial", p, v, pop] =>
    match parsePos p, v.toInt?, parseAgs pop with
    | some p, some v, some pop => machineEv d (.trial p v pop)
    | _, _, _ => (d, "bad-op")
  | ["m.swap", p, v, i] =>
    match parsePos p, v.toInt?, i.toNat? with
    | some p, some v, some i => machineEv d (.trialSwap p v i)
    | _, _, _ => (d, "bad-op")
  | ["m.sweep", v, tie, r, arg] =>
    match v.toInt?, r.toNat?, parsePos arg with
    | some v, some r, some arg =>
      -- the sweep must evaluate exactly the current position of the agent under the cursor
      match d.st with
      | some s => match s.pop[s.cursor]? with
        | some a => if a.pos == arg then machineEv d (.sweep v (tie == "1") r) else (d, "reject-arg " ++ showPos a.pos)
        | none => (d, "reject-cursor")
      | none => (d, "noinit")
    | _, _, _ => (d, "bad-op")
  | ["m.clipall"] => machineEv d .clipAll
  | ["m.dump"] => machineEv d .dump
  | ["m.logs"] =>
    match d.st with
    | some s => (d, s!"{showInts s.bestLog} {showNats (s.truthLog.map fun b => if b then 1 else 0)} {showPos s.fitLog}")
    | none => (d, "noinit")
  -- trees
  | ["t.pre", t] => match parseTree t with
    | some t => (d, showNats (t.preOrder.filterMap PNode.id?)) | none => (d, "bad-op")
  | ["t.post", t] => match parseTree t with
    | some t => (d, showNats (t.postOrder.filterMap PNode.id?)) | none => (d, "bad-op")
  | ["t.props", t] => match parseTree t with
    | some t => let p := t.properties; (d, s!"{p.minD} {p.maxD} {p.leaves} {p.nodes}") | none => (d, "bad-op")
  | ["t.find", t, p] => match parseTree t, p.toNat? with
    | some t, some p => (d, foundStr (t.findNode p)) | _, _ => (d, "bad-op")
  | ["t.wf", t] => match parseTree t with
    | some t => (d, b01 (t.wfB Opy.Gen.arityByCode)) | none => (d, "bad-op")
  | ["t.canon", t] => match parseTree t with
    | some t => (d, canonTree t) | none => (d, "bad-op")
  | ["t.mutate", t, p, b] => match parseTree t, p.toNat?, parseTree b with
    | some t, some p, some b =>
      (d, match PNode.mutate t p b with | some r => canonTree r | none => "error")
    | _, _, _ => (d, "bad-op")
  | ["t.cross", f, m, pf, pm] => match parseTree f, parseTree m, pf.toNat?, pm.toNat? with
    | some f, some m, some pf, some pm =>
      (d, match PNode.cross f m pf pm with
          | some (a, b) => canonTree a ++ " " ++ canonTree b | none => "error")
    | _, _, _, _ => (d, "bad-op")
  | ["w.mutate", t, p, b] => match parseTree t, p.toNat?, parseTree b with
    | some t, some p, some b =>
      (d, match Opy.runMutate Opy.Gen.mutFrame.cond Opy.Gen.mutateBody t p b with | some r => canonTree r | none => "error")
    | _, _, _ => (d, "bad-op")
  | ["w.cross", f, m, pf, pm] => match parseTree f, parseTree m, pf.toNat?, pm.toNat? with
    | some f, some m, some pf, some pm =>
      (d, match Opy.runCross Opy.Gen.crossFrame.cond Opy.Gen.crossBody f m pf pm with
          | some (a, b) => canonTree a ++ " " ++ canonTree b | none => "error")
    | _, _, _, _ => (d, "bad-op")
  -- `GP._mutation` / `GP._crossover` as the translator read them, on a whole population
  | ["w.mutation", trees, next, sel, points, grown] =>
    let ts? := if trees == "-" then some [] else (trees.splitOn ";").mapM parseTree
    let gs? := if grown == "-" then some [] else (grown.splitOn ";").mapM parseTree
    match ts?, next.toNat?, parseNats sel, parseNats points, gs? with
    | some ts, some nx, some sel, some pts, some gs =>
      (d, match Opy.Gen.mutLoop.run ⟨ts, .nil, nx⟩ sel pts gs with
          | some P => ";".intercalate (P.trees.map canonTree) | none => "error")
    | _, _, _, _, _ => (d, "bad-op")
  | ["w.crossover", trees, next, sel, draws] =>
    let ts? := if trees == "-" then some [] else (trees.splitOn ";").mapM parseTree
    let dr? : Option (List (Nat × Nat)) := if draws == "-" then some [] else (draws.splitOn ";").mapM fun tok =>
      match tok.splitOn "," with
      | [a, b] => match a.toNat?, b.toNat? with | some a, some b => some (a, b) | _, _ => none
      | _ => none
    match ts?, next.toNat?, parseNats sel, dr? with
    | some ts, some nx, some sel, some dr =>
      (d, match Opy.Gen.crossLoop.run ⟨ts, .nil, nx⟩ sel dr with
          | some P => ";".intercalate (P.trees.map canonTree) | none => "error")
    | _, _, _, _ => (d, "bad-op")
  | ["w.grow", funcs, nT, k, draws] => match parseNats funcs, nT.toNat?, k.toNat?, parseNats draws with
    | some fs, some nT, some k, some ds =>
      (d, match Opy.Gen.growProg.run { funcs := fs, ar := Opy.Gen.arityByCode, nTerminals := nT } k ds 0 with
          | some (t, rest, _) => canonTree t ++ " " ++ toString rest.length | none => "error")
    | _, _, _, _ => (d, "bad-op")
  | ["t.grow", funcs, nT, k, draws] => match parseNats funcs, nT.toNat?, k.toNat?, parseNats draws with
    | some fs, some nT, some k, some ds =>
      (d, match PNode.grow { funcs := fs, ar := Opy.Gen.arityByCode, nTerminals := nT } k ds 0 with
          | some (t, rest, _) => canonTree t ++ " " ++ toString rest.length | none => "error")
    | _, _, _, _ => (d, "bad-op")
  | ["t.repro", fit, sel] => match parseInts fit, parseNats sel with
    | some fit, some sel =>
      let n := fit.length
      let (tr, ag, f) := PNode.reproduction id id (List.range n) (List.range n) fit sel
      (d, s!"{showNats tr} {showNats ag} {showInts f}")
    | _, _ => (d, "bad-op")
  | ["t.op", code, x, y] => match code.toNat?, parseFloats x, parseFloats y with
    | some c, some x, some y =>
      (d, match binOp eps c with
          | some f => showFs (zipW f x y)
          | none => match unOp eps c with
            | some g => showFs (x.map g) | none => "error")
    | _, _, _ => (d, "bad-op")
  | ["w.op", code, x, y] => match code.toNat?, parseFloats x, parseFloats y with
    | some c, some x, some y =>
      -- the translated `_evaluate` on a one-operator tree whose children hold `x` and `y`
      let leaf (i a : Nat) (fl : Bool) : Opy.PNode := .mk i ⟨true, 0, a⟩ (some 0) fl .nil .nil
      let t : Opy.PNode := .mk 0 ⟨false, c, 0⟩ none true (leaf 1 1 true) (leaf 2 2 false)
      (d, match Opy.Gen.evalProg.run eps (fun i => if i == 1 then some x else if i == 2 then some y else none) t with
          | some r => showFs r | none => "error")
    | _, _, _ => (d, "bad-op")
  | "t.eval" :: t :: envToks => match parseTree t with
    | some t =>
      let env : List (Nat × List Float) := envToks.filterMap fun tok =>
        match tok.splitOn "=" with
        | [k, v] => match k.toNat?, parseFloats v with | some k, some v => some (k, v) | _, _ => none
        | _ => none
      (d, match evalTree eps (fun i => (env.find? (·.1 == i)).map (·.2)) t with
          | some r => showFs r | none => "error")
    | none => (d, "bad-op")
  -- selection
  | ["s.tour", fit, rounds] => match parseInts fit, parsePos rounds with
    | some f, some r => (d, match tournament f r with | some s => showNats s | none => "error")
    | _, _ => (d, "bad-op")
  | ["w.tour", fit, rounds] => match parseInts fit, parsePos rounds with
    | some f, some r => (d, match Opy.Gen.tournProg.run f r with | some s => showNats s | none => "error")
    | _, _ => (d, "bad-op")
  | ["w.bern", p, us] => match p.toInt?, parseInts us with
    | some p, some us => (d, match Opy.Gen.bernProg.run p us with | some s => showNats s | none => "error") | _, _ => (d, "bad-op")
  | ["s.pair", l] => match parseInts l with
    | some l => (d, showPos (pairwise l)) | none => (d, "bad-op")
  | ["s.bern", p, us] => match p.toInt?, parseInts us with
    | some p, some us => (d, showNats (bernoulli p us)) | _, _ => (d, "bad-op")
  -- numeric
  | ["n.span", lbs, ubs, rows] => match parseFloats lbs, parseFloats ubs, parseFRows rows with
    | some l, some u, some r => (d, showFs (span l u r)) | _, _, _ => (d, "bad-op")
  | ["n.aiw", a, b, p, n] => match fOfBits a, fOfBits b, p.toNat?, n.toNat? with
    | some a, some b, some p, some n => (d, showF (aiwpsoW a b p n)) | _, _, _, _ => (d, "bad-op")
  | ["n.par", a, b, n, t] => match fOfBits a, fOfBits b, n.toNat?, t.toNat? with
    | some a, some b, some n, some t => (d, showF (ihsPAR a b n t)) | _, _, _, _ => (d, "bad-op")
  | ["n.bw", a, b, n, t] => match fOfBits a, fOfBits b, n.toNat?, t.toNat? with
    | some a, some b, some n, some t => (d, showF (ihsBw a b n t)) | _, _, _, _ => (d, "bad-op")
  | ["n.sat", a, b] => match fOfBits a, fOfBits b with
    | some a, some b => (d, showF (saT a b)) | _, _ => (d, "bad-op")
  | ["n.fa", a, n] => match fOfBits a, n.toNat? with
    | some a, some n => (d, showF (faAlpha a n)) | _, _ => (d, "bad-op")
  | ["n.wca", a, n] => match fOfBits a, n.toNat? with
    | some a, some n => (d, showF (wcaDmax a n)) | _, _ => (d, "bad-op")
  | ["n.weighted", ws, vs] => match parseFloats ws, parseFloats vs with
    | some w, some v => (d, showF (weighted w v)) | _, _ => (d, "bad-op")
  | ["n.unif", lo, hi, u] => match fOfBits lo, fOfBits hi, fOfBits u with
    | some lo, some hi, some u => (d, showF (uniformAffine lo hi u)) | _, _, _ => (d, "bad-op")
  | ["n.norm", mu, sd, z] => match fOfBits mu, fOfBits sd, fOfBits z with
    | some mu, some sd, some z => (d, showF (normalAffine mu sd z)) | _, _, _ => (d, "bad-op")
  | ["n.levy", beta, g1, g2] => match fOfBits beta, fOfBits g1, fOfBits g2 with
    | some b, some g1, some g2 => (d, showF (levyStep b g1 g2)) | _, _, _ => (d, "bad-op")
  | ["n.gsamass", fits] => match parseFloats fits with
    | some f => (d, showFs (gsaMass eps f)) | none => (d, "bad-op")
  | ["n.wcaflow", nsr, n, fits] => match nsr.toNat?, n.toNat?, parseFloats fits with
    | some nsr, some n, some f => (d, showFs ((List.range nsr).map (wcaFlowReal nsr n f))) | _, _, _ => (d, "bad-op")
  | ["n.bharadius", b, c] => match fOfBits b, fOfBits c with
    | some b, some c => (d, showF (bhaRadius b c)) | _, _ => (d, "bad-op")
  | ["o.run", n, passes] => match n.toNat?, parsePos passes with
    | some n, some ps =>
      (d, match onlooker n 0 (ps.map (fun p => p.map (· != 0))) with | some k => toString k | none => "none")
    | _, _ => (d, "bad-op")
  | ["b", name, xs] => match benchByName name, parseFloats xs with
    | some f, some xs => (d, showF (f xs)) | _, _ => (d, "bad-op")
  -- the traversal programs translated from the current source, run by the interpreter of Model/NodeWalk
  | ["w.pre", t] => match parseTree t with
    | some t => (d, showNats ((runWalk Opy.Gen.preOrderInit Opy.Gen.preOrderLoop (t.size + 2) t).filterMap PNode.id?))
    | none => (d, "bad-op")
  | ["w.props", t] => match parseTree t with
    | some t => let p := Opy.Gen.bfsProg.run t; (d, s!"{p.minD} {p.maxD} {p.leaves} {p.nodes}") | none => (d, "bad-op")
  | ["w.find", t, p] => match parseTree t, p.toNat? with
    | some t, some p => (d, foundStr (Opy.Gen.findProg.run t p none)) | _, _ => (d, "bad-op")
  | ["w.post", t] => match parseTree t with
    | some t => (d, showNats ((runPost Opy.Gen.postOrderLoop (t.cost + 3) t).filterMap PNode.id?))
    | none => (d, "bad-op")
  -- per-iteration evaluation budget computed from the call sites translated from the current source
  | ["budget", kind, n] => match Opy.Gen.evalTerms.lookup kind, n.toNat? with
    | some row, some n => (d, match iterationBudget n row with | some b => toString b | none => "none")
    | _, _ => (d, "bad-op")
  -- the check_limits loops translated from the current source, run on keys
  | ["cl.agent", lbs, ubs, p] => match parseInts lbs, parseInts ubs, parsePos p with
    | some l, some u, some p => (d, showPos (Opy.Gen.agentClip.runPos l u p)) | _, _, _ => (d, "bad-op")
  | ["cl.search", lbs, ubs, pop] => match parseInts lbs, parseInts ubs, parsePop pop with
    | some l, some u, some pop => (d, showPop (Opy.Gen.searchClip.runAll l u pop)) | _, _, _ => (d, "bad-op")
  | ["cl.hyper", lbs, ubs, pop] => match parseInts lbs, parseInts ubs, parsePop pop with
    | some l, some u, some pop => (d, showPop (Opy.Gen.hyperClip.runAll l u pop)) | _, _, _ => (d, "bad-op")
  -- the expressions translated from the current source, evaluated in Float
  | ["fx", which, name, envs, xs] =>
    let e? : Option FExpr := match which with
      | "bench" => Opy.Gen.benchExprs.lookup name
      | "sched" => Opy.Gen.scheduleExprs.lookup name
      | "span" => some Opy.Gen.spanExpr
      | "norm" => some Opy.Gen.normExpr
      | "levy" => some Opy.Gen.levyExpr
      | "wbody" => some Opy.Gen.weightedBody
      | _ => none
    let env? : Option (List (String × Float)) :=
      if envs == "-" then some [] else (envs.splitOn ",").mapM fun kv => match kv.splitOn "=" with
        | [k, v] => (fOfBits v).map (fun f => (k, f)) | _ => none
    match e?, env?, parseFloats xs with
    | some e, some env, some xs =>
      if !e.known then (d, "unknown") else
      (d, match e.denote (fun n => (env.lookup n).getD (0.0 / 0.0)) xs with
          | .s v => showF v | .v l => "v " ++ showFs l | .bad => "bad")
    | _, _, _ => (d, "bad-op")
  -- history
  | ["h.new", sbo] => ({ d with hist := { storeBestOnly := sbo == "1", attrs := [] } }, "ok")
  | "h.dump" :: kvs =>
    let parsed := kvs.mapM fun tok => match tok.splitOn "=" with
      | [k, v] => (parseRec v).map (fun r => (k, r)) | _ => none
    match parsed with
    | some kvs => ({ d with hist := dump Opy.Gen.historyKeys d.hist kvs }, "ok")
    | none => (d, "bad-op")
  | ["h.show"] =>
    (d, if d.hist.attrs.isEmpty then "-" else " ".intercalate (d.hist.attrs.map fun (k, rs) => k ++ "=" ++ showRec (.list rs)))
  | ["h.get", recs, isTuple, idx] => match parseRec recs, parseNats idx with
    | some (.list rs), some idx =>
      (d, match get rs (isTuple == "1") idx with
          | .ok r => "ok " ++ showRec r
          | .error .typeError => "TypeError" | .error .sizeError => "SizeError" | .error .indexError => "IndexError")
    | _, _ => (d, "bad-op")
  | ["h.load", target, saved] =>
    let p (s : String) : Option (List (String × List Rec)) :=
      if s == "-" then some [] else (s.splitOn "&").mapM fun tok => match tok.splitOn "=" with
        | [k, v] => match parseRec v with | some (.list rs) => some (k, rs) | _ => none
        | _ => none
    match p target, p saved with
    | some t, some s => (d, ",".intercalate ((loadInto t s).map (·.1)))
    | _, _ => (d, "bad-op")
  -- a whole task of the translated programs (skeleton + clip loop + sweep) under a scripted oracle
  | ["tk.init", kind, space, swarm, lbs, ubs, pop, best] =>
    match Opy.Gen.skeletons.find? (·.1 == kind), parseInts lbs, parseInts ubs, parseAgs pop, parseAg best with
    | some (_, _, sk), some l, some u, some p, some b =>
      let prog : TaskProg := { skel := sk, clip := if space == "h" then Opy.Gen.hyperClip else Opy.Gen.searchClip,
                               sweep := if swarm == "1" then Opy.Gen.psoSweep else Opy.Gen.genericSweep }
      -- a part the translator could not read as a skeleton / clip loop / plain sweep has no meaning to replay (its own
      -- regenerated obligation is what reports that)
      if Good true prog.skel && prog.clip.wellFormed && prog.sweep.plain then
        ({ d with task := some (prog, l, u, TaskSt.start p b), script := #[], tbl := [] }, "ok")
      else (d, "unreadable")
    | _, _, _, _, _ => (d, "bad-op")
  | ["tk.step", "="] => ({ d with script := d.script.push none }, "ok")
  | ["tk.step", pop, best] =>
    match parseAgs pop, parseAg best with
    | some p, some b => ({ d with script := d.script.push (some (p, b)) }, "ok")
    | _, _ => (d, "bad-op")
  | ["tk.f", p, v] =>
    match parsePos p, v.toInt? with
    | some p, some v => ({ d with tbl := (p, v) :: d.tbl }, "ok")
    | _, _ => (d, "bad-op")
  | ["tk.run", n] =>
    match d.task, n.toNat? with
    | some (prog, l, u, s0), some n =>
      let stepAt : Nat → List Ag × Ag → List Ag × Ag := fun k st => match d.script[k]? with
        | some (some r) => r | _ => st
      let o : TaskOracle :=
        { f := fun p => match d.tbl.find? (·.1 == p) with | some e => e.2 | none => 0,
          upd := stepAt, hook := stepAt, post := stepAt }
      let s := prog.runTask l u o s0 n
      let recs (l : List (Pos × Int)) : String := if l.isEmpty then "-" else "|".intercalate (l.map fun r => s!"{showPos r.1}:{r.2}")
      let dumps := if s.dumps.isEmpty then "-" else "/".intercalate (s.dumps.map fun dd => s!"{recs dd.1}~{recs [dd.2]}")
      let args := if s.sweepArgs.isEmpty then "-" else "/".intercalate (s.sweepArgs.map showPop)
      (d, s!"{s.k} {args} {dumps} {showAg s.best}")
    | _, _ => (d, "noinit")
  -- skeleton and guard tables (generated from the source)
  | ["skel", kind, n] => match Opy.Gen.skeletons.find? (·.1 == kind), n.toNat? with
    | some (_, _, sk), some n => (d, "".intercalate ((runSkel sk n).map sevStr))
    | _, _ => (d, "unknown-kind")
  | ["skel.dumpkeys", kind] => match Opy.Gen.skeletons.find? (·.1 == kind) with
    | some (_, _, sk) =>
      (d, ",".intercalate (sk.body.flatMap fun s => match s with | .dump kws => kws.map (·.1) | _ => []))
    | none => (d, "unknown-kind")
  | "guard" :: cls :: attr :: attrs :: rest =>
    -- attrs: `name:f<n>/<d>:<nat>` joined by `,`
    match Opy.Gen.guardTable.find? (fun s => s.cls == cls && s.attr == attr), parseGuardVal rest with
    | some s, some v =>
      let kv : List (String × G.Num × Nat) := if attrs == "-" then [] else (attrs.splitOn ",").filterMap fun tok =>
        match tok.splitOn ":" with
        | [k, n, l] => match (n.drop 1).toString.splitOn "/", l.toNat? with
          | [a, b], some l => match a.toInt?, b.toNat? with
            | some a, some b => some (k, G.Num.fin ((a : Rat) / (b : Rat)), l) | _, _ => none
          | _, _ => none
        | _ => none
      let ctx : G.Ctx := { attr := fun k => match kv.find? (·.1 == k) with | some (_, n, _) => n | none => .fin 0,
                           attrNat := fun k => match kv.find? (·.1 == k) with | some (_, _, l) => l | none => 0 }
      (d, match G.firstError ctx v s.guards with | none => "accept" | some e => errStr e)
    | none, _ => (d, "no-setter")
    | _, none => (d, "bad-op")
  | ["lit"] =>
    (d, s!"{showF eps} {Opy.Gen.floatMaxKey} {showF (3.141592653589793 : Float)} {showF (10e-4 / 0.9 : Float)}")
  | [] => (d, "")
  | _ => (d, "bad-op")

partial def loop (h : IO.FS.Stream) (out : IO.FS.Stream) (d : DState) : IO Unit := do
  let line ← h.getLine
  if line.isEmpty then return ()
  let (d', o) := step d line
  out.putStrLn o
  out.flush
  loop h out d'

def main : IO Unit := do loop (← IO.getStdin) (← IO.getStdout) {}
