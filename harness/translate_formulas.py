"""Translator, part 2: closed NumPy formulas -> `FExpr` terms (lean/OpyVerif/Model/FExpr.lean).

Regenerated on every run from the current working tree (pure `ast`; nothing is imported):
  * the 17 active functions of math/benchmark.py, whole bodies (locals and calls inlined);
  * hypercomplex.span / norm;
  * the self-adapting hyperparameter updates (AIWPSO w, IHS PAR and bw, SA T, FA alpha, WCA d_max);
  * generate_levy_distribution (sigma and the step), the random wrappers' argument order,
    the Bernoulli threshold rule, the tournament rule, the weighted-sum fold;
  * the table of *all* writes to public attributes of an optimizer outside construction
    (which methods assign which `self.<hp>`, and every `_build/_rebuild/setattr` call there).
Anything the reader does not recognise becomes `.unknown "<source>"`, which no expected term contains.
"""
import ast, os, re, sys
sys.path.insert(0, os.path.dirname(os.path.abspath(__file__)))
import inline

REPO = os.environ.get('VERIF_REPO', '/repo')

FN1 = {'np.sqrt': 'sqrt', 'np.exp': 'exp', 'np.log': 'log', 'np.sin': 'sin', 'np.cos': 'cos',
       'np.fabs': 'abs', 'np.abs': 'abs', 'np.absolute': 'abs',
       'gamma': 'gamma', 'math.gamma': 'gamma', 'sin': 'sin', 'math.sin': 'sin', 'cos': 'cos', 'math.cos': 'cos',
       'sqrt': 'sqrt', 'math.sqrt': 'sqrt', 'exp': 'exp', 'math.exp': 'exp', 'log': 'log', 'math.log': 'log',
       'fabs': 'abs', 'math.fabs': 'abs'}
RED = {'np.sum': 'sum', 'np.prod': 'prod'}
BIN2 = {'np.add': 'add', 'np.subtract': 'sub', 'np.multiply': 'mul', 'np.divide': 'div', 'np.true_divide': 'div'}


def lean_str(s):
    return '"' + s.replace('\\', '\\\\').replace('"', '\\"').replace('\n', ' ') + '"'


def sci(src):
    m = re.fullmatch(r'(\d*)(?:\.(\d*))?(?:[eE]([+-]?\d+))?', src.strip())
    if not m or not (m.group(1) or m.group(2)):
        return None
    ip, fp, ex = m.group(1) or '', m.group(2) or '', int(m.group(3) or 0)
    mant = int((ip + fp) or '0')
    e10 = ex - len(fp)
    return mant, e10 < 0, abs(e10)


class Reader:
    """expression reader for one module; `vec` is the name of the vector argument (or None)"""

    def __init__(self, src, funcs=None):
        self.src = src
        self.funcs = funcs or {}

    def unknown(self, n):
        return f'(.unknown {lean_str(ast.unparse(n)[:60])})'

    def expr(self, n, env, vec):
        E = lambda m: self.expr(m, env, vec)
        if isinstance(n, ast.Name):
            if n.id in env:
                return env[n.id]
            if n.id == vec:
                return '.x'
            if n.id == 'pi':
                return '.pi'
            return f'(.var {lean_str(n.id)})'
        if isinstance(n, ast.Constant):
            if isinstance(n.value, bool):
                return self.unknown(n)
            if isinstance(n.value, int) and n.value >= 0:
                return f'(.nat {n.value})'
            if isinstance(n.value, float):
                seg = ast.get_source_segment(self.src, n) or repr(n.value)
                s = sci(seg)
                if s:
                    return f'(.sci {s[0]} {str(s[1]).lower()} {s[2]})'
            return self.unknown(n)
        if isinstance(n, ast.Attribute):
            u = ast.unparse(n)
            if u in ('np.pi', 'math.pi'):
                return '.pi'
            if u in ('np.e', 'math.e'):
                return '.e'
            if isinstance(n.value, ast.Name) and n.value.id in ('self', 'space', 'c'):
                return f'(.var {lean_str(u)})'
            return self.unknown(n)
        if isinstance(n, ast.Subscript):
            u = ast.unparse(n)
            if vec and u in (f'{vec}.shape[0]', f'{vec}.shape[1]', f'len({vec})'):
                # benchmark functions: x.shape[0] = n; span: array.shape[1] = n_dimensions = row length
                return '.len'
            if isinstance(n.slice, ast.Slice) and n.slice.step is None:
                lo, hi = n.slice.lower, n.slice.upper
                if lo is None and hi is not None and ast.unparse(hi) == '-1':
                    return f'(.init {E(n.value)})'
                if hi is None and lo is not None and ast.unparse(lo) == '1':
                    return f'(.tail {E(n.value)})'
            return self.unknown(n)
        if isinstance(n, ast.UnaryOp):
            if isinstance(n.op, ast.USub):
                return f'(.neg {E(n.operand)})'
            if isinstance(n.op, ast.UAdd):
                return E(n.operand)
            return self.unknown(n)
        if isinstance(n, ast.BinOp):
            if isinstance(n.op, ast.Pow):
                if isinstance(n.right, ast.Constant) and isinstance(n.right.value, int) \
                        and not isinstance(n.right.value, bool) and n.right.value >= 0:
                    return f'(.ipow {E(n.left)} {n.right.value})'
                return f'(.pow {E(n.left)} {E(n.right)})'
            k = {ast.Add: 'add', ast.Sub: 'sub', ast.Mult: 'mul', ast.Div: 'div'}.get(type(n.op))
            if k:
                return f'(.{k} {E(n.left)} {E(n.right)})'
            return self.unknown(n)
        if isinstance(n, ast.Call):
            f = ast.unparse(n.func)
            # `np.asarray(E, dtype=float)` / `E.astype(float)`: the same real numbers (only their machine type changes)
            if f in ('np.asarray', 'np.array', 'np.asfarray') and len(n.args) == 1 \
                    and all(k.arg == 'dtype' and ast.unparse(k.value) in ('float', 'np.float64') for k in n.keywords):
                return E(n.args[0])
            if isinstance(n.func, ast.Attribute) and n.func.attr == 'astype' and len(n.args) == 1 and not n.keywords \
                    and ast.unparse(n.args[0]) in ('float', 'np.float64'):
                return E(n.func.value)
            if n.keywords and not (f == 'np.linalg.norm'):
                return self.unknown(n)
            if f in BIN2 and len(n.args) == 2:
                return f'(.{BIN2[f]} {E(n.args[0])} {E(n.args[1])})'
            if f == 'np.power' and len(n.args) == 2:
                return E(ast.BinOp(left=n.args[0], op=ast.Pow(), right=n.args[1]))
            if f == 'np.negative' and len(n.args) == 1:
                return f'(.neg {E(n.args[0])})'
            if f in FN1 and len(n.args) == 1:
                return f'(.fn .{FN1[f]} {E(n.args[0])})'
            if f in RED and len(n.args) == 1:
                return f'(.{RED[f]} {E(n.args[0])})'
            if f == 'len' and len(n.args) == 1:
                return f'(.var {lean_str(ast.unparse(n))})'
            if f == 'np.linalg.norm' and len(n.args) == 1:
                kw = {k.arg: ast.unparse(k.value) for k in n.keywords}
                if kw in ({}, {'axis': '1'}):
                    # row-wise Euclidean norm of a 2-D array = the norm of each row (modelled per row)
                    return f'(.norm {E(n.args[0])})'
                return self.unknown(n)
            if f in self.funcs and len(n.args) == len(self.funcs[f].args.args) and not n.keywords:
                # inline a module-level function: its vector argument is the first parameter
                g = self.funcs[f]
                params = [a.arg for a in g.args.args]
                sub = {p: E(a) for p, a in zip(params, n.args)}
                return self.body(g, sub, None)
            return self.unknown(n)
        return self.unknown(n)

    def body(self, fn, env0=None, vec='__first__'):
        """whole function body: simple assignments are substituted, the returned expression is the result"""
        env = dict(env0 or {})
        if fn.decorator_list:
            return f'(.unknown {lean_str("decorated: " + ast.unparse(fn.decorator_list[0])[:40])})'
        if vec == '__first__':
            vec = fn.args.args[0].arg if fn.args.args else None
        for st in fn.body:
            if isinstance(st, ast.Expr) and isinstance(st.value, ast.Constant):
                continue
            if isinstance(st, ast.Assign) and len(st.targets) == 1 and isinstance(st.targets[0], ast.Name):
                v = st.value
                # `lb = np.array(lb)` / `np.asarray(lb)`: the same values as an array
                if isinstance(v, ast.Call) and ast.unparse(v.func) in ('np.array', 'np.asarray') and len(v.args) == 1 and not v.keywords:
                    v = v.args[0]
                env[st.targets[0].id] = self.expr(v, env, vec)
                continue
            if isinstance(st, ast.Return) and st.value is not None:
                return self.expr(st.value, env, vec)
            return f'(.unknown {lean_str("stmt: " + ast.unparse(st)[:60])})'
        return '(.unknown "no return")'


def module_funcs(path):
    src = open(path).read()
    t = inline.parse(path)
    return src, {f.name: f for f in t.body if isinstance(f, ast.FunctionDef)}


def classes_of(path):
    src = open(path).read()
    t = inline.parse(path)
    return src, {c.name: c for c in t.body if isinstance(c, ast.ClassDef)}


def method(cls, name):
    return next((f for f in cls.body if isinstance(f, ast.FunctionDef) and f.name == name), None)


# ------------------------------------------------------------------ benchmarks / span
def extract_benchmarks():
    src, funcs = module_funcs(f'{REPO}/opytimizer/math/benchmark.py')
    r = Reader(src, funcs)
    pin = inline.pinned().get('opytimizer/math/benchmark.py', {}).get('<module>', [])
    return [(name, r.body(f)) for name, f in funcs.items() if not (name.startswith('_') and name not in pin)]


def extract_span():
    src, funcs = module_funcs(f'{REPO}/opytimizer/math/hypercomplex.py')
    r = Reader(src, funcs)
    out = {}
    if 'span' in funcs:
        f = funcs['span']
        params = [a.arg for a in f.args.args]
        out['span'] = r.body(f) if params == ['array', 'lb', 'ub'] else f'(.unknown {lean_str("params " + ",".join(params))})'
    else:
        out['span'] = '(.unknown "span missing")'
    out['norm'] = r.body(funcs['norm']) if 'norm' in funcs else '(.unknown "norm missing")'
    return out


# ------------------------------------------------------------------ schedules
SCHEDULES = [  # (name, file, class, method, attribute)
    ('aiwpso_w', 'aiwpso', 'AIWPSO', '_compute_success', 'w'),
    ('ihs_PAR', 'ihs', 'IHS', 'run', 'PAR'),
    ('ihs_bw', 'ihs', 'IHS', 'run', 'bw'),
    ('sa_T', 'sa', 'SA', '_update', 'T'),
    ('fa_alpha', 'fa', 'FA', '_update', 'alpha'),
    ('wca_dmax', 'wca', 'WCA', 'run', 'd_max'),
]
AUG = {ast.Add: 'add', ast.Sub: 'sub', ast.Mult: 'mul', ast.Div: 'div'}


def assigns_in(fn, attr):
    """every statement of `fn` (any depth) that assigns self.<attr>, with the simple local assignments
    that precede it in its own block (for substitution)"""
    found = []
    # a local may be substituted only if it is assigned exactly once in the whole function and never
    # updated in place (loop counters such as `p += 1` stay free variables)
    count = {}
    for n in ast.walk(fn):
        if isinstance(n, ast.Assign):
            for t in n.targets:
                for m in ast.walk(t):
                    if isinstance(m, ast.Name):
                        count[m.id] = count.get(m.id, 0) + 1
        elif isinstance(n, (ast.AugAssign, ast.For)):
            for m in ast.walk(n.target):
                if isinstance(m, ast.Name):
                    count[m.id] = count.get(m.id, 0) + 2

    def ctx_of(st):
        if isinstance(st, ast.For):
            return f'for {ast.unparse(st.target)} in {ast.unparse(st.iter)}'
        if isinstance(st, ast.While):
            return f'while {ast.unparse(st.test)}'
        if isinstance(st, ast.If):
            return f'if {ast.unparse(st.test)}'
        return type(st).__name__

    def walk(block, env_stmts, ctx=()):
        local = list(env_stmts)
        for st in block:
            if isinstance(st, ast.Assign) and len(st.targets) == 1:
                t = st.targets[0]
                if isinstance(t, ast.Name):
                    if count.get(t.id) == 1:
                        local.append(st)
                elif isinstance(t, ast.Attribute) and ast.unparse(t) == f'self.{attr}':
                    found.append((st, list(local), list(ctx)))
            elif isinstance(st, ast.AugAssign) and ast.unparse(st.target) == f'self.{attr}':
                found.append((st, list(local), list(ctx)))
            for fld in ('body', 'orelse', 'finalbody', 'handlers'):
                sub = getattr(st, fld, None)
                if isinstance(sub, list) and sub and isinstance(sub[0], (ast.stmt, ast.ExceptHandler)):
                    if isinstance(sub[0], ast.ExceptHandler):
                        for h in sub:
                            walk(h.body, local, ctx + ('except',))
                    else:
                        walk(sub, local, ctx + ((ctx_of(st) + (' [else]' if fld == 'orelse' else '')),))
    walk(fn.body, [])
    return found


def extract_schedules():
    out = []
    ctxs = []
    for name, fl, cl, me, attr in SCHEDULES:
        path = f'{REPO}/opytimizer/optimizers/{fl}.py'
        try:
            src, classes = classes_of(path)
        except OSError:
            out.append((name, '(.unknown "file missing")'))
            continue
        fn = method(classes.get(cl), me) if cl in classes else None
        if fn is None:
            out.append((name, '(.unknown "method missing")'))
            continue
        sites = assigns_in(fn, attr)
        if len(sites) != 1:
            out.append((name, f'(.unknown {lean_str(str(len(sites)) + " assignments")})'))
            continue
        st, local, ctx = sites[0]
        ctxs.append((name, ctx))
        r = Reader(src)
        env = {}
        for a in local:
            env[a.targets[0].id] = r.expr(a.value, env, None)
        # loop variable `t` and counters stay free variables
        if isinstance(st, ast.AugAssign):
            k = AUG.get(type(st.op))
            e = f'(.{k} (.var {lean_str("self." + attr)}) {r.expr(st.value, env, None)})' if k else r.unknown(st)
        else:
            e = r.expr(st.value, env, None)
        out.append((name, e))
    return out, ctxs


# ------------------------------------------------------------------ attribute writes outside construction
CONSTRUCTION = {'__init__', '_build', '_rebuild'}
OPT_FILES = ['abc', 'aiwpso', 'ba', 'bha', 'cs', 'fa', 'fpa', 'gp', 'gsa', 'hc', 'hs', 'ihs',
             'pso', 'rpso', 'sa', 'sca', 'wca']


def is_setter(fn):
    return any(isinstance(d, ast.Attribute) and d.attr == 'setter' for d in fn.decorator_list)


def is_property(fn):
    return any(isinstance(d, ast.Name) and d.id == 'property' for d in fn.decorator_list)


def extract_writes():
    """[(Class, method, what)] for every write to a public attribute of self, and every call that can
    rewrite hyperparameters wholesale, in methods that run after construction"""
    out = []
    for fl in OPT_FILES + ['../core/optimizer']:
        path = os.path.normpath(f'{REPO}/opytimizer/optimizers/{fl}.py')
        try:
            src, classes = classes_of(path)
        except OSError:
            out.append((fl, '?', 'file missing'))
            continue
        for cname, cls in classes.items():
            for fn in cls.body:
                if not isinstance(fn, ast.FunctionDef) or fn.name in CONSTRUCTION or is_setter(fn) or is_property(fn):
                    continue
                for n in ast.walk(fn):
                    tgts = []
                    if isinstance(n, ast.Assign):
                        tgts = n.targets
                    elif isinstance(n, (ast.AugAssign, ast.AnnAssign)):
                        tgts = [n.target]
                    flat = []
                    for t in tgts:
                        flat += t.elts if isinstance(t, (ast.Tuple, ast.List)) else [t]
                    for t in flat:
                        # self.x = ..., self.x[i] = ..., self.x.y = ...
                        base = t
                        while isinstance(base, (ast.Subscript, ast.Attribute)) and not (
                                isinstance(base, ast.Attribute) and isinstance(base.value, ast.Name) and base.value.id == 'self'):
                            base = base.value
                        if isinstance(base, ast.Attribute) and isinstance(base.value, ast.Name) and base.value.id == 'self':
                            out.append((cname, fn.name, base.attr.lstrip('_') if base.attr.startswith('_') and not base.attr.startswith('__') else base.attr))
                    if isinstance(n, ast.Call):
                        f = ast.unparse(n.func)
                        if f in ('self._build', 'self._rebuild', 'setattr', 'self.__dict__.update', 'vars(self).update',
                                 'self.__setattr__', 'object.__setattr__', 'self.__init__', 'super().__init__') \
                                or f.endswith('._build') or f.endswith('._rebuild') or f.endswith('.__init__'):
                            out.append((cname, fn.name, 'call ' + f))
    return out


# ------------------------------------------------------------------ levy / wrappers / bernoulli / tournament / weighted
def extract_levy():
    src, funcs = module_funcs(f'{REPO}/opytimizer/math/distribution.py')
    f = funcs.get('generate_levy_distribution')
    if f is None:
        return '(.unknown "missing")'
    r = Reader(src)
    env = {}
    gauss = 0
    for st in f.body:
        if isinstance(st, ast.Expr) and isinstance(st.value, ast.Constant):
            continue
        if isinstance(st, ast.Assign) and len(st.targets) == 1 and isinstance(st.targets[0], ast.Name):
            v = st.value

            def repl(node):
                # r.generate_gaussian_random_number(size=size) -> the next standard draw g1, g2, ...
                nonlocal gauss
                if isinstance(node, ast.Call) and ast.unparse(node.func) in ('r.generate_gaussian_random_number',) \
                        and not node.args and [k.arg for k in node.keywords] == ['size']:
                    gauss += 1
                    return ast.Name(id=f'g{gauss}', ctx=ast.Load())
                for fld, val in ast.iter_fields(node):
                    if isinstance(val, ast.AST):
                        setattr(node, fld, repl(val))
                    elif isinstance(val, list):
                        setattr(node, fld, [repl(x) if isinstance(x, ast.AST) else x for x in val])
                return node
            v = repl(v)
            env[st.targets[0].id] = r.expr(v, env, None)
            continue
        if isinstance(st, ast.Return) and st.value is not None:
            return r.expr(st.value, env, None)
        return f'(.unknown {lean_str(ast.unparse(st)[:60])})'
    return '(.unknown "no return")'


def extract_wrappers():
    """argument order handed to np.random.uniform / normal by the two wrappers"""
    src, funcs = module_funcs(f'{REPO}/opytimizer/math/random.py')
    out = {}
    for name, np_name in (('generate_uniform_random_number', 'np.random.uniform'),
                          ('generate_gaussian_random_number', 'np.random.normal')):
        f = funcs.get(name)
        ok = []
        if f is not None:
            params = [a.arg for a in f.args.args]
            defaults = [ast.unparse(d) for d in f.args.defaults]
            env = {}
            for st in f.body:
                if isinstance(st, ast.Assign) and len(st.targets) == 1 and isinstance(st.targets[0], ast.Name):
                    env[st.targets[0].id] = st.value
                if isinstance(st, ast.Return):
                    v = st.value
                    if isinstance(v, ast.Name) and v.id in env:
                        v = env[v.id]
                    if isinstance(v, ast.Call) and ast.unparse(v.func) == np_name:
                        # keywords are placed where NumPy's signature puts them
                        order = {'np.random.uniform': ['low', 'high', 'size'], 'np.random.normal': ['loc', 'scale', 'size']}[np_name]
                        slots = [ast.unparse(a) for a in v.args]
                        kw = {k.arg: ast.unparse(k.value) for k in v.keywords}
                        if all(k in order[len(slots):] for k in kw) and all(k in kw for k in order[len(slots):len(slots) + len(kw)]):
                            ok = slots + [kw[k] for k in order[len(slots):len(slots) + len(kw)]]
            out[name] = dict(params=params, defaults=defaults, call=ok)
        else:
            out[name] = dict(params=[], defaults=[], call=[])
    return out


def extract_bernoulli():
    """(compare op, value when true, value when false, draw low, draw high) of the threshold loop"""
    src, funcs = module_funcs(f'{REPO}/opytimizer/math/distribution.py')
    f = funcs.get('generate_bernoulli_distribution')
    res = dict(op='?', t='?', f='?', low='?', high='?', loop='?')
    if f is None:
        return res
    for n in ast.walk(f):
        if isinstance(n, ast.Assign) and isinstance(n.value, ast.Call) and ast.unparse(n.value.func) == 'r.generate_uniform_random_number':
            a = [ast.unparse(x) for x in n.value.args]
            if len(a) == 3:
                res['low'], res['high'] = a[0], a[1]
        if isinstance(n, ast.For):
            res['loop'] = ast.unparse(n.iter)
            zipped = None
            if ast.unparse(n.iter) == 'zip(range(size), r1)' and isinstance(n.target, ast.Tuple) and len(n.target.elts) == 2 \
                    and all(isinstance(e, ast.Name) for e in n.target.elts) and n.target.elts[0].id == 'i':
                # the same indices with the draw bound alongside
                res['loop'] = 'range(size)'
                zipped = n.target.elts[1].id
            ifs = [s for s in n.body if isinstance(s, ast.If)]
            others = [s for s in n.body if not isinstance(s, ast.If) and not (isinstance(s, ast.Assign) and ast.unparse(s.value) == 'r1[i]')]
            if len(ifs) == 1 and not others:
                i = ifs[0]
                if isinstance(i.test, ast.Compare) and len(i.test.ops) == 1:
                    l, rr = ast.unparse(i.test.left), ast.unparse(i.test.comparators[0])
                    if zipped:
                        l = 'r1[i]' if l == zipped else l
                        rr = 'r1[i]' if rr == zipped else rr
                    # a local holding r1[i]
                    for a_ in n.body:
                        if isinstance(a_, ast.Assign) and len(a_.targets) == 1 and isinstance(a_.targets[0], ast.Name) and ast.unparse(a_.value) == 'r1[i]':
                            l = 'r1[i]' if l == a_.targets[0].id else l
                            rr = 'r1[i]' if rr == a_.targets[0].id else rr
                    op = {ast.Lt: 'lt', ast.LtE: 'le', ast.Gt: 'gt', ast.GtE: 'ge'}.get(type(i.test.ops[0]), '?')
                    if (l, rr) == ('r1[i]', 'prob'):
                        res['op'] = op
                    elif (l, rr) == ('prob', 'r1[i]'):
                        res['op'] = {'lt': 'gt', 'le': 'ge', 'gt': 'lt', 'ge': 'le'}.get(op, '?')
                if len(i.body) == 1 and isinstance(i.body[0], ast.Assign) and ast.unparse(i.body[0].targets[0]) == 'bernoulli_array[i]':
                    res['t'] = ast.unparse(i.body[0].value)
                if len(i.orelse) == 1 and isinstance(i.orelse[0], ast.Assign) and ast.unparse(i.orelse[0].targets[0]) == 'bernoulli_array[i]':
                    res['f'] = ast.unparse(i.orelse[0].value)
                elif not i.orelse and any(isinstance(a_, ast.Assign) and ast.unparse(a_.targets[0]) == 'bernoulli_array'
                                          and ast.unparse(a_.value) in ('np.zeros(size)', 'np.zeros(size, dtype=float)') for a_ in f.body):
                    res['f'] = '0'     # the array starts as zeros and the false branch leaves it alone
    return res


def extract_tournament():
    src, funcs = module_funcs(f'{REPO}/opytimizer/math/general.py')
    f = funcs.get('tournament_selection')
    res = dict(rounds='?', draws='?', source='?', pick='?')
    if f is None:
        return res
    body_ = [s_ for s_ in f.body if not (isinstance(s_, ast.Expr) and isinstance(s_.value, ast.Constant))]
    res['returns_selected'] = (len(body_) == 3 and ast.unparse(body_[0]) == 'selected = []' and isinstance(body_[1], ast.For)
                               and not body_[1].orelse and ast.unparse(body_[2]) == 'return selected')
    if len(body_) == 1 and isinstance(body_[0], ast.Return) and isinstance(body_[0].value, ast.ListComp) and len(body_[0].value.generators) == 1 \
            and not body_[0].value.generators[0].ifs:
        # the whole function as one comprehension over the rounds (what the normal forms make of an inlined round helper)
        lc = body_[0].value
        res['rounds'] = ast.unparse(lc.generators[0].iter)
        res['returns_selected'] = True
        pk = lc.elt
        comps = [m for m in ast.walk(pk) if isinstance(m, ast.ListComp)]
        if len(comps) == 1 and len(comps[0].generators) == 1:
            res['draws'] = ast.unparse(comps[0].generators[0].iter)
            res['source'] = ast.unparse(comps[0].elt)
            class _Step0(ast.NodeTransformer):
                def visit_ListComp(self, m):
                    return ast.Name(id='step', ctx=ast.Load())
            import copy as _copy1
            res['pick'] = ast.unparse(_Step0().visit(_copy1.deepcopy(pk)))
        return res
    for n in ast.walk(f):
        if isinstance(n, ast.For) and n in f.body:
            res['rounds'] = ast.unparse(n.iter)
            loc = {}
            for st in n.body:
                if isinstance(st, ast.Assign) and isinstance(st.value, ast.ListComp) and len(st.value.generators) == 1:
                    res['draws'] = ast.unparse(st.value.generators[0].iter)
                    res['source'] = ast.unparse(st.value.elt)
                # step = []; for _ in range(k): step.append(np.random.choice(fitness))
                if isinstance(st, ast.For) and len(st.body) == 1 and isinstance(st.body[0], ast.Expr) and isinstance(st.body[0].value, ast.Call) \
                        and ast.unparse(st.body[0].value.func) == 'step.append' and len(st.body[0].value.args) == 1 \
                        and any(isinstance(p_, ast.Assign) and ast.unparse(p_) == 'step = []' for p_ in n.body):
                    res['draws'] = ast.unparse(st.iter)
                    res['source'] = ast.unparse(st.body[0].value.args[0])
                if isinstance(st, ast.Assign) and len(st.targets) == 1 and isinstance(st.targets[0], ast.Name) and ast.unparse(st.value) == 'min(step)':
                    loc[st.targets[0].id] = 'min(step)'
                if isinstance(st, ast.Expr) and isinstance(st.value, ast.Call) and ast.unparse(st.value.func) == 'selected.append' \
                        and len(st.value.args) == 1:
                    pk = st.value.args[0]
                    # the round's list of drawn values written in place (a helper that was a chain of assignments)
                    comps = [m for m in ast.walk(pk) if isinstance(m, ast.ListComp)]
                    if len(comps) == 1 and len(comps[0].generators) == 1 and res['draws'] == '?':
                        res['draws'] = ast.unparse(comps[0].generators[0].iter)
                        res['source'] = ast.unparse(comps[0].elt)
                        class _Step(ast.NodeTransformer):
                            def visit_ListComp(self, m):
                                return ast.Name(id='step', ctx=ast.Load())
                        import copy as _copy0
                        pk = _Step().visit(_copy0.deepcopy(pk))
                    class Sub(ast.NodeTransformer):
                        def visit_Name(self, m):
                            return ast.parse(loc[m.id], mode='eval').body if m.id in loc else m
                    import copy as _copy
                    res['pick'] = ast.unparse(Sub().visit(_copy.deepcopy(pk)))
                    # a local holding the winner index
                    if isinstance(pk, ast.Name):
                        for p_ in n.body:
                            if isinstance(p_, ast.Assign) and len(p_.targets) == 1 and ast.unparse(p_.targets[0]) == pk.id:
                                res['pick'] = ast.unparse(Sub().visit(_copy.deepcopy(p_.value)))
    return res


def extract_weighted():
    src, classes = classes_of(f'{REPO}/opytimizer/functions/weighted.py')
    res = dict(init='?', zip='?', targets='?', body='(.unknown "missing")', ret='?')
    cls = classes.get('WeightedFunction')
    fn = method(cls, '_create_strategy') if cls else None
    if fn is None:
        return res
    inner = next((s for s in fn.body if isinstance(s, ast.FunctionDef)), None)
    if inner is None:
        return res
    # a closure that only forwards to a method (`return self.m(x)`) is read through that method
    fw = [s for s in inner.body if not (isinstance(s, ast.Expr) and isinstance(s.value, ast.Constant))]
    if len(fw) == 1 and isinstance(fw[0], ast.Return) and isinstance(fw[0].value, ast.Call) and not fw[0].value.keywords \
            and isinstance(fw[0].value.func, ast.Attribute) and ast.unparse(fw[0].value.func.value) == 'self' \
            and [ast.unparse(a) for a in fw[0].value.args] == [inner.args.args[0].arg]:
        m = method(cls, fw[0].value.func.attr)
        if m is not None and len(m.args.args) == 2:
            inner = ast.FunctionDef(name=m.name, args=ast.arguments(posonlyargs=[], args=[m.args.args[1]], kwonlyargs=[], kw_defaults=[], defaults=[]),
                                    body=m.body, decorator_list=[])
    stmts = [s for s in inner.body if not (isinstance(s, ast.Expr) and isinstance(s.value, ast.Constant))]
    if len(stmts) == 3 and isinstance(stmts[0], ast.Assign) and isinstance(stmts[1], ast.For) and isinstance(stmts[2], ast.Return):
        res['init'] = ast.unparse(stmts[0])
        res['zip'] = ast.unparse(stmts[1].iter)
        res['targets'] = ast.unparse(stmts[1].target)
        res['ret'] = ast.unparse(stmts[2].value)
        body = stmts[1].body
        if len(body) == 1 and isinstance(body[0], (ast.AugAssign, ast.Assign)):
            st = body[0]
            r = Reader(src)

            class CallSub(ast.NodeTransformer):
                def visit_Call(self, node):
                    if ast.unparse(node) == f'f.pointer({inner.args.args[0].arg})' or ast.unparse(node) == f'f({inner.args.args[0].arg})':
                        return ast.Name(id='fx', ctx=ast.Load())
                    return self.generic_visit(node)
            if isinstance(st, ast.AugAssign) and ast.unparse(st.target) == 'z':
                k = AUG.get(type(st.op))
                v = CallSub().visit(st.value)
                res['body'] = f'(.{k} (.var "z") {r.expr(v, {}, None)})' if k else r.unknown(st)
            elif isinstance(st, ast.Assign) and ast.unparse(st.targets[0]) == 'z':
                res['body'] = r.expr(CallSub().visit(st.value), {}, None)
    return res


def tourn_prog(tour):
    """the string reading of `tournament_selection` as a structured TournProg (Model/SelectProg.lean)"""
    b = lambda v: 'true' if v else 'false'
    agg, pick = '.other', '.other'
    try:
        e = ast.parse(tour['pick'], mode='eval').body
        # np.where(AGG(step) == fitness)[0][K]
        if isinstance(e, ast.Subscript) and isinstance(e.value, ast.Subscript) and ast.unparse(e.value.slice) == '0' \
                and isinstance(e.value.value, ast.Call) and ast.unparse(e.value.value.func) == 'np.where' and len(e.value.value.args) == 1:
            c = e.value.value.args[0]
            if isinstance(c, ast.Compare) and len(c.ops) == 1 and isinstance(c.ops[0], ast.Eq):
                sides = [ast.unparse(c.left), ast.unparse(c.comparators[0])]
                if 'fitness' in sides:
                    other = sides[1 - sides.index('fitness')]
                    agg = {'min(step)': '.min', 'np.min(step)': '.min', 'max(step)': '.max', 'np.max(step)': '.max'}.get(other, '.other')
                    pick = {'0': '.firstEq', '-1': '.lastEq'}.get(ast.unparse(e.slice), '.other')
    except SyntaxError:
        pass
    return ('{ roundsRangeN := %s, drawsConstSize := %s, drawsFromFitness := %s, agg := %s, pick := %s, appendsInOrder := %s }'
            % (b(tour['rounds'] == 'range(n)'), b(tour['draws'] == 'range(c.TOURNAMENT_SIZE)'), b(tour['source'] == 'np.random.choice(fitness)'),
               agg, pick, b(tour.get('returns_selected', False))))


def bern_prog(bern):
    b = lambda v: 'true' if v else 'false'
    nat = lambda v: v if v.isdigit() else '999'
    return ('{ drawsUnit := %s, loopRangeSize := %s, cmp := %s, thenVal := %s, elseVal := %s }'
            % (b((bern['low'], bern['high']) == ('0', '1')), b(bern['loop'] == 'range(size)'),
               {'lt': '.lt', 'le': '.le', 'gt': '.gt', 'ge': '.ge'}.get(bern['op'], '.other'), nat(bern['t']), nat(bern['f'])))


# ------------------------------------------------------------------ Lean text
def gen_formulas():
    bench = extract_benchmarks()
    span = extract_span()
    sched, sched_ctx = extract_schedules()
    writes = extract_writes()
    levy = extract_levy()
    wrap = extract_wrappers()
    bern = extract_bernoulli()
    tour = extract_tournament()
    wf = extract_weighted()
    L = ['-- GENERATED by harness/translate_formulas.py from math/*.py, functions/weighted.py and the optimizers. Do not edit.',
         'import OpyVerif.Model.FExpected', 'namespace Opy.Gen', 'open Opy', '']
    L.append('def benchExprs : List (String × FExpr) := [')
    L.append(',\n'.join(f'  ({lean_str(n)}, {e})' for n, e in bench))
    L.append(']')
    L.append(f'def spanExpr : FExpr := {span["span"]}')
    L.append(f'def normExpr : FExpr := {span["norm"]}')
    L.append('def scheduleExprs : List (String × FExpr) := [')
    L.append(',\n'.join(f'  ({lean_str(n)}, {e})' for n, e in sched))
    L.append(']')
    L.append('/-- the control structure around each schedule assignment (enclosing loops / conditions, outermost first) -/')
    L.append('def scheduleCtx : List (String × List String) := [' + ', '.join(
        f'({lean_str(n)}, [' + ', '.join(lean_str(c) for c in cx) + '])' for n, cx in sched_ctx) + ']')
    L.append(f'def levyExpr : FExpr := {levy}')
    L.append('def attrWrites : List (String × String × String) := [' +
             ', '.join(f'({lean_str(c)}, {lean_str(m)}, {lean_str(w)})' for c, m, w in writes) + ']')
    sl = lambda xs: '[' + ', '.join(lean_str(x) for x in xs) + ']'
    u, g = wrap['generate_uniform_random_number'], wrap['generate_gaussian_random_number']
    L.append(f'def uniformWrapper : List String × List String × List String := ({sl(u["params"])}, {sl(u["defaults"])}, {sl(u["call"])})')
    L.append(f'def gaussianWrapper : List String × List String × List String := ({sl(g["params"])}, {sl(g["defaults"])}, {sl(g["call"])})')
    L.append(f'def bernoulliRule : List String := {sl([bern["op"], bern["t"], bern["f"], bern["low"], bern["high"], bern["loop"]])}')
    L.append(f'def tournamentRule : List String := {sl([tour["rounds"], tour["draws"], tour["source"], tour["pick"]])}')
    L.append(f'def weightedRule : List String := {sl([wf["init"], wf["zip"], wf["targets"], wf["ret"]])}')
    L.append(f'def weightedBody : FExpr := {wf["body"]}')
    L += ['', 'end Opy.Gen', '']
    defs = '\n'.join(L)
    hdr = lambda: ['-- GENERATED by harness/translate_formulas.py: obligations re-decided on every build. Do not edit.',
                   'import OpyVerif.Generated.FormulasDefs', 'namespace Opy.Gen', 'open Opy']
    T = {}
    t = hdr()
    for n, _ in bench:
        t.append(f'/-- `benchmark.{n}` as read from the source is the expression whose meaning `Proofs/Formulas` ties to `Model/Bench.{n}` -/')
        t.append(f'theorem bench_{n}_eq : benchExprs.lookup {lean_str(n)} = Expected.bench.lookup {lean_str(n)} := by decide +kernel')
    t.append('/-- no benchmark function was added or dropped -/')
    t.append('theorem bench_names_eq : benchExprs.map (·.1) = Expected.bench.map (·.1) := by decide +kernel')
    T['FormulasC17'] = t
    t = hdr()
    t.append('theorem span_eq : spanExpr = Expected.span := by decide +kernel')
    t.append('theorem norm_eq : normExpr = Expected.norm := by decide +kernel')
    T['FormulasC13'] = t
    t = hdr()
    for n, _ in sched:
        t.append(f'theorem sched_{n}_eq : scheduleExprs.lookup {lean_str(n)} = Expected.schedules.lookup {lean_str(n)} := by decide +kernel')
    t.append('/-- every schedule assignment is unconditional inside its method (IHS: inside the iteration loop) -/')
    t.append('theorem scheduleCtx_eq : scheduleCtx = Expected.scheduleCtx := by decide +kernel')
    t.append('/-- the only writes to optimizer attributes after construction are the five self-adapting schedules -/')
    t.append('theorem attrWrites_eq : attrWrites = Expected.attrWrites := by decide +kernel')
    T['FormulasC15'] = t
    t = hdr()
    t.append('theorem weightedRule_eq : weightedRule = Expected.weightedRule ∧ weightedBody = Expected.weightedBody := by decide +kernel')
    T['FormulasC16'] = t
    t = hdr()
    t.append('theorem levy_eq : levyExpr = Expected.levy := by decide +kernel')
    t.append('theorem uniformWrapper_eq : uniformWrapper = Expected.uniformWrapper := by decide +kernel')
    t.append('theorem gaussianWrapper_eq : gaussianWrapper = Expected.gaussianWrapper := by decide +kernel')
    t.append('theorem bernoulliRule_eq : bernoulliRule = Expected.bernoulliRule := by decide +kernel')
    t.append('theorem tournamentRule_eq : tournamentRule = Expected.tournamentRule := by decide +kernel')
    T['FormulasC18'] = t
    texts = {'FormulasDefs': defs}
    tp, bp = tourn_prog(tour), bern_prog(bern)
    texts['SelectDefs'] = '\n'.join(['-- GENERATED by harness/translate_formulas.py from math/general.py, math/distribution.py. Do not edit.',
                                     'import OpyVerif.Model.SelectProg', 'namespace Opy.Gen', 'open Opy', '',
                                     f'def tournProg : TournProg := {tp}', f'def bernProg : BernProg := {bp}', '', 'end Opy.Gen', ''])
    texts['Select'] = '\n'.join(['-- GENERATED by harness/translate_formulas.py: obligations re-decided on every build. Do not edit.',
                                 'import OpyVerif.Generated.SelectDefs', 'namespace Opy.Gen', 'open Opy',
                                 '/-- `tournament_selection` reads as the program `Proofs/SelectProg.tournProg_is_tournament` proves to be `tournament` -/',
                                 'theorem tournProg_eq : tournProg = Expected.tournProg := by decide +kernel',
                                 '/-- `generate_bernoulli_distribution` reads as the program proved to be `bernoulli` -/',
                                 'theorem bernProg_eq : bernProg = Expected.bernProg := by decide +kernel',
                                 'end Opy.Gen', ''])
    for k, t in T.items():
        texts[k] = '\n'.join(t + ['end Opy.Gen', ''])
    data = dict(bench=[n for n, _ in bench], schedules=[n for n, _ in sched], writes=writes,
                unknown=[n for n, e in bench + sched + [('span', span['span']), ('levy', levy)] if '.unknown' in e])
    return texts, data


if __name__ == '__main__':
    t, d = gen_formulas()
    for k, v in t.items():
        print('-----', k)
        print(v)
