"""Writes MANIFEST.json from the table below (run by hand when a check is added)."""
import json, os
HERE = os.path.dirname(os.path.abspath(__file__))
P = {}
for l in open(os.path.join(HERE, '..', 'properties.jsonl')):
    p = json.loads(l)
    P[p['id']] = p

CHECKS = {
 'C01': dict(tech='Lean 4 proof (clip lemmas, evaluation-site semantics, machine sweep lemmas) + regenerated skeleton/site obligations + run-level refinement check',
             text='Theorems: clipPos_inBox/shape for every position incl. infinite keys; site_evals_inBox (a site whose every evaluation follows a clip with no assignment in between only evaluates feasible points, for all oracle values); C01_clip_hook_sweep and C01_best_feasible on the abstract machine; regenerated obligations skel_<kind>_good (clip immediately before hook+sweep in all 17 run() methods) and evalSites_ok (all 11 objective call sites) re-proved by decide on every run. Tie: translator + bit-exact clip correspondence + machine replay of recorded runs (sweep argument = model state).',
             note='lb <= ub; hooks keep positions in the box; NaN excluded from the key model (K4, K5 recorded); per-optimizer update code tied by sampled refinement, not translated', ref='5/C01'),
 'C02': dict(tech='Lean 4 proof: invariant of the abstract optimiser machine by induction over event histories + run-level refinement check',
             text='Theorems C02_best_is_min, C02_best_evaluated, C02_best_antitone, C02_at_return over every event history the machine accepts (all objectives, random streams, sizes, iteration counts), from inv_apply/inv_run (envelope invariant). Tie: every recorded run is replayed event by event on the Lean machine and the model state is compared with the observed population/best at every tap; direct oracle on the real code.',
             note='objective deterministic and < FLOAT_MAX (K6 proved necessary: C02_sentinel_rejected); update arithmetic enters as oracle values; sampled refinement', ref='5/C02'),
 'C03': dict(tech='Lean 4 proof over regenerated run() skeletons (hook/dump/sweep counts by induction on N) + pattern correspondence + direct oracle',
             text='Theorems hook_count, dump_count, sweep_count, sweep_follows_hook, clip_precedes_hook for every skeleton satisfying Good and every N; Good is re-proved (decide +kernel) for each of the 17 run() methods regenerated from source on every run; index_draw_range over the reals. Tie: observed H/S/C/D pattern of every recorded run equals runSkel of the generated skeleton; sweep arguments equal the post-hook state in population order; budgets; no exception.',
             note='partial: liveness is proved for the control-flow skeleton; Python exceptions other than the recorded K2 K3 K4 are observed, not modelled; ABC onlooker termination assumes fair streams', ref='5/C03'),
 'C04': dict(tech='Lean 4 proof about the History model (append-only, frame, store_best_only) + record correspondence on recorded runs',
             text='Theorems dump1_appends, dump1_frame, dump1_prefix, dump_prefix, dump1_store_best_only, dump_series_length/skipped/values (exactly one record per kept key per iteration, earlier records never move). Tie: regenerated HISTORY_KEYS and dumped keys; every record of every returned History compared value for value with the live state snapshotted at dump time, prefix stability at every dump, write-through test after return.',
             note='wall clock non-decreasing (K11)', ref='5/C04'),
 'C05': dict(tech='Lean 4 proof (effect-DSL non-interference, by induction on programs) + two-run differential and entropy audit',
             text='Theorems run_ambient_irrelevant, run_depends_only_on_consumed, run_rng_position, run_consumes, run_deterministic_in_seed over every program of the effect signature {uniform, normal, choice, clock, objective, hook}: results depend on the world only through the consumed stream. Tie: every optimiser x space kind run twice from scratch (different PYTHONHASHSEED, unrelated preceding workload) must give bit-identical digests, seed+1 must differ, and taps on random.*, os.urandom, np.random.default_rng/RandomState find no other entropy source.',
             note='partial: the theorem is structural; that each optimiser is such a program is established by the differential test, not by proof', ref='5/C05'),
 'C06': dict(tech='Lean 4 proof over integer keys of doubles (omega + induction over rows) + bit-exact correspondence of check_limits + regenerated size/bound guards',
             text='Theorems clip_mem/fixed/low/high/idem/nearest, clipPos_inBox/fixed/idem/entry/shape, clipAll_*, clipHyper_*, initSearch_feasible, initHyper_feasible for every position (all non-NaN doubles incl. +-inf through the order-isomorphic key embedding). Tie: Agent/SearchSpace/HyperSpace.check_limits compared bit-exactly with the model on generated positions (bounds, +-1 ulp, far, +-inf), projection and idempotence oracles on the real code, constructors, typed rejections; guard table regenerated.',
             note='lb <= ub; NaN excluded; np.clip = min(max(x, lb), ub) modelled', ref='5/C06'),
 'C08': dict(tech='Lean 4 proof (well-formedness invariant of grow / deepcopy / mutate / cross by structural induction) + exhaustive-to-depth-2 correspondence of the real operators + forest check in GP runs',
             text='Theorems grow_wf, grow_ids_fresh, grow_disjoint, grow_depth_le, grow_terminals, grow_consumes, grow_total, shift_wf, shift_disjoint, setChild_wf, mutate_wf, cross_wf, cross_disjoint, findNode_slot_child_ne_nil for every tree, point, draw list and depth. Tie: TreeSpace.grow, GP._mutate, GP._cross under scripted draws compared with the model (canonical forms) exhaustively over all pairs of parent shapes to depth 2 and all point pairs; Python well-formedness oracle; whole forests at every record of GP runs; N_ARGS_FUNCTION regenerated.',
             note='copy.deepcopy trusted to produce a disjoint copy (modelled as identity shift); population-level selection is an oracle value', ref='5/C08'),
 'C09': dict(tech='Lean 4 proof (slot-exchange / slot-replacement / overwrite-worst specifications) + exhaustive-to-depth-2 correspondence of the real operators',
             text='Theorems cross_spec, cross_spec_slots, cross_no_slot, cross_multiset, cross_frame, mutate_spec(_slot), mutate_no_slot, mutate_multiset, mutate_frame, setChild_childOf_other, argmaxFirst_spec, reproStep_spec, reproduction_paired, reproduction_k_worst_of_pos, reproduction_worst_first; negation reproduction_negative_repeats (K12). Tie: real _cross/_mutate/_reproduction vs the model on every pair of parent shapes to depth 2 x every point pair, every mutation point, scripted tournament outcomes; definition oracles (exact slot exchange, parents untouched, multiset conserved, pairing, deep copies).',
             note='reproduction: "k worst" needs positive fitness (K12 recorded)', ref='5/C09'),
 'C10': dict(tech='Lean 4 proof (totality, shape, per-operator unfolding, protection lemmas over the reals) + per-node Float-twin correspondence',
             text='Theorems evalTree_total, evalTree_shape, evalTree_<op> for all ten operators (operand order explicit), evalTree_shift, evalTree_links_irrelevant; sqrt_abs_defined, log_abs_eps_pos, div_defined_iff. Tie: every function node of every tree compared per node with the model operator applied to the children\'s reported values (bit-exact for + - * / abs sqrt, <= 4 ulp for exp log sin cos), exhaustive over shapes x operator labellings to depth 2, sampled to depth 3; independent NumPy reference; tree unchanged by evaluation; EPSILON and operator table regenerated.',
             note='formula agreement is a correspondence at sampled terminal values; libm rounding within 4 ulp', ref='5/C10'),
 'C11': dict(tech='Lean 4 proof (the code\'s stack / one-stack / BFS loops equal the recursive definitions, for every tree) + exhaustive-to-depth-3 correspondence',
             text='Theorems preOrder_eq_pre, postOrder_eq_post, pre_nodup, post_perm_pre, properties_eq, findNode_terminal, findNode_function, findNode_function_under_root, findNode_out_of_range, findNode_zero_function_root (no depth bound). Tie: real pre_order/post_order/measurements/find_node vs the model on all 183 shapes to depth 3 and every index 0..n+1, grown trees of random function sets, depth-4 samples; recursive Python reference.',
             note='distinct node objects (post_order uses an identity test)', ref='5/C11'),
 'C13': dict(tech='Lean 4 proof over the reals (span range, end points, monotone in the norm) + bit-exact Float-twin correspondence',
             text='Theorems norm_le_sqrt_d, spanRow_mem, spanRow_zeros, spanRow_ones, spanRow_depends_on_norm, spanRow_mono_norm, span_mem, clipHyper_inUnitBox. Tie: the same span definition at Float vs hypercomplex.span bit-exactly (v,d <= 7), float-level range oracle with a 2-ulp allowance, HyperSpace unit-box check.',
             note='partial for rounding: K7 (span(ones) can exceed ub by an ulp) recorded', ref='5/C13'),
 'C14': dict(tech='Lean 4 proof (soundness of the guard/domain matcher for every value) + guard table regenerated from all setters and decided by kernel evaluation + setter correspondence on boundary values',
             text='Theorems agree_sound (guard rejects iff value outside the documented domain, all rationals / +-inf / type tags), accepts_iff_all_domains, setAttr_atomic, nan_accepted; regenerated obligation guard_mismatches: the guards whose condition does not match their message are exactly the recorded ones (decide +kernel over all 129 guards). Tie: every real setter driven with bounds, +-1 step, wrong types, companions at equality and compared with the model setter and the documented domain; atomicity; constructor dictionaries.',
             note='K9 (NaN), K10a-c recorded; Python/NumPy exceptions raised inside guard expressions are outside the model universe', ref='5/C14'),
 'C16': dict(tech='Lean 4 proof (fold = weighted sum over any semiring) + bit-exact correspondence + call-log oracle',
             text='Theorems weighted_eq_sum, weighted_eq_sum_generic, weighted_all_components, weighted_component, weighted_cons/nil. Tie: WeightedFunction.pointer with recording components vs the Float fold bit-exactly; each component called exactly once in order on the unmodified argument; all 17 optimisers run with a WeightedFunction objective.',
             note='single-argument components; equally long lists', ref='5/C16'),
 'C17': dict(tech='Lean 4 proof over the reals (closed forms, lower bounds, values at minimisers; incoherent documented minima refuted) + Float-twin correspondence at sampled points',
             text='53 theorems: <fn>_closed_form for all 17 functions, <fn>_lower_bound and <fn>_at_minimiser for the 12 with coherent documented minima, <fn>_documented_minimum_incoherent for cosine_mixture, styblinski_tang, alpine2, csendes. Tie: library function vs Float instance (1e-9 relative) and vs an independent scalar transcription at minimisers, corners, axis and random points, n = 1..7; documented-minimum oracle.',
             note='formula agreement is a correspondence at sampled points; schwefel/deb2 minima excluded (rounded constant / undefined on half the box)', ref='5/C17'),
 'C18': dict(tech='Lean 4 proof (tournament/pairwise/Bernoulli over keys; affine maps, Levy parity, index draws over the reals) + twin-generator correspondence',
             text='Theorems tournament_length/spec/total, pairwise_join/chunks/get, bernoulli_values/mono/zero/one, uniformAffine_mem, normalAffine_affine, levyStep_eq/odd_u/even_v/defined, index_draw_range. Tie: wrappers under a seeded generator vs the model applied to an identically seeded twin (uniform/normal bit-exact, Bernoulli/tournament/pairwise exact, Levy 1e-9) with contract oracles.',
             note='NumPy generators trusted to be the documented affine maps', ref='5/C18'),
 'C19': dict(tech='Lean 4 proof (get = path + hstack on the discovered shape; load after save) + correspondence on histories of real runs',
             text='Theorems get_type_error, get_size_error, get_ok, get_series_order, hstack_rows, shapeOf_agents_record, shapeOf_best_record, get_best_fitness_series, load_after_save, get_after_load. Tie: History.get on histories of every optimiser, every key and valid index tuple, wrong-type/size indices, vs the model and the definition; save/load round trips.',
             note='pickle trusted; NumPy shape discovery of ragged records modelled', ref='5/C19'),
 'C07': dict(tech='Lean 4 proof (population length and storage identities preserved by every machine event) + run-level refinement check',
             text='Theorems apply_pop_length, run_pop_length, sweep_refs, sweep_pop_refs, trialSwap_refs, best_changes_only_in_sweep_or_swap. Tie: machine replay compares storage identities of every agent and the best at every tap; live np.shares_memory over all pairs at every hook and at return; write-through test.',
             note='observer hooks; identities observed through ndarray base objects', ref='5/C07'),
 'C12': dict(tech='Lean 4 proof about the GP sweep model + run-level refinement check on GP tasks',
             text='Theorems gpSweep_agents, gpSweep_best, gpSweep_best_le, gpSweep_inBox (agent i = clip(value(tree i)), fitness = f there, best = first minimiser below the incumbent). Tie: GP runs replayed on the machine with agent positions abstracted to clip(value(tree_i)); at every record and at return best tree value/position/fitness, per-agent agreement, detachment of the best tree and counts checked on the live objects.',
             note='finite tree values (K4); deepcopy trusted to detach', ref='5/C12'),
 'C15': dict(tech='Lean 4 proof over the reals (schedules in range / antitone, by induction over iterations) + Float-twin correspondence + frame check',
             text='Theorems aiwpsoW_mem, ihsPAR_mem, ihsBw_mem, saT_iter(_antitone), faAlpha_iter(_antitone), wcaDmax_iter(_antitone), success_count_le. Tie: the same definitions instantiated at Float reproduce the hyperparameter values observed at consecutive hooks (bit-exact; 1e-12 for bw, alpha); every non-adaptive hyperparameter compared before/at every hook/after.',
             note='partial for rounding: range claims are over the reals, IEEE excursions <= 2 ulp are the recorded K8', ref='5/C15'),
 'C20': dict(tech='Lean 4 proof (truthfulness flag invariant, greedy monitor, rank lemma) + run-level refinement check',
             text='Theorems C20_records_truthful, sweep_nonswarm_tp, sweep_truthful_same_fit, sweep_swarm_fit_le, greedy_fits_antitone, C20_greedy_agents, replaceWorst_rank_antitone, clipPos_fixed. Tie: machine replay yields the truth flag at every dump; every record re-evaluated with the objective; per-agent / per-rank comparisons over consecutive records.',
             note='deterministic objective; K1 (WCA rains after the sweep) recorded', ref='5/C20'),
}


def main():
    checks = []
    na = []
    for pid in sorted(P):
        if pid in CHECKS:
            c = CHECKS[pid]
            checks.append(dict(property_id=pid, quick_cmd=f'./check {pid} quick', thorough_cmd=f'./check {pid} thorough',
                               evidence_file=f'evidence/{pid}.json', replay_cmd_template='./check replay {path}',
                               engine='lean-proof+correspondence',
                               level_claimed=dict(category='proof', text=c['text'], design_ref='DESIGN.md section ' + c['ref']),
                               level_note=c['note'], technique=c['tech']))
        else:
            na.append(dict(property_id=pid, reason='check under construction in this session (theorems exist in lean/, harness module not yet registered)'))
    m = dict(version=1,
             setup_cmd='cd lean && /venv/bin/python ../harness/translate.py && lake build OpyVerif.All driver',
             hooks=dict(guard='OPYTIMIZER_VERIF', enable='no source hooks: all observation is by monkey-patching from the harness process',
                        baseline_off_cmd='cd /repo && /venv/bin/python -m pytest -q -p no:cacheprovider --timeout=900 --continue-on-collection-errors',
                        source_commits=[], add_only=True),
             engines=[dict(name='lean-proof+correspondence', path='check', serves_properties=sorted(CHECKS),
                           kind_free_text='Lean 4 theorems about executable models (lean/OpyVerif), tied to /repo by a regenerating translator (harness/translate.py) and by differential correspondence through a compiled Lean driver (lean/Driver.lean)')],
             checks=checks, not_applicable=na,
             notes='All checks: ./check <id> quick|thorough (cwd /verif). Known findings: known_findings.json. See DESIGN.md.')
    json.dump(m, open(os.path.join(HERE, '..', 'MANIFEST.json'), 'w'), indent=1)


if __name__ == '__main__':
    main()
